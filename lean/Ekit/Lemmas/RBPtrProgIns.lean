/-
Progress at the pointer level: `Add`, `Find` and `Set` of the translated `internal/tree/red_black_tree.go` always RETURN
(no nil dereference, no ill-typed step, and enough fuel suffices) when started in a heap that holds a tree
(red-black coloured, for `Add`).
-/
import Ekit.Lemmas.RBPtrRBTop
namespace Ekit.MiniGo.RBHeap.ProgIns
open Ekit.MiniGo Ekit.Gen.RBTreeGo Ekit.MiniGo.RBHeap
open Ekit.MiniGo.RBHeap.InsExec Ekit.MiniGo.RBHeap.InsRB

set_option linter.unusedSimpArgs false
set_option linter.unusedVariables false

/-! ### (1) forward equations: the getters, `setColor`, the rotations return on EVERY heap -/

section fwd
variable (cmpF : Int → Int → Int)

theorem getParent_eq (f : Nat) (a : Option Nat) (st : St) :
    call cmpF procs (f + 1) .getParent [.ptr a] st = .ok (.ptr (Fix.fldOf st a .parent), st) := by
  cases a with
  | none => simp [call, runBody, procs, body_getParent, exec, evalE, Env.ofArgs, valEq, Fix.fldOf]
  | some n =>
    simp [call, runBody, procs, body_getParent, exec, evalE, Env.ofArgs, valEq, Node.get, Fix.fldOf, Rot.getP]

theorem getLeft_eq (f : Nat) (a : Option Nat) (st : St) :
    call cmpF procs (f + 1) .getLeft [.ptr a] st = .ok (.ptr (Fix.fldOf st a .left), st) := by
  cases a with
  | none => simp [call, runBody, procs, body_getLeft, exec, evalE, Env.ofArgs, valEq, Fix.fldOf]
  | some n =>
    simp [call, runBody, procs, body_getLeft, exec, evalE, Env.ofArgs, valEq, Node.get, Fix.fldOf, Rot.getP]

theorem getRight_eq (f : Nat) (a : Option Nat) (st : St) :
    call cmpF procs (f + 1) .getRight [.ptr a] st = .ok (.ptr (Fix.fldOf st a .right), st) := by
  cases a with
  | none => simp [call, runBody, procs, body_getRight, exec, evalE, Env.ofArgs, valEq, Fix.fldOf]
  | some n =>
    simp [call, runBody, procs, body_getRight, exec, evalE, Env.ofArgs, valEq, Node.get, Fix.fldOf, Rot.getP]

theorem getColor_eq (f : Nat) (a : Option Nat) (st : St) :
    call cmpF procs (f + 1) .getColor [.ptr a] st = .ok (.bool (colOf st a), st) := by
  cases a with
  | none => simp [call, runBody, procs, body_getColor, exec, evalE, Env.ofArgs, valEq, colOf]
  | some n =>
    simp [call, runBody, procs, body_getColor, exec, evalE, Env.ofArgs, valEq, Node.get, colOf]

theorem setColor_eq (f : Nat) (a : Option Nat) (c : Bool) (st : St) :
    call cmpF procs (f + 1) .setColor [.ptr a, .bool c] st = .ok (.unit, setCol st a c) := by
  cases a with
  | none => simp [call, runBody, procs, body_setColor, exec, evalE, Env.ofArgs, valEq, setCol]
  | some n =>
    simp [call, runBody, procs, body_setColor, exec, evalE, Env.ofArgs, valEq, Node.set, setCol]

theorem getGrandParent_eq (f : Nat) (a : Option Nat) (st : St) :
    call cmpF procs (f + 2) .getGrandParent [.ptr a] st
      = .ok (.ptr (Fix.fldOf st (Fix.fldOf st a .parent) .parent), st) := by
  show runBody cmpF (call cmpF procs (f + 1)) (f + 1) (procs .getGrandParent) [.ptr a] st = _
  cases a with
  | none => simp [runBody, procs, body_getGrandParent, exec, evalE, Env.ofArgs, valEq, Fix.fldOf]
  | some n =>
    simp [runBody, procs, body_getGrandParent, exec, evalE, Env.ofArgs, valEq, getParent_eq]

/-- the brother of `a` -/
def brOf (st : St) (a : Option Nat) : Option Nat :=
  match a with
  | none => none
  | some n =>
    if some n = Fix.fldOf st (Fix.fldOf st (some n) .parent) .left then
      Fix.fldOf st (Fix.fldOf st (some n) .parent) .right
    else Fix.fldOf st (Fix.fldOf st (some n) .parent) .left

theorem getBrother_eq (f : Nat) (a : Option Nat) (st : St) :
    call cmpF procs (f + 2) .getBrother [.ptr a] st = .ok (.ptr (brOf st a), st) := by
  show runBody cmpF (call cmpF procs (f + 1)) (f + 1) (procs .getBrother) [.ptr a] st = _
  cases a with
  | none => simp [runBody, procs, body_getBrother, exec, evalE, Env.ofArgs, valEq, brOf]
  | some n =>
    by_cases hc : some n = Fix.fldOf st (Fix.fldOf st (some n) .parent) .left
    · simp [runBody, procs, body_getBrother, exec, evalE, Env.ofArgs, valEq, getParent_eq, getLeft_eq,
        getRight_eq, brOf, ← hc]
    · have hc' : (some n == Fix.fldOf st (Fix.fldOf st (some n) .parent) .left) = false := by simpa using hc
      simp [runBody, procs, body_getBrother, exec, evalE, Env.ofArgs, valEq, getParent_eq, getLeft_eq,
        getRight_eq, brOf, hc, hc']

theorem getUncle_eq (f : Nat) (a : Option Nat) (st : St) :
    ∃ b, call cmpF procs (f + 3) .getUncle [.ptr a] st = .ok (.ptr b, st) := by
  show ∃ b, runBody cmpF (call cmpF procs (f + 2)) (f + 2) (procs .getUncle) [.ptr a] st = _
  cases a with
  | none => exact ⟨none, by simp [runBody, procs, body_getUncle, exec, evalE, Env.ofArgs, valEq]⟩
  | some n =>
    exact ⟨_, by simp [runBody, procs, body_getUncle, exec, evalE, Env.ofArgs, valEq, getParent_eq,
      getBrother_eq]; rfl⟩

/-- the rest of a rotation after its guard, forwards -/
theorem exec_rotRest_fwd (callH : CallH PName) (lf : Nat) {f g : Fld} {ρ : Env} {n r : Nat} (st : St)
    (hfg : Rot.Sides f g) (h0 : ρ 0 = .ptr (some n)) (hr : Rot.getP (st.h n) f = some r) :
    ∃ ρ', exec cmpF callH lf ρ st (Rot.rotRest f g) = .ok (.normal, ρ', Rot.rotSt f g st n r) := by
  unfold Rot.rotRest
  rw [Rot.exec_seq_normal _ _ _ (Rot.exec_A cmpF callH lf st hfg h0)]
  have h0' : (ρ.set 1 (.ptr (Rot.getP (st.h n) f))) 0 = .ptr (some n) := by simp [Env.set, h0]
  have h1' : (ρ.set 1 (.ptr (Rot.getP (st.h n) f))) 1 = .ptr (some r) := by simp [Env.set, hr]
  rw [Rot.exec_seq_normal _ _ _ (Rot.exec_B cmpF callH lf st hfg h0' h1'),
    Rot.exec_seq_normal _ _ _ (Rot.exec_C cmpF callH lf _ hfg h0' h1'),
    Rot.exec_seq_normal _ _ _ (Rot.exec_D cmpF callH lf _ h0' h1'),
    Rot.exec_seq_normal _ _ _ (Rot.exec_E cmpF callH lf _ hfg h0' h1'),
    Rot.exec_seq_normal _ _ _ (Rot.exec_F cmpF callH lf _ hfg h0' h1'),
    Rot.exec_G cmpF callH lf _ h0' h1']
  exact ⟨_, rfl⟩

theorem run_rotBody_fwd (callH : CallH PName) (lf : Nat) {f g : Fld} (hfg : Rot.Sides f g) (getF : PName)
    (a : Option Nat) (st : St)
    (hget : ∀ n, callH getF [.ptr (some n)] st = .ok (.ptr (Rot.getP (st.h n) f), st)) :
    ∃ st', runBody cmpF callH lf ⟨1, Rot.rotBody f g getF⟩ [.ptr a] st = .ok (.unit, st') := by
  cases a with
  | none => exact ⟨st, by simp [runBody, Rot.rotBody, exec, evalE, Env.ofArgs, valEq]⟩
  | some n =>
    cases hr : Rot.getP (st.h n) f with
    | none =>
      exact ⟨st, by simp [runBody, Rot.rotBody, exec, evalE, Env.ofArgs, valEq, hget, hr]⟩
    | some r =>
      obtain ⟨ρ', he⟩ := exec_rotRest_fwd cmpF callH lf (ρ := Env.ofArgs [.ptr (some n)]) st hfg
        (by simp [Env.ofArgs]) hr
      exact ⟨_, by simp [runBody, Rot.rotBody, exec, evalE, Env.ofArgs, valEq, hget, hr]; simp [Env.ofArgs] at he; rw [he]⟩

theorem rotateLeft_ret (f : Nat) (a : Option Nat) (st : St) :
    ∃ st', call cmpF procs (f + 2) .rotateLeft [.ptr a] st = .ok (.unit, st') :=
  run_rotBody_fwd cmpF (call cmpF procs (f + 1)) (f + 1) (.inl ⟨rfl, rfl⟩) .getRight a st
    (fun n => by rw [getRight_eq]; rfl)

theorem rotateRight_ret (f : Nat) (a : Option Nat) (st : St) :
    ∃ st', call cmpF procs (f + 2) .rotateRight [.ptr a] st = .ok (.unit, st') :=
  run_rotBody_fwd cmpF (call cmpF procs (f + 1)) (f + 1) (.inr ⟨rfl, rfl⟩) .getLeft a st
    (fun n => by rw [getLeft_eq]; rfl)

end fwd

/-! ### (2) a small calculus of "typed totality": statements that return from EVERY heap, given the types of the variables -/

section typed
variable {cmpF : Int → Int → Int} {callH : CallH PName} {lf : Nat}

/-- under `P` the expression evaluates to a pointer -/
def EPtr (cmpF : Int → Int → Int) (callH : CallH PName) (P : Env → Prop) (e : Expr PName) : Prop :=
  ∀ ρ st, P ρ → ∃ a st', evalE cmpF callH ρ st e = .ok (.ptr a, st')

/-- under `P` the expression evaluates to a Boolean -/
def EBool (cmpF : Int → Int → Int) (callH : CallH PName) (P : Env → Prop) (e : Expr PName) : Prop :=
  ∀ ρ st, P ρ → ∃ b st', evalE cmpF callH ρ st e = .ok (.bool b, st')

/-- under `P` the expression evaluates -/
def EAny (cmpF : Int → Int → Int) (callH : CallH PName) (P : Env → Prop) (e : Expr PName) : Prop :=
  ∀ ρ st, P ρ → ∃ v st', evalE cmpF callH ρ st e = .ok (v, st')

/-- under `P` the statement returns, and `Q` holds of the flow and the environment -/
def TTy (cmpF : Int → Int → Int) (callH : CallH PName) (lf : Nat) (P : Env → Prop) (s : Stmt PName)
    (Q : Flow → Env → Prop) : Prop :=
  ∀ ρ st, P ρ → ∃ fl ρ' st', exec cmpF callH lf ρ st s = .ok (fl, ρ', st') ∧ Q fl ρ'

def NrmT (Q : Env → Prop) : Flow → Env → Prop := fun fl ρ => fl = .normal ∧ Q ρ

theorem EPtr.any {P : Env → Prop} {e : Expr PName} (h : EPtr cmpF callH P e) : EAny cmpF callH P e :=
  fun ρ st hP => by obtain ⟨a, st', h'⟩ := h ρ st hP; exact ⟨_, _, h'⟩

theorem EPtr.var {P : Env → Prop} {k : Nat} (h : ∀ ρ, P ρ → ∃ a, ρ k = .ptr a) : EPtr cmpF callH P (.var k) :=
  fun ρ st hP => by obtain ⟨a, ha⟩ := h ρ hP; exact ⟨a, st, by simp [evalE, ha]⟩

theorem EPtr.root {P : Env → Prop} : EPtr cmpF callH P .root :=
  fun ρ st _ => ⟨st.root, st, by simp [evalE]⟩

theorem EPtr.call1 {P : Env → Prop} {e : Expr PName} {fn : PName}
    (hfn : ∀ a st, ∃ b st', callH fn [.ptr a] st = .ok (.ptr b, st')) (h : EPtr cmpF callH P e) :
    EPtr cmpF callH P (.call1 fn e) := by
  intro ρ st hP
  obtain ⟨a, st1, h1⟩ := h ρ st hP
  obtain ⟨b, st2, h2⟩ := hfn a st1
  exact ⟨b, st2, by simp [evalE, h1, h2]⟩

theorem EPtr.call2 {P : Env → Prop} {e1 e2 : Expr PName} {fn : PName}
    (hfn : ∀ a b st, ∃ c st', callH fn [.ptr a, .ptr b] st = .ok (.ptr c, st'))
    (h1 : EPtr cmpF callH P e1) (h2 : EPtr cmpF callH P e2) :
    EPtr cmpF callH P (.call2 fn e1 e2) := by
  intro ρ st hP
  obtain ⟨a, st1, k1⟩ := h1 ρ st hP
  obtain ⟨b, st2, k2⟩ := h2 ρ st1 hP
  obtain ⟨c, st3, k3⟩ := hfn a b st2
  exact ⟨c, st3, by simp [evalE, k1, k2, k3]⟩

/-- a call whose result is discarded -/
theorem EAny.call1 {P : Env → Prop} {e : Expr PName} {fn : PName}
    (hfn : ∀ a st, ∃ v st', callH fn [.ptr a] st = .ok (v, st')) (h : EPtr cmpF callH P e) :
    EAny cmpF callH P (.call1 fn e) := by
  intro ρ st hP
  obtain ⟨a, st1, h1⟩ := h ρ st hP
  obtain ⟨b, st2, h2⟩ := hfn a st1
  exact ⟨b, st2, by simp [evalE, h1, h2]⟩

/-- `e.setColor(c)` for a constant colour -/
theorem EAny.setColorC {P : Env → Prop} {e : Expr PName} {c : Bool}
    (hfn : ∀ a c st, ∃ v st', callH .setColor [.ptr a, .bool c] st = .ok (v, st')) (h : EPtr cmpF callH P e) :
    EAny cmpF callH P (.call2 .setColor e (.bool c)) := by
  intro ρ st hP
  obtain ⟨a, st1, h1⟩ := h ρ st hP
  obtain ⟨b, st2, h2⟩ := hfn a c st1
  exact ⟨b, st2, by simp [evalE, h1, h2]⟩

theorem EBool.eqPtr {P : Env → Prop} {e1 e2 : Expr PName} (h1 : EPtr cmpF callH P e1) (h2 : EPtr cmpF callH P e2) :
    EBool cmpF callH P (.eq e1 e2) := by
  intro ρ st hP
  obtain ⟨a, st1, k1⟩ := h1 ρ st hP
  obtain ⟨b, st2, k2⟩ := h2 ρ st1 hP
  exact ⟨a == b, st2, by simp [evalE, k1, k2, valEq]⟩

theorem EBool.nePtr {P : Env → Prop} {e1 e2 : Expr PName} (h1 : EPtr cmpF callH P e1) (h2 : EPtr cmpF callH P e2) :
    EBool cmpF callH P (.ne e1 e2) := by
  intro ρ st hP
  obtain ⟨a, st1, k1⟩ := h1 ρ st hP
  obtain ⟨b, st2, k2⟩ := h2 ρ st1 hP
  exact ⟨!(a == b), st2, by simp [evalE, k1, k2, valEq]⟩

theorem EPtr.nil {P : Env → Prop} : EPtr cmpF callH P .nil :=
  fun ρ st _ => ⟨none, st, by simp [evalE]⟩

/-- `e.getColor() == c` -/
theorem EBool.isCol {P : Env → Prop} {e : Expr PName} {c : Bool}
    (hfn : ∀ a st, ∃ b st', callH .getColor [.ptr a] st = .ok (.bool b, st')) (h : EPtr cmpF callH P e) :
    EBool cmpF callH P (.eq (.call1 .getColor e) (.bool c)) := by
  intro ρ st hP
  obtain ⟨a, st1, h1⟩ := h ρ st hP
  obtain ⟨b, st2, h2⟩ := hfn a st1
  exact ⟨b == c, st2, by simp [evalE, h1, h2, valEq]⟩

theorem EBool.and {P : Env → Prop} {e1 e2 : Expr PName} (h1 : EBool cmpF callH P e1) (h2 : EBool cmpF callH P e2) :
    EBool cmpF callH P (.and e1 e2) := by
  intro ρ st hP
  obtain ⟨a, st1, k1⟩ := h1 ρ st hP
  cases a with
  | false => exact ⟨false, st1, by simp [evalE, k1]⟩
  | true =>
    obtain ⟨b, st2, k2⟩ := h2 ρ st1 hP
    exact ⟨b, st2, by simp [evalE, k1, k2]⟩

theorem TTy.mono {P P' : Env → Prop} {Q Q' : Flow → Env → Prop} {s : Stmt PName}
    (h : TTy cmpF callH lf P' s Q') (hp : ∀ ρ, P ρ → P' ρ) (hq : ∀ fl ρ, Q' fl ρ → Q fl ρ) :
    TTy cmpF callH lf P s Q := by
  intro ρ st hP
  obtain ⟨fl, ρ', st', h1, h2⟩ := h ρ st (hp ρ hP)
  exact ⟨fl, ρ', st', h1, hq _ _ h2⟩

/-- sequencing when the first statement may also leave the block -/
theorem TTy.seqG {P M : Env → Prop} {Q : Flow → Env → Prop} {a b : Stmt PName}
    (ha : TTy cmpF callH lf P a (fun fl ρ => (fl = .normal ∧ M ρ) ∨ (fl ≠ .normal ∧ Q fl ρ)))
    (hb : TTy cmpF callH lf M b Q) : TTy cmpF callH lf P (.seq a b) Q := by
  intro ρ st hP
  obtain ⟨fl, ρ1, st1, h1, h2⟩ := ha ρ st hP
  rcases h2 with ⟨rfl, hM⟩ | ⟨hne, hQ⟩
  · obtain ⟨fl2, ρ2, st2, k1, k2⟩ := hb ρ1 st1 hM
    exact ⟨fl2, ρ2, st2, by simp [exec, h1, k1], k2⟩
  · refine ⟨fl, ρ1, st1, ?_, hQ⟩
    cases fl with
    | normal => exact absurd rfl hne
    | cont => simp [exec, h1]
    | brk => simp [exec, h1]
    | ret w => simp [exec, h1]

theorem TTy.seq {P M : Env → Prop} {Q : Flow → Env → Prop} {a b : Stmt PName}
    (ha : TTy cmpF callH lf P a (NrmT M)) (hb : TTy cmpF callH lf M b Q) : TTy cmpF callH lf P (.seq a b) Q :=
  TTy.seqG (ha.mono (fun _ h => h) (fun _ _ h => .inl h)) hb

theorem TTy.ite {P : Env → Prop} {Q : Flow → Env → Prop} {c : Expr PName} {t e : Stmt PName}
    (hc : EBool cmpF callH P c) (ht : TTy cmpF callH lf P t Q) (he : TTy cmpF callH lf P e Q) :
    TTy cmpF callH lf P (.ite c t e) Q := by
  intro ρ st hP
  obtain ⟨b, st1, h1⟩ := hc ρ st hP
  cases b with
  | true =>
    obtain ⟨fl, ρ', st', k1, k2⟩ := ht ρ st1 hP
    exact ⟨fl, ρ', st', by simp [exec, h1, k1], k2⟩
  | false =>
    obtain ⟨fl, ρ', st', k1, k2⟩ := he ρ st1 hP
    exact ⟨fl, ρ', st', by simp [exec, h1, k1], k2⟩

theorem TTy.skip {P : Env → Prop} : TTy cmpF callH lf P .skip (NrmT P) :=
  fun ρ st hP => ⟨.normal, ρ, st, by simp [exec], rfl, hP⟩

theorem TTy.continue_ {P : Env → Prop} : TTy cmpF callH lf P .continue_ (fun fl ρ => fl = .cont ∧ P ρ) :=
  fun ρ st hP => ⟨.cont, ρ, st, by simp [exec], rfl, hP⟩

theorem TTy.expr {P : Env → Prop} {e : Expr PName} (h : EAny cmpF callH P e) :
    TTy cmpF callH lf P (.expr e) (NrmT P) := by
  intro ρ st hP
  obtain ⟨v, st', h1⟩ := h ρ st hP
  exact ⟨.normal, ρ, st', by simp [exec, h1], rfl, hP⟩

theorem TTy.assignPtr {P P' : Env → Prop} {x : Nat} {e : Expr PName} (h : EPtr cmpF callH P e)
    (hP' : ∀ ρ a, P ρ → P' (ρ.set x (.ptr a))) : TTy cmpF callH lf P (.assign x e) (NrmT P') := by
  intro ρ st hP
  obtain ⟨a, st', h1⟩ := h ρ st hP
  exact ⟨.normal, _, st', by simp [exec, h1], rfl, hP' ρ a hP⟩

theorem TTy.retPtr {P : Env → Prop} {e : Expr PName} (h : EPtr cmpF callH P e) :
    TTy cmpF callH lf P (.ret e) (fun fl _ => ∃ a, fl = .ret (.ptr a)) := by
  intro ρ st hP
  obtain ⟨a, st', h1⟩ := h ρ st hP
  exact ⟨_, ρ, st', by simp [exec, h1], a, rfl⟩

/-- from a body that returns a pointer to the call -/
theorem call_of_TTy {cmpF : Int → Int → Int} {f : Nat} {fn : PName} {args : List Val} {P : Env → Prop}
    (hb : TTy cmpF (call cmpF procs f) f P (procs fn).body (fun fl _ => ∃ a, fl = .ret (.ptr a)))
    (hP : P (Env.ofArgs args)) (st : St) :
    ∃ a st', call cmpF procs (f + 1) fn args st = .ok (.ptr a, st') := by
  show ∃ a st', runBody cmpF (call cmpF procs f) f (procs fn) args st = _
  obtain ⟨fl, ρ', st', h1, a, rfl⟩ := hb _ st hP
  exact ⟨a, st', by simp [runBody, h1]⟩

end typed

/-- variable 0 holds a pointer -/
def P0 : Env → Prop := fun ρ => ∃ a, ρ 0 = .ptr a
/-- variables 0 and 1 hold pointers -/
def P01 : Env → Prop := fun ρ => (∃ a, ρ 0 = .ptr a) ∧ ∃ b, ρ 1 = .ptr b

section procs
variable (cmpF : Int → Int → Int) (f lf : Nat)

theorem ep_var0 {callH : CallH PName} : EPtr cmpF callH P0 (.var 0) := EPtr.var (fun _ h => h)
theorem ep_getParent {P : Env → Prop} {e : Expr PName} (h : EPtr cmpF (call cmpF procs (f + 1)) P e) :
    EPtr cmpF (call cmpF procs (f + 1)) P (.call1 .getParent e) :=
  EPtr.call1 (fun a st => ⟨_, _, getParent_eq cmpF f a st⟩) h
theorem ep_getLeft {P : Env → Prop} {e : Expr PName} (h : EPtr cmpF (call cmpF procs (f + 1)) P e) :
    EPtr cmpF (call cmpF procs (f + 1)) P (.call1 .getLeft e) :=
  EPtr.call1 (fun a st => ⟨_, _, getLeft_eq cmpF f a st⟩) h
theorem ep_getRight {P : Env → Prop} {e : Expr PName} (h : EPtr cmpF (call cmpF procs (f + 1)) P e) :
    EPtr cmpF (call cmpF procs (f + 1)) P (.call1 .getRight e) :=
  EPtr.call1 (fun a st => ⟨_, _, getRight_eq cmpF f a st⟩) h
theorem ep_getGrandParent {P : Env → Prop} {e : Expr PName} (h : EPtr cmpF (call cmpF procs (f + 2)) P e) :
    EPtr cmpF (call cmpF procs (f + 2)) P (.call1 .getGrandParent e) :=
  EPtr.call1 (fun a st => ⟨_, _, getGrandParent_eq cmpF f a st⟩) h
theorem ea_setColor {P : Env → Prop} {e : Expr PName} {c : Bool} (h : EPtr cmpF (call cmpF procs (f + 1)) P e) :
    EAny cmpF (call cmpF procs (f + 1)) P (.call2 .setColor e (.bool c)) :=
  EAny.setColorC (fun a c st => ⟨_, _, setColor_eq cmpF f a c st⟩) h
theorem eb_isCol {P : Env → Prop} {e : Expr PName} {c : Bool} (h : EPtr cmpF (call cmpF procs (f + 1)) P e) :
    EBool cmpF (call cmpF procs (f + 1)) P (.eq (.call1 .getColor e) (.bool c)) :=
  EBool.isCol (fun a st => ⟨_, _, getColor_eq cmpF f a st⟩) h

theorem fixUncleRed_ret (a b : Option Nat) (st : St) :
    ∃ c st', call cmpF procs (f + 3) .fixUncleRed [.ptr a, .ptr b] st = .ok (.ptr c, st') := by
  refine call_of_TTy (f := f + 2) (fn := .fixUncleRed) (P := P01) ?_ ⟨⟨a, rfl⟩, ⟨b, rfl⟩⟩ st
  have v0 : EPtr cmpF (call cmpF procs (f + 2)) P01 (.var 0) := EPtr.var (fun _ h => h.1)
  have v1 : EPtr cmpF (call cmpF procs (f + 2)) P01 (.var 1) := EPtr.var (fun _ h => h.2)
  show TTy cmpF _ _ P01 body_fixUncleRed _
  unfold body_fixUncleRed
  refine TTy.seq (TTy.expr (ea_setColor cmpF (f + 1) (ep_getParent cmpF (f + 1) v0))) ?_
  refine TTy.seq (TTy.expr (ea_setColor cmpF (f + 1) v1)) ?_
  refine TTy.seq (TTy.expr (ea_setColor cmpF (f + 1) (ep_getGrandParent cmpF f v0))) ?_
  refine TTy.seq (TTy.assignPtr (P' := P0) (ep_getGrandParent cmpF f v0) (fun ρ a _ => ⟨a, by simp [Env.set]⟩)) ?_
  exact TTy.retPtr (ep_var0 cmpF)

theorem ea_rotateLeft {P : Env → Prop} {e : Expr PName} (h : EPtr cmpF (call cmpF procs (f + 2)) P e) :
    EAny cmpF (call cmpF procs (f + 2)) P (.call1 .rotateLeft e) :=
  EAny.call1 (fun a st => by obtain ⟨st', h⟩ := rotateLeft_ret cmpF f a st; exact ⟨_, _, h⟩) h
theorem ea_rotateRight {P : Env → Prop} {e : Expr PName} (h : EPtr cmpF (call cmpF procs (f + 2)) P e) :
    EAny cmpF (call cmpF procs (f + 2)) P (.call1 .rotateRight e) :=
  EAny.call1 (fun a st => by obtain ⟨st', h⟩ := rotateRight_ret cmpF f a st; exact ⟨_, _, h⟩) h

theorem tailL_tty : TTy cmpF (call cmpF procs (f + 2)) lf P0 tailL (fun fl _ => ∃ a, fl = .ret (.ptr a)) := by
  have v0 : EPtr cmpF (call cmpF procs (f + 2)) P0 (.var 0) := ep_var0 cmpF
  unfold tailL
  refine TTy.seq (TTy.expr (ea_setColor cmpF (f + 1) (ep_getParent cmpF (f + 1) v0))) ?_
  refine TTy.seq (TTy.expr (ea_setColor cmpF (f + 1) (ep_getGrandParent cmpF f v0))) ?_
  refine TTy.seq (TTy.expr (ea_rotateRight cmpF f (ep_getGrandParent cmpF f v0))) ?_
  exact TTy.retPtr v0

theorem tailR_tty : TTy cmpF (call cmpF procs (f + 2)) lf P0 tailR (fun fl _ => ∃ a, fl = .ret (.ptr a)) := by
  have v0 : EPtr cmpF (call cmpF procs (f + 2)) P0 (.var 0) := ep_var0 cmpF
  unfold tailR
  refine TTy.seq (TTy.expr (ea_setColor cmpF (f + 1) (ep_getParent cmpF (f + 1) v0))) ?_
  refine TTy.seq (TTy.expr (ea_setColor cmpF (f + 1) (ep_getGrandParent cmpF f v0))) ?_
  refine TTy.seq (TTy.expr (ea_rotateLeft cmpF f (ep_getGrandParent cmpF f v0))) ?_
  exact TTy.retPtr v0

theorem fixAddLeftBlack_ret (a : Option Nat) (st : St) :
    ∃ c st', call cmpF procs (f + 3) .fixAddLeftBlack [.ptr a] st = .ok (.ptr c, st') := by
  refine call_of_TTy (f := f + 2) (fn := .fixAddLeftBlack) (P := P0) ?_ ⟨a, rfl⟩ st
  have v0 : EPtr cmpF (call cmpF procs (f + 2)) P0 (.var 0) := ep_var0 cmpF
  show TTy cmpF _ _ P0 (.seq _ tailL) _
  refine TTy.seq (M := P0) (TTy.ite (EBool.eqPtr v0 (ep_getRight cmpF (f + 1) (ep_getParent cmpF (f + 1) v0))) ?_
    TTy.skip) (tailL_tty cmpF f _)
  refine TTy.seq (TTy.assignPtr (P' := P0) (ep_getParent cmpF (f + 1) v0) (fun ρ a _ => ⟨a, by simp [Env.set]⟩)) ?_
  exact TTy.expr (ea_rotateLeft cmpF f v0)

theorem fixAddRightBlack_ret (a : Option Nat) (st : St) :
    ∃ c st', call cmpF procs (f + 3) .fixAddRightBlack [.ptr a] st = .ok (.ptr c, st') := by
  refine call_of_TTy (f := f + 2) (fn := .fixAddRightBlack) (P := P0) ?_ ⟨a, rfl⟩ st
  have v0 : EPtr cmpF (call cmpF procs (f + 2)) P0 (.var 0) := ep_var0 cmpF
  show TTy cmpF _ _ P0 (.seq _ tailR) _
  refine TTy.seq (M := P0) (TTy.ite (EBool.eqPtr v0 (ep_getLeft cmpF (f + 1) (ep_getParent cmpF (f + 1) v0))) ?_
    TTy.skip) (tailR_tty cmpF f _)
  refine TTy.seq (TTy.assignPtr (P' := P0) (ep_getParent cmpF (f + 1) v0) (fun ρ a _ => ⟨a, by simp [Env.set]⟩)) ?_
  exact TTy.expr (ea_rotateRight cmpF f v0)

/-- the guard of the loop of `fixAfterAdd` evaluates -/
theorem condA_eb : EBool cmpF (call cmpF procs (f + 1)) P0 condA := by
  have v0 : EPtr cmpF (call cmpF procs (f + 1)) P0 (.var 0) := ep_var0 cmpF
  unfold condA
  exact EBool.and (EBool.and (EBool.nePtr v0 EPtr.nil) (EBool.nePtr v0 EPtr.root))
    (eb_isCol cmpF f (ep_getParent cmpF f v0))

/-- the body of the loop of `fixAfterAdd` returns, from every heap -/
theorem bodyA_tty : TTy cmpF (call cmpF procs (f + 3)) lf P0 bodyA
    (fun fl ρ => (fl = .normal ∨ fl = .cont) ∧ P0 ρ) := by
  have v0 : EPtr cmpF (call cmpF procs (f + 3)) P01 (.var 0) := EPtr.var (fun _ h => h.1)
  have v1 : EPtr cmpF (call cmpF procs (f + 3)) P01 (.var 1) := EPtr.var (fun _ h => h.2)
  have hset : ∀ ρ a, P01 ρ → P0 (ρ.set 0 (.ptr a)) := fun ρ a _ => ⟨a, by simp [Env.set]⟩
  unfold bodyA
  refine TTy.seq (M := P01) (TTy.assignPtr (EPtr.call1 (fun a st => by
    obtain ⟨b, h⟩ := getUncle_eq cmpF f a st; exact ⟨b, st, h⟩) (ep_var0 cmpF))
    (fun ρ a h => ⟨by obtain ⟨b, hb⟩ := h; exact ⟨b, by simp [Env.set, hb]⟩, ⟨a, by simp [Env.set]⟩⟩)) ?_
  refine TTy.seqG (M := P01) (TTy.ite (eb_isCol cmpF (f + 2) v1) ?_
    (TTy.skip.mono (fun _ h => h) (fun _ _ h => .inl h))) ?_
  · refine (TTy.seq (TTy.assignPtr (P' := P0) (EPtr.call2 (fixUncleRed_ret cmpF f) v0 v1) hset)
      TTy.continue_).mono (fun _ h => h) (fun fl ρ h => .inr ⟨by rw [h.1]; simp, .inr h.1, h.2⟩)
  refine TTy.seqG (M := P01) (TTy.ite (EBool.eqPtr (ep_getParent cmpF (f + 2) v0)
      (ep_getLeft cmpF (f + 2) (ep_getGrandParent cmpF (f + 1) v0))) ?_
    (TTy.skip.mono (fun _ h => h) (fun _ _ h => .inl h))) ?_
  · refine (TTy.seq (TTy.assignPtr (P' := P0) (EPtr.call1 (fixAddLeftBlack_ret cmpF f) v0) hset)
      TTy.continue_).mono (fun _ h => h) (fun fl ρ h => .inr ⟨by rw [h.1]; simp, .inr h.1, h.2⟩)
  · exact (TTy.assignPtr (P' := P0) (EPtr.call1 (fixAddRightBlack_ret cmpF f) v0) hset).mono (fun _ h => h)
      (fun fl ρ h => ⟨.inl h.1, h.2⟩)

end procs

/-! ### (3) heap level: the depth of the cursor, and the parent of the cursor after a black-uncle step is black -/

/-- the depth of address `a` in the tree (0 for the top, and for absent addresses) -/
def depth : PT → Nat → Nat
  | .leaf, _ => 0
  | .node l b r, a => if a = b then 0 else if a ∈ l.addrs then depth l a + 1 else depth r a + 1

theorem depth_le (T : PT) (x : Nat) : depth T x ≤ T.addrs.length := by
  induction T with
  | leaf => simp [depth]
  | node l b r ihl ihr =>
    simp only [depth, PT.addrs, List.length_append, List.length_cons]
    split
    · omega
    · split <;> omega

theorem depth_top {l r : PT} {b : Nat} : depth (.node l b r) b = 0 := by simp [depth]

theorem depth_parent {h : Nat → Node} {x p : Nat} {T : PT} : ∀ {q par : Option Nat}, Repr h q par T →
    T.addrs.Nodup → x ∈ T.addrs → T.ptr ≠ some x → (h x).parent = some p →
    depth T x = depth T p + 1 := by
  induction T with
  | leaf => intro q par _ _ hx; simp [PT.addrs] at hx
  | node l a r ihl ihr =>
    intro q par hR hnd hx hptr hp
    simp only [Repr] at hR
    obtain ⟨_, _, hL, hRr⟩ := hR
    obtain ⟨ndl, ndr, hal, har, hdis⟩ := nodup_node hnd
    have hxa : x ≠ a := fun e => hptr (by simp [PT.ptr, e])
    simp only [PT.addrs, List.mem_append, List.mem_cons] at hx
    rcases hx with hx | hx | hx
    · -- in the left subtree
      have e1 : depth (.node l a r) x = depth l x + 1 := by simp [depth, hxa, hx]
      rcases mem_parent hL hx with e | ⟨p', hp', e⟩
      · cases l with
        | leaf => simp [PT.ptr] at e
        | node l1 c l2 =>
          simp only [PT.ptr, Option.some.injEq] at e; subst e
          simp only [Repr] at hL
          rw [hL.2.1] at hp; cases hp
          rw [e1]; simp [depth]
      · rw [hp] at e; cases e
        have hpa : p ≠ a := fun e => hal (e ▸ hp')
        have hne : l.ptr ≠ some x := by
          intro e
          cases l with
          | leaf => simp [PT.ptr] at e
          | node l1 c l2 =>
            simp only [PT.ptr, Option.some.injEq] at e; subst e
            simp only [Repr] at hL
            rw [hL.2.1] at hp; cases hp
            exact hal hp'
        rw [e1, ihl hL ndl hx hne hp]
        simp [depth, hpa, hp']
    · exact absurd hx hxa
    · have hxl : x ∉ l.addrs := fun h' => hdis x h' hx
      have e1 : depth (.node l a r) x = depth r x + 1 := by simp [depth, hxa, hxl]
      rcases mem_parent hRr hx with e | ⟨p', hp', e⟩
      · cases r with
        | leaf => simp [PT.ptr] at e
        | node l1 c l2 =>
          simp only [PT.ptr, Option.some.injEq] at e; subst e
          simp only [Repr] at hRr
          rw [hRr.2.1] at hp; cases hp
          rw [e1]; simp [depth]
      · rw [hp] at e; cases e
        have hpa : p ≠ a := fun e => har (e ▸ hp')
        have hpl : p ∉ l.addrs := fun h' => hdis p h' hp'
        have hne : r.ptr ≠ some x := by
          intro e
          cases r with
          | leaf => simp [PT.ptr] at e
          | node l1 c l2 =>
            simp only [PT.ptr, Option.some.injEq] at e; subst e
            simp only [Repr] at hRr
            rw [hRr.2.1] at hp; cases hp
            exact har hp'
        rw [e1, ihr hRr ndr hx hne hp]
        simp [depth, hpa, hpl]

/-- the cursor, its parent and its grandparent are three different nodes, and the grandparent's parent is none of them -/
theorem away {st : St} {t : PT} {x p g : Nat} (hC : Cfg st t x) (hp : (st.h x).parent = some p)
    (hg : (st.h p).parent = some g) :
    x ≠ g ∧ p ≠ g ∧ p ≠ x ∧ (st.h g).parent ≠ some x ∧ g ∈ t.addrs ∧ t.ptr ≠ some x ∧ t.ptr ≠ some p ∧
    p ∈ t.addrs ∧
    (((st.h p).left = some x ∧ (st.h p).right ≠ some x) ∨ ((st.h p).left ≠ some x ∧ (st.h p).right = some x)) := by
  obtain ⟨hpm, hgm, hpx, L, R, hsg, hRg, hndg, hparp, hqp, hqx, hxs, hpins, hps, hxside⟩ :=
    shape hC.holds.1 hC.holds.2.1 hC.mem hp hg
  obtain ⟨L', R', hsg', _, _, _, _, _, hdg⟩ := Rot.rot_setup hC.holds.1 hC.holds.2.1 hgm
  rw [hsg] at hsg'
  injection hsg' with hsg'
  injection hsg' with e1 _ e2
  subst e1 e2
  have hptr := repr_ptr hC.holds.1
  refine ⟨?_, ?_, hpx, ?_, hgm, fun e => hqx (hptr.trans e), fun e => hqp (hptr.trans e), hpm, hxside⟩
  · rintro rfl
    rcases hdg with ⟨_, e⟩ | ⟨_, gp, e, _, hn, _⟩
    · rw [e] at hp; cases hp
    · rw [e] at hp; cases hp; exact hn hpins
  · rintro rfl
    rcases hdg with ⟨_, e⟩ | ⟨_, gp, e, _, hn, _⟩
    · rw [e] at hg; cases hg
    · rw [e] at hg; cases hg; exact hn hpins
  · rcases hdg with ⟨_, e⟩ | ⟨_, gp, e, _, hn, _⟩
    · rw [e]; simp
    · rw [e]; intro e'; cases e'; exact hn hxs

theorem outerL_parent {st : St} {t : PT} {x p g : Nat} (hC : Cfg st t x) (hp : (st.h x).parent = some p)
    (hg : (st.h p).parent = some g) (hgl : (st.h g).left = some p) (hpl : (st.h p).left = some x) :
    ((Rot.rotSt .left .right (setCol (setCol st (some p) true) (some g) false) g p).h x).parent = some p ∧
    ((Rot.rotSt .left .right (setCol (setCol st (some p) true) (some g) false) g p).h p).color = true := by
  obtain ⟨hxg, hpg, hpx, hgx, hgm, _, _, _, hxside⟩ := away hC hp hg
  generalize hst2 : setCol (setCol st (some p) true) (some g) false = st2
  have hPS : PtrSame st st2 := by
    rw [← hst2]; exact (setCol_ptrSame _ _ _).trans (setCol_ptrSame _ _ _)
  have hH2 : Holds st2 t := Fix.holds_ptrSame hPS hC.holds
  have hgl2 : (st2.h g).left = some p := by rw [(hPS.1 g).1]; exact hgl
  obtain ⟨H, _⟩ := Rot.rotR_explicit st2 hH2.1 hH2.2.1 hgm hgl2
  constructor
  · rw [H.other x hxg (Ne.symm hpx) ?_ ?_, (hPS.1 x).2.2, hp]
    · rw [(hPS.1 p).2.1]
      rcases hxside with ⟨_, e⟩ | ⟨e, _⟩
      · exact e
      · exact absurd hpl e
    · rw [(hPS.1 g).2.2]; exact hgx
  · rw [rotSt_color, ← hst2, setCol_color, if_neg hpg, setCol_color, if_pos rfl]

theorem outerR_parent {st : St} {t : PT} {x p g : Nat} (hC : Cfg st t x) (hp : (st.h x).parent = some p)
    (hg : (st.h p).parent = some g) (hgr : (st.h g).right = some p) (hpr : (st.h p).right = some x) :
    ((Rot.rotSt .right .left (setCol (setCol st (some p) true) (some g) false) g p).h x).parent = some p ∧
    ((Rot.rotSt .right .left (setCol (setCol st (some p) true) (some g) false) g p).h p).color = true := by
  obtain ⟨hxg, hpg, hpx, hgx, hgm, _, _, _, hxside⟩ := away hC hp hg
  generalize hst2 : setCol (setCol st (some p) true) (some g) false = st2
  have hPS : PtrSame st st2 := by
    rw [← hst2]; exact (setCol_ptrSame _ _ _).trans (setCol_ptrSame _ _ _)
  have hH2 : Holds st2 t := Fix.holds_ptrSame hPS hC.holds
  have hgr2 : (st2.h g).right = some p := by rw [(hPS.1 g).2.1]; exact hgr
  obtain ⟨H, _⟩ := Rot.rotL_explicit st2 hH2.1 hH2.2.1 hgm hgr2
  constructor
  · rw [H.other x hxg (Ne.symm hpx) ?_ ?_, (hPS.1 x).2.2, hp]
    · rw [(hPS.1 p).1]
      rcases hxside with ⟨_, e⟩ | ⟨e, _⟩
      · exact absurd hpr e
      · exact e
    · rw [(hPS.1 g).2.2]; exact hgx
  · rw [rotSt_color, ← hst2, setCol_color, if_neg hpg, setCol_color, if_pos rfl]

/-! ### (4) the black-uncle steps leave a cursor with a black parent; the strengthened body specification -/

section calls
variable (cmpF : Int → Int → Int)

theorem fixAddLeftBlack_cfg' {f : Nat} {x p g : Nat} {st st' : St} {v : Val} {t : PT} (hC : Cfg st t x)
    (hp : (st.h x).parent = some p) (hpr : (st.h p).color = false) (hg : (st.h p).parent = some g)
    (hgl : (st.h g).left = some p) (hub : colOf st (st.h g).right = true)
    (h : call cmpF procs f .fixAddLeftBlack [.ptr (some x)] st = .ok (v, st')) :
    ∃ x' t', v = .ptr (some x') ∧ Cfg st' t' x' ∧ colOf st' (st'.h x').parent = true := by
  obtain ⟨_, _, _, _, _, _, _, _, _, _, _, _, _, _, hxside⟩ := shape hC.holds.1 hC.holds.2.1 hC.mem hp hg
  rcases hxside with ⟨hpl, hnr⟩ | ⟨_, hpx⟩
  · obtain ⟨rfl, rfl⟩ := call_fixAddLeftBlack_outer cmpF hp hg hnr hgl h
    obtain ⟨t', hC'⟩ := step_outerL hC hp hpr hg hgl hpl hub
    obtain ⟨e1, e2⟩ := outerL_parent hC hp hg hgl hpl
    exact ⟨x, t', rfl, hC', by rw [e1]; exact e2⟩
  · obtain ⟨t1, hC1, h1p, h1x, h1g, h1xl, h1gr, hcol⟩ := step_innerL hC hp hpr hg hgl hpx
    obtain ⟨rfl, rfl⟩ := call_fixAddLeftBlack_inner cmpF hp hpx h1p h1x h1g h
    obtain ⟨t', hC'⟩ := step_outerL hC1 h1p (by rw [hcol]; exact hC.red) h1x h1g h1xl
      (by rw [h1gr, colOf_congr hcol]; exact hub)
    obtain ⟨e1, e2⟩ := outerL_parent hC1 h1p h1x h1g h1xl
    exact ⟨p, t', rfl, hC', by rw [e1]; exact e2⟩

theorem fixAddRightBlack_cfg' {f : Nat} {x p g : Nat} {st st' : St} {v : Val} {t : PT} (hC : Cfg st t x)
    (hp : (st.h x).parent = some p) (hpr : (st.h p).color = false) (hg : (st.h p).parent = some g)
    (hgr : (st.h g).right = some p) (hub : colOf st (st.h g).left = true)
    (h : call cmpF procs f .fixAddRightBlack [.ptr (some x)] st = .ok (v, st')) :
    ∃ x' t', v = .ptr (some x') ∧ Cfg st' t' x' ∧ colOf st' (st'.h x').parent = true := by
  obtain ⟨_, _, _, _, _, _, _, _, _, _, _, _, _, _, hxside⟩ := shape hC.holds.1 hC.holds.2.1 hC.mem hp hg
  rcases hxside with ⟨hpl, _⟩ | ⟨hnl, hpx⟩
  · obtain ⟨t1, hC1, h1p, h1x, h1g, h1xr, h1gl, hcol⟩ := step_innerR hC hp hpr hg hgr hpl
    obtain ⟨rfl, rfl⟩ := call_fixAddRightBlack_inner cmpF hp hpl h1p h1x h1g h
    obtain ⟨t', hC'⟩ := step_outerR hC1 h1p (by rw [hcol]; exact hC.red) h1x h1g h1xr
      (by rw [h1gl, colOf_congr hcol]; exact hub)
    obtain ⟨e1, e2⟩ := outerR_parent hC1 h1p h1x h1g h1xr
    exact ⟨p, t', rfl, hC', by rw [e1]; exact e2⟩
  · obtain ⟨rfl, rfl⟩ := call_fixAddRightBlack_outer cmpF hp hg hnl hgr h
    obtain ⟨t', hC'⟩ := step_outerR hC hp hpr hg hgr hpx hub
    obtain ⟨e1, e2⟩ := outerR_parent hC hp hg hgr hpx
    exact ⟨x, t', rfl, hC', by rw [e1]; exact e2⟩

end calls

/-- after one iteration: the cursor moved to the grandparent in the same tree, or its parent is black -/
def Q2 (t : PT) (g : Nat) : Env → St → Prop := fun ρ s =>
  ∃ x' t', ρ 0 = .ptr (some x') ∧ Cfg s t' x' ∧ ((t' = t ∧ x' = g) ∨ colOf s (s.h x').parent = true)

section loop
open Fix
variable {cmpF : Int → Int → Int} {f lf : Nat}

theorem bodyA_spec2 {ρ0 : Env} {st : St} {t : PT} {x p g : Nat} (h0 : ρ0 0 = .ptr (some x)) (hC : Cfg st t x)
    (hp : (st.h x).parent = some p) (hpr : (st.h p).color = false) (hg : (st.h p).parent = some g) :
    HT cmpF (call cmpF procs f) lf (At ρ0 st) bodyA
      (fun fl ρ s => (fl = .normal ∨ fl = .cont) ∧ Q2 t g ρ s) := by
  obtain ⟨_, _, _, _, _, _, _, _, _, _, _, _, _, hps, _⟩ := shape hC.holds.1 hC.holds.2.1 hC.mem hp hg
  generalize hunc : (if (st.h g).left = some p then (st.h g).right else (st.h g).left) = unc
  have h10 : (ρ0.set 1 (.ptr unc)) 0 = .ptr (some x) := by simp [Env.set, h0]
  have h11 : (ρ0.set 1 (.ptr unc)) 1 = .ptr unc := by simp [Env.set]
  unfold bodyA
  refine HT.seq (M := At (ρ0.set 1 (.ptr unc)) st) ?_ ?_
  · refine HT.assign ?_
    rintro ρ s v s' ⟨rfl, rfl⟩ he
    obtain ⟨a, s1, h1, h2⟩ := eval_call1 he
    simp [evalE] at h1
    obtain ⟨ha, hs1⟩ := h1
    rw [← ha, ← hs1, h0] at h2
    obtain ⟨e1, e2⟩ := call_getUncle cmpF hp hg h2
    rw [hunc] at e2
    exact ⟨by rw [e2], e1⟩
  · refine HT.seqG (M := fun ρ s => At (ρ0.set 1 (.ptr unc)) st ρ s ∧ colOf st unc = true)
      (HT.ite' (Pt := fun ρ s => At (ρ0.set 1 (.ptr unc)) st ρ s ∧ colOf st unc = false)
        (Pe := fun ρ s => At (ρ0.set 1 (.ptr unc)) st ρ s ∧ colOf st unc = true) ?_ ?_
        (HT.skip.mono (fun _ _ h => h) (fun _ _ _ h => .inl h))) ?_
    · rintro ρ s v s' ⟨rfl, rfl⟩ he
      obtain ⟨e1, e2⟩ := eval_isRed (evalsTo_var (st := s) h11) he
      subst e1
      cases hc : colOf s' unc with
      | true => rw [hc] at e2; exact ⟨fun e => (by rw [e2] at e; cases e), fun _ => ⟨⟨rfl, rfl⟩, rfl⟩⟩
      | false => rw [hc] at e2; exact ⟨fun _ => ⟨⟨rfl, rfl⟩, rfl⟩, fun e => by rw [e2] at e; cases e⟩
    · refine (HT.seq (M := Q2 t g) (HT.assign ?_) ht_continue).mono (fun _ _ h => h)
        (fun fl ρ s h => .inr ⟨by rw [h.1]; simp, .inr h.1, h.2⟩)
      rintro ρ s v s' ⟨⟨rfl, rfl⟩, hcu⟩ he
      obtain ⟨a, s1, b, s2, h1, h2, h3⟩ := eval_call2 he
      simp [evalE] at h1 h2
      obtain ⟨ha, hs1⟩ := h1
      obtain ⟨hb, hs2⟩ := h2
      subst hs1
      rw [← ha, ← hb, ← hs2, h10, h11] at h3
      cases unc with
      | none => simp [colOf] at hcu
      | some u =>
        obtain ⟨rfl, rfl⟩ := call_fixUncleRed cmpF hp hg h3
        exact ⟨g, t, by simp [Env.set], step_uncleRed hC hp hpr hg hunc hcu, .inl ⟨rfl, rfl⟩⟩
    · refine HT.seqG (M := fun ρ s => (At (ρ0.set 1 (.ptr unc)) st ρ s ∧ colOf st unc = true) ∧
          (st.h g).left ≠ some p)
        (HT.ite' (Pt := fun ρ s => (At (ρ0.set 1 (.ptr unc)) st ρ s ∧ colOf st unc = true) ∧
            (st.h g).left = some p)
          (Pe := fun ρ s => (At (ρ0.set 1 (.ptr unc)) st ρ s ∧ colOf st unc = true) ∧
            (st.h g).left ≠ some p) ?_ ?_
          (HT.skip.mono (fun _ _ h => h) (fun _ _ _ h => .inl h))) ?_
      · rintro ρ s v s' ⟨⟨rfl, rfl⟩, hcu⟩ he
        obtain ⟨a, s1, b, r, h1, h2, hv, hvr⟩ := eval_eq he
        obtain ⟨e1, e2⟩ := evalsTo_p0 (cmpF := cmpF) (f := f) h10 hp _ _ h1
        subst e1 e2
        obtain ⟨e3, e4⟩ := evalsTo_getLeft (evalsTo_gp0 (cmpF := cmpF) (f := f) h10 hp hg) _ _ h2
        subst e3 e4
        simp [valEq, fldOf, Rot.getP] at hv
        subst hvr
        constructor
        · intro e
          injection e with e
          rw [e] at hv
          exact ⟨⟨⟨rfl, rfl⟩, hcu⟩, (by simpa using hv : some p = (s'.h g).left).symm⟩
        · intro e
          injection e with e
          rw [e] at hv
          exact ⟨⟨⟨rfl, rfl⟩, hcu⟩, fun e' => (by simpa using hv : ¬ some p = (s'.h g).left) e'.symm⟩
      · refine (HT.seq (M := Q2 t g) (HT.assign ?_) ht_continue).mono (fun _ _ h => h)
          (fun fl ρ s h => .inr ⟨by rw [h.1]; simp, .inr h.1, h.2⟩)
        rintro ρ s v s' ⟨⟨⟨rfl, rfl⟩, hcu⟩, hgl⟩ he
        obtain ⟨a, s1, h1, h2⟩ := eval_call1 he
        simp [evalE] at h1
        obtain ⟨ha, hs1⟩ := h1
        rw [← ha, ← hs1, h10] at h2
        rw [← hunc, if_pos hgl] at hcu
        obtain ⟨x', t', rfl, hC', hb⟩ := fixAddLeftBlack_cfg' cmpF hC hp hpr hg hgl hcu h2
        exact ⟨x', t', by simp [Env.set], hC', .inr hb⟩
      · refine (HT.assign (Q := Q2 t g) ?_).mono (fun _ _ h => h) (fun fl ρ s h => ⟨.inl h.1, h.2⟩)
        rintro ρ s v s' ⟨⟨⟨rfl, rfl⟩, hcu⟩, hgl⟩ he
        obtain ⟨a, s1, h1, h2⟩ := eval_call1 he
        simp [evalE] at h1
        obtain ⟨ha, hs1⟩ := h1
        rw [← ha, ← hs1, h10] at h2
        rw [← hunc, if_neg hgl] at hcu
        have hgr : (s.h g).right = some p := by
          rcases hps with ⟨e, _⟩ | ⟨_, e⟩
          · exact absurd e hgl
          · exact e
        obtain ⟨x', t', rfl, hC', hb⟩ := fixAddRightBlack_cfg' cmpF hC hp hpr hg hgr hcu h2
        exact ⟨x', t', by simp [Env.set], hC', .inr hb⟩

end loop

/-! ### (5) the loop of `fixAfterAdd` terminates: the cursor climbs, or its parent is black -/

section term
variable (cmpF : Int → Int → Int) (f lf : Nat)

/-- the loop as the interpreter runs it inside `fixAfterAdd` called with fuel `f + 4` -/
def loopA (n : Nat) (ρ : Env) (st : St) : Res (Flow × Env × St) :=
  iterate (fun ρ st => evalE cmpF (call cmpF procs (f + 3)) ρ st condA)
    (fun ρ st => exec cmpF (call cmpF procs (f + 3)) lf ρ st bodyA) n ρ st

theorem loop_exit (n : Nat) (ρ : Env) (st : St) (x : Nat) (h0 : ρ 0 = .ptr (some x))
    (hex : st.root = some x ∨ colOf st (st.h x).parent = true) :
    loopA cmpF f lf (n + 1) ρ st = .ok (.normal, ρ, st) := by
  obtain ⟨b, st1, hb⟩ := condA_eb cmpF (f + 2) ρ st ⟨_, h0⟩
  obtain ⟨rfl, hv⟩ := condA_spec h0 hb
  rcases hv with ⟨hv, hroot, hcp⟩ | ⟨hv, _⟩
  · rcases hex with e | e
    · exact absurd e hroot
    · rw [e] at hcp; cases hcp
  · injection hv with hv
    subst hv
    simp [loopA, iterate, hb]

theorem loopA_ret : ∀ d n ρ st x t, ρ 0 = .ptr (some x) → Cfg st t x → depth t x ≤ d → d + 2 ≤ n →
    ∃ r, loopA cmpF f lf n ρ st = .ok r := by
  intro d
  induction d using Nat.strongRecOn with
  | ind d ih =>
    intro n ρ st x t h0 hC hd hn
    obtain ⟨m, rfl⟩ : ∃ m, n = m + 1 := ⟨n - 1, by omega⟩
    obtain ⟨b, st1, hb⟩ := condA_eb cmpF (f + 2) ρ st ⟨_, h0⟩
    obtain ⟨rfl, hv⟩ := condA_spec h0 hb
    rcases hv with ⟨hv, hroot, hcp⟩ | ⟨hv, _⟩
    · injection hv with hv
      subst hv
      cases hpar : (st1.h x).parent with
      | none => rw [hpar] at hcp; simp [colOf] at hcp
      | some p =>
        rw [hpar] at hcp
        have hpr : (st1.h p).color = false := hcp
        obtain ⟨g, hg⟩ := cfg_gp hC hroot hpar hpr
        obtain ⟨fl, ρ2, st2, hbody, _⟩ := bodyA_tty cmpF f lf ρ st1 ⟨_, h0⟩
        obtain ⟨hfl, x', t', h0', hC', hcase⟩ := bodyA_spec2 h0 hC hpar hpr hg _ _ _ _ _ ⟨rfl, rfl⟩ hbody
        have hrest : ∃ r, loopA cmpF f lf m ρ2 st2 = .ok r := by
          rcases hcase with ⟨rfl, rfl⟩ | hblk
          · obtain ⟨_, _, _, _, _, hx1, hp1, hpm, _⟩ := away hC hpar hg
            have e1 := depth_parent hC.holds.1 hC.holds.2.1 hC.mem hx1 hpar
            have e2 := depth_parent hC.holds.1 hC.holds.2.1 hpm hp1 hg
            exact ih (depth t' x') (by omega) m ρ2 st2 x' t' h0' hC' (Nat.le_refl _) (by omega)
          · obtain ⟨k, rfl⟩ : ∃ k, m = k + 1 := ⟨m - 1, by omega⟩
            exact ⟨_, loop_exit cmpF f lf k ρ2 st2 x' h0' (.inr hblk)⟩
        obtain ⟨r, hr⟩ := hrest
        refine ⟨r, ?_⟩
        unfold loopA at hr ⊢
        rcases hfl with rfl | rfl <;> simp only [iterate, hb, hbody, hr]
    · injection hv with hv
      subst hv
      exact ⟨(.normal, ρ, st1), by simp [loopA, iterate, hb]⟩

/-- `fixAfterAdd` returns from a fix-up configuration, with fuel proportional to the depth of the cursor -/
theorem fixAfterAdd_ret (x : Nat) (st : St) (t : PT) (hC : Cfg st t x) (hf : depth t x ≤ f + 1) :
    ∃ v st', call cmpF procs (f + 4) .fixAfterAdd [.ptr (some x)] st = .ok (v, st') := by
  show ∃ v st', runBody cmpF (call cmpF procs (f + 3)) (f + 3) ⟨1, body_fixAfterAdd⟩ [.ptr (some x)] st = _
  have hC1 : Cfg (setCol st (some x) false) t x := by
    refine hC.congr (setCol_ptrSame _ _ _) (fun a => ?_)
    rw [setCol_color]; split
    · next e => rw [e, hC.red]
    · rfl
  have h0 : Env.ofArgs [Val.ptr (some x)] 0 = .ptr (some x) := by simp [Env.ofArgs]
  obtain ⟨⟨fl, ρ1, st1⟩, hl⟩ := loopA_ret cmpF f (f + 3) (depth t x) (f + 3) _ _ x t h0 hC1 (Nat.le_refl _)
    (by omega)
  obtain ⟨rfl, _⟩ := loopA_spec _ _ _ _ _ _ ⟨x, t, h0, hC1⟩ hl
  have e1 : exec cmpF (call cmpF procs (f + 3)) (f + 3) (Env.ofArgs [.ptr (some x)]) st
      (.setField (.var 0) .color (.bool false))
      = .ok (.normal, Env.ofArgs [.ptr (some x)], setCol st (some x) false) := by
    simp [exec, evalE, Env.ofArgs, Node.set, setCol]
  have e2 : exec cmpF (call cmpF procs (f + 3)) (f + 3) (Env.ofArgs [.ptr (some x)]) (setCol st (some x) false)
      (.loop condA bodyA) = .ok (.normal, ρ1, st1) := hl
  rw [body_fixAfterAdd_eq]
  simp only [runBody]
  rw [Rot.exec_seq_normal _ _ _ e1, Rot.exec_seq_normal _ _ _ e2]
  simp [exec, evalE, setColor_eq]

end term

/-! ### (6) `addNode` returns -/

section add
variable (cmpF : Int → Int → Int)

theorem newRBNode_eq (f : Nat) (k w : Int) (st : St) :
    call cmpF procs (f + 1) .newRBNode [.int k, .int w] st
      = .ok (.ptr (some st.alloc),
          ⟨upd st.h st.alloc ⟨false, k, w, none, none, none⟩, st.alloc + 1, st.root, st.size⟩) := by
  simp [call, runBody, procs, body_newRBNode, exec, evalE, Env.ofArgs]

/-- the descent loop of `addNode` follows child pointers of a represented subtree: it ends -/
theorem descend_ret (callH : CallH PName) (lf : Nat) (st : St) (m : Nat) :
    ∀ (s : PT) (n : Nat) (ρ : Env) (q par : Option Nat), Repr st.h q par s → ρ 0 = .ptr (some m) → ρ 2 = .ptr q →
      s.addrs.length + 1 ≤ n →
      ∃ fl ρ', iterate (fun ρ st => evalE cmpF callH ρ st AddN.loopC)
          (fun ρ st => exec cmpF callH lf ρ st AddN.loopB) n ρ st = .ok (fl, ρ', st) ∧
        (fl = .normal ∨ ∃ w, fl = .ret w) := by
  intro s
  induction s with
  | leaf =>
    intro n ρ q par hR h0 h2 hn
    obtain ⟨k, rfl⟩ : ∃ k, n = k + 1 := ⟨n - 1, by omega⟩
    simp only [Repr] at hR
    subst hR
    exact ⟨.normal, ρ, by simp [iterate, AddN.cond_eval cmpF callH ρ st none h2], .inl rfl⟩
  | node l a r ihl ihr =>
    intro n ρ q par hR h0 h2 hn
    obtain ⟨k, rfl⟩ : ∃ k, n = k + 1 := ⟨n - 1, by omega⟩
    simp only [Repr] at hR
    obtain ⟨rfl, _, hL, hRr⟩ := hR
    simp only [PT.addrs, List.length_append, List.length_cons] at hn
    have hb : (!(some a == (none : Option Nat))) = true := rfl
    simp only [iterate, AddN.cond_eval cmpF callH ρ st (some a) h2, hb,
      AddN.body_eval0 cmpF callH lf ρ st m a h0 h2]
    generalize hc : cmpF (st.h m).key (st.h a).key = c
    by_cases h1 : c < 0
    · simp only [if_pos h1]
      exact ihl k _ (st.h a).left (some a) hL (by simp [AddN.set_apply, h0]) (by simp [AddN.set_apply])
        (by omega)
    · simp only [if_neg h1]
      by_cases h3 : c > 0
      · simp only [if_pos h3]
        exact ihr k _ (st.h a).right (some a) hRr (by simp [AddN.set_apply, h0]) (by simp [AddN.set_apply])
          (by omega)
      · simp only [if_neg h3]
        have h4 : c = 0 := by omega
        simp only [if_pos h4]
        exact ⟨_, _, rfl, .inr ⟨_, rfl⟩⟩

/-- what `midS` leaves: an early return, or the fix-up configuration at the new node, not deep -/
def MidOk (t : PT) (fl : Flow) (ρ' : Env) (s' : St) : Prop :=
  (∃ w, fl = .ret w) ∨
  (fl = .normal ∧ ∃ x t', ρ' 1 = .ptr (some x) ∧ Cfg s' t' x ∧ depth t' x ≤ t.addrs.length + 1)

theorem after_ret (callH : CallH PName) (lf : Nat) (ρ : Env) (st : St) (t : PT) (m : Nat) (hH : Holds st t)
    (hRB : RB st t) (h0 : ρ 0 = .ptr (some m)) (hg : AddN.Good t ρ st) :
    ∃ fl ρ' s', exec cmpF callH lf ρ st AddN.afterL = .ok (fl, ρ', s') ∧ MidOk t fl ρ' s' := by
  have hex : ∃ r, exec cmpF callH lf ρ st AddN.afterL = .ok r := by
    obtain ⟨p, c, h4, h3, hp, hl, hr⟩ := hg
    simp only [AddN.afterL, exec, evalE, AddN.set_apply, h0, h4, h3, Node.get]
    simp [h0, h4, h3]
    by_cases h1 : c < 0 <;> simp [h1, Node.set]
  obtain ⟨⟨fl, ρ', s'⟩, he⟩ := hex
  obtain ⟨hfl, t1, x, hx, hC⟩ := after_cfg cmpF callH lf ρ st t m hH hRB h0 hg _ _ _ he
  obtain ⟨_, _, t2, hH2, _, hlen⟩ := AddN.after_spec3 cmpF callH lf ρ st t m hH h0 hg _ _ _ he
  have := Fix.repr_det hC.holds.1 hH2.1
  subst this
  exact ⟨fl, ρ', s', he, .inr ⟨hfl, x, t1, hx, hC, by rw [← hlen]; exact depth_le _ _⟩⟩

theorem else_ret (callH : CallH PName) (lf : Nat) (ρ : Env) (st : St) (t : PT) (m : Nat) (hH : Holds st t)
    (hRB : RB st t) (hroot : st.root ≠ none) (h0 : ρ 0 = .ptr (some m)) (hlf : t.addrs.length + 1 ≤ lf) :
    ∃ fl ρ' s', exec cmpF callH lf ρ st AddN.elseB = .ok (fl, ρ', s') ∧ MidOk t fl ρ' s' := by
  have hH1 : Holds ⟨upd st.h st.alloc {}, st.alloc + 1, st.root, st.size⟩ t := AddN.holds_alloc hH {} st.size
  have hRB1 : RB ⟨upd st.h st.alloc {}, st.alloc + 1, st.root, st.size⟩ t := rb_alloc hH hRB {} st.size
  have hq : ∀ a, st.root = some a → a ∈ t.addrs := by
    intro a ha
    have := repr_ptr hH.1
    rw [ha] at this
    cases t with
    | leaf => simp [PT.ptr] at this
    | node l b r => simp [PT.ptr] at this; subst this; simp [PT.addrs]
  have h0' : (((ρ.set 2 (.ptr st.root)).set 3 (.int 0)).set 4 (.ptr (some st.alloc))) 0 = .ptr (some m) := by
    simp [AddN.set_apply, h0]
  obtain ⟨fl, ρ1, hit, hfl⟩ := descend_ret cmpF callH lf ⟨upd st.h st.alloc {}, st.alloc + 1, st.root, st.size⟩ m t lf
    (((ρ.set 2 (.ptr st.root)).set 3 (.int 0)).set 4 (.ptr (some st.alloc))) st.root none hH1.1 h0'
    (by simp [AddN.set_apply]) hlf
  have hinv := AddN.loop_inv cmpF callH lf _ t hH1 m lf
    (((ρ.set 2 (.ptr st.root)).set 3 (.int 0)).set 4 (.ptr (some st.alloc))) st.root
    h0' (by simp [AddN.set_apply]) hq (fun hn => absurd hn hroot) _ _ _ hit
  simp only [AddN.elseB, exec, evalE]
  rw [hit]
  rcases hfl with rfl | ⟨w, rfl⟩
  · obtain ⟨hgood, h0''⟩ := hinv.2 rfl
    exact after_ret cmpF callH lf ρ1 _ t m hH1 hRB1 h0'' hgood
  · exact ⟨_, _, _, rfl, .inl ⟨w, rfl⟩⟩

theorem then_ret (f lf : Nat) (ρ : Env) (st : St) (t : PT) (m : Nat) (hH : Holds st t) (hroot : st.root = none)
    (h0 : ρ 0 = .ptr (some m)) :
    ∃ fl ρ' s', exec cmpF (call cmpF procs (f + 1)) lf ρ st AddN.thenB = .ok (fl, ρ', s') ∧ MidOk t fl ρ' s' := by
  have hex : ∃ ρ' s', exec cmpF (call cmpF procs (f + 1)) lf ρ st AddN.thenB = .ok (.normal, ρ', s') ∧
      ∃ x, ρ' 1 = .ptr (some x) ∧ s'.root = some x := by
    simp only [AddN.thenB, exec, evalE, h0, Node.get, newRBNode_eq]
    exact ⟨_, _, rfl, st.alloc, by simp [AddN.set_apply], rfl⟩
  obtain ⟨ρ', s', he, x, hx, hr⟩ := hex
  rcases then_cfg cmpF lf (f + 1) ρ st t m hH hroot h0 _ _ _ he with ⟨_, t', x', hx', hC⟩ | ⟨hne, _⟩
  · rw [hx] at hx'; cases hx'
    refine ⟨_, _, _, he, .inr ⟨rfl, x, t', hx, hC, ?_⟩⟩
    have hp := repr_ptr hC.holds.1
    rw [hr] at hp
    cases t' with
    | leaf => simp [PT.ptr] at hp
    | node l b r => simp only [PT.ptr, Option.some.injEq] at hp; subst hp; simp [depth]
  · exact absurd rfl hne

theorem mid_ret (f lf : Nat) (ρ : Env) (st : St) (t : PT) (m : Nat) (hH : Holds st t) (hRB : RB st t)
    (h0 : ρ 0 = .ptr (some m)) (hlf : t.addrs.length + 1 ≤ lf) :
    ∃ fl ρ' s', exec cmpF (call cmpF procs (f + 1)) lf ρ st AddN.midS = .ok (fl, ρ', s') ∧ MidOk t fl ρ' s' := by
  cases hr : st.root with
  | none =>
    obtain ⟨fl, ρ', s', he, hm⟩ := then_ret cmpF f lf ρ st t m hH hr h0
    exact ⟨fl, ρ', s', by simp [AddN.midS, exec, evalE, valEq, hr, he], hm⟩
  | some a =>
    obtain ⟨fl, ρ', s', he, hm⟩ := else_ret cmpF (call cmpF procs (f + 1)) lf ρ st t m hH hRB (by simp [hr]) h0 hlf
    exact ⟨fl, ρ', s', by simp [AddN.midS, exec, evalE, valEq, hr, he], hm⟩

theorem tail_ret (f : Nat) (ρ : Env) (st : St) (t : PT) (x : Nat) (hC : Cfg st t x) (hp : ρ 1 = .ptr (some x))
    (hf : depth t x ≤ f + 1) :
    ∃ w s', exec cmpF (call cmpF procs (f + 4)) (f + 4) ρ st AddN.tailS = .ok (.ret w, ρ, s') := by
  have hC' : Cfg { st with size := st.size + 1 } t x := ⟨hC.holds, hC.mem, hC.red, hC.bh, hC.nrr, hC.rootB⟩
  obtain ⟨v, s', hc⟩ := fixAfterAdd_ret cmpF f x _ t hC' hf
  exact ⟨.ptr none, s', by simp [AddN.tailS, exec, evalE, hp, hc]⟩

theorem addNode_ret (f n : Nat) (st : St) (t : PT) (hH : Holds st t) (hRB : RB st t) (hf : t.addrs.length ≤ f) :
    ∃ v st', call cmpF procs (f + 5) .addNode [.ptr (some n)] st = .ok (v, st') := by
  show ∃ v st', runBody cmpF (call cmpF procs (f + 4)) (f + 4) (procs .addNode) [.ptr (some n)] st = _
  have h0 : ((Env.ofArgs [Val.ptr (some n)]).set 1 (Val.ptr none)) 0 = .ptr (some n) := by
    simp [AddN.set_apply, Env.ofArgs]
  obtain ⟨fl, ρ1, s1, hmid, hpost⟩ := mid_ret cmpF (f + 3) (f + 4) _ st t n hH hRB h0 (by omega)
  simp only [runBody, procs, AddN.body_addNode_eq, exec, evalE, hmid]
  rcases hpost with ⟨w, rfl⟩ | ⟨rfl, x, t', hx, hC, hd⟩
  · exact ⟨_, _, rfl⟩
  · obtain ⟨w, s2, ht⟩ := tail_ret cmpF f ρ1 s1 t' x hC hx (by omega)
    simp only [ht]
    exact ⟨_, _, rfl⟩

end add

/-! ### (7) `Add` returns -/

theorem add_returns (cmpF : Int → Int → Int)
    (hmono : ∀ f f', f ≤ f' → ∀ fn args st r, call cmpF procs f fn args st = .ok r → call cmpF procs f' fn args st = .ok r)
    (st : St) (t : PT) (hH : Holds st t) (hR : RB st t) (k v : Int) :
    ∃ F, ∀ fuel, F ≤ fuel → ∃ r st', call cmpF procs fuel .Add [.int k, .int v] st = .ok (r, st') := by
  refine ⟨t.addrs.length + 6, fun fuel hfu => ?_⟩
  obtain ⟨f, rfl⟩ : ∃ f, fuel = f + 6 := ⟨fuel - 6, by omega⟩
  show ∃ r st', runBody cmpF (call cmpF procs (f + 5)) (f + 5) (procs .Add) [.int k, .int v] st = _
  have h1 := newRBNode_eq cmpF (f + 4) k v st
  obtain ⟨n, hn, _, _, H1, _⟩ := call_newRBNode cmpF (f + 5) _ st _ _ t hH h1
  have hfr := call_newRBNode_frame cmpF (f + 5) _ st _ _ h1
  have R1 : RB ⟨upd st.h st.alloc ⟨false, k, v, none, none, none⟩, st.alloc + 1, st.root, st.size⟩ t :=
    rb_congr (fun a ha => by rw [hfr a (fun e => Nat.lt_irrefl _ (e ▸ hH.2.2 a ha))]) hR
  obtain ⟨w, st2, h2⟩ := addNode_ret cmpF f st.alloc _ t H1 R1 (by omega)
  exact ⟨w, st2, by simp [runBody, procs, body_Add, exec, evalE, Env.ofArgs, h1, h2]⟩

/-! ### (8) `findNode`, `Find`, `Set` return -/

section find
variable (cmpF : Int → Int → Int)

def findC : Expr PName := .ne (.var 1) .nil
def findB : Stmt PName :=
    (.seq (.assign 2 (.cmp (.var 0) (.field (.var 1) .key)))
    (.ite (.lt (.var 2) (.int 0))
    (.assign 1 (.field (.var 1) .left))
    (.ite (.gt (.var 2) (.int 0))
    (.assign 1 (.field (.var 1) .right))
    (.ret (.var 1)))))

theorem body_findNode_eq : body_findNode = .seq (.assign 1 .root) (.seq (.loop findC findB) (.ret .nil)) := rfl

theorem findC_eval (callH : CallH PName) (ρ : Env) (st : St) (q : Option Nat) (h1 : ρ 1 = .ptr q) :
    evalE cmpF callH ρ st findC = .ok (.bool (!(q == none)), st) := by
  simp [findC, evalE, h1, valEq]

theorem findB_eval (callH : CallH PName) (lf : Nat) (ρ : Env) (st : St) (k : Int) (a : Nat) (h0 : ρ 0 = .int k)
    (h1 : ρ 1 = .ptr (some a)) :
    exec cmpF callH lf ρ st findB =
      (if cmpF k (st.h a).key < 0 then
        .ok (.normal, (ρ.set 2 (.int (cmpF k (st.h a).key))).set 1 (.ptr (st.h a).left), st)
      else if cmpF k (st.h a).key > 0 then
        .ok (.normal, (ρ.set 2 (.int (cmpF k (st.h a).key))).set 1 (.ptr (st.h a).right), st)
      else .ok (.ret (.ptr (some a)), ρ.set 2 (.int (cmpF k (st.h a).key)), st)) := by
  generalize hc : cmpF k (st.h a).key = c
  simp only [findB, exec, evalE, AddN.set_apply, h0, h1, Node.get, hc]
  simp [hc, AddN.set_apply, h0, h1]
  by_cases h2 : c < 0
  · simp [h2]
  · by_cases h3 : 0 < c
    · simp [h2, h3]
    · simp [h2, h3]

theorem find_descend (callH : CallH PName) (lf : Nat) (st : St) (k : Int) :
    ∀ (s : PT) (n : Nat) (ρ : Env) (q par : Option Nat), Repr st.h q par s → ρ 0 = .int k → ρ 1 = .ptr q →
      s.addrs.length + 1 ≤ n →
      ∃ fl ρ', iterate (fun ρ st => evalE cmpF callH ρ st findC)
          (fun ρ st => exec cmpF callH lf ρ st findB) n ρ st = .ok (fl, ρ', st) ∧
        (fl = .normal ∨ ∃ b, fl = .ret (.ptr b)) := by
  intro s
  induction s with
  | leaf =>
    intro n ρ q par hR h0 h1 hn
    obtain ⟨m, rfl⟩ : ∃ m, n = m + 1 := ⟨n - 1, by omega⟩
    simp only [Repr] at hR
    subst hR
    exact ⟨.normal, ρ, by simp [iterate, findC_eval cmpF callH ρ st none h1], .inl rfl⟩
  | node l a r ihl ihr =>
    intro n ρ q par hR h0 h1 hn
    obtain ⟨m, rfl⟩ : ∃ m, n = m + 1 := ⟨n - 1, by omega⟩
    simp only [Repr] at hR
    obtain ⟨rfl, _, hL, hRr⟩ := hR
    simp only [PT.addrs, List.length_append, List.length_cons] at hn
    have hb : (!(some a == (none : Option Nat))) = true := rfl
    simp only [iterate, findC_eval cmpF callH ρ st (some a) h1, hb, findB_eval cmpF callH lf ρ st k a h0 h1]
    generalize hc : cmpF k (st.h a).key = c
    by_cases h2 : c < 0
    · simp only [if_pos h2]
      exact ihl m _ (st.h a).left (some a) hL (by simp [AddN.set_apply, h0]) (by simp [AddN.set_apply])
        (by omega)
    · simp only [if_neg h2]
      by_cases h3 : c > 0
      · simp only [if_pos h3]
        exact ihr m _ (st.h a).right (some a) hRr (by simp [AddN.set_apply, h0]) (by simp [AddN.set_apply])
          (by omega)
      · simp only [if_neg h3]
        exact ⟨_, _, rfl, .inr ⟨_, rfl⟩⟩

/-- `findNode` returns a pointer and leaves the state alone -/
theorem findNode_ret (f : Nat) (k : Int) (st : St) (t : PT) (hH : Holds st t) (hf : t.addrs.length + 1 ≤ f) :
    ∃ b, call cmpF procs (f + 1) .findNode [.int k] st = .ok (.ptr b, st) := by
  show ∃ b, runBody cmpF (call cmpF procs f) f (procs .findNode) [.int k] st = _
  obtain ⟨fl, ρ', hit, hfl⟩ := find_descend cmpF (call cmpF procs f) f st k t f
    ((Env.ofArgs [.int k]).set 1 (.ptr st.root)) st.root none hH.1 (by simp [AddN.set_apply, Env.ofArgs])
    (by simp [AddN.set_apply]) hf
  simp only [runBody, procs, body_findNode_eq, exec, evalE]
  rw [hit]
  rcases hfl with rfl | ⟨b, rfl⟩
  · exact ⟨none, rfl⟩
  · exact ⟨b, rfl⟩

theorem setNode_ret (f a : Nat) (v : Int) (st : St) :
    ∃ w st', call cmpF procs (f + 1) .setNode [.ptr (some a), .int v] st = .ok (w, st') :=
  by
  have h : ∃ p, call cmpF procs (f + 1) .setNode [.ptr (some a), .int v] st = .ok p := by
    simp [call, runBody, procs, body_setNode, exec, evalE, Env.ofArgs, valEq, Node.set]
  obtain ⟨⟨w, st'⟩, h⟩ := h
  exact ⟨w, st', h⟩

end find

theorem find_returns (cmpF : Int → Int → Int)
    (hmono : ∀ f f', f ≤ f' → ∀ fn args st r, call cmpF procs f fn args st = .ok r → call cmpF procs f' fn args st = .ok r)
    (st : St) (t : PT) (hH : Holds st t) (k : Int) :
    ∃ F, ∀ fuel, F ≤ fuel → ∃ r st', call cmpF procs fuel .Find [.int k] st = .ok (r, st') := by
  refine ⟨t.addrs.length + 3, fun fuel hfu => ?_⟩
  obtain ⟨f, rfl⟩ : ∃ f, fuel = f + 2 := ⟨fuel - 2, by omega⟩
  show ∃ r st', runBody cmpF (call cmpF procs (f + 1)) (f + 1) (procs .Find) [.int k] st = _
  obtain ⟨b, hb⟩ := findNode_ret cmpF f k st t hH (by omega)
  have h : ∃ p, runBody cmpF (call cmpF procs (f + 1)) (f + 1) (procs .Find) [.int k] st = .ok p := by
    cases b with
    | none => simp [runBody, procs, body_Find, exec, evalE, Env.ofArgs, Env.set, hb, valEq]
    | some a => simp [runBody, procs, body_Find, exec, evalE, Env.ofArgs, Env.set, hb, valEq, Node.get]
  obtain ⟨⟨r, st'⟩, h⟩ := h
  exact ⟨r, st', h⟩

theorem set_returns (cmpF : Int → Int → Int)
    (hmono : ∀ f f', f ≤ f' → ∀ fn args st r, call cmpF procs f fn args st = .ok r → call cmpF procs f' fn args st = .ok r)
    (st : St) (t : PT) (hH : Holds st t) (k v : Int) :
    ∃ F, ∀ fuel, F ≤ fuel → ∃ r st', call cmpF procs fuel .Set [.int k, .int v] st = .ok (r, st') := by
  refine ⟨t.addrs.length + 3, fun fuel hfu => ?_⟩
  obtain ⟨f, rfl⟩ : ∃ f, fuel = f + 2 := ⟨fuel - 2, by omega⟩
  show ∃ r st', runBody cmpF (call cmpF procs (f + 1)) (f + 1) (procs .Set) [.int k, .int v] st = _
  obtain ⟨b, hb⟩ := findNode_ret cmpF f k st t hH (by omega)
  have h : ∃ p, runBody cmpF (call cmpF procs (f + 1)) (f + 1) (procs .Set) [.int k, .int v] st = .ok p := by
    cases b with
    | none => simp [runBody, procs, body_Set, exec, evalE, Env.ofArgs, Env.set, hb, valEq]
    | some a =>
      obtain ⟨w, st', hs⟩ := setNode_ret cmpF f a v st
      simp [runBody, procs, body_Set, exec, evalE, Env.ofArgs, Env.set, hb, valEq, hs]
  obtain ⟨⟨r, st'⟩, h⟩ := h
  exact ⟨r, st', h⟩

end Ekit.MiniGo.RBHeap.ProgIns

