/-
Helper lemmas for C03, part 3: the Go-map wrappers (builtinMap, MapSet) and the decorators
(MultiMap over any inner map, LinkedMap over the HashMap).
-/
import Ekit.Lemmas.HashMapRefine

namespace Ekit.HashMap
open Ekit.Go

variable {V : Type}

/-! ### `Spec.get` after `Spec.put` of the same key -/

theorem Spec.get_put_same {h : Hashable} (hl : h.Law) (s : Spec.State V) (k : Int) (v : V) :
    Spec.get h (Spec.put h s k v) k = some v := by
  unfold Spec.put
  split
  · rename_i hany
    unfold Spec.get
    induction s with
    | nil => simp at hany
    | cons e r ih =>
      simp only [List.map_cons, List.find?_cons]
      cases hk : h.equals e.1 k with
      | true => simp [hk]
      | false =>
        simp only [hk, Bool.false_eq_true, if_false]
        apply ih
        simpa [hk] using hany
  · rename_i hany
    have hno := no_match_of_any_false (by simpa using hany)
    unfold Spec.get
    rw [List.find?_append]
    have : s.find? (fun e => h.equals e.1 k) = none := by
      rw [List.find?_eq_none]; intro x hx; simp [hno x hx]
    simp [this, hl.refl k]

/-! ### Go maps with comparable keys: `==` as the (trivially lawful) `Hashable` -/

theorem idHashable_law : idHashable.Law where
  refl := by intro a; simp [idHashable]
  symm := by intro a b; simp [idHashable]; exact fun e => e.symm
  trans := by intro a b c; simp [idHashable]; exact fun e1 e2 => e1.trans e2
  code_eq := by intro a b; simp [idHashable]

theorem nodup_of_noDupKeys {b : List (Int × V)} (hn : NoDupKeys idHashable b) : (b.map (·.1)).Nodup := by
  unfold NoDupKeys at hn
  unfold List.Nodup
  rw [List.pairwise_map]
  refine List.Pairwise.imp ?_ hn
  intro x y hxy
  simpa [idHashable] using hxy

theorem bmap_lookup_eq (b : BMap V) (k : Int) : AL.lookup k b = Spec.get idHashable b k := by
  induction b with
  | nil => rfl
  | cons x r ih =>
    obtain ⟨x1, x2⟩ := x
    unfold AL.lookup Spec.get
    simp only [List.find?_cons, idHashable]
    by_cases hx : x1 = k
    · simp [hx]
    · simp only [hx, if_false]
      have : (x1 == k) = false := by simpa using hx
      simp only [this]
      rw [ih]; rfl

/-- members of an association list with distinct keys, other than the slot of `k`, have other keys -/
theorem bmap_split_no_match {pre post : List (Int × V)} {k : Int} {y : V}
    (hnd : ((pre ++ (k, y) :: post).map (·.1)).Nodup) :
    (∀ e ∈ pre, idHashable.equals e.1 k = false) ∧ (∀ e ∈ post, idHashable.equals e.1 k = false) := by
  simp only [List.map_append, List.map_cons, List.nodup_append, List.nodup_cons, List.mem_cons] at hnd
  obtain ⟨_, ⟨hkpost, _⟩, hdisj⟩ := hnd
  constructor
  · intro e he
    have := hdisj e.1 (List.mem_map.mpr ⟨e, he, rfl⟩) k (Or.inl rfl)
    simpa [idHashable] using this
  · intro e he
    have : e.1 ≠ k := by
      intro e'; apply hkpost; rw [← e']; exact List.mem_map.mpr ⟨e, he, rfl⟩
    simpa [idHashable] using this

theorem bmap_set_eq {b : BMap V} (hn : NoDupKeys idHashable b) (k : Int) (v : V) :
    AL.set k v b = Spec.put idHashable b k v := by
  have hnd := nodup_of_noDupKeys hn
  cases hlk : AL.lookup k b with
  | none =>
    have habs := AL.lookup_eq_none.mp hlk
    have hno : ∀ e ∈ b, idHashable.equals e.1 k = false := by
      intro e he
      have : e.1 ≠ k := by
        intro e'; apply habs; rw [← e']; exact List.mem_map.mpr ⟨e, he, rfl⟩
      simpa [idHashable] using this
    rw [AL.set_of_absent habs, Spec.put_of_no_match v hno]
  | some y =>
    obtain ⟨pre, post, hbs, hpre⟩ := AL.lookup_split hlk
    subst hbs
    obtain ⟨h1, h2⟩ := bmap_split_no_match hnd
    rw [AL.set_of_split hpre]
    rw [Spec.put_of_match (e := (k, y)) v (by simp) (by simp [idHashable])]
    have hu : ∀ (l : List (Int × V)), (l.map fun e => if idHashable.equals e.1 k = true then (e.1, v) else e)
        = l.map (upd idHashable k v) := fun l => rfl
    rw [hu, List.map_append, List.map_cons, map_upd_of_no_match v h1, map_upd_of_no_match v h2]
    simp [upd, idHashable]

theorem bmap_erase_eq {b : BMap V} (hn : NoDupKeys idHashable b) (k : Int) :
    AL.erase k b = Spec.delete idHashable b k := by
  have hnd := nodup_of_noDupKeys hn
  cases hlk : AL.lookup k b with
  | none =>
    have habs := AL.lookup_eq_none.mp hlk
    have hno : ∀ e ∈ b, idHashable.equals e.1 k = false := by
      intro e he
      have : e.1 ≠ k := by
        intro e'; apply habs; rw [← e']; exact List.mem_map.mpr ⟨e, he, rfl⟩
      simpa [idHashable] using this
    rw [AL.erase_of_absent habs, Spec.delete_of_no_match hno]
  | some y =>
    obtain ⟨pre, post, hbs, hpre⟩ := AL.lookup_split hlk
    subst hbs
    obtain ⟨h1, h2⟩ := bmap_split_no_match hnd
    rw [AL.erase_of_split hpre]
    unfold Spec.delete
    rw [List.filter_append, List.filter_cons]
    have f1 : pre.filter (fun e => !idHashable.equals e.1 k) = pre := by
      rw [List.filter_eq_self]; intro a ha; simp [h1 a ha]
    have f2 : post.filter (fun e => !idHashable.equals e.1 k) = post := by
      rw [List.filter_eq_self]; intro a ha; simp [h2 a ha]
    rw [f1, f2]
    simp [idHashable]

theorem bmap_keys_eq {b : BMap V} {order : List Int} (ho : order.Perm (b.map (·.1))) :
    BMap.keys b order = order := by
  unfold BMap.keys
  have : ∀ k ∈ order, ((AL.lookup k b).map fun _ => k).toList = [k] := by
    intro k hk
    have hk' : k ∈ b.map (·.1) := (ho.mem_iff).mp hk
    cases hlk : AL.lookup k b with
    | none => exact absurd hk' (AL.lookup_eq_none.mp hlk)
    | some _ => rfl
  rw [flatMap_congr_mem this]
  induction order with
  | nil => rfl
  | cons x r ih => simp [List.flatMap_cons]

theorem bmap_values_perm {b : BMap V} (hnd : (b.map (·.1)).Nodup) {order : List Int}
    (ho : order.Perm (b.map (·.1))) : (BMap.values b order).Perm (b.map (·.2)) := by
  unfold BMap.values
  refine (List.Perm.flatMap_right _ ho).trans ?_
  rw [List.flatMap_map]
  rw [flatMap_congr_mem (g := fun x => [x.2])]
  · have : ∀ (l : List (Int × V)), l.flatMap (fun x => [x.2]) = l.map (·.2) := by
      intro l; induction l with
      | nil => rfl
      | cons x r ih => simp [List.flatMap_cons, ih]
    rw [this]
  · intro x hx
    simp [AL.lookup_of_mem hnd hx]

/-- `builtinMap` refines the abstract map keyed by `==`, with equal states -/
theorem builtin_refines {b : BMap V} (hn : NoDupKeys idHashable b) (o : Oracle) (ho : BMap.OrderValid o b)
    (op : Op V) :
    (b.step o op).1 = (Spec.step idHashable b op).1 ∧ NoDupKeys idHashable (b.step o op).1 ∧
      OutEquiv (b.step o op).2 (Spec.step idHashable b op).2 := by
  have hnd := nodup_of_noDupKeys hn
  cases op with
  | put k v =>
    simp only [BMap.step, Spec.step]
    rw [bmap_set_eq hn]
    exact ⟨by trivial, Spec.put_nodup idHashable_law hn k v, OutEquiv.of_eq rfl⟩
  | get k =>
    simp only [BMap.step, Spec.step]
    rw [bmap_lookup_eq]
    exact ⟨by trivial, hn, OutEquiv.of_eq rfl⟩
  | delete k =>
    simp only [BMap.step, Spec.step]
    rw [bmap_erase_eq hn, bmap_lookup_eq]
    exact ⟨by trivial, Spec.delete_nodup hn k, OutEquiv.of_eq rfl⟩
  | len => exact ⟨rfl, hn, OutEquiv.of_eq rfl⟩
  | keys =>
    refine ⟨rfl, hn, ?_⟩
    simp only [BMap.step, Spec.step, OutEquiv, Ret.Equiv]
    rw [bmap_keys_eq ho]; exact ho
  | values =>
    refine ⟨rfl, hn, ?_⟩
    simp only [BMap.step, Spec.step, OutEquiv, Ret.Equiv]
    exact bmap_values_perm hnd ho

/-- `MapSet` refines the abstract set -/
theorem mapset_refines {b : BMap Unit} (hn : NoDupKeys idHashable b) (o : Oracle) (ho : BMap.OrderValid o b)
    (op : SetOp) :
    (MapSet.step b o op).1 = (Spec.setStep b op).1 ∧ NoDupKeys idHashable (MapSet.step b o op).1 ∧
      OutEquiv (MapSet.step b o op).2 (Spec.setStep b op).2 := by
  cases op with
  | add k =>
    simp only [MapSet.step, Spec.setStep]
    rw [bmap_set_eq hn]
    exact ⟨by trivial, Spec.put_nodup idHashable_law hn k (), OutEquiv.of_eq rfl⟩
  | delete k =>
    simp only [MapSet.step, Spec.setStep]
    rw [bmap_erase_eq hn]
    exact ⟨by trivial, Spec.delete_nodup hn k, OutEquiv.of_eq rfl⟩
  | exist k =>
    simp only [MapSet.step, Spec.setStep]
    rw [bmap_lookup_eq]
    exact ⟨by trivial, hn, OutEquiv.of_eq rfl⟩
  | keys =>
    refine ⟨rfl, hn, ?_⟩
    simp only [MapSet.step, Spec.setStep, OutEquiv, Ret.Equiv]
    rw [bmap_keys_eq ho]; exact ho

/-! ### MultiMap over any inner map that refines the abstract map -/

/-- the decorator lemma: if the inner `mapi` refines the abstract map (relation `Rel`, oracle
    constraint `valid`) and its `Get` leaves it unchanged, `MultiMap` refines the abstract multi map -/
theorem multi_refines_generic {σ : Type} (inner : Mapi σ (List Int)) (h : Hashable)
    (Rel : σ → Spec.State (List Int) → Prop) (valid : Oracle → σ → Prop)
    (hinner : ∀ st s o op, Rel st s → (valid o st ∨ (∃ k v, op = .put k v) ∨ (∃ k, op = .get k) ∨ ∃ k, op = .delete k) →
      Rel (inner.step st o op).1 (Spec.step h s op).1 ∧ OutEquiv (inner.step st o op).2 (Spec.step h s op).2)
    {st : σ} {s : Spec.State (List Int)} (hR : Rel st s) (o : Oracle) (ho : valid o st) (op : Op (List Int)) :
    Rel (multiStep inner st o op).1 (Spec.multiStep h s op).1 ∧
      OutEquiv (multiStep inner st o op).2 (Spec.multiStep h s op).2 := by
  cases op with
  | put k vs =>
    obtain ⟨g1, g2⟩ := hinner st s o (.get k) hR (Or.inr (Or.inr (Or.inl ⟨k, rfl⟩)))
    simp only [Spec.step] at g1 g2
    have g3 := OutEquiv.eq_of_lookup g2
    simp only [multiStep, Spec.multiStep]
    have hval : foundOr (inner.step st o (.get k)).2 ([] : List Int) = (Spec.get h s k).getD [] := by
      rw [g3]; cases Spec.get h s k <;> rfl
    rw [hval]
    have := hinner _ s o (.put k ((Spec.get h s k).getD [] ++ vs)) g1 (Or.inr (Or.inl ⟨k, _, rfl⟩))
    simpa only [Spec.step] using this
  | get k =>
    obtain ⟨g1, g2⟩ := hinner st s o (.get k) hR (Or.inr (Or.inr (Or.inl ⟨k, rfl⟩)))
    simp only [Spec.step] at g1 g2
    have g3 := OutEquiv.eq_of_lookup g2
    simp only [multiStep, Spec.multiStep, Spec.step]
    rw [g3]
    cases Spec.get h s k <;> exact ⟨g1, OutEquiv.of_eq rfl⟩
  | delete k => exact hinner st s o (.delete k) hR (Or.inl ho)
  | len => exact hinner st s o .len hR (Or.inl ho)
  | keys => exact hinner st s o .keys hR (Or.inl ho)
  | values => exact hinner st s o .values hR (Or.inl ho)

end Ekit.HashMap
