/-
Linearizability of the DelayQueue model w.r.t. the atomic *timed* specification: a multiset with a
monotone clock; `Enqueue` inserts unless full, `Dequeue` removes an element that is present, expired at
the specification's clock and of minimal deadline; both may fail with a context error without effect.
Proof by forward simulation (Ekit/Conc/System.lean): linearization points are the `enq` step (success),
the `pop` step, and the step that takes a `ctx.Done()` arm.
-/
import Ekit.Lemmas.DelayQInv

namespace Ekit.DelayQ
open Ekit.Conc

structure SpecS where
  now : Nat
  q : List Elem

/-- the atomic timed specification; the clock may advance by any amount before the operation takes effect -/
def timedSpec (P : Params) : SeqSpec SpecS Op Ret where
  init := ⟨0, []⟩
  apply s op s' r := ∃ n, s'.now = s.now + n ∧
    match op, r with
    | .enq x, .enqOk => isFull P s.q = false ∧ s'.q = x :: s.q
    | .enq _, .enqCtx => s'.q = s.q
    | .deq, .deqOk x => isMin s.q x = true ∧ x.dl ≤ s'.now ∧ s'.q = s.q.erase x
    | .deq, .deqCtx => s'.q = s.q
    | _, _ => False

/-- status of a thread in the canonical automaton, read off its program counter -/
def absTh : Pc → TStatus Op Ret
  | .idle => .idle
  | .eTop x | .eLock x | .eCrit x | .eWait x _ | .sFetch (.enqWait x) | .sUnlock _ (.enqWait x) => .pending (.enq x)
  | .dTop | .dLock | .dPeek | .dPop _ | .dWaitE _ | .dArm _ _ | .dWaitT _ | .dRelock | .dRepeek | .dReUnlock
  | .sFetch .deqEmpty | .sFetch (.deqTimer _) | .sUnlock _ .deqEmpty | .sUnlock _ (.deqTimer _) => .pending .deq
  | .bSwap _ r | .bUnlock _ _ r | .bClose _ _ r | .ret r => .done r

structure SimR (s : State) (a : AState SpecS Op Ret) : Prop where
  q : a.s.q = s.q
  now : a.s.now ≤ s.now
  th : ∀ t, a.th t = absTh (s.pc t)

theorem simR_init (P : Params) : SimR init (AInit (timedSpec P)) :=
  ⟨rfl, Nat.le_refl _, fun _ => rfl⟩

/-- a step that is invisible to the specification -/
theorem sim_silent {s s' : State} {a : AState SpecS Op Ret} (hr : SimR s a)
    (hq : s'.q = s.q) (hn : s.now ≤ s'.now) (t : Nat) (p' : Pc) (hpc : s'.pc = upd s.pc t p')
    (hth : absTh p' = absTh (s.pc t)) : SimR s' a := by
  refine ⟨by rw [hq]; exact hr.q, Nat.le_trans hr.now hn, fun u => ?_⟩
  rw [hpc, hr.th u]
  by_cases h : u = t
  · subst h; simp [hth]
  · simp [upd, h]

theorem sim_silent_nopc {s s' : State} {a : AState SpecS Op Ret} (hr : SimR s a)
    (hq : s'.q = s.q) (hn : s.now ≤ s'.now) (hpc : s'.pc = s.pc) : SimR s' a :=
  ⟨by rw [hq]; exact hr.q, Nat.le_trans hr.now hn, fun u => by rw [hpc]; exact hr.th u⟩

theorem sim_th_upd {s : State} {a : AState SpecS Op Ret} (hr : SimR s a) (t : Nat) (p' : Pc) (st : TStatus Op Ret)
    (h : absTh p' = st) : ∀ u, upd a.th t st u = absTh (upd s.pc t p' u) := by
  intro u
  by_cases hu : u = t
  · subst hu; simp [h]
  · simp [upd, hu, hr.th u]

abbrev SimGoal (P : Params) (a : AState SpecS Op Ret) (s' : State) (l : Label) : Prop :=
  ∃ als a', ARun (timedSpec P) a als a' ∧ SimR s' a' ∧ als.filterMap ALabel.obs = (obs l).toList

theorem sim_inv (P : Params) {s s' : State} {a : AState SpecS Op Ret} (hr : SimR s a) (t : Nat) (op : Op) (p' : Pc)
    (l : Label) (hl : obs l = some (.inv t op))
    (hidle : s.pc t = .idle) (hp : absTh p' = .pending op)
    (hq : s'.q = s.q) (hn : s'.now = s.now) (hpc : s'.pc = upd s.pc t p') : SimGoal P a s' l := by
  refine ⟨[.inv t op], ⟨a.s, upd a.th t (.pending op)⟩, .cons (.inv (by rw [hr.th, hidle]; rfl)) .nil, ?_, by simp [hl, ALabel.obs]⟩
  exact ⟨by rw [hq]; exact hr.q, by rw [hn]; exact hr.now, by rw [hpc]; exact sim_th_upd hr t p' _ hp⟩

theorem sim_res (P : Params) {s s' : State} {a : AState SpecS Op Ret} (hr : SimR s a) (t : Nat) (r : Ret)
    (l : Label) (hl : obs l = some (.res t r))
    (hret : s.pc t = .ret r)
    (hq : s'.q = s.q) (hn : s'.now = s.now) (hpc : s'.pc = upd s.pc t .idle) : SimGoal P a s' l := by
  refine ⟨[.res t r], ⟨a.s, upd a.th t .idle⟩, .cons (.res (by rw [hr.th, hret]; rfl)) .nil, ?_, by simp [hl, ALabel.obs]⟩
  exact ⟨by rw [hq]; exact hr.q, by rw [hn]; exact hr.now, by rw [hpc]; exact sim_th_upd hr t _ _ rfl⟩

theorem sim_lin (P : Params) {s s' : State} {a : AState SpecS Op Ret} (hr : SimR s a) (t : Nat) (op : Op) (r : Ret)
    (p' : Pc) (l : Label) (hl : obs l = none)
    (hpend : absTh (s.pc t) = .pending op) (hdone : absTh p' = .done r)
    (hn : s'.now = s.now) (hpc : s'.pc = upd s.pc t p')
    (happ : (timedSpec P).apply a.s op ⟨s.now, s'.q⟩ r) : SimGoal P a s' l := by
  refine ⟨[.lin t ⟨s.now, s'.q⟩ r], ⟨⟨s.now, s'.q⟩, upd a.th t (.done r)⟩,
    .cons (.lin (by rw [hr.th, hpend]) happ) .nil, ?_, by simp [hl, ALabel.obs]⟩
  exact ⟨rfl, by rw [hn]; exact Nat.le_refl _, by rw [hpc]; exact sim_th_upd hr t p' _ hdone⟩

theorem sim_quiet (P : Params) {s' : State} {a : AState SpecS Op Ret} (l : Label) (hl : obs l = none)
    (h : SimR s' a) : SimGoal P a s' l :=
  ⟨[], a, .nil, h, by simp [hl]⟩

set_option maxHeartbeats 1000000 in
theorem sim_step (P : Params) (s : State) (a : AState SpecS Op Ret) (l : Label) (s' : State)
    (hi : Inv P s) (hR : SimR s a) (h : step P s l = some s') : SimGoal P a s' l := by
  have hnow := hR.now
  have hq := hR.q
  have hpop := hi.pop
  step_cases h <;>
    first
    | exact sim_quiet P _ rfl (sim_silent_nopc hR rfl (Nat.le_add_right _ _) rfl)
    | exact sim_quiet P _ rfl (sim_silent_nopc hR rfl (Nat.le_refl _) rfl)
    | exact sim_inv P hR _ _ _ _ rfl ‹_› rfl rfl rfl rfl
    | exact sim_res P hR _ _ _ rfl ‹_› rfl rfl rfl
    | (subst_vars; exact sim_res P hR _ _ _ rfl ‹_› rfl rfl rfl)
    | (refine sim_quiet P _ rfl (sim_silent hR rfl (Nat.le_refl _) _ _ rfl ?_); simp [*, absTh]; done)
    | (refine sim_quiet P _ rfl (sim_silent hR rfl (Nat.le_refl _) _ _ rfl ?_)
       cases ‹Cont› <;> simp [*, absTh] <;> done)
    -- linearization points: a ctx.Done() arm is taken
    | (refine sim_lin P hR _ (.enq ‹Elem›) .enqCtx _ _ rfl ?hp rfl rfl rfl ?happ
       case hp => rw [‹s.pc _ = _›]; rfl
       case happ =>
         refine ⟨s.now - a.s.now, ?_, ?_⟩
         · dsimp only; omega
         · exact hq.symm)
    | (refine sim_lin P hR _ .deq .deqCtx _ _ rfl ?_ rfl rfl rfl ?_
       · simp [*, absTh]; done
       refine ⟨s.now - a.s.now, ?_, ?_⟩
       · dsimp only; omega
       · exact hq.symm)
    -- the insertion
    | (refine sim_lin P hR _ (.enq ‹Elem›) .enqOk _ _ rfl ?hp rfl rfl rfl ?happ
       case hp => rw [‹s.pc _ = _›]; rfl
       case happ =>
         refine ⟨s.now - a.s.now, ?_, ?_⟩
         · dsimp only; omega
         · dsimp only; rw [hq]; exact ⟨by simpa using ‹¬isFull P s.q = true›, rfl⟩)
    -- the removal
    | (refine sim_lin P hR _ .deq (.deqOk _) _ _ rfl ?_ rfl rfl rfl ?_
       · simp [*, absTh]; done
       refine ⟨s.now - a.s.now, ?_, ?_⟩
       · dsimp only; omega
       · have hx := hpop _ _ ‹s.pc _ = Pc.dPop _›
         have := isMin_le ‹isMin s.q _ = true› _ hx.1
         dsimp only; rw [hq]; exact ⟨‹_›, by omega, rfl⟩)
    -- q.Dequeue() cannot find the queue empty after a successful Peek
    | (have hx := hpop _ _ ‹s.pc _ = Pc.dPop _›
       rw [‹s.q = []›] at hx; cases hx.1)

theorem linearizable_timed (P : Params) (ls : List Label) (s : State)
    (hrun : (sys P).toSystem.run (sys P).init ls = some s) :
    Linearizable (timedSpec P) ((sys P).history ls) := by
  refine forward_simulation (sys P) (timedSpec P) SimR (simR_init P) ?_ ls s hrun
  intro s a l s' hreach hR hs
  exact sim_step P s a l s' (inv_reachable P s hreach) hR hs

end Ekit.DelayQ
