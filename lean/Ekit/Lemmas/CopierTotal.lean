/-
Helper lemmas for C20, part 3: running a well-formed trie on well-typed values never panics and
keeps the destination well-typed.
-/
import Ekit.Lemmas.CopierBuild

namespace Ekit.Copier
open Ekit.Go

/-- registered converters return values of their declared result type (Go's type system) -/
def ConvOK (o : Options) : Prop :=
  ∀ name c, o.conv? name = some c → ∀ v r, c.fn v = some r → wt c.dstTy r = true

/-! ### the two pointer-stripping prologues of `copyTreeNode` -/

theorem derefSrc_wt (sT : Ty) (sv : Val) (h : wt sT sv = true) :
    (derefSrc sT sv = .nilPtr ∧ sT.kind = .ptr ∧ sv = .nil) ∨
    (∃ x, derefSrc sT sv = .val sT.stripPtr x ∧ wt sT.stripPtr x = true ∧
        ((sT.kind ≠ .ptr ∧ x = sv) ∨ (sT.kind = .ptr ∧ sv = .ptr x))) := by
  by_cases hk : sT.kind = .ptr
  · obtain ⟨e, he⟩ := elem_of_kind_ptr sT hk
    rcases wt_ptr sT e sv he h with rfl | ⟨x, rfl, hx⟩
    · exact Or.inl ⟨by simp [derefSrc, hk, he], hk, rfl⟩
    · refine Or.inr ⟨x, by simp [derefSrc, hk, he, stripPtr_of_elem he], ?_, Or.inr ⟨hk, rfl⟩⟩
      rw [stripPtr_of_elem he]; exact hx
  · refine Or.inr ⟨sv, ?_, ?_, Or.inl ⟨hk, rfl⟩⟩
    · simp [derefSrc, hk, stripPtr_of_not_ptr hk]
    · rw [stripPtr_of_not_ptr hk]; exact h

/-- the destination value's flags allow what `copyTreeNode` does to it -/
def FlOK (fl : Flags) (dT : Ty) (dv : Val) : Prop :=
  fl.ro = false ∧ (fl.addr = true ∨ (dT.kind = .ptr ∧ dv ≠ .nil))

theorem canSet_FlOK {fl : Flags} (h : fl.canSet = true) (dT : Ty) (dv : Val) : FlOK fl dT dv := by
  simp only [Flags.canSet, Bool.and_eq_true, Bool.not_eq_true'] at h
  exact ⟨h.2, Or.inl h.1⟩

theorem derefDst_wt (dT : Ty) (dv : Val) (fl : Flags) (h : wt dT dv = true) (hf : FlOK fl dT dv) :
    (dT.kind ≠ .ptr ∧ derefDst dT dv fl = .val dT.stripPtr dv fl false ∧ wt dT.stripPtr dv = true ∧
        fl.canSet = true) ∨
    (dT.kind = .ptr ∧ ∃ y, derefDst dT dv fl = .val dT.stripPtr y fl.elem true ∧ wt dT.stripPtr y = true ∧
        fl.elem.canSet = true ∧ ((dv = .nil ∧ y = zeroOf dT.stripPtr) ∨ dv = .ptr y)) := by
  obtain ⟨hro, haddr⟩ := hf
  have helem : fl.elem.canSet = true := by simp [Flags.elem, Flags.canSet, hro]
  by_cases hk : dT.kind = .ptr
  · obtain ⟨e, he⟩ := elem_of_kind_ptr dT hk
    refine Or.inr ⟨hk, ?_⟩
    rw [stripPtr_of_elem he]
    rcases wt_ptr dT e dv he h with rfl | ⟨y, rfl, hy⟩
    · have hcs : fl.canSet = true := by
        rcases haddr with ha | ⟨_, hne⟩
        · simp [Flags.canSet, ha, hro]
        · exact absurd rfl hne
      exact ⟨zeroOf e, by simp [derefDst, hk, he, hcs], wt_zeroOf e, helem, Or.inl ⟨rfl, rfl⟩⟩
    · exact ⟨y, by simp [derefDst, hk, he], hy, helem, Or.inr rfl⟩
  · refine Or.inl ⟨hk, ?_, ?_, ?_⟩
    · simp [derefDst, hk, stripPtr_of_not_ptr hk]
    · rw [stripPtr_of_not_ptr hk]; exact h
    · rcases haddr with ha | ⟨hp, _⟩
      · simp [Flags.canSet, ha, hro]
      · exact absurd hp hk

/-- `rewrap` puts the pointer back that `derefDst` stripped -/
theorem wt_rewrap (dT : Ty) (wasPtr : Bool) (y : Val)
    (hw : (wasPtr = false ∧ dT.kind ≠ .ptr) ∨ (wasPtr = true ∧ dT.kind = .ptr))
    (hy : wt dT.stripPtr y = true) : wt dT (rewrap wasPtr y) = true := by
  rcases hw with ⟨rfl, hk⟩ | ⟨rfl, hk⟩
  · simp only [rewrap]
    rw [stripPtr_of_not_ptr hk] at hy
    simpa using hy
  · simp only [rewrap, if_true]
    obtain ⟨e, he⟩ := elem_of_kind_ptr dT hk
    rw [stripPtr_of_elem he] at hy
    exact wt_of_ptr dT e y he hy

/-! ### the leaf block -/

theorem copyLeaf_total (opts : Options) (hc : ConvOK opts) (name : String)
    (oST : Ty) (oS : Val) (oDT : Ty) (oFl : Flags) (sTy : Ty) (sVal : Val) (dTy : Ty) (dInner : Val)
    (fl : Flags) (wasPtr : Bool)
    (hw : (wasPtr = false ∧ oDT.kind ≠ .ptr) ∨ (wasPtr = true ∧ oDT.kind = .ptr))
    (hd : dTy = oDT.stripPtr) (hs : wt sTy sVal = true) (hdi : wt dTy dInner = true) :
    (copyLeaf opts name oST oS false oDT oFl sTy sVal dTy dInner fl wasPtr).res.isPanic = false ∧
    wt oDT (copyLeaf opts name oST oS false oDT oFl sTy sVal dTy dInner fl wasPtr).dst = true := by
  subst hd
  have keep : wt oDT (rewrap wasPtr dInner) = true := wt_rewrap oDT wasPtr dInner hw hdi
  unfold copyLeaf
  by_cases h1 : (!fl.canSet) = true
  · rw [if_pos h1]; exact ⟨rfl, keep⟩
  · rw [if_neg h1]
    cases hcv : opts.conv? name with
    | none =>
      simp only []
      by_cases h2 : sTy ≠ oDT.stripPtr
      · rw [if_pos h2]; exact ⟨rfl, keep⟩
      · rw [if_neg h2]
        have h2' : sTy = oDT.stripPtr := by simpa using h2
        by_cases h3 : sVal.isZero = true
        · rw [if_pos h3]; exact ⟨rfl, keep⟩
        · rw [if_neg h3]
          exact ⟨rfl, wt_rewrap oDT wasPtr sVal hw (h2' ▸ hs)⟩
    | some c =>
      simp only []
      by_cases h2 : (!oFl.canSet) = true
      · rw [if_pos h2]; exact ⟨rfl, keep⟩
      · rw [if_neg h2]
        simp only [Bool.false_eq_true, if_false]
        unfold Conv.apply
        by_cases h3 : oST ≠ c.srcTy
        · rw [if_pos h3]; exact ⟨rfl, keep⟩
        · rw [if_neg h3]
          cases hfn : c.fn oS with
          | none => exact ⟨rfl, keep⟩
          | some r =>
            simp only []
            by_cases h4 : c.dstTy ≠ oDT
            · rw [if_pos h4]; exact ⟨rfl, keep⟩
            · rw [if_neg h4]
              have h4' : c.dstTy = oDT := by simpa using h4
              exact ⟨rfl, h4' ▸ hc name c hcv oS r hfn⟩

/-! ### the whole tree -/

mutual
theorem copyNode_total (opts : Options) (hc : ConvOK opts) : ∀ (n : Node) (sT : Ty) (sv : Val) (dT : Ty)
    (dv : Val) (fl : Flags), NodeOK n sT dT → wt sT sv = true → wt dT dv = true → FlOK fl dT dv →
    (copyNode opts n sT sv false dT dv fl).res.isPanic = false ∧
      wt dT (copyNode opts n sT sv false dT dv fl).dst = true
  | .mk name si di leaf kids, sT, sv, dT, dv, fl, hok, hs, hd, hf => by
      simp only [copyNode]
      rcases derefSrc_wt sT sv hs with ⟨h1, _, _⟩ | ⟨x, h1, hx, _⟩
      · rw [h1]; exact ⟨rfl, hd⟩
      · rw [h1]
        simp only []
        rcases derefDst_wt dT dv fl hd hf with ⟨hk, h2, hy, hcs⟩ | ⟨hk, y, h2, hy, hcs, _⟩
        · rw [h2]
          simp only []
          cases leaf with
          | true =>
            simp only [if_true]
            exact copyLeaf_total opts hc name sT sv dT fl _ x _ dv fl false (Or.inl ⟨rfl, hk⟩) rfl hx hy
          | false =>
            simp only [Bool.false_eq_true, if_false]
            simp only [NodeOK, Bool.false_eq_true, false_or] at hok
            obtain ⟨sfs, dfs, hsfs, hdfs, hkids⟩ := hok
            have := copyChildren_total opts hc kids sT.stripPtr x dT.stripPtr dv fl sfs dfs hsfs hdfs hkids hx hy hcs
            exact ⟨this.1, wt_rewrap dT false _ (Or.inl ⟨rfl, hk⟩) this.2⟩
        · rw [h2]
          simp only []
          cases leaf with
          | true =>
            simp only [if_true]
            exact copyLeaf_total opts hc name sT sv dT fl _ x _ y fl.elem true (Or.inr ⟨rfl, hk⟩) rfl hx hy
          | false =>
            simp only [Bool.false_eq_true, if_false]
            simp only [NodeOK, Bool.false_eq_true, false_or] at hok
            obtain ⟨sfs, dfs, hsfs, hdfs, hkids⟩ := hok
            have := copyChildren_total opts hc kids sT.stripPtr x dT.stripPtr y fl.elem sfs dfs hsfs hdfs hkids hx hy hcs
            exact ⟨this.1, wt_rewrap dT true _ (Or.inr ⟨rfl, hk⟩) this.2⟩
theorem copyChildren_total (opts : Options) (hc : ConvOK opts) : ∀ (kids : List Node) (sTy : Ty) (sv : Val)
    (dTy : Ty) (dv : Val) (fl : Flags) (sfs dfs : List Field), sTy.fields? = some sfs → dTy.fields? = some dfs →
    KidsOK kids sfs dfs → wt sTy sv = true → wt dTy dv = true → fl.canSet = true →
    (copyChildren opts kids sTy sv false dTy dv fl).res.isPanic = false ∧
      wt dTy (copyChildren opts kids sTy sv false dTy dv fl).dst = true
  | [], _, _, _, dv, _, _, _, _, _, _, _, hd, _ => by
      simp only [copyChildren]
      exact ⟨rfl, hd⟩
  | child :: rest, sTy, sv, dTy, dv, fl, sfs, dfs, hsfs, hdfs, hkids, hs, hd, hcs => by
      simp only [KidsOK] at hkids
      obtain ⟨⟨sf, df, hsf, hdf, hes, hed, hchild⟩, hrest⟩ := hkids
      simp only [copyChildren]
      by_cases hig : opts.inIgnore child.name = true
      · rw [if_pos hig]
        exact copyChildren_total opts hc rest sTy sv dTy dv fl sfs dfs hsfs hdfs hrest hs hd hcs
      · rw [if_neg hig]
        obtain ⟨sfv, hsfv, hwsfv⟩ := wt_field sTy sfs sv child.srcIndex sf hsfs hs hsf
        obtain ⟨dfv, hdfv, hwdfv⟩ := wt_field dTy dfs dv child.dstIndex df hdfs hd hdf
        simp only [hsfs, hdfs, hsf, hdf, hsfv, hdfv, hes, hed, Bool.not_true, Bool.or_false]
        have hfl : FlOK (fl.field true) (fty df) dfv := by
          simp only [Flags.canSet, Bool.and_eq_true, Bool.not_eq_true'] at hcs
          exact ⟨by simp [Flags.field, hcs.2], Or.inl (by simp [Flags.field, hcs.1])⟩
        have hr := copyNode_total opts hc child (fty sf) sfv (fty df) dfv (fl.field true) hchild hwsfv hwdfv hfl
        have hd' : wt dTy (dv.setField child.dstIndex
            (copyNode opts child (fty sf) sfv false (fty df) dfv (fl.field true)).dst) = true :=
          wt_setField dTy dfs dv child.dstIndex df _ hdfs hd hdf hr.2
        cases hres : (copyNode opts child (fty sf) sfv false (fty df) dfv (fl.field true)).res with
        | ok u =>
          simp only []
          exact copyChildren_total opts hc rest sTy sv dTy _ fl sfs dfs hsfs hdfs hrest hs hd' hcs
        | err e => exact ⟨rfl, hd'⟩
        | panic m => rw [hres] at hr; simp [Outcome.isPanic] at hr
end

end Ekit.Copier
