/- Helper lemmas for the list models (C04). Core Lean only. -/
import Ekit.Model.Lists

namespace Ekit.Lists
open Ekit.Go

/-! ### the shifting loops of slice.Add / slice.Delete compute insertIdx / eraseIdx -/

theorem length_shiftRight (l : List Int) (index i : Nat) : (shiftRight l index i).length = l.length := by
  induction i generalizing l with
  | zero => simp [shiftRight]
  | succ i ih => unfold shiftRight; split <;> simp [ih]

theorem getElem?_shiftRight (l : List Int) (index i : Nat) (hi : i < l.length) (j : Nat) :
    (shiftRight l index i)[j]? = if index < j ∧ j ≤ i then l[j - 1]? else l[j]? := by
  induction i generalizing l with
  | zero =>
    simp only [shiftRight]
    have : ¬ (index < j ∧ j ≤ 0) := by omega
    rw [if_neg this]
  | succ i ih =>
    unfold shiftRight
    split
    · rename_i h
      have hl : i < (l.set (i + 1) (l.getD i 0)).length := by simp; omega
      rw [ih _ hl]
      simp only [List.getElem?_set, List.getD_eq_getElem?_getD]
      by_cases h1 : index < j ∧ j ≤ i
      · have h2 : index < j ∧ j ≤ i + 1 := by omega
        have h3 : ¬ (i + 1 = j - 1) := by omega
        simp [h1, h2, h3]
      · by_cases h4 : j = i + 1
        · subst h4
          have h5 : index < i + 1 ∧ i + 1 ≤ i + 1 := by omega
          have h6 : i < l.length := by omega
          simp [h1, h5, hi, List.getElem?_eq_getElem h6]
        · have h2 : ¬ (index < j ∧ j ≤ i + 1) := by omega
          have h3 : ¬ (i + 1 = j) := by omega
          simp [h1, h2, h3]
    · rename_i h
      have : ¬ (index < j ∧ j ≤ i + 1) := by omega
      simp [this]

/-- slice.Add's append-shift-store is `insertIdx`. -/
theorem shiftRight_insert (vals : List Int) (index : Nat) (e : Int) (h : index ≤ vals.length) :
    (shiftRight (vals ++ [0]) index ((vals ++ [0]).length - 1)).set index e = vals.insertIdx index e := by
  apply List.ext_getElem?
  intro j
  have hlen : (vals ++ [0]).length - 1 = vals.length := by simp
  rw [hlen]
  rw [List.getElem?_set, getElem?_shiftRight _ _ _ (by simp), List.getElem?_insertIdx,
    length_shiftRight]
  simp only [List.length_append, List.length_cons, List.length_nil]
  by_cases h1 : index = j
  · subst h1
    have : index < vals.length + (0 + 1) := by omega
    simp [this, h]
  · by_cases h2 : j < index
    · have h3 : ¬ (index < j ∧ j ≤ vals.length) := by omega
      have h4 : j < vals.length := by omega
      simp [h1, h2, h3, List.getElem?_append, h4]
    · have h5 : ¬ (j = index) := by omega
      by_cases h6 : j ≤ vals.length
      · have h3 : index < j ∧ j ≤ vals.length := by omega
        have h4 : j - 1 < vals.length := by omega
        simp [h1, h2, h3, h5, List.getElem?_append, h4]
      · have h3 : ¬ (index < j ∧ j ≤ vals.length) := by omega
        have h4 : ¬ (j < vals.length) := by omega
        have h7 : vals.length ≤ j - 1 := by omega
        have h8 : vals.length ≤ j := by omega
        have h9 : ¬ (j - vals.length = 0) := by omega
        simp [h1, h2, h3, h5, List.getElem?_append, h4, List.getElem?_eq_none h7]
        cases hj : j - vals.length with
        | zero => omega
        | succ k => simp

theorem length_shiftLeft (l : List Int) (len i fuel : Nat) : (shiftLeft l len i fuel).length = l.length := by
  induction fuel generalizing l i with
  | zero => simp [shiftLeft]
  | succ f ih => unfold shiftLeft; split <;> simp [ih]

theorem getElem?_shiftLeft (l : List Int) (i fuel : Nat) (hf : l.length ≤ i + fuel + 1) (j : Nat) :
    (shiftLeft l l.length i fuel)[j]? = if i ≤ j ∧ j + 1 < l.length then l[j + 1]? else l[j]? := by
  induction fuel generalizing l i with
  | zero =>
    simp only [shiftLeft]
    have : ¬ (i ≤ j ∧ j + 1 < l.length) := by omega
    simp [this]
  | succ f ih =>
    unfold shiftLeft
    split
    · rename_i h
      have hlen : (l.set i (l.getD (i + 1) 0)).length = l.length := by simp
      have := ih (l.set i (l.getD (i + 1) 0)) (i + 1) (by simp; omega)
      rw [hlen] at this
      rw [this]
      simp only [List.getElem?_set, List.getD_eq_getElem?_getD]
      by_cases h1 : i + 1 ≤ j ∧ j + 1 < l.length
      · have h2 : i ≤ j ∧ j + 1 < l.length := by omega
        have h3 : ¬ (i = j + 1) := by omega
        simp [h1, h2, h3]
      · by_cases h4 : j = i
        · subst h4
          have h5 : j ≤ j ∧ j + 1 < l.length := by omega
          have h6 : j < l.length := by omega
          simp [h1, h5, h6, List.getElem?_eq_getElem h]
        · have h2 : ¬ (i ≤ j ∧ j + 1 < l.length) := by omega
          have h3 : ¬ (i = j) := by omega
          simp [h1, h2, h3]
    · rename_i h
      have : ¬ (i ≤ j ∧ j + 1 < l.length) := by omega
      simp [this]

/-- slice.Delete's shift-and-truncate is `eraseIdx`. -/
theorem shiftLeft_erase (vals : List Int) (index : Nat) (h : index < vals.length) :
    (shiftLeft vals vals.length index vals.length).take (vals.length - 1) = vals.eraseIdx index := by
  apply List.ext_getElem?
  intro j
  have hf : vals.length ≤ index + vals.length + 1 := by omega
  rw [List.getElem?_take, getElem?_shiftLeft vals index vals.length hf, List.getElem?_eraseIdx]
  by_cases h1 : j < vals.length - 1
  · by_cases h2 : j < index
    · have : ¬ (index ≤ j ∧ j + 1 < vals.length) := by omega
      simp [h1, h2, this]
    · have : index ≤ j ∧ j + 1 < vals.length := by omega
      simp [h1, h2, this]
  · have h3 : vals.length ≤ j + 1 := by omega
    by_cases h2 : j < index
    · omega
    · simp [h1, h2, List.getElem?_eq_none h3]

/-! ### calCapacity (regenerated from the source on every run) -/

/-- The reading of `calCapacity` the list and heap models were written against.  The regenerated
    translation of the current source must equal it (`calCapacity_eq_ref`): this is the obligation
    that notices an edited threshold, factor or guard. -/
def nz (l : Int) : Int := if l = 0 then 1 else l

def calCapacityRef (c l : Int) : Option (Int × Bool) :=
  if c ≤ 64 then some (c, false)
  else if c > 2048 ∧ Int.tdiv c (nz l) ≥ 2 then some (Int.tdiv (c * 5) 8, true)
  else if c ≤ 2048 ∧ Int.tdiv c (nz l) ≥ 4 then some (Int.tdiv c 2, true)
  else some (c, false)

theorem calCapacity_eq_ref (c l : Int) : Ekit.Gen.calCapacity c l = calCapacityRef c l := by
  unfold Ekit.Gen.calCapacity calCapacityRef goDiv nz
  by_cases h64 : c ≤ 64
  · simp [h64]
  · by_cases hl : l = 0
    · by_cases h2048 : c > 2048 <;> simp [h64, hl, h2048] <;> (try split) <;> simp_all <;> omega
    · by_cases h2048 : c > 2048
      · have : ¬ c ≤ 2048 := by omega
        simp [h64, hl, h2048, this]
      · have : c ≤ 2048 := by omega
        simp [h64, hl, h2048, this]

theorem calCapacity_isSome (c l : Int) : (Ekit.Gen.calCapacity c l).isSome = true := by
  rw [calCapacity_eq_ref]
  unfold calCapacityRef
  repeat' split
  all_goals rfl

theorem calCapacity_nonneg (c l n : Int) (b : Bool) (hc0 : 0 ≤ c)
    (h : Ekit.Gen.calCapacity c l = some (n, b)) : 0 ≤ n := by
  rw [calCapacity_eq_ref] at h
  unfold calCapacityRef at h
  have e5 : Int.tdiv (c * 5) 8 = (c * 5) / 8 := Int.tdiv_eq_ediv_of_nonneg (by omega)
  have e2 : Int.tdiv c 2 = c / 2 := Int.tdiv_eq_ediv_of_nonneg hc0
  repeat' (split at h)
  all_goals (simp at h; omega)

theorem calCapacity_changed_ge (c l n : Int) (hl : 0 ≤ l) (hc : l ≤ c)
    (h : Ekit.Gen.calCapacity c l = some (n, true)) : l ≤ n ∧ 0 ≤ n := by
  rw [calCapacity_eq_ref] at h
  unfold calCapacityRef at h
  have hc0 : 0 ≤ c := by omega
  have e5 : Int.tdiv (c * 5) 8 = (c * 5) / 8 := Int.tdiv_eq_ediv_of_nonneg (by omega)
  have e2 : Int.tdiv c 2 = c / 2 := Int.tdiv_eq_ediv_of_nonneg hc0
  have hnzpos : 0 < nz l := by unfold nz; split <;> omega
  have hnzge : l ≤ nz l := by unfold nz; split <;> omega
  have el : Int.tdiv c (nz l) = c / (nz l) := Int.tdiv_eq_ediv_of_nonneg hc0
  split at h
  · simp at h
  · split at h
    · rename_i hh
      obtain ⟨h1, h2⟩ := hh
      rw [el] at h2
      have : 2 * (nz l) ≤ c := (Int.le_ediv_iff_mul_le hnzpos).mp h2
      simp at h; omega
    · split at h
      · rename_i hh
        obtain ⟨h1, h2⟩ := hh
        rw [el] at h2
        have : 4 * (nz l) ≤ c := (Int.le_ediv_iff_mul_le hnzpos).mp h2
        simp at h; omega
      · simp at h

end Ekit.Lists
