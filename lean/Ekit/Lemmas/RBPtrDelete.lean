/-
`deleteNode` (translated from internal/tree/red_black_tree.go) preserves the pointer-level invariant `Holds`
(the set of addresses may shrink: the spliced-out node, and whatever hangs under a cut-off node, become garbage).
-/
import Ekit.MiniGo.RBOrder
import Ekit.Lemmas.RBPtrSize
namespace Ekit.MiniGo.RBHeap.Del
open Ekit.MiniGo Ekit.Gen.RBTreeGo

/-! ### order: list-level facts -/

/-- the keys of the addresses other than `n`, in order, are ascending -/
def Good (cmpF : Int → Int → Int) (h : Nat → Node) (L : List Nat) (n : Nat) : Prop :=
  ((L.filter (· != n)).map fun a => (h a).key).Pairwise fun x y => cmpF x y < 0

theorem good_of_ordered {cmpF : Int → Int → Int} {st : St} {t : PT} (ho : Ordered cmpF st t) (n : Nat) :
    Good cmpF st.h t.addrs n :=
  List.Pairwise.sublist (List.Sublist.map _ List.filter_sublist) ho

theorem good_use {cmpF : Int → Int → Int} {h h' : Nat → Node} {L L' : List Nat} {n : Nat}
    (hg : Good cmpF h L n) (hs : L'.Sublist L) (hn : n ∉ L') (hk : ∀ a, (h' a).key = (h a).key) :
    (L'.map fun a => (h' a).key).Pairwise fun x y => cmpF x y < 0 := by
  have e : (fun a => (h' a).key) = fun a => (h a).key := funext hk
  rw [e]
  have h1 : L'.filter (· != n) = L' := by
    rw [List.filter_eq_self]; intro a ha; simp; intro e; exact hn (e ▸ ha)
  have h2 := List.Sublist.filter (· != n) hs
  rw [h1] at h2
  exact List.Pairwise.sublist (List.Sublist.map _ h2) hg

/-- after `a.key = s.key` (`s` the in-order successor of `a`) the keys other than that of `s` are ascending -/
theorem good_succ {cmpF : Int → Int → Int} {key key' : Nat → Int} {L pre post : List Nat} {a s : Nat}
    (hL : L = pre ++ a :: s :: post) (hnd : L.Nodup)
    (ho : (L.map key).Pairwise fun x y => cmpF x y < 0)
    (hk : ∀ x, x ≠ a → key' x = key x) (hka : key' a = key s) :
    ((L.filter (· != s)).map key').Pairwise fun x y => cmpF x y < 0 := by
  subst hL
  have hnd' := hnd
  rw [List.nodup_append] at hnd'
  obtain ⟨_, h2, h3⟩ := hnd'
  rw [List.nodup_cons, List.nodup_cons] at h2
  obtain ⟨ha, hs, _⟩ := h2
  have has : a ≠ s := fun e => ha (by simp [e])
  have hspre : s ∉ pre := fun hx => h3 s hx s (by simp) rfl
  have hapre : a ∉ pre := fun hx => h3 a hx a (by simp) rfl
  have hapost : a ∉ post := fun hx => ha (by simp [hx])
  have f1 : pre.filter (· != s) = pre := by
    rw [List.filter_eq_self]; intro x hx; simp; intro e; exact hspre (e ▸ hx)
  have f2 : post.filter (· != s) = post := by
    rw [List.filter_eq_self]; intro x hx; simp; intro e; exact hs (e ▸ hx)
  have hf : (pre ++ a :: s :: post).filter (· != s) = pre ++ a :: post := by
    simp [List.filter_append, f1, f2, has]
  rw [hf]
  have hm : (pre ++ a :: post).map key' = (pre ++ s :: post).map key := by
    simp only [List.map_append, List.map_cons, hka]
    congr 1
    · exact List.map_congr_left (fun x hx => hk x (fun e => hapre (e ▸ hx)))
    · congr 1
      exact List.map_congr_left (fun x hx => hk x (fun e => hapost (e ▸ hx)))
  rw [hm]
  refine List.Pairwise.sublist (List.Sublist.map _ ?_) ho
  exact List.Sublist.append (List.Sublist.refl _) (List.sublist_cons_self _ _)

/-- what the pointer surgery of `deleteNode` achieves: the new heap holds a tree whose in-order address list is a
    sublist of the old one without `n`, and no key field has changed -/
structure Shr (st st' : St) (t t' : PT) (n : Nat) : Prop where
  holds : Holds st' t'
  sub : t'.addrs.Sublist t.addrs
  nmem : n ∉ t'.addrs
  keys : ∀ a, (st'.h a).key = (st.h a).key

theorem Shr.pres {st0 st st' : St} {t t' t'' : PT} {n : Nat} (h1 : Shr st0 st t t' n) (h2 : Pres st st' t' t'') :
    Shr st0 st' t t'' n :=
  ⟨h2.holds, by rw [h2.addrs]; exact h1.sub, by rw [h2.addrs]; exact h1.nmem,
   fun a => (h2.keys a).trans (h1.keys a)⟩

theorem Shr.of_pres {st0 st st' : St} {t t' t'' : PT} {n : Nat} (h1 : Pres st0 st t t') (h2 : Shr st st' t' t'' n) :
    Shr st0 st' t t'' n :=
  ⟨h2.holds, by rw [← h1.addrs]; exact h2.sub, h2.nmem, fun a => (h2.keys a).trans (h1.keys a)⟩

theorem Shr.mem {st st' : St} {t t' : PT} {n : Nat} (h : Shr st st' t t' n) : ∀ x ∈ t'.addrs, x ∈ t.addrs :=
  fun _ hx => h.sub.subset hx

theorem Shr.ordered {cmpF : Int → Int → Int} {st st' : St} {t t' : PT} {n : Nat} (h : Shr st st' t t' n)
    (hg : Good cmpF st.h t.addrs n) : Ordered cmpF st' t' :=
  good_use hg h.sub h.nmem h.keys

/-- `c → |L| + 1 = m` -/
def LenQ (c : Prop) (m : Nat) : List Nat → Prop := fun L => c → L.length + 1 = m

theorem shr_intro {st stm : St} {t : PT} {n r : Nat} (Q : List Nat → Prop)
    (h : ∃ t', Holds stm t' ∧ t'.addrs.Sublist t.addrs ∧ n ∉ t'.addrs ∧ r ∈ t'.addrs ∧ Q t'.addrs)
    (hk : ∀ a, (stm.h a).key = (st.h a).key) : ∃ t', Shr st stm t t' n ∧ r ∈ t'.addrs ∧ Q t'.addrs := by
  obtain ⟨t', h1, h2, h3, h4, h5⟩ := h
  exact ⟨t', ⟨h1, h2, h3, hk⟩, h4, h5⟩

theorem shr_intro' {st stm : St} {t : PT} {n : Nat} (Q : List Nat → Prop)
    (h : ∃ t', Holds stm t' ∧ t'.addrs.Sublist t.addrs ∧ n ∉ t'.addrs ∧ Q t'.addrs)
    (hk : ∀ a, (stm.h a).key = (st.h a).key) : ∃ t', Shr st stm t t' n ∧ Q t'.addrs := by
  obtain ⟨t', h1, h2, h3, h4⟩ := h
  exact ⟨t', ⟨h1, h2, h3, hk⟩, h4⟩

/-! ### tree-level facts -/

theorem repr_nil {h : Nat → Node} {par : Option Nat} {t : PT} (hR : Repr h none par t) : t = .leaf := by
  cases t with
  | leaf => rfl
  | node l a r => simp [Repr] at hR

theorem replace_length {t : PT} {n : Nat} {s s' : PT} (hnd : t.addrs.Nodup) (hs : t.sub n = some s)
    (hl : s'.addrs.length + 1 = s.addrs.length) : (t.replace n s').addrs.length + 1 = t.addrs.length := by
  obtain ⟨pre, post, e1, e2⟩ := addrs_replace (s' := s') hnd hs
  rw [e1, e2]
  simp only [List.length_append]
  omega

theorem replace_sublist {t : PT} {n : Nat} {s s' : PT} (hnd : t.addrs.Nodup) (hs : t.sub n = some s)
    (hsub : s'.addrs.Sublist s.addrs) : (t.replace n s').addrs.Sublist t.addrs := by
  obtain ⟨pre, post, e1, e2⟩ := addrs_replace (s' := s') hnd hs
  rw [e1, e2]
  exact List.Sublist.append (List.Sublist.append (List.Sublist.refl _) hsub) (List.Sublist.refl _)

theorem not_mem_replace {t : PT} {n : Nat} {s s' : PT} (hnd : t.addrs.Nodup) (hs : t.sub n = some s)
    (hn : n ∉ s'.addrs) : n ∉ (t.replace n s').addrs := by
  rw [mem_replace hnd hs]
  obtain ⟨⟨L, R, rfl⟩, _⟩ := sub_spec hs
  rintro (⟨_, h2⟩ | h2)
  · exact h2 (by simp [PT.addrs])
  · exact hn h2

theorem ptr_mem {t : PT} {n : Nat} (h : t.ptr = some n) : n ∈ t.addrs := by
  cases t with
  | leaf => simp [PT.ptr] at h
  | node l b r => simp [PT.ptr] at h; subst h; simp [PT.addrs]

/-- where the parent of `n` is: either `n` is the root of `t`, or the parent is a node of `t` outside the subtree at
    `n` that has `n` as exactly one of its children -/
theorem par_facts {h : Nat → Node} {t : PT} {n : Nat} {s : PT} : ∀ {p0 par0}, Repr h p0 par0 t → t.addrs.Nodup →
    t.sub n = some s →
    (t.parOf par0 n = par0 ∧ s = t) ∨
    (∃ p, t.parOf par0 n = some p ∧ p ∈ t.addrs ∧ p ∉ s.addrs ∧
      (((h p).left = some n ∧ (h p).right ≠ some n) ∨ ((h p).left ≠ some n ∧ (h p).right = some n))) := by
  induction t with
  | leaf => intro p0 par0 _ _ hs; simp [PT.sub] at hs
  | node l b r ihl ihr =>
    intro p0 par0 hR hnd hs
    simp only [Repr] at hR
    obtain ⟨h1, h2, h3, h4⟩ := hR
    have hnd' := hnd
    simp only [PT.addrs] at hnd'
    rw [List.nodup_append] at hnd'
    obtain ⟨ndl, ndr', hdisj⟩ := hnd'
    rw [List.nodup_cons] at ndr'
    obtain ⟨hbr, ndr⟩ := ndr'
    have hbl : b ∉ l.addrs := fun hb => hdisj b hb b (by simp) rfl
    by_cases hab : n = b
    · left
      simp [PT.sub, hab] at hs
      simp [PT.parOf, hab, hs]
    · right
      simp only [PT.sub, hab, if_false] at hs
      cases hl : l.sub n with
      | some s0 =>
        simp [hl] at hs; subst hs
        have hnl := mem_of_sub hl
        have hsl := (sub_spec hl).2
        simp only [PT.parOf, hab, if_false, hl]
        rcases ihl h3 ndl hl with ⟨e1, e2⟩ | ⟨p, e1, e2, e3, e4⟩
        · refine ⟨b, e1, by simp [PT.addrs], fun hb => hbl (hsl b hb), .inl ⟨?_, ?_⟩⟩
          · rw [repr_ptr h3]
            obtain ⟨⟨l', r', e⟩, _⟩ := sub_spec hl
            rw [← e2, e]; rfl
          · intro e; rw [repr_ptr h4] at e
            exact hdisj n hnl n (by simp [ptr_mem e]) rfl
        · exact ⟨p, e1, by simp [PT.addrs, e2], e3, e4⟩
      | none =>
        simp [hl] at hs
        have hnr := mem_of_sub hs
        have hsr := (sub_spec hs).2
        simp only [PT.parOf, hab, if_false, hl]
        rcases ihr h4 ndr hs with ⟨e1, e2⟩ | ⟨p, e1, e2, e3, e4⟩
        · refine ⟨b, e1, by simp [PT.addrs], fun hb => hbr (hsr b hb), .inr ⟨?_, ?_⟩⟩
          · intro e; rw [repr_ptr h3] at e
            exact hdisj n (ptr_mem e) n (by simp [hnr]) rfl
          · rw [repr_ptr h4]
            obtain ⟨⟨l', r', e⟩, _⟩ := sub_spec hs
            rw [← e2, e]; rfl
        · exact ⟨p, e1, by simp [PT.addrs, e2], e3, e4⟩

/-- a node of the tree that has `n` as a child is `n`'s parent -/
theorem child_parent {h : Nat → Node} {t : PT} {b n : Nat} {p0 par0} (hR : Repr h p0 par0 t) (hb : b ∈ t.addrs)
    (hc : (h b).left = some n ∨ (h b).right = some n) : (h n).parent = some b := by
  obtain ⟨s, hs⟩ := sub_some_of_mem hb
  obtain ⟨⟨l, r, rfl⟩, _⟩ := sub_spec hs
  have h1 := repr_sub hR hs
  simp only [Repr] at h1
  obtain ⟨_, _, h3, h4⟩ := h1
  rcases hc with hc | hc
  · rw [hc] at h3
    cases l with
    | leaf => simp [Repr] at h3
    | node _ x _ => simp only [Repr] at h3; have := h3.1; simp at this; subst this; exact h3.2.1
  · rw [hc] at h4
    cases r with
    | leaf => simp [Repr] at h4
    | node _ x _ => simp only [Repr] at h4; have := h4.1; simp at this; subst this; exact h4.2.1

/-- the core heap-level lemma: the subtree at `n` is replaced by `s'` (made of nodes of the old subtree) -/
theorem replace_holds {h h' : Nat → Node} {al : Nat} {root root' : Option Nat} {sz sz' : Int} {t s s' : PT} {n : Nat}
    (hH : Holds ⟨h, al, root, sz⟩ t) (hs : t.sub n = some s)
    (hsub : ∀ x ∈ s'.addrs, x ∈ s.addrs) (hnd' : s'.addrs.Nodup)
    (hs' : Repr h' s'.ptr (h n).parent s')
    (hfr : ∀ b ∈ t.addrs, b ∉ s.addrs → (h n).parent ≠ some b → SamePtrs (h' b) (h b))
    (hp : ∀ p, (h n).parent = some p → (h' p).parent = (h p).parent ∧
      (((h p).left = some n ∧ (h' p).left = s'.ptr ∧ (h' p).right = (h p).right) ∨
       ((h p).left ≠ some n ∧ (h' p).left = (h p).left ∧ ((h p).right = some n → (h' p).right = s'.ptr))))
    (hroot1 : (h n).parent = none → root' = s'.ptr)
    (hroot2 : ∀ p, (h n).parent = some p → root' = root) :
    Holds ⟨h', al, root', sz'⟩ (t.replace n s') ∧ ∀ x ∈ (t.replace n s').addrs, x ∈ t.addrs := by
  obtain ⟨hR, hnd, hlt⟩ := hH
  simp only at hR hlt
  obtain ⟨⟨L, R, hsLR⟩, hst⟩ := sub_spec hs
  have hsubR := repr_sub hR hs
  have hpar : (h n).parent = t.parOf none n := by
    rw [hsLR] at hsubR; simp only [Repr] at hsubR; exact hsubR.2.1
  have hmem : ∀ x ∈ (t.replace n s').addrs, x ∈ t.addrs := by
    intro x hx
    rw [mem_replace hnd hs] at hx
    rcases hx with hx | hx
    · exact hx.1
    · exact hst x (hsub x hx)
  have hpf := par_facts hR hnd hs
  have hrep := repr_replace (s' := s') (h' := h') hR hnd hs (by rw [← hpar]; exact hs') (by
    intro b hb hbs
    by_cases hpb : (h n).parent = some b
    · obtain ⟨q1, q2⟩ := hp b hpb
      rcases hpf with ⟨e1, e2⟩ | ⟨p, e1, e2, e3, e4⟩
      · rw [← hpar, hpb] at e1; simp at e1
      · rw [← hpar, hpb] at e1; simp at e1; subst e1
        refine ⟨q1, ?_, ?_⟩
        · rcases q2 with ⟨a1, a2, a3⟩ | ⟨a1, a2, a3⟩
          · rw [if_pos a1, a2]
          · rw [if_neg a1, a2]
        · rcases q2 with ⟨a1, a2, a3⟩ | ⟨a1, a2, a3⟩
          · rcases e4 with ⟨_, c2⟩ | ⟨c1, _⟩
            · rw [if_neg c2, a3]
            · exact absurd a1 c1
          · rcases e4 with ⟨c1, _⟩ | ⟨_, c2⟩
            · exact absurd c1 a1
            · rw [if_pos c2, a3 c2]
    · obtain ⟨f1, f2, f3⟩ := hfr b hb hbs hpb
      have hl : (h b).left ≠ some n := fun e => hpb (child_parent hR hb (.inl e))
      have hr : (h b).right ≠ some n := fun e => hpb (child_parent hR hb (.inr e))
      exact ⟨f3, by rw [if_neg hl, f1], by rw [if_neg hr, f2]⟩)
  refine ⟨⟨?_, ?_, ?_⟩, hmem⟩
  · simp only
    have : root' = (if root = some n then s'.ptr else root) := by
      rcases hpf with ⟨e1, e2⟩ | ⟨p, e1, e2, e3, e4⟩
      · have hr : root = some n := by rw [repr_ptr hR, ← e2, hsLR]; rfl
        rw [if_pos hr]; exact hroot1 (by rw [hpar, e1])
      · have hr : root ≠ some n := by
          intro e
          have e' := repr_ptr hR
          cases t with
          | leaf => simp [PT.addrs] at e2
          | node l b r =>
            simp [PT.ptr, e] at e'
            subst e'
            simp [PT.sub] at hs
            subst hs
            exact e3 e2
        rw [if_neg hr]; exact hroot2 p (by rw [hpar, e1])
    rw [this]; exact hrep
  · exact nodup_replace hnd hs hnd' (fun x hx => .inl (hsub x hx))
  · intro a ha; exact hlt a (hmem a ha)

theorem sub_nodup {t : PT} {n : Nat} {s : PT} (hs : t.sub n = some s) (hnd : t.addrs.Nodup) : s.addrs.Nodup := by
  induction t with
  | leaf => simp [PT.sub] at hs
  | node l b r ihl ihr =>
    have hnd' := hnd
    simp only [PT.addrs] at hnd'
    rw [List.nodup_append] at hnd'
    obtain ⟨ndl, ndr', _⟩ := hnd'
    rw [List.nodup_cons] at ndr'
    by_cases hab : n = b
    · simp [PT.sub, hab] at hs; subst hs; exact hnd
    · simp only [PT.sub, hab, if_false] at hs
      cases hl : l.sub n with
      | some s0 => simp [hl] at hs; subst hs; exact ihl hl ndl
      | none => simp [hl] at hs; exact ihr hs ndr'.2

/-- splice-out of `n` with its only child `r` taking its place (if `n` has two children the right one is dropped) -/
theorem splice_holds {h : Nat → Node} {al : Nat} {root : Option Nat} {sz : Int} {t : PT} {n r : Nat}
    (hH : Holds ⟨h, al, root, sz⟩ t) (hn : n ∈ t.addrs)
    (hrn : (h n).left = some r ∨ ((h n).left = none ∧ (h n).right = some r)) :
    r ≠ n ∧ (∀ p, (h n).parent = some p → p ≠ n ∧ p ≠ r) ∧
    ∀ (h' : Nat → Node) (root' : Option Nat) (sz' : Int),
      ((h' r).parent = (h n).parent ∧ (h' r).left = (h r).left ∧ (h' r).right = (h r).right) →
      (∀ x, x ≠ r → x ≠ n → (h n).parent ≠ some x → SamePtrs (h' x) (h x)) →
      (∀ p, (h n).parent = some p → (h' p).parent = (h p).parent ∧
        (((h p).left = some n ∧ (h' p).left = some r ∧ (h' p).right = (h p).right) ∨
         ((h p).left ≠ some n ∧ (h' p).left = (h p).left ∧ (h' p).right = some r))) →
      ((h n).parent = none → root' = some r) →
      (∀ p, (h n).parent = some p → root' = root) →
      ∃ t', Holds ⟨h', al, root', sz'⟩ t' ∧ t'.addrs.Sublist t.addrs ∧ n ∉ t'.addrs ∧ r ∈ t'.addrs ∧
        (((h n).left = none ∨ (h n).right = none) → t'.addrs.length + 1 = t.addrs.length) := by
  obtain ⟨s, hs⟩ := sub_some_of_mem hn
  obtain ⟨⟨L, R, hsLR⟩, hst⟩ := sub_spec hs
  have hsnd := sub_nodup hs hH.2.1
  have hsubR := repr_sub hH.1 hs
  subst hsLR
  simp only [Repr] at hsubR
  obtain ⟨_, hpar, hL, hR⟩ := hsubR
  simp only [PT.addrs] at hsnd
  rw [List.nodup_append] at hsnd
  obtain ⟨ndL, ndR', hdisj⟩ := hsnd
  rw [List.nodup_cons] at ndR'
  obtain ⟨hnR, ndR⟩ := ndR'
  have hnL : n ∉ L.addrs := fun hb => hdisj n hb n (by simp) rfl
  -- the child subtree
  have hch : ∃ s', Repr h (some r) (some n) s' ∧ (∀ x ∈ s'.addrs, x ∈ (PT.node L n R).addrs ∧ x ≠ n) ∧
      s'.addrs.Nodup ∧ s'.addrs.Sublist (PT.node L n R).addrs ∧
      (((h n).left = none ∨ (h n).right = none) → s'.addrs.length + 1 = (PT.node L n R).addrs.length) := by
    rcases hrn with e | ⟨e0, e⟩
    · refine ⟨L, by rw [← e]; exact hL,
        fun x hx => ⟨by simp [PT.addrs, hx], fun e => hnL (e ▸ hx)⟩, ndL,
        List.sublist_append_left L.addrs (n :: R.addrs), ?_⟩
      rintro (c | c)
      · rw [e] at c; cases c
      · rw [c] at hR; rw [repr_nil hR]; simp [PT.addrs]
    · refine ⟨R, by rw [← e]; exact hR,
        fun x hx => ⟨by simp [PT.addrs, hx], fun e => hnR (e ▸ hx)⟩, ndR,
        (List.sublist_cons_self n R.addrs).trans (List.sublist_append_right L.addrs (n :: R.addrs)), ?_⟩
      intro _
      rw [e0] at hL; rw [repr_nil hL]; simp [PT.addrs]
  obtain ⟨s', hs'R, hs'sub, hs'nd, hs'sl, hs'len⟩ := hch
  cases s' with
  | leaf => simp [Repr] at hs'R
  | node A r' B =>
    simp only [Repr] at hs'R
    obtain ⟨hrr, hrp, hA, hB⟩ := hs'R
    simp at hrr; subst hrr
    have hrs := hs'sub r (by simp [PT.addrs])
    have hns : n ∈ (PT.node L n R).addrs := by simp [PT.addrs]
    have hpn : ∀ p, (h n).parent = some p → p ∉ (PT.node L n R).addrs := by
      intro p hp
      rcases par_facts hH.1 hH.2.1 hs with ⟨e1, _⟩ | ⟨p', e1, _, e3, _⟩
      · rw [hpar, e1] at hp; simp at hp
      · rw [hpar, e1] at hp; simp at hp; subst hp; exact e3
    refine ⟨hrs.2, fun p hp => ⟨fun e => hpn p hp (e ▸ hns), fun e => hpn p hp (e ▸ hrs.1)⟩, ?_⟩
    intro h' root' sz' hr hfr hp hroot1 hroot2
    simp only [PT.addrs] at hs'nd
    rw [List.nodup_append] at hs'nd
    obtain ⟨ndA, ndB', hdisj'⟩ := hs'nd
    rw [List.nodup_cons] at ndB'
    have hrA : r ∉ A.addrs := fun hb => hdisj' r hb r (by simp) rfl
    have hsame : ∀ a ∈ (PT.node A r B).addrs, a ≠ r → SamePtrs (h' a) (h a) := by
      intro a ha har
      have := hs'sub a ha
      exact hfr a har this.2 (fun e => hpn a e this.1)
    have hrep := replace_holds (h' := h') (root' := root') (sz' := sz') (s' := .node A r B) hH hs
      (fun x hx => (hs'sub x hx).1)
      (by simp only [PT.addrs]; rw [List.nodup_append]; exact ⟨ndA, List.nodup_cons.2 ndB', hdisj'⟩)
      (by
        simp only [PT.ptr, Repr]
        refine ⟨trivial, hr.1, ?_, ?_⟩
        · rw [hr.2.1]
          exact repr_congr (fun a ha => hsame a (by simp [PT.addrs, ha]) (fun e => hrA (e ▸ ha))) hA
        · rw [hr.2.2]
          exact repr_congr (fun a ha => hsame a (by simp [PT.addrs, ha]) (fun e => ndB'.1 (e ▸ ha))) hB)
      (fun b hb hbs hpb => hfr b (fun e => hbs (e ▸ hrs.1)) (fun e => hbs (e ▸ hns)) hpb)
      (fun p hp' => by
        obtain ⟨q1, q2⟩ := hp p hp'
        refine ⟨q1, ?_⟩
        rcases q2 with ⟨a1, a2, a3⟩ | ⟨a1, a2, a3⟩
        · exact .inl ⟨a1, a2, a3⟩
        · exact .inr ⟨a1, a2, fun _ => a3⟩)
      hroot1 hroot2
    refine ⟨_, hrep.1, replace_sublist hH.2.1 hs hs'sl,
      not_mem_replace hH.2.1 hs (fun hx => (hs'sub n hx).2 rfl), ?_, ?_⟩
    · rw [mem_replace hH.2.1 hs]
      exact .inr (by simp [PT.addrs])
    · exact fun c => replace_length hH.2.1 hs (hs'len c)

/-- cutting off the subtree at `n` (whose parent is `p`) -/
theorem cut_holds {h : Nat → Node} {al : Nat} {root : Option Nat} {sz : Int} {t : PT} {n p : Nat}
    (hH : Holds ⟨h, al, root, sz⟩ t) (hn : n ∈ t.addrs) (hp : (h n).parent = some p) :
    p ≠ n ∧ ((h p).left = some n ∨ (h p).right = some n) ∧
    ∀ (h' : Nat → Node) (sz' : Int),
      (∀ x, x ≠ n → x ≠ p → SamePtrs (h' x) (h x)) →
      ((h' p).parent = (h p).parent ∧
        (((h p).left = some n ∧ (h' p).left = none ∧ (h' p).right = (h p).right) ∨
         ((h p).left ≠ some n ∧ (h' p).left = (h p).left ∧ (h' p).right = none))) →
      ∃ t', Holds ⟨h', al, root, sz'⟩ t' ∧ t'.addrs.Sublist t.addrs ∧ n ∉ t'.addrs ∧
        ((h n).left = none → (h n).right = none → t'.addrs.length + 1 = t.addrs.length) := by
  obtain ⟨s, hs⟩ := sub_some_of_mem hn
  obtain ⟨⟨L, R, hsLR⟩, hst⟩ := sub_spec hs
  have hsubR := repr_sub hH.1 hs
  subst hsLR
  simp only [Repr] at hsubR
  obtain ⟨_, hpar, hL, hR⟩ := hsubR
  have hns : n ∈ (PT.node L n R).addrs := by simp [PT.addrs]
  have hpf : p ∉ (PT.node L n R).addrs ∧ ((h p).left = some n ∨ (h p).right = some n) := by
    rcases par_facts hH.1 hH.2.1 hs with ⟨e1, _⟩ | ⟨p', e1, _, e3, e4⟩
    · rw [hpar, e1] at hp; simp at hp
    · rw [hpar, e1] at hp; simp at hp; subst hp
      exact ⟨e3, by rcases e4 with e | e; exact .inl e.1; exact .inr e.2⟩
  refine ⟨fun e => hpf.1 (e ▸ hns), hpf.2, ?_⟩
  intro h' sz' hfr hp'
  have hrep := replace_holds (h' := h') (root' := root) (sz' := sz') (s' := .leaf) hH hs
    (fun x hx => by simp [PT.addrs] at hx) (by simp [PT.addrs]) (by simp [Repr, PT.ptr])
    (fun b _ hbs hpb => hfr b (fun e => hbs (e ▸ hns)) (fun e => hpb (by rw [hp, e])))
    (fun q hq => by
      rw [hp] at hq; simp at hq; subst hq
      refine ⟨hp'.1, ?_⟩
      rcases hp'.2 with ⟨a1, a2, a3⟩ | ⟨a1, a2, a3⟩
      · exact .inl ⟨a1, a2, a3⟩
      · exact .inr ⟨a1, a2, fun _ => a3⟩)
    (fun e => by rw [hp] at e; simp at e) (fun _ _ => rfl)
  refine ⟨_, hrep.1, replace_sublist hH.2.1 hs (by simp [PT.addrs]),
    not_mem_replace hH.2.1 hs (by simp [PT.addrs]), fun c1 c2 => replace_length hH.2.1 hs ?_⟩
  rw [c1] at hL; rw [c2] at hR
  rw [repr_nil hL, repr_nil hR]; simp [PT.addrs]

/-- a childless, parentless node of the tree is the whole tree -/
theorem single_node {st : St} {t : PT} {n : Nat} (hH : Holds st t) (hn : n ∈ t.addrs)
    (hl : (st.h n).left = none) (hr : (st.h n).right = none) (hp : (st.h n).parent = none) :
    t.addrs.length = 1 := by
  obtain ⟨s, hs⟩ := sub_some_of_mem hn
  obtain ⟨⟨L, R, hsLR⟩, _⟩ := sub_spec hs
  have hsubR := repr_sub hH.1 hs
  subst hsLR
  simp only [Repr] at hsubR
  obtain ⟨_, hpar, hL, hR⟩ := hsubR
  rcases par_facts hH.1 hH.2.1 hs with ⟨_, e2⟩ | ⟨p', e1, _, _, _⟩
  · rw [hl] at hL; rw [hr] at hR
    rw [← e2, repr_nil hL, repr_nil hR]; simp [PT.addrs]
  · rw [hpar, e1] at hp; cases hp

/-! ### the pieces of the body -/

def dnSucc : Stmt PName :=
  (.ite (.and (.ne (.field (.var 1) .left) .nil) (.ne (.field (.var 1) .right) .nil))
    (.seq (.assign 2 (.call1 .findSuccessor (.var 1)))
    (.seq (.setField (.var 1) .key (.field (.var 2) .key))
    (.seq (.setField (.var 1) .value (.field (.var 2) .value))
    (.assign 1 (.var 2)))))
    .skip)

def dnPick : Stmt PName :=
  (.ite (.ne (.field (.var 1) .left) .nil)
    (.assign 3 (.field (.var 1) .left))
    (.assign 3 (.field (.var 1) .right)))

def dnLink : Stmt PName :=
  (.ite (.eq (.field (.var 1) .parent) .nil)
    (.setRoot (.var 3))
    (.ite (.eq (.var 1) (.field (.field (.var 1) .parent) .left))
    (.setField (.field (.var 1) .parent) .left (.var 3))
    (.setField (.field (.var 1) .parent) .right (.var 3))))

def dnTail : Stmt PName :=
  (.ite (.call1 .getColor (.var 1))
    (.expr (.call1 .fixAfterDelete (.var 3)))
    .skip)

def dnSplice : Stmt PName :=
  (.seq (.setField (.var 3) .parent (.field (.var 1) .parent))
    (.seq dnLink
    (.seq (.setField (.var 1) .left .nil)
    (.seq (.setField (.var 1) .right .nil)
    (.seq (.setField (.var 1) .parent .nil)
    dnTail)))))

def dnFix : Stmt PName :=
  (.ite (.call1 .getColor (.var 1))
    (.expr (.call1 .fixAfterDelete (.var 1)))
    .skip)

def dnCut : Stmt PName :=
  (.ite (.ne (.field (.var 1) .parent) .nil)
    (.seq (.ite (.eq (.var 1) (.field (.field (.var 1) .parent) .left))
    (.setField (.field (.var 1) .parent) .left .nil)
    (.ite (.eq (.var 1) (.field (.field (.var 1) .parent) .right))
    (.setField (.field (.var 1) .parent) .right .nil)
    .skip))
    (.setField (.var 1) .parent .nil))
    .skip)

def dnNoRepl : Stmt PName :=
  (.ite (.eq (.field (.var 1) .parent) .nil)
    (.setRoot .nil)
    (.seq dnFix dnCut))

theorem body_deleteNode_eq : body_deleteNode =
    (.seq (.assign 1 (.var 0))
    (.seq dnSucc
    (.seq (.assign 3 .nil)
    (.seq dnPick
    (.seq (.ite (.ne (.var 3) .nil) dnSplice dnNoRepl)
    (.setSize (.add .size (.int (-1))))))))) := rfl

/-- everything after the successor step -/
def dnRest : Stmt PName :=
  (.seq (.assign 3 .nil)
    (.seq dnPick
    (.seq (.ite (.ne (.var 3) .nil) dnSplice dnNoRepl)
    (.setSize (.add .size (.int (-1)))))))

def dnIte : Stmt PName := (.ite (.ne (.var 3) .nil) dnSplice dnNoRepl)

theorem dnRest_eq : dnRest =
    (.seq (.assign 3 .nil) (.seq dnPick (.seq dnIte (.setSize (.add .size (.int (-1))))))) := rfl

theorem body_deleteNode_eq' : body_deleteNode =
    (.seq (.assign 1 (.var 0)) (.seq dnSucc dnRest)) := rfl

theorem valEq_ptr (a b : Option Nat) : valEq (.ptr a) (.ptr b) = some (a == b) := rfl

theorem upd_same (h : Nat → Node) (a : Nat) (v : Node) : upd h a v a = v := by simp [upd]
theorem upd_ne (h : Nat → Node) {a x : Nat} (v : Node) (hne : x ≠ a) : upd h a v x = h x := by simp [upd, hne]

theorem holds_congr {st : St} {t : PT} {h' : Nat → Node} {sz : Int} (hH : Holds st t)
    (hs : ∀ a, SamePtrs (h' a) (st.h a)) : Holds ⟨h', st.alloc, st.root, sz⟩ t :=
  ⟨repr_congr (fun a _ => hs a) hH.1, hH.2.1, hH.2.2⟩

section
variable (cmpF : Int → Int → Int) (callH : CallH PName) (lf : Nat)

theorem exec_succ (hK : ∀ fn, isK fn = true → SpecK callH fn) :
    ∀ ρ st fl ρ' st' t n, Holds st t → ρ 1 = .ptr (some n) → n ∈ t.addrs →
      exec cmpF callH lf ρ st dnSucc = .ok (fl, ρ', st') →
      fl = .normal ∧ ∃ t' n', Holds st' t' ∧ SameAddrs t t' ∧ ρ' 1 = .ptr (some n') ∧ n' ∈ t'.addrs := by
  intro ρ st fl ρ' st' t n hH hρ hn hx
  simp only [dnSucc, exec, evalE, hρ, valEq_ptr, Node.get] at hx
  cases hl : (st.h n).left with
  | none =>
    simp [hl] at hx
    obtain ⟨rfl, rfl, rfl⟩ := hx
    exact ⟨rfl, t, n, hH, SameAddrs.refl t, hρ, hn⟩
  | some l =>
    cases hr : (st.h n).right with
    | none =>
      simp [hl, hr] at hx
      obtain ⟨rfl, rfl, rfl⟩ := hx
      exact ⟨rfl, t, n, hH, SameAddrs.refl t, hρ, hn⟩
    | some r =>
      cases hc : callH .findSuccessor [.ptr (some n)] st with
      | error e => simp [hl, hr, hc] at hx
      | ok res =>
        obtain ⟨v, st1⟩ := res
        obtain ⟨t1, hH1, hpr, hv⟩ := hK .findSuccessor rfl _ _ _ _ t hH (by simpa [PtrIn] using hn) hc
        have hsa := hpr.same
        simp [hl, hr, hc, Env.set, hρ] at hx
        cases v with
        | ptr p =>
          cases p with
          | none => simp at hx
          | some s =>
            simp [Node.set, Env.set, hρ] at hx
            obtain ⟨rfl, rfl, rfl⟩ := hx
            refine ⟨rfl, t1, s, holds_congr hH1 (fun a => ?_), hsa, by simp [Env.set], hv⟩
            by_cases han : a = n <;> simp [upd, SamePtrs, han]
        | _ => simp at hx

theorem exec_pick : ∀ ρ st fl ρ' st' n, ρ 1 = .ptr (some n) →
      exec cmpF callH lf ρ st dnPick = .ok (fl, ρ', st') →
      fl = .normal ∧ st' = st ∧ ρ' 1 = .ptr (some n) ∧
      ((∃ r, (st.h n).left = some r ∧ ρ' 3 = .ptr (some r)) ∨ ((st.h n).left = none ∧ ρ' 3 = .ptr (st.h n).right)) := by
  intro ρ st fl ρ' st' n hρ hx
  simp only [dnPick, exec, evalE, hρ, valEq_ptr, Node.get] at hx
  cases hl : (st.h n).left with
  | none =>
    simp [hl] at hx
    obtain ⟨rfl, rfl, rfl⟩ := hx
    simp [Env.set, hρ]
  | some l =>
    simp [hl] at hx
    obtain ⟨rfl, rfl, rfl⟩ := hx
    simp [Env.set, hρ]

theorem exec_tail (hK : ∀ fn, isK fn = true → SpecK callH fn)
    (hGC : ∀ args st v st', callH .getColor args st = .ok (v, st') → st' = st) :
    ∀ ρ st fl ρ' st' (st0 : St) (t : PT) n r (Q : List Nat → Prop),
      exec cmpF callH lf ρ st dnTail = .ok (fl, ρ', st') →
      ρ 3 = .ptr (some r) → (∃ t', Shr st0 st t t' n ∧ r ∈ t'.addrs ∧ Q t'.addrs) →
      fl = .normal ∧ ∃ t', Shr st0 st' t t' n ∧ Q t'.addrs := by
  intro ρ st fl ρ' st' st0 t n r Q hx hρ3 ⟨t', hS, hr, hQ⟩
  simp only [dnTail, exec, evalE, hρ3] at hx
  cases hc : callH .getColor [ρ 1] st with
  | error e => simp [hc] at hx
  | ok res =>
    obtain ⟨v, st1⟩ := res
    have := hGC _ _ _ _ hc
    subst this
    cases v with
    | bool b =>
      cases b with
      | false =>
        simp [hc] at hx
        obtain ⟨rfl, rfl, rfl⟩ := hx
        exact ⟨rfl, t', hS, hQ⟩
      | true =>
        simp only [hc] at hx
        cases hf : callH .fixAfterDelete [.ptr (some r)] st1 with
        | error e => simp [hf] at hx
        | ok res =>
          obtain ⟨v2, st2⟩ := res
          obtain ⟨t2, _, hpr, _⟩ := hK .fixAfterDelete rfl _ _ _ _ t' hS.holds (by simpa [PtrIn] using hr) hf
          simp [hf] at hx
          obtain ⟨rfl, rfl, rfl⟩ := hx
          exact ⟨rfl, t2, hS.pres hpr, by rw [hpr.addrs]; exact hQ⟩
    | _ => simp [hc] at hx

theorem exec_splice (hK : ∀ fn, isK fn = true → SpecK callH fn)
    (hGC : ∀ args st v st', callH .getColor args st = .ok (v, st') → st' = st) :
    ∀ ρ st fl ρ' st' t n r, Holds st t → n ∈ t.addrs → ρ 1 = .ptr (some n) → ρ 3 = .ptr (some r) →
      ((st.h n).left = some r ∨ ((st.h n).left = none ∧ (st.h n).right = some r)) →
      exec cmpF callH lf ρ st dnSplice = .ok (fl, ρ', st') →
      fl = .normal ∧ ∃ t', Shr st st' t t' n ∧
        (((st.h n).left = none ∨ (st.h n).right = none) → t'.addrs.length + 1 = t.addrs.length) := by
  intro ρ st fl ρ' st' t n r hH hn hρ1 hρ3 hrn hx
  obtain ⟨hrn', hpn, hsp⟩ := splice_holds (sz := st.size) hH hn hrn
  have hnr : n ≠ r := Ne.symm hrn'
  simp only [dnSplice, dnLink, exec, evalE, hρ1, hρ3, valEq_ptr, Node.get, Node.set] at hx
  cases hp : (st.h n).parent with
  | none =>
    simp [hp, upd_ne, hnr, hρ1] at hx
    refine exec_tail cmpF callH lf hK hGC _ _ _ _ _ st t n r (LenQ ((st.h n).left = none ∨ (st.h n).right = none) t.addrs.length) hx hρ3 (shr_intro (LenQ ((st.h n).left = none ∨ (st.h n).right = none) t.addrs.length) (hsp _ _ _ ?_ ?_ ?_ ?_ ?_) ?_)
    · simp [upd_ne, upd_same, hrn', hp]
    · intro x h1 h2 _; simp [upd_ne, h1, h2, SamePtrs]
    · intro p hp'; rw [hp] at hp'; cases hp'
    · intro _; rfl
    · intro p hp'; rw [hp] at hp'; cases hp'
    · intro a; simp only [upd]; (repeat' split) <;> simp_all
  | some p =>
    obtain ⟨hpn1, hpr⟩ := hpn p hp
    simp [hp, upd_ne, hnr, hpr, valEq_ptr] at hx
    cases hb : (some n == (st.h p).left) with
    | true =>
      have hb' : (st.h p).left = some n := (eq_of_beq hb).symm
      simp [hb, hp, upd_ne, upd_same, hnr, hpr, hρ1, Ne.symm hpn1] at hx
      refine exec_tail cmpF callH lf hK hGC _ _ _ _ _ st t n r (LenQ ((st.h n).left = none ∨ (st.h n).right = none) t.addrs.length) hx hρ3 (shr_intro (LenQ ((st.h n).left = none ∨ (st.h n).right = none) t.addrs.length) (hsp _ _ _ ?_ ?_ ?_ ?_ ?_) ?_)
      · simp [upd_ne, upd_same, hrn', hp, Ne.symm hpr]
      · intro x h1 h2 h3
        have h4 : x ≠ p := fun e => h3 (by rw [hp, e])
        simp [upd_ne, h1, h2, h4, SamePtrs]
      · intro q hq
        rw [hp] at hq; simp at hq; subst hq
        simp [upd_ne, upd_same, hpn1, hb']
      · intro e; rw [hp] at e; cases e
      · intro _ _; rfl
      · intro a; simp only [upd]; (repeat' split) <;> simp_all
    | false =>
      have hb' : (st.h p).left ≠ some n := fun e => by simp [e] at hb
      simp [hb, hp, upd_ne, upd_same, hnr, hpr, hρ1, Ne.symm hpn1] at hx
      refine exec_tail cmpF callH lf hK hGC _ _ _ _ _ st t n r (LenQ ((st.h n).left = none ∨ (st.h n).right = none) t.addrs.length) hx hρ3 (shr_intro (LenQ ((st.h n).left = none ∨ (st.h n).right = none) t.addrs.length) (hsp _ _ _ ?_ ?_ ?_ ?_ ?_) ?_)
      · simp [upd_ne, upd_same, hrn', hp, Ne.symm hpr]
      · intro x h1 h2 h3
        have h4 : x ≠ p := fun e => h3 (by rw [hp, e])
        simp [upd_ne, h1, h2, h4, SamePtrs]
      · intro q hq
        rw [hp] at hq; simp at hq; subst hq
        simp [upd_ne, upd_same, hpn1, hb']
      · intro e; rw [hp] at e; cases e
      · intro _ _; rfl
      · intro a; simp only [upd]; (repeat' split) <;> simp_all

theorem exec_fix (hK : ∀ fn, isK fn = true → SpecK callH fn)
    (hGC : ∀ args st v st', callH .getColor args st = .ok (v, st') → st' = st) :
    ∀ ρ st fl ρ' st' t n, Holds st t → n ∈ t.addrs → ρ 1 = .ptr (some n) →
      exec cmpF callH lf ρ st dnFix = .ok (fl, ρ', st') →
      fl = .normal ∧ ρ' = ρ ∧ ∃ t', Pres st st' t t' ∧
        (st' = st ∨ ∃ v, callH .fixAfterDelete [.ptr (some n)] st = .ok (v, st')) := by
  intro ρ st fl ρ' st' t n hH hn hρ1 hx
  simp only [dnFix, exec, evalE, hρ1] at hx
  cases hc : callH .getColor [.ptr (some n)] st with
  | error e => simp [hc] at hx
  | ok res =>
    obtain ⟨v, st1⟩ := res
    have := hGC _ _ _ _ hc
    subst this
    cases v with
    | bool b =>
      cases b with
      | false =>
        simp [hc] at hx
        obtain ⟨rfl, rfl, rfl⟩ := hx
        exact ⟨rfl, rfl, t, Pres.refl hH, .inl rfl⟩
      | true =>
        simp only [hc] at hx
        cases hf : callH .fixAfterDelete [.ptr (some n)] st1 with
        | error e => simp [hf] at hx
        | ok res =>
          obtain ⟨v2, st2⟩ := res
          obtain ⟨t2, _, hpr2, _⟩ := hK .fixAfterDelete rfl _ _ _ _ t hH (by simpa [PtrIn] using hn) hf
          simp [hf] at hx
          obtain ⟨rfl, rfl, rfl⟩ := hx
          exact ⟨rfl, rfl, t2, hpr2, .inr ⟨v2, rfl⟩⟩
    | _ => simp [hc] at hx

theorem exec_cut :
    ∀ ρ st fl ρ' st' t n, Holds st t → n ∈ t.addrs → ρ 1 = .ptr (some n) →
      exec cmpF callH lf ρ st dnCut = .ok (fl, ρ', st') →
      fl = .normal ∧ (((st.h n).parent = none ∧ st' = st) ∨ ∃ t', Shr st st' t t' n ∧
        ((st.h n).left = none → (st.h n).right = none → t'.addrs.length + 1 = t.addrs.length)) := by
  intro ρ st fl ρ' st' t n hH hn hρ1 hx
  simp only [dnCut, exec, evalE, hρ1, valEq_ptr, Node.get, Node.set] at hx
  cases hp : (st.h n).parent with
  | none =>
    simp [hp] at hx
    obtain ⟨rfl, rfl, rfl⟩ := hx
    exact ⟨rfl, .inl ⟨rfl, rfl⟩⟩
  | some p =>
    obtain ⟨hpn, hch, hcut⟩ := cut_holds (sz := st.size) hH hn hp
    simp [hp, valEq_ptr] at hx
    cases hb : (some n == (st.h p).left) with
    | true =>
      have hb' : (st.h p).left = some n := (eq_of_beq hb).symm
      simp [hb, hp, hρ1, upd_ne, Ne.symm hpn] at hx
      obtain ⟨rfl, rfl, rfl⟩ := hx
      refine ⟨rfl, .inr (shr_intro' (fun L => (st.h n).left = none → (st.h n).right = none → L.length + 1 = t.addrs.length) (hcut _ _ ?_ ?_) ?_)⟩
      · intro x h1 h2; simp [upd_ne, h1, h2, SamePtrs]
      · simp [upd_ne, upd_same, hpn, hb']
      · intro a; simp only [upd]; (repeat' split) <;> simp_all
    | false =>
      have hb' : (st.h p).left ≠ some n := fun e => by simp [e] at hb
      simp [hb, hp, valEq_ptr] at hx
      cases hb2 : (some n == (st.h p).right) with
      | true =>
        simp [hb2, hp, hρ1, upd_ne, Ne.symm hpn] at hx
        obtain ⟨rfl, rfl, rfl⟩ := hx
        refine ⟨rfl, .inr (shr_intro' (fun L => (st.h n).left = none → (st.h n).right = none → L.length + 1 = t.addrs.length) (hcut _ _ ?_ ?_) ?_)⟩
        · intro x h1 h2; simp [upd_ne, h1, h2, SamePtrs]
        · simp [upd_ne, upd_same, hpn, hb']
        · intro a; simp only [upd]; (repeat' split) <;> simp_all
      | false =>
        exfalso
        rcases hch with e | e
        · exact hb' e
        · simp [e] at hb2

/-- `fixAfterDelete(n)` on a leaf with a parent leaves it a leaf (a hypothesis of `deleteNode_size`) -/
def LeafStays (st : St) (n : Nat) : Prop :=
  (st.h n).left = none → (st.h n).right = none → (st.h n).parent ≠ none →
  ∀ v stm, callH .fixAfterDelete [.ptr (some n)] st = .ok (v, stm) →
    (stm.h n).left = none ∧ (stm.h n).right = none

theorem exec_norepl (hK : ∀ fn, isK fn = true → SpecK callH fn)
    (hGC : ∀ args st v st', callH .getColor args st = .ok (v, st') → st' = st) :
    ∀ ρ st fl ρ' st' t n, Holds st t → n ∈ t.addrs → ρ 1 = .ptr (some n) →
      exec cmpF callH lf ρ st dnNoRepl = .ok (fl, ρ', st') →
      fl = .normal ∧ ((∃ t', Shr st st' t t' n ∧
          ((st.h n).left = none → (st.h n).right = none → LeafStays callH st n →
            t'.addrs.length + 1 = t.addrs.length)) ∨
        ((st.h n).parent ≠ none ∧ ∃ v t', callH .fixAfterDelete [.ptr (some n)] st = .ok (v, st') ∧
          Pres st st' t t' ∧ (st'.h n).parent = none)) := by
  intro ρ st fl ρ' st' t n hH hn hρ1 hx
  simp only [dnNoRepl, exec, evalE, hρ1, valEq_ptr, Node.get] at hx
  cases hp : (st.h n).parent with
  | none =>
    simp [hp] at hx
    obtain ⟨rfl, rfl, rfl⟩ := hx
    refine ⟨rfl, .inl ⟨.leaf, ⟨⟨by simp [Repr], by simp [PT.addrs], by simp [PT.addrs]⟩, by simp [PT.addrs],
      by simp [PT.addrs], fun _ => rfl⟩, fun hl hr _ => ?_⟩⟩
    rw [single_node hH hn hl hr hp]; rfl
  | some p =>
    simp [hp] at hx
    cases hf : exec cmpF callH lf ρ st dnFix with
    | error e => simp [hf] at hx
    | ok res =>
      obtain ⟨fl1, ρ1, st1⟩ := res
      obtain ⟨rfl, rfl, t1, hpr, hcase⟩ := exec_fix cmpF callH lf hK hGC _ _ _ _ _ t n hH hn hρ1 hf
      simp [hf] at hx
      obtain ⟨h1, hcut⟩ := exec_cut cmpF callH lf _ _ _ _ _ t1 n hpr.holds ((hpr.same n).2 hn) hρ1 hx
      refine ⟨h1, ?_⟩
      rcases hcut with ⟨hpn, rfl⟩ | ⟨t2, hS, hlen⟩
      · rcases hcase with rfl | ⟨v, hv⟩
        · rw [hp] at hpn; cases hpn
        · exact .inr ⟨by simp, v, t1, hv, hpr, hpn⟩
      · refine .inl ⟨t2, Shr.of_pres hpr hS, fun hl hr hls => ?_⟩
        rw [← hpr.addrs]
        rcases hcase with rfl | ⟨v, hv⟩
        · exact hlen hl hr
        · obtain ⟨l1, r1⟩ := hls hl hr (by simp [hp]) v _ hv
          exact hlen l1 r1

/-- the exceptional outcome that contract K alone cannot exclude: `fixAfterDelete(n)` made the parentless -/
def Bad (st st' : St) (t : PT) (n : Nat) : Prop :=
  (st.h n).left = none ∧ (st.h n).right = none ∧ (st.h n).parent ≠ none ∧
  ∃ v stm t', callH .fixAfterDelete [.ptr (some n)] st = .ok (v, stm) ∧ Pres st stm t t' ∧
    (stm.h n).parent = none ∧ Holds st' t'

theorem exec_rest (hK : ∀ fn, isK fn = true → SpecK callH fn)
    (hGC : ∀ args st v st', callH .getColor args st = .ok (v, st') → st' = st) :
    ∀ ρ st fl ρ' st' t n, Holds st t → n ∈ t.addrs → ρ 1 = .ptr (some n) →
      exec cmpF callH lf ρ st dnRest = .ok (fl, ρ', st') →
      fl = .normal ∧ ((∃ t', Shr st st' t t' n ∧
        (((st.h n).left = none ∨ (st.h n).right = none) → LeafStays callH st n →
          t'.addrs.length + 1 = t.addrs.length)) ∨ Bad callH st st' t n) := by
  intro ρ st fl ρ' st' t n hH hn hρ1 hx
  simp only [dnRest, exec, evalE] at hx
  have hρ1' : (ρ.set 3 (.ptr none)) 1 = .ptr (some n) := by simp [Env.set, hρ1]
  cases h2 : exec cmpF callH lf (ρ.set 3 (.ptr none)) st dnPick with
  | error e => simp [h2] at hx
  | ok res =>
    obtain ⟨fl2, ρ2, st2⟩ := res
    obtain ⟨rfl, rfl, hρ2, hpick⟩ := exec_pick cmpF callH lf _ _ _ _ _ n hρ1' h2
    simp only [h2] at hx
    have hsplice : ∀ r, ρ2 3 = .ptr (some r) →
        ((st2.h n).left = some r ∨ ((st2.h n).left = none ∧ (st2.h n).right = some r)) →
        fl = .normal ∧ ((∃ t', Shr st2 st' t t' n ∧
          (((st2.h n).left = none ∨ (st2.h n).right = none) → LeafStays callH st2 n →
            t'.addrs.length + 1 = t.addrs.length)) ∨ Bad callH st2 st' t n) := by
      intro r hρ3 hrn
      simp [hρ3, valEq_ptr] at hx
      cases h3 : exec cmpF callH lf ρ2 st2 dnSplice with
      | error e => simp [h3] at hx
      | ok res =>
        obtain ⟨fl3, ρ3, st3⟩ := res
        obtain ⟨rfl, t3, hS, hlen⟩ := exec_splice cmpF callH lf hK hGC _ _ _ _ _ t n r hH hn hρ2 hρ3 hrn h3
        simp [h3] at hx
        obtain ⟨rfl, rfl, rfl⟩ := hx
        exact ⟨rfl, .inl ⟨t3, ⟨hS.holds, hS.sub, hS.nmem, hS.keys⟩, fun c _ => hlen c⟩⟩
    rcases hpick with ⟨r, hl, hρ3⟩ | ⟨hl, hρ3⟩
    · exact hsplice r hρ3 (.inl hl)
    · cases hr : (st2.h n).right with
      | some r =>
        have h := hsplice r (by rw [hρ3, hr]) (.inr ⟨hl, hr⟩)
        rw [hr] at h; exact h
      | none =>
        simp [hρ3, hr, valEq_ptr] at hx
        cases h3 : exec cmpF callH lf ρ2 st2 dnNoRepl with
        | error e => simp [h3] at hx
        | ok res =>
          obtain ⟨fl3, ρ3, st3⟩ := res
          obtain ⟨rfl, hcase⟩ := exec_norepl cmpF callH lf hK hGC _ _ _ _ _ t n hH hn hρ2 h3
          simp [h3] at hx
          obtain ⟨rfl, rfl, rfl⟩ := hx
          refine ⟨rfl, ?_⟩
          rcases hcase with ⟨t3, hS, hlen⟩ | ⟨hpn, v, t3, hv, hpr, hpn'⟩
          · exact .inl ⟨t3, ⟨hS.holds, hS.sub, hS.nmem, hS.keys⟩, fun _ hls => hlen hl hr hls⟩
          · exact .inr ⟨hl, hr, hpn, v, st3, t3, hv, hpr, hpn', hpr.holds⟩

/-- the successor step when the order is known and `findSuccessor` satisfies its exact contract -/
theorem exec_succ_ord
    (hSucc : ∀ a st v st' t, Holds st t → a ∈ t.addrs → (st.h a).right ≠ none →
       callH .findSuccessor [.ptr (some a)] st = .ok (v, st') →
       st' = st ∧ ∃ s pre post, v = .ptr (some s) ∧ t.addrs = pre ++ a :: s :: post ∧ (st.h s).left = none) :
    ∀ ρ st fl ρ' st' t n, Holds st t → ρ 1 = .ptr (some n) → n ∈ t.addrs →
      exec cmpF callH lf ρ st dnSucc = .ok (fl, ρ', st') →
      fl = .normal ∧ ∃ n', Holds st' t ∧ ρ' 1 = .ptr (some n') ∧ n' ∈ t.addrs ∧
        (Ordered cmpF st t → Good cmpF st'.h t.addrs n') ∧ st'.size = st.size ∧
        ((st'.h n').left = none ∨ (st'.h n').right = none) := by
  intro ρ st fl ρ' st' t n hH hρ hn hx
  simp only [dnSucc, exec, evalE, hρ, valEq_ptr, Node.get] at hx
  cases hl : (st.h n).left with
  | none =>
    simp [hl] at hx
    obtain ⟨rfl, rfl, rfl⟩ := hx
    exact ⟨rfl, n, hH, hρ, hn, fun hO => good_of_ordered hO n, rfl, .inl hl⟩
  | some l =>
    cases hr : (st.h n).right with
    | none =>
      simp [hl, hr] at hx
      obtain ⟨rfl, rfl, rfl⟩ := hx
      exact ⟨rfl, n, hH, hρ, hn, fun hO => good_of_ordered hO n, rfl, .inr hr⟩
    | some r =>
      cases hc : callH .findSuccessor [.ptr (some n)] st with
      | error e => simp [hl, hr, hc] at hx
      | ok res =>
        obtain ⟨v, st1⟩ := res
        obtain ⟨rfl, s, pre, post, rfl, hL, hsl⟩ := hSucc _ _ _ _ t hH hn (by simp [hr]) hc
        have hs : s ∈ t.addrs := by rw [hL]; simp
        have hsn : s ≠ n := by
          have := hH.2.1
          rw [hL, List.nodup_append] at this
          have h2 := this.2.1
          rw [List.nodup_cons] at h2
          intro e; exact h2.1 (by simp [e])
        simp [hl, hr, hc, Env.set, hρ, Node.set] at hx
        obtain ⟨rfl, rfl, rfl⟩ := hx
        refine ⟨rfl, s, holds_congr hH (fun a => ?_), by simp [Env.set], hs, fun hO => ?_, rfl, .inl ?_⟩
        · by_cases han : a = n <;> simp [upd, SamePtrs, han, hl, hr]
        · refine good_succ (key := fun a => (st1.h a).key) hL hH.2.1 hO ?_ ?_
          · intro x hxn; simp [upd, hxn]
          · simp [upd]
        · simp [upd, hsn, hsl]

end

theorem deleteNode_spec (cmpF : Int → Int → Int) (callH : CallH PName) (lf : Nat)
    (hK : ∀ fn, isK fn = true → SpecK callH fn)
    (hGC : ∀ args st v st', callH .getColor args st = .ok (v, st') → st' = st) :
    ∀ a st v st' t, Holds st t → a ∈ t.addrs →
      runBody cmpF callH lf (procs .deleteNode) [.ptr (some a)] st = .ok (v, st') →
      ∃ t', Holds st' t' ∧ ∀ x ∈ t'.addrs, x ∈ t.addrs := by
  intro a st v st' t hH ha hx
  simp only [runBody, procs, body_deleteNode_eq'] at hx
  simp only [exec, evalE] at hx
  have hρ0 : ((Env.ofArgs [Val.ptr (some a)]).set 1 (Env.ofArgs [Val.ptr (some a)] 0)) 1 = .ptr (some a) := by
    simp [Env.set, Env.ofArgs]
  generalize ((Env.ofArgs [Val.ptr (some a)]).set 1 (Env.ofArgs [Val.ptr (some a)] 0)) = ρ0 at hx hρ0
  cases h1 : exec cmpF callH lf ρ0 st dnSucc with
  | error e => simp [h1] at hx
  | ok res =>
    obtain ⟨fl1, ρ1, st1⟩ := res
    obtain ⟨rfl, t1, n, hH1, hsa, hρ1, hn⟩ := exec_succ cmpF callH lf hK _ _ _ _ _ t a hH hρ0 ha h1
    simp only [h1] at hx
    cases h2 : exec cmpF callH lf ρ1 st1 dnRest with
    | error e => simp [h2] at hx
    | ok res =>
      obtain ⟨fl2, ρ2, st2⟩ := res
      obtain ⟨rfl, hcase⟩ := exec_rest cmpF callH lf hK hGC _ _ _ _ _ t1 n hH1 hn hρ1 h2
      simp [h2] at hx
      obtain ⟨rfl, rfl⟩ := hx
      rcases hcase with ⟨t2, hS, _⟩ | ⟨_, _, _, v, stm, t2, _, hpr, _, hH2⟩
      · exact ⟨t2, hS.holds, fun x hx => (hsa x).1 (hS.mem x hx)⟩
      · exact ⟨t2, hH2, fun x hx => (hsa x).1 ((hpr.same x).1 hx)⟩

theorem deleteNode_ord (cmpF : Int → Int → Int) (hLaw : Ekit.RB.LawfulCmp cmpF) (callH : CallH PName) (lf : Nat)
    (hK : ∀ fn, isK fn = true → SpecK callH fn)
    (hGC : ∀ args st v st', callH .getColor args st = .ok (v, st') → st' = st)
    (hSucc : ∀ a st v st' t, Holds st t → a ∈ t.addrs → (st.h a).right ≠ none →
       callH .findSuccessor [.ptr (some a)] st = .ok (v, st') →
       st' = st ∧ ∃ s pre post, v = .ptr (some s) ∧ t.addrs = pre ++ a :: s :: post ∧ (st.h s).left = none)
    (hFix : ∀ x st v st' t, Holds st t → x ∈ t.addrs → (st.h x).left = none → (st.h x).right = none →
       (st.h x).parent ≠ none → callH .fixAfterDelete [.ptr (some x)] st = .ok (v, st') → (st'.h x).parent ≠ none) :
    ∀ a st v st' t, Holds st t → Ordered cmpF st t → a ∈ t.addrs →
      runBody cmpF callH lf (procs .deleteNode) [.ptr (some a)] st = .ok (v, st') →
      ∃ t', Holds st' t' ∧ Ordered cmpF st' t' := by
  intro a st v st' t hH hO ha hx
  have _ := hLaw  -- not needed: `Ordered` is pairwise, so no transitivity argument is required
  simp only [runBody, procs, body_deleteNode_eq'] at hx
  simp only [exec, evalE] at hx
  have hρ0 : ((Env.ofArgs [Val.ptr (some a)]).set 1 (Env.ofArgs [Val.ptr (some a)] 0)) 1 = .ptr (some a) := by
    simp [Env.set, Env.ofArgs]
  generalize ((Env.ofArgs [Val.ptr (some a)]).set 1 (Env.ofArgs [Val.ptr (some a)] 0)) = ρ0 at hx hρ0
  cases h1 : exec cmpF callH lf ρ0 st dnSucc with
  | error e => simp [h1] at hx
  | ok res =>
    obtain ⟨fl1, ρ1, st1⟩ := res
    obtain ⟨rfl, n, hH1, hρ1, hn, hG, _, _⟩ := exec_succ_ord cmpF callH lf hSucc _ _ _ _ _ t a hH hρ0 ha h1
    simp only [h1] at hx
    cases h2 : exec cmpF callH lf ρ1 st1 dnRest with
    | error e => simp [h2] at hx
    | ok res =>
      obtain ⟨fl2, ρ2, st2⟩ := res
      obtain ⟨rfl, hcase⟩ := exec_rest cmpF callH lf hK hGC _ _ _ _ _ t n hH1 hn hρ1 h2
      simp [h2] at hx
      obtain ⟨rfl, rfl⟩ := hx
      rcases hcase with ⟨t2, hS, _⟩ | ⟨hl, hr, hp, v, stm, t2, hv, _, hp', _⟩
      · exact ⟨t2, hS.holds, hS.ordered (hG hO)⟩
      · exact absurd hp' (hFix n st1 v stm t hH1 hn hl hr hp hv)

/-- `rb.size--` is executed exactly once, and nothing else touches the counter -/
theorem rest_size (cmpF : Int → Int → Int) (callH : CallH PName) (lf : Nat)
    (hSz : ∀ fn, isNoSize fn = true → SpecNoSize callH fn) :
    ∀ ρ st ρ' st', exec cmpF callH lf ρ st dnRest = .ok (.normal, ρ', st') → st'.size = st.size + -1 := by
  intro ρ st ρ' st' hx
  simp only [dnRest_eq, exec, evalE] at hx
  cases h2 : exec cmpF callH lf (ρ.set 3 (.ptr none)) st dnPick with
  | error e => simp [h2] at hx
  | ok res =>
    obtain ⟨fl2, ρ2, st2⟩ := res
    have s2 : st2.size = st.size := exec_ns cmpF callH hSz lf dnPick (by decide) _ _ _ _ _ h2
    cases fl2 with
    | normal =>
      simp only [h2] at hx
      cases h3 : exec cmpF callH lf ρ2 st2 dnIte with
      | error e => simp [h3] at hx
      | ok res =>
        obtain ⟨fl3, ρ3, st3⟩ := res
        have s3 : st3.size = st2.size := exec_ns cmpF callH hSz lf dnIte (by decide) _ _ _ _ _ h3
        cases fl3 with
        | normal =>
          simp [h3] at hx
          obtain ⟨_, rfl⟩ := hx
          simp [s3, s2]
        | _ => simp [h3] at hx
    | _ => simp [h2] at hx

theorem deleteNode_size (cmpF : Int → Int → Int) (callH : CallH PName) (lf : Nat)
    (hK : ∀ fn, isK fn = true → SpecK callH fn)
    (hGC : ∀ args st v st', callH .getColor args st = .ok (v, st') → st' = st)
    (hSucc : ∀ a st v st' t, Holds st t → a ∈ t.addrs → (st.h a).right ≠ none →
       callH .findSuccessor [.ptr (some a)] st = .ok (v, st') →
       st' = st ∧ ∃ s pre post, v = .ptr (some s) ∧ t.addrs = pre ++ a :: s :: post ∧ (st.h s).left = none)
    (hFix : ∀ x st v st' t, Holds st t → x ∈ t.addrs → (st.h x).left = none → (st.h x).right = none →
       (st.h x).parent ≠ none → callH .fixAfterDelete [.ptr (some x)] st = .ok (v, st') → (st'.h x).parent ≠ none)
    (hLeaf : ∀ x st v st' t, Holds st t → x ∈ t.addrs → (st.h x).left = none → (st.h x).right = none →
       (st.h x).parent ≠ none → callH .fixAfterDelete [.ptr (some x)] st = .ok (v, st') →
       (st'.h x).left = none ∧ (st'.h x).right = none)
    (hSz : ∀ fn, isNoSize fn = true → SpecNoSize callH fn) :
    ∀ a st v st' t, Holds st t → st.size = (t.addrs.length : Int) → a ∈ t.addrs →
      runBody cmpF callH lf (procs .deleteNode) [.ptr (some a)] st = .ok (v, st') →
      ∃ t', Holds st' t' ∧ st'.size = (t'.addrs.length : Int) := by
  intro a st v st' t hH hsz ha hx
  simp only [runBody, procs, body_deleteNode_eq'] at hx
  simp only [exec, evalE] at hx
  have hρ0 : ((Env.ofArgs [Val.ptr (some a)]).set 1 (Env.ofArgs [Val.ptr (some a)] 0)) 1 = .ptr (some a) := by
    simp [Env.set, Env.ofArgs]
  generalize ((Env.ofArgs [Val.ptr (some a)]).set 1 (Env.ofArgs [Val.ptr (some a)] 0)) = ρ0 at hx hρ0
  cases h1 : exec cmpF callH lf ρ0 st dnSucc with
  | error e => simp [h1] at hx
  | ok res =>
    obtain ⟨fl1, ρ1, st1⟩ := res
    obtain ⟨rfl, n, hH1, hρ1, hn, _, hsz1, hlf⟩ :=
      exec_succ_ord cmpF callH lf hSucc _ _ _ _ _ t a hH hρ0 ha h1
    simp only [h1] at hx
    cases h2 : exec cmpF callH lf ρ1 st1 dnRest with
    | error e => simp [h2] at hx
    | ok res =>
      obtain ⟨fl2, ρ2, st2⟩ := res
      obtain ⟨rfl, hcase⟩ := exec_rest cmpF callH lf hK hGC _ _ _ _ _ t n hH1 hn hρ1 h2
      have hsz2 := rest_size cmpF callH lf hSz _ _ _ _ h2
      simp [h2] at hx
      obtain ⟨rfl, rfl⟩ := hx
      rcases hcase with ⟨t2, hS, hlen⟩ | ⟨hl, hr, hp, v, stm, t2, hv, _, hp', _⟩
      · refine ⟨t2, hS.holds, ?_⟩
        have := hlen hlf (fun hl hr hp v stm hv => hLeaf n st1 v stm t hH1 hn hl hr hp hv)
        omega
      · exact absurd hp' (hFix n st1 v stm t hH1 hn hl hr hp hv)

end Ekit.MiniGo.RBHeap.Del

