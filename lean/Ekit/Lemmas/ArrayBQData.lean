/-
Second layer of invariants of the array blocking queue model: what the lock protects.
`data[tail]` still holds the value between `eStore` and `eAdv`, `data[head]` is still the value read
between `dRead` and `dAdv`, an `AsSlice` in progress has copied a prefix of the *current* contents,
FIFO / exactly-once accounting (`enqd = deqd ++ contents`), and the per-call footprint is a function
of the program counter.  All of these need the mutual exclusion proved in `ArrayBQInv`.
-/
import Ekit.Lemmas.ArrayBQInv
namespace Ekit.ArrayBQ
open Ekit.Conc Ekit.BQ

/-- footprint of a call as a function of where it is -/
def fpOf : Pc → Footprint
  | .eLock _ | .eChk _ | .eStore _ | .eRelBack => ⟨1, 0, 0⟩
  | .eAdv _ => ⟨1, 0, 1⟩
  | .eRel => ⟨1, 0, 2⟩
  | .dLock | .dChk | .dRelBack | .dRead | .dAdv _ => ⟨0, 1, 0⟩
  | .dRel _ => ⟨0, 1, 1⟩
  | .unlock r | .runlock r | .ret r =>
    match r with
    | .ok => ⟨1, -1, 2⟩
    | .val _ => ⟨-1, 1, 1⟩
    | _ => ⟨0, 0, 0⟩
  | _ => ⟨0, 0, 0⟩

structure Inv2 (s : State) : Prop where
  eadv : ∀ t v, s.pc t = .eAdv v → s.data.getD s.tail 0 = v
  dadv : ∀ t r, s.pc t = .dAdv r → s.data.getD s.head 0 = r
  aloop : ∀ t cnt res, s.pc t = .aLoop cnt res → (cnt : Int) ≤ s.count ∧ res = (contents s).take cnt
  fifo : s.enqd = s.deqd ++ contents s
  fpOk : ∀ t, s.pc t ≠ .idle → s.fp t = fpOf (s.pc t)

theorem contents_congr {s s' : State} (hd : s'.data = s.data) (hh : s'.head = s.head)
    (hc : s'.count = s.count) : contents s' = contents s := by
  simp [contents, hd, hh, hc]

theorem contents_length (s : State) : (contents s).length = s.count.toNat := by simp [contents]

/-! ### arithmetic of ring indices -/

theorem add_mod_eq_self {a d c : Nat} (hd : d < c) (h : (a + d) % c = a % c) : d = 0 := by
  have hc : 0 < c := by omega
  have hr : a % c < c := Nat.mod_lt _ hc
  rw [Nat.add_mod, Nat.mod_eq_of_lt hd] at h
  by_cases hlt : a % c + d < c
  · rw [Nat.mod_eq_of_lt hlt] at h; omega
  · have h2 : (a % c + d) % c = a % c + d - c := by
      rw [Nat.mod_eq_sub_mod (by omega)]; exact Nat.mod_eq_of_lt (by omega)
    rw [h2] at h; omega

theorem ring_index_inj {hd i j c : Nat} (hi : i < c) (hj : j < c) (h : (hd + i) % c = (hd + j) % c) : i = j := by
  by_cases hij : i ≤ j
  · have : (hd + i + (j - i)) % c = (hd + i) % c := by
      have e : hd + i + (j - i) = hd + j := by omega
      rw [e]; exact h.symm
    have := add_mod_eq_self (by omega) this; omega
  · have : (hd + j + (i - j)) % c = (hd + j) % c := by
      have e : hd + j + (i - j) = hd + i := by omega
      rw [e]; exact h
    have := add_mod_eq_self (by omega) this; omega

/-! ### how the three ring-mutating steps change `contents` -/

/-- `eStore`: writing the free slot `data[tail]` does not change the contents -/
theorem contents_store {cap : Nat} {s : State} (h : Inv cap s) (hlt : s.count < cap) (v : Int) :
    contents { s with data := s.data.set s.tail v } = contents s := by
  have hc0 := h.count_nonneg
  simp only [contents, List.length_set]
  apply List.map_congr_left
  intro i hi
  simp only [List.mem_range] at hi
  rw [List.getD_eq_getElem?_getD, List.getD_eq_getElem?_getD, List.getElem?_set_ne]
  intro e
  rw [h.tail_eq, h.dlen] at e
  have := ring_index_inj (hd := s.head) (i := s.count.toNat) (j := i) (c := cap) (by omega) (by omega) e
  omega

/-- `eAdv`: the stored element joins the back of the queue -/
theorem contents_adv {cap : Nat} {s : State} (h : Inv cap s) (tl : Nat) :
    contents { s with tail := tl, count := s.count + 1 } = contents s ++ [s.data.getD s.tail 0] := by
  have hc0 := h.count_nonneg
  have hc : (s.count + 1).toNat = s.count.toNat + 1 := by omega
  simp only [contents, hc, List.range_succ, List.map_append, List.map_cons, List.map_nil]
  rw [h.tail_eq, h.dlen]

/-- `dAdv`: the head element leaves -/
theorem contents_deq {cap : Nat} {s : State} (h : Inv cap s) (hcap : 1 ≤ cap) (hpos : 1 ≤ s.count) :
    contents s = s.data.getD s.head 0 ::
      contents { s with data := s.data.set s.head 0,
                        head := (if s.head + 1 = s.data.length then 0 else s.head + 1),
                        count := s.count - 1 } := by
  have hcl := h.count_le
  have hhd := h.head_lt
  have hdl := h.dlen
  have hc : s.count.toNat = (s.count - 1).toNat + 1 := by omega
  simp only [contents, List.length_set]
  rw [hc, List.range_succ_eq_map, List.map_cons, List.map_map]
  congr 1
  · simp [Nat.mod_eq_of_lt (by omega : s.head < s.data.length)]
  · apply List.map_congr_left
    intro i hi
    simp only [List.mem_range] at hi
    simp only [Function.comp]
    have hidx : ((if s.head + 1 = s.data.length then 0 else s.head + 1) + i) % s.data.length
        = (s.head + (i + 1)) % s.data.length := by
      split
      · rename_i hw
        have : s.head + (i + 1) = s.data.length + i := by omega
        rw [this, Nat.add_mod_left]; simp
      · congr 1; omega
    rw [hidx, List.getD_eq_getElem?_getD, List.getD_eq_getElem?_getD, List.getElem?_set_ne]
    intro e
    have e' : (s.head + 0) % s.data.length = (s.head + (i + 1)) % s.data.length := by
      rw [Nat.add_zero, Nat.mod_eq_of_lt (by omega : s.head < s.data.length)]; exact e
    have := ring_index_inj (hd := s.head) (i := 0) (j := i + 1) (c := s.data.length) (by omega) (by omega) e'
    omega


/-! ### preservation -/

theorem inv2_frame {cap : Nat} {s s' : State} (_h : Inv cap s) (h2 : Inv2 s) (t : Nat)
    (hpc' : ∀ u, u ≠ t → s'.pc u = s.pc u) (hfp' : ∀ u, u ≠ t → s'.fp u = s.fp u)
    (hd : s'.data = s.data) (hh : s'.head = s.head) (htl : s'.tail = s.tail) (hc : s'.count = s.count)
    (he : s'.enqd = s.enqd) (hq : s'.deqd = s.deqd)
    (h1 : ∀ v, s'.pc t = .eAdv v → s.data.getD s.tail 0 = v)
    (h2' : ∀ r, s'.pc t = .dAdv r → s.data.getD s.head 0 = r)
    (h3 : ∀ cnt res, s'.pc t = .aLoop cnt res → (cnt : Int) ≤ s.count ∧ res = (contents s).take cnt)
    (h4 : s'.pc t ≠ .idle → s'.fp t = fpOf (s'.pc t)) : Inv2 s' := by
  have hcon : contents s' = contents s := contents_congr hd hh hc
  refine ⟨?_, ?_, ?_, ?_, ?_⟩
  · intro u v hu
    rw [hd, htl]
    by_cases hut : u = t
    · subst hut; exact h1 v hu
    · rw [hpc' u hut] at hu; exact h2.eadv u v hu
  · intro u r hu
    rw [hd, hh]
    by_cases hut : u = t
    · subst hut; exact h2' r hu
    · rw [hpc' u hut] at hu; exact h2.dadv u r hu
  · intro u cnt res hu
    rw [hc, hcon]
    by_cases hut : u = t
    · subst hut; exact h3 cnt res hu
    · rw [hpc' u hut] at hu; exact h2.aloop u cnt res hu
  · rw [he, hq, hcon]; exact h2.fifo
  · intro u hu
    by_cases hut : u = t
    · subst hut; exact h4 hu
    · rw [hpc' u hut] at hu ⊢; rw [hfp' u hut]; exact h2.fpOk u hu

/-- while `t` is inside the write lock nobody else is at a pc that depends on the ring -/
theorem others_outside {cap : Nat} {s : State} (h : Inv cap s) {t : Nat} (hw : inW (s.pc t) = true)
    (u : Nat) (hut : u ≠ t) :
    (∀ v, s.pc u ≠ .eAdv v) ∧ (∀ r, s.pc u ≠ .dAdv r) ∧ (∀ c r, s.pc u ≠ .aLoop c r) := by
  have hwt := h.mutexW t hw
  refine ⟨?_, ?_, ?_⟩
  · intro v e
    have := h.mutexW u (by simp [e, inW]); rw [hwt] at this; injection this with this; exact hut this.symm
  · intro r e
    have := h.mutexW u (by simp [e, inW]); rw [hwt] at this; injection this with this; exact hut this.symm
  · intro c r e
    have hm : u ∈ s.live := (h.live_iff u).mpr (by simp [e])
    have h1 := wsum_le_of_mem wR s.pc hm
    simp only [e, wR] at h1
    have h0 := h.wr_excl (by simp [hwt])
    have := h.rd; omega

theorem inv2_ring {cap : Nat} {s s' : State} (h : Inv cap s) (h2 : Inv2 s) (t : Nat)
    (hw : inW (s.pc t) = true)
    (hpc' : ∀ u, u ≠ t → s'.pc u = s.pc u) (hfp' : ∀ u, u ≠ t → s'.fp u = s.fp u)
    (h1 : ∀ v, s'.pc t = .eAdv v → s'.data.getD s'.tail 0 = v)
    (h2' : ∀ r, s'.pc t = .dAdv r → s'.data.getD s'.head 0 = r)
    (h3 : ∀ cnt res, s'.pc t ≠ .aLoop cnt res)
    (hf : s'.enqd = s'.deqd ++ contents s')
    (h4 : s'.pc t ≠ .idle → s'.fp t = fpOf (s'.pc t)) : Inv2 s' := by
  refine ⟨?_, ?_, ?_, hf, ?_⟩
  · intro u v hu
    by_cases hut : u = t
    · subst hut; exact h1 v hu
    · rw [hpc' u hut] at hu; exact absurd hu ((others_outside h hw u hut).1 v)
  · intro u r hu
    by_cases hut : u = t
    · subst hut; exact h2' r hu
    · rw [hpc' u hut] at hu; exact absurd hu ((others_outside h hw u hut).2.1 r)
  · intro u cnt res hu
    by_cases hut : u = t
    · subst hut; exact absurd hu (h3 cnt res)
    · rw [hpc' u hut] at hu; exact absurd hu ((others_outside h hw u hut).2.2 cnt res)
  · intro u hu
    by_cases hut : u = t
    · subst hut; exact h4 hu
    · rw [hpc' u hut] at hu ⊢; rw [hfp' u hut]; exact h2.fpOk u hu

theorem inv2_init (cap : Nat) : Inv2 (init cap) := by
  refine ⟨by simp [init], by simp [init], by simp [init], by simp [init, contents], by simp [init]⟩


theorem contents_take_succ (s : State) (k : Nat) (hk : (k : Int) < s.count) :
    (contents s).take (k + 1) = (contents s).take k ++ [s.data.getD ((s.head + k) % s.data.length) 0] := by
  rw [List.take_succ]
  congr 1
  have hk' : k < s.count.toNat := by omega
  simp [contents, List.getElem?_map, List.getElem?_range hk']

theorem inv2_tau {cap : Nat} (hcap : 1 ≤ cap) {s s' : State} {t : Nat} (h : Inv cap s) (h2 : Inv2 s)
    (hs : tauStep s t = some s') : Inv2 s' := by
  have hE0 := h.permE; have hD0 := h.permD
  have hnp := (inv_tau hcap h hs).noPanic
  have hc0 := h.count_nonneg
  unfold tauStep at hs
  cases hp : s.pc t <;> simp only [hp] at hs
  case eAdv v =>
    injection hs with hs; subst hs
    have hne : s.pc t ≠ .idle := by simp [hp]
    have hfp := h2.fpOk t hne; simp only [hp, fpOf] at hfp
    refine inv2_ring h h2 t (by simp [hp, inW]) ?_ ?_ ?_ ?_ ?_ ?_ ?_
    · intro u hu; simp [setPc, fpAdd, upd, hu]
    · intro u hu; simp [setPc, fpAdd, upd, hu]
    · simp [fpAdd, setPc]
    · simp [fpAdd, setPc]
    · simp [fpAdd, setPc]
    · show s.enqd ++ [v] = s.deqd ++ contents { s with tail := (if s.tail + 1 = s.data.length then 0 else s.tail + 1), count := s.count + 1 }
      rw [contents_adv h, h2.eadv t v hp, h2.fifo, List.append_assoc]
    · simp [fpAdd, setPc, hfp, fpOf]
  all_goals (try split at hs)
  case dAdv.isTrue r _ =>
    injection hs with hs; subst hs
    have hne : s.pc t ≠ .idle := by simp [hp]
    have hmem : t ∈ s.live := (h.live_iff t).mpr hne
    have hwD := wsum_le_of_mem wD s.pc hmem
    simp only [hp, wD] at hwD
    have hfp := h2.fpOk t hne; simp only [hp, fpOf] at hfp
    refine inv2_ring h h2 t (by simp [hp, inW]) ?_ ?_ ?_ ?_ ?_ ?_ ?_
    · intro u hu; simp [setPc, fpAdd, upd, hu]
    · intro u hu; simp [setPc, fpAdd, upd, hu]
    · simp [fpAdd, setPc]
    · simp [fpAdd, setPc]
    · simp [fpAdd, setPc]
    · show s.enqd = (s.deqd ++ [r]) ++ contents { s with data := s.data.set s.head 0, head := (if s.head + 1 = s.data.length then 0 else s.head + 1), count := s.count - 1 }
      have e := contents_deq h hcap (by omega); rw [h2.dadv t r hp] at e
      have f := h2.fifo; rw [e] at f
      simpa using f
    · simp [fpAdd, setPc, hfp, fpOf]
  all_goals (try split at hs)
  all_goals (try (simp at hs; done))
  all_goals (injection hs with hs; subst hs)
  all_goals (have hne : s.pc t ≠ .idle := by simp [hp])
  all_goals (have hmem : t ∈ s.live := (h.live_iff t).mpr hne)
  all_goals (have hwE := wsum_le_of_mem wE s.pc hmem; have hwD := wsum_le_of_mem wD s.pc hmem)
  all_goals (simp only [hp, wE, wD] at hwE hwD)
  all_goals (have hfp := h2.fpOk t hne; simp only [hp, fpOf] at hfp)
  all_goals (try (simp [panic] at hnp; done))
  case eStore.isTrue v _ =>
    have hg : s.tail < s.data.length := by assumption
    refine inv2_ring h h2 t (by simp [hp, inW]) ?_ ?_ ?_ ?_ ?_ ?_ ?_
    · intro u hu; simp [setPc, fpAdd, upd, hu]
    · intro u hu; simp [setPc, fpAdd, upd, hu]
    · intro v' e
      simp [fpAdd, setPc] at e; subst e
      simp [fpAdd, setPc, List.getD_eq_getElem?_getD, hg]
    · simp [fpAdd, setPc]
    · simp [fpAdd, setPc]
    · show s.enqd = s.deqd ++ contents { s with data := s.data.set s.tail v }
      rw [contents_store h (by omega) v]; exact h2.fifo
    · simp [fpAdd, setPc, hfp, fpOf]
  all_goals (
    refine inv2_frame h h2 t ?_ ?_ rfl rfl rfl rfl rfl rfl ?_ ?_ ?_ ?_
    all_goals (try (simp [fpAdd, setPc, hp, hfp, fpOf]; done))
    all_goals (try (intro u hu; simp [setPc, fpAdd, upd, hu]; done)))
  case aMake.isFalse.refine_5 =>
    intro cnt res e
    simp [setPc] at e; obtain ⟨rfl, rfl⟩ := e
    simp; omega
  case aLoop.isTrue.isFalse.refine_5 cnt0 res0 _ _ =>
    have hg : (cnt0 : Int) < s.count := by assumption
    intro cnt res e
    simp [setPc] at e; obtain ⟨rfl, rfl⟩ := e
    obtain ⟨_, hres⟩ := h2.aloop t cnt0 res0 hp
    refine ⟨by omega, ?_⟩
    rw [contents_take_succ s cnt0 hg, ← hres]; simp [List.getD_eq_getElem?_getD]

theorem fpOf_start (op : Op) : fpOf (start op) = ⟨0, 0, 0⟩ := by cases op <;> rfl

theorem inv2_step {cap : Nat} (hcap : 1 ≤ cap) {s s' : State} {l : Label} (h : Inv cap s) (h2 : Inv2 s)
    (hs : step s l = some s') : Inv2 s' := by
  cases l with
  | tau t =>
    simp only [step] at hs
    split at hs
    · simp at hs
    · exact inv2_tau hcap h h2 hs
  | ctxEnd t =>
    simp only [step] at hs
    split at hs
    · injection hs with hs; subst hs
      exact ⟨h2.eadv, h2.dadv, h2.aloop, h2.fifo, h2.fpOk⟩
    · simp at hs
  | ctxArm t =>
    simp only [step] at hs
    cases hp : s.pc t <;> simp only [hp] at hs <;> try (simp at hs; done)
    all_goals (split at hs <;> try (simp at hs; done))
    all_goals (injection hs with hs; subst hs)
    all_goals (have hne : s.pc t ≠ .idle := by simp [hp])
    all_goals (have hfp := h2.fpOk t hne; simp only [hp, fpOf] at hfp)
    all_goals (
      refine inv2_frame h h2 t ?_ ?_ rfl rfl rfl rfl rfl rfl ?_ ?_ ?_ ?_
      all_goals (try (simp [setPc, hfp, fpOf]; done))
      all_goals (try (intro u hu; simp [setPc, upd, hu]; done)))
  | inv t op =>
    simp only [step] at hs
    split at hs
    · injection hs with hs; subst hs
      refine inv2_frame h h2 t ?_ ?_ rfl rfl rfl rfl rfl rfl ?_ ?_ ?_ ?_
      · intro u hu; simp [upd, hu]
      · intro u hu; simp [upd, hu]
      · cases op <;> simp [start]
      · cases op <;> simp [start]
      · cases op <;> simp [start]
      · simp [fpOf_start]
    · simp at hs
  | res t r =>
    simp only [step] at hs
    split at hs
    · injection hs with hs; subst hs
      refine inv2_frame h h2 t ?_ ?_ rfl rfl rfl rfl rfl rfl ?_ ?_ ?_ ?_
      · intro u hu; simp [upd, hu]
      · intro u hu; rfl
      all_goals simp
    · simp at hs

/-- both layers hold in every reachable state -/
theorem inv12_reachable {cap : Nat} (hcap : 1 ≤ cap) (s : State) (hr : (sys cap).Reachable s) :
    Inv cap s ∧ Inv2 s :=
  System.invariant_induction (sys cap).toSystem (fun s => Inv cap s ∧ Inv2 s)
    ⟨inv_init cap hcap, inv2_init cap⟩
    (fun _ _ _ h hs => ⟨inv_step hcap h.1 hs, inv2_step hcap h.1 h.2 hs⟩) s hr

end Ekit.ArrayBQ
