/-
Review addition for C19: the exact condition under which concurrent `Next` callers can obtain an interval
outside `[initial, max]` from the exponential strategy.

`c19_conc_in_bounds_partial` assumes `initial² ≤ 2^63`, which is sufficient but not necessary (e.g.
`initial = 2^40 ns`: every wrapped product that is not a true product is `≤ 0`, hence caught).  The exact
condition is `SafeSeen`: no counter value that a call can ever *see* (the `n`-th `AddInt32` result, `n ≥ 1`,
passing the budget test) has a raw product `0 < initial · pow2(..) mod 2^64 < initial`.
* `inBoundsSeen_run`: `SafeSeen` ⇒ every interval returned on every interleaving is within bounds;
* `stale_trace`: `¬ SafeSeen` ⇒ an explicit interleaving (`n` goroutines each past their `AddInt32`, the last
  one loads the still-unset flag) returns a positive interval below `initial`.
-/
import Ekit.Lemmas.RetryConc

namespace Ekit.Retry

/-- `r` is the counter value seen by the `n`-th call (`n ≥ 1`) and passes the budget test -/
def Seen (cfg : Cfg) (r : Int) : Prop := ∃ n : Nat, 1 ≤ n ∧ r = wrap32 (n : Int) ∧ budgetOk cfg r = true

/-- no counter value a call can see yields a positive wrapped product below `initial` -/
def SafeSeen (cfg : Cfg) : Prop := ∀ r : Int, Seen cfg r → 0 < rawInterval cfg r → cfg.initial ≤ rawInterval cfg r

theorem SafeWrap.toSafeSeen {cfg : Cfg} (h : SafeWrap cfg) : SafeSeen cfg := fun r _ hp => h r hp

structure ActInv (cfg : Cfg) (s : St) : Prop where
  retries : s.core.retries = wrap32 (s.calls : Int)
  seen : ∀ t r, (t, PC.needLoad r) ∈ s.active → Seen cfg r

theorem actInv_init (cfg : Cfg) : ActInv cfg St.init :=
  ⟨by simp [St.init, Core.init, wrap32], by intro t r h; simp [St.init] at h⟩

theorem actInv_step {cfg : Cfg} {s s' : St} {l : Label} (inv : ActInv cfg s) (h : step cfg s l = some s') :
    ActInv cfg s' := by
  obtain ⟨hr, hs⟩ := inv
  have hnext : wrap32 (s.core.retries + 1) = wrap32 ((s.calls + 1 : Nat) : Int) := by
    rw [hr, wrap32_succ]; congr 1
  cases l with
  | add t =>
    simp only [step] at h
    split at h
    · simp at h
    · split at h
      · rename_i hb
        split at h
        · simp at h; subst h; exact ⟨hnext, hs⟩
        · simp at h; subst h
          refine ⟨hnext, ?_⟩
          intro t' r' hm
          rcases List.mem_cons.1 hm with heq | hm
          · injection heq with _ h2
            injection h2 with h2
            subst h2
            exact ⟨s.calls + 1, by omega, hnext, hb⟩
          · exact hs t' r' hm
      · simp at h; subst h; exact ⟨hnext, hs⟩
  | load t =>
    simp only [step] at h
    split at h
    · split at h
      · simp at h; subst h
        exact ⟨hr, fun t' r' hm => hs t' r' (List.mem_of_mem_erase hm)⟩
      · split at h
        · simp at h; subst h
          refine ⟨hr, fun t' r' hm => ?_⟩
          rcases List.mem_cons.1 hm with heq | hm
          · injection heq with _ h2; cases h2
          · exact hs t' r' (List.mem_of_mem_erase hm)
        · simp at h; subst h
          exact ⟨hr, fun t' r' hm => hs t' r' (List.mem_of_mem_erase hm)⟩
    · simp at h
  | store t =>
    simp only [step] at h
    split at h
    · simp at h; subst h
      exact ⟨hr, fun t' r' hm => hs t' r' (List.mem_of_mem_erase hm)⟩
    · simp at h

theorem inBoundsSeen_step {cfg : Cfg} (hv : Valid cfg) (hsafe : SafeSeen cfg) {s s' : St} {l : Label}
    (ai : ActInv cfg s) (inv : RetsInBounds cfg s.rets) (h : step cfg s l = some s') : RetsInBounds cfg s'.rets := by
  have hle := hv.le
  cases l with
  | add t =>
    simp only [step] at h
    split at h
    · simp at h
    · split at h
      · split at h
        · simp at h; subst h
          exact retsInBounds_cons inv (fun _ => ⟨Int.le_refl _, hle⟩)
        · simp at h; subst h; exact inv
      · simp at h; subst h
        exact retsInBounds_cons inv (fun hok => by simp at hok)
  | load t =>
    simp only [step] at h
    split at h
    · rename_i r hpc
      split at h
      · simp at h; subst h
        exact retsInBounds_cons inv (fun _ => ⟨hle, Int.le_refl _⟩)
      · split at h
        · simp at h; subst h; exact inv
        · rename_i hhit
          simp at h; subst h
          refine retsInBounds_cons inv (fun _ => ?_)
          simp only [capHit, Bool.or_eq_true, decide_eq_true_eq, not_or] at hhit
          have := hsafe r (ai.seen t r (pcOf_mem hpc)) (by omega)
          exact ⟨this, by show rawInterval cfg r ≤ cfg.max; omega⟩
    · simp at h
  | store t =>
    simp only [step] at h
    split at h
    · simp at h; subst h
      exact retsInBounds_cons inv (fun _ => ⟨hle, Int.le_refl _⟩)
    · simp at h

theorem inBoundsSeen_run {cfg : Cfg} (hv : Valid cfg) (hsafe : SafeSeen cfg) :
    ∀ (tr : List Label) {s s' : St}, ActInv cfg s → RetsInBounds cfg s.rets → run cfg s tr = some s' →
      RetsInBounds cfg s'.rets := by
  intro tr
  induction tr with
  | nil => intro s s' _ inv h; simp [run] at h; subst h; exact inv
  | cons l ls ih =>
    intro s s' ai inv h
    simp only [run] at h
    cases hs : step cfg s l with
    | none => simp [hs] at h
    | some s1 =>
      simp [hs] at h
      exact ih (actInv_step ai hs) (inBoundsSeen_step hv hsafe ai inv hs) h

/-! ### necessity: the violating interleaving -/

theorem run_append' (cfg : Cfg) (s : St) (a b : List Label) :
    run cfg s (a ++ b) = (run cfg s a).bind fun s' => run cfg s' b := by
  induction a generalizing s with
  | nil => simp [run]
  | cons l ls ih =>
    simp only [List.cons_append, run]
    cases step cfg s l with
    | none => rfl
    | some s' => simpa using ih s'

/-- goroutines `0 … k-1` have each executed their `AddInt32` (exponential strategy, nobody has loaded yet) -/
def actAfter (cfg : Cfg) : Nat → List (Tid × PC)
  | 0 => []
  | k + 1 => if budgetOk cfg (wrap32 ((k + 1 : Nat) : Int)) then (k, .needLoad (wrap32 ((k + 1 : Nat) : Int))) :: actAfter cfg k
             else actAfter cfg k
def retsAfter (cfg : Cfg) : Nat → List Ret
  | 0 => []
  | k + 1 => if budgetOk cfg (wrap32 ((k + 1 : Nat) : Int)) then retsAfter cfg k else ⟨k, 0, false⟩ :: retsAfter cfg k

def adds (k : Nat) : List Label := (List.range k).map .add

theorem pcOf_actAfter_none (cfg : Cfg) (k t : Nat) (h : k ≤ t) : pcOf (actAfter cfg k) t = none := by
  induction k with
  | zero => rfl
  | succ k ih =>
    simp only [actAfter]
    split
    · have : ¬ k = t := by omega
      simp [pcOf, this, ih (by omega)]
    · exact ih (by omega)

theorem run_adds (cfg : Cfg) (hk : cfg.kind = .exp) (k : Nat) :
    run cfg St.init (adds k) = some ⟨⟨wrap32 (k : Int), false⟩, actAfter cfg k, k, retsAfter cfg k⟩ := by
  induction k with
  | zero => simp [adds, run, St.init, Core.init, actAfter, retsAfter, wrap32]
  | succ k ih =>
    have : adds (k + 1) = adds k ++ [.add k] := by simp [adds, List.range_succ]
    rw [this, run_append', ih]
    have hw : wrap32 (wrap32 (k : Int) + 1) = wrap32 ((k + 1 : Nat) : Int) := by
      rw [wrap32_succ]; congr 1
    simp only [Option.bind_some, run, step, pcOf_actAfter_none cfg k k (Nat.le_refl _), hw, hk, actAfter, retsAfter]
    split <;> simp

/-- **Necessity.**  If the `n`-th call (`n ≥ 1`) passes the budget test and its raw product is positive but
    below `initial`, then after `n` goroutines have executed their `AddInt32` and the last one loads the flag
    (still unset: nobody stored), that goroutine returns `(iv, true)` with `0 < iv < initial`. -/
theorem stale_trace (cfg : Cfg) (hv : Valid cfg) (hk : cfg.kind = .exp) (n : Nat)
    (hb : budgetOk cfg (wrap32 ((n + 1 : Nat) : Int)) = true)
    (hpos : 0 < rawInterval cfg (wrap32 ((n + 1 : Nat) : Int)))
    (hlt : rawInterval cfg (wrap32 ((n + 1 : Nat) : Int)) < cfg.initial) :
    ∃ s, run cfg St.init (adds (n + 1) ++ [.load n]) = some s ∧
      (⟨n, rawInterval cfg (wrap32 ((n + 1 : Nat) : Int)), true⟩ : Ret) ∈ s.rets ∧ s.core.flag = false := by
  have hle := hv.le
  have hcap : capHit cfg (rawInterval cfg (wrap32 ((n + 1 : Nat) : Int))) = false := by
    simp only [capHit, Bool.or_eq_false_iff, decide_eq_false_iff_not]
    constructor <;> omega
  rw [run_append', run_adds cfg hk (n + 1)]
  simp only [Option.bind_some, run, step, actAfter, hb, if_true, pcOf_cons_self, hcap]
  simp

end Ekit.Retry
