/-
Contract K for every syntactically safe program (no assignment to a pointer field or to `rb.root`, no allocation,
calls to K-procedures only): one induction over the MiniGo syntax.  Whatever such a procedure does with colours,
keys, values, the size counter, its locals and the K-procedures it calls, the heap keeps holding a tree over the
same addresses and every pointer it computes is nil or an address of that tree.
-/
import Ekit.MiniGo.RBContract

namespace Ekit.MiniGo.RBHeap
open Ekit.MiniGo Ekit.Gen.RBTreeGo

def EnvIn (A : List Nat) (ρ : Env) : Prop := ∀ x, PtrIn A (ρ x)

def FlowIn (A : List Nat) : Flow → Prop
  | .ret v => PtrIn A v
  | _ => True

theorem EnvIn.same {st st' : St} {t t' : PT} {ρ : Env} (h : EnvIn t.addrs ρ) (hs : Pres st st' t t') :
    EnvIn t'.addrs ρ :=
  fun x => PtrIn.mono (fun a ha => (hs.same a).2 ha) (h x)

theorem PtrIn.same {st st' : St} {t t' : PT} {v : Val} (h : PtrIn t.addrs v) (hs : Pres st st' t t') :
    PtrIn t'.addrs v :=
  PtrIn.mono (fun a ha => (hs.same a).2 ha) h

theorem ptr_mem_addrs {t : PT} {a : Nat} (h : t.ptr = some a) : a ∈ t.addrs := by
  cases t with
  | leaf => simp [PT.ptr] at h
  | node l b r => simp [PT.ptr] at h; subst h; simp [PT.addrs]

theorem holds_root_in {st : St} {t : PT} (h : Holds st t) : PtrIn t.addrs (.ptr st.root) := by
  cases hr : st.root with
  | none => trivial
  | some a =>
    have := repr_ptr h.1
    rw [hr] at this
    exact ptr_mem_addrs this.symm

theorem holds_field_in {st : St} {t : PT} (h : Holds st t) {a : Nat} (ha : a ∈ t.addrs) (f : Fld) :
    PtrIn t.addrs ((st.h a).get f) := by
  obtain ⟨h1, h2, h3⟩ := repr_fields h.1 a ha
  cases f with
  | color => trivial
  | key => trivial
  | value => trivial
  | left =>
    simp only [Node.get]
    cases hl : (st.h a).left with
    | none => trivial
    | some b => exact h1 b hl
  | right =>
    simp only [Node.get]
    cases hl : (st.h a).right with
    | none => trivial
    | some b => exact h2 b hl
  | parent =>
    simp only [Node.get]
    cases hl : (st.h a).parent with
    | none => trivial
    | some b =>
      rcases h3 b hl with h | h
      · exact h
      · cases h

/-- writing a colour or a value leaves the pointer fields and the key alone -/
theorem set_nonptr_same {n m : Node} {f : Fld} {v : Val} (hf : plainFld f = true) (h : n.set f v = some m) :
    SamePtrs m n ∧ m.key = n.key := by
  cases f <;> cases v <;> simp [Node.set, plainFld] at h hf <;> subst h <;> exact ⟨⟨rfl, rfl, rfl⟩, rfl⟩

theorem holds_upd_nonptr {st : St} {t : PT} (h : Holds st t) {a : Nat} {m : Node} (hm : SamePtrs m (st.h a)) :
    Holds { st with h := upd st.h a m } t := by
  refine ⟨repr_congr (fun b _ => ?_) h.1, h.2.1, h.2.2⟩
  simp only [upd]
  split
  · next e => subst e; exact hm
  · exact ⟨rfl, rfl, rfl⟩

theorem pres_upd_plain {st : St} {t : PT} (h : Holds st t) {a : Nat} {m : Node}
    (hm : SamePtrs m (st.h a) ∧ m.key = (st.h a).key) : Pres st { st with h := upd st.h a m } t t := by
  refine ⟨holds_upd_nonptr h hm.1, rfl, fun b => ?_⟩
  simp only [upd]
  split
  · next e => subst e; exact hm.2
  · rfl

section
variable (cmpF : Int → Int → Int) (callH : CallH PName) (hK : ∀ fn, isK fn = true → SpecK callH fn)
include hK

/-- the statement proved for expressions -/
def GoodE (e : Expr PName) : Prop :=
  ∀ ρ st v st' t, Holds st t → EnvIn t.addrs ρ → evalE cmpF callH ρ st e = .ok (v, st') →
    ∃ t', Holds st' t' ∧ Pres st st' t t' ∧ PtrIn t'.addrs v

omit hK in
/-- two evaluations in sequence -/
theorem two_good {a b : Expr PName} (ha : GoodE cmpF callH a) (hb : GoodE cmpF callH b)
    {ρ st x st1 y st2 t} (hH : Holds st t) (hE : EnvIn t.addrs ρ)
    (h1 : evalE cmpF callH ρ st a = .ok (x, st1)) (h2 : evalE cmpF callH ρ st1 b = .ok (y, st2)) :
    ∃ t2, Holds st2 t2 ∧ Pres st st2 t t2 ∧ PtrIn t2.addrs x ∧ PtrIn t2.addrs y := by
  obtain ⟨t1, H1, S1, P1⟩ := ha ρ st x st1 t hH hE h1
  obtain ⟨t2, H2, S2, P2⟩ := hb ρ st1 y st2 t1 H1 (hE.same S1) h2
  exact ⟨t2, H2, S1.trans S2, P1.same S2, P2⟩

theorem evalE_safe : ∀ e : Expr PName, safeE e = true → GoodE cmpF callH e := by
  intro e
  induction e with
  | nil => intro _ ρ st v st' t hH _ h; simp [evalE] at h; obtain ⟨rfl, rfl⟩ := h; exact ⟨t, hH, Pres.refl hH, trivial⟩
  | int i => intro _ ρ st v st' t hH _ h; simp [evalE] at h; obtain ⟨rfl, rfl⟩ := h; exact ⟨t, hH, Pres.refl hH, trivial⟩
  | bool b => intro _ ρ st v st' t hH _ h; simp [evalE] at h; obtain ⟨rfl, rfl⟩ := h; exact ⟨t, hH, Pres.refl hH, trivial⟩
  | err c => intro _ ρ st v st' t hH _ h; simp [evalE] at h; obtain ⟨rfl, rfl⟩ := h; exact ⟨t, hH, Pres.refl hH, trivial⟩
  | unit => intro _ ρ st v st' t hH _ h; simp [evalE] at h; obtain ⟨rfl, rfl⟩ := h; exact ⟨t, hH, Pres.refl hH, trivial⟩
  | var x => intro _ ρ st v st' t hH hE h; simp [evalE] at h; obtain ⟨rfl, rfl⟩ := h; exact ⟨t, hH, Pres.refl hH, hE x⟩
  | root =>
    intro _ ρ st v st' t hH _ h; simp [evalE] at h; obtain ⟨rfl, rfl⟩ := h
    exact ⟨t, hH, Pres.refl hH, holds_root_in hH⟩
  | size => intro _ ρ st v st' t hH _ h; simp [evalE] at h; obtain ⟨rfl, rfl⟩ := h; exact ⟨t, hH, Pres.refl hH, trivial⟩
  | field e f ih =>
    intro hs ρ st v st' t hH hE h
    simp only [safeE] at hs
    simp only [evalE] at h
    cases he : evalE cmpF callH ρ st e with
    | error x => simp [he] at h
    | ok r =>
      obtain ⟨x, st1⟩ := r
      obtain ⟨t1, H1, S1, P1⟩ := ih hs ρ st x st1 t hH hE he
      rw [he] at h
      cases x with
      | ptr p =>
        cases p with
        | none => simp at h
        | some a =>
          simp at h; obtain ⟨rfl, rfl⟩ := h
          exact ⟨t1, H1, S1, holds_field_in H1 P1 f⟩
      | _ => simp at h
  | cmp a b iha ihb =>
    intro hs ρ st v st' t hH hE h
    simp only [safeE, Bool.and_eq_true] at hs
    simp only [evalE] at h
    cases h1 : evalE cmpF callH ρ st a with
    | error x => simp [h1] at h
    | ok r1 =>
      obtain ⟨x, st1⟩ := r1
      rw [h1] at h
      cases x with
      | int xi =>
        simp only at h
        cases h2 : evalE cmpF callH ρ st1 b with
        | error x => simp [h2] at h
        | ok r2 =>
          obtain ⟨y, st2⟩ := r2
          rw [h2] at h
          obtain ⟨t2, H2, S2, _, _⟩ := two_good cmpF callH (iha hs.1) (ihb hs.2) hH hE h1 h2
          cases y <;> simp at h
          obtain ⟨rfl, rfl⟩ := h
          exact ⟨t2, H2, S2, trivial⟩
      | _ => simp at h
  | eq a b iha ihb =>
    intro hs ρ st v st' t hH hE h
    simp only [safeE, Bool.and_eq_true] at hs
    simp only [evalE] at h
    cases h1 : evalE cmpF callH ρ st a with
    | error x => simp [h1] at h
    | ok r1 =>
      obtain ⟨x, st1⟩ := r1
      rw [h1] at h
      simp only at h
      cases h2 : evalE cmpF callH ρ st1 b with
      | error x => simp [h2] at h
      | ok r2 =>
        obtain ⟨y, st2⟩ := r2
        rw [h2] at h
        obtain ⟨t2, H2, S2, _, _⟩ := two_good cmpF callH (iha hs.1) (ihb hs.2) hH hE h1 h2
        simp only at h
        cases hv : valEq x y with
        | none => simp [hv] at h
        | some r => simp [hv] at h; obtain ⟨rfl, rfl⟩ := h; exact ⟨t2, H2, S2, trivial⟩
  | ne a b iha ihb =>
    intro hs ρ st v st' t hH hE h
    simp only [safeE, Bool.and_eq_true] at hs
    simp only [evalE] at h
    cases h1 : evalE cmpF callH ρ st a with
    | error x => simp [h1] at h
    | ok r1 =>
      obtain ⟨x, st1⟩ := r1
      rw [h1] at h
      simp only at h
      cases h2 : evalE cmpF callH ρ st1 b with
      | error x => simp [h2] at h
      | ok r2 =>
        obtain ⟨y, st2⟩ := r2
        rw [h2] at h
        obtain ⟨t2, H2, S2, _, _⟩ := two_good cmpF callH (iha hs.1) (ihb hs.2) hH hE h1 h2
        simp only at h
        cases hv : valEq x y with
        | none => simp [hv] at h
        | some r => simp [hv] at h; obtain ⟨rfl, rfl⟩ := h; exact ⟨t2, H2, S2, trivial⟩
  | lt a b iha ihb =>
    intro hs ρ st v st' t hH hE h
    simp only [safeE, Bool.and_eq_true] at hs
    simp only [evalE] at h
    cases h1 : evalE cmpF callH ρ st a with
    | error x => simp [h1] at h
    | ok r1 =>
      obtain ⟨x, st1⟩ := r1
      rw [h1] at h
      cases x with
      | int xi =>
        simp only at h
        cases h2 : evalE cmpF callH ρ st1 b with
        | error x => simp [h2] at h
        | ok r2 =>
          obtain ⟨y, st2⟩ := r2
          rw [h2] at h
          obtain ⟨t2, H2, S2, _, _⟩ := two_good cmpF callH (iha hs.1) (ihb hs.2) hH hE h1 h2
          cases y <;> simp at h
          obtain ⟨rfl, rfl⟩ := h
          exact ⟨t2, H2, S2, trivial⟩
      | _ => simp at h
  | gt a b iha ihb =>
    intro hs ρ st v st' t hH hE h
    simp only [safeE, Bool.and_eq_true] at hs
    simp only [evalE] at h
    cases h1 : evalE cmpF callH ρ st a with
    | error x => simp [h1] at h
    | ok r1 =>
      obtain ⟨x, st1⟩ := r1
      rw [h1] at h
      cases x with
      | int xi =>
        simp only at h
        cases h2 : evalE cmpF callH ρ st1 b with
        | error x => simp [h2] at h
        | ok r2 =>
          obtain ⟨y, st2⟩ := r2
          rw [h2] at h
          obtain ⟨t2, H2, S2, _, _⟩ := two_good cmpF callH (iha hs.1) (ihb hs.2) hH hE h1 h2
          cases y <;> simp at h
          obtain ⟨rfl, rfl⟩ := h
          exact ⟨t2, H2, S2, trivial⟩
      | _ => simp at h
  | add a b iha ihb =>
    intro hs ρ st v st' t hH hE h
    simp only [safeE, Bool.and_eq_true] at hs
    simp only [evalE] at h
    cases h1 : evalE cmpF callH ρ st a with
    | error x => simp [h1] at h
    | ok r1 =>
      obtain ⟨x, st1⟩ := r1
      rw [h1] at h
      cases x with
      | int xi =>
        simp only at h
        cases h2 : evalE cmpF callH ρ st1 b with
        | error x => simp [h2] at h
        | ok r2 =>
          obtain ⟨y, st2⟩ := r2
          rw [h2] at h
          obtain ⟨t2, H2, S2, _, _⟩ := two_good cmpF callH (iha hs.1) (ihb hs.2) hH hE h1 h2
          cases y <;> simp at h
          obtain ⟨rfl, rfl⟩ := h
          exact ⟨t2, H2, S2, trivial⟩
      | _ => simp at h
  | and a b iha ihb =>
    intro hs ρ st v st' t hH hE h
    simp only [safeE, Bool.and_eq_true] at hs
    simp only [evalE] at h
    cases h1 : evalE cmpF callH ρ st a with
    | error x => simp [h1] at h
    | ok r1 =>
      obtain ⟨x, st1⟩ := r1
      rw [h1] at h
      obtain ⟨t1, H1, S1, _⟩ := iha hs.1 ρ st x st1 t hH hE h1
      cases x with
      | bool xb =>
        cases xb with
        | false => simp at h; obtain ⟨rfl, rfl⟩ := h; exact ⟨t1, H1, S1, trivial⟩
        | true =>
          simp only at h
          cases h2 : evalE cmpF callH ρ st1 b with
          | error x => simp [h2] at h
          | ok r2 =>
            obtain ⟨y, st2⟩ := r2
            rw [h2] at h
            obtain ⟨t2, H2, S2, _⟩ := ihb hs.2 ρ st1 y st2 t1 H1 (hE.same S1) h2
            cases y <;> simp at h
            obtain ⟨rfl, rfl⟩ := h
            exact ⟨t2, H2, S1.trans S2, trivial⟩
      | _ => simp at h
  | or a b iha ihb =>
    intro hs ρ st v st' t hH hE h
    simp only [safeE, Bool.and_eq_true] at hs
    simp only [evalE] at h
    cases h1 : evalE cmpF callH ρ st a with
    | error x => simp [h1] at h
    | ok r1 =>
      obtain ⟨x, st1⟩ := r1
      rw [h1] at h
      obtain ⟨t1, H1, S1, _⟩ := iha hs.1 ρ st x st1 t hH hE h1
      cases x with
      | bool xb =>
        cases xb with
        | true => simp at h; obtain ⟨rfl, rfl⟩ := h; exact ⟨t1, H1, S1, trivial⟩
        | false =>
          simp only at h
          cases h2 : evalE cmpF callH ρ st1 b with
          | error x => simp [h2] at h
          | ok r2 =>
            obtain ⟨y, st2⟩ := r2
            rw [h2] at h
            obtain ⟨t2, H2, S2, _⟩ := ihb hs.2 ρ st1 y st2 t1 H1 (hE.same S1) h2
            cases y <;> simp at h
            obtain ⟨rfl, rfl⟩ := h
            exact ⟨t2, H2, S1.trans S2, trivial⟩
      | _ => simp at h
  | not a iha =>
    intro hs ρ st v st' t hH hE h
    simp only [safeE] at hs
    simp only [evalE] at h
    cases h1 : evalE cmpF callH ρ st a with
    | error x => simp [h1] at h
    | ok r1 =>
      obtain ⟨x, st1⟩ := r1
      rw [h1] at h
      obtain ⟨t1, H1, S1, _⟩ := iha hs ρ st x st1 t hH hE h1
      cases x <;> simp at h
      obtain ⟨rfl, rfl⟩ := h
      exact ⟨t1, H1, S1, trivial⟩
  | call0 fn =>
    intro hs ρ st v st' t hH hE h
    simp only [safeE] at hs
    simp only [evalE] at h
    exact hK fn hs [] st v st' t hH (by simp) h
  | call1 fn a iha =>
    intro hs ρ st v st' t hH hE h
    simp only [safeE, Bool.and_eq_true] at hs
    simp only [evalE] at h
    cases h1 : evalE cmpF callH ρ st a with
    | error x => simp [h1] at h
    | ok r1 =>
      obtain ⟨x, st1⟩ := r1
      rw [h1] at h
      obtain ⟨t1, H1, S1, P1⟩ := iha hs.2 ρ st x st1 t hH hE h1
      obtain ⟨t2, H2, S2, P2⟩ := hK fn hs.1 [x] st1 v st' t1 H1 (by simpa using P1) h
      exact ⟨t2, H2, S1.trans S2, P2⟩
  | call2 fn a b iha ihb =>
    intro hs ρ st v st' t hH hE h
    simp only [safeE, Bool.and_eq_true] at hs
    simp only [evalE] at h
    cases h1 : evalE cmpF callH ρ st a with
    | error x => simp [h1] at h
    | ok r1 =>
      obtain ⟨x, st1⟩ := r1
      rw [h1] at h
      simp only at h
      cases h2 : evalE cmpF callH ρ st1 b with
      | error x => simp [h2] at h
      | ok r2 =>
        obtain ⟨y, st2⟩ := r2
        rw [h2] at h
        obtain ⟨t2, H2, S2, P1, P2⟩ := two_good cmpF callH (iha hs.1.2) (ihb hs.2) hH hE h1 h2
        obtain ⟨t3, H3, S3, P3⟩ := hK fn hs.1.1 [x, y] st2 v st' t2 H2 (by simp [P1, P2]) h
        exact ⟨t3, H3, S2.trans S3, P3⟩
  | call3 fn a b c iha ihb ihc =>
    intro hs ρ st v st' t hH hE h
    simp only [safeE, Bool.and_eq_true] at hs
    simp only [evalE] at h
    cases h1 : evalE cmpF callH ρ st a with
    | error x => simp [h1] at h
    | ok r1 =>
      obtain ⟨x, st1⟩ := r1
      rw [h1] at h
      simp only at h
      cases h2 : evalE cmpF callH ρ st1 b with
      | error x => simp [h2] at h
      | ok r2 =>
        obtain ⟨y, st2⟩ := r2
        rw [h2] at h
        simp only at h
        obtain ⟨t2, H2, S2, P1, P2⟩ := two_good cmpF callH (iha hs.1.1.2) (ihb hs.1.2) hH hE h1 h2
        cases h3 : evalE cmpF callH ρ st2 c with
        | error x => simp [h3] at h
        | ok r3 =>
          obtain ⟨z, st3⟩ := r3
          rw [h3] at h
          obtain ⟨t3, H3, S3, P3⟩ := ihc hs.2 ρ st2 z st3 t2 H2 (hE.same S2) h3
          obtain ⟨t4, H4, S4, P4⟩ := hK fn hs.1.1.1 [x, y, z] st3 v st' t3 H3
            (by simp [P1.same S3, P2.same S3, P3]) h
          exact ⟨t4, H4, (S2.trans S3).trans S4, P4⟩
  | alloc c k v l r p => intro hs; simp [safeE] at hs

/-- the statement proved for statements -/
def GoodS (lf : Nat) (s : Stmt PName) : Prop :=
  ∀ ρ st fl ρ' st' t, Holds st t → EnvIn t.addrs ρ → exec cmpF callH lf ρ st s = .ok (fl, ρ', st') →
    ∃ t', Holds st' t' ∧ Pres st st' t t' ∧ EnvIn t'.addrs ρ' ∧ FlowIn t'.addrs fl

omit hK in
theorem envIn_set {A : List Nat} {ρ : Env} {x : Nat} {v : Val} (h : EnvIn A ρ) (hv : PtrIn A v) :
    EnvIn A (ρ.set x v) := by
  intro y; simp only [Env.set]; split
  · exact hv
  · exact h y

omit hK in
/-- loops: by induction on the iteration budget -/
theorem iterate_good {cond : Env → St → Res (Val × St)} {body : Env → St → Res (Flow × Env × St)}
    (hc : ∀ ρ st v st' t, Holds st t → EnvIn t.addrs ρ → cond ρ st = .ok (v, st') →
      ∃ t', Holds st' t' ∧ Pres st st' t t' ∧ PtrIn t'.addrs v)
    (hb : ∀ ρ st fl ρ' st' t, Holds st t → EnvIn t.addrs ρ → body ρ st = .ok (fl, ρ', st') →
      ∃ t', Holds st' t' ∧ Pres st st' t t' ∧ EnvIn t'.addrs ρ' ∧ FlowIn t'.addrs fl) :
    ∀ n ρ st fl ρ' st' t, Holds st t → EnvIn t.addrs ρ → iterate cond body n ρ st = .ok (fl, ρ', st') →
      ∃ t', Holds st' t' ∧ Pres st st' t t' ∧ EnvIn t'.addrs ρ' ∧ FlowIn t'.addrs fl := by
  intro n
  induction n with
  | zero => intro ρ st fl ρ' st' t _ _ h; simp [iterate] at h
  | succ n ih =>
    intro ρ st fl ρ' st' t hH hE h
    simp only [iterate] at h
    cases h1 : cond ρ st with
    | error x => simp [h1] at h
    | ok r1 =>
      obtain ⟨x, st1⟩ := r1
      rw [h1] at h
      obtain ⟨t1, H1, S1, _⟩ := hc ρ st x st1 t hH hE h1
      cases x with
      | bool xb =>
        cases xb with
        | false =>
          simp at h; obtain ⟨rfl, rfl, rfl⟩ := h
          exact ⟨t1, H1, S1, hE.same S1, trivial⟩
        | true =>
          simp only at h
          cases h2 : body ρ st1 with
          | error x => simp [h2] at h
          | ok r2 =>
            obtain ⟨fl2, ρ2, st2⟩ := r2
            rw [h2] at h
            obtain ⟨t2, H2, S2, E2, F2⟩ := hb ρ st1 fl2 ρ2 st2 t1 H1 (hE.same S1) h2
            cases fl2 with
            | normal =>
              simp only at h
              obtain ⟨t3, H3, S3, E3, F3⟩ := ih ρ2 st2 fl ρ' st' t2 H2 E2 h
              exact ⟨t3, H3, (S1.trans S2).trans S3, E3, F3⟩
            | cont =>
              simp only at h
              obtain ⟨t3, H3, S3, E3, F3⟩ := ih ρ2 st2 fl ρ' st' t2 H2 E2 h
              exact ⟨t3, H3, (S1.trans S2).trans S3, E3, F3⟩
            | brk =>
              simp at h; obtain ⟨rfl, rfl, rfl⟩ := h
              exact ⟨t2, H2, S1.trans S2, E2, trivial⟩
            | ret w =>
              simp at h; obtain ⟨rfl, rfl, rfl⟩ := h
              exact ⟨t2, H2, S1.trans S2, E2, F2⟩
      | _ => simp at h

theorem exec_safe (lf : Nat) : ∀ s : Stmt PName, safeS s = true → GoodS cmpF callH lf s := by
  intro s
  induction s with
  | skip =>
    intro _ ρ st fl ρ' st' t hH hE h; simp [exec] at h; obtain ⟨rfl, rfl, rfl⟩ := h
    exact ⟨t, hH, Pres.refl hH, hE, trivial⟩
  | continue_ =>
    intro _ ρ st fl ρ' st' t hH hE h; simp [exec] at h; obtain ⟨rfl, rfl, rfl⟩ := h
    exact ⟨t, hH, Pres.refl hH, hE, trivial⟩
  | break_ =>
    intro _ ρ st fl ρ' st' t hH hE h; simp [exec] at h; obtain ⟨rfl, rfl, rfl⟩ := h
    exact ⟨t, hH, Pres.refl hH, hE, trivial⟩
  | seq a b iha ihb =>
    intro hs ρ st fl ρ' st' t hH hE h
    simp only [safeS, Bool.and_eq_true] at hs
    simp only [exec] at h
    cases h1 : exec cmpF callH lf ρ st a with
    | error x => simp [h1] at h
    | ok r1 =>
      obtain ⟨fl1, ρ1, st1⟩ := r1
      rw [h1] at h
      obtain ⟨t1, H1, S1, E1, F1⟩ := iha hs.1 ρ st fl1 ρ1 st1 t hH hE h1
      cases fl1 with
      | normal =>
        simp only at h
        obtain ⟨t2, H2, S2, E2, F2⟩ := ihb hs.2 ρ1 st1 fl ρ' st' t1 H1 E1 h
        exact ⟨t2, H2, S1.trans S2, E2, F2⟩
      | cont => simp at h; obtain ⟨rfl, rfl, rfl⟩ := h; exact ⟨t1, H1, S1, E1, trivial⟩
      | brk => simp at h; obtain ⟨rfl, rfl, rfl⟩ := h; exact ⟨t1, H1, S1, E1, trivial⟩
      | ret w => simp at h; obtain ⟨rfl, rfl, rfl⟩ := h; exact ⟨t1, H1, S1, E1, F1⟩
  | assign x e =>
    intro hs ρ st fl ρ' st' t hH hE h
    simp only [safeS] at hs
    simp only [exec] at h
    cases h1 : evalE cmpF callH ρ st e with
    | error x => simp [h1] at h
    | ok r1 =>
      obtain ⟨v, st1⟩ := r1
      rw [h1] at h
      simp at h; obtain ⟨rfl, rfl, rfl⟩ := h
      obtain ⟨t1, H1, S1, P1⟩ := evalE_safe cmpF callH hK e hs ρ st v st1 t hH hE h1
      exact ⟨t1, H1, S1, envIn_set (hE.same S1) P1, trivial⟩
  | setField p f e =>
    intro hs ρ st fl ρ' st' t hH hE h
    simp only [safeS, Bool.and_eq_true] at hs
    simp only [exec] at h
    cases h1 : evalE cmpF callH ρ st p with
    | error x => simp [h1] at h
    | ok r1 =>
      obtain ⟨pv, st1⟩ := r1
      rw [h1] at h
      simp only at h
      cases h2 : evalE cmpF callH ρ st1 e with
      | error x => simp [h2] at h
      | ok r2 =>
        obtain ⟨v, st2⟩ := r2
        rw [h2] at h
        obtain ⟨t2, H2, S2, _, _⟩ := two_good cmpF callH (evalE_safe cmpF callH hK p hs.1.2)
          (evalE_safe cmpF callH hK e hs.2) hH hE h1 h2
        cases pv with
        | ptr q =>
          cases q with
          | none => simp at h
          | some a =>
            simp only at h
            cases h3 : (st2.h a).set f v with
            | none => simp [h3] at h
            | some n =>
              simp [h3] at h; obtain ⟨rfl, rfl, rfl⟩ := h
              have hp := pres_upd_plain H2 (set_nonptr_same hs.1.1 h3)
              exact ⟨t2, hp.holds, S2.trans hp, hE.same S2, trivial⟩
        | _ => simp at h
  | setRoot e => intro hs; simp [safeS] at hs
  | setSize e =>
    intro hs ρ st fl ρ' st' t hH hE h
    simp only [safeS] at hs
    simp only [exec] at h
    cases h1 : evalE cmpF callH ρ st e with
    | error x => simp [h1] at h
    | ok r1 =>
      obtain ⟨v, st1⟩ := r1
      rw [h1] at h
      obtain ⟨t1, H1, S1, _⟩ := evalE_safe cmpF callH hK e hs ρ st v st1 t hH hE h1
      cases v with
      | int i =>
        simp at h
        obtain ⟨rfl, rfl, rfl⟩ := h
        have hp : Pres st1 { st1 with size := i } t1 t1 := ⟨⟨H1.1, H1.2.1, H1.2.2⟩, rfl, fun _ => rfl⟩
        exact ⟨t1, hp.holds, S1.trans hp, hE.same S1, trivial⟩
      | _ => simp at h
  | ite c a b iha ihb =>
    intro hs ρ st fl ρ' st' t hH hE h
    simp only [safeS, Bool.and_eq_true] at hs
    simp only [exec] at h
    cases h1 : evalE cmpF callH ρ st c with
    | error x => simp [h1] at h
    | ok r1 =>
      obtain ⟨v, st1⟩ := r1
      rw [h1] at h
      obtain ⟨t1, H1, S1, _⟩ := evalE_safe cmpF callH hK c hs.1.1 ρ st v st1 t hH hE h1
      cases v with
      | bool vb =>
        cases vb with
        | true =>
          simp only at h
          obtain ⟨t2, H2, S2, E2, F2⟩ := iha hs.1.2 ρ st1 fl ρ' st' t1 H1 (hE.same S1) h
          exact ⟨t2, H2, S1.trans S2, E2, F2⟩
        | false =>
          simp only at h
          obtain ⟨t2, H2, S2, E2, F2⟩ := ihb hs.2 ρ st1 fl ρ' st' t1 H1 (hE.same S1) h
          exact ⟨t2, H2, S1.trans S2, E2, F2⟩
      | _ => simp at h
  | loop c b ihb =>
    intro hs ρ st fl ρ' st' t hH hE h
    simp only [safeS, Bool.and_eq_true] at hs
    simp only [exec] at h
    exact iterate_good (fun ρ st v st' t hH hE h => evalE_safe cmpF callH hK c hs.1 ρ st v st' t hH hE h)
      (fun ρ st fl ρ' st' t hH hE h => ihb hs.2 ρ st fl ρ' st' t hH hE h) lf ρ st fl ρ' st' t hH hE h
  | ret e =>
    intro hs ρ st fl ρ' st' t hH hE h
    simp only [safeS] at hs
    simp only [exec] at h
    cases h1 : evalE cmpF callH ρ st e with
    | error x => simp [h1] at h
    | ok r1 =>
      obtain ⟨v, st1⟩ := r1
      rw [h1] at h
      simp at h; obtain ⟨rfl, rfl, rfl⟩ := h
      obtain ⟨t1, H1, S1, P1⟩ := evalE_safe cmpF callH hK e hs ρ st v st1 t hH hE h1
      exact ⟨t1, H1, S1, hE.same S1, P1⟩
  | ret2 a b =>
    intro hs ρ st fl ρ' st' t hH hE h
    simp only [safeS, Bool.and_eq_true] at hs
    simp only [exec] at h
    cases h1 : evalE cmpF callH ρ st a with
    | error x => simp [h1] at h
    | ok r1 =>
      obtain ⟨x, st1⟩ := r1
      rw [h1] at h
      simp only at h
      cases h2 : evalE cmpF callH ρ st1 b with
      | error x => simp [h2] at h
      | ok r2 =>
        obtain ⟨y, st2⟩ := r2
        rw [h2] at h
        simp at h; obtain ⟨rfl, rfl, rfl⟩ := h
        obtain ⟨t2, H2, S2, P1, P2⟩ := two_good cmpF callH (evalE_safe cmpF callH hK a hs.1)
          (evalE_safe cmpF callH hK b hs.2) hH hE h1 h2
        exact ⟨t2, H2, S2, hE.same S2, ⟨P1, P2⟩⟩
  | expr e =>
    intro hs ρ st fl ρ' st' t hH hE h
    simp only [safeS] at hs
    simp only [exec] at h
    cases h1 : evalE cmpF callH ρ st e with
    | error x => simp [h1] at h
    | ok r1 =>
      obtain ⟨v, st1⟩ := r1
      rw [h1] at h
      simp at h; obtain ⟨rfl, rfl, rfl⟩ := h
      obtain ⟨t1, H1, S1, _⟩ := evalE_safe cmpF callH hK e hs ρ st v st1 t hH hE h1
      exact ⟨t1, H1, S1, hE.same S1, trivial⟩

/-- a procedure with a safe body satisfies contract K -/
theorem runBody_safe (lf : Nat) (p : Proc PName) (hs : safeS p.body = true) :
    SpecOf (runBody cmpF callH lf p) := by
  intro args st v st' t hH hA h
  simp only [runBody] at h
  have hE : EnvIn t.addrs (Env.ofArgs args) := by
    intro x
    simp only [Env.ofArgs]
    cases hx : args[x]? with
    | none => simp [List.getD, hx]; trivial
    | some w => simp [List.getD, hx]; exact hA w (List.mem_of_getElem? hx)
  cases h1 : exec cmpF callH lf (Env.ofArgs args) st p.body with
  | error x => simp [h1] at h
  | ok r1 =>
    obtain ⟨fl, ρ1, st1⟩ := r1
    rw [h1] at h
    obtain ⟨t1, H1, S1, _, F1⟩ := exec_safe cmpF callH hK lf p.body hs _ st fl ρ1 st1 t hH hE h1
    cases fl with
    | normal => simp at h; obtain ⟨rfl, rfl⟩ := h; exact ⟨t1, H1, S1, trivial⟩
    | ret w => simp at h; obtain ⟨rfl, rfl⟩ := h; exact ⟨t1, H1, S1, F1⟩
    | cont => simp at h
    | brk => simp at h

end

end Ekit.MiniGo.RBHeap
