/-
Executable linearizability checker for *observed* histories (used by the drivers in `spec` mode to
decide whether a recorded concurrent execution of the real code is explained by the sequential
specification).  Wing–Gong search with memoisation on (set of linearized calls, specification state).

A call is `(thread, op, inv position, response position or none, observed result)`.
The executable specification is given as
  `step   : S → Op → Ret → Option S`   -- state after `op` answers `ret`, `none` if that answer is impossible
  `pend   : S → Op → List S`           -- possible states after a call that never returned took effect
States must be printable canonically (`key`) for the memo table.

`check` is exhaustive, so `false` means: no linearization exists (for histories within the search
budget; the budget being hit is reported separately, never as a violation).
-/
import Std.Data.HashSet
namespace Ekit.Conc.LinCheck

structure Call (Op Ret : Type) where
  tid : Nat
  op : Op
  inv : Nat
  res : Option Nat      -- position of the response event, none = pending at the end
  ret : Option Ret

instance {Op Ret} [Inhabited Op] : Inhabited (Call Op Ret) := ⟨⟨0, default, 0, none, none⟩⟩

structure ExecSpec (S Op Ret : Type) where
  init : S
  step : S → Op → Ret → Option S
  pend : S → Op → List S
  key : S → String

inductive Verdict where
  | linearizable
  | notLinearizable
  | budgetExceeded
  deriving DecidableEq, Repr

/-- minimal response position among calls not yet linearized (pending calls never constrain) -/
def minRes {Op Ret} [Inhabited Op] (calls : Array (Call Op Ret)) (done : Nat) : Nat := Id.run do
  let mut m := 1000000000
  for i in [0:calls.size] do
    if (done >>> i) % 2 == 0 then
      match calls[i]!.res with
      | some r => if r < m then m := r
      | none => pure ()
  return m

partial def dfs {S Op Ret} [Inhabited Op] (spec : ExecSpec S Op Ret) (calls : Array (Call Op Ret))
    (done : Nat) (s : S) (memo : IO.Ref (Std.HashSet String)) (fuel : IO.Ref Nat) : IO Bool := do
  -- all completed calls linearized?
  let mut allDone := true
  for i in [0:calls.size] do
    if (done >>> i) % 2 == 0 && calls[i]!.res.isSome then allDone := false
  if allDone then return true
  let k := s!"{done}|{spec.key s}"
  if (← memo.get).contains k then return false
  memo.modify (·.insert k)
  let f ← fuel.get
  if f == 0 then return false
  fuel.set (f - 1)
  let m := minRes calls done
  for i in [0:calls.size] do
    if (done >>> i) % 2 == 0 then
      let c := calls[i]!
      -- c may be linearized next iff it was invoked before every remaining response
      if c.inv < m then
        match c.res, c.ret with
        | some _, some r =>
          match spec.step s c.op r with
          | some s' => if (← dfs spec calls (done ||| (1 <<< i)) s' memo fuel) then return true
          | none => pure ()
        | _, _ =>
          for s' in spec.pend s c.op do
            if (← dfs spec calls (done ||| (1 <<< i)) s' memo fuel) then return true
  return false

def check {S Op Ret} [Inhabited Op] (spec : ExecSpec S Op Ret) (calls : Array (Call Op Ret)) (budget : Nat := 2000000) :
    IO Verdict := do
  let memo ← IO.mkRef ({} : Std.HashSet String)
  let fuel ← IO.mkRef budget
  let ok ← dfs spec calls 0 spec.init memo fuel
  if ok then return .linearizable
  if (← fuel.get) == 0 then return .budgetExceeded
  return .notLinearizable

end Ekit.Conc.LinCheck
