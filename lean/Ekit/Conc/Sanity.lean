/-
Sanity theorems about the definition of linearizability in `System.lean` (so that it cannot be
vacuously weak): a complete single-call history is linearizable iff the specification allows that
answer from the initial state, and responses without a matching pending call are never linearizable.
-/
import Ekit.Conc.System
namespace Ekit.Conc

/-- A complete single call whose answer the specification allows is linearizable. -/
theorem linearizable_single {S Op Ret : Type} (spec : SeqSpec S Op Ret) (t : Nat) (op : Op) (r : Ret) (s' : S)
    (h : spec.apply spec.init op s' r) : Linearizable spec [Ev.inv t op, Ev.res t r] := by
  have h1 : AStep spec (AInit spec) (.inv t op) ⟨spec.init, upd (AInit spec).th t (.pending op)⟩ :=
    AStep.inv rfl
  have h2 : AStep spec ⟨spec.init, upd (AInit spec).th t (.pending op)⟩ (.lin t s' r)
      ⟨s', upd (upd (AInit spec).th t (.pending op)) t (.done r)⟩ :=
    AStep.lin (op := op) (by simp) h
  have h3 : AStep spec ⟨s', upd (upd (AInit spec).th t (.pending op)) t (.done r)⟩ (.res t r)
      ⟨s', upd (upd (upd (AInit spec).th t (.pending op)) t (.done r)) t .idle⟩ :=
    AStep.res (by simp)
  exact ⟨[.inv t op, .lin t s' r, .res t r], _, ARun.cons h1 (ARun.cons h2 (ARun.cons h3 ARun.nil)), rfl⟩

/-- A response with no invocation before it is not linearizable. -/
theorem not_linearizable_res_first {S Op Ret : Type} (spec : SeqSpec S Op Ret) (t : Nat) (r : Ret)
    (rest : List (Ev Op Ret)) : ¬ Linearizable spec (Ev.res t r :: rest) := by
  rintro ⟨ls, a, hrun, hobs⟩
  -- before the first observable event only `lin` steps can occur, and they need a pending call
  suffices H : ∀ (a0 : AState S Op Ret) (ls : List (ALabel S Op Ret)) (a : AState S Op Ret),
      (∀ u, a0.th u = .idle) → ARun spec a0 ls a → ls.filterMap ALabel.obs ≠ Ev.res t r :: rest by
    exact H (AInit spec) ls a (fun _ => rfl) hrun hobs
  intro a0 ls
  induction ls generalizing a0 with
  | nil => intro a _ _ h; simp at h
  | cons l ls ih =>
    intro a hidle hrun h
    cases hrun with
    | cons hs hrest =>
      cases hs with
      | inv h0 => simp [ALabel.obs] at h
      | lin hp ha => rw [hidle] at hp; cases hp
      | res hd => rw [hidle] at hd; cases hd

end Ekit.Conc
