/-
Access tables (DESIGN §4.1(d)): the shape of the table regenerated from the Go sources by
`harness/accesstab`, the decidable discipline check over it, and the pairwise method check the
driver uses.  Core Lean only.  The link to the trace theory is in `Ekit/Lemmas/Races.lean`.

One row = one syntactic read or write of one location inside one *entry* (a public method, a
constructor, or the body of a goroutine the type starts), with the receiver locks that are held on
every path to it.  Locations and locks are interned (`loc`, `excl`, `shared` are indices into
`locNames` / `lockNames` of the generated file); the strings are for people and for the driver.
-/
namespace Ekit.Conc.AccessTable

structure Access where
  file : String
  typ : String
  method : String
  field : String
  loc : Nat
  write : Bool
  atomic : Bool
  /-- made by a constructor before the value escapes, or initialises a field of a fresh composite literal -/
  init : Bool
  excl : List Nat
  shared : List Nat
  deriving Repr, DecidableEq

/-- compact constructor used by the generated file -/
def Access.mk' (file typ method field : String) (loc : Nat) (write atomic init : Bool)
    (excl shared : List Nat) : Access :=
  { file, typ, method, field, loc, write, atomic, init, excl, shared }

/-- the discipline classes a table can establish for a location (`readOnly` + init rows =
`immutableAfterPublish`) -/
inductive Cls where
  | atomicOnly
  | readOnly
  | lockProtected (l : Nat)
  deriving Repr, DecidableEq

def Access.obeys (a : Access) : Cls → Bool
  | .atomicOnly => a.atomic
  | .readOnly => !a.write
  | .lockProtected l => if a.write then a.excl.contains l else (a.excl.contains l || a.shared.contains l)

/-- the post-publication rows of a location -/
def rowsOf (tbl : List Access) (loc : Nat) : List Access :=
  tbl.filter fun a => a.loc == loc && !a.init

def candidates (rows : List Access) : List Cls :=
  [.atomicOnly, .readOnly] ++ (rows.flatMap fun a => a.excl ++ a.shared).map .lockProtected

/-- the first class all post-publication rows of the location obey -/
def classify (tbl : List Access) (loc : Nat) : Option Cls :=
  (candidates (rowsOf tbl loc)).find? fun c => (rowsOf tbl loc).all (·.obeys c)

/-- every location is atomic-only, or read-only after construction, or protected by one common lock
(writes exclusive, reads at least shared) -/
def Disciplined (tbl : List Access) : Bool :=
  tbl.all fun a => a.init || (classify tbl a.loc).isSome

/-! ### Certificate form (what the kernel checks)

The extractor also emits the class it found for every location (`disciplines`, indexed by location
id).  Checking a claimed class against every row is linear, so `decide +kernel` is fast; the
certificate is not trusted — a wrong class makes the check fail. -/

def certOk (cert : List Cls) (a : Access) : Bool :=
  a.init || match cert[a.loc]? with
    | some c => a.obeys c
    | none => false

def DisciplinedBy (cert : List Cls) (tbl : List Access) : Bool := tbl.all (certOk cert)

/-- the rows that break the discipline (for messages) -/
def offenders (tbl : List Access) : List Access :=
  tbl.filter fun a => !(a.init || (classify tbl a.loc).isSome)

/-! ### Pairwise view (what the dynamic matrix exercises) -/

def commonLock (a b : Access) : Bool :=
  a.excl.any (fun l => b.excl.contains l || b.shared.contains l) ||
  b.excl.any (fun l => a.excl.contains l || a.shared.contains l)

/-- two rows cannot race -/
def compatible (a b : Access) : Bool :=
  a.loc != b.loc || a.init || b.init || (!a.write && !b.write) || (a.atomic && b.atomic) || commonLock a b

/-- rows executed on behalf of a call of `m` on a `typ`: its own and those of the goroutines the type runs -/
def rowsOfCall (tbl : List Access) (typ m : String) : List Access :=
  tbl.filter fun a => a.typ == typ && (a.method == m || a.method.startsWith "go:")

def pairOk (tbl : List Access) (typ m₁ m₂ : String) : Bool :=
  (rowsOfCall tbl typ m₁).all fun a => (rowsOfCall tbl typ m₂).all fun b => compatible a b

def hasEntry (entries : List (String × String)) (typ m : String) : Bool :=
  entries.any fun e => e.1 == typ && e.2 == m

end Ekit.Conc.AccessTable
