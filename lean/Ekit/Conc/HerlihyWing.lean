/-
The automaton definition of linearizability used throughout the project (`Linearizable` in
`System.lean`: the history is a history of the canonical atomic automaton of the sequential
specification) IS Herlihy–Wing linearizability (TOPLAS 1990).

The classical definition is stated — without any automaton — in `HerlihyWingDef.lean`
(`WellFormed`, `Call`, `IsCall`, `Precedes`, `Legal`, `IsLinearization`, `HWLinearizable`; read that
file to check it against the paper).  In short, `HWLinearizable spec h` says: there is a list `L` of
calls of `h`, each with a result, such that
  (a) `L` contains every completed call of `h` (with its actual result), possibly some pending calls
      of `h` (with any result), nothing else, and nothing twice;
  (b) `L`, read as a sequence of (operation, result) pairs, is a legal sequential execution of the
      specification from `spec.init`;
  (c) if the response of `c₁` precedes the invocation of `c₂` in `h` and both are in `L`, then `c₁`
      is before `c₂` in `L`.

Main theorems (all for an arbitrary relational specification `spec` and history `h`):
* `linearizable_wellFormed : Linearizable spec h → WellFormed h`
* `linearizable_imp_hw     : Linearizable spec h → HWLinearizable spec h`
* `hw_imp_linearizable     : WellFormed h → HWLinearizable spec h → Linearizable spec h`
* `linearizable_iff_hw     : Linearizable spec h ↔ WellFormed h ∧ HWLinearizable spec h`
* `hw_of_forward_simulation`: the proof principle of the property files, concluding the classical form.

Proofs: `HerlihyWingFwd.lean` (⇒: the `lin` steps of the run, in order, are the linearization),
`HerlihyWingBwd.lean` (⇐: replay `h`, firing the calls of `L` lazily, in order, before responses),
`HerlihyWingWF.lean` (the paper's well-formedness ↔ the positional form used by the proofs).

At the end: a FIFO-queue specification with histories that are / are not linearizable.
-/
import Ekit.Conc.HerlihyWingFwd
import Ekit.Conc.HerlihyWingBwd
import Ekit.Conc.HerlihyWingWF
import Ekit.Conc.HerlihyWingDecide
namespace Ekit.Conc
open HW
variable {S Op Ret : Type}

/-- histories of the canonical automaton are well-formed -/
theorem linearizable_wellFormed {spec : SeqSpec S Op Ret} {h : List (Ev Op Ret)}
    (hl : Linearizable spec h) : WellFormed h := by
  obtain ⟨a, F, I⟩ := inv_of_linearizable hl
  exact (wellFormed_iff_pos h).mpr (wellFormedPos_of_inv I)

/-- **automaton linearizability implies Herlihy–Wing linearizability** -/
theorem linearizable_imp_hw {spec : SeqSpec S Op Ret} {h : List (Ev Op Ret)}
    (hl : Linearizable spec h) : HWLinearizable spec h := by
  obtain ⟨a, F, I⟩ := inv_of_linearizable hl
  exact hw_of_inv I

/-- **Herlihy–Wing linearizability of a well-formed history implies automaton linearizability** -/
theorem hw_imp_linearizable {spec : SeqSpec S Op Ret} {h : List (Ev Op Ret)}
    (hw : WellFormed h) (hl : HWLinearizable spec h) : Linearizable spec h :=
  linearizable_of_hw_pos ((wellFormed_iff_pos h).mp hw) hl

/-- **the two definitions agree** -/
theorem linearizable_iff_hw {spec : SeqSpec S Op Ret} {h : List (Ev Op Ret)} :
    Linearizable spec h ↔ WellFormed h ∧ HWLinearizable spec h :=
  ⟨fun hl => ⟨linearizable_wellFormed hl, linearizable_imp_hw hl⟩,
   fun ⟨hw, hl⟩ => hw_imp_linearizable hw hl⟩

/-- **Forward simulation, classical conclusion**: under the hypotheses of `forward_simulation`,
    every history of the concrete object is well-formed and Herlihy–Wing linearizable. -/
theorem hw_of_forward_simulation {σ ι : Type} (C : ObjSystem σ ι Op Ret) (spec : SeqSpec S Op Ret)
    (R : σ → AState S Op Ret → Prop)
    (hinit : R C.init (AInit spec))
    (hstep : ∀ s a l s', C.Reachable s → R s a → C.step s l = some s' →
      ∃ als a', ARun spec a als a' ∧ R s' a' ∧ als.filterMap ALabel.obs = (C.obs l).toList)
    (ls : List ι) (s : σ) (hrun : C.run C.init ls = some s) :
    WellFormed (C.history ls) ∧ HWLinearizable spec (C.history ls) :=
  linearizable_iff_hw.mp (forward_simulation C spec R hinit hstep ls s hrun)

/-- any theorem concluding `Linearizable` yields the classical statement -/
theorem Linearizable.hw {spec : SeqSpec S Op Ret} {h : List (Ev Op Ret)}
    (hl : Linearizable spec h) : WellFormed h ∧ HWLinearizable spec h :=
  linearizable_iff_hw.mp hl

/-- the linearization explicitly: calls of `h` with results satisfying (a), (b), (c) -/
theorem Linearizable.exists_linearization {spec : SeqSpec S Op Ret} {h : List (Ev Op Ret)}
    (hl : Linearizable spec h) : ∃ L : List (Call Op Ret × Ret),
      (∀ x ∈ L, IsCall h x.1 ∧ ∀ j r, x.1.res = some (j, r) → x.2 = r) ∧
      (L.map (·.1.inv)).Nodup ∧
      (∀ c, IsCall h c → c.res.isSome → ∃ r, (c, r) ∈ L) ∧
      Legal spec spec.init (L.map fun x => (x.1.op, x.2)) ∧
      (∀ x y, x ∈ L → y ∈ L → Precedes x.1 y.1 → Before L x y) := by
  obtain ⟨L, HL⟩ := linearizable_imp_hw hl
  exact ⟨L, HL.calls, HL.nodup, HL.complete, HL.legal, HL.order⟩

/-! ## Non-vacuity: a FIFO queue -/

namespace HWExample

inductive QOp where
  | enq (v : Nat)
  | deq
  deriving DecidableEq

/-- unbounded FIFO queue; `enq` answers `none`, `deq` answers the head, or `none` on empty -/
def qspec : SeqSpec (List Nat) QOp (Option Nat) where
  init := []
  apply s op s' r := match op with
    | .enq v => s' = s ++ [v] ∧ r = none
    | .deq => (s = [] ∧ s' = [] ∧ r = none) ∨ (∃ x, s = x :: s' ∧ r = some x)

abbrev QEv := Ev QOp (Option Nat)
abbrev QCall := Call QOp (Option Nat)

/-! ### linearizable histories, with explicit linearizations -/

/-- Two overlapping calls: thread 0 enqueues 1, thread 1 dequeues 1 (and even returns first). -/
def h₁ : List QEv := [.inv 0 (.enq 1), .inv 1 .deq, .res 1 (some 1), .res 0 none]

def L₁ : List (QCall × Option Nat) :=
  [(⟨0, .enq 1, 0, some (3, none)⟩, none), (⟨1, .deq, 1, some (2, some 1)⟩, some 1)]

theorem h₁_wellFormed : WellFormed h₁ := by
  intro t
  match t with
  | 0 => simp [Sequential, proj, h₁, List.filter, Alternates]
  | 1 => simp [Sequential, proj, h₁, List.filter, Alternates]
  | t + 2 => simp [Sequential, proj, h₁, List.filter, Alternates]

/-- ill-formed: a response without invocation; two invocations of a thread in a row -/
example : ¬ WellFormed ([.res 0 none] : List QEv) := fun h => by
  have := h 0; simp [Sequential, proj, List.filter, Alternates] at this
example : ¬ WellFormed ([.inv 0 .deq, .inv 1 .deq, .inv 0 .deq] : List QEv) := fun h => by
  have := h 0; simp [Sequential, proj, List.filter, Alternates] at this

theorem L₁_linearization : IsLinearization qspec h₁ L₁ where
  calls := by
    intro x hx
    simp only [L₁, List.mem_cons, List.not_mem_nil, or_false] at hx
    rcases hx with rfl | rfl <;> exact ⟨by decide, fun j r h => by cases h; rfl⟩
  nodup := by decide
  complete := complete_of_completedCalls (by decide)
  legal := ⟨[1], ⟨rfl, rfl⟩, [], Or.inr ⟨1, rfl, rfl⟩, trivial⟩
  order := order_of_pairwise (h := h₁) (by decide) (by decide)

example : HWLinearizable qspec h₁ := ⟨L₁, L₁_linearization⟩
example : Linearizable qspec h₁ := hw_imp_linearizable h₁_wellFormed ⟨L₁, L₁_linearization⟩

/-- the other order is NOT a linearization of `h₁` (the dequeue would find the queue empty) -/
example : ¬ IsLinearization qspec h₁ L₁.reverse := by
  intro H
  obtain ⟨s', h, _⟩ := H.legal
  simp [qspec] at h

/-- A pending call that must be linearized: the enqueue never returns, yet its value is dequeued. -/
def h₂ : List QEv := [.inv 0 (.enq 1), .inv 1 .deq, .res 1 (some 1)]

def L₂ : List (QCall × Option Nat) :=
  [(⟨0, .enq 1, 0, none⟩, none), (⟨1, .deq, 1, some (2, some 1)⟩, some 1)]

theorem L₂_linearization : IsLinearization qspec h₂ L₂ where
  calls := by
    intro x hx
    simp only [L₂, List.mem_cons, List.not_mem_nil, or_false] at hx
    rcases hx with rfl | rfl <;> exact ⟨by decide, fun j r h => by cases h <;> rfl⟩
  nodup := by decide
  complete := complete_of_completedCalls (by decide)
  legal := ⟨[1], ⟨rfl, rfl⟩, [], Or.inr ⟨1, rfl, rfl⟩, trivial⟩
  order := order_of_pairwise (h := h₂) (by decide) (by decide)

example : HWLinearizable qspec h₂ := ⟨L₂, L₂_linearization⟩

/-- … and dropping the pending enqueue is not possible -/
example : ¬ IsLinearization qspec h₂ [(⟨1, .deq, 1, some (2, some 1)⟩, some 1)] := by
  intro H
  obtain ⟨s', h, _⟩ := H.legal
  simp [qspec] at h

/-- Overlapping enqueues may take effect in either order; afterwards a dequeue returns 2, so the
    linearization puts `enq 2` first although `enq 1` was invoked (and returned) first. -/
def h₃ : List QEv :=
  [.inv 0 (.enq 1), .inv 1 (.enq 2), .res 0 none, .res 1 none, .inv 0 .deq, .res 0 (some 2)]

def L₃ : List (QCall × Option Nat) :=
  [(⟨1, .enq 2, 1, some (3, none)⟩, none), (⟨0, .enq 1, 0, some (2, none)⟩, none),
   (⟨0, .deq, 4, some (5, some 2)⟩, some 2)]

theorem L₃_linearization : IsLinearization qspec h₃ L₃ where
  calls := by
    intro x hx
    simp only [L₃, List.mem_cons, List.not_mem_nil, or_false] at hx
    rcases hx with rfl | rfl | rfl <;> exact ⟨by decide, fun j r h => by cases h; rfl⟩
  nodup := by decide
  complete := complete_of_completedCalls (by decide)
  legal := ⟨[2], ⟨rfl, rfl⟩, [2, 1], ⟨rfl, rfl⟩, [1], Or.inr ⟨2, rfl, rfl⟩, trivial⟩
  order := order_of_pairwise (h := h₃) (by decide) (by decide)

example : HWLinearizable qspec h₃ := ⟨L₃, L₃_linearization⟩

/-! ### histories that are not linearizable -/

/-- in a legal queue execution a dequeued value is in the queue or was enqueued earlier -/
theorem legal_deq {v : Nat} : ∀ (l : List (QOp × Option Nat)) (s : List Nat), Legal qspec s l →
    ∀ n : Nat, l[n]? = some (QOp.deq, some v) →
      v ∈ s ∨ ∃ (m : Nat) (r : Option Nat), m < n ∧ l[m]? = some (QOp.enq v, r) := by
  intro l
  induction l with
  | nil => intro s _ n hn; simp at hn
  | cons x rest ih =>
    obtain ⟨op, r⟩ := x
    rintro s ⟨s', happ, hleg⟩ n hn
    cases n with
    | zero =>
      simp only [List.getElem?_cons_zero, Option.some.injEq, Prod.mk.injEq] at hn
      obtain ⟨rfl, rfl⟩ := hn
      rcases happ with ⟨_, _, h⟩ | ⟨x, hs, hx⟩
      · cases h
      · cases hx; left; rw [hs]; exact List.mem_cons_self
    | succ n =>
      simp only [List.getElem?_cons_succ] at hn
      rcases ih s' hleg n hn with hmem | ⟨m, r', hm, hl⟩
      · cases op with
        | enq w =>
          obtain ⟨hs', _⟩ := happ
          rw [hs', List.mem_append, List.mem_singleton] at hmem
          rcases hmem with hmem | rfl
          · exact Or.inl hmem
          · exact Or.inr ⟨0, r, Nat.succ_pos _, rfl⟩
        | deq =>
          rcases happ with ⟨_, hs', _⟩ | ⟨x, hs, _⟩
          · rw [hs'] at hmem; cases hmem
          · left; rw [hs]; exact List.mem_cons_of_mem _ hmem
      · exact Or.inr ⟨m + 1, r', by omega, by simpa using hl⟩

/-- in a linearization w.r.t. the queue, a dequeue answering `v` comes after an enqueue of `v` -/
theorem deq_after_enq {h : List QEv} {L : List (QCall × Option Nat)} (HL : IsLinearization qspec h L)
    {x : QCall × Option Nat} {v : Nat} (hx : x ∈ L) (hop : x.1.op = .deq) (hr : x.2 = some v) :
    ∃ y, Before L y x ∧ y.1.op = .enq v := by
  obtain ⟨n, hn⟩ := List.mem_iff_getElem?.mp hx
  have hn' : (L.map fun x => (x.1.op, x.2))[n]? = some (QOp.deq, some v) := by
    rw [List.getElem?_map, hn]; simp [hop, hr]
  rcases legal_deq _ _ HL.legal n hn' with hmem | ⟨m, r, hm, hl⟩
  · cases hmem
  · rw [List.getElem?_map] at hl
    cases hy : L[m]? with
    | none => rw [hy] at hl; cases hl
    | some y =>
      rw [hy] at hl
      simp only [Option.map_some, Option.some.injEq, Prod.mk.injEq] at hl
      exact ⟨y, ⟨m, n, hm, hy, hn⟩, hl.1⟩

/-- **A dequeue returning a value that is never enqueued is not linearizable** (any history). -/
theorem not_hw_of_deq_unenqueued {h : List QEv} {c : QCall} {j v : Nat} (hc : IsCall h c)
    (hop : c.op = .deq) (hres : c.res = some (j, some v))
    (hno : ∀ (i t : Nat), h[i]? ≠ some (Ev.inv t (QOp.enq v))) : ¬ HWLinearizable qspec h := by
  rintro ⟨L, HL⟩
  obtain ⟨r, hmem⟩ := HL.complete c hc (by rw [hres]; rfl)
  have hr : r = some v := (HL.calls _ hmem).2 j (some v) hres
  obtain ⟨y, hb, hy⟩ := deq_after_enq HL hmem hop hr
  obtain ⟨i, _, _, hi, _⟩ := hb
  have := (HL.calls y (List.mem_of_getElem? hi)).1.1
  rw [hy] at this
  exact hno _ _ this

/-- thread 0 enqueues 1; afterwards thread 1 dequeues … 7 -/
def h₄ : List QEv := [.inv 0 (.enq 1), .res 0 none, .inv 1 .deq, .res 1 (some 7)]

theorem h₄_not_hw : ¬ HWLinearizable qspec h₄ := by
  refine not_hw_of_deq_unenqueued (c := ⟨1, .deq, 2, some (3, some 7)⟩) (by decide) rfl rfl ?_
  intro i t
  rcases i with _ | _ | _ | _ | i <;> simp [h₄]

/-- … hence not a history of the canonical automaton either -/
example : ¬ Linearizable qspec h₄ := fun hl => h₄_not_hw (linearizable_imp_hw hl)

/-- Real-time order matters: the dequeue of 1 has RETURNED before 1 is enqueued.  (With overlapping
    calls — `h₁` — the same answers are fine.) -/
def h₅ : List QEv := [.inv 1 .deq, .res 1 (some 1), .inv 0 (.enq 1), .res 0 none]

theorem h₅_not_hw : ¬ HWLinearizable qspec h₅ := by
  rintro ⟨L, HL⟩
  let d : QCall := ⟨1, .deq, 0, some (1, some 1)⟩
  let e : QCall := ⟨0, .enq 1, 2, some (3, none)⟩
  have hd : IsCall h₅ d := by decide
  have he : IsCall h₅ e := by decide
  obtain ⟨rd, hdm⟩ := HL.complete d hd rfl
  obtain ⟨re, hem⟩ := HL.complete e he rfl
  have hrd : rd = some 1 := (HL.calls _ hdm).2 1 (some 1) rfl
  -- the dequeue precedes the enqueue in real time, so it is before it in `L`
  have h1 : Before L (d, rd) (e, re) := HL.order _ _ hdm hem ⟨1, some 1, rfl, Nat.lt_succ_self 1⟩
  -- but the queue specification needs an enqueue of 1 before the dequeue, and there is only one
  obtain ⟨y, hb, hy⟩ := deq_after_enq HL hdm rfl hrd
  have hym : y ∈ L := by obtain ⟨i, _, _, hi, _⟩ := hb; exact List.mem_of_getElem? hi
  have hyc := (HL.calls y hym).1
  have hyi : y.1.inv = 2 := by
    have h2 := hyc.1
    rw [hy] at h2
    have hlt := hyc.inv_lt
    generalize y.1.inv = i at h2 hlt
    rcases i with _ | _ | _ | _ | i <;> simp [h₅] at h2 hlt ⊢
  have : y = (e, re) := mem_unique HL.nodup hym hem hyi
  rw [this] at hb
  exact before_asymm HL.nodup h1 hb

example : ¬ Linearizable qspec h₅ := fun hl => h₅_not_hw (linearizable_imp_hw hl)

end HWExample
end Ekit.Conc
