/-
Lockset discipline ⇒ data-race freedom (generic theory for C15; core Lean only).

Traces are lists of events of any number of threads (`Tid = Nat`) running any client program:

* `acq t l m` / `rel t l m` — thread `t` acquires / releases lock `l` in mode `m` (`shared | excl`);
* `atomic t x w`            — a sequentially consistent atomic access of location `x` (`w`: it stores);
* `read t x`, `write t x`   — plain accesses;
* `publish t k`, `receive t k` — hand-off of token `k` (channel send→receive, close→receive,
  `sync.Pool` Put→Get, `Once.Do` completion→return of every `Do`, goroutine start, an atomic pointer
  publication, …).

**Assumed semantics of the Go memory model (definitions, not axioms).**  Happens-before is the
transitive closure of
  program order ∪ release→later acquire of the same lock (exclusive→any, shared→exclusive)
  ∪ atomic store→later atomic access of the same location ∪ publish→later receive of the same token.
A lock is never held by two threads in conflicting modes (`WellFormed`).

A *discipline* assigns to every location one of `atomicOnly`, `lockProtected l`, `readOnly`,
`threadLocal t`; it governs the accesses made after the owning object has been published.  The accesses
made by the creating thread before it first publishes the object (constructor writes, the fields of a
fresh composite literal) are the *init phase*; every other thread touches the object only after
receiving its token (directly from the creator or through any chain of hand-offs).  `readOnly`
together with the init phase is the class called `immutableAfterPublish` in DESIGN §3.

Main theorem: `disciplined_raceFree : WellFormed tr → Conforms S disc ini tr → RaceFree tr`.
-/
namespace Ekit.Conc.Lockset

abbrev Tid := Nat

inductive Mode where
  | shared | excl
  deriving DecidableEq, Repr

inductive Ev (Lock Loc Tok : Type) where
  | acq (t : Tid) (l : Lock) (m : Mode)
  | rel (t : Tid) (l : Lock) (m : Mode)
  | atomic (t : Tid) (x : Loc) (w : Bool)
  | read (t : Tid) (x : Loc)
  | write (t : Tid) (x : Loc)
  | publish (t : Tid) (k : Tok)
  | receive (t : Tid) (k : Tok)
  deriving DecidableEq, Repr

/-- a memory access: thread, location, `w` = it writes, `a` = it is atomic -/
structure Acc (Loc : Type) where
  t : Tid
  x : Loc
  w : Bool
  a : Bool
  deriving DecidableEq, Repr

section
variable {Lock Loc Tok : Type}

def Ev.tid : Ev Lock Loc Tok → Tid
  | .acq t _ _ | .rel t _ _ | .atomic t _ _ | .read t _ | .write t _ | .publish t _ | .receive t _ => t

def Ev.acc? : Ev Lock Loc Tok → Option (Acc Loc)
  | .atomic t x w => some ⟨t, x, w, true⟩
  | .read t x => some ⟨t, x, false, false⟩
  | .write t x => some ⟨t, x, true, false⟩
  | _ => none

theorem Ev.acc?_tid {e : Ev Lock Loc Tok} {a : Acc Loc} (h : e.acc? = some a) : e.tid = a.t := by
  cases e <;> simp [Ev.acc?] at h <;> subst h <;> rfl

abbrev Trace (Lock Loc Tok : Type) := List (Ev Lock Loc Tok)

/-- synchronisation edges of the assumed memory model -/
inductive Sync : Ev Lock Loc Tok → Ev Lock Loc Tok → Prop where
  | lock (t t' : Tid) (l : Lock) (m m' : Mode) : (m = .excl ∨ m' = .excl) → Sync (.rel t l m) (.acq t' l m')
  | atomic (t t' : Tid) (x : Loc) (w' : Bool) : Sync (.atomic t x true) (.atomic t' x w')
  | pub (t t' : Tid) (k : Tok) : Sync (.publish t k) (.receive t' k)

/-- one happens-before step between positions `i < j` of the trace -/
def Edge (tr : Trace Lock Loc Tok) (i j : Nat) : Prop :=
  i < j ∧ ∃ e₁ e₂, tr[i]? = some e₁ ∧ tr[j]? = some e₂ ∧ (e₁.tid = e₂.tid ∨ Sync e₁ e₂)

/-- happens-before: transitive closure of `Edge` -/
inductive HB (tr : Trace Lock Loc Tok) : Nat → Nat → Prop where
  | base {i j} : Edge tr i j → HB tr i j
  | trans {i j k} : HB tr i j → HB tr j k → HB tr i k

theorem HB.lt {tr : Trace Lock Loc Tok} {i j : Nat} (h : HB tr i j) : i < j := by
  induction h with
  | base e => exact e.1
  | trans _ _ ih₁ ih₂ => exact Nat.lt_trans ih₁ ih₂

theorem HB.po {tr : Trace Lock Loc Tok} {i j : Nat} {e₁ e₂ : Ev Lock Loc Tok} (hij : i < j)
    (h₁ : tr[i]? = some e₁) (h₂ : tr[j]? = some e₂) (ht : e₁.tid = e₂.tid) : HB tr i j :=
  .base ⟨hij, e₁, e₂, h₁, h₂, .inl ht⟩

theorem HB.sync {tr : Trace Lock Loc Tok} {i j : Nat} {e₁ e₂ : Ev Lock Loc Tok} (hij : i < j)
    (h₁ : tr[i]? = some e₁) (h₂ : tr[j]? = some e₂) (hs : Sync e₁ e₂) : HB tr i j :=
  .base ⟨hij, e₁, e₂, h₁, h₂, .inr hs⟩

/-- thread `t` holds `l` in mode `m` when the event at position `i` executes -/
def HoldsAt (tr : Trace Lock Loc Tok) (i : Nat) (t : Tid) (l : Lock) (m : Mode) : Prop :=
  ∃ a, a < i ∧ tr[a]? = some (.acq t l m) ∧ ∀ k, a < k → k < i → tr[k]? ≠ some (.rel t l m)

/-- mutual exclusion: a lock is never acquired while another thread holds it in a conflicting mode -/
def WellFormed (tr : Trace Lock Loc Tok) : Prop :=
  ∀ a t l m, tr[a]? = some (.acq t l m) →
    ∀ t' m', t' ≠ t → (m = .excl ∨ m' = .excl) → ¬ HoldsAt tr a t' l m'

/-- **The lockset argument.**  Two events of different threads that both hold `l`, at least one
exclusively, are ordered by happens-before (through the release→acquire edge). -/
theorem lock_orders {tr : Trace Lock Loc Tok} (wf : WellFormed tr) {i j : Nat} {t t' : Tid} {l : Lock}
    {m m' : Mode} {eᵢ eⱼ : Ev Lock Loc Tok}
    (hij : i < j) (hne : t ≠ t') (hi : tr[i]? = some eᵢ) (hj : tr[j]? = some eⱼ)
    (hti : eᵢ.tid = t) (htj : eⱼ.tid = t') (hm : m = .excl ∨ m' = .excl)
    (h₁ : HoldsAt tr i t l m) (h₂ : HoldsAt tr j t' l m') : HB tr i j := by
  obtain ⟨a, ha_lt, ha_ev, ha_norel⟩ := h₁
  obtain ⟨a', ha'_lt, ha'_ev, ha'_norel⟩ := h₂
  have hm' : m' = .excl ∨ m = .excl := hm.symm
  rcases Nat.lt_trichotomy a' i with hlt | heq | hgt
  · -- t' acquired before i: both would hold l in conflicting modes
    exfalso
    have hane : a ≠ a' := by
      intro h; subst h
      rw [ha_ev] at ha'_ev
      injection ha'_ev with h; injection h with h1; exact hne h1
    rcases Nat.lt_or_gt_of_ne hane with h | h
    · exact wf a' t' l m' ha'_ev t m hne hm' ⟨a, h, ha_ev, fun k hk1 hk2 => ha_norel k hk1 (Nat.lt_trans hk2 hlt)⟩
    · exact wf a t l m ha_ev t' m' (Ne.symm hne) hm
        ⟨a', h, ha'_ev, fun k hk1 hk2 => ha'_norel k hk1 (Nat.lt_trans hk2 (Nat.lt_trans ha_lt hij))⟩
  · exfalso
    subst heq
    rw [hi] at ha'_ev
    injection ha'_ev with h
    subst h
    exact hne (hti.symm.trans rfl)
  · -- t' acquires after i: t must have released in between
    have hnh : ¬ HoldsAt tr a' t l m := wf a' t' l m' ha'_ev t m hne hm'
    have hex : ∃ r, a < r ∧ r < a' ∧ tr[r]? = some (.rel t l m) := by
      apply Classical.byContradiction
      intro hno
      exact hnh ⟨a, Nat.lt_trans ha_lt hgt, ha_ev, fun k hk1 hk2 hk => hno ⟨k, hk1, hk2, hk⟩⟩
    obtain ⟨r, har, hra', hr⟩ := hex
    have hir : i ≤ r := by
      apply Classical.byContradiction
      intro h
      exact ha_norel r har (Nat.lt_of_not_le h) hr
    have h2 : HB tr r a' := HB.sync hra' hr ha'_ev (.lock t t' l m m' hm)
    have h3 : HB tr a' j := HB.po ha'_lt ha'_ev hj htj.symm
    rcases Nat.lt_or_eq_of_le hir with h | h
    · have h1 : HB tr i r := HB.po h hi hr hti
      exact .trans (.trans h1 h2) h3
    · subst h
      exact .trans h2 h3

/-! ### Races -/

/-- two accesses conflict: same location, different threads, at least one stores, not both atomic -/
def Conflict (a b : Acc Loc) : Prop :=
  a.x = b.x ∧ a.t ≠ b.t ∧ (a.w = true ∨ b.w = true) ∧ ¬ (a.a = true ∧ b.a = true)

/-- a data race: two conflicting accesses not ordered by happens-before -/
def Race (tr : Trace Lock Loc Tok) (i j : Nat) : Prop :=
  i < j ∧ ∃ eᵢ eⱼ aᵢ aⱼ, tr[i]? = some eᵢ ∧ tr[j]? = some eⱼ ∧ eᵢ.acc? = some aᵢ ∧ eⱼ.acc? = some aⱼ ∧
    Conflict aᵢ aⱼ ∧ ¬ HB tr i j

def RaceFree (tr : Trace Lock Loc Tok) : Prop := ∀ i j, ¬ Race tr i j

/-! ### Disciplines -/

inductive Discipline (Lock : Type) where
  | atomicOnly
  | lockProtected (l : Lock)
  | readOnly
  | threadLocal (t : Tid)
  deriving DecidableEq, Repr

/-- which object (token) a location belongs to, and which thread created that object -/
structure Setup (Loc Tok : Type) where
  owner : Loc → Tok
  creator : Tok → Tid

/-- what a discipline demands of one (post-publication) access -/
def Obeys (tr : Trace Lock Loc Tok) (i : Nat) (acc : Acc Loc) : Discipline Lock → Prop
  | .atomicOnly => acc.a = true
  | .lockProtected l =>
      if acc.w then HoldsAt tr i acc.t l .excl
      else HoldsAt tr i acc.t l .shared ∨ HoldsAt tr i acc.t l .excl
  | .readOnly => acc.w = false
  | .threadLocal t => acc.t = t

structure Conforms (S : Setup Loc Tok) (disc : Loc → Discipline Lock) (ini : Nat → Prop)
    (tr : Trace Lock Loc Tok) : Prop where
  /-- init-phase accesses are made by the creator of the owning object before it first publishes it -/
  init_by_creator : ∀ (i : Nat) (e : Ev Lock Loc Tok) (acc : Acc Loc), tr[i]? = some e → e.acc? = some acc → ini i →
    acc.t = S.creator (S.owner acc.x) ∧ ∀ p, p ≤ i → tr[p]? ≠ some (Ev.publish acc.t (S.owner acc.x))
  /-- any other thread touches the object only after receiving its token -/
  foreign_after_receive : ∀ (j : Nat) (e : Ev Lock Loc Tok) (acc : Acc Loc), tr[j]? = some e → e.acc? = some acc →
    acc.t ≠ S.creator (S.owner acc.x) → ∃ q, q < j ∧ tr[q]? = some (Ev.receive acc.t (S.owner acc.x))
  /-- a token is received only after it was published, by the creator or by a thread that had received it -/
  receive_after_publish : ∀ (q : Nat) (t : Tid) (k : Tok), tr[q]? = some (Ev.receive t k) →
    ∃ p t', p < q ∧ tr[p]? = some (Ev.publish t' k) ∧
      (t' = S.creator k ∨ ∃ q', q' < p ∧ tr[q']? = some (Ev.receive t' k))
  /-- every access outside the init phase obeys the discipline of its location -/
  disciplined : ∀ (i : Nat) (e : Ev Lock Loc Tok) (acc : Acc Loc), tr[i]? = some e → e.acc? = some acc → ¬ ini i → Obeys tr i acc (disc acc.x)

/-- every receive of `k` happens after a publication of `k` by its creator (hand-off chains of any length) -/
theorem receive_hb_creator_publish {S : Setup Loc Tok} {disc : Loc → Discipline Lock} {ini : Nat → Prop}
    {tr : Trace Lock Loc Tok} (c : Conforms S disc ini tr) :
    ∀ q t k, tr[q]? = some (.receive t k) →
      ∃ p₀, p₀ < q ∧ tr[p₀]? = some (.publish (S.creator k) k) ∧ HB tr p₀ q := by
  intro q
  induction q using Nat.strongRecOn with
  | _ q ih =>
    intro t k hq
    obtain ⟨p, t', hpq, hp, hor⟩ := c.receive_after_publish q t k hq
    have hedge : HB tr p q := HB.sync hpq hp hq (.pub t' t k)
    rcases hor with h | ⟨q', hq'p, hq'⟩
    · subst h
      exact ⟨p, hpq, hp, hedge⟩
    · obtain ⟨p₀, hp₀, hp₀ev, hhb⟩ := ih q' (Nat.lt_trans hq'p hpq) t' k hq'
      have hpo : HB tr q' p := HB.po hq'p hq' hp rfl
      exact ⟨p₀, Nat.lt_trans hp₀ (Nat.lt_trans hq'p hpq), hp₀ev, .trans (.trans hhb hpo) hedge⟩

/-- an init-phase access happens before every access of any other thread to the same object -/
theorem init_hb_foreign {S : Setup Loc Tok} {disc : Loc → Discipline Lock} {ini : Nat → Prop}
    {tr : Trace Lock Loc Tok} (c : Conforms S disc ini tr) {i j : Nat} {eᵢ eⱼ : Ev Lock Loc Tok}
    {aᵢ aⱼ : Acc Loc} (hi : tr[i]? = some eᵢ) (hj : tr[j]? = some eⱼ) (hai : eᵢ.acc? = some aᵢ)
    (haj : eⱼ.acc? = some aⱼ) (hx : S.owner aᵢ.x = S.owner aⱼ.x) (hne : aᵢ.t ≠ aⱼ.t) (hini : ini i) :
    HB tr i j := by
  obtain ⟨hcr, hnopub⟩ := c.init_by_creator i eᵢ aᵢ hi hai hini
  have hforeign : aⱼ.t ≠ S.creator (S.owner aⱼ.x) := by
    intro h; apply hne; rw [hcr, hx, h]
  obtain ⟨q, hqj, hq⟩ := c.foreign_after_receive j eⱼ aⱼ hj haj hforeign
  obtain ⟨p₀, _, hp₀ev, hhb⟩ := receive_hb_creator_publish c q aⱼ.t (S.owner aⱼ.x) hq
  have hip₀ : i < p₀ := by
    apply Classical.byContradiction
    intro h
    apply hnopub p₀ (Nat.le_of_not_lt h)
    rw [hp₀ev, hcr, hx]
  have h1 : HB tr i p₀ := HB.po hip₀ hi hp₀ev (by rw [Ev.acc?_tid hai, hcr, hx]; rfl)
  have h3 : HB tr q j := HB.po hqj hq hj (by rw [Ev.acc?_tid haj]; rfl)
  exact .trans (.trans h1 hhb) h3

/-- an init-phase access cannot come after an access of another thread to the same object -/
theorem foreign_not_before_init {S : Setup Loc Tok} {disc : Loc → Discipline Lock} {ini : Nat → Prop}
    {tr : Trace Lock Loc Tok} (c : Conforms S disc ini tr) {i j : Nat} {eᵢ eⱼ : Ev Lock Loc Tok}
    {aᵢ aⱼ : Acc Loc} (hij : i < j) (hi : tr[i]? = some eᵢ) (hj : tr[j]? = some eⱼ)
    (hai : eᵢ.acc? = some aᵢ) (haj : eⱼ.acc? = some aⱼ) (hx : S.owner aᵢ.x = S.owner aⱼ.x)
    (hne : aᵢ.t ≠ aⱼ.t) (hini : ini j) : False := by
  obtain ⟨hcr, hnopub⟩ := c.init_by_creator j eⱼ aⱼ hj haj hini
  have hforeign : aᵢ.t ≠ S.creator (S.owner aᵢ.x) := by
    intro h; apply hne; rw [hcr, ← hx, h]
  obtain ⟨q, hqi, hq⟩ := c.foreign_after_receive i eᵢ aᵢ hi hai hforeign
  obtain ⟨p₀, hp₀q, hp₀ev, _⟩ := receive_hb_creator_publish c q aᵢ.t (S.owner aᵢ.x) hq
  apply hnopub p₀ (Nat.le_of_lt (Nat.lt_trans hp₀q (Nat.lt_trans hqi hij)))
  rw [hp₀ev, hcr, hx]

/-- **Main theorem.**  A well-formed trace (of any number of threads, any client program) that
conforms to a discipline table has no data race. -/
theorem disciplined_raceFree {S : Setup Loc Tok} {disc : Loc → Discipline Lock} {ini : Nat → Prop}
    {tr : Trace Lock Loc Tok} (wf : WellFormed tr) (c : Conforms S disc ini tr) : RaceFree tr := by
  intro i j ⟨hij, eᵢ, eⱼ, aᵢ, aⱼ, hi, hj, hai, haj, ⟨hx, hne, hw, hna⟩, hnhb⟩
  apply hnhb
  have hown : S.owner aᵢ.x = S.owner aⱼ.x := by rw [hx]
  by_cases hini_i : ini i
  · exact init_hb_foreign c hi hj hai haj hown hne hini_i
  by_cases hini_j : ini j
  · exact (foreign_not_before_init c hij hi hj hai haj hown hne hini_j).elim
  have oi := c.disciplined i eᵢ aᵢ hi hai hini_i
  have oj := c.disciplined j eⱼ aⱼ hj haj hini_j
  rw [← hx] at oj
  have hti := Ev.acc?_tid hai
  have htj := Ev.acc?_tid haj
  cases hd : disc aᵢ.x with
  | atomicOnly =>
    rw [hd] at oi oj
    exact (hna ⟨oi, oj⟩).elim
  | readOnly =>
    rw [hd] at oi oj
    simp only [Obeys] at oi oj
    rcases hw with h | h
    · rw [oi] at h; cases h
    · rw [oj] at h; cases h
  | threadLocal t =>
    rw [hd] at oi oj
    simp only [Obeys] at oi oj
    exact (hne (oi.trans oj.symm)).elim
  | lockProtected l =>
    rw [hd] at oi oj
    simp only [Obeys] at oi oj
    cases hwi : aᵢ.w <;> cases hwj : aⱼ.w <;> simp only [hwi, hwj] at oi oj hw
    · rcases hw with h | h <;> cases h
    · rcases oi with oi | oi
      · exact lock_orders wf hij hne hi hj hti htj (.inr rfl) oi oj
      · exact lock_orders wf hij hne hi hj hti htj (.inr rfl) oi oj
    · rcases oj with oj | oj
      · exact lock_orders wf hij hne hi hj hti htj (.inl rfl) oi oj
      · exact lock_orders wf hij hne hi hj hti htj (.inl rfl) oi oj
    · exact lock_orders wf hij hne hi hj hti htj (.inl rfl) oi oj

/-! ### Hand-off: values passed through a disciplined object are published with a happens-before edge -/

/-- Through a lock: what a thread did before storing into `x` under `l` happens before what another
thread does after loading `x` under `l` later in the trace. -/
theorem handoff_lock {tr : Trace Lock Loc Tok} (wf : WellFormed tr) {i₀ i j j₀ : Nat} {t t' : Tid} {l : Lock}
    {m : Mode} {e₀ eᵢ eⱼ e₁ : Ev Lock Loc Tok}
    (h0 : tr[i₀]? = some e₀) (hi : tr[i]? = some eᵢ) (hj : tr[j]? = some eⱼ) (h1 : tr[j₀]? = some e₁)
    (ht0 : e₀.tid = t) (hti : eᵢ.tid = t) (htj : eⱼ.tid = t') (ht1 : e₁.tid = t')
    (hi0 : i₀ < i) (hij : i < j) (hj1 : j < j₀) (hne : t ≠ t')
    (hw : HoldsAt tr i t l .excl) (hr : HoldsAt tr j t' l m) : HB tr i₀ j₀ :=
  .trans (.trans (HB.po hi0 h0 hi (ht0.trans hti.symm)) (lock_orders wf hij hne hi hj hti htj (.inl rfl) hw hr))
    (HB.po hj1 hj h1 (htj.trans ht1.symm))

/-- Through an atomic location (e.g. the CAS that links a queue node, and the load that finds it). -/
theorem handoff_atomic {tr : Trace Lock Loc Tok} {i₀ i j j₀ : Nat} {t t' : Tid} {x : Loc} {w' : Bool}
    {e₀ e₁ : Ev Lock Loc Tok}
    (h0 : tr[i₀]? = some e₀) (hi : tr[i]? = some (.atomic t x true)) (hj : tr[j]? = some (.atomic t' x w'))
    (h1 : tr[j₀]? = some e₁) (ht0 : e₀.tid = t) (ht1 : e₁.tid = t')
    (hi0 : i₀ < i) (hij : i < j) (hj1 : j < j₀) : HB tr i₀ j₀ :=
  .trans (.trans (HB.po hi0 h0 hi ht0) (HB.sync hij hi hj (.atomic t t' x w'))) (HB.po hj1 hj h1 ht1.symm)

end
end Ekit.Conc.Lockset
