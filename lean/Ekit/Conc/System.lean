/-
Transition systems, histories and linearizability (core Lean only).

* `System σ ι`: `init`, executable `step : σ → ι → Option σ` (deterministic per label; the
  nondeterminism of a concurrent program is the choice of the label, which names the thread that
  moves and, where the runtime chooses, what it chose).  Thread ids are `Nat`, so the number of
  threads is unbounded; per-thread program counters live in the state.
* `Reachable`, `invariant_induction`.
* Objects: labels are observable as invocation / response events (`obs`); the *history* of a run is
  the list of its observable events.
* Linearizability is defined by the **canonical atomic automaton** of a sequential specification:
  a thread is `idle`, `pending op` (invoked, not yet taken effect), or `done r` (taken effect,
  response `r` not yet returned); `lin t` applies the pending operation of `t` atomically.  A history
  is linearizable iff it is a history of that automaton.  This is the standard automaton
  characterisation of Herlihy–Wing linearizability (the `lin` steps order the calls; a `lin` step
  lies between its call's invocation and response, so real-time precedence is respected; pending
  calls may or may not have taken effect).  Sequential specifications are relations, so that
  blocking (`enabled`), nondeterministic answers ("a minimum") and effect-free failures
  (context errors) are expressible.
* `forward_simulation`: the proof principle used for every concurrent object of C06–C14.
-/
namespace Ekit.Conc

structure System (σ ι : Type) where
  init : σ
  step : σ → ι → Option σ

namespace System
variable {σ ι : Type}

def run (S : System σ ι) (s : σ) : List ι → Option σ
  | [] => some s
  | l :: ls => match S.step s l with
    | none => none
    | some s' => S.run s' ls

inductive Reachable (S : System σ ι) : σ → Prop where
  | init : Reachable S S.init
  | step {s s' l} : Reachable S s → S.step s l = some s' → Reachable S s'

theorem invariant_induction (S : System σ ι) (Inv : σ → Prop)
    (h0 : Inv S.init) (hstep : ∀ s l s', Inv s → S.step s l = some s' → Inv s') :
    ∀ s, S.Reachable s → Inv s := by
  intro s hr
  induction hr with
  | init => exact h0
  | step _ hs ih => exact hstep _ _ _ ih hs

theorem run_append (S : System σ ι) (s : σ) (a b : List ι) :
    S.run s (a ++ b) = (S.run s a).bind (fun s' => S.run s' b) := by
  induction a generalizing s with
  | nil => rfl
  | cons l ls ih =>
    simp only [List.cons_append, run]
    cases S.step s l with
    | none => rfl
    | some s' => exact ih s'

theorem reachable_of_run (S : System σ ι) {s s' : σ} (ls : List ι)
    (hr : S.Reachable s) (h : S.run s ls = some s') : S.Reachable s' := by
  induction ls generalizing s with
  | nil => simp [run] at h; exact h ▸ hr
  | cons l ls ih =>
    simp only [run] at h
    cases hs : S.step s l with
    | none => simp [hs] at h
    | some s1 => simp [hs] at h; exact ih (Reachable.step hr hs) h

theorem run_of_reachable (S : System σ ι) {s : σ} (hr : S.Reachable s) :
    ∃ ls, S.run S.init ls = some s := by
  induction hr with
  | init => exact ⟨[], rfl⟩
  | step _ hs ih =>
    obtain ⟨ls, h⟩ := ih
    rename_i s0 s1 l _
    refine ⟨ls ++ [l], ?_⟩
    rw [run_append, h]
    simp [run, hs]

end System

/-! ### Observable events and histories -/

inductive Ev (Op Ret : Type) where
  | inv (t : Nat) (op : Op)
  | res (t : Nat) (r : Ret)
  deriving Repr, DecidableEq

/-- a system whose labels may be observable as call/return events of an object -/
structure ObjSystem (σ ι Op Ret : Type) extends System σ ι where
  obs : ι → Option (Ev Op Ret)

def ObjSystem.history {σ ι Op Ret} (S : ObjSystem σ ι Op Ret) (ls : List ι) : List (Ev Op Ret) :=
  ls.filterMap S.obs

/-! ### Sequential specifications and the canonical atomic automaton -/

/-- `apply s op s' r`: in state `s`, operation `op` may take effect atomically, leaving `s'` and
    answering `r`.  A blocking operation is one with no `(s', r)` in some states. -/
structure SeqSpec (S Op Ret : Type) where
  init : S
  apply : S → Op → S → Ret → Prop

inductive TStatus (Op Ret : Type) where
  | idle
  | pending (op : Op)
  | done (r : Ret)

structure AState (S Op Ret : Type) where
  s : S
  th : Nat → TStatus Op Ret

inductive ALabel (S Op Ret : Type) where
  | inv (t : Nat) (op : Op)
  | lin (t : Nat) (s' : S) (r : Ret)     -- the spec's nondeterministic choice is part of the label
  | res (t : Nat) (r : Ret)

def upd {α : Type} (f : Nat → α) (t : Nat) (a : α) : Nat → α := fun u => if u = t then a else f u

@[simp] theorem upd_same {α : Type} (f : Nat → α) (t : Nat) (a : α) : upd f t a t = a := by simp [upd]
@[simp] theorem upd_other {α : Type} (f : Nat → α) (t u : Nat) (a : α) (h : u ≠ t) : upd f t a u = f u := by
  simp [upd, h]

/-- the canonical automaton's transition relation -/
inductive AStep {S Op Ret : Type} (spec : SeqSpec S Op Ret) :
    AState S Op Ret → ALabel S Op Ret → AState S Op Ret → Prop where
  | inv {a t op} : a.th t = .idle → AStep spec a (.inv t op) ⟨a.s, upd a.th t (.pending op)⟩
  | lin {a t op s' r} : a.th t = .pending op → spec.apply a.s op s' r →
      AStep spec a (.lin t s' r) ⟨s', upd a.th t (.done r)⟩
  | res {a t r} : a.th t = .done r → AStep spec a (.res t r) ⟨a.s, upd a.th t .idle⟩

def ALabel.obs {S Op Ret : Type} : ALabel S Op Ret → Option (Ev Op Ret)
  | .inv t op => some (.inv t op)
  | .lin _ _ _ => none
  | .res t r => some (.res t r)

inductive ARun {S Op Ret : Type} (spec : SeqSpec S Op Ret) :
    AState S Op Ret → List (ALabel S Op Ret) → AState S Op Ret → Prop where
  | nil {a} : ARun spec a [] a
  | cons {a b c l ls} : AStep spec a l b → ARun spec b ls c → ARun spec a (l :: ls) c

theorem ARun.append {S Op Ret : Type} {spec : SeqSpec S Op Ret} {a b c : AState S Op Ret}
    {l1 l2 : List (ALabel S Op Ret)} (h1 : ARun spec a l1 b) (h2 : ARun spec b l2 c) :
    ARun spec a (l1 ++ l2) c := by
  induction h1 with
  | nil => exact h2
  | cons hs _ ih => exact ARun.cons hs (ih h2)

def AInit {S Op Ret : Type} (spec : SeqSpec S Op Ret) : AState S Op Ret := ⟨spec.init, fun _ => .idle⟩

/-- **Linearizability** of a history w.r.t. a sequential specification. -/
def Linearizable {S Op Ret : Type} (spec : SeqSpec S Op Ret) (h : List (Ev Op Ret)) : Prop :=
  ∃ (ls : List (ALabel S Op Ret)) (a : AState S Op Ret),
    ARun spec (AInit spec) ls a ∧ ls.filterMap ALabel.obs = h

/-- **Forward simulation.**  If a relation `R` between concrete states and states of the canonical
    automaton holds initially and every concrete step can be matched by abstract steps with the
    same observable events, every history of the concrete object is linearizable. -/
theorem forward_simulation {σ ι S Op Ret : Type} (C : ObjSystem σ ι Op Ret) (spec : SeqSpec S Op Ret)
    (R : σ → AState S Op Ret → Prop)
    (hinit : R C.init (AInit spec))
    (hstep : ∀ s a l s', C.Reachable s → R s a → C.step s l = some s' →
      ∃ als a', ARun spec a als a' ∧ R s' a' ∧ als.filterMap ALabel.obs = (C.obs l).toList)
    (ls : List ι) (s : σ) (hrun : C.run C.init ls = some s) :
    Linearizable spec (C.history ls) := by
  suffices H : ∀ (ls : List ι) (s0 s : σ) (a0 : AState S Op Ret), C.Reachable s0 → R s0 a0 →
      C.run s0 ls = some s →
      ∃ als a, ARun spec a0 als a ∧ als.filterMap ALabel.obs = C.history ls by
    obtain ⟨als, a, h1, h2⟩ := H ls C.init s (AInit spec) System.Reachable.init hinit hrun
    exact ⟨als, a, h1, h2⟩
  intro ls
  induction ls with
  | nil =>
    intro s0 s a0 _ _ _
    exact ⟨[], a0, ARun.nil, rfl⟩
  | cons l rest ih =>
    intro s0 s a0 hreach hR hrun
    simp only [System.run] at hrun
    cases hs : C.step s0 l with
    | none => simp [hs] at hrun
    | some s1 =>
      simp only [hs] at hrun
      obtain ⟨als1, a1, hrun1, hR1, hobs1⟩ := hstep s0 a0 l s1 hreach hR hs
      obtain ⟨als2, a2, hrun2, hobs2⟩ := ih s1 s a1 (System.Reachable.step hreach hs) hR1 hrun
      refine ⟨als1 ++ als2, a2, ARun.append hrun1 hrun2, ?_⟩
      simp only [List.filterMap_append, hobs1, hobs2, ObjSystem.history, List.filterMap_cons]
      cases C.obs l <;> simp

end Ekit.Conc
