/-
Automaton linearizability ⇒ Herlihy–Wing linearizability (and well-formedness).

The `lin` steps of a run of the canonical automaton, in order, are the linearization.  The proof is an
invariant `Inv h p a F` of the run: after the first `p` events of the (fixed, complete) history `h`,
in automaton state `a`, with `F` the list of `lin` steps so far — each recorded with the thread, the
operation, the position of the invocation it belongs to, and its result.
-/
import Ekit.Conc.HerlihyWingLemmas
namespace Ekit.Conc
namespace HW
variable {S Op Ret : Type}

/-- a `lin` step that has happened: thread, operation, position of the invocation, result -/
structure Fired (Op Ret : Type) where
  thread : Nat
  op : Op
  inv : Nat
  ret : Ret

def firedOf (F : List (Fired Op Ret)) (i : Nat) (r : Ret) : Prop := ∃ f ∈ F, f.inv = i ∧ f.ret = r

/-- the two well-formedness conditions at position `q` -/
def WFAt (h : List (Ev Op Ret)) (q : Nat) : Prop :=
  (∀ t op, h[q]? = some (.inv t op) → ¬ PendingAt h t q) ∧
  (∀ t r, h[q]? = some (.res t r) → PendingAt h t q)

structure Inv (spec : SeqSpec S Op Ret) (h : List (Ev Op Ret)) (p : Nat) (a : AState S Op Ret)
    (F : List (Fired Op Ret)) : Prop where
  thr : ∀ t, ThreadOK h p (firedOf F) t (a.th t)
  isInv : ∀ f ∈ F, f.inv < p ∧ h[f.inv]? = some (.inv f.thread f.op)
  status : ∀ f ∈ F, Quiet h f.thread f.inv p ∨ ∃ j, j < p ∧ Resp h f.thread f.inv j f.ret
  complete : ∀ i t op j r, h[i]? = some (.inv t op) → Resp h t i j r → j < p → ⟨t, op, i, r⟩ ∈ F
  nodup : (F.map (·.inv)).Nodup
  legal : LegalTo spec spec.init (F.map fun f => (f.op, f.ret)) a.s
  order : F.Pairwise fun f₁ f₂ => ¬ ∃ j r, Resp h f₂.thread f₂.inv j r ∧ j < f₁.inv
  wf : ∀ q, q < p → WFAt h q

theorem Inv.init (spec : SeqSpec S Op Ret) (h : List (Ev Op Ret)) : Inv spec h 0 (AInit spec) [] where
  thr := fun t => by
    rintro ⟨i, op, hi, _⟩
    omega
  isInv := fun f hf => by cases hf
  status := fun f hf => by cases hf
  complete := fun i t op j r _ _ hj => by omega
  nodup := List.nodup_nil
  legal := rfl
  order := List.Pairwise.nil
  wf := fun q hq => by omega

theorem Inv.step_inv {spec : SeqSpec S Op Ret} {h : List (Ev Op Ret)} {p : Nat} {a : AState S Op Ret}
    {F : List (Fired Op Ret)} {t : Nat} {op : Op} (I : Inv spec h p a F)
    (he : h[p]? = some (.inv t op)) (hidle : a.th t = .idle) :
    Inv spec h (p + 1) ⟨a.s, upd a.th t (.pending op)⟩ F := by
  have hnp : ¬ PendingAt h t p := by have := I.thr t; rw [hidle] at this; exact this
  refine ⟨?_, ?_, ?_, ?_, I.nodup, I.legal, I.order, ?_⟩
  · intro u
    by_cases hu : u = t
    · subst hu
      simp only [upd_same]
      refine threadOK_step_inv he ?_
      rintro r ⟨f, hf, hi, _⟩
      have := (I.isInv f hf).1
      omega
    · simp only [upd_other _ _ _ _ hu]
      exact threadOK_step_other he (by simpa using Ne.symm hu) (I.thr u)
  · intro f hf
    exact ⟨by have := (I.isInv f hf).1; omega, (I.isInv f hf).2⟩
  · intro f hf
    rcases I.status f hf with hq | ⟨j, hj, hr⟩
    · left
      refine hq.succ he ?_
      simp only [thread_inv]
      intro hft
      subst hft
      exact hnp ⟨f.inv, f.op, (I.isInv f hf).1, (I.isInv f hf).2, hq⟩
    · exact Or.inr ⟨j, by omega, hr⟩
  · intro i t' op' j r hi hr hj
    by_cases hjp : j = p
    · subst hjp; have := hr.2.1; rw [he] at this; cases this
    · exact I.complete i t' op' j r hi hr (by omega)
  · intro q hq
    by_cases hqp : q = p
    · subst hqp
      refine ⟨fun t' op' he' => ?_, fun t' r' he' => ?_⟩
      · rw [he] at he'; cases he'; exact hnp
      · rw [he] at he'; cases he'
    · exact I.wf q (by omega)

theorem Inv.step_res {spec : SeqSpec S Op Ret} {h : List (Ev Op Ret)} {p : Nat} {a : AState S Op Ret}
    {F : List (Fired Op Ret)} {t : Nat} {r : Ret} (I : Inv spec h p a F)
    (he : h[p]? = some (.res t r)) (hdone : a.th t = .done r) :
    Inv spec h (p + 1) ⟨a.s, upd a.th t .idle⟩ F := by
  obtain ⟨i, op, hi, hinv, hq, g, hg, hgi, hgr⟩ :
      ∃ i op, i < p ∧ h[i]? = some (.inv t op) ∧ Quiet h t i p ∧ firedOf F i r := by
    have := I.thr t; rw [hdone] at this; exact this
  have hresp : Resp h t i p r := ⟨hi, he, hq⟩
  -- every fired entry of thread `t` that is still open is `g`
  have hopen : ∀ f ∈ F, f.thread = t → Quiet h f.thread f.inv p → f = g := by
    intro f hf hft hfq
    have h1 := I.isInv f hf
    rw [hft] at h1 hfq
    have : f.inv = i := pending_unique h1.2 hinv h1.1 hi hfq hq
    exact mem_unique I.nodup hf hg (by rw [this, hgi])
  refine ⟨?_, ?_, ?_, ?_, I.nodup, I.legal, I.order, ?_⟩
  · intro u
    by_cases hu : u = t
    · subst hu
      simp only [upd_same]
      exact threadOK_step_res he
    · simp only [upd_other _ _ _ _ hu]
      exact threadOK_step_other he (by simpa using Ne.symm hu) (I.thr u)
  · intro f hf
    exact ⟨by have := (I.isInv f hf).1; omega, (I.isInv f hf).2⟩
  · intro f hf
    rcases I.status f hf with hfq | ⟨j, hj, hr⟩
    · by_cases hft : f.thread = t
      · right
        have := hopen f hf hft hfq
        subst this
        refine ⟨p, Nat.lt_succ_self _, ?_⟩
        have h1 := (I.isInv f hf).2
        rw [hft, hgi, hgr]
        exact hresp
      · exact Or.inl (hfq.succ he (by simpa using Ne.symm hft))
    · exact Or.inr ⟨j, by omega, hr⟩
  · intro i' t' op' j r' hi' hr' hj
    by_cases hjp : j = p
    · subst hjp
      have h2 := hr'.2.1
      rw [he] at h2; cases h2
      have : i' = i := pending_unique hi' hinv hr'.1 hi hr'.2.2 hq
      subst this
      rw [hinv] at hi'; cases hi'
      -- the entry is `g`
      have hg' := (I.isInv g hg).2
      rw [hgi, hinv] at hg'
      cases hg'
      obtain ⟨gt, gop, gi, gr⟩ := g
      simp only at hgi hgr
      subst hgi; subst hgr
      exact hg
    · exact I.complete i' t' op' j r' hi' hr' (by omega)
  · intro q hqlt
    by_cases hqp : q = p
    · subst hqp
      refine ⟨fun t' op' he' => ?_, fun t' r' he' => ?_⟩
      · rw [he] at he'; cases he'
      · rw [he] at he'; cases he'; exact ⟨i, op, hi, hinv, hq⟩
    · exact I.wf q (by omega)

theorem Inv.step_lin {spec : SeqSpec S Op Ret} {h : List (Ev Op Ret)} {p : Nat} {a : AState S Op Ret}
    {F : List (Fired Op Ret)} {t : Nat} {op : Op} {s' : S} {r : Ret} (I : Inv spec h p a F)
    (hpend : a.th t = .pending op) (happ : spec.apply a.s op s' r) :
    ∃ i, Inv spec h p ⟨s', upd a.th t (.done r)⟩ (F ++ [⟨t, op, i, r⟩]) := by
  obtain ⟨i, hi, hinv, hq, hnf⟩ :
      ∃ i, i < p ∧ h[i]? = some (.inv t op) ∧ Quiet h t i p ∧ ∀ r, ¬ firedOf F i r := by
    have := I.thr t; rw [hpend] at this; exact this
  refine ⟨i, ?_, ?_, ?_, ?_, ?_, ?_, ?_, I.wf⟩
  · intro u
    by_cases hu : u = t
    · subst hu
      simp only [upd_same]
      exact ⟨i, op, hi, hinv, hq, ⟨u, op, i, r⟩, by simp, rfl, rfl⟩
    · simp only [upd_other _ _ _ _ hu]
      refine threadOK_fire_other (t := t) hu ?_ ?_ (I.thr u)
      · rintro i' r' ⟨f, hf, h1, h2⟩
        exact ⟨f, by simp [hf], h1, h2⟩
      · rintro i' r' ⟨f, hf, h1, h2⟩
        rcases List.mem_append.mp hf with hf | hf
        · exact Or.inl ⟨f, hf, h1, h2⟩
        · simp only [List.mem_singleton] at hf
          subst hf
          simp only at h1
          subst h1
          exact Or.inr ⟨op, hinv⟩
  · intro f hf
    rcases List.mem_append.mp hf with hf | hf
    · exact I.isInv f hf
    · simp only [List.mem_singleton] at hf
      subst hf
      exact ⟨hi, hinv⟩
  · intro f hf
    rcases List.mem_append.mp hf with hf | hf
    · exact I.status f hf
    · simp only [List.mem_singleton] at hf
      subst hf
      exact Or.inl hq
  · intro i' t' op' j r' hi' hr' hj
    exact List.mem_append_left _ (I.complete i' t' op' j r' hi' hr' hj)
  · rw [List.map_append, List.nodup_append]
    refine ⟨I.nodup, by simp, ?_⟩
    intro x hx y hy
    simp only [List.map_cons, List.map_nil, List.mem_singleton] at hy
    subst hy
    obtain ⟨f, hf, hfx⟩ := List.mem_map.mp hx
    intro hxi
    exact hnf f.ret ⟨f, hf, by rw [hfx, hxi], rfl⟩
  · rw [List.map_append]
    exact I.legal.snoc happ
  · rw [List.pairwise_append]
    refine ⟨I.order, List.pairwise_singleton _ _, ?_⟩
    intro f hf g hg
    simp only [List.mem_singleton] at hg
    subst hg
    rintro ⟨j, r', hr', hj⟩
    have := (I.isInv f hf).1
    exact hr'.not_quiet (by omega) hq

/-- the invariant is preserved along a run -/
theorem inv_run {spec : SeqSpec S Op Ret} {b c : AState S Op Ret} {suf : List (ALabel S Op Ret)}
    (hrun : ARun spec b suf c) :
    ∀ (hpre : List (Ev Op Ret)) (F : List (Fired Op Ret)),
      Inv spec (hpre ++ suf.filterMap ALabel.obs) hpre.length b F →
      ∃ F', Inv spec (hpre ++ suf.filterMap ALabel.obs) (hpre ++ suf.filterMap ALabel.obs).length c F' := by
  induction hrun with
  | nil =>
    intro hpre F I
    exact ⟨F, by simpa using I⟩
  | cons hs hrest ih =>
    rename_i a b c l ls
    intro hpre F I
    cases hs with
    | inv hidle =>
      rename_i t op
      have e : hpre ++ (ALabel.inv t op :: ls).filterMap ALabel.obs
          = (hpre ++ [Ev.inv t op]) ++ ls.filterMap ALabel.obs := by simp [ALabel.obs]
      rw [e] at I ⊢
      have he : ((hpre ++ [Ev.inv t op]) ++ ls.filterMap ALabel.obs)[hpre.length]?
          = some (Ev.inv t op) := by simp
      have I' := I.step_inv he hidle
      exact ih (hpre ++ [Ev.inv t op]) F (by simpa using I')
    | lin hpend happ =>
      rename_i t op s' r
      have e : hpre ++ (ALabel.lin t s' r :: ls).filterMap ALabel.obs
          = hpre ++ ls.filterMap ALabel.obs := by rw [List.filterMap_cons_none rfl]
      rw [e] at I ⊢
      obtain ⟨i, I'⟩ := I.step_lin hpend happ
      exact ih hpre _ I'
    | res hdone =>
      rename_i t r
      have e : hpre ++ (ALabel.res t r :: ls).filterMap ALabel.obs
          = (hpre ++ [Ev.res t r]) ++ ls.filterMap ALabel.obs := by simp [ALabel.obs]
      rw [e] at I ⊢
      have he : ((hpre ++ [Ev.res t r]) ++ ls.filterMap ALabel.obs)[hpre.length]?
          = some (Ev.res t r) := by simp
      have I' := I.step_res he hdone
      exact ih (hpre ++ [Ev.res t r]) F (by simpa using I')

/-- every linearizable history satisfies the invariant at its end -/
theorem inv_of_linearizable {spec : SeqSpec S Op Ret} {h : List (Ev Op Ret)}
    (hl : Linearizable spec h) : ∃ a F, Inv spec h h.length a F := by
  obtain ⟨ls, a, hrun, hobs⟩ := hl
  have := inv_run hrun [] [] (by simpa using Inv.init spec _)
  simp only [List.nil_append, hobs] at this
  obtain ⟨F, hF⟩ := this
  exact ⟨a, F, hF⟩

/-! ### From the invariant at the end of the history to the Herlihy–Wing statement -/

theorem wellFormedPos_of_inv {spec : SeqSpec S Op Ret} {h : List (Ev Op Ret)} {a : AState S Op Ret}
    {F : List (Fired Op Ret)} (I : Inv spec h h.length a F) : WellFormedPos h := by
  intro p
  by_cases hp : p < h.length
  · exact I.wf p hp
  · have : h[p]? = none := List.getElem?_eq_none (by omega)
    refine ⟨fun t op he => ?_, fun t r he => ?_⟩ <;> rw [this] at he <;> cases he

def toFired (x : Call Op Ret × Ret) : Fired Op Ret := ⟨x.1.thread, x.1.op, x.1.inv, x.2⟩

/-- turn the recorded `lin` steps into calls of the complete history -/
theorem exists_calls {h : List (Ev Op Ret)} (F : List (Fired Op Ret))
    (hF : ∀ f ∈ F, h[f.inv]? = some (.inv f.thread f.op) ∧
      (Quiet h f.thread f.inv h.length ∨ ∃ j, Resp h f.thread f.inv j f.ret)) :
    ∃ L : List (Call Op Ret × Ret), L.map toFired = F ∧
      ∀ x ∈ L, IsCall h x.1 ∧ ∀ j r, x.1.res = some (j, r) → x.2 = r := by
  induction F with
  | nil => exact ⟨[], rfl, fun x hx => by cases hx⟩
  | cons f rest ih =>
    obtain ⟨L, hL, hcalls⟩ := ih (fun g hg => hF g (List.mem_cons_of_mem _ hg))
    obtain ⟨hinv, hst⟩ := hF f (List.mem_cons_self)
    rcases hst with hq | ⟨j, hr⟩
    · refine ⟨(⟨f.thread, f.op, f.inv, none⟩, f.ret) :: L, by simp [toFired, hL], ?_⟩
      intro x hx
      rcases List.mem_cons.mp hx with rfl | hx
      · exact ⟨⟨hinv, hq⟩, fun j r hjr => by cases hjr⟩
      · exact hcalls x hx
    · refine ⟨(⟨f.thread, f.op, f.inv, some (j, f.ret)⟩, f.ret) :: L, by simp [toFired, hL], ?_⟩
      intro x hx
      rcases List.mem_cons.mp hx with rfl | hx
      · exact ⟨⟨hinv, hr⟩, fun j r hjr => by cases hjr; rfl⟩
      · exact hcalls x hx

theorem hw_of_inv {spec : SeqSpec S Op Ret} {h : List (Ev Op Ret)} {a : AState S Op Ret}
    {F : List (Fired Op Ret)} (I : Inv spec h h.length a F) : HWLinearizable spec h := by
  obtain ⟨L, hL, hcalls⟩ := exists_calls (h := h) F (fun f hf => ⟨(I.isInv f hf).2, by
    rcases I.status f hf with hq | ⟨j, _, hr⟩
    · exact Or.inl hq
    · exact Or.inr ⟨j, hr⟩⟩)
  have hinvmap : L.map (·.1.inv) = F.map (·.inv) := by
    rw [← hL, List.map_map]; rfl
  have hnd : (L.map (·.1.inv)).Nodup := by rw [hinvmap]; exact I.nodup
  refine ⟨L, hcalls, hnd, ?_, ?_, ?_⟩
  · intro c hc hsome
    cases hres : c.res with
    | none => rw [hres] at hsome; cases hsome
    | some jr =>
      obtain ⟨j, r⟩ := jr
      have hr := hc.resp hres
      have hmem := I.complete c.inv c.thread c.op j r hc.1 hr hr.lt_length
      rw [← hL] at hmem
      obtain ⟨x, hx, hxf⟩ := List.mem_map.mp hmem
      refine ⟨r, ?_⟩
      have hxinv : x.1.inv = c.inv := by
        have := congrArg Fired.inv hxf; exact this
      have hxr : x.2 = r := by
        have := congrArg Fired.ret hxf; exact this
      have : x.1 = c := (hcalls x hx).1.ext hc hxinv
      obtain ⟨x1, x2⟩ := x
      simp only at this hxr
      subst this; subst hxr
      exact hx
  · have : (L.map fun x => (x.1.op, x.2)) = F.map fun f => (f.op, f.ret) := by
      rw [← hL, List.map_map]; rfl
    rw [this]
    exact I.legal.legal
  · intro x y hx hy hprec
    have hne : x ≠ y := by
      intro hxy
      exact hprec.ne (hcalls x hx).1 (congrArg Prod.fst hxy)
    rcases before_total hx hy hne with hb | hb
    · exact hb
    · exfalso
      have hpw : L.Pairwise fun x₁ x₂ =>
          ¬ ∃ j r, Resp h x₂.1.thread x₂.1.inv j r ∧ j < x₁.1.inv := by
        have := I.order
        rw [← hL, List.pairwise_map] at this
        exact this
      have := pairwise_before hpw hb
      obtain ⟨j, r, hr, hlt⟩ := hprec
      exact this ⟨j, r, (hcalls x hx).1.resp hr, hlt⟩

end HW
end Ekit.Conc
