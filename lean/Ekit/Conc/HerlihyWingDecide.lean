/-
Executable companions of the Herlihy–Wing definitions, for checking concrete histories by `decide`:
`Quiet`, `Resp`, `IsCall` are decidable, and `completedCalls h` enumerates the completed calls of `h`.
-/
import Ekit.Conc.HerlihyWingLemmas
namespace Ekit.Conc
namespace HW
variable {Op Ret : Type}

def quietB (h : List (Ev Op Ret)) (t i j : Nat) : Bool :=
  (List.range j).all fun k =>
    decide (k ≤ i) || match h[k]? with
      | some e => e.thread != t
      | none => true

theorem quietB_iff {h : List (Ev Op Ret)} {t i j : Nat} : quietB h t i j = true ↔ Quiet h t i j := by
  simp only [quietB, List.all_eq_true, List.mem_range, Bool.or_eq_true, decide_eq_true_eq]
  constructor
  · intro H k e h1 h2 hk
    rcases H k h2 with h | h
    · omega
    · rw [hk] at h; simpa using h
  · intro H k hk
    by_cases hki : k ≤ i
    · exact Or.inl hki
    · right
      cases hk' : h[k]? with
      | none => rfl
      | some e => simpa using H k e (by omega) hk hk'

instance (h : List (Ev Op Ret)) (t i j : Nat) : Decidable (Quiet h t i j) :=
  decidable_of_iff _ quietB_iff

instance [DecidableEq Op] [DecidableEq Ret] (h : List (Ev Op Ret)) (t i j : Nat) (r : Ret) :
    Decidable (Resp h t i j r) := by unfold Resp; exact inferInstance

instance [DecidableEq Op] [DecidableEq Ret] (h : List (Ev Op Ret)) (c : Call Op Ret) :
    Decidable (IsCall h c) := by
  unfold IsCall
  cases c.res with
  | none => exact inferInstance
  | some jr => exact inferInstance

/-- the completed calls of `h` (in order of invocation) -/
def completedCalls (h : List (Ev Op Ret)) : List (Call Op Ret) :=
  (List.range h.length).flatMap fun i => (List.range h.length).filterMap fun j =>
    match h[i]?, h[j]? with
    | some (Ev.inv t op), some (Ev.res t' r) =>
      if t = t' ∧ i < j ∧ quietB h t i j = true then some ⟨t, op, i, some (j, r)⟩ else none
    | _, _ => none

theorem mem_completedCalls {h : List (Ev Op Ret)} {c : Call Op Ret} (hc : IsCall h c)
    (hs : c.res.isSome) : c ∈ completedCalls h := by
  obtain ⟨t, op, i, res⟩ := c
  cases res with
  | none => cases hs
  | some jr =>
    obtain ⟨j, r⟩ := jr
    have hr := hc.resp rfl
    have hinv := hc.1
    simp only at hr hinv
    simp only [completedCalls, List.mem_flatMap, List.mem_range, List.mem_filterMap]
    refine ⟨i, inv_lt_length hinv, j, hr.lt_length, ?_⟩
    rw [hinv, hr.2.1]
    simp [hr.1, quietB_iff.mpr hr.2.2]

/-- to check that `L` contains all completed calls it suffices to look at `completedCalls h` -/
theorem complete_of_completedCalls {h : List (Ev Op Ret)} {L : List (Call Op Ret × Ret)}
    (H : ∀ c ∈ completedCalls h, c ∈ L.map (·.1)) :
    ∀ c, IsCall h c → c.res.isSome → ∃ r, (c, r) ∈ L := by
  intro c hc hs
  obtain ⟨x, hx, rfl⟩ := List.mem_map.mp (H c (mem_completedCalls hc hs))
  exact ⟨x.2, hx⟩

instance (c₁ c₂ : Call Op Ret) : Decidable (Precedes c₁ c₂) :=
  match h : c₁.res with
  | none => isFalse (by rintro ⟨j, r, hr, _⟩; rw [h] at hr; cases hr)
  | some (j, r) =>
    if hlt : j < c₂.inv then isTrue ⟨j, r, h, hlt⟩
    else isFalse (by rintro ⟨j', r', hr, hlt'⟩; rw [h] at hr; cases hr; exact hlt hlt')

/-- to check the real-time order condition it suffices that no later entry of `L` precedes an
    earlier one -/
theorem order_of_pairwise {h : List (Ev Op Ret)} {L : List (Call Op Ret × Ret)}
    (hcalls : ∀ x ∈ L, IsCall h x.1) (hp : L.Pairwise fun x y => ¬ Precedes y.1 x.1) :
    ∀ x y, x ∈ L → y ∈ L → Precedes x.1 y.1 → Before L x y := by
  intro x y hx hy hprec
  have hne : x ≠ y := fun hxy => hprec.ne (hcalls x hx) (congrArg Prod.fst hxy)
  rcases before_total hx hy hne with hb | hb
  · exact hb
  · exact absurd hprec (pairwise_before hp hb)

theorem before_asymm {α : Type} {key : α → Nat} {L : List α} (hnd : (L.map key).Nodup) {x y : α}
    (h1 : Before L x y) (h2 : Before L y x) : False := by
  obtain ⟨i, j, hij, hi, hj⟩ := h1
  obtain ⟨j', i', hji, hj', hi'⟩ := h2
  have := index_unique hnd hi hi' rfl
  have := index_unique hnd hj hj' rfl
  omega

end HW
end Ekit.Conc
