/-
Small generic additions to `Ekit/Conc/System.lean` (which defines `System`, `run`, `Reachable`,
`invariant_induction`, `run_append`, `reachable_of_run`, `run_of_reachable`).  Nothing
property-specific lives here.
-/
import Ekit.Conc.System

namespace Ekit.Conc

/-- thread identifiers: natural numbers, so the number of threads is unbounded -/
abbrev Tid := Nat

namespace System
variable {σ ι : Type}

/-- reachability = existence of an accepted schedule from the initial state -/
theorem reachable_iff_run {S : System σ ι} {s : σ} : S.Reachable s ↔ ∃ ls, S.run S.init ls = some s :=
  ⟨run_of_reachable S, fun ⟨ls, h⟩ => reachable_of_run S ls .init h⟩

/-- `s'` can be reached from `s` by finitely many enabled steps -/
inductive ReachableFrom (S : System σ ι) (s : σ) : σ → Prop where
  | refl : ReachableFrom S s s
  | step {a b : σ} {l : ι} : ReachableFrom S s a → S.step a l = some b → ReachableFrom S s b

/-- states reachable from a reachable state are reachable -/
theorem Reachable.extend {S : System σ ι} {s s' : σ} (h : S.Reachable s)
    (h' : ReachableFrom S s s') : S.Reachable s' := by
  induction h' with
  | refl => exact h
  | step _ hs ih => exact .step ih hs

/-- the invariant rule from an arbitrary start state -/
theorem invariant_from {S : System σ ι} {Inv : σ → Prop} {s0 : σ} (h0 : Inv s0)
    (hstep : ∀ s l s', Inv s → S.step s l = some s' → Inv s') :
    ∀ s, ReachableFrom S s0 s → Inv s := by
  intro s hr
  induction hr with
  | refl => exact h0
  | step _ hs ih => exact hstep _ _ _ ih hs

end System
end Ekit.Conc
