/-
Herlihy–Wing linearizability (of a well-formed history) ⇒ automaton linearizability.

Given a linearization `L` of `h`, a run of the canonical automaton with history `h` is built by
replaying `h` left to right and firing the `lin` steps of `L` in order, lazily: just before a response
is emitted, every not yet fired call of `L` up to and including the responding call is fired.  The
real-time order condition guarantees that all of them have been invoked by then.

`Sched h L p k a`: after the first `p` events of `h`, with the first `k` calls of `L` fired, the
automaton is in state `a`.
-/
import Ekit.Conc.HerlihyWingLemmas
namespace Ekit.Conc
namespace HW
variable {S Op Ret : Type}

def firedUpto (L : List (Call Op Ret × Ret)) (k : Nat) (i : Nat) (r : Ret) : Prop :=
  ∃ m x, m < k ∧ L[m]? = some x ∧ x.1.inv = i ∧ x.2 = r

structure Sched (spec : SeqSpec S Op Ret) (h : List (Ev Op Ret)) (L : List (Call Op Ret × Ret))
    (p k : Nat) (a : AState S Op Ret) : Prop where
  thr : ∀ t, ThreadOK h p (firedUpto L k) t (a.th t)
  invlt : ∀ m x, m < k → L[m]? = some x → x.1.inv < p
  done : ∀ m x j r, L[m]? = some x → x.1.res = some (j, r) → j < p → m < k
  legal : Legal spec a.s ((L.drop k).map fun x => (x.1.op, x.2))

variable {spec : SeqSpec S Op Ret} {h : List (Ev Op Ret)} {L : List (Call Op Ret × Ret)}

theorem Sched.init (HL : IsLinearization spec h L) : Sched spec h L 0 0 (AInit spec) where
  thr := fun t => by
    rintro ⟨i, op, hi, _⟩
    omega
  invlt := fun m x hm _ => by omega
  done := fun m x j r _ _ hj => by omega
  legal := by simpa [AInit] using HL.legal

/-- fire the next call of `L`, provided it has been invoked -/
theorem Sched.fire_one (HL : IsLinearization spec h L) {p k : Nat} {a : AState S Op Ret}
    (J : Sched spec h L p k a) (hp : p ≤ h.length) {x : Call Op Ret × Ret} (hk : L[k]? = some x)
    (hx : x.1.inv < p) :
    ∃ s', AStep spec a (.lin x.1.thread s' x.2) ⟨s', upd a.th x.1.thread (.done x.2)⟩ ∧
      Sched spec h L p (k + 1) ⟨s', upd a.th x.1.thread (.done x.2)⟩ := by
  have hxmem : x ∈ L := List.mem_of_getElem? hk
  have hc := (HL.calls x hxmem).1
  have hq : Quiet h x.1.thread x.1.inv p := hc.quiet_upto hp (fun j r hres => by
    apply Nat.le_of_not_lt
    intro hlt
    have := J.done k x j r hk hres hlt
    omega)
  have hklt : k < L.length := (List.getElem?_eq_some_iff.mp hk).1
  have hkx : L[k] = x := (List.getElem?_eq_some_iff.mp hk).2
  obtain ⟨hst, hnf⟩ : a.th x.1.thread = .pending x.1.op ∧ ∀ r, ¬ firedUpto L k x.1.inv r := by
    rcases threadOK_of_pending (J.thr x.1.thread) hx hc.1 hq with h1 | ⟨r, _, m, y, hm, hy, hyi, _⟩
    · exact h1
    · have := index_unique HL.nodup hy hk hyi
      omega
  have hleg := J.legal
  rw [List.drop_eq_getElem_cons hklt, hkx, List.map_cons] at hleg
  obtain ⟨s', happ, hleg'⟩ := hleg
  refine ⟨s', AStep.lin hst happ, ?_, ?_, ?_, hleg'⟩
  · intro u
    by_cases hu : u = x.1.thread
    · subst hu
      simp only [upd_same]
      exact ⟨x.1.inv, x.1.op, hx, hc.1, hq, k, x, Nat.lt_succ_self _, hk, rfl, rfl⟩
    · simp only [upd_other _ _ _ _ hu]
      refine threadOK_fire_other (t := x.1.thread) hu ?_ ?_ (J.thr u)
      · rintro i r ⟨m, y, hm, hy, h1, h2⟩
        exact ⟨m, y, by omega, hy, h1, h2⟩
      · rintro i r ⟨m, y, hm, hy, h1, h2⟩
        by_cases hmk : m = k
        · subst hmk
          rw [hk] at hy; cases hy
          exact Or.inr ⟨x.1.op, by rw [← h1]; exact hc.1⟩
        · exact Or.inl ⟨m, y, by omega, hy, h1, h2⟩
  · intro m y hm hy
    by_cases hmk : m = k
    · subst hmk; rw [hk] at hy; cases hy; exact hx
    · exact J.invlt m y (by omega) hy
  · intro m y j r hy hres hj
    have := J.done m y j r hy hres hj
    omega

/-- fire the calls `k, …, n-1` of `L`, provided they have all been invoked -/
theorem Sched.fire_upto (HL : IsLinearization spec h L) {p k : Nat} (hp : p ≤ h.length) (n : Nat) :
    ∀ {a : AState S Op Ret}, Sched spec h L p k a → k ≤ n → n ≤ L.length →
    (∀ m x, k ≤ m → m < n → L[m]? = some x → x.1.inv < p) →
    ∃ ls a', ARun spec a ls a' ∧ ls.filterMap ALabel.obs = [] ∧ Sched spec h L p n a' := by
  induction n with
  | zero =>
    intro a J hkn _ _
    have : k = 0 := by omega
    subst this
    exact ⟨[], a, ARun.nil, rfl, J⟩
  | succ n ih =>
    intro a J hkn hn hinv
    by_cases hk : k = n + 1
    · subst hk
      exact ⟨[], a, ARun.nil, rfl, J⟩
    · obtain ⟨ls, a', hrun, hobs, J'⟩ := ih J (by omega) (by omega)
        (fun m x h1 h2 hm => hinv m x h1 (by omega) hm)
      have hnlt : n < L.length := by omega
      have hLn : L[n]? = some L[n] := List.getElem?_eq_getElem hnlt
      obtain ⟨s', hstep, J''⟩ := J'.fire_one HL hp hLn (hinv n _ (by omega) (Nat.lt_succ_self _) hLn)
      refine ⟨ls ++ [.lin L[n].1.thread s' L[n].2], _, hrun.append (ARun.cons hstep ARun.nil), ?_, J''⟩
      rw [List.filterMap_append, hobs]
      rfl

/-- replay an invocation event -/
theorem Sched.step_inv (HL : IsLinearization spec h L) (W : WellFormedPos h) {p k : Nat} {a : AState S Op Ret}
    (J : Sched spec h L p k a) {t : Nat} {op : Op} (he : h[p]? = some (.inv t op)) :
    AStep spec a (.inv t op) ⟨a.s, upd a.th t (.pending op)⟩ ∧
      Sched spec h L (p + 1) k ⟨a.s, upd a.th t (.pending op)⟩ := by
  have hnp := (W p).1 t op he
  have hidle : a.th t = .idle := by
    have := J.thr t
    cases hst : a.th t with
    | idle => rfl
    | pending op' =>
      rw [hst] at this
      obtain ⟨i, hi, hinv, hq, _⟩ := this
      exact absurd ⟨i, _, hi, hinv, hq⟩ hnp
    | done r =>
      rw [hst] at this
      obtain ⟨i, op', hi, hinv, hq, _⟩ := this
      exact absurd ⟨i, _, hi, hinv, hq⟩ hnp
  refine ⟨AStep.inv hidle, ?_, ?_, ?_, J.legal⟩
  · intro u
    by_cases hu : u = t
    · subst hu
      simp only [upd_same]
      refine threadOK_step_inv he ?_
      rintro r ⟨m, x, hm, hx, hi, _⟩
      have := J.invlt m x hm hx
      omega
    · simp only [upd_other _ _ _ _ hu]
      exact threadOK_step_other he (by simpa using Ne.symm hu) (J.thr u)
  · intro m x hm hx
    have := J.invlt m x hm hx
    omega
  · intro m x j r hx hres hj
    by_cases hjp : j = p
    · subst hjp
      have hr := (HL.calls x (List.mem_of_getElem? hx)).1.resp hres
      have := hr.2.1
      rw [he] at this; cases this
    · exact J.done m x j r hx hres (by omega)

/-- replay a response event whose call has already been fired -/
theorem Sched.step_res_fired (HL : IsLinearization spec h L) {p k : Nat} {a : AState S Op Ret}
    (J : Sched spec h L p k a) {t i m : Nat} {op : Op} {r : Ret} (he : h[p]? = some (.res t r))
    (hi : i < p) (hinv : h[i]? = some (.inv t op)) (hq : Quiet h t i p)
    (hm : L[m]? = some (⟨t, op, i, some (p, r)⟩, r)) (hmk : m < k) :
    AStep spec a (.res t r) ⟨a.s, upd a.th t .idle⟩ ∧
      Sched spec h L (p + 1) k ⟨a.s, upd a.th t .idle⟩ := by
  have hdone : a.th t = .done r := by
    rcases threadOK_of_pending (J.thr t) hi hinv hq with ⟨_, hnf⟩ | ⟨r', hst, m', y, hm', hy, hyi, hyr⟩
    · exact absurd ⟨m, _, hmk, hm, rfl, rfl⟩ (hnf r)
    · have := index_unique HL.nodup hy hm hyi
      subst this
      rw [hm] at hy; cases hy
      simp only at hyr
      rw [hst, hyr]
  refine ⟨AStep.res hdone, ?_, ?_, ?_, J.legal⟩
  · intro u
    by_cases hu : u = t
    · subst hu
      simp only [upd_same]
      exact threadOK_step_res he
    · simp only [upd_other _ _ _ _ hu]
      exact threadOK_step_other he (by simpa using Ne.symm hu) (J.thr u)
  · intro m' x hm' hx
    have := J.invlt m' x hm' hx
    omega
  · intro m' x j r' hx hres hj
    by_cases hjp : j = p
    · subst hjp
      have hc := (HL.calls x (List.mem_of_getElem? hx)).1
      have hr := hc.resp hres
      have h2 := hr.2.1
      rw [he] at h2
      injection h2 with h2
      injection h2 with ht hr'
      rw [← ht] at hr
      have hxi : x.1.inv = i := by
        have h1 := hc.1
        rw [← ht] at h1
        exact pending_unique h1 hinv hr.1 hi hr.2.2 hq
      have := index_unique HL.nodup hx hm hxi
      omega
    · exact J.done m' x j r' hx hres (by omega)

/-- replay a response event, firing first whatever has to be fired -/
theorem Sched.step_res (HL : IsLinearization spec h L) (W : WellFormedPos h) {p k : Nat}
    {a : AState S Op Ret} (J : Sched spec h L p k a) {t : Nat} {r : Ret}
    (he : h[p]? = some (.res t r)) :
    ∃ ls a' k', ARun spec a ls a' ∧ ls.filterMap ALabel.obs = [.res t r] ∧
      Sched spec h L (p + 1) k' a' := by
  obtain ⟨i, op, hi, hinv, hq⟩ := (W p).2 t r he
  have hp : p ≤ h.length := Nat.le_of_lt (List.getElem?_eq_some_iff.mp he).1
  have hc : IsCall h (⟨t, op, i, some (p, r)⟩ : Call Op Ret) := ⟨hinv, hi, he, hq⟩
  obtain ⟨r', hmem⟩ := HL.complete _ hc rfl
  have hr' : r' = r := (HL.calls _ hmem).2 p r rfl
  rw [hr'] at hmem
  obtain ⟨m, hm⟩ := List.mem_iff_getElem?.mp hmem
  have hmlt : m < L.length := (List.getElem?_eq_some_iff.mp hm).1
  -- fire everything up to and including `m`
  obtain ⟨ls, a', k', hrun, hobs, J', hmk'⟩ : ∃ ls a' k', ARun spec a ls a' ∧
      ls.filterMap ALabel.obs = [] ∧ Sched spec h L p k' a' ∧ m < k' := by
    by_cases hmk : m < k
    · exact ⟨[], a, k, ARun.nil, rfl, J, hmk⟩
    · obtain ⟨ls, a', hrun, hobs, J'⟩ := J.fire_upto HL hp (m + 1) (by omega) (by omega) (by
        intro m' y h1 h2 hy
        have hyc := (HL.calls y (List.mem_of_getElem? hy)).1
        apply Nat.lt_of_not_le
        intro hle
        have hne : y.1.inv ≠ p := by
          intro heq
          have := hyc.1
          rw [heq, he] at this; cases this
        have hprec : Precedes (⟨t, op, i, some (p, r)⟩ : Call Op Ret) y.1 :=
          ⟨p, r, rfl, by omega⟩
        obtain ⟨i1, i2, hlt, h1', h2'⟩ := HL.order _ y hmem (List.mem_of_getElem? hy) hprec
        have e1 := index_unique HL.nodup h1' hm rfl
        have e2 := index_unique HL.nodup h2' hy rfl
        omega)
      exact ⟨ls, a', m + 1, hrun, hobs, J', Nat.lt_succ_self _⟩
  obtain ⟨hstep, J''⟩ := J'.step_res_fired HL he hi hinv hq hm hmk'
  refine ⟨ls ++ [.res t r], _, k', hrun.append (ARun.cons hstep ARun.nil), ?_, J''⟩
  rw [List.filterMap_append, hobs]
  rfl

/-- the schedule exists for every prefix of the history -/
theorem exists_sched (HL : IsLinearization spec h L) (W : WellFormedPos h) (p : Nat) (hp : p ≤ h.length) :
    ∃ ls a k, ARun spec (AInit spec) ls a ∧ ls.filterMap ALabel.obs = h.take p ∧
      Sched spec h L p k a := by
  induction p with
  | zero => exact ⟨[], AInit spec, 0, ARun.nil, by simp, Sched.init HL⟩
  | succ p ih =>
    obtain ⟨ls, a, k, hrun, hobs, J⟩ := ih (by omega)
    have hplt : p < h.length := by omega
    have he : h[p]? = some h[p] := List.getElem?_eq_getElem hplt
    rw [List.take_succ_eq_append_getElem hplt]
    cases hev : h[p] with
    | inv t op =>
      rw [hev] at he
      obtain ⟨hstep, J'⟩ := J.step_inv HL W he
      refine ⟨ls ++ [.inv t op], _, k, hrun.append (ARun.cons hstep ARun.nil), ?_, J'⟩
      rw [List.filterMap_append, hobs]
      rfl
    | res t r =>
      rw [hev] at he
      obtain ⟨ls', a', k', hrun', hobs', J'⟩ := J.step_res HL W he
      refine ⟨ls ++ ls', a', k', hrun.append hrun', ?_, J'⟩
      rw [List.filterMap_append, hobs, hobs']

theorem linearizable_of_hw_pos (W : WellFormedPos h) (H : HWLinearizable spec h) :
    Linearizable spec h := by
  obtain ⟨L, HL⟩ := H
  obtain ⟨ls, a, k, hrun, hobs, _⟩ := exists_sched HL W h.length (Nat.le_refl _)
  exact ⟨ls, a, hrun, by simpa using hobs⟩

end HW
end Ekit.Conc
