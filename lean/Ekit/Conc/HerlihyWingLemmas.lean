/-
Basic lemmas for the Herlihy–Wing equivalence (`HerlihyWing.lean`): positions, `Quiet`, matching
responses, the bookkeeping predicate `ThreadOK` shared by both directions, lists.
-/
import Ekit.Conc.HerlihyWingDef
namespace Ekit.Conc
namespace HW
variable {S Op Ret : Type}

@[simp] theorem thread_inv (t : Nat) (op : Op) : (Ev.inv t op : Ev Op Ret).thread = t := rfl
@[simp] theorem thread_res (t : Nat) (r : Ret) : (Ev.res t r : Ev Op Ret).thread = t := rfl

/-! ### `Quiet`, pending invocations, matching responses -/

theorem Quiet.mono {h : List (Ev Op Ret)} {t i j i' j' : Nat} (hq : Quiet h t i j) (hi : i ≤ i')
    (hj : j' ≤ j) : Quiet h t i' j' :=
  fun k e h1 h2 hk => hq k e (by omega) (by omega) hk

theorem Quiet.succ {h : List (Ev Op Ret)} {t i p : Nat} {e : Ev Op Ret} (hq : Quiet h t i p)
    (he : h[p]? = some e) (hne : e.thread ≠ t) : Quiet h t i (p + 1) := by
  intro k e' h1 h2 hk
  by_cases hkp : k = p
  · subst hkp; rw [he] at hk; cases hk; exact hne
  · exact hq k e' h1 (by omega) hk

theorem quiet_self (h : List (Ev Op Ret)) (t p : Nat) : Quiet h t p (p + 1) :=
  fun k _ h1 h2 _ => by omega

/-- a thread has at most one pending invocation -/
theorem pending_unique {h : List (Ev Op Ret)} {t p i₁ i₂ : Nat} {op₁ op₂ : Op}
    (h1 : h[i₁]? = some (.inv t op₁)) (h2 : h[i₂]? = some (.inv t op₂))
    (l1 : i₁ < p) (l2 : i₂ < p) (q1 : Quiet h t i₁ p) (q2 : Quiet h t i₂ p) : i₁ = i₂ := by
  rcases Nat.lt_trichotomy i₁ i₂ with hlt | heq | hgt
  · exact absurd rfl (q1 i₂ _ hlt l2 h2)
  · exact heq
  · exact absurd rfl (q2 i₁ _ hgt l1 h1)

theorem Resp.lt_length {h : List (Ev Op Ret)} {t i j : Nat} {r : Ret} (hr : Resp h t i j r) :
    j < h.length := by
  obtain ⟨_, hj, _⟩ := hr
  exact (List.getElem?_eq_some_iff.mp hj).1

theorem Resp.unique {h : List (Ev Op Ret)} {t i j j' : Nat} {r r' : Ret}
    (h1 : Resp h t i j r) (h2 : Resp h t i j' r') : j = j' ∧ r = r' := by
  obtain ⟨l1, e1, q1⟩ := h1
  obtain ⟨l2, e2, q2⟩ := h2
  rcases Nat.lt_trichotomy j j' with hlt | heq | hgt
  · exact absurd rfl (q2 j _ l1 hlt e1)
  · subst heq; rw [e1] at e2; cases e2; exact ⟨rfl, rfl⟩
  · exact absurd rfl (q1 j' _ l2 hgt e2)

/-- a matching response and quietness up to `p` exclude each other when the response is before `p` -/
theorem Resp.not_quiet {h : List (Ev Op Ret)} {t i j p : Nat} {r : Ret}
    (hr : Resp h t i j r) (hj : j < p) : ¬ Quiet h t i p :=
  fun hq => absurd rfl (hq j _ hr.1 hj hr.2.1)

theorem inv_lt_length {h : List (Ev Op Ret)} {t i : Nat} {op : Op} (hi : h[i]? = some (.inv t op)) :
    i < h.length := (List.getElem?_eq_some_iff.mp hi).1

/-! ### Calls -/

theorem IsCall.inv_lt {h : List (Ev Op Ret)} {c : Call Op Ret} (hc : IsCall h c) : c.inv < h.length :=
  inv_lt_length hc.1

theorem IsCall.resp {h : List (Ev Op Ret)} {c : Call Op Ret} {j : Nat} {r : Ret} (hc : IsCall h c)
    (hr : c.res = some (j, r)) : Resp h c.thread c.inv j r := by
  have := hc.2; rw [hr] at this; exact this

theorem IsCall.quiet_of_pending {h : List (Ev Op Ret)} {c : Call Op Ret} (hc : IsCall h c)
    (hr : c.res = none) : Quiet h c.thread c.inv h.length := by
  have := hc.2; rw [hr] at this; exact this

/-- a call is quiet from its invocation up to any position not after its response -/
theorem IsCall.quiet_upto {h : List (Ev Op Ret)} {c : Call Op Ret} (hc : IsCall h c) {p : Nat}
    (hp : p ≤ h.length) (hres : ∀ j r, c.res = some (j, r) → p ≤ j) : Quiet h c.thread c.inv p := by
  cases hr : c.res with
  | none => exact (hc.quiet_of_pending hr).mono (Nat.le_refl _) hp
  | some jr =>
    obtain ⟨j, r⟩ := jr
    exact (hc.resp hr).2.2.mono (Nat.le_refl _) (hres j r hr)

/-- a call of `h` is determined by the position of its invocation -/
theorem IsCall.ext {h : List (Ev Op Ret)} {c c' : Call Op Ret} (hc : IsCall h c) (hc' : IsCall h c')
    (hinv : c.inv = c'.inv) : c = c' := by
  obtain ⟨t, op, i, res⟩ := c
  obtain ⟨t', op', i', res'⟩ := c'
  simp only at hinv; subst hinv
  have h1 := hc.1; have h2 := hc'.1
  simp only at h1 h2
  rw [h1] at h2; cases h2
  suffices res = res' by subst this; rfl
  cases hr : res with
  | none =>
    cases hr' : res' with
    | none => rfl
    | some jr =>
      obtain ⟨j, r⟩ := jr
      have q := hc.quiet_of_pending hr
      have rp := hc'.resp hr'
      exact absurd q (rp.not_quiet rp.lt_length)
  | some jr =>
    obtain ⟨j, r⟩ := jr
    have rp := hc.resp hr
    cases hr' : res' with
    | none => exact absurd (hc'.quiet_of_pending hr') (rp.not_quiet rp.lt_length)
    | some jr' =>
      obtain ⟨j', r'⟩ := jr'
      obtain ⟨e1, e2⟩ := rp.unique (hc'.resp hr')
      subst e1; subst e2; rfl

theorem Precedes.ne {h : List (Ev Op Ret)} {c c' : Call Op Ret} (hc : IsCall h c)
    (hp : Precedes c c') : c ≠ c' := by
  rintro rfl
  obtain ⟨j, r, hr, hlt⟩ := hp
  have := (hc.resp hr).1
  omega

/-! ### Thread bookkeeping shared by both directions

`fired i r`: the call invoked at position `i` has taken effect with result `r`. -/

def ThreadOK (h : List (Ev Op Ret)) (p : Nat) (fired : Nat → Ret → Prop) (t : Nat) :
    TStatus Op Ret → Prop
  | .idle => ¬ PendingAt h t p
  | .pending op => ∃ i, i < p ∧ h[i]? = some (.inv t op) ∧ Quiet h t i p ∧ ∀ r, ¬ fired i r
  | .done r => ∃ i op, i < p ∧ h[i]? = some (.inv t op) ∧ Quiet h t i p ∧ fired i r

theorem threadOK_step_other {h : List (Ev Op Ret)} {p u : Nat} {fired : Nat → Ret → Prop}
    {e : Ev Op Ret} {st : TStatus Op Ret} (he : h[p]? = some e) (hne : e.thread ≠ u)
    (hok : ThreadOK h p fired u st) : ThreadOK h (p + 1) fired u st := by
  cases st with
  | idle =>
    rintro ⟨i, op, hi, hinv, hq⟩
    by_cases hip : i = p
    · subst hip; rw [he] at hinv; cases hinv; exact hne rfl
    · exact hok ⟨i, op, by omega, hinv, hq.mono (Nat.le_refl _) (Nat.le_succ _)⟩
  | pending op =>
    obtain ⟨i, hi, hinv, hq, hf⟩ := hok
    exact ⟨i, by omega, hinv, hq.succ he hne, hf⟩
  | done r =>
    obtain ⟨i, op, hi, hinv, hq, hf⟩ := hok
    exact ⟨i, op, by omega, hinv, hq.succ he hne, hf⟩

theorem threadOK_step_inv {h : List (Ev Op Ret)} {p t : Nat} {fired : Nat → Ret → Prop} {op : Op}
    (he : h[p]? = some (.inv t op)) (hf : ∀ r, ¬ fired p r) :
    ThreadOK h (p + 1) fired t (.pending op) :=
  ⟨p, Nat.lt_succ_self _, he, quiet_self h t p, hf⟩

theorem threadOK_step_res {h : List (Ev Op Ret)} {p t : Nat} {fired : Nat → Ret → Prop} {r : Ret}
    (he : h[p]? = some (.res t r)) : ThreadOK h (p + 1) fired t (.idle : TStatus Op Ret) := by
  rintro ⟨i, op, hi, hinv, hq⟩
  by_cases hip : i = p
  · subst hip; rw [he] at hinv; cases hinv
  · exact absurd rfl (hq p _ (by omega) (Nat.lt_succ_self _) he)

/-- firing a call of thread `t` does not disturb the bookkeeping of other threads -/
theorem threadOK_fire_other {h : List (Ev Op Ret)} {p u t : Nat} {fired fired' : Nat → Ret → Prop}
    {st : TStatus Op Ret} (hut : u ≠ t)
    (hmono : ∀ i r, fired i r → fired' i r)
    (hnew : ∀ i r, fired' i r → fired i r ∨ ∃ op, h[i]? = some (.inv t op))
    (hok : ThreadOK h p fired u st) : ThreadOK h p fired' u st := by
  cases st with
  | idle => exact hok
  | pending op =>
    obtain ⟨i, hi, hinv, hq, hf⟩ := hok
    refine ⟨i, hi, hinv, hq, fun r hr => ?_⟩
    rcases hnew i r hr with h1 | ⟨op', h2⟩
    · exact hf r h1
    · rw [hinv] at h2; cases h2; exact hut rfl
  | done r =>
    obtain ⟨i, op, hi, hinv, hq, hf⟩ := hok
    exact ⟨i, op, hi, hinv, hq, hmono i r hf⟩

/-- the status of a thread with a pending invocation at `i` -/
theorem threadOK_of_pending {h : List (Ev Op Ret)} {p t i : Nat} {fired : Nat → Ret → Prop} {op : Op}
    {st : TStatus Op Ret} (hok : ThreadOK h p fired t st)
    (hi : i < p) (hinv : h[i]? = some (.inv t op)) (hq : Quiet h t i p) :
    (st = .pending op ∧ ∀ r, ¬ fired i r) ∨ (∃ r, st = .done r ∧ fired i r) := by
  cases st with
  | idle => exact absurd ⟨i, op, hi, hinv, hq⟩ hok
  | pending op' =>
    obtain ⟨i', hi', hinv', hq', hf⟩ := hok
    have := pending_unique hinv hinv' hi hi' hq hq'
    subst this
    rw [hinv] at hinv'; cases hinv'
    exact Or.inl ⟨rfl, hf⟩
  | done r =>
    obtain ⟨i', op', hi', hinv', hq', hf⟩ := hok
    have := pending_unique hinv hinv' hi hi' hq hq'
    subst this
    exact Or.inr ⟨r, rfl, hf⟩

/-! ### Legal executions -/

/-- legal execution ending in a given state -/
def LegalTo (spec : SeqSpec S Op Ret) : S → List (Op × Ret) → S → Prop
  | s, [], s' => s = s'
  | s, (op, r) :: rest, s' => ∃ s₁, spec.apply s op s₁ r ∧ LegalTo spec s₁ rest s'

theorem LegalTo.snoc {spec : SeqSpec S Op Ret} {s s₁ s₂ : S} {l : List (Op × Ret)} {op : Op} {r : Ret}
    (h1 : LegalTo spec s l s₁) (h2 : spec.apply s₁ op s₂ r) : LegalTo spec s (l ++ [(op, r)]) s₂ := by
  induction l generalizing s with
  | nil => cases h1; exact ⟨s₂, h2, rfl⟩
  | cons x rest ih =>
    obtain ⟨op', r'⟩ := x
    obtain ⟨s', ha, hl⟩ := h1
    exact ⟨s', ha, ih hl⟩

theorem LegalTo.legal {spec : SeqSpec S Op Ret} {s s' : S} {l : List (Op × Ret)}
    (h : LegalTo spec s l s') : Legal spec s l := by
  induction l generalizing s with
  | nil => trivial
  | cons x rest ih =>
    obtain ⟨op', r'⟩ := x
    obtain ⟨s₁, ha, hl⟩ := h
    exact ⟨s₁, ha, ih hl⟩

/-! ### Lists -/

theorem before_total {α : Type} {L : List α} {x y : α} (hx : x ∈ L) (hy : y ∈ L) (hne : x ≠ y) :
    Before L x y ∨ Before L y x := by
  obtain ⟨i, hi⟩ := List.mem_iff_getElem?.mp hx
  obtain ⟨j, hj⟩ := List.mem_iff_getElem?.mp hy
  rcases Nat.lt_trichotomy i j with hlt | heq | hgt
  · exact Or.inl ⟨i, j, hlt, hi, hj⟩
  · subst heq; rw [hi] at hj; cases hj; exact absurd rfl hne
  · exact Or.inr ⟨j, i, hgt, hj, hi⟩

theorem pairwise_before {α : Type} {R : α → α → Prop} {L : List α} {x y : α} (hp : L.Pairwise R)
    (hb : Before L x y) : R x y := by
  obtain ⟨i, j, hij, hi, hj⟩ := hb
  obtain ⟨li, ei⟩ := List.getElem?_eq_some_iff.mp hi
  obtain ⟨lj, ej⟩ := List.getElem?_eq_some_iff.mp hj
  have := List.pairwise_iff_getElem.mp hp i j li lj hij
  rw [ei, ej] at this; exact this

/-- with distinct keys, the index of an element is determined by its key -/
theorem index_unique {α : Type} {key : α → Nat} {L : List α} (hnd : (L.map key).Nodup) {i j : Nat}
    {x y : α} (hi : L[i]? = some x) (hj : L[j]? = some y) (hk : key x = key y) : i = j := by
  obtain ⟨li, ei⟩ := List.getElem?_eq_some_iff.mp hi
  obtain ⟨lj, ej⟩ := List.getElem?_eq_some_iff.mp hj
  have hp := List.pairwise_iff_getElem.mp hnd
  rcases Nat.lt_trichotomy i j with hlt | heq | hgt
  · have := hp i j (by simpa using li) (by simpa using lj) hlt
    simp only [List.getElem_map, ei, ej] at this
    exact absurd hk this
  · exact heq
  · have := hp j i (by simpa using lj) (by simpa using li) hgt
    simp only [List.getElem_map, ei, ej] at this
    exact absurd hk.symm this

theorem mem_unique {α : Type} {key : α → Nat} {L : List α} (hnd : (L.map key).Nodup)
    {x y : α} (hx : x ∈ L) (hy : y ∈ L) (hk : key x = key y) : x = y := by
  obtain ⟨i, hi⟩ := List.mem_iff_getElem?.mp hx
  obtain ⟨j, hj⟩ := List.mem_iff_getElem?.mp hy
  have := index_unique hnd hi hj hk
  subst this; rw [hi] at hj; cases hj; rfl

end HW
end Ekit.Conc
