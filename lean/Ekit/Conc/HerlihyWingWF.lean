/-
The two forms of well-formedness of a history agree:
`WellFormed` (Herlihy–Wing: every thread subhistory is sequential) ↔ `WellFormedPos` (an invocation of
`t` occurs only when `t` has no pending invocation, a response only when it has one).
-/
import Ekit.Conc.HerlihyWingLemmas
namespace Ekit.Conc
namespace HW
variable {Op Ret : Type}

theorem snoc_induction {α : Type} {P : List α → Prop} (h0 : P [])
    (hs : ∀ l a, P l → P (l ++ [a])) : ∀ l, P l := by
  intro l
  have : ∀ n, ∀ l : List α, l.length = n → P l := by
    intro n
    induction n with
    | zero =>
      intro l hl
      have : l = [] := List.length_eq_zero_iff.mp hl
      subst this; exact h0
    | succ n ih =>
      intro l hl
      rcases List.eq_nil_or_concat l with rfl | ⟨l', b, rfl⟩
      · simp at hl
      · rw [List.concat_eq_append] at hl ⊢
        exact hs l' b (ih l' (by simpa using hl))
  exact this _ l rfl

/-- the flag (`true` = an invocation is expected next) after an alternating list -/
def endFlag : Bool → List (Ev Op Ret) → Bool
  | b, [] => b
  | b, _ :: l => endFlag (!b) l

theorem endFlag_append (b : Bool) (l₁ l₂ : List (Ev Op Ret)) :
    endFlag b (l₁ ++ l₂) = endFlag (endFlag b l₁) l₂ := by
  induction l₁ generalizing b with
  | nil => rfl
  | cons e l ih => exact ih (!b)

theorem alternates_nil (b : Bool) : Alternates b ([] : List (Ev Op Ret)) := by
  cases b <;> trivial

theorem alternates_append (b : Bool) (l₁ l₂ : List (Ev Op Ret)) :
    Alternates b (l₁ ++ l₂) ↔ Alternates b l₁ ∧ Alternates (endFlag b l₁) l₂ := by
  induction l₁ generalizing b with
  | nil => simp [alternates_nil, endFlag]
  | cons e l ih =>
    cases b <;> cases e <;> simp [Alternates, endFlag, ih]

theorem alternates_single_inv (b : Bool) (t : Nat) (op : Op) :
    Alternates b [(Ev.inv t op : Ev Op Ret)] ↔ b = true := by
  cases b <;> simp [Alternates]

theorem alternates_single_res (b : Bool) (t : Nat) (r : Ret) :
    Alternates b [(Ev.res t r : Ev Op Ret)] ↔ b = false := by
  cases b <;> simp [Alternates]

theorem proj_snoc_same {l : List (Ev Op Ret)} {e : Ev Op Ret} {t : Nat} (h : e.thread = t) :
    proj (l ++ [e]) t = proj l t ++ [e] := by
  simp [proj, List.filter_append, h]

theorem proj_snoc_other {l : List (Ev Op Ret)} {e : Ev Op Ret} {t : Nat} (h : e.thread ≠ t) :
    proj (l ++ [e]) t = proj l t := by
  simp [proj, List.filter_append, h]

/-! ### positions in an extended history -/

theorem quiet_append {l l' : List (Ev Op Ret)} {t i q : Nat} (hq : q ≤ l.length) :
    Quiet (l ++ l') t i q ↔ Quiet l t i q := by
  constructor
  · intro h k e h1 h2 hk
    exact h k e h1 h2 (by rw [List.getElem?_append_left (by omega)]; exact hk)
  · intro h k e h1 h2 hk
    rw [List.getElem?_append_left (by omega)] at hk
    exact h k e h1 h2 hk

theorem pendingAt_append {l l' : List (Ev Op Ret)} {t q : Nat} (hq : q ≤ l.length) :
    PendingAt (l ++ l') t q ↔ PendingAt l t q := by
  constructor
  · rintro ⟨i, op, hi, hinv, hqu⟩
    rw [List.getElem?_append_left (by omega)] at hinv
    exact ⟨i, op, hi, hinv, (quiet_append hq).mp hqu⟩
  · rintro ⟨i, op, hi, hinv, hqu⟩
    exact ⟨i, op, hi, by rw [List.getElem?_append_left (by omega)]; exact hinv,
      (quiet_append hq).mpr hqu⟩

theorem pendingAt_snoc_other {l : List (Ev Op Ret)} {e : Ev Op Ret} {t : Nat} (hne : e.thread ≠ t) :
    PendingAt (l ++ [e]) t (l.length + 1) ↔ PendingAt l t l.length := by
  constructor
  · rintro ⟨i, op, hi, hinv, hqu⟩
    by_cases hil : i = l.length
    · subst hil
      rw [List.getElem?_concat_length] at hinv
      cases hinv
      exact absurd rfl hne
    · rw [List.getElem?_append_left (by omega)] at hinv
      exact ⟨i, op, by omega, hinv,
        (quiet_append (Nat.le_refl _)).mp (hqu.mono (Nat.le_refl _) (Nat.le_succ _))⟩
  · rintro ⟨i, op, hi, hinv, hqu⟩
    refine ⟨i, op, by omega, by rw [List.getElem?_append_left hi]; exact hinv, ?_⟩
    exact ((quiet_append (Nat.le_refl _)).mpr hqu).succ List.getElem?_concat_length hne

theorem pendingAt_snoc_inv (l : List (Ev Op Ret)) (t : Nat) (op : Op) :
    PendingAt (l ++ [Ev.inv t op]) t (l.length + 1) :=
  ⟨l.length, op, Nat.lt_succ_self _, List.getElem?_concat_length, quiet_self _ _ _⟩

theorem not_pendingAt_snoc_res (l : List (Ev Op Ret)) (t : Nat) (r : Ret) :
    ¬ PendingAt (l ++ [Ev.res t r]) t (l.length + 1) := by
  rintro ⟨i, op, hi, hinv, hqu⟩
  by_cases hil : i = l.length
  · subst hil
    rw [List.getElem?_concat_length] at hinv
    cases hinv
  · exact absurd rfl (hqu l.length _ (by omega) (Nat.lt_succ_self _) List.getElem?_concat_length)

/-- in a sequential thread subhistory, "a response is expected next" means the thread has a pending
    invocation -/
theorem endFlag_iff_pending (t : Nat) : ∀ l : List (Ev Op Ret), Alternates true (proj l t) →
    (endFlag true (proj l t) = false ↔ PendingAt l t l.length) := by
  refine snoc_induction ?_ ?_
  · intro _
    constructor
    · intro h; cases h
    · rintro ⟨i, op, hi, _⟩; cases hi
  · intro l e ih halt
    rw [List.length_append, List.length_singleton]
    by_cases het : e.thread = t
    · rw [proj_snoc_same het] at halt ⊢
      obtain ⟨h1, h2⟩ := (alternates_append _ _ _).mp halt
      rw [endFlag_append]
      cases e with
      | inv t' op =>
        simp only [thread_inv] at het; subst het
        have := (alternates_single_inv _ _ _).mp h2
        rw [this]
        exact ⟨fun _ => pendingAt_snoc_inv l t' op, fun _ => rfl⟩
      | res t' r =>
        simp only [thread_res] at het; subst het
        have := (alternates_single_res _ _ _).mp h2
        rw [this]
        constructor
        · intro h; cases h
        · intro h; exact absurd h (not_pendingAt_snoc_res l t' r)
    · rw [proj_snoc_other het] at halt ⊢
      rw [pendingAt_snoc_other het]
      exact ih halt

theorem wellFormed_snoc (l : List (Ev Op Ret)) (e : Ev Op Ret) :
    WellFormed (l ++ [e]) ↔ WellFormed l ∧ Alternates (endFlag true (proj l e.thread)) [e] := by
  constructor
  · intro h
    refine ⟨fun t => ?_, ?_⟩
    · have := h t
      by_cases het : e.thread = t
      · rw [Sequential, proj_snoc_same het] at this
        exact ((alternates_append _ _ _).mp this).1
      · rw [Sequential, proj_snoc_other het] at this
        exact this
    · have := h e.thread
      rw [Sequential, proj_snoc_same rfl] at this
      exact ((alternates_append _ _ _).mp this).2
  · rintro ⟨h1, h2⟩ t
    by_cases het : e.thread = t
    · rw [Sequential, proj_snoc_same het]
      subst het
      exact (alternates_append _ _ _).mpr ⟨h1 _, h2⟩
    · rw [Sequential, proj_snoc_other het]
      exact h1 t

theorem wellFormedPos_snoc (l : List (Ev Op Ret)) (e : Ev Op Ret) :
    WellFormedPos (l ++ [e]) ↔ WellFormedPos l ∧
      (∀ t op, e = .inv t op → ¬ PendingAt l t l.length) ∧
      (∀ t r, e = .res t r → PendingAt l t l.length) := by
  constructor
  · intro h
    refine ⟨fun p => ?_, ?_, ?_⟩
    · by_cases hp : p < l.length
      · have := h p
        rw [List.getElem?_append_left hp] at this
        refine ⟨fun t op he => ?_, fun t r he => ?_⟩
        · have h1 := this.1 t op he
          rwa [pendingAt_append (Nat.le_of_lt hp)] at h1
        · have h1 := this.2 t r he
          rwa [pendingAt_append (Nat.le_of_lt hp)] at h1
      · have hn : l[p]? = none := List.getElem?_eq_none (by omega)
        refine ⟨fun t op he => ?_, fun t r he => ?_⟩ <;> rw [hn] at he <;> cases he
    · intro t op he
      subst he
      have := (h l.length).1 t op List.getElem?_concat_length
      rwa [pendingAt_append (Nat.le_refl _)] at this
    · intro t r he
      subst he
      have := (h l.length).2 t r List.getElem?_concat_length
      rwa [pendingAt_append (Nat.le_refl _)] at this
  · rintro ⟨h1, h2, h3⟩ p
    rcases Nat.lt_trichotomy p l.length with hp | hp | hp
    · rw [List.getElem?_append_left hp]
      refine ⟨fun t op he => ?_, fun t r he => ?_⟩
      · rw [pendingAt_append (Nat.le_of_lt hp)]; exact (h1 p).1 t op he
      · rw [pendingAt_append (Nat.le_of_lt hp)]; exact (h1 p).2 t r he
    · subst hp
      rw [List.getElem?_concat_length]
      refine ⟨fun t op he => ?_, fun t r he => ?_⟩
      · rw [pendingAt_append (Nat.le_refl _)]; cases he; exact h2 t op rfl
      · rw [pendingAt_append (Nat.le_refl _)]; cases he; exact h3 t r rfl
    · have hn : (l ++ [e])[p]? = none := List.getElem?_eq_none (by simp; omega)
      refine ⟨fun t op he => ?_, fun t r he => ?_⟩ <;> rw [hn] at he <;> cases he

/-- **the paper's well-formedness is the positional one** -/
theorem wellFormed_iff_pos : ∀ h : List (Ev Op Ret), WellFormed h ↔ WellFormedPos h := by
  refine snoc_induction ?_ ?_
  · constructor
    · intro _ p
      refine ⟨fun t op he => ?_, fun t r he => ?_⟩ <;> simp at he
    · intro _ t
      exact alternates_nil _
  · intro l e ih
    rw [wellFormed_snoc, wellFormedPos_snoc, ih]
    constructor
    · rintro ⟨hw, halt⟩
      refine ⟨hw, ?_, ?_⟩
      · intro t op he
        subst he
        have hf := (alternates_single_inv _ _ _).mp halt
        simp only [thread_inv] at hf
        intro hp
        have := (endFlag_iff_pending t l (ih.mpr hw t)).mpr hp
        rw [hf] at this; cases this
      · intro t r he
        subst he
        have hf := (alternates_single_res _ _ _).mp halt
        simp only [thread_res] at hf
        exact (endFlag_iff_pending t l (ih.mpr hw t)).mp hf
    · rintro ⟨hw, h2, h3⟩
      refine ⟨hw, ?_⟩
      cases e with
      | inv t op =>
        rw [alternates_single_inv]
        simp only [thread_inv]
        have := h2 t op rfl
        cases hf : endFlag true (proj l t) with
        | true => rfl
        | false => exact absurd ((endFlag_iff_pending t l (ih.mpr hw t)).mp hf) this
      | res t r =>
        rw [alternates_single_res]
        simp only [thread_res]
        exact (endFlag_iff_pending t l (ih.mpr hw t)).mpr (h3 t r rfl)

end HW
end Ekit.Conc
