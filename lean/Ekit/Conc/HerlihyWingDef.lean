/-
Herlihy–Wing linearizability (TOPLAS 1990), stated directly on histories — no automaton.

This file contains only DEFINITIONS (the statement a reader should check against the paper); the
theorems relating it to `Linearizable` of `System.lean` are in `HerlihyWing.lean`.

Vocabulary (paper → here).  A *history* is a finite sequence of invocation and response events
(`List (Ev Op Ret)`; there is one object, so events carry a thread ("process") name, and an
operation with its arguments resp. a result).  Positions in the history are list indices `0, 1, …`.

* `Quiet h t i j` – thread `t` has no event strictly between positions `i` and `j`.
* A response *matches* an invocation if it is the next event of the same thread
  (`Resp h t i j r`: the invocation at `i` by `t` is answered at position `j` with result `r`).
* `WellFormed h` – every thread subhistory `h|t` is *sequential*: it starts with an invocation and
  alternates invocation / (matching) response (`Sequential`).  This is the paper's definition; the
  equivalent positional form (`WellFormedPos`: an invocation by `t` occurs only when `t` has no
  pending invocation, a response of `t` only when it has one) is what the proofs use, the equivalence
  is `wellFormed_iff_pos` in `HerlihyWingWF.lean`.
* `Call` / `IsCall h c` – an *operation* (call) of the history: an invocation together with its
  matching response if there is one (`res = some (position, result)`, a *completed* call), or with
  no later event of the thread (`res = none`, a *pending* call).
* `Precedes c₁ c₂` – the paper's irreflexive partial order `<_H` on operations: the response of
  `c₁` occurs before the invocation of `c₂`.
* `Legal spec s L` – the sequence of (operation, result) pairs `L` is a legal sequential execution of
  the (relational) sequential specification from state `s`.
* `IsLinearization spec h L` / `HWLinearizable spec h` – the definition of linearizability:
  "`H` can be extended (by appending responses to some pending invocations) to `H'` such that
  L1: `complete(H')` is equivalent to a legal sequential history `S`, and L2: `<_H ⊆ <_S`".
  Here `S` is given as the list `L` of its operations in order, each with its result:
    - every entry of `L` is a call of `h`; a completed call carries its actual result, a pending
      call (one whose response was "appended") carries any result                      [`calls`]
    - no call occurs twice (calls are identified by the position of their invocation)  [`nodup`]
    - every completed call of `h` occurs in `L` (pending ones may be dropped — that is
      `complete(·)`)                                                                   [`complete`]
    - `L` is legal from the initial state                                              [`legal`]
    - if `c₁ <_H c₂` and both are in `L` then `c₁` is before `c₂` in `L`               [`order`]
  "Equivalent" (same thread subhistories) is implied: a thread's calls are totally ordered by `<_H`
  in a well-formed history — except for its last, possibly pending, call, which is invoked after all
  the others responded.
-/
import Ekit.Conc.System
namespace Ekit.Conc

/-- the thread ("process") of an event -/
def Ev.thread {Op Ret : Type} : Ev Op Ret → Nat
  | .inv t _ => t
  | .res t _ => t

namespace HW
variable {S Op Ret : Type}

/-- thread `t` has no event at any position strictly between `i` and `j` -/
def Quiet (h : List (Ev Op Ret)) (t i j : Nat) : Prop :=
  ∀ k e, i < k → k < j → h[k]? = some e → e.thread ≠ t

/-- the invocation of thread `t` at position `i` is answered at position `j` with result `r`
    (the response at `j` is the next event of `t` after `i`) -/
def Resp (h : List (Ev Op Ret)) (t i j : Nat) (r : Ret) : Prop :=
  i < j ∧ h[j]? = some (.res t r) ∧ Quiet h t i j

/-! ### Well-formed histories -/

/-- the thread subhistory `h|t` -/
def proj (h : List (Ev Op Ret)) (t : Nat) : List (Ev Op Ret) := h.filter (fun e => e.thread == t)

/-- `Alternates true l`: `l` is empty or starts with an invocation, and invocations and responses
    alternate (`Alternates false l`: same, but starting with a response). -/
def Alternates : Bool → List (Ev Op Ret) → Prop
  | _, [] => True
  | true, .inv _ _ :: rest => Alternates false rest
  | false, .res _ _ :: rest => Alternates true rest
  | true, .res _ _ :: _ => False
  | false, .inv _ _ :: _ => False

/-- a single-thread history is sequential: invocation, response, invocation, response, …
    (the last invocation may be unanswered) -/
def Sequential (l : List (Ev Op Ret)) : Prop := Alternates true l

/-- **well-formed history** (Herlihy–Wing): every thread subhistory is sequential -/
def WellFormed (h : List (Ev Op Ret)) : Prop := ∀ t, Sequential (proj h t)

/-- thread `t` has a pending invocation just before position `p` -/
def PendingAt (h : List (Ev Op Ret)) (t p : Nat) : Prop :=
  ∃ i op, i < p ∧ h[i]? = some (.inv t op) ∧ Quiet h t i p

/-- positional form of well-formedness -/
def WellFormedPos (h : List (Ev Op Ret)) : Prop :=
  ∀ p, (∀ t op, h[p]? = some (.inv t op) → ¬ PendingAt h t p) ∧
       (∀ t r, h[p]? = some (.res t r) → PendingAt h t p)

/-! ### Calls (operations) of a history -/

structure Call (Op Ret : Type) where
  thread : Nat
  op : Op
  /-- position of the invocation event -/
  inv : Nat
  /-- position and result of the matching response; `none` for a pending call -/
  res : Option (Nat × Ret)
  deriving DecidableEq

/-- `c` is a call of the history `h` -/
def IsCall (h : List (Ev Op Ret)) (c : Call Op Ret) : Prop :=
  h[c.inv]? = some (.inv c.thread c.op) ∧
  match c.res with
  | some (j, r) => Resp h c.thread c.inv j r
  | none => Quiet h c.thread c.inv h.length

/-- real-time precedence `c₁ <_H c₂`: `c₁`'s response occurs before `c₂`'s invocation -/
def Precedes (c₁ c₂ : Call Op Ret) : Prop := ∃ j r, c₁.res = some (j, r) ∧ j < c₂.inv

/-! ### Legal sequential executions -/

/-- `Legal spec s [(op₁,r₁), …, (opₙ,rₙ)]`: there are states `s = s₀, s₁, …, sₙ` with
    `spec.apply sᵢ₋₁ opᵢ sᵢ rᵢ` -/
def Legal (spec : SeqSpec S Op Ret) : S → List (Op × Ret) → Prop
  | _, [] => True
  | s, (op, r) :: rest => ∃ s', spec.apply s op s' r ∧ Legal spec s' rest

/-- `x` occurs before `y` in the list `L` -/
def Before {α : Type} (L : List α) (x y : α) : Prop :=
  ∃ i j : Nat, i < j ∧ L[i]? = some x ∧ L[j]? = some y

/-! ### Linearizability -/

/-- `L` (calls in linearization order, each with the result it gets) is a linearization of `h` -/
structure IsLinearization (spec : SeqSpec S Op Ret) (h : List (Ev Op Ret))
    (L : List (Call Op Ret × Ret)) : Prop where
  /-- only calls of `h`; a completed call with its actual result -/
  calls : ∀ x ∈ L, IsCall h x.1 ∧ ∀ j r, x.1.res = some (j, r) → x.2 = r
  /-- each call at most once -/
  nodup : (L.map (·.1.inv)).Nodup
  /-- every completed call of `h` is linearized -/
  complete : ∀ c, IsCall h c → c.res.isSome → ∃ r, (c, r) ∈ L
  /-- the sequential execution is legal from the initial state -/
  legal : Legal spec spec.init (L.map fun x => (x.1.op, x.2))
  /-- real-time order is respected -/
  order : ∀ x y, x ∈ L → y ∈ L → Precedes x.1 y.1 → Before L x y

/-- **Herlihy–Wing linearizability** of a history w.r.t. a sequential specification -/
def HWLinearizable (spec : SeqSpec S Op Ret) (h : List (Ev Op Ret)) : Prop :=
  ∃ L, IsLinearization spec h L

end HW
end Ekit.Conc
