/-
The colour part of the red-black invariant at the pointer level: predicates on the address tree `t` that a heap holds
(`Ekit.MiniGo.RBHeap.Holds`), reading the colour of every node from the heap (`color = true` is Black, `false` is Red, as in
Go's `type color bool`).
-/
import Ekit.MiniGo.RBHeap

namespace Ekit.MiniGo.RBHeap
open Ekit.MiniGo

/-- the top node of the tree is black (an empty tree counts as black: nil is black in the Go code) -/
def blackAt (h : Nat → Node) : PT → Prop
  | .leaf => True
  | .node _ a _ => (h a).color = true

/-- no red node has a red child -/
def NoRedRed (h : Nat → Node) : PT → Prop
  | .leaf => True
  | .node l a r => ((h a).color = false → blackAt h l ∧ blackAt h r) ∧ NoRedRed h l ∧ NoRedRed h r

/-- every path from the top to a nil pointer passes through exactly `n` black nodes -/
def BH (h : Nat → Node) : PT → Nat → Prop
  | .leaf, n => n = 0
  | .node l a r, n => ∃ m, BH h l m ∧ BH h r m ∧ n = m + (if (h a).color then 1 else 0)

/-- the red-black colouring: black root, no red-red, equal black heights -/
def RB (st : St) (t : PT) : Prop := blackAt st.h t ∧ NoRedRed st.h t ∧ ∃ n, BH st.h t n

/-- the pointer-level invariant with colours -/
def RBWF (st : St) : Prop := ∃ t, Holds st t ∧ RB st t

end Ekit.MiniGo.RBHeap
