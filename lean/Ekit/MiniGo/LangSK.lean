/-
MiniGo, fifth instance: the subset of Go that `internal/list/skip_list.go` is written in (a skip list: nodes with a per-node
array of forward pointers, a header node, `level`, `size`, the comparator, `traverse` with its local `update` array).
Same design as Ekit/MiniGo/LangLL.lean (deep embedding produced by `harness/minigosk`, all semantics in the interpreter
below, calls as a parameter, fuel for calls and loops).

Layout: a node is `{Val, Forward}` where `Forward` is the list of the optional addresses the array holds (the array of a
node is created by `make` inside the node literal and the translator accepts `e.Forward` only directly under an index —
read `e.Forward[i]`, write `e.Forward[i] = v` — so the array is never aliased and can live inside the node).  A LOCAL slice
of pointers (`update`) is a value `.ptrs l`; the translator accepts such a variable only as the base of an index, as the
target of `x[i] = v` and in a `return`, so it is never aliased either.  Index out of range and nil dereference are
`Fail.panic`.  The receiver `sl *SkipList` is the implicit state (`header`, `level`, `size`).
`randomLevel`'s loop condition `(rand.Int31() & 0xFFFF) < int32(p*0xFFFF)` is the expression `.coin`: its truth value is
the runtime's choice, an ORACLE stream in the state (`coins`; the driver derives it from the observed tower height);
an exhausted stream is `Fail.stuck`.  The float constant `FactorP` is `.opaque` (value `.unit`, only mentioned under `.coin`).
-/
namespace Ekit.MiniGo.SK

inductive Val where
  | ptr (p : Option Nat)
  | int (i : Int)
  | bool (b : Bool)
  | errIdx (len idx : Int)       -- `errs.NewErrIndexOutOfRange(len, idx)`
  | errNew                       -- `errors.New("…")`
  | unit
  | pair (a b : Val)
  | ptrs (l : List (Option Nat)) -- a local `[]*skipListNode`
  deriving DecidableEq, Repr, Inhabited

structure Node where
  val : Int := 0
  fwd : List (Option Nat) := []
  deriving DecidableEq, Repr, Inhabited

/-- the receiver `sl *SkipList`, the heap and the oracle -/
structure St where
  h : Nat → Node
  alloc : Nat
  header : Option Nat
  level : Int
  size : Int
  coins : List Bool

def upd (h : Nat → Node) (a : Nat) (n : Node) : Nat → Node := fun x => if x = a then n else h x

inductive Fail where
  | panic | fuel | stuck
  deriving DecidableEq, Repr

inductive BinOp where
  | eq | ne | lt | gt | le | ge | add | sub | errIdx
  deriving DecidableEq, Repr

inductive Expr (ν : Type) where
  | nil
  | int (i : Int)
  | bool (b : Bool)
  | unit
  | opaque                                   -- a constant outside the value domain (`FactorP`)
  | coin                                     -- `(rand.Int31() & 0xFFFF) < int32(p*0xFFFF)`
  | errNew
  | var (x : Nat)
  | val (e : Expr ν)                         -- `e.Val`
  | fwd (e i : Expr ν)                       -- `e.Forward[i]`
  | idx (e i : Expr ν)                       -- `s[i]`, `s` a local slice of pointers
  | header
  | level
  | size
  | bin (op : BinOp) (a b : Expr ν)
  | and (a b : Expr ν)
  | or (a b : Expr ν)
  | not (a : Expr ν)
  | cmp (a b : Expr ν)                       -- `sl.compare(a, b)`
  | mkPtrs (n : Expr ν)                      -- `make([]*skipListNode[T], n)`
  | allocNode (v fw : Expr ν)                -- `&skipListNode[T]{v, fw}`
  | call0 (fn : ν)
  | call1 (fn : ν) (a : Expr ν)
  | call2 (fn : ν) (a b : Expr ν)
  deriving Repr

inductive Stmt (ν : Type) where
  | skip
  | seq (a b : Stmt ν)
  | assign (x : Nat) (e : Expr ν)
  | assign2 (x y : Option Nat) (e : Expr ν)  -- `x, y := f(…)` (`none` = `_`)
  | setIdx (x : Nat) (i v : Expr ν)          -- `x[i] = v`, `x` a local slice of pointers
  | setFwd (p i v : Expr ν)                  -- `p.Forward[i] = v`
  | setHeader (e : Expr ν)
  | setLevel (e : Expr ν)
  | setSize (e : Expr ν)
  | ite (c : Expr ν) (t e : Stmt ν)
  | loop (c : Expr ν) (body : Stmt ν)
  | ret (e : Expr ν)
  | ret2 (a b : Expr ν)
  | expr (e : Expr ν)
  deriving Repr

structure Proc (ν : Type) where
  nparams : Nat
  body : Stmt ν

abbrev Env := Nat → Val
def Env.set (ρ : Env) (x : Nat) (v : Val) : Env := fun y => if y = x then v else ρ y
def Env.ofArgs (args : List Val) : Env := fun x => args.getD x .unit

inductive Flow where
  | normal | ret (v : Val)
  deriving Repr

abbrev Res (α : Type) := Except Fail α
abbrev CallH (ν : Type) := ν → List Val → St → Res (Val × St)

def valEq : Val → Val → Option Bool
  | .ptr a, .ptr b => some (a == b)
  | .int a, .int b => some (a == b)
  | .bool a, .bool b => some (a == b)
  | _, _ => none

def BinOp.apply : BinOp → Val → Val → Res Val
  | .eq, x, y => match valEq x y with | some r => .ok (.bool r) | none => .error .stuck
  | .ne, x, y => match valEq x y with | some r => .ok (.bool (!r)) | none => .error .stuck
  | .lt, .int x, .int y => .ok (.bool (decide (x < y)))
  | .gt, .int x, .int y => .ok (.bool (decide (x > y)))
  | .le, .int x, .int y => .ok (.bool (decide (x ≤ y)))
  | .ge, .int x, .int y => .ok (.bool (decide (x ≥ y)))
  | .add, .int x, .int y => .ok (.int (x + y))
  | .sub, .int x, .int y => .ok (.int (x - y))
  | .errIdx, .int x, .int y => .ok (.errIdx x y)
  | _, _, _ => .error .stuck

/-- `l[k]` with Go's bounds check -/
def readAt (l : List (Option Nat)) (k : Int) : Res Val :=
  if k < 0 ∨ k ≥ l.length then .error .panic else .ok (.ptr (l.getD k.toNat none))

/-- `l[k] = p` with Go's bounds check -/
def writeAt (l : List (Option Nat)) (k : Int) (p : Option Nat) : Res (List (Option Nat)) :=
  if k < 0 ∨ k ≥ l.length then .error .panic else .ok (l.set k.toNat p)

section
variable {ν : Type} (cmpF : Int → Int → Int) (callH : CallH ν)

def evalE (ρ : Env) (st : St) : Expr ν → Res (Val × St)
  | .nil => .ok (.ptr none, st)
  | .int i => .ok (.int i, st)
  | .bool b => .ok (.bool b, st)
  | .unit => .ok (.unit, st)
  | .opaque => .ok (.unit, st)
  | .coin =>
    match st.coins with
    | [] => .error .stuck
    | c :: rest => .ok (.bool c, { st with coins := rest })
  | .errNew => .ok (.errNew, st)
  | .var x => .ok (ρ x, st)
  | .val e =>
    match evalE ρ st e with
    | .ok (.ptr (some a), st1) => .ok (.int (st1.h a).val, st1)
    | .ok (.ptr none, _) => .error .panic
    | .ok _ => .error .stuck
    | .error x => .error x
  | .fwd e i =>
    match evalE ρ st e with
    | .ok (.ptr (some a), st1) =>
      match evalE ρ st1 i with
      | .ok (.int k, st2) =>
        match readAt (st2.h a).fwd k with
        | .ok v => .ok (v, st2)
        | .error x => .error x
      | .ok _ => .error .stuck
      | .error x => .error x
    | .ok (.ptr none, _) => .error .panic
    | .ok _ => .error .stuck
    | .error x => .error x
  | .idx e i =>
    match evalE ρ st e with
    | .ok (.ptrs l, st1) =>
      match evalE ρ st1 i with
      | .ok (.int k, st2) =>
        match readAt l k with
        | .ok v => .ok (v, st2)
        | .error x => .error x
      | .ok _ => .error .stuck
      | .error x => .error x
    | .ok _ => .error .stuck
    | .error x => .error x
  | .header => .ok (.ptr st.header, st)
  | .level => .ok (.int st.level, st)
  | .size => .ok (.int st.size, st)
  | .bin op a b =>
    match evalE ρ st a with
    | .ok (x, s1) =>
      match evalE ρ s1 b with
      | .ok (y, s2) =>
        match op.apply x y with
        | .ok r => .ok (r, s2)
        | .error e => .error e
      | .error e => .error e
    | .error e => .error e
  | .and a b =>
    match evalE ρ st a with
    | .ok (.bool false, st1) => .ok (.bool false, st1)
    | .ok (.bool true, st1) =>
      match evalE ρ st1 b with
      | .ok (.bool y, st2) => .ok (.bool y, st2)
      | .ok _ => .error .stuck
      | .error e => .error e
    | .ok _ => .error .stuck
    | .error e => .error e
  | .or a b =>
    match evalE ρ st a with
    | .ok (.bool true, st1) => .ok (.bool true, st1)
    | .ok (.bool false, st1) =>
      match evalE ρ st1 b with
      | .ok (.bool y, st2) => .ok (.bool y, st2)
      | .ok _ => .error .stuck
      | .error e => .error e
    | .ok _ => .error .stuck
    | .error e => .error e
  | .not a =>
    match evalE ρ st a with
    | .ok (.bool x, st1) => .ok (.bool (!x), st1)
    | .ok _ => .error .stuck
    | .error e => .error e
  | .cmp a b =>
    match evalE ρ st a with
    | .ok (.int x, s1) =>
      match evalE ρ s1 b with
      | .ok (.int y, s2) => .ok (.int (cmpF x y), s2)
      | .ok _ => .error .stuck
      | .error e => .error e
    | .ok _ => .error .stuck
    | .error e => .error e
  | .mkPtrs n =>
    match evalE ρ st n with
    | .ok (.int k, s1) => if k < 0 then .error .panic else .ok (.ptrs (List.replicate k.toNat none), s1)
    | .ok _ => .error .stuck
    | .error e => .error e
  | .allocNode v fw =>
    match evalE ρ st v with
    | .ok (.int v', s1) =>
      match evalE ρ s1 fw with
      | .ok (.ptrs l, s2) =>
        .ok (.ptr (some s2.alloc), { s2 with h := upd s2.h s2.alloc ⟨v', l⟩, alloc := s2.alloc + 1 })
      | .ok _ => .error .stuck
      | .error e => .error e
    | .ok _ => .error .stuck
    | .error e => .error e
  | .call0 fn => callH fn [] st
  | .call1 fn a =>
    match evalE ρ st a with
    | .ok (x, st1) => callH fn [x] st1
    | .error e => .error e
  | .call2 fn a b =>
    match evalE ρ st a with
    | .ok (x, st1) =>
      match evalE ρ st1 b with
      | .ok (y, st2) => callH fn [x, y] st2
      | .error e => .error e
    | .error e => .error e

def iterate (cond : Env → St → Res (Val × St)) (body : Env → St → Res (Flow × Env × St)) :
    Nat → Env → St → Res (Flow × Env × St)
  | 0, _, _ => .error .fuel
  | n + 1, ρ, st =>
    match cond ρ st with
    | .ok (.bool false, st1) => .ok (.normal, ρ, st1)
    | .ok (.bool true, st1) =>
      match body ρ st1 with
      | .ok (.normal, ρ2, st2) => iterate cond body n ρ2 st2
      | .ok (.ret v, ρ2, st2) => .ok (.ret v, ρ2, st2)
      | .error e => .error e
    | .ok _ => .error .stuck
    | .error e => .error e

def setOpt (ρ : Env) : Option Nat → Val → Env
  | none, _ => ρ
  | some x, v => ρ.set x v

/-- `p.Forward[k] = v` -/
def writeFwd (st : St) (pv : Val) (k : Int) (v : Val) : Res St :=
  match pv, v with
  | .ptr (some a), .ptr x =>
    match writeAt (st.h a).fwd k x with
    | .ok l => .ok { st with h := upd st.h a { st.h a with fwd := l } }
    | .error e => .error e
  | .ptr none, .ptr _ => .error .panic
  | _, _ => .error .stuck

def exec (loopFuel : Nat) (ρ : Env) (st : St) : Stmt ν → Res (Flow × Env × St)
  | .skip => .ok (.normal, ρ, st)
  | .seq a b =>
    match exec loopFuel ρ st a with
    | .ok (.normal, ρ1, st1) => exec loopFuel ρ1 st1 b
    | .ok r => .ok r
    | .error e => .error e
  | .assign x e =>
    match evalE cmpF callH ρ st e with
    | .ok (v, st1) => .ok (.normal, ρ.set x v, st1)
    | .error e => .error e
  | .assign2 x y e =>
    match evalE cmpF callH ρ st e with
    | .ok (.pair a b, st1) => .ok (.normal, setOpt (setOpt ρ x a) y b, st1)
    | .ok _ => .error .stuck
    | .error e => .error e
  | .setIdx x i v =>
    match ρ x with
    | .ptrs l =>
      match evalE cmpF callH ρ st i with
      | .ok (.int k, s1) =>
        match evalE cmpF callH ρ s1 v with
        | .ok (.ptr p, s2) =>
          match writeAt l k p with
          | .ok l2 => .ok (.normal, ρ.set x (.ptrs l2), s2)
          | .error e => .error e
        | .ok _ => .error .stuck
        | .error e => .error e
      | .ok _ => .error .stuck
      | .error e => .error e
    | _ => .error .stuck
  | .setFwd p i v =>
    match evalE cmpF callH ρ st p with
    | .ok (pv, s1) =>
      match evalE cmpF callH ρ s1 i with
      | .ok (.int k, s2) =>
        match evalE cmpF callH ρ s2 v with
        | .ok (x, s3) =>
          match writeFwd s3 pv k x with
          | .ok s4 => .ok (.normal, ρ, s4)
          | .error e => .error e
        | .error e => .error e
      | .ok _ => .error .stuck
      | .error e => .error e
    | .error e => .error e
  | .setHeader e =>
    match evalE cmpF callH ρ st e with
    | .ok (.ptr p, st1) => .ok (.normal, ρ, { st1 with header := p })
    | .ok _ => .error .stuck
    | .error e => .error e
  | .setLevel e =>
    match evalE cmpF callH ρ st e with
    | .ok (.int i, st1) => .ok (.normal, ρ, { st1 with level := i })
    | .ok _ => .error .stuck
    | .error e => .error e
  | .setSize e =>
    match evalE cmpF callH ρ st e with
    | .ok (.int i, st1) => .ok (.normal, ρ, { st1 with size := i })
    | .ok _ => .error .stuck
    | .error e => .error e
  | .ite c t e =>
    match evalE cmpF callH ρ st c with
    | .ok (.bool true, st1) => exec loopFuel ρ st1 t
    | .ok (.bool false, st1) => exec loopFuel ρ st1 e
    | .ok _ => .error .stuck
    | .error x => .error x
  | .loop c body =>
    iterate (fun ρ st => evalE cmpF callH ρ st c) (fun ρ st => exec loopFuel ρ st body) loopFuel ρ st
  | .ret e =>
    match evalE cmpF callH ρ st e with
    | .ok (v, st1) => .ok (.ret v, ρ, st1)
    | .error e => .error e
  | .ret2 a b =>
    match evalE cmpF callH ρ st a with
    | .ok (x, st1) =>
      match evalE cmpF callH ρ st1 b with
      | .ok (y, st2) => .ok (.ret (.pair x y), ρ, st2)
      | .error e => .error e
    | .error e => .error e
  | .expr e =>
    match evalE cmpF callH ρ st e with
    | .ok (_, st1) => .ok (.normal, ρ, st1)
    | .error e => .error e

def runBody (loopFuel : Nat) (p : Proc ν) (args : List Val) (st : St) : Res (Val × St) :=
  match exec cmpF callH loopFuel (Env.ofArgs args) st p.body with
  | .ok (.ret v, _, st1) => .ok (v, st1)
  | .ok (.normal, _, st1) => .ok (.unit, st1)
  | .error e => .error e

end

def call {ν : Type} (cmpF : Int → Int → Int) (procs : ν → Proc ν) : Nat → CallH ν
  | 0 => fun _ _ _ => .error .fuel
  | f + 1 => fun fn args st => runBody cmpF (call cmpF procs f) f (procs fn) args st

end Ekit.MiniGo.SK
