/-
Contracts for the procedures of the translated `internal/tree/red_black_tree.go` (`Ekit.Gen.RBTreeGo.procs`) with
respect to the pointer-level invariant `Holds` (Ekit/MiniGo/RBHeap.lean).

* contract K (`SpecK`): started in a heap that holds the address tree `t`, with arguments whose pointers are nil or
  addresses of `t`, a call that returns leaves a heap holding a tree over the SAME addresses and returns a value
  whose pointers are nil or addresses of the tree.  All getters, `setColor`/`setNode`, the searches, the fix-up
  procedures and the two rotations are K-procedures (`isK`).
* K-procedures that never assign a pointer field, never assign `rb.root` and never allocate (`safeS`) satisfy K as
  soon as the procedures they call do — whatever else they do (Lemmas/RBPtrSafe.lean, one induction over the syntax;
  so a harmless rewrite of a fix-up procedure does not disturb the proof).  The rotations, `addNode` and
  `deleteNode` are the only procedures that perform pointer surgery; each has its own lemma.
-/
import Ekit.Lemmas.RBHeapFrame
import Ekit.Generated.RBTreeGo

namespace Ekit.MiniGo.RBHeap
open Ekit.MiniGo Ekit.Gen.RBTreeGo

/-- every pointer inside the value is nil or one of the addresses `A` -/
def PtrIn (A : List Nat) : Val → Prop
  | .ptr (some a) => a ∈ A
  | .pair x y => PtrIn A x ∧ PtrIn A y
  | _ => True

def SameAddrs (t t' : PT) : Prop := ∀ a, a ∈ t'.addrs ↔ a ∈ t.addrs

theorem SameAddrs.refl (t : PT) : SameAddrs t t := fun _ => Iff.rfl
theorem SameAddrs.trans {t t' t'' : PT} (h1 : SameAddrs t t') (h2 : SameAddrs t' t'') : SameAddrs t t'' :=
  fun a => (h2 a).trans (h1 a)

theorem PtrIn.mono {A B : List Nat} (h : ∀ a, a ∈ A → a ∈ B) : ∀ {v}, PtrIn A v → PtrIn B v
  | .ptr (some _), hv => h _ hv
  | .ptr none, _ => trivial
  | .int _, _ => trivial
  | .bool _, _ => trivial
  | .err _, _ => trivial
  | .unit, _ => trivial
  | .pair _ _, hv => ⟨PtrIn.mono h hv.1, PtrIn.mono h hv.2⟩

/-- what a K-computation preserves: the new heap holds a tree with the same in-order list of addresses, and no key
    field of any node (in the tree or not) has changed -/
structure Pres (st st' : St) (t t' : PT) : Prop where
  holds : Holds st' t'
  addrs : t'.addrs = t.addrs
  keys : ∀ a, (st'.h a).key = (st.h a).key

theorem Pres.refl {st : St} {t : PT} (h : Holds st t) : Pres st st t t := ⟨h, rfl, fun _ => rfl⟩
theorem Pres.trans {st st1 st2 : St} {t t1 t2 : PT} (h1 : Pres st st1 t t1) (h2 : Pres st1 st2 t1 t2) :
    Pres st st2 t t2 := ⟨h2.holds, h2.addrs.trans h1.addrs, fun a => (h2.keys a).trans (h1.keys a)⟩
theorem Pres.same {st st' : St} {t t' : PT} (h : Pres st st' t t') : SameAddrs t t' :=
  fun a => by rw [h.addrs]

/-- the shape of contract K for a computation `c` taking argument values and a state (the first conjunct repeats
    `Pres.holds` for convenience) -/
def SpecOf (c : List Val → St → Res (Val × St)) : Prop :=
  ∀ args st v st' t, Holds st t → (∀ x ∈ args, PtrIn t.addrs x) → c args st = .ok (v, st') →
    ∃ t', Holds st' t' ∧ Pres st st' t t' ∧ PtrIn t'.addrs v

/-- contract K for procedure `fn` under the call handler `callH` -/
def SpecK (callH : CallH PName) (fn : PName) : Prop := SpecOf (callH fn)

/-- the K-procedures: everything except the entry points and helpers that change the set of nodes -/
def isK : PName → Bool
  | .Add | .addNode | .newRBNode | .Delete | .deleteNode => false
  | _ => true

/-- the procedures with pointer surgery inside contract K -/
def isRot : PName → Bool
  | .rotateLeft | .rotateRight => true
  | _ => false

/-! syntactic safety: no assignment to a pointer field, to a key or to `rb.root`, no allocation, calls to K-procedures only -/

def safeE : Expr PName → Bool
  | .nil | .int _ | .bool _ | .err _ | .unit | .var _ | .root | .size => true
  | .field e _ => safeE e
  | .cmp a b | .eq a b | .ne a b | .lt a b | .gt a b | .and a b | .or a b | .add a b => safeE a && safeE b
  | .not a => safeE a
  | .call0 fn => isK fn
  | .call1 fn a => isK fn && safeE a
  | .call2 fn a b => isK fn && safeE a && safeE b
  | .call3 fn a b c => isK fn && safeE a && safeE b && safeE c
  | .alloc .. => false

def ptrFld : Fld → Bool
  | .left | .right | .parent => true
  | _ => false

/-- the fields a safe procedure may assign: colour and value (not the pointers, not the key) -/
def plainFld : Fld → Bool
  | .color | .value => true
  | _ => false

def safeS : Stmt PName → Bool
  | .skip | .continue_ | .break_ => true
  | .seq a b => safeS a && safeS b
  | .assign _ e => safeE e
  | .setField p f e => plainFld f && safeE p && safeE e
  | .setRoot _ => false
  | .setSize e => safeE e
  | .ite c t e => safeE c && safeS t && safeS e
  | .loop c b => safeE c && safeS b
  | .ret e => safeE e
  | .ret2 a b => safeE a && safeE b
  | .expr e => safeE e

/-- every K-procedure other than the two rotations is syntactically safe in the CURRENT translation of the source
    (re-checked by the kernel whenever the source changes) -/
theorem k_procs_safe : ∀ fn, isK fn = true → isRot fn = false → safeS (procs fn).body = true := by
  intro fn; cases fn <;> decide

end Ekit.MiniGo.RBHeap
