/-
MiniGo, third instance: the subset of Go that `internal/slice/{add,delete,shrink}.go` is written in — slices with Go's
aliasing semantics.  A slice value is `(backing array, len, cap)` (offset 0: the code only re-slices with `s[:n]`); the
heap maps array ids to their full contents (length = capacity, spare slots included); `append` writes in place when
`len < cap` and otherwise allocates an array whose capacity the RUNTIME chooses — an oracle stream `grow` in the state,
constrained only to hold the elements; `s[i]` outside `[0, len)` and `s[:n]` with `n > cap` are run-time panics.
`calCapacity` is not translated here: it is the definition `Ekit.Gen.calCapacity` that `harness/extract` regenerates from
the same file (its float arithmetic is exact rational arithmetic there).  No procedure calls another one, so there is
no call handler; loops consume fuel.
-/
import Ekit.Generated.Slice

namespace Ekit.MiniGo.SL

inductive Val where
  | int (i : Int)
  | bool (b : Bool)
  | errIdx (len idx : Int)
  | nilErr
  | unit
  | slice (arr : Option Nat) (len cap : Nat)      -- `arr = none`: the nil slice (len = cap = 0)
  | pair (a b : Val)
  deriving DecidableEq, Repr, Inhabited

structure St where
  arrs : Nat → List Int
  alloc : Nat
  grow : List Nat          -- the runtime's capacity choices for the allocations still to come

inductive Fail where
  | panic | fuel | stuck
  deriving DecidableEq, Repr

abbrev Res (α : Type) := Except Fail α

inductive BinOp where
  | eq | ne | lt | gt | le | ge | add | sub | div | errIdx
  deriving Repr

def BinOp.apply : BinOp → Val → Val → Res Val
  | .eq, .int x, .int y => .ok (.bool (x == y))
  | .ne, .int x, .int y => .ok (.bool (x != y))
  | .eq, .bool x, .bool y => .ok (.bool (x == y))
  | .ne, .bool x, .bool y => .ok (.bool (x != y))
  | .lt, .int x, .int y => .ok (.bool (decide (x < y)))
  | .gt, .int x, .int y => .ok (.bool (decide (x > y)))
  | .le, .int x, .int y => .ok (.bool (decide (x ≤ y)))
  | .ge, .int x, .int y => .ok (.bool (decide (x ≥ y)))
  | .add, .int x, .int y => .ok (.int (x + y))
  | .sub, .int x, .int y => .ok (.int (x - y))
  | .div, .int x, .int y => if y = 0 then .error .panic else .ok (.int (Int.tdiv x y))
  | .errIdx, .int x, .int y => .ok (.errIdx x y)
  | _, _, _ => .error .stuck

inductive Expr where
  | int (i : Int)
  | bool (b : Bool)
  | nilSlice
  | nilErr
  | var (x : Nat)
  | len (e : Expr)
  | cap (e : Expr)
  | index (e i : Expr)                 -- `e[i]`
  | sliceTo (e n : Expr)               -- `e[:n]`
  | append1 (e x : Expr)               -- `append(e, x)`
  | appendAll (e s : Expr)             -- `append(e, s...)`
  | make0 (n : Expr)                   -- `make([]T, 0, n)`
  | bin (op : BinOp) (a b : Expr)
  | and (a b : Expr)
  | or (a b : Expr)
  | not (a : Expr)
  | calCap (c l : Expr)                -- `calCapacity(c, l)`: a pair
  | fst (e : Expr)
  | snd (e : Expr)
  deriving Repr

inductive Stmt where
  | skip
  | seq (a b : Stmt)
  | assign (x : Nat) (e : Expr)
  | setIndex (s i v : Expr)            -- `s[i] = v`
  | ite (c : Expr) (t e : Stmt)
  | loop (c : Expr) (body : Stmt)
  | ret (e : Expr)
  | ret2 (a b : Expr)
  | ret3 (a b c : Expr)
  deriving Repr

structure Proc where
  nparams : Nat
  body : Stmt

abbrev Env := Nat → Val
def Env.set (ρ : Env) (x : Nat) (v : Val) : Env := fun y => if y = x then v else ρ y
def Env.ofArgs (args : List Val) : Env := fun x => args.getD x .unit

def updA (h : Nat → List Int) (a : Nat) (l : List Int) : Nat → List Int := fun x => if x = a then l else h x

/-- `append(s, xs...)` -/
def appendVals (st : St) (arr : Option Nat) (len cap : Nat) (xs : List Int) : Res (Val × St) :=
  if xs.isEmpty then .ok (.slice arr len cap, st)
  else if len + xs.length ≤ cap then
    match arr with
    | some a =>
      let old := st.arrs a
      .ok (.slice (some a) (len + xs.length) cap,
           { st with arrs := updA st.arrs a (old.take len ++ xs ++ old.drop (len + xs.length)) })
    | none => .error .stuck
  else
    match st.grow with
    | g :: rest =>
      if g < len + xs.length then .error .stuck      -- the oracle must offer room for the elements
      else
        let cur : List Int := match arr with | some a => (st.arrs a).take len | none => []
        let fresh := cur ++ xs ++ List.replicate (g - (len + xs.length)) 0
        .ok (.slice (some st.alloc) (len + xs.length) g,
             { arrs := updA st.arrs st.alloc fresh, alloc := st.alloc + 1, grow := rest })
    | [] => .error .stuck

def evalE (ρ : Env) (st : St) : Expr → Res (Val × St)
  | .int i => .ok (.int i, st)
  | .bool b => .ok (.bool b, st)
  | .nilSlice => .ok (.slice none 0 0, st)
  | .nilErr => .ok (.nilErr, st)
  | .var x => .ok (ρ x, st)
  | .len e =>
    match evalE ρ st e with
    | .ok (.slice _ l _, s1) => .ok (.int l, s1)
    | .ok _ => .error .stuck
    | .error x => .error x
  | .cap e =>
    match evalE ρ st e with
    | .ok (.slice _ _ c, s1) => .ok (.int c, s1)
    | .ok _ => .error .stuck
    | .error x => .error x
  | .index e i =>
    match evalE ρ st e with
    | .ok (.slice arr l _, s1) =>
      match evalE ρ s1 i with
      | .ok (.int k, s2) =>
        if k < 0 ∨ k ≥ l then .error .panic
        else match arr with
          | some a => .ok (.int ((s2.arrs a).getD k.toNat 0), s2)
          | none => .error .panic
      | .ok _ => .error .stuck
      | .error x => .error x
    | .ok _ => .error .stuck
    | .error x => .error x
  | .sliceTo e n =>
    match evalE ρ st e with
    | .ok (.slice arr _ c, s1) =>
      match evalE ρ s1 n with
      | .ok (.int k, s2) => if k < 0 ∨ k > c then .error .panic else .ok (.slice arr k.toNat c, s2)
      | .ok _ => .error .stuck
      | .error x => .error x
    | .ok _ => .error .stuck
    | .error x => .error x
  | .append1 e x =>
    match evalE ρ st e with
    | .ok (.slice arr l c, s1) =>
      match evalE ρ s1 x with
      | .ok (.int v, s2) => appendVals s2 arr l c [v]
      | .ok _ => .error .stuck
      | .error x => .error x
    | .ok _ => .error .stuck
    | .error x => .error x
  | .appendAll e s =>
    match evalE ρ st e with
    | .ok (.slice arr l c, s1) =>
      match evalE ρ s1 s with
      | .ok (.slice arr2 l2 _, s2) =>
        let xs : List Int := match arr2 with | some a => (s2.arrs a).take l2 | none => []
        appendVals s2 arr l c xs
      | .ok _ => .error .stuck
      | .error x => .error x
    | .ok _ => .error .stuck
    | .error x => .error x
  | .make0 n =>
    match evalE ρ st n with
    | .ok (.int k, s1) =>
      if k < 0 then .error .panic
      else .ok (.slice (some s1.alloc) 0 k.toNat,
                { s1 with arrs := updA s1.arrs s1.alloc (List.replicate k.toNat 0), alloc := s1.alloc + 1 })
    | .ok _ => .error .stuck
    | .error x => .error x
  | .bin op a b =>
    match evalE ρ st a with
    | .ok (x, s1) =>
      match evalE ρ s1 b with
      | .ok (y, s2) =>
        match op.apply x y with
        | .ok r => .ok (r, s2)
        | .error e => .error e
      | .error e => .error e
    | .error e => .error e
  | .and a b =>
    match evalE ρ st a with
    | .ok (.bool false, s1) => .ok (.bool false, s1)
    | .ok (.bool true, s1) =>
      match evalE ρ s1 b with
      | .ok (.bool y, s2) => .ok (.bool y, s2)
      | .ok _ => .error .stuck
      | .error e => .error e
    | .ok _ => .error .stuck
    | .error e => .error e
  | .or a b =>
    match evalE ρ st a with
    | .ok (.bool true, s1) => .ok (.bool true, s1)
    | .ok (.bool false, s1) =>
      match evalE ρ s1 b with
      | .ok (.bool y, s2) => .ok (.bool y, s2)
      | .ok _ => .error .stuck
      | .error e => .error e
    | .ok _ => .error .stuck
    | .error e => .error e
  | .not a =>
    match evalE ρ st a with
    | .ok (.bool x, s1) => .ok (.bool (!x), s1)
    | .ok _ => .error .stuck
    | .error e => .error e
  | .calCap c l =>
    match evalE ρ st c with
    | .ok (.int x, s1) =>
      match evalE ρ s1 l with
      | .ok (.int y, s2) =>
        match Ekit.Gen.calCapacity x y with
        | some (n, ch) => .ok (.pair (.int n) (.bool ch), s2)
        | none => .error .panic                      -- integer divide by zero
      | .ok _ => .error .stuck
      | .error e => .error e
    | .ok _ => .error .stuck
    | .error e => .error e
  | .fst e =>
    match evalE ρ st e with
    | .ok (.pair a _, s1) => .ok (a, s1)
    | .ok _ => .error .stuck
    | .error x => .error x
  | .snd e =>
    match evalE ρ st e with
    | .ok (.pair _ b, s1) => .ok (b, s1)
    | .ok _ => .error .stuck
    | .error x => .error x

inductive Flow where
  | normal | ret (v : Val)
  deriving Repr

def iterate (cond : Env → St → Res (Val × St)) (body : Env → St → Res (Flow × Env × St)) :
    Nat → Env → St → Res (Flow × Env × St)
  | 0, _, _ => .error .fuel
  | n + 1, ρ, st =>
    match cond ρ st with
    | .ok (.bool false, st1) => .ok (.normal, ρ, st1)
    | .ok (.bool true, st1) =>
      match body ρ st1 with
      | .ok (.normal, ρ2, st2) => iterate cond body n ρ2 st2
      | .ok (.ret v, ρ2, st2) => .ok (.ret v, ρ2, st2)
      | .error e => .error e
    | .ok _ => .error .stuck
    | .error e => .error e

def exec (fuel : Nat) (ρ : Env) (st : St) : Stmt → Res (Flow × Env × St)
  | .skip => .ok (.normal, ρ, st)
  | .seq a b =>
    match exec fuel ρ st a with
    | .ok (.normal, ρ1, st1) => exec fuel ρ1 st1 b
    | .ok r => .ok r
    | .error e => .error e
  | .assign x e =>
    match evalE ρ st e with
    | .ok (v, st1) => .ok (.normal, ρ.set x v, st1)
    | .error e => .error e
  | .setIndex s i v =>
    match evalE ρ st s with
    | .ok (.slice arr l _, s1) =>
      match evalE ρ s1 i with
      | .ok (.int k, s2) =>
        match evalE ρ s2 v with
        | .ok (.int x, s3) =>
          if k < 0 ∨ k ≥ l then .error .panic
          else match arr with
            | some a => .ok (.normal, ρ, { s3 with arrs := updA s3.arrs a ((s3.arrs a).set k.toNat x) })
            | none => .error .panic
        | .ok _ => .error .stuck
        | .error e => .error e
      | .ok _ => .error .stuck
      | .error e => .error e
    | .ok _ => .error .stuck
    | .error e => .error e
  | .ite c t e =>
    match evalE ρ st c with
    | .ok (.bool true, st1) => exec fuel ρ st1 t
    | .ok (.bool false, st1) => exec fuel ρ st1 e
    | .ok _ => .error .stuck
    | .error x => .error x
  | .loop c body =>
    iterate (fun ρ st => evalE ρ st c) (fun ρ st => exec fuel ρ st body) fuel ρ st
  | .ret e =>
    match evalE ρ st e with
    | .ok (v, st1) => .ok (.ret v, ρ, st1)
    | .error e => .error e
  | .ret2 a b =>
    match evalE ρ st a with
    | .ok (x, st1) =>
      match evalE ρ st1 b with
      | .ok (y, st2) => .ok (.ret (.pair x y), ρ, st2)
      | .error e => .error e
    | .error e => .error e
  | .ret3 a b c =>
    match evalE ρ st a with
    | .ok (x, st1) =>
      match evalE ρ st1 b with
      | .ok (y, st2) =>
        match evalE ρ st2 c with
        | .ok (z, st3) => .ok (.ret (.pair x (.pair y z)), ρ, st3)
        | .error e => .error e
      | .error e => .error e
    | .error e => .error e

/-- run a procedure -/
def run (fuel : Nat) (p : Proc) (args : List Val) (st : St) : Res (Val × St) :=
  match exec fuel (Env.ofArgs args) st p.body with
  | .ok (.ret v, _, st1) => .ok (v, st1)
  | .ok (.normal, _, st1) => .ok (.unit, st1)
  | .error e => .error e

end Ekit.MiniGo.SL
