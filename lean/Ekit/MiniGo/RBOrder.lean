/-
Pointer-level search-tree order: the keys read off the heap in the in-order sequence of the address tree are strictly
ascending under the comparator.  K-computations (`Pres`) keep the in-order address list and every key field, hence
the order; `addNode` and `deleteNode` have their own lemmas (Lemmas/RBPtrAdd.lean, RBPtrDelete.lean).
-/
import Ekit.MiniGo.RBContract
import Ekit.Model.RBTree

namespace Ekit.MiniGo.RBHeap
open Ekit.MiniGo Ekit.Gen.RBTreeGo

/-- the keys in in-order sequence -/
def keysOf (st : St) (t : PT) : List Int := t.addrs.map fun a => (st.h a).key

/-- strictly ascending under the comparator (the same notion as `Ekit.RB.SMap.Sorted` of the functional model) -/
def Ordered (cmpF : Int → Int → Int) (st : St) (t : PT) : Prop :=
  (keysOf st t).Pairwise fun x y => cmpF x y < 0

theorem Pres.keysOf {st st' : St} {t t' : PT} (h : Pres st st' t t') : keysOf st' t' = keysOf st t := by
  simp only [RBHeap.keysOf, h.addrs]
  exact List.map_congr_left (fun a _ => h.keys a)

theorem Pres.ordered {cmpF : Int → Int → Int} {st st' : St} {t t' : PT} (h : Pres st st' t t')
    (ho : Ordered cmpF st t) : Ordered cmpF st' t' := by
  simp only [Ordered, h.keysOf]; exact ho

/-- the pointer-level invariant with order -/
def OrdWF (cmpF : Int → Int → Int) (st : St) : Prop := ∃ t, Holds st t ∧ Ordered cmpF st t

end Ekit.MiniGo.RBHeap
