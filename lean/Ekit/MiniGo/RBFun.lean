/-
The functional content of the pointer-level tree: the (key, value) entries in in-order sequence, and how the results of
the Go calls appear as MiniGo values — the vocabulary of C01 at the pointer level (refinement of the abstract sorted map
`Ekit.RB.SMap` of Ekit/Model/RBTree.lean by the translated internal/tree/red_black_tree.go).
-/
import Ekit.MiniGo.RBOrder

namespace Ekit.MiniGo.RBHeap
open Ekit.MiniGo Ekit.Gen.RBTreeGo

/-- the entries of the tree in in-order sequence -/
def entries (st : St) (t : PT) : List (Int × Int) := t.addrs.map fun a => ((st.h a).key, (st.h a).value)

theorem entries_keys (st : St) (t : PT) : (entries st t).map (·.1) = keysOf st t := by
  simp [entries, keysOf, List.map_map, Function.comp_def]

/-- `Ordered` is the abstract map's `Sorted` on the entries -/
theorem ordered_iff_sorted (cmpF : Int → Int → Int) (st : St) (t : PT) :
    Ordered cmpF st t ↔ Ekit.RB.SMap.Sorted cmpF (entries st t) := by
  simp only [Ordered, Ekit.RB.SMap.Sorted, keysOf, entries, List.pairwise_map]

/-- how a result of the abstract map's `step` appears as the MiniGo value returned by the translated method
    (`Add`/`Set` return an error; `Find` returns `(V, error)`; `Delete` returns `(V, bool)`) -/
def RetIs : Ekit.RB.Ret Int Int → Val → Prop
  | .ok, v => v = .ptr none
  | .errDup, v => v = .err err_ErrRBTreeSameRBNode
  | .errAbsent, v => v = .err err_ErrRBTreeNotRBNode ∨ ∃ z, v = .pair z (.err err_ErrRBTreeNotRBNode)
  | .val x, v => v = .pair (.int x) (.ptr none) ∨ v = .pair (.int x) (.bool true)
  | .none, v => v = .pair (.int 0) (.bool false)
  | _, _ => False

end Ekit.MiniGo.RBHeap
