/-
MiniGo, fifth instance: the subset of Go that `list/array_list.go` is written in — the aliasing slices of LangSL.lean
(same values, same heap of backing arrays `SL.St`, same `append`) plus the receiver `a *ArrayList` (one field `vals []T`),
method calls (as a parameter `callH`; `call` ties the knot by recursion on the fuel), named results, the variadic
`append(a.vals, ts...)`, `make([]T, 0, cap)`, `err != nil`, the index-out-of-range error value, and the cross-package
calls `slice.Add(a.vals, t, index)` (two results), `slice.Delete(a.vals, index)` (three results) and `slice.Shrink(a.vals)`,
whose meaning is the TRANSLATED function of the third instance (`Ekit.Gen.SliceGo.proc_Add/_Delete/_Shrink`, run by the
LangSL interpreter on the same heap of arrays, with its own fuel `sliceFuel` for their loops).  Multi-value results are
`SL.Val.pair`s, taken apart by `assign2` / `assign3`.  The file has no loop outside `Range` (not translated), so this
instance has none: a loop in the source makes the translator fail.  Index out of range / nil slice indexing is `Fail.panic`.
-/
import Ekit.Generated.SliceGo

namespace Ekit.MiniGo.AL
open Ekit.MiniGo.SL (Val Fail Res BinOp Env appendVals updA)

/-- the receiver `a *ArrayList` and the heap of arrays -/
structure St where
  mem : SL.St
  vals : Val            -- a `.slice`

inductive Expr (ν : Type) where
  | int (i : Int)
  | bool (b : Bool)
  | nilErr
  | var (x : Nat)
  | vals                                  -- `a.vals`
  | len (e : Expr ν)
  | cap (e : Expr ν)
  | index (e i : Expr ν)
  | appendAll (e s : Expr ν)              -- `append(e, s...)`
  | make0 (c : Expr ν)                    -- `make([]T, 0, c)`
  | bin (op : BinOp) (a b : Expr ν)
  | and (a b : Expr ν)
  | or (a b : Expr ν)
  | not (a : Expr ν)
  | isNil (e : Expr ν)                    -- `e == nil` for an error value
  | sliceAdd (s t i : Expr ν)             -- `slice.Add(s, t, i)`: the translated internal/slice.Add, a pair
  | sliceDelete (s i : Expr ν)            -- `slice.Delete(s, i)`: the translated internal/slice.Delete, a triple
  | sliceShrink (s : Expr ν)              -- `slice.Shrink(s)`: the translated internal/slice.Shrink
  | call0 (fn : ν)                        -- `a.fn()`
  deriving Repr

inductive Stmt (ν : Type) where
  | skip
  | seq (a b : Stmt ν)
  | assign (x : Nat) (e : Expr ν)
  | assign2 (x y : Nat) (e : Expr ν)      -- `x, y := e` for a two-result call
  | assign3 (x y z : Nat) (e : Expr ν)    -- `x, y, z := e` for a three-result call
  | setVals (e : Expr ν)                  -- `a.vals = e`
  | setIndex (s i v : Expr ν)             -- `s[i] = v`
  | ite (c : Expr ν) (t e : Stmt ν)
  | ret (e : Expr ν)
  | ret2 (a b : Expr ν)
  | expr (e : Expr ν)
  deriving Repr

structure Proc (ν : Type) where
  nparams : Nat
  body : Stmt ν

inductive Flow where
  | normal | ret (v : Val)
  deriving Repr

abbrev CallH (ν : Type) := ν → List Val → St → Res (Val × St)

def readIdx (st : St) (arr : Option Nat) (l : Nat) (k : Int) : Res Int :=
  if k < 0 ∨ k ≥ l then .error .panic
  else match arr with
    | some a => .ok ((st.mem.arrs a).getD k.toNat 0)
    | none => .error .panic

def writeIdx (st : St) (arr : Option Nat) (l : Nat) (k : Int) (x : Int) : Res St :=
  if k < 0 ∨ k ≥ l then .error .panic
  else match arr with
    | some a => .ok { st with mem := { st.mem with arrs := updA st.mem.arrs a ((st.mem.arrs a).set k.toNat x) } }
    | none => .error .panic

/-- a call into the translated internal/slice: runs on the receiver's heap of arrays -/
def foreign (sliceFuel : Nat) (p : SL.Proc) (args : List Val) (st : St) : Res (Val × St) :=
  match SL.run sliceFuel p args st.mem with
  | .ok (r, m) => .ok (r, { st with mem := m })
  | .error x => .error x

section
variable {ν : Type} (sliceFuel : Nat) (callH : CallH ν)

def evalE (ρ : Env) (st : St) : Expr ν → Res (Val × St)
  | .int i => .ok (.int i, st)
  | .bool b => .ok (.bool b, st)
  | .nilErr => .ok (.nilErr, st)
  | .var x => .ok (ρ x, st)
  | .vals => .ok (st.vals, st)
  | .len e =>
    match evalE ρ st e with
    | .ok (.slice _ l _, s1) => .ok (.int l, s1)
    | .ok _ => .error .stuck
    | .error x => .error x
  | .cap e =>
    match evalE ρ st e with
    | .ok (.slice _ _ c, s1) => .ok (.int c, s1)
    | .ok _ => .error .stuck
    | .error x => .error x
  | .index e i =>
    match evalE ρ st e with
    | .ok (.slice arr l _, s1) =>
      match evalE ρ s1 i with
      | .ok (.int k, s2) =>
        match readIdx s2 arr l k with
        | .ok v => .ok (.int v, s2)
        | .error x => .error x
      | .ok _ => .error .stuck
      | .error x => .error x
    | .ok _ => .error .stuck
    | .error x => .error x
  | .appendAll e s =>
    match evalE ρ st e with
    | .ok (.slice arr l c, s1) =>
      match evalE ρ s1 s with
      | .ok (.slice arr2 l2 _, s2) =>
        let xs : List Int := match arr2 with | some a => (s2.mem.arrs a).take l2 | none => []
        match appendVals s2.mem arr l c xs with
        | .ok (r, m) => .ok (r, { s2 with mem := m })
        | .error x => .error x
      | .ok _ => .error .stuck
      | .error x => .error x
    | .ok _ => .error .stuck
    | .error x => .error x
  | .make0 c =>
    match evalE ρ st c with
    | .ok (.int k, s1) =>
      if k < 0 then .error .panic
      else .ok (.slice (some s1.mem.alloc) 0 k.toNat,
                { s1 with mem := { s1.mem with arrs := updA s1.mem.arrs s1.mem.alloc (List.replicate k.toNat 0),
                                               alloc := s1.mem.alloc + 1 } })
    | .ok _ => .error .stuck
    | .error x => .error x
  | .bin op a b =>
    match evalE ρ st a with
    | .ok (x, s1) =>
      match evalE ρ s1 b with
      | .ok (y, s2) =>
        match op.apply x y with
        | .ok r => .ok (r, s2)
        | .error e => .error e
      | .error e => .error e
    | .error e => .error e
  | .and a b =>
    match evalE ρ st a with
    | .ok (.bool false, s1) => .ok (.bool false, s1)
    | .ok (.bool true, s1) =>
      match evalE ρ s1 b with
      | .ok (.bool y, s2) => .ok (.bool y, s2)
      | .ok _ => .error .stuck
      | .error e => .error e
    | .ok _ => .error .stuck
    | .error e => .error e
  | .or a b =>
    match evalE ρ st a with
    | .ok (.bool true, s1) => .ok (.bool true, s1)
    | .ok (.bool false, s1) =>
      match evalE ρ s1 b with
      | .ok (.bool y, s2) => .ok (.bool y, s2)
      | .ok _ => .error .stuck
      | .error e => .error e
    | .ok _ => .error .stuck
    | .error e => .error e
  | .not a =>
    match evalE ρ st a with
    | .ok (.bool x, s1) => .ok (.bool (!x), s1)
    | .ok _ => .error .stuck
    | .error e => .error e
  | .isNil e =>
    match evalE ρ st e with
    | .ok (.nilErr, s1) => .ok (.bool true, s1)
    | .ok (.errIdx _ _, s1) => .ok (.bool false, s1)
    | .ok _ => .error .stuck
    | .error x => .error x
  | .sliceAdd s t i =>
    match evalE ρ st s with
    | .ok (x, s1) =>
      match evalE ρ s1 t with
      | .ok (y, s2) =>
        match evalE ρ s2 i with
        | .ok (z, s3) => foreign sliceFuel Ekit.Gen.SliceGo.proc_Add [x, y, z] s3
        | .error e => .error e
      | .error e => .error e
    | .error e => .error e
  | .sliceDelete s i =>
    match evalE ρ st s with
    | .ok (x, s1) =>
      match evalE ρ s1 i with
      | .ok (y, s2) => foreign sliceFuel Ekit.Gen.SliceGo.proc_Delete [x, y] s2
      | .error e => .error e
    | .error e => .error e
  | .sliceShrink s =>
    match evalE ρ st s with
    | .ok (x, s1) => foreign sliceFuel Ekit.Gen.SliceGo.proc_Shrink [x] s1
    | .error e => .error e
  | .call0 fn => callH fn [] st

def exec (ρ : Env) (st : St) : Stmt ν → Res (Flow × Env × St)
  | .skip => .ok (.normal, ρ, st)
  | .seq a b =>
    match exec ρ st a with
    | .ok (.normal, ρ1, st1) => exec ρ1 st1 b
    | .ok r => .ok r
    | .error e => .error e
  | .assign x e =>
    match evalE sliceFuel callH ρ st e with
    | .ok (v, st1) => .ok (.normal, ρ.set x v, st1)
    | .error e => .error e
  | .assign2 x y e =>
    match evalE sliceFuel callH ρ st e with
    | .ok (.pair v w, st1) => .ok (.normal, (ρ.set x v).set y w, st1)
    | .ok _ => .error .stuck
    | .error e => .error e
  | .assign3 x y z e =>
    match evalE sliceFuel callH ρ st e with
    | .ok (.pair v (.pair w u), st1) => .ok (.normal, ((ρ.set x v).set y w).set z u, st1)
    | .ok _ => .error .stuck
    | .error e => .error e
  | .setVals e =>
    match evalE sliceFuel callH ρ st e with
    | .ok (.slice a l c, st1) => .ok (.normal, ρ, { st1 with vals := .slice a l c })
    | .ok _ => .error .stuck
    | .error e => .error e
  | .setIndex s i v =>
    match evalE sliceFuel callH ρ st s with
    | .ok (.slice arr l _, s1) =>
      match evalE sliceFuel callH ρ s1 i with
      | .ok (.int k, s2) =>
        match evalE sliceFuel callH ρ s2 v with
        | .ok (.int x, s3) =>
          match writeIdx s3 arr l k x with
          | .ok s4 => .ok (.normal, ρ, s4)
          | .error e => .error e
        | .ok _ => .error .stuck
        | .error e => .error e
      | .ok _ => .error .stuck
      | .error e => .error e
    | .ok _ => .error .stuck
    | .error e => .error e
  | .ite c t e =>
    match evalE sliceFuel callH ρ st c with
    | .ok (.bool true, st1) => exec ρ st1 t
    | .ok (.bool false, st1) => exec ρ st1 e
    | .ok _ => .error .stuck
    | .error x => .error x
  | .ret e =>
    match evalE sliceFuel callH ρ st e with
    | .ok (v, st1) => .ok (.ret v, ρ, st1)
    | .error e => .error e
  | .ret2 a b =>
    match evalE sliceFuel callH ρ st a with
    | .ok (x, st1) =>
      match evalE sliceFuel callH ρ st1 b with
      | .ok (y, st2) => .ok (.ret (.pair x y), ρ, st2)
      | .error e => .error e
    | .error e => .error e
  | .expr e =>
    match evalE sliceFuel callH ρ st e with
    | .ok (_, st1) => .ok (.normal, ρ, st1)
    | .error e => .error e

def runBody (p : Proc ν) (args : List Val) (st : St) : Res (Val × St) :=
  match exec sliceFuel callH (SL.Env.ofArgs args) st p.body with
  | .ok (.ret v, _, st1) => .ok (v, st1)
  | .ok (.normal, _, st1) => .ok (.unit, st1)
  | .error e => .error e

end

/-- every call costs one unit of fuel; `sliceFuel` bounds the loops of the translated internal/slice functions -/
def call {ν : Type} (sliceFuel : Nat) (procs : ν → Proc ν) : Nat → CallH ν
  | 0 => fun _ _ _ => .error .fuel
  | f + 1 => fun fn args st => runBody sliceFuel (call sliceFuel procs f) (procs fn) args st

/-- a slice built by the CALLER (the variadic argument of `a.Append(t1, …, tn)`, the argument of `NewArrayListOf`): a fresh
    array of the heap holding exactly `ts`, of capacity `max c (len ts)`; the nil slice when that is 0 -/
def allocSlice (st : St) (ts : List Int) (c : Nat) : Val × St :=
  let c := max c ts.length
  if c = 0 then (.slice none 0 0, st) else
  (.slice (some st.mem.alloc) ts.length c,
   { st with mem := { st.mem with arrs := updA st.mem.arrs st.mem.alloc (ts ++ List.replicate (c - ts.length) 0),
                                  alloc := st.mem.alloc + 1 } })

/-- install the runtime's capacity choice for the next allocating `append` (oracle) -/
def withGrow (st : St) (g : Nat) : St := { st with mem := { st.mem with grow := [g, g] } }

end Ekit.MiniGo.AL
