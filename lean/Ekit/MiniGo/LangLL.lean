/-
MiniGo, second instance: the subset of Go that `list/linked_list.go` is written in (a doubly linked ring with two
sentinels).  Same design as Ekit/MiniGo/Lang.lean (deep embedding produced by `harness/minigo -profile ll`, all
semantics in the interpreter below, calls as a parameter, fuel for calls and loops) with the record layout of that file
(`node{prev,next,val}`, `LinkedList{head,tail,length}`) and the constructs it needs in addition: integer `-`, `/`
(Go's truncating division, zero divisor = run-time panic), `<=`, `>=`, parallel assignment of two fields (`a.f, b.g = x, y`:
Go evaluates the pointer operands of both targets and both right-hand sides first, then assigns left to right),
`for _, t := range ts` over a variadic `[]T`, and the index-out-of-range error value with its two integers.
A separate copy rather than a generalisation of Lang.lean, so that the proofs about the red-black tree are not disturbed.
-/
namespace Ekit.MiniGo.LL

inductive Fld where
  | prev | next | val
  deriving DecidableEq, Repr

inductive Val where
  | ptr (p : Option Nat)
  | int (i : Int)
  | bool (b : Bool)
  | errIdx (len idx : Int)     -- `errs.NewErrIndexOutOfRange(len, idx)`
  | unit
  | pair (a b : Val)
  | ints (l : List Int)        -- a `[]T` argument (variadic `ts ...T`)
  deriving DecidableEq, Repr, Inhabited

structure Node where
  prev : Option Nat := none
  next : Option Nat := none
  val : Int := 0
  deriving DecidableEq, Repr, Inhabited

def Node.get (n : Node) : Fld → Val
  | .prev => .ptr n.prev
  | .next => .ptr n.next
  | .val => .int n.val

def Node.set (n : Node) : Fld → Val → Option Node
  | .prev, .ptr p => some { n with prev := p }
  | .next, .ptr p => some { n with next := p }
  | .val, .int i => some { n with val := i }
  | _, _ => none

/-- the receiver `l *LinkedList` and the heap -/
structure St where
  h : Nat → Node
  alloc : Nat
  head : Option Nat
  tail : Option Nat
  length : Int

def upd (h : Nat → Node) (a : Nat) (n : Node) : Nat → Node := fun x => if x = a then n else h x

inductive Fail where
  | panic | fuel | stuck
  deriving DecidableEq, Repr

inductive Expr (ν : Type) where
  | nil
  | int (i : Int)
  | bool (b : Bool)
  | unit
  | var (x : Nat)
  | field (e : Expr ν) (f : Fld)
  | head
  | tail
  | length
  | eq (a b : Expr ν)
  | ne (a b : Expr ν)
  | lt (a b : Expr ν)
  | gt (a b : Expr ν)
  | le (a b : Expr ν)
  | ge (a b : Expr ν)
  | and (a b : Expr ν)
  | or (a b : Expr ν)
  | not (a : Expr ν)
  | add (a b : Expr ν)
  | sub (a b : Expr ν)
  | div (a b : Expr ν)
  | errIdx (a b : Expr ν)
  | single (a : Expr ν)                      -- `l.Append(t)`: the one-element variadic slice
  | call0 (fn : ν)
  | call1 (fn : ν) (a : Expr ν)
  | call2 (fn : ν) (a b : Expr ν)
  | alloc (prev next val : Expr ν)            -- `&node{…}`
  deriving Repr

inductive Stmt (ν : Type) where
  | skip
  | seq (a b : Stmt ν)
  | assign (x : Nat) (e : Expr ν)
  | setField (p : Expr ν) (f : Fld) (e : Expr ν)
  | setField2 (p1 : Expr ν) (f1 : Fld) (p2 : Expr ν) (f2 : Fld) (e1 e2 : Expr ν)
  | setHead (e : Expr ν)
  | setTail (e : Expr ν)
  | setLength (e : Expr ν)
  | ite (c : Expr ν) (t e : Stmt ν)
  | loop (c : Expr ν) (body : Stmt ν)
  | range (x : Nat) (e : Expr ν) (body : Stmt ν)   -- `for _, x := range e { body }`
  | ret (e : Expr ν)
  | ret2 (a b : Expr ν)
  | expr (e : Expr ν)
  | continue_
  | break_
  deriving Repr

structure Proc (ν : Type) where
  nparams : Nat
  body : Stmt ν

abbrev Env := Nat → Val
def Env.set (ρ : Env) (x : Nat) (v : Val) : Env := fun y => if y = x then v else ρ y
def Env.ofArgs (args : List Val) : Env := fun x => args.getD x .unit

inductive Flow where
  | normal | cont | brk | ret (v : Val)
  deriving Repr

abbrev Res (α : Type) := Except Fail α
abbrev CallH (ν : Type) := ν → List Val → St → Res (Val × St)

def valEq : Val → Val → Option Bool
  | .ptr a, .ptr b => some (a == b)
  | .int a, .int b => some (a == b)
  | .bool a, .bool b => some (a == b)
  | .errIdx .., .ptr none => some false
  | .ptr none, .errIdx .. => some false
  | _, _ => none

/-- the strict binary operators on values; `none` = ill-typed -/
inductive BinOp where
  | eq | ne | lt | gt | le | ge | add | sub | div | errIdx

def BinOp.apply : BinOp → Val → Val → Res Val
  | .eq, x, y => match valEq x y with | some r => .ok (.bool r) | none => .error .stuck
  | .ne, x, y => match valEq x y with | some r => .ok (.bool (!r)) | none => .error .stuck
  | .lt, .int x, .int y => .ok (.bool (decide (x < y)))
  | .gt, .int x, .int y => .ok (.bool (decide (x > y)))
  | .le, .int x, .int y => .ok (.bool (decide (x ≤ y)))
  | .ge, .int x, .int y => .ok (.bool (decide (x ≥ y)))
  | .add, .int x, .int y => .ok (.int (x + y))
  | .sub, .int x, .int y => .ok (.int (x - y))
  | .div, .int x, .int y => if y = 0 then .error .panic else .ok (.int (Int.tdiv x y))
  | .errIdx, .int x, .int y => .ok (.errIdx x y)
  | _, _, _ => .error .stuck

section
variable {ν : Type} (callH : CallH ν)

/-- evaluate two expressions in sequence and combine the values -/
def seq2 (r1 : Res (Val × St)) (k : St → Res (Val × St)) (op : BinOp) : Res (Val × St) :=
  match r1 with
  | .ok (x, s1) =>
    match k s1 with
    | .ok (y, s2) =>
      match op.apply x y with
      | .ok r => .ok (r, s2)
      | .error e => .error e
    | .error e => .error e
  | .error e => .error e

def evalE (ρ : Env) (st : St) : Expr ν → Res (Val × St)
  | .nil => .ok (.ptr none, st)
  | .int i => .ok (.int i, st)
  | .bool b => .ok (.bool b, st)
  | .unit => .ok (.unit, st)
  | .var x => .ok (ρ x, st)
  | .field e f =>
    match evalE ρ st e with
    | .ok (.ptr (some a), st1) => .ok ((st1.h a).get f, st1)
    | .ok (.ptr none, _) => .error .panic
    | .ok _ => .error .stuck
    | .error x => .error x
  | .head => .ok (.ptr st.head, st)
  | .tail => .ok (.ptr st.tail, st)
  | .length => .ok (.int st.length, st)
  | .eq a b => seq2 (evalE ρ st a) (fun s => evalE ρ s b) .eq
  | .ne a b => seq2 (evalE ρ st a) (fun s => evalE ρ s b) .ne
  | .lt a b => seq2 (evalE ρ st a) (fun s => evalE ρ s b) .lt
  | .gt a b => seq2 (evalE ρ st a) (fun s => evalE ρ s b) .gt
  | .le a b => seq2 (evalE ρ st a) (fun s => evalE ρ s b) .le
  | .ge a b => seq2 (evalE ρ st a) (fun s => evalE ρ s b) .ge
  | .add a b => seq2 (evalE ρ st a) (fun s => evalE ρ s b) .add
  | .sub a b => seq2 (evalE ρ st a) (fun s => evalE ρ s b) .sub
  | .div a b => seq2 (evalE ρ st a) (fun s => evalE ρ s b) .div
  | .errIdx a b => seq2 (evalE ρ st a) (fun s => evalE ρ s b) .errIdx
  | .and a b =>
    match evalE ρ st a with
    | .ok (.bool false, st1) => .ok (.bool false, st1)
    | .ok (.bool true, st1) =>
      match evalE ρ st1 b with
      | .ok (.bool y, st2) => .ok (.bool y, st2)
      | .ok _ => .error .stuck
      | .error e => .error e
    | .ok _ => .error .stuck
    | .error e => .error e
  | .or a b =>
    match evalE ρ st a with
    | .ok (.bool true, st1) => .ok (.bool true, st1)
    | .ok (.bool false, st1) =>
      match evalE ρ st1 b with
      | .ok (.bool y, st2) => .ok (.bool y, st2)
      | .ok _ => .error .stuck
      | .error e => .error e
    | .ok _ => .error .stuck
    | .error e => .error e
  | .not a =>
    match evalE ρ st a with
    | .ok (.bool x, st1) => .ok (.bool (!x), st1)
    | .ok _ => .error .stuck
    | .error e => .error e
  | .single a =>
    match evalE ρ st a with
    | .ok (.int x, st1) => .ok (.ints [x], st1)
    | .ok _ => .error .stuck
    | .error e => .error e
  | .call0 fn => callH fn [] st
  | .call1 fn a =>
    match evalE ρ st a with
    | .ok (x, st1) => callH fn [x] st1
    | .error e => .error e
  | .call2 fn a b =>
    match evalE ρ st a with
    | .ok (x, st1) =>
      match evalE ρ st1 b with
      | .ok (y, st2) => callH fn [x, y] st2
      | .error e => .error e
    | .error e => .error e
  | .alloc p n v =>
    match evalE ρ st p with
    | .ok (.ptr p', s1) =>
      match evalE ρ s1 n with
      | .ok (.ptr n', s2) =>
        match evalE ρ s2 v with
        | .ok (.int v', s3) =>
          .ok (.ptr (some s3.alloc), { s3 with h := upd s3.h s3.alloc ⟨p', n', v'⟩, alloc := s3.alloc + 1 })
        | .ok _ => .error .stuck
        | .error e => .error e
      | .ok _ => .error .stuck
      | .error e => .error e
    | .ok _ => .error .stuck
    | .error e => .error e

def iterate (cond : Env → St → Res (Val × St)) (body : Env → St → Res (Flow × Env × St)) :
    Nat → Env → St → Res (Flow × Env × St)
  | 0, _, _ => .error .fuel
  | n + 1, ρ, st =>
    match cond ρ st with
    | .ok (.bool false, st1) => .ok (.normal, ρ, st1)
    | .ok (.bool true, st1) =>
      match body ρ st1 with
      | .ok (.normal, ρ2, st2) => iterate cond body n ρ2 st2
      | .ok (.cont, ρ2, st2) => iterate cond body n ρ2 st2
      | .ok (.brk, ρ2, st2) => .ok (.normal, ρ2, st2)
      | .ok (.ret v, ρ2, st2) => .ok (.ret v, ρ2, st2)
      | .error e => .error e
    | .ok _ => .error .stuck
    | .error e => .error e

/-- `for _, x := range ts { body }` -/
def iterRange (x : Nat) (body : Env → St → Res (Flow × Env × St)) : List Int → Env → St → Res (Flow × Env × St)
  | [], ρ, st => .ok (.normal, ρ, st)
  | t :: ts, ρ, st =>
    match body (ρ.set x (.int t)) st with
    | .ok (.normal, ρ2, st2) => iterRange x body ts ρ2 st2
    | .ok (.cont, ρ2, st2) => iterRange x body ts ρ2 st2
    | .ok (.brk, ρ2, st2) => .ok (.normal, ρ2, st2)
    | .ok (.ret v, ρ2, st2) => .ok (.ret v, ρ2, st2)
    | .error e => .error e

def writeField (st : St) (pv : Val) (f : Fld) (v : Val) : Res St :=
  match pv with
  | .ptr (some a) =>
    match (st.h a).set f v with
    | some n => .ok { st with h := upd st.h a n }
    | none => .error .stuck
  | .ptr none => .error .panic
  | _ => .error .stuck

def exec (loopFuel : Nat) (ρ : Env) (st : St) : Stmt ν → Res (Flow × Env × St)
  | .skip => .ok (.normal, ρ, st)
  | .seq a b =>
    match exec loopFuel ρ st a with
    | .ok (.normal, ρ1, st1) => exec loopFuel ρ1 st1 b
    | .ok r => .ok r
    | .error e => .error e
  | .assign x e =>
    match evalE callH ρ st e with
    | .ok (v, st1) => .ok (.normal, ρ.set x v, st1)
    | .error e => .error e
  | .setField p f e =>
    match evalE callH ρ st p with
    | .ok (pv, st1) =>
      match evalE callH ρ st1 e with
      | .ok (v, st2) =>
        match writeField st2 pv f v with
        | .ok st3 => .ok (.normal, ρ, st3)
        | .error e => .error e
      | .error e => .error e
    | .error e => .error e
  | .setField2 p1 f1 p2 f2 e1 e2 =>
    match evalE callH ρ st p1 with
    | .ok (pv1, s1) =>
      match evalE callH ρ s1 p2 with
      | .ok (pv2, s2) =>
        match evalE callH ρ s2 e1 with
        | .ok (v1, s3) =>
          match evalE callH ρ s3 e2 with
          | .ok (v2, s4) =>
            match writeField s4 pv1 f1 v1 with
            | .ok s5 =>
              match writeField s5 pv2 f2 v2 with
              | .ok s6 => .ok (.normal, ρ, s6)
              | .error e => .error e
            | .error e => .error e
          | .error e => .error e
        | .error e => .error e
      | .error e => .error e
    | .error e => .error e
  | .setHead e =>
    match evalE callH ρ st e with
    | .ok (.ptr p, st1) => .ok (.normal, ρ, { st1 with head := p })
    | .ok _ => .error .stuck
    | .error e => .error e
  | .setTail e =>
    match evalE callH ρ st e with
    | .ok (.ptr p, st1) => .ok (.normal, ρ, { st1 with tail := p })
    | .ok _ => .error .stuck
    | .error e => .error e
  | .setLength e =>
    match evalE callH ρ st e with
    | .ok (.int i, st1) => .ok (.normal, ρ, { st1 with length := i })
    | .ok _ => .error .stuck
    | .error e => .error e
  | .ite c t e =>
    match evalE callH ρ st c with
    | .ok (.bool true, st1) => exec loopFuel ρ st1 t
    | .ok (.bool false, st1) => exec loopFuel ρ st1 e
    | .ok _ => .error .stuck
    | .error x => .error x
  | .loop c body =>
    iterate (fun ρ st => evalE callH ρ st c) (fun ρ st => exec loopFuel ρ st body) loopFuel ρ st
  | .range x e body =>
    match evalE callH ρ st e with
    | .ok (.ints ts, st1) => iterRange x (fun ρ st => exec loopFuel ρ st body) ts ρ st1
    | .ok _ => .error .stuck
    | .error e => .error e
  | .ret e =>
    match evalE callH ρ st e with
    | .ok (v, st1) => .ok (.ret v, ρ, st1)
    | .error e => .error e
  | .ret2 a b =>
    match evalE callH ρ st a with
    | .ok (x, st1) =>
      match evalE callH ρ st1 b with
      | .ok (y, st2) => .ok (.ret (.pair x y), ρ, st2)
      | .error e => .error e
    | .error e => .error e
  | .expr e =>
    match evalE callH ρ st e with
    | .ok (_, st1) => .ok (.normal, ρ, st1)
    | .error e => .error e
  | .continue_ => .ok (.cont, ρ, st)
  | .break_ => .ok (.brk, ρ, st)

def runBody (loopFuel : Nat) (p : Proc ν) (args : List Val) (st : St) : Res (Val × St) :=
  match exec callH loopFuel (Env.ofArgs args) st p.body with
  | .ok (.ret v, _, st1) => .ok (v, st1)
  | .ok (.normal, _, st1) => .ok (.unit, st1)
  | .ok _ => .error .stuck
  | .error e => .error e

end

def call {ν : Type} (procs : ν → Proc ν) : Nat → CallH ν
  | 0 => fun _ _ _ => .error .fuel
  | f + 1 => fun fn args st => runBody (call procs f) f (procs fn) args st

end Ekit.MiniGo.LL
