/-
MiniGo, fifth instance: the subset of Go that `mapx/hashmap.go` is written in (the chained hash map with a node pool).
Same design as Ekit/MiniGo/LangLL.lean (deep embedding produced by `harness/minigohm`, all semantics in the interpreter
below, calls as a parameter, fuel for calls and loops) with the record layout of that file:

* `node{key,value,next}` on a heap `Nat → Node`; a pointer is `Option Nat`; a field access through nil is `Fail.panic`;
* the receiver `m *HashMap`: the Go map field `hashmap map[uint64]*node` is a FUNCTION from codes to an OPTIONAL head pointer
  (`none` = the key is absent, `some none` = present with a nil head: presence is what the comma-ok read `root, ok := m.hashmap[c]`
  observes), `m.hashmap[c] = e`, `delete(m.hashmap, c)`;
* the node pool `nodePool *syncx.Pool[*node]` (a `sync.Pool`): the list of the addresses handed to `Put` and not handed out
  again.  `Get` returns one of them or a new node made by the pool's factory; WHICH is the run time's choice: the oracle
  `St.choice` (an index into the pool list; `none` or an index outside the list = the factory).  A pooled node keeps
  whatever fields it was left with — that is the point of `formatting()`;
* the user's `key.Code()` and `a.Equals(b)` are the parameters `codeF`, `eqF` of the interpreter (no fuel, no state).

Keys and values are integers (the zero value of `T` / `ValType` is `0`).
-/
namespace Ekit.MiniGo.HM

inductive Fld where
  | key | value | next
  deriving DecidableEq, Repr

inductive Val where
  | ptr (p : Option Nat)
  | int (i : Int)
  | bool (b : Bool)
  | unit
  | pair (a b : Val)
  deriving DecidableEq, Repr, Inhabited

structure Node where
  key : Int := 0
  value : Int := 0
  next : Option Nat := none
  deriving DecidableEq, Repr, Inhabited

def Node.get (n : Node) : Fld → Val
  | .key => .int n.key
  | .value => .int n.value
  | .next => .ptr n.next

def Node.set (n : Node) : Fld → Val → Option Node
  | .key, .int i => some { n with key := i }
  | .value, .int i => some { n with value := i }
  | .next, .ptr p => some { n with next := p }
  | _, _ => none

/-- the receiver `m *HashMap`, the heap, and the run-time choice of `sync.Pool.Get` for this call -/
structure St where
  h : Nat → Node
  alloc : Nat
  /-- `m.hashmap` -/
  map : Int → Option (Option Nat)
  /-- `m.nodePool`: nodes `Put` and not handed out again, most recent first -/
  pool : List Nat
  /-- oracle: which pooled node the next `Get` returns -/
  choice : Option Nat

def upd (h : Nat → Node) (a : Nat) (n : Node) : Nat → Node := fun x => if x = a then n else h x
def updMap (m : Int → Option (Option Nat)) (c : Int) (v : Option (Option Nat)) : Int → Option (Option Nat) :=
  fun x => if x = c then v else m x

inductive Fail where
  | panic | fuel | stuck
  deriving DecidableEq, Repr

inductive Expr (ν : Type) where
  | nil
  | int (i : Int)
  | bool (b : Bool)
  | unit
  | var (x : Nat)
  | field (e : Expr ν) (f : Fld)
  | eq (a b : Expr ν)
  | ne (a b : Expr ν)
  | and (a b : Expr ν)
  | or (a b : Expr ν)
  | not (a : Expr ν)
  | add (a b : Expr ν)
  | code (a : Expr ν)                         -- `a.Code()`
  | equals (a b : Expr ν)                     -- `a.Equals(b)`
  | poolGet (factory : ν)                     -- `m.nodePool.Get()`; `factory` = the func literal given to `syncx.NewPool`
  | call0 (fn : ν)
  | call1 (fn : ν) (a : Expr ν)
  | call2 (fn : ν) (a b : Expr ν)
  | alloc (key value next : Expr ν)           -- `&node{…}`
  deriving Repr

inductive Stmt (ν : Type) where
  | skip
  | seq (a b : Stmt ν)
  | assign (x : Nat) (e : Expr ν)
  | setField (p : Expr ν) (f : Fld) (e : Expr ν)
  | mapRead (x ok : Nat) (c : Expr ν)         -- `x, ok := m.hashmap[c]`
  | mapSet (c : Expr ν) (e : Expr ν)          -- `m.hashmap[c] = e`
  | mapDelete (c : Expr ν)                    -- `delete(m.hashmap, c)`
  | mapInit (size : Expr ν)                   -- constructor: `hashmap: make(map[uint64]*node, size)`
  | poolInit                                  -- constructor: `nodePool: syncx.NewPool(factory)`
  | poolPut (e : Expr ν)                      -- `m.nodePool.Put(e)`
  | ite (c : Expr ν) (t e : Stmt ν)
  | loop (c : Expr ν) (body : Stmt ν)
  | ret (e : Expr ν)
  | ret2 (a b : Expr ν)
  | expr (e : Expr ν)
  | continue_
  | break_
  deriving Repr

structure Proc (ν : Type) where
  nparams : Nat
  body : Stmt ν

abbrev Env := Nat → Val
def Env.set (ρ : Env) (x : Nat) (v : Val) : Env := fun y => if y = x then v else ρ y
def Env.ofArgs (args : List Val) : Env := fun x => args.getD x .unit

inductive Flow where
  | normal | cont | brk | ret (v : Val)
  deriving Repr

abbrev Res (α : Type) := Except Fail α
abbrev CallH (ν : Type) := ν → List Val → St → Res (Val × St)

def valEq : Val → Val → Option Bool
  | .ptr a, .ptr b => some (a == b)
  | .int a, .int b => some (a == b)
  | .bool a, .bool b => some (a == b)
  | _, _ => none

inductive BinOp where
  | eq | ne | add | equals

/-- the user's key type -/
structure KeyOps where
  codeF : Int → Int
  eqF : Int → Int → Bool

def BinOp.apply (ko : KeyOps) : BinOp → Val → Val → Res Val
  | .eq, x, y => match valEq x y with | some r => .ok (.bool r) | none => .error .stuck
  | .ne, x, y => match valEq x y with | some r => .ok (.bool (!r)) | none => .error .stuck
  | .add, .int x, .int y => .ok (.int (x + y))
  | .equals, .int x, .int y => .ok (.bool (ko.eqF x y))
  | _, _, _ => .error .stuck

/-- `sync.Pool.Get` on the pool list: `some (a, rest)` = the pooled node `a` is handed out, `none` = the factory runs -/
def poolPick (pool : List Nat) (choice : Option Nat) : Option (Nat × List Nat) :=
  match choice with
  | none => none
  | some i =>
    match pool[i]? with
    | some a => some (a, pool.eraseIdx i)
    | none => none

section
variable {ν : Type} (ko : KeyOps) (callH : CallH ν)

def seq2 (r1 : Res (Val × St)) (k : St → Res (Val × St)) (op : BinOp) : Res (Val × St) :=
  match r1 with
  | .ok (x, s1) =>
    match k s1 with
    | .ok (y, s2) =>
      match op.apply ko x y with
      | .ok r => .ok (r, s2)
      | .error e => .error e
    | .error e => .error e
  | .error e => .error e

def evalE (ρ : Env) (st : St) : Expr ν → Res (Val × St)
  | .nil => .ok (.ptr none, st)
  | .int i => .ok (.int i, st)
  | .bool b => .ok (.bool b, st)
  | .unit => .ok (.unit, st)
  | .var x => .ok (ρ x, st)
  | .field e f =>
    match evalE ρ st e with
    | .ok (.ptr (some a), st1) => .ok ((st1.h a).get f, st1)
    | .ok (.ptr none, _) => .error .panic
    | .ok _ => .error .stuck
    | .error x => .error x
  | .eq a b => seq2 ko (evalE ρ st a) (fun s => evalE ρ s b) .eq
  | .ne a b => seq2 ko (evalE ρ st a) (fun s => evalE ρ s b) .ne
  | .add a b => seq2 ko (evalE ρ st a) (fun s => evalE ρ s b) .add
  | .equals a b => seq2 ko (evalE ρ st a) (fun s => evalE ρ s b) .equals
  | .and a b =>
    match evalE ρ st a with
    | .ok (.bool false, st1) => .ok (.bool false, st1)
    | .ok (.bool true, st1) =>
      match evalE ρ st1 b with
      | .ok (.bool y, st2) => .ok (.bool y, st2)
      | .ok _ => .error .stuck
      | .error e => .error e
    | .ok _ => .error .stuck
    | .error e => .error e
  | .or a b =>
    match evalE ρ st a with
    | .ok (.bool true, st1) => .ok (.bool true, st1)
    | .ok (.bool false, st1) =>
      match evalE ρ st1 b with
      | .ok (.bool y, st2) => .ok (.bool y, st2)
      | .ok _ => .error .stuck
      | .error e => .error e
    | .ok _ => .error .stuck
    | .error e => .error e
  | .not a =>
    match evalE ρ st a with
    | .ok (.bool x, st1) => .ok (.bool (!x), st1)
    | .ok _ => .error .stuck
    | .error e => .error e
  | .code a =>
    match evalE ρ st a with
    | .ok (.int x, st1) => .ok (.int (ko.codeF x), st1)
    | .ok _ => .error .stuck
    | .error e => .error e
  | .poolGet factory =>
    match poolPick st.pool st.choice with
    | some (a, rest) => .ok (.ptr (some a), { st with pool := rest })
    | none => callH factory [] st
  | .call0 fn => callH fn [] st
  | .call1 fn a =>
    match evalE ρ st a with
    | .ok (x, st1) => callH fn [x] st1
    | .error e => .error e
  | .call2 fn a b =>
    match evalE ρ st a with
    | .ok (x, st1) =>
      match evalE ρ st1 b with
      | .ok (y, st2) => callH fn [x, y] st2
      | .error e => .error e
    | .error e => .error e
  | .alloc k v n =>
    match evalE ρ st k with
    | .ok (.int k', s1) =>
      match evalE ρ s1 v with
      | .ok (.int v', s2) =>
        match evalE ρ s2 n with
        | .ok (.ptr n', s3) =>
          .ok (.ptr (some s3.alloc), { s3 with h := upd s3.h s3.alloc ⟨k', v', n'⟩, alloc := s3.alloc + 1 })
        | .ok _ => .error .stuck
        | .error e => .error e
      | .ok _ => .error .stuck
      | .error e => .error e
    | .ok _ => .error .stuck
    | .error e => .error e

def iterate (cond : Env → St → Res (Val × St)) (body : Env → St → Res (Flow × Env × St)) :
    Nat → Env → St → Res (Flow × Env × St)
  | 0, _, _ => .error .fuel
  | n + 1, ρ, st =>
    match cond ρ st with
    | .ok (.bool false, st1) => .ok (.normal, ρ, st1)
    | .ok (.bool true, st1) =>
      match body ρ st1 with
      | .ok (.normal, ρ2, st2) => iterate cond body n ρ2 st2
      | .ok (.cont, ρ2, st2) => iterate cond body n ρ2 st2
      | .ok (.brk, ρ2, st2) => .ok (.normal, ρ2, st2)
      | .ok (.ret v, ρ2, st2) => .ok (.ret v, ρ2, st2)
      | .error e => .error e
    | .ok _ => .error .stuck
    | .error e => .error e

def writeField (st : St) (pv : Val) (f : Fld) (v : Val) : Res St :=
  match pv with
  | .ptr (some a) =>
    match (st.h a).set f v with
    | some n => .ok { st with h := upd st.h a n }
    | none => .error .stuck
  | .ptr none => .error .panic
  | _ => .error .stuck

def exec (loopFuel : Nat) (ρ : Env) (st : St) : Stmt ν → Res (Flow × Env × St)
  | .skip => .ok (.normal, ρ, st)
  | .seq a b =>
    match exec loopFuel ρ st a with
    | .ok (.normal, ρ1, st1) => exec loopFuel ρ1 st1 b
    | .ok r => .ok r
    | .error e => .error e
  | .assign x e =>
    match evalE ko callH ρ st e with
    | .ok (v, st1) => .ok (.normal, ρ.set x v, st1)
    | .error e => .error e
  | .setField p f e =>
    match evalE ko callH ρ st p with
    | .ok (pv, st1) =>
      match evalE ko callH ρ st1 e with
      | .ok (v, st2) =>
        match writeField st2 pv f v with
        | .ok st3 => .ok (.normal, ρ, st3)
        | .error e => .error e
      | .error e => .error e
    | .error e => .error e
  | .mapRead x ok c =>
    match evalE ko callH ρ st c with
    | .ok (.int c', st1) =>
      match st1.map c' with
      | some p => .ok (.normal, (ρ.set x (.ptr p)).set ok (.bool true), st1)
      | none => .ok (.normal, (ρ.set x (.ptr none)).set ok (.bool false), st1)
    | .ok _ => .error .stuck
    | .error e => .error e
  | .mapSet c e =>
    match evalE ko callH ρ st c with
    | .ok (.int c', st1) =>
      match evalE ko callH ρ st1 e with
      | .ok (.ptr p, st2) => .ok (.normal, ρ, { st2 with map := updMap st2.map c' (some p) })
      | .ok _ => .error .stuck
      | .error e => .error e
    | .ok _ => .error .stuck
    | .error e => .error e
  | .mapDelete c =>
    match evalE ko callH ρ st c with
    | .ok (.int c', st1) => .ok (.normal, ρ, { st1 with map := updMap st1.map c' none })
    | .ok _ => .error .stuck
    | .error e => .error e
  | .mapInit size =>
    match evalE ko callH ρ st size with
    | .ok (.int n, st1) => if n < 0 then .error .panic else .ok (.normal, ρ, { st1 with map := fun _ => none })
    | .ok _ => .error .stuck
    | .error e => .error e
  | .poolInit => .ok (.normal, ρ, { st with pool := [] })
  | .poolPut e =>
    match evalE ko callH ρ st e with
    | .ok (.ptr (some a), st1) => .ok (.normal, ρ, { st1 with pool := a :: st1.pool })
    | .ok (.ptr none, st1) => .ok (.normal, ρ, st1)            -- `sync.Pool.Put(nil)` is a no-op
    | .ok _ => .error .stuck
    | .error e => .error e
  | .ite c t e =>
    match evalE ko callH ρ st c with
    | .ok (.bool true, st1) => exec loopFuel ρ st1 t
    | .ok (.bool false, st1) => exec loopFuel ρ st1 e
    | .ok _ => .error .stuck
    | .error x => .error x
  | .loop c body =>
    iterate (fun ρ st => evalE ko callH ρ st c) (fun ρ st => exec loopFuel ρ st body) loopFuel ρ st
  | .ret e =>
    match evalE ko callH ρ st e with
    | .ok (v, st1) => .ok (.ret v, ρ, st1)
    | .error e => .error e
  | .ret2 a b =>
    match evalE ko callH ρ st a with
    | .ok (x, st1) =>
      match evalE ko callH ρ st1 b with
      | .ok (y, st2) => .ok (.ret (.pair x y), ρ, st2)
      | .error e => .error e
    | .error e => .error e
  | .expr e =>
    match evalE ko callH ρ st e with
    | .ok (_, st1) => .ok (.normal, ρ, st1)
    | .error e => .error e
  | .continue_ => .ok (.cont, ρ, st)
  | .break_ => .ok (.brk, ρ, st)

def runBody (loopFuel : Nat) (p : Proc ν) (args : List Val) (st : St) : Res (Val × St) :=
  match exec ko callH loopFuel (Env.ofArgs args) st p.body with
  | .ok (.ret v, _, st1) => .ok (v, st1)
  | .ok (.normal, _, st1) => .ok (.unit, st1)
  | .ok _ => .error .stuck
  | .error e => .error e

end

def call {ν : Type} (ko : KeyOps) (procs : ν → Proc ν) : Nat → CallH ν
  | 0 => fun _ _ _ => .error .fuel
  | f + 1 => fun fn args st => runBody ko (call ko procs f) f (procs fn) args st

end Ekit.MiniGo.HM
