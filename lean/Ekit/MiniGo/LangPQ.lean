/-
MiniGo, fourth instance: the subset of Go that `internal/queue/priority_queue.go` is written in — the aliasing slices of
LangSL.lean (same values, same heap of backing arrays `SL.St`, same `append`) plus a receiver (`capacity int`, `data []T`),
method calls (as a parameter `callH`; fuel for calls and loops as in Lang.lean), the comparator, `for {}` with `break`,
the parallel swap `a[i], a[j] = a[j], a[i]`, and the cross-package call `slice.Shrink(p.data)`, whose meaning is the
TRANSLATED `Shrink` of the third instance (`Ekit.Gen.SliceGo.proc_Shrink`, run by the LangSL interpreter on the same heap).
The package's two error variables are encoded as `SL.Val.errIdx code (-1)` (`SL.Val` has no other error constructor).
-/
import Ekit.Generated.SliceGo

namespace Ekit.MiniGo.PQ
open Ekit.MiniGo.SL (Val Fail Res BinOp Env appendVals updA)

/-- the receiver `p *PriorityQueue` and the heap of arrays -/
structure St where
  mem : SL.St
  capacity : Int
  data : Val            -- a `.slice`

inductive Expr (ν : Type) where
  | int (i : Int)
  | bool (b : Bool)
  | err (c : Nat)                         -- package error variable number `c`
  | nilErr
  | var (x : Nat)
  | capacity
  | data
  | len (e : Expr ν)
  | cap (e : Expr ν)
  | index (e i : Expr ν)
  | sliceTo (e n : Expr ν)
  | append1 (e x : Expr ν)
  | make1 (c : Expr ν)                    -- `make([]T, 1, c)`
  | bin (op : BinOp) (a b : Expr ν)
  | and (a b : Expr ν)
  | or (a b : Expr ν)
  | not (a : Expr ν)
  | cmp (a b : Expr ν)                    -- `p.compare(a, b)`
  | shrink (e : Expr ν)                   -- `slice.Shrink(e)`: the translated internal/slice.Shrink
  | call0 (fn : ν)
  | call3 (fn : ν) (a b c : Expr ν)
  deriving Repr

inductive Stmt (ν : Type) where
  | skip
  | seq (a b : Stmt ν)
  | assign (x : Nat) (e : Expr ν)
  | setData (e : Expr ν)                  -- `p.data = e`
  | setCapacity (e : Expr ν)
  | setIndex (s i v : Expr ν)             -- `s[i] = v`
  | swap (s i j : Expr ν)                 -- `s[i], s[j] = s[j], s[i]`
  | ite (c : Expr ν) (t e : Stmt ν)
  | loop (c : Expr ν) (body : Stmt ν)
  | ret (e : Expr ν)
  | ret2 (a b : Expr ν)
  | expr (e : Expr ν)
  | break_
  deriving Repr

structure Proc (ν : Type) where
  nparams : Nat
  body : Stmt ν

inductive Flow where
  | normal | brk | ret (v : Val)
  deriving Repr

abbrev CallH (ν : Type) := ν → List Val → St → Res (Val × St)

section
variable {ν : Type} (cmpF : Int → Int → Int) (shrinkFuel : Nat) (callH : CallH ν)

def readIdx (st : St) (arr : Option Nat) (l : Nat) (k : Int) : Res Int :=
  if k < 0 ∨ k ≥ l then .error .panic
  else match arr with
    | some a => .ok ((st.mem.arrs a).getD k.toNat 0)
    | none => .error .panic

def writeIdx (st : St) (arr : Option Nat) (l : Nat) (k : Int) (x : Int) : Res St :=
  if k < 0 ∨ k ≥ l then .error .panic
  else match arr with
    | some a => .ok { st with mem := { st.mem with arrs := updA st.mem.arrs a ((st.mem.arrs a).set k.toNat x) } }
    | none => .error .panic

def evalE (ρ : Env) (st : St) : Expr ν → Res (Val × St)
  | .int i => .ok (.int i, st)
  | .bool b => .ok (.bool b, st)
  | .err c => .ok (.errIdx c (-1), st)
  | .nilErr => .ok (.nilErr, st)
  | .var x => .ok (ρ x, st)
  | .capacity => .ok (.int st.capacity, st)
  | .data => .ok (st.data, st)
  | .len e =>
    match evalE ρ st e with
    | .ok (.slice _ l _, s1) => .ok (.int l, s1)
    | .ok _ => .error .stuck
    | .error x => .error x
  | .cap e =>
    match evalE ρ st e with
    | .ok (.slice _ _ c, s1) => .ok (.int c, s1)
    | .ok _ => .error .stuck
    | .error x => .error x
  | .index e i =>
    match evalE ρ st e with
    | .ok (.slice arr l _, s1) =>
      match evalE ρ s1 i with
      | .ok (.int k, s2) =>
        match readIdx s2 arr l k with
        | .ok v => .ok (.int v, s2)
        | .error x => .error x
      | .ok _ => .error .stuck
      | .error x => .error x
    | .ok _ => .error .stuck
    | .error x => .error x
  | .sliceTo e n =>
    match evalE ρ st e with
    | .ok (.slice arr _ c, s1) =>
      match evalE ρ s1 n with
      | .ok (.int k, s2) => if k < 0 ∨ k > c then .error .panic else .ok (.slice arr k.toNat c, s2)
      | .ok _ => .error .stuck
      | .error x => .error x
    | .ok _ => .error .stuck
    | .error x => .error x
  | .append1 e x =>
    match evalE ρ st e with
    | .ok (.slice arr l c, s1) =>
      match evalE ρ s1 x with
      | .ok (.int v, s2) =>
        match appendVals s2.mem arr l c [v] with
        | .ok (r, m) => .ok (r, { s2 with mem := m })
        | .error x => .error x
      | .ok _ => .error .stuck
      | .error x => .error x
    | .ok _ => .error .stuck
    | .error x => .error x
  | .make1 c =>
    match evalE ρ st c with
    | .ok (.int k, s1) =>
      if k < 1 then .error .panic
      else .ok (.slice (some s1.mem.alloc) 1 k.toNat,
                { s1 with mem := { s1.mem with arrs := updA s1.mem.arrs s1.mem.alloc (List.replicate k.toNat 0),
                                               alloc := s1.mem.alloc + 1 } })
    | .ok _ => .error .stuck
    | .error x => .error x
  | .bin op a b =>
    match evalE ρ st a with
    | .ok (x, s1) =>
      match evalE ρ s1 b with
      | .ok (y, s2) =>
        match op.apply x y with
        | .ok r => .ok (r, s2)
        | .error e => .error e
      | .error e => .error e
    | .error e => .error e
  | .and a b =>
    match evalE ρ st a with
    | .ok (.bool false, s1) => .ok (.bool false, s1)
    | .ok (.bool true, s1) =>
      match evalE ρ s1 b with
      | .ok (.bool y, s2) => .ok (.bool y, s2)
      | .ok _ => .error .stuck
      | .error e => .error e
    | .ok _ => .error .stuck
    | .error e => .error e
  | .or a b =>
    match evalE ρ st a with
    | .ok (.bool true, s1) => .ok (.bool true, s1)
    | .ok (.bool false, s1) =>
      match evalE ρ s1 b with
      | .ok (.bool y, s2) => .ok (.bool y, s2)
      | .ok _ => .error .stuck
      | .error e => .error e
    | .ok _ => .error .stuck
    | .error e => .error e
  | .not a =>
    match evalE ρ st a with
    | .ok (.bool x, s1) => .ok (.bool (!x), s1)
    | .ok _ => .error .stuck
    | .error e => .error e
  | .cmp a b =>
    match evalE ρ st a with
    | .ok (.int x, s1) =>
      match evalE ρ s1 b with
      | .ok (.int y, s2) => .ok (.int (cmpF x y), s2)
      | .ok _ => .error .stuck
      | .error e => .error e
    | .ok _ => .error .stuck
    | .error e => .error e
  | .shrink e =>
    match evalE ρ st e with
    | .ok (v, s1) =>
      match SL.run shrinkFuel Ekit.Gen.SliceGo.proc_Shrink [v] s1.mem with
      | .ok (r, m) => .ok (r, { s1 with mem := m })
      | .error x => .error x
    | .error x => .error x
  | .call0 fn => callH fn [] st
  | .call3 fn a b c =>
    match evalE ρ st a with
    | .ok (x, s1) =>
      match evalE ρ s1 b with
      | .ok (y, s2) =>
        match evalE ρ s2 c with
        | .ok (z, s3) => callH fn [x, y, z] s3
        | .error e => .error e
      | .error e => .error e
    | .error e => .error e

def iterate (cond : Env → St → Res (Val × St)) (body : Env → St → Res (Flow × Env × St)) :
    Nat → Env → St → Res (Flow × Env × St)
  | 0, _, _ => .error .fuel
  | n + 1, ρ, st =>
    match cond ρ st with
    | .ok (.bool false, st1) => .ok (.normal, ρ, st1)
    | .ok (.bool true, st1) =>
      match body ρ st1 with
      | .ok (.normal, ρ2, st2) => iterate cond body n ρ2 st2
      | .ok (.brk, ρ2, st2) => .ok (.normal, ρ2, st2)
      | .ok (.ret v, ρ2, st2) => .ok (.ret v, ρ2, st2)
      | .error e => .error e
    | .ok _ => .error .stuck
    | .error e => .error e

def exec (loopFuel : Nat) (ρ : Env) (st : St) : Stmt ν → Res (Flow × Env × St)
  | .skip => .ok (.normal, ρ, st)
  | .seq a b =>
    match exec loopFuel ρ st a with
    | .ok (.normal, ρ1, st1) => exec loopFuel ρ1 st1 b
    | .ok r => .ok r
    | .error e => .error e
  | .assign x e =>
    match evalE cmpF shrinkFuel callH ρ st e with
    | .ok (v, st1) => .ok (.normal, ρ.set x v, st1)
    | .error e => .error e
  | .setData e =>
    match evalE cmpF shrinkFuel callH ρ st e with
    | .ok (.slice a l c, st1) => .ok (.normal, ρ, { st1 with data := .slice a l c })
    | .ok _ => .error .stuck
    | .error e => .error e
  | .setCapacity e =>
    match evalE cmpF shrinkFuel callH ρ st e with
    | .ok (.int k, st1) => .ok (.normal, ρ, { st1 with capacity := k })
    | .ok _ => .error .stuck
    | .error e => .error e
  | .setIndex s i v =>
    match evalE cmpF shrinkFuel callH ρ st s with
    | .ok (.slice arr l _, s1) =>
      match evalE cmpF shrinkFuel callH ρ s1 i with
      | .ok (.int k, s2) =>
        match evalE cmpF shrinkFuel callH ρ s2 v with
        | .ok (.int x, s3) =>
          match writeIdx s3 arr l k x with
          | .ok s4 => .ok (.normal, ρ, s4)
          | .error e => .error e
        | .ok _ => .error .stuck
        | .error e => .error e
      | .ok _ => .error .stuck
      | .error e => .error e
    | .ok _ => .error .stuck
    | .error e => .error e
  | .swap s i j =>
    -- Go: the index operands and both right-hand sides are evaluated first (bounds checked), then the two stores
    match evalE cmpF shrinkFuel callH ρ st s with
    | .ok (.slice arr l _, s1) =>
      match evalE cmpF shrinkFuel callH ρ s1 i with
      | .ok (.int ki, s2) =>
        match evalE cmpF shrinkFuel callH ρ s2 j with
        | .ok (.int kj, s3) =>
          match readIdx s3 arr l kj, readIdx s3 arr l ki with
          | .ok vj, .ok vi =>
            match writeIdx s3 arr l ki vj with
            | .ok s4 =>
              match writeIdx s4 arr l kj vi with
              | .ok s5 => .ok (.normal, ρ, s5)
              | .error e => .error e
            | .error e => .error e
          | .error e, _ => .error e
          | _, .error e => .error e
        | .ok _ => .error .stuck
        | .error e => .error e
      | .ok _ => .error .stuck
      | .error e => .error e
    | .ok _ => .error .stuck
    | .error e => .error e
  | .ite c t e =>
    match evalE cmpF shrinkFuel callH ρ st c with
    | .ok (.bool true, st1) => exec loopFuel ρ st1 t
    | .ok (.bool false, st1) => exec loopFuel ρ st1 e
    | .ok _ => .error .stuck
    | .error x => .error x
  | .loop c body =>
    iterate (fun ρ st => evalE cmpF shrinkFuel callH ρ st c) (fun ρ st => exec loopFuel ρ st body) loopFuel ρ st
  | .ret e =>
    match evalE cmpF shrinkFuel callH ρ st e with
    | .ok (v, st1) => .ok (.ret v, ρ, st1)
    | .error e => .error e
  | .ret2 a b =>
    match evalE cmpF shrinkFuel callH ρ st a with
    | .ok (x, st1) =>
      match evalE cmpF shrinkFuel callH ρ st1 b with
      | .ok (y, st2) => .ok (.ret (.pair x y), ρ, st2)
      | .error e => .error e
    | .error e => .error e
  | .expr e =>
    match evalE cmpF shrinkFuel callH ρ st e with
    | .ok (_, st1) => .ok (.normal, ρ, st1)
    | .error e => .error e
  | .break_ => .ok (.brk, ρ, st)

def runBody (loopFuel : Nat) (p : Proc ν) (args : List Val) (st : St) : Res (Val × St) :=
  match exec cmpF shrinkFuel callH loopFuel (SL.Env.ofArgs args) st p.body with
  | .ok (.ret v, _, st1) => .ok (v, st1)
  | .ok (.normal, _, st1) => .ok (.unit, st1)
  | .ok (.brk, _, _) => .error .stuck
  | .error e => .error e

end

def call {ν : Type} (cmpF : Int → Int → Int) (procs : ν → Proc ν) : Nat → CallH ν
  | 0 => fun _ _ _ => .error .fuel
  | f + 1 => fun fn args st => runBody cmpF f (call cmpF procs f) f (procs fn) args st

end Ekit.MiniGo.PQ
