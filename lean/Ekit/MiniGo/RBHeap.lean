/-
The pointer-level well-formedness invariant of the red-black tree's heap (C02: "parent links consistent with child
links"), as a predicate on the interpreter's state `Ekit.MiniGo.St`, and its executable form.

`PT` is the shape of the tree decorated with the addresses of its nodes.  `Repr h p par t`: following child
pointers from `p` in heap `h` one reads exactly the tree `t`, and every node's `parent` field is the address of the
node it hangs under (`par` for the topmost one).  `WF st`: the heap represents SOME address tree from `st.root`
with parent `nil`, no address occurs twice (so the structure is a tree: acyclic, no sharing) and every address has
been allocated.  Colours, keys and values are deliberately not mentioned: this is the pointer structure only (the
colour/order/size invariants are C02's functional theorems).
-/
import Ekit.MiniGo.Lang

namespace Ekit.MiniGo.RBHeap
open Ekit.MiniGo

inductive PT where
  | leaf
  | node (l : PT) (a : Nat) (r : PT)
  deriving Repr, DecidableEq

def PT.addrs : PT → List Nat
  | .leaf => []
  | .node l a r => l.addrs ++ a :: r.addrs

def PT.ptr : PT → Option Nat
  | .leaf => none
  | .node _ a _ => some a

def Repr (h : Nat → Node) : Option Nat → Option Nat → PT → Prop
  | p, _, .leaf => p = none
  | p, par, .node l a r =>
    p = some a ∧ (h a).parent = par ∧ Repr h (h a).left (some a) l ∧ Repr h (h a).right (some a) r

/-- the heap holds the address tree `t` -/
def Holds (st : St) (t : PT) : Prop :=
  Repr st.h st.root none t ∧ t.addrs.Nodup ∧ ∀ a ∈ t.addrs, a < st.alloc

def WF (st : St) : Prop := ∃ t, Holds st t

/-! executable form (used by the trace acceptor `Driver/Rbptr.lean`) -/

/-- read the tree off the heap by following child pointers; `none` when `fuel` runs out (cycle) -/
def readPT (h : Nat → Node) : Nat → Option Nat → Option PT
  | 0, _ => none
  | _ + 1, none => some .leaf
  | f + 1, some a =>
    match readPT h f (h a).left, readPT h f (h a).right with
    | some l, some r => some (.node l a r)
    | _, _ => none

def reprB (h : Nat → Node) : Option Nat → Option Nat → PT → Bool
  | p, _, .leaf => p == none
  | p, par, .node l a r =>
    p == some a && (h a).parent == par && reprB h (h a).left (some a) l && reprB h (h a).right (some a) r

def nodupB : List Nat → Bool
  | [] => true
  | a :: l => !l.contains a && nodupB l

def wfB (st : St) : Bool :=
  match readPT st.h (st.alloc + 1) st.root with
  | some t => reprB st.h st.root none t && nodupB t.addrs && t.addrs.all (· < st.alloc)
  | none => false

end Ekit.MiniGo.RBHeap
