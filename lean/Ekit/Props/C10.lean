/-
C10 — "Task pool runs every accepted task exactly once (or hands it back once)".

Theorems about `Ekit.Pool.sys c` (Ekit/Model/Pool.lean), for every reachable state = every interleaving
of any number of submitters (with and without deadlines), Start, Shutdown, ShutdownNow and the workers,
every valid configuration, tasks that return, block or panic.

C10 is a safety statement: *eventual* execution of an accepted task is C12's subject.  A task that is
still in the queue (or in a worker's hands between the receive and `task.Run`) is accounted for as such.
-/
import Ekit.Lemmas.PoolInv2
import Ekit.Model.PoolSkel
import Ekit.Generated.SkelC10

namespace Ekit.Pool
open Ekit.Conc Ekit.Pool.Skel

private theorem vle (c : Cfg) (hv : c.Valid) : c.initGo ≤ c.maxGo := Nat.le_trans hv.init_core hv.core_max

/-! ### the source's comment "此处b.queue <- task不会因为b.queue被关闭而panic" as a theorem -/

/-- No reachable state has executed a send on (or a second close of) the closed queue channel:
    the queue is closed only once shutdown has begun, a caller at the `select` of `trySubmit` holds the
    `state` lock (`life = locked`), hence the queue is open there. -/
theorem c10_send_never_after_close (c : Cfg) (hv : c.Valid) (s : St) (hr : (sys c).Reachable s) :
    s.panic = false ∧ (s.closed = true → shutBegun s.life = true) ∧
    (∀ t, (s.callers t).pc = .subSel → s.life = .locked ∧ s.holder = t ∧ s.closed = false) := by
  have hi := (reach_invAll c (vle c hv) s hr).a
  refine ⟨hi.glob.no_panic, hi.glob.closed_begun, fun t ht => ?_⟩
  have hl := (hi.loc t).crit_locked (by rw [ht]; rfl)
  refine ⟨hl.1, hl.2, ?_⟩
  cases hc : s.closed with
  | false => rfl
  | true =>
    have hb : shutBegun s.life = true := hi.glob.closed_begun hc
    have : s.life = .locked := hl.1
    rw [this] at hb; cases hb

/-! ### exactly once -/

/-- conservation law, for every task id at every instant:
    runs + handed back + queued + in a worker's hands = [its send happened] -/
theorem c10_conservation (c : Cfg) (hv : c.Valid) (s : St) (hr : (sys c).Reachable s) (id : Nat) :
    runsN s.tasks id + s.returned.count id + s.queue.count id + s.workers.countP (holdsT id) = sentN s.tasks id :=
  (reach_invAll c (vle c hv) s hr).t.glob.1 id

/-- "Every task whose Submit returned nil … is executed exactly once, or … returned exactly once in
    ShutdownNow's result; never both, never neither, never twice": at every instant exactly one of
    {ran, handed back, still queued, in a worker's hands} holds for it, with multiplicity one. -/
theorem c10_exactly_once (c : Cfg) (hv : c.Valid) (s : St) (hr : (sys c).Reachable s) (id : Nat) (tk : Task)
    (hid : s.tasks[id]? = some tk) (hok : tk.subRes = .ok) :
    tk.runs + s.returned.count id + s.queue.count id + s.workers.countP (holdsT id) = 1 := by
  have hi := (reach_invAll c (vle c hv) s hr).t
  have h1 := hi.glob.1 id
  have h2 := hi.glob.2 id (tk.owner, tk.sent, tk.subRes) (by simp [tinfo, hid])
  have hs : tk.sent = true := h2.2 hok
  simp only [consT, runsN, sentN, hid, Option.map_some, Option.getD_some, hs, if_true] at h1
  exact h1

/-- at quiescence (nothing queued, nothing in a worker's hands): executed once xor handed back once -/
theorem c10_exactly_once_quiescent (c : Cfg) (hv : c.Valid) (s : St) (hr : (sys c).Reachable s) (id : Nat) (tk : Task)
    (hid : s.tasks[id]? = some tk) (hok : tk.subRes = .ok) (hq : s.queue.count id = 0)
    (hw : s.workers.countP (holdsT id) = 0) :
    (tk.runs = 1 ∧ s.returned.count id = 0) ∨ (tk.runs = 0 ∧ s.returned.count id = 1) := by
  have := c10_exactly_once c hv s hr id tk hid hok
  omega

/-- never twice, never both — for *every* task, accepted or not, at every instant -/
theorem c10_at_most_once (c : Cfg) (hv : c.Valid) (s : St) (hr : (sys c).Reachable s) (id : Nat) :
    runsN s.tasks id + s.returned.count id ≤ 1 := by
  have h := c10_conservation c hv s hr id
  have : sentN s.tasks id ≤ 1 := by
    simp only [sentN]
    cases s.tasks[id]? with
    | none => simp
    | some t => simp only [Option.map_some, Option.getD_some]; split <;> omega
  omega

/-- "A task whose Submit returned an error is never executed": it is never sent, hence never queued,
    received, run or handed back — in every reachable state after the return. -/
theorem c10_err_never_runs (c : Cfg) (hv : c.Valid) (s : St) (hr : (sys c).Reachable s) (id : Nat) (tk : Task)
    (hid : s.tasks[id]? = some tk) (herr : tk.subRes.isErr = true) :
    tk.sent = false ∧ tk.runs = 0 ∧ s.returned.count id = 0 ∧ s.queue.count id = 0 ∧
    s.workers.countP (holdsT id) = 0 := by
  have hi := (reach_invAll c (vle c hv) s hr).t
  have h1 := hi.glob.1 id
  have h2 := hi.glob.2 id (tk.owner, tk.sent, tk.subRes) (by simp [tinfo, hid])
  have hs : tk.sent = false := h2.1 herr
  simp only [consT, runsN, sentN, hid, Option.map_some, Option.getD_some, hs] at h1
  have h0 : tk.runs + s.returned.count id + s.queue.count id + s.workers.countP (holdsT id) = 0 := by simpa using h1
  refine ⟨hs, ?_, ?_, ?_, ?_⟩ <;> omega

/-- what Submit returns is decided by whether its send happened -/
theorem c10_submit_result (c : Cfg) (hv : c.Valid) (s : St) (hr : (sys c).Reachable s) (id : Nat) (tk : Task)
    (hid : s.tasks[id]? = some tk) : (tk.subRes.isErr = true → tk.sent = false) ∧ (tk.subRes = .ok → tk.sent = true) :=
  (reach_invAll c (vle c hv) s hr).t.glob.2 id (tk.owner, tk.sent, tk.subRes) (by simp [tinfo, hid])

/-- **ShutdownNow leaves nothing behind** ("never neither"): once the queue was closed by ShutdownNow and its
    caller has left the drain loop (returned), the queue is empty, in every later state. -/
theorem c10_shutdownNow_drains (c : Cfg) (hv : c.Valid) (s : St) (hr : (sys c).Reachable s)
    (hc : s.closed = true) (hn : s.graceful = false) (hdone : snAfter (s.callers s.holder).pc = false) :
    s.queue = [] :=
  (reach_invN c (vle c hv) s hr).glob hc hn hdone

/-- **The pool keeps its core workers.**  As long as the pool has not been shut down and no worker has taken
    the idle-timeout exit (e.g. the idle time has not elapsed), the live-worker counter is at least
    min(coreGo, the highest value it ever had): accepted tasks in the queue of a running pool that once had
    workers always have a worker left to execute them.  (The surplus-worker exit checks `coreGo < totalGo`
    and decrements inside one critical section; seeded defect C10-c moved the decrement out of it.) -/
theorem c10_core_floor (c : Cfg) (hv : c.Valid) (s : St) (hr : (sys c).Reachable s)
    (hidle : s.idleExits = 0) (hrun : shutBegun s.life = false) : min c.coreGo s.hwmGo ≤ s.totalGo :=
  (reach_invK c (vle c hv) s hr).glob hidle hrun

/-! ### "a panicking task is contained: it counts as executed and the pool goes on executing the others" -/

/-- a task's run count is incremented when `task.Run` is entered (`incRun`), whatever it does then;
    if it panics the wrapper's recover is the worker's next step and leads to exactly the state a normal
    return leads to: the worker goes on with its loop. -/
theorem c10_panic_contained (c : Cfg) (s s1 : St) (i : Nat) (h : step c s (.w i .taskPanic) = some s1) :
    ∃ w, s.workers[i]? = some w ∧ w.pc = .running ∧
      s1 = s.setW i { w with pc := .panicked } ∧
      step c s1 (.w i .recover) = some (s.setW i { w with pc := .decRun }) := by
  simp only [step, wStep] at h
  split at h
  next w hw =>
    simp only [wAct] at h
    split at h
    next tk htk =>
      split at h
      next hc =>
        cases h
        refine ⟨w, hw, hc.1, rfl, ?_⟩
        have hlt : i < s.workers.length := (List.getElem?_eq_some_iff.1 hw).1
        simp [step, wStep, wAct, St.setW, hlt]
      next => cases h
    next => cases h
  next => cases h

/-- a panicked worker can do nothing but recover (and its idle timer may tick) -/
theorem c10_panicked_only_recovers (c : Cfg) (s s2 : St) (i : Nat) (w : Worker) (a : WAct)
    (hw : s.workers[i]? = some w) (hp : w.pc = .panicked) (h : step c s (.w i a) = some s2) :
    a = .recover ∨ a = .fire := by
  simp only [step, wStep, hw] at h
  cases a <;> simp [wAct, hp] at h <;> (try (split at h <;> simp_all)) <;> simp

/-! non-vacuity of `c10_exactly_once`: a reachable state with an accepted task (see also the C12 witnesses) -/

/-! ### regenerated tie: sync skeletons of every function of pool/task_pool.go -/

theorem c10_skel_NewOnDemandBlockTaskPool : Ekit.Gen.SkelC10.NewOnDemandBlockTaskPool = expected_NewOnDemandBlockTaskPool := rfl
theorem c10_skel_OnDemandBlockTaskPool_Shutdown : Ekit.Gen.SkelC10.OnDemandBlockTaskPool_Shutdown = expected_OnDemandBlockTaskPool_Shutdown := rfl
theorem c10_skel_OnDemandBlockTaskPool_ShutdownNow : Ekit.Gen.SkelC10.OnDemandBlockTaskPool_ShutdownNow = expected_OnDemandBlockTaskPool_ShutdownNow := rfl
theorem c10_skel_OnDemandBlockTaskPool_Start : Ekit.Gen.SkelC10.OnDemandBlockTaskPool_Start = expected_OnDemandBlockTaskPool_Start := rfl
theorem c10_skel_OnDemandBlockTaskPool_States : Ekit.Gen.SkelC10.OnDemandBlockTaskPool_States = expected_OnDemandBlockTaskPool_States := rfl
theorem c10_skel_OnDemandBlockTaskPool_Submit : Ekit.Gen.SkelC10.OnDemandBlockTaskPool_Submit = expected_OnDemandBlockTaskPool_Submit := rfl
theorem c10_skel_OnDemandBlockTaskPool_allowToCreateGoroutine : Ekit.Gen.SkelC10.OnDemandBlockTaskPool_allowToCreateGoroutine = expected_OnDemandBlockTaskPool_allowToCreateGoroutine := rfl
theorem c10_skel_OnDemandBlockTaskPool_decreaseTotalGo : Ekit.Gen.SkelC10.OnDemandBlockTaskPool_decreaseTotalGo = expected_OnDemandBlockTaskPool_decreaseTotalGo := rfl
theorem c10_skel_OnDemandBlockTaskPool_getState : Ekit.Gen.SkelC10.OnDemandBlockTaskPool_getState = expected_OnDemandBlockTaskPool_getState := rfl
theorem c10_skel_OnDemandBlockTaskPool_goroutine : Ekit.Gen.SkelC10.OnDemandBlockTaskPool_goroutine = expected_OnDemandBlockTaskPool_goroutine := rfl
theorem c10_skel_OnDemandBlockTaskPool_increaseTotalGo : Ekit.Gen.SkelC10.OnDemandBlockTaskPool_increaseTotalGo = expected_OnDemandBlockTaskPool_increaseTotalGo := rfl
theorem c10_skel_OnDemandBlockTaskPool_internalState : Ekit.Gen.SkelC10.OnDemandBlockTaskPool_internalState = expected_OnDemandBlockTaskPool_internalState := rfl
theorem c10_skel_OnDemandBlockTaskPool_numOfGo : Ekit.Gen.SkelC10.OnDemandBlockTaskPool_numOfGo = expected_OnDemandBlockTaskPool_numOfGo := rfl
theorem c10_skel_OnDemandBlockTaskPool_numOfGoThatCanBeCreate : Ekit.Gen.SkelC10.OnDemandBlockTaskPool_numOfGoThatCanBeCreate = expected_OnDemandBlockTaskPool_numOfGoThatCanBeCreate := rfl
theorem c10_skel_OnDemandBlockTaskPool_sendState : Ekit.Gen.SkelC10.OnDemandBlockTaskPool_sendState = expected_OnDemandBlockTaskPool_sendState := rfl
theorem c10_skel_OnDemandBlockTaskPool_trySubmit : Ekit.Gen.SkelC10.OnDemandBlockTaskPool_trySubmit = expected_OnDemandBlockTaskPool_trySubmit := rfl
theorem c10_skel_TaskFunc_Run : Ekit.Gen.SkelC10.TaskFunc_Run = expected_TaskFunc_Run := rfl
theorem c10_skel_WithCoreGo : Ekit.Gen.SkelC10.WithCoreGo = expected_WithCoreGo := rfl
theorem c10_skel_WithMaxGo : Ekit.Gen.SkelC10.WithMaxGo = expected_WithMaxGo := rfl
theorem c10_skel_WithMaxIdleTime : Ekit.Gen.SkelC10.WithMaxIdleTime = expected_WithMaxIdleTime := rfl
theorem c10_skel_WithQueueBacklogRate : Ekit.Gen.SkelC10.WithQueueBacklogRate = expected_WithQueueBacklogRate := rfl
theorem c10_skel_group_add : Ekit.Gen.SkelC10.group_add = expected_group_add := rfl
theorem c10_skel_group_delete : Ekit.Gen.SkelC10.group_delete = expected_group_delete := rfl
theorem c10_skel_group_isIn : Ekit.Gen.SkelC10.group_isIn = expected_group_isIn := rfl
theorem c10_skel_group_size : Ekit.Gen.SkelC10.group_size = expected_group_size := rfl
theorem c10_skel_taskWrapper_Run : Ekit.Gen.SkelC10.taskWrapper_Run = expected_taskWrapper_Run := rfl

end Ekit.Pool
