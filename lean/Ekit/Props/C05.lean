/-
C05 — Priority queue and skip list behave as sorted multisets.

Property theorems only.  Models: Ekit/Model/Heap.lean, Ekit/Model/SkipList.lean (the functions the
trace acceptors Driver/Heap.lean and Driver/SkipList.lean execute); helper lemmas: Ekit/Lemmas/Heap*.lean,
Ekit/Lemmas/SkipList*.lean.  `cmp` is any comparator that is a total preorder (`Cmp.Lawful`): different
elements may compare equal, so "the minimum" is "a minimum".
-/
import Ekit.Lemmas.Heap
import Ekit.Lemmas.SkipListAccept

namespace Ekit.Heap
open Ekit.Cmp Ekit.Go

/-! ## Priority queue -/

/-- A freshly constructed queue (any requested capacity, also `≤ 0`) is well formed: slot 0 exists,
    the array is a heap, a bounded queue's backing array has exactly `capacity+1` slots. -/
theorem c05_pq_new_wf (cmp : Cmp) (capacity : Int) : WF cmp (PQ.new capacity) := wf_new cmp capacity

/-- The constructor's capacity rule: `capacity < 1` gives the unbounded queue (`Cap() = 0`). -/
theorem c05_pq_new_capacity (capacity : Int) :
    (PQ.new capacity).capacity = Spec.normCap capacity ∧ (PQ.new capacity).contents = [] ∧
    ((PQ.new capacity).isBoundless = true ↔ capacity < 1) := by
  unfold PQ.new Spec.normCap PQ.isBoundless PQ.contents
  split <;> simp <;> omega

/-- **One call refines the bag specification** — for every well-formed queue, every call, every
    runtime growth choice: the result is one the specification allows for the bag of elements held
    (Enqueue fails with ErrOutOfCapacity exactly when a bounded queue holds `capacity` elements and
    then changes nothing, Dequeue/Peek fail with ErrEmptyQueue exactly on the empty bag, a dequeued
    or peeked element is a member and a minimum under `cmp`, Len/Cap/IsBoundless report the bag's
    size and the fixed capacity), the new contents are the specification's new bag as a multiset,
    and the queue stays well formed. -/
theorem c05_pq_step_refines {cmp : Cmp} (hc : Lawful cmp) {q : PQ} (hq : WF cmp q) {bag : List Int}
    (hb : q.contents.Perm bag) (grow : Nat) (op : Op) :
    ∃ bag', Spec.check cmp q.capacity bag op (step cmp q grow op).2 = some bag' ∧
      (step cmp q grow op).1.contents.Perm bag' ∧ WF cmp (step cmp q grow op).1 ∧
      (step cmp q grow op).1.capacity = q.capacity := by
  have hlen : bag.length = q.data.vals.length - 1 := by
    rw [← hb.length_eq]; simp [PQ.contents]
  have hs0 := hq.slot0
  cases op with
  | enqueue t =>
    cases hf : q.isFull with
    | true =>
      have hst : step cmp q grow (.enqueue t) = (q, .err errCap) := by simp [step, hf]
      rw [hst]
      have hcond : q.capacity > 0 ∧ (bag.length : Int) = q.capacity := by
        simp only [PQ.isFull, Bool.and_eq_true, decide_eq_true_eq, beq_iff_eq] at hf
        omega
      exact ⟨bag, by simp [Spec.check, hcond], hb, hq, rfl⟩
    | false =>
      obtain ⟨q', h1, h2, h3, h4, _⟩ := enqueue_ok hc hq grow t hf
      rw [h1]
      have hcond : ¬ (q.capacity > 0 ∧ (bag.length : Int) = q.capacity) := by
        simp only [PQ.isFull, Bool.and_eq_false_iff, decide_eq_false_iff_not] at hf
        rcases hf with h | h
        · omega
        · have : ¬ ((q.data.vals.length : Int) - 1 = q.capacity) := by simpa using h
          omega
      exact ⟨t :: bag, by simp [Spec.check, hcond], h3.trans (List.Perm.cons t hb), h2, h4⟩
  | dequeue =>
    cases he : q.isEmpty with
    | true =>
      have hst : step cmp q grow .dequeue = (q, .err errEmpty) := by simp [step, he]
      rw [hst]
      have : bag = [] := by
        simp only [PQ.isEmpty, decide_eq_true_eq] at he
        exact List.eq_nil_of_length_eq_zero (by omega)
      exact ⟨bag, by simp [Spec.check, this], hb, hq, rfl⟩
    | false =>
      obtain ⟨pop, q', h1, h2, h3, h4, h5, _⟩ := dequeue_ok hc hq grow he
      rw [h1]
      have hne : bag.isEmpty = false := by
        simp only [PQ.isEmpty, decide_eq_false_iff_not] at he
        cases bag with
        | nil => simp at hlen; omega
        | cons _ _ => rfl
      have hmem : pop ∈ bag := hb.mem_iff.mp (h3.mem_iff.mpr (List.mem_cons_self))
      have hmin : Spec.isMin cmp bag pop = true := by
        simp only [Spec.isMin, Bool.and_eq_true, List.contains_iff_mem, List.all_eq_true, decide_eq_true_eq]
        exact ⟨hmem, fun x hx => h4 x (hb.mem_iff.mpr hx)⟩
      refine ⟨bag.erase pop, by simp [Spec.check, hne, hmin], ?_, h2, h5⟩
      have hbp : bag.Perm (pop :: q'.contents) := hb.symm.trans h3
      have := hbp.erase pop
      simp only [List.erase_cons_head] at this
      exact this.symm
  | peek =>
    cases he : q.isEmpty with
    | true =>
      have hst : step cmp q grow .peek = (q, .err errEmpty) := by simp [step, he]
      rw [hst]
      have : bag = [] := by
        simp only [PQ.isEmpty, decide_eq_true_eq] at he
        exact List.eq_nil_of_length_eq_zero (by omega)
      exact ⟨bag, by simp [Spec.check, this], hb, hq, rfl⟩
    | false =>
      have h2 : 2 ≤ q.data.vals.length := by
        simp only [PQ.isEmpty, decide_eq_false_iff_not] at he; omega
      have hp : q.data.vals[1]? = some q.data.vals[1] := List.getElem?_eq_getElem (by omega)
      have hst : step cmp q grow .peek = (q, .ok (.val q.data.vals[1])) := by simp [step, he, hp]
      rw [hst]
      have hne : bag.isEmpty = false := by
        cases bag with
        | nil => simp at hlen; omega
        | cons _ _ => rfl
      have hmemc : q.data.vals[1] ∈ q.contents := by
        simp only [PQ.contents]
        apply List.mem_iff_getElem?.mpr
        exact ⟨0, by rw [List.getElem?_drop]; exact hp⟩
      have hmin : Spec.isMin cmp bag q.data.vals[1] = true := by
        simp only [Spec.isMin, Bool.and_eq_true, List.contains_iff_mem, List.all_eq_true, decide_eq_true_eq]
        refine ⟨hb.mem_iff.mp hmemc, fun x hx => ?_⟩
        have hxc := hb.mem_iff.mpr hx
        simp only [PQ.contents] at hxc
        obtain ⟨j, hj⟩ := List.mem_iff_getElem?.mp hxc
        rw [List.getElem?_drop] at hj
        exact hq.heap.root_le hc hp (1 + j) x (by omega) hj
      exact ⟨bag, by simp [Spec.check, hne, hmin], hb, hq, rfl⟩
  | len =>
    refine ⟨bag, ?_, hb, hq, rfl⟩
    have : q.len = (bag.length : Int) := by simp only [PQ.len]; omega
    simp [Spec.check, step, this]
  | cap => exact ⟨bag, by simp [Spec.check, step], hb, hq, rfl⟩
  | boundless => exact ⟨bag, by simp [Spec.check, step, PQ.isBoundless], hb, hq, rfl⟩

/-- **Every history** (any calls, any growth choices, started from any well-formed queue holding
    the bag `bag`) is accepted by the bag-with-capacity specification: the queue "returns exactly
    the multiset that was enqueued", always a minimum first, with the exact full/empty reports. -/
theorem c05_pq_run_refines {cmp : Cmp} (hc : Lawful cmp) (hist : List (Nat × Op)) {q : PQ} (hq : WF cmp q)
    {bag : List Int} (hb : q.contents.Perm bag) :
    Spec.accepts cmp q.capacity bag ((hist.map (·.2)).zip (run cmp q hist).2) = true ∧
    WF cmp (run cmp q hist).1 := by
  induction hist generalizing q bag with
  | nil => exact ⟨rfl, hq⟩
  | cons x rest ih =>
    obtain ⟨g, op⟩ := x
    obtain ⟨bag', h1, h2, h3, h4⟩ := c05_pq_step_refines hc hq hb g op
    have := ih h3 h2
    simp only [run, List.map_cons, List.zip_cons_cons, Spec.accepts, h1]
    rw [h4] at this
    exact this

/-- … in particular from the constructor, for every requested capacity. -/
theorem c05_pq_history_from_new {cmp : Cmp} (hc : Lawful cmp) (capacity : Int) (hist : List (Nat × Op)) :
    Spec.accepts cmp (Spec.normCap capacity) [] ((hist.map (·.2)).zip (run cmp (PQ.new capacity) hist).2) = true := by
  have h := (c05_pq_run_refines hc hist (c05_pq_new_wf cmp capacity)
    (bag := []) (by rw [(c05_pq_new_capacity capacity).2.1])).1
  rw [(c05_pq_new_capacity capacity).1] at h
  exact h

/-- The heap invariant (and the rest of the representation invariant) is preserved by every call. -/
theorem c05_pq_step_wf {cmp : Cmp} (hc : Lawful cmp) {q : PQ} (hq : WF cmp q) (grow : Nat) (op : Op) :
    WF cmp (step cmp q grow op).1 := by
  obtain ⟨_, _, _, h, _⟩ := c05_pq_step_refines hc hq (List.Perm.refl _) grow op
  exact h

/-- No call on a well-formed queue panics: no index out of range in the sift loops, enough fuel,
    no division by zero and no negative `make` in the shrink. -/
theorem c05_pq_no_panic {cmp : Cmp} (hc : Lawful cmp) {q : PQ} (hq : WF cmp q) (grow : Nat) (op : Op) :
    (step cmp q grow op).2.isPanic = false := by
  obtain ⟨bag', h, _⟩ := c05_pq_step_refines hc hq (List.Perm.refl _) grow op
  cases ho : (step cmp q grow op).2 with
  | ok _ => rfl
  | err _ => rfl
  | panic m =>
    rw [ho] at h
    cases op <;> simp [Spec.check] at h <;> (try split at h) <;> simp_all

/-- `dequeue_min`: the dequeued element was in the queue, is `≤` every element that was in the
    queue, hence `≤` every element that remains; and what remains is the old contents minus it. -/
theorem c05_pq_dequeue_min {cmp : Cmp} (hc : Lawful cmp) {q q' : PQ} (hq : WF cmp q) (grow : Nat) (v : Int)
    (h : step cmp q grow .dequeue = (q', .ok (.val v))) :
    q.contents.Perm (v :: q'.contents) ∧ (∀ x ∈ q.contents, cmp v x ≤ 0) ∧ (∀ x ∈ q'.contents, cmp v x ≤ 0) := by
  cases he : q.isEmpty with
  | true => simp [step, he] at h
  | false =>
    obtain ⟨pop, q'', h1, _, h3, h4, _⟩ := dequeue_ok hc hq grow he
    rw [h1] at h
    simp only [Prod.mk.injEq, Outcome.ok.injEq, Ret.val.injEq] at h
    obtain ⟨e1, e2⟩ := h
    subst e1; subst e2
    exact ⟨h3, h4, fun x hx => h4 x (h3.mem_iff.mpr (List.mem_cons_of_mem _ hx))⟩

/-- Peek returns a minimum of the contents and changes nothing. -/
theorem c05_pq_peek_min {cmp : Cmp} (hc : Lawful cmp) {q q' : PQ} (hq : WF cmp q) (grow : Nat) (v : Int)
    (h : step cmp q grow .peek = (q', .ok (.val v))) :
    q' = q ∧ v ∈ q.contents ∧ ∀ x ∈ q.contents, cmp v x ≤ 0 := by
  obtain ⟨bag', h1, _⟩ := c05_pq_step_refines hc hq (List.Perm.refl _) grow .peek
  rw [h] at h1
  simp only [Spec.check] at h1
  split at h1
  · simp at h1
  · split at h1
    · rename_i hmin
      simp only [Spec.isMin, Bool.and_eq_true, List.contains_iff_mem, List.all_eq_true, decide_eq_true_eq] at hmin
      refine ⟨?_, hmin.1, hmin.2⟩
      have : (step cmp q grow .peek).1 = q := by
        simp only [step]; split <;> (try split) <;> rfl
      rw [h] at this; exact this
    · cases h1

/-- `multiset_conserved`, Enqueue half: a successful Enqueue adds exactly the element. -/
theorem c05_pq_enqueue_multiset {cmp : Cmp} (hc : Lawful cmp) {q q' : PQ} (hq : WF cmp q) (grow : Nat) (t : Int)
    (h : step cmp q grow (.enqueue t) = (q', .ok .unit)) : q'.contents.Perm (t :: q.contents) := by
  cases hf : q.isFull with
  | true => simp [step, hf] at h
  | false =>
    obtain ⟨q'', h1, _, h3, _⟩ := enqueue_ok hc hq grow t hf
    rw [h1] at h
    simp only [Prod.mk.injEq, and_true] at h
    subst h; exact h3

/-- `full_iff`: the queue reports full (Enqueue fails with ErrOutOfCapacity) exactly when it is
    bounded and holds `capacity` elements; the failing call changes nothing. -/
theorem c05_pq_full_iff (cmp : Cmp) (q : PQ) (grow : Nat) (t : Int) :
    ((step cmp q grow (.enqueue t)).2 = .err errCap ↔ (0 < q.capacity ∧ (q.contents.length : Int) = q.capacity)) ∧
    ((step cmp q grow (.enqueue t)).2 = .err errCap → (step cmp q grow (.enqueue t)).1 = q) := by
  have hl : (q.contents.length : Int) = (q.data.vals.length : Int) - 1 ∨
      (q.data.vals.length = 0 ∧ q.contents.length = 0) := by
    simp only [PQ.contents, List.length_drop]; omega
  cases hf : q.isFull with
  | true =>
    have hst : step cmp q grow (.enqueue t) = (q, .err errCap) := by simp [step, hf]
    rw [hst]
    simp only [PQ.isFull, Bool.and_eq_true, decide_eq_true_eq, beq_iff_eq] at hf
    refine ⟨⟨fun _ => ⟨hf.1, ?_⟩, fun _ => rfl⟩, fun _ => rfl⟩
    rcases hl with h | h <;> omega
  | false =>
    have hne : (step cmp q grow (.enqueue t)).2 ≠ .err errCap := by
      simp only [step, hf, Bool.false_eq_true, if_false]
      split <;> simp
    refine ⟨⟨fun h => absurd h hne, fun h => ?_⟩, fun h => absurd h hne⟩
    exfalso
    simp only [PQ.isFull, Bool.and_eq_false_iff, decide_eq_false_iff_not] at hf
    rcases hf with h' | h'
    · omega
    · have : ¬ ((q.data.vals.length : Int) - 1 = q.capacity) := by simpa using h'
      rcases hl with h'' | h'' <;> omega

/-- `empty_iff`: Dequeue and Peek fail with ErrEmptyQueue exactly when the queue holds nothing;
    the failing call changes nothing. -/
theorem c05_pq_empty_iff {cmp : Cmp} (hc : Lawful cmp) {q : PQ} (hq : WF cmp q) (grow : Nat) :
    ((step cmp q grow .dequeue).2 = .err errEmpty ↔ q.contents = []) ∧
    ((step cmp q grow .peek).2 = .err errEmpty ↔ q.contents = []) ∧
    (q.contents = [] → (step cmp q grow .dequeue).1 = q ∧ (step cmp q grow .peek).1 = q) := by
  have hs0 := hq.slot0
  have hl : q.contents = [] ↔ q.data.vals.length < 2 := by
    simp only [PQ.contents, List.drop_eq_nil_iff]; omega
  cases he : q.isEmpty with
  | true =>
    have hlt : q.data.vals.length < 2 := by simpa [PQ.isEmpty] using he
    simp [step, he, hl, hlt]
  | false =>
    have hge : ¬ q.data.vals.length < 2 := by simpa [PQ.isEmpty] using he
    obtain ⟨pop, q', h1, _⟩ := dequeue_ok hc hq grow he
    have hp : q.data.vals[1]? = some q.data.vals[1] := List.getElem?_eq_getElem (by omega)
    have h2 : step cmp q grow .peek = (q, .ok (.val q.data.vals[1])) := by simp [step, he, hp]
    rw [h1, h2]
    simp [hl, hge]

/-- `len_le_cap`: a bounded queue never holds more than its capacity, and `Len()` is the number of
    elements held. -/
theorem c05_pq_len_le_cap {cmp : Cmp} {q : PQ} (hq : WF cmp q) :
    q.len = (q.contents.length : Int) ∧ (0 < q.capacity → q.len ≤ q.capacity) := by
  have hs0 := hq.slot0
  refine ⟨by simp only [PQ.len, PQ.contents, List.length_drop]; omega, fun h => ?_⟩
  have := (hq.bounded h).1
  simp only [PQ.len]; omega

/-- … across any amount of internal growth and shrinking: a bounded queue's backing array is never
    reallocated (its capacity stays `capacity+1` whatever the runtime would choose), and for the
    unbounded queue `len ≤ cap` of the backing array is invariant as long as the runtime's growth
    choice covers the appended element — the shrink never truncates. -/
theorem c05_pq_slice_fits {cmp : Cmp} (hc : Lawful cmp) {q : PQ} (hq : WF cmp q) (grow : Nat) (op : Op)
    (hfit : q.data.vals.length ≤ q.data.cap) (hgrow : q.data.vals.length + 1 ≤ grow) :
    (step cmp q grow op).1.data.vals.length ≤ (step cmp q grow op).1.data.cap := by
  cases op with
  | enqueue t =>
    cases hf : q.isFull with
    | true => simp [step, hf]; exact hfit
    | false =>
      obtain ⟨q', h1, _, _, _, _, h6, h7⟩ := enqueue_ok hc hq grow t hf
      rw [h1]; simp only []
      rw [h6, h7]
      unfold Ekit.Lists.GoSlice.append
      split
      · rename_i h; simp at h; exact h
      · exact hgrow
  | dequeue =>
    cases he : q.isEmpty with
    | true => simp [step, he]; exact hfit
    | false =>
      obtain ⟨pop, q', h1, _, _, _, _, _, _, h8, _⟩ := dequeue_ok hc hq grow he
      rw [h1]; exact h8 hfit
  | peek => simp only [step]; split <;> (try split) <;> exact hfit
  | len => exact hfit
  | cap => exact hfit
  | boundless => exact hfit

/-- The shrink's division cannot fire for a reason independent of the fix in `calCapacity`: the
    slice handed to `slice.Shrink` always still contains slot 0, so its length is `≥ 1`. -/
theorem c05_pq_shrink_len_pos {q : PQ} (he : q.isEmpty = false) (last : Int) :
    1 ≤ ((q.data.vals.set 1 last).take (q.data.vals.length - 1)).length := by
  have : 2 ≤ q.data.vals.length := by simpa [PQ.isEmpty] using he
  simp only [List.length_take, List.length_set]; omega

/-! non-vacuity: lawful comparators exist (also with ties), well-formed queues exist, and the
    interesting branches are reachable -/
example : Lawful natural := natural_lawful
example : Lawful div3 ∧ div3 3 5 = 0 ∧ (3 : Int) ≠ 5 := ⟨div3_lawful, by decide, by decide⟩
example : (run natural (PQ.new 2) [(0, .enqueue 5), (0, .enqueue 3), (0, .enqueue 9), (0, .dequeue), (0, .dequeue), (0, .dequeue)]).2
    = [.ok .unit, .ok .unit, .err errCap, .ok (.val 3), .ok (.val 5), .err errEmpty] := by decide
example : (step natural ⟨0, ⟨[0, 1, 2, 3], 100⟩⟩ 0 .dequeue) = (⟨0, ⟨[0, 2, 3], 50⟩⟩, .ok (.val 1)) := by decide

end Ekit.Heap

namespace Ekit.SkipList
open Ekit.Cmp Ekit.Go

/-! ## Skip list

`h` / the first components of a history are the tower heights `randomLevel()` happens to return:
every theorem below is for ALL of them (`1 ≤ h ≤ MaxLevel` is `randomLevel`'s contract, checked on
every observed Insert by the driver). -/

/-- every tower height of a history is one `randomLevel` can return -/
def HeightsOK (hist : List (Nat × Op)) : Prop := ∀ x ∈ hist, 1 ≤ x.1 ∧ x.1 ≤ MaxLevel

theorem c05_sl_new_wf (cmp : Cmp) : WF cmp SL.new := wf_new cmp

/-- **One call refines the sorted-sequence specification whatever tower height is drawn**: same
    result, same enumeration afterwards (the specification knows nothing about towers), and the
    list stays well formed (sorted, heights in range, level = tallest tower, size = length). -/
theorem c05_sl_step_refines {cmp : Cmp} (hc : Lawful cmp) {s : SL} (hs : WF cmp s) (h : Nat)
    (hh : 1 ≤ h ∧ h ≤ MaxLevel) (op : Op) :
    ((step cmp s h op).1.asSlice, (step cmp s h op).2) = Spec.step cmp s.asSlice op ∧
    WF cmp (step cmp s h op).1 := step_refines hc hs h hh op

/-- **Every history, every sequence of tower heights**: all results and the final enumeration are
    those of the sorted-sequence specification. -/
theorem c05_sl_run_refines {cmp : Cmp} (hc : Lawful cmp) (hist : List (Nat × Op)) (hh : HeightsOK hist)
    {s : SL} (hs : WF cmp s) :
    ((run cmp s hist).1.asSlice, (run cmp s hist).2) = Spec.run cmp s.asSlice (hist.map (·.2)) ∧
    WF cmp (run cmp s hist).1 := by
  induction hist generalizing s with
  | nil => exact ⟨rfl, hs⟩
  | cons x rest ih =>
    obtain ⟨h, op⟩ := x
    obtain ⟨h1, h2⟩ := c05_sl_step_refines hc hs h (hh (h, op) List.mem_cons_self) op
    obtain ⟨h3, h4⟩ := ih (fun y hy => hh y (List.mem_cons_of_mem _ hy)) h2
    refine ⟨?_, h4⟩
    simp only [run, List.map_cons, Spec.run]
    have e1 : (step cmp s h op).1.asSlice = (Spec.step cmp s.asSlice op).1 := by rw [← h1]
    have e2 : (step cmp s h op).2 = (Spec.step cmp s.asSlice op).2 := by rw [← h1]
    rw [← e1, ← e2]
    have e3 : (run cmp (step cmp s h op).1 rest).1.asSlice = (Spec.run cmp (step cmp s h op).1.asSlice (rest.map (·.2))).1 := by rw [← h3]
    have e4 : (run cmp (step cmp s h op).1 rest).2 = (Spec.run cmp (step cmp s h op).1.asSlice (rest.map (·.2))).2 := by rw [← h3]
    rw [e3, e4]

/-- "whatever tower heights its random source produces": two runs of the same calls with different
    height sequences return the same results and enumerate the same sequence. -/
theorem c05_sl_heights_irrelevant {cmp : Cmp} (hc : Lawful cmp) (hist1 hist2 : List (Nat × Op))
    (h1 : HeightsOK hist1) (h2 : HeightsOK hist2) (hops : hist1.map (·.2) = hist2.map (·.2)) :
    (run cmp SL.new hist1).2 = (run cmp SL.new hist2).2 ∧
    (run cmp SL.new hist1).1.asSlice = (run cmp SL.new hist2).1.asSlice := by
  have a := (c05_sl_run_refines hc hist1 h1 (c05_sl_new_wf cmp)).1
  have b := (c05_sl_run_refines hc hist2 h2 (c05_sl_new_wf cmp)).1
  rw [hops] at a
  have := a.trans b.symm
  simp only [Prod.mk.injEq] at this
  exact ⟨this.2, this.1⟩

/-- AsSlice enumerates in ascending order (of a well-formed list, hence after every history). -/
theorem c05_sl_asSlice_sorted {cmp : Cmp} {s : SL} (hs : WF cmp s) :
    s.asSlice.Pairwise (fun a b => cmp a b ≤ 0) := by
  unfold SL.asSlice
  rw [List.pairwise_map]
  exact hs.sorted

/-- `asSlice_sorted_perm`, Insert: the enumeration gains exactly the inserted element. -/
theorem c05_sl_insert_multiset {cmp : Cmp} (hc : Lawful cmp) {s : SL} (hs : WF cmp s) (h : Nat)
    (hh : 1 ≤ h ∧ h ≤ MaxLevel) (v : Int) :
    (step cmp s h (.insert v)).1.asSlice.Perm (v :: s.asSlice) ∧ (step cmp s h (.insert v)).2 = .ok .unit := by
  have := (c05_sl_step_refines hc hs h hh (.insert v)).1
  simp only [Spec.step, Prod.mk.injEq] at this
  rw [this.1, this.2]
  exact ⟨spec_insert_perm cmp v _, rfl⟩

/-- `asSlice_sorted_perm`, DeleteElement: either no element compares equal to the target and
    NOTHING changes (the whole state: chain, towers, level, size), or the enumeration loses exactly
    one element that compares equal to the target. -/
theorem c05_sl_delete_multiset {cmp : Cmp} (hc : Lawful cmp) {s : SL} (hs : WF cmp s) (h : Nat)
    (hh : 1 ≤ h ∧ h ≤ MaxLevel) (v : Int) :
    ((∀ x ∈ s.asSlice, cmp x v ≠ 0) ∧ (step cmp s h (.delete v)).1 = s) ∨
    (∃ x, x ∈ s.asSlice ∧ cmp x v = 0 ∧ s.asSlice.Perm (x :: (step cmp s h (.delete v)).1.asSlice)) := by
  have href := (c05_sl_step_refines hc hs h hh (.delete v)).1
  simp only [Spec.step, Prod.mk.injEq] at href
  rcases spec_delete_cases cmp v s.asSlice with ⟨hall, _⟩ | ⟨x, hx, hxe, hp⟩
  · left
    refine ⟨hall, ?_⟩
    obtain ⟨A, B, hn, hA, hB⟩ := split_sorted hc v s.nodes hs.sorted
    have hmiss : ∀ n, B.head? = some n → cmp n.val v ≠ 0 := by
      intro n hn'
      apply hall
      unfold SL.asSlice
      apply List.mem_map.mpr
      refine ⟨n, ?_, rfl⟩
      rw [hn]
      apply List.mem_append_right
      cases B with
      | nil => cases hn'
      | cons b B' => simp at hn'; subst hn'; exact List.mem_cons_self
    rw [delete_miss hs h v A B hn hA hB hmiss]
  · right
    exact ⟨x, hx, hxe, by rw [href.1]; exact hp⟩

/-- `asSlice_sorted_perm` for whole histories: with a comparator that separates different elements
    the enumeration is, as a multiset, exactly "inserted minus deleted" (`Spec.bagRun`: Insert adds
    the element, DeleteElement removes one occurrence if present), and it is ascending. -/
theorem c05_sl_asSlice_sorted_perm {cmp : Cmp} (hc : Lawful cmp) (hex : ∀ a b, cmp a b = 0 → a = b)
    (hist : List (Nat × Op)) (hh : HeightsOK hist) {s : SL} (hs : WF cmp s) {bag : List Int}
    (hb : s.asSlice.Perm bag) :
    (run cmp s hist).1.asSlice.Perm (Spec.bagRun bag (hist.map (·.2))) ∧
    (run cmp s hist).1.asSlice.Pairwise (fun a b => cmp a b ≤ 0) := by
  induction hist generalizing s bag with
  | nil => exact ⟨hb, c05_sl_asSlice_sorted hs⟩
  | cons x rest ih =>
    obtain ⟨h, op⟩ := x
    have hhx := hh (h, op) List.mem_cons_self
    obtain ⟨h1, h2⟩ := c05_sl_step_refines hc hs h hhx op
    simp only [run, List.map_cons, Spec.bagRun]
    apply ih (fun y hy => hh y (List.mem_cons_of_mem _ hy)) h2
    have e1 : (step cmp s h op).1.asSlice = (Spec.step cmp s.asSlice op).1 := by rw [← h1]
    rw [e1]
    cases op with
    | insert v => exact (spec_insert_perm cmp v _).trans (List.Perm.cons v hb)
    | delete v =>
      simp only [Spec.step, Spec.bagStep]
      rw [spec_delete_exact hc hex]
      exact hb.erase v
    | search v => exact hb
    | get i => simp only [Spec.step]; split <;> exact hb
    | peek => simp only [Spec.step]; split <;> exact hb
    | asSlice => exact hb
    | len => exact hb

/-- `search_iff_mem`: Search answers whether some enumerated element compares equal to the target. -/
theorem c05_sl_search_iff_mem {cmp : Cmp} (hc : Lawful cmp) {s : SL} (hs : WF cmp s) (h : Nat) (v : Int) :
    ∃ b, step cmp s h (.search v) = (s, .ok (.bool b)) ∧ (b = true ↔ ∃ x ∈ s.asSlice, cmp x v = 0) := by
  obtain ⟨A, B, hn, hA, hB⟩ := split_sorted hc v s.nodes hs.sorted
  have h1 := search_eq hs h v A B hn hA hB
  have href := (step_refines hc hs 1 ⟨Nat.le_refl _, by decide⟩ (.search v)).1
  have h1' := search_eq hs 1 v A B hn hA hB
  rw [h1'] at href
  simp only [Spec.step, Prod.mk.injEq, Outcome.ok.injEq, Ret.bool.injEq] at href
  refine ⟨_, h1, ?_⟩
  rw [href.2, List.any_eq_true]
  simp

/-- `get_eq_nth`: Get(i) is the i-th enumerated element; an index outside `[0, Len())` is the index
    error carrying (size, index) — an error, not a panic — and never changes the list. -/
theorem c05_sl_get_eq_nth {cmp : Cmp} {s : SL} (hs : WF cmp s) (h : Nat) (i : Int) :
    (step cmp s h (.get i)).1 = s ∧
    ((0 ≤ i ∧ i < (s.asSlice.length : Int)) → (step cmp s h (.get i)).2 = .ok (.val (s.asSlice.getD i.toNat 0))) ∧
    (¬ (0 ≤ i ∧ i < (s.asSlice.length : Int)) → (step cmp s h (.get i)).2 = .err (.idx s.asSlice.length i)) := by
  have hsz := hs.size
  have hlen : s.asSlice.length = s.nodes.length := by simp [SL.asSlice]
  refine ⟨by simp only [step]; split <;> (try split) <;> rfl, ?_, ?_⟩
  · intro hr
    have hr' : ¬ (i < 0 ∨ i ≥ s.size) := by omega
    have hlt : i.toNat < s.nodes.length := by omega
    simp only [step, hr', if_false, List.getElem?_eq_getElem hlt, SL.asSlice, List.getD_eq_getElem?_getD,
      List.getElem?_map]
    simp
  · intro hr
    have hr' : i < 0 ∨ i ≥ (s.nodes.length : Int) := by omega
    simp only [step, hlen, hsz, if_pos hr']

/-- `peek_eq_head`: Peek is the first enumerated element (a minimum), or the error on the empty list. -/
theorem c05_sl_peek_eq_head {cmp : Cmp} {s : SL} (hs : WF cmp s) (h : Nat) :
    step cmp s h .peek = (s, match s.asSlice with | [] => .err errEmpty | x :: _ => .ok (.val x)) ∧
    (∀ x, s.asSlice.head? = some x → ∀ y ∈ s.asSlice, cmp x y ≤ 0 ∨ y = x) := by
  constructor
  · obtain ⟨nodes, lvl, sz⟩ := s
    simp only [step, SL.asSlice]
    cases nodes <;> rfl
  · intro x hx y hy
    have hp := c05_sl_asSlice_sorted hs
    cases hl : s.asSlice with
    | nil => rw [hl] at hx; cases hx
    | cons a t =>
      rw [hl] at hx hy hp
      simp at hx; subst hx
      rcases List.mem_cons.mp hy with rfl | hy'
      · exact Or.inr rfl
      · exact Or.inl ((List.pairwise_cons.mp hp).1 y hy')

/-- `len_eq`: Len() is the number of enumerated elements. -/
theorem c05_sl_len_eq {cmp : Cmp} {s : SL} (hs : WF cmp s) (h : Nat) :
    step cmp s h .len = (s, .ok (.int s.asSlice.length)) := by
  simp [step, SL.asSlice, hs.size]

/-- the height of the tallest tower (0 for the empty list) -/
def maxHeight : List Node → Nat
  | [] => 0
  | n :: t => max n.h (maxHeight t)

/-- level bookkeeping: `level` is the height of the tallest tower, and 1 when the list is empty
    ("SkipList为空时, level为1") — in particular after the tallest tower has been deleted. -/
theorem c05_sl_level_eq_max_height {cmp : Cmp} {s : SL} (hs : WF cmp s) :
    s.level = max 1 (maxHeight s.nodes) := by
  obtain ⟨h1, h2, h3⟩ := hs.level
  have hle : ∀ (l : List Node), (∀ n ∈ l, n.h ≤ s.level) → maxHeight l ≤ s.level := by
    intro l
    induction l with
    | nil => intro _; simp [maxHeight]
    | cons n t ih =>
      intro hall
      have := hall n List.mem_cons_self
      have := ih (fun m hm => hall m (List.mem_cons_of_mem _ hm))
      simp only [maxHeight]; omega
  have hge : ∀ (l : List Node) (n : Node), n ∈ l → n.h ≤ maxHeight l := by
    intro l
    induction l with
    | nil => intro n hn; cases hn
    | cons m t ih =>
      intro n hn
      simp only [maxHeight]
      rcases List.mem_cons.mp hn with rfl | hn'
      · omega
      · have := ih n hn'; omega
  have a := hle s.nodes h2
  by_cases hl : 1 < s.level
  · obtain ⟨n, hn, hnl⟩ := h3 hl
    have := hge s.nodes n hn
    omega
  · omega

/-- No call on a well-formed skip list panics (in particular Get out of range is an error, the
    walk of Get never runs off the chain, and the tower splices/unlinks are consistent on all
    levels), whatever tower height is drawn. -/
theorem c05_sl_no_panic {cmp : Cmp} (hc : Lawful cmp) {s : SL} (hs : WF cmp s) (h : Nat)
    (hh : 1 ≤ h ∧ h ≤ MaxLevel) (op : Op) : (step cmp s h op).2.isPanic = false := by
  have := (c05_sl_step_refines hc hs h hh op).1
  have e : (step cmp s h op).2 = (Spec.step cmp s.asSlice op).2 := by rw [← this]
  rw [e]
  cases op <;> simp only [Spec.step] <;> (try split) <;> rfl

/-- The predecessor search is right on every level: `update[j]` is the last tower of height `> j`
    in front of the insertion point — this is what makes the per-level splices of Insert equal to
    one list insertion (the model refuses any other `update`, and by `c05_sl_no_panic` never does). -/
theorem c05_sl_traverse_update {cmp : Cmp} (hc : Lawful cmp) {s : SL} (hs : WF cmp s) (v : Int) :
    ∃ A B, s.nodes = A ++ B ∧ (∀ n ∈ A, cmp n.val v < 0) ∧ (∀ n ∈ B, ¬ cmp n.val v < 0) ∧
      (traverse cmp v s).1 = A.length ∧
      ∀ j, j < s.level → (traverse cmp v s).2[j]? = some (lastAbove j A 0 0) := by
  obtain ⟨A, B, hn, hA, hB⟩ := split_sorted hc v s.nodes hs.sorted
  obtain ⟨t1, _, t3⟩ := traverse_spec v s A B hn hA hB (fun n hm => (hs.heights n hm).1) hs.level
  exact ⟨A, B, hn, hA, hB, t1, t3⟩

/-- **The specification acceptor of the driver (`spec` mode) accepts every call of the model**: for
    a well-formed list holding (as a multiset) `bag`, any call, any tower height, the result and the
    enumeration afterwards pass `Spec.check` — which only speaks about the sorted multiset (ascending
    enumeration, the multiset gains the inserted element / loses one element comparing equal to the
    target or nothing, Search = membership up to `cmp`, Get = i-th, Peek = a minimum, Len = count). -/
theorem c05_sl_step_accepted {cmp : Cmp} (hc : Lawful cmp) {s : SL} (hs : WF cmp s) (h : Nat)
    (hh : 1 ≤ h ∧ h ≤ MaxLevel) {bag : List Int} (hb : bag.Perm s.asSlice) (op : Op) :
    Spec.check cmp bag op (step cmp s h op).2 (step cmp s h op).1.asSlice = true := by
  obtain ⟨href, hwf⟩ := c05_sl_step_refines hc hs h hh op
  have hsorted : Spec.sorted cmp (step cmp s h op).1.asSlice = true :=
    (sorted_iff cmp _).mpr (c05_sl_asSlice_sorted hwf)
  have e1 : (step cmp s h op).1.asSlice = (Spec.step cmp s.asSlice op).1 := by rw [← href]
  have e2 : (step cmp s h op).2 = (Spec.step cmp s.asSlice op).2 := by rw [← href]
  have hanyeq : ∀ v, bag.any (fun x => decide (cmp x v = 0)) = s.asSlice.any (fun x => decide (cmp x v = 0)) :=
    fun v => hb.any_eq
  simp only [Spec.check, hsorted, Bool.true_and]
  cases op with
  | insert v =>
    rw [e1, e2]
    simp only [Spec.step, beq_self_eq_true, Bool.true_and]
    exact permB_of_perm ((spec_insert_perm cmp v _).trans (List.Perm.cons v hb.symm))
  | delete v =>
    have hout : (step cmp s h (.delete v)).2 = .ok (.bool true) := by rw [e2]; rfl
    rw [hout]
    simp only [Bool.true_and]
    rcases c05_sl_delete_multiset hc hs h hh v with ⟨hall, hsame⟩ | ⟨x, hx, hxe, hp⟩
    · have hnone : bag.any (fun x => decide (cmp x v = 0)) = false := by
        rw [hanyeq, List.any_eq_false]
        intro y hy; simpa using hall y hy
      rw [hnone, hsame]
      simp only [Bool.false_eq_true, if_false]
      exact permB_of_perm hb.symm
    · have hxb : x ∈ bag := hb.mem_iff.mpr hx
      have hsome : bag.any (fun x => decide (cmp x v = 0)) = true :=
        List.any_eq_true.mpr ⟨x, hxb, by simpa using hxe⟩
      rw [hsome]
      simp only [if_true]
      apply List.any_eq_true.mpr
      refine ⟨x, hxb, ?_⟩
      simp only [hxe, decide_true, Bool.true_and]
      apply permB_of_perm
      have h1 : bag.Perm (x :: (step cmp s h (.delete v)).1.asSlice) := hb.trans hp
      have := h1.erase x
      simp only [List.erase_cons_head] at this
      exact this.symm
  | search v =>
    rw [e1, e2]
    simp only [Spec.step, hanyeq, beq_self_eq_true, Bool.true_and]
    exact permB_of_perm hb.symm
  | get i =>
    have hstate : (step cmp s h (.get i)).1 = s := (c05_sl_get_eq_nth hs h i).1
    rw [hstate]
    simp only [permB_of_perm hb.symm, Bool.true_and]
    have hlen : bag.length = s.asSlice.length := hb.length_eq
    by_cases hr : 0 ≤ i ∧ i < (s.asSlice.length : Int)
    · have hr' : ¬ (i < 0 ∨ i ≥ (bag.length : Int)) := by omega
      rw [(c05_sl_get_eq_nth hs h i).2.1 hr, if_neg hr']
      have hlt : i.toNat < s.asSlice.length := by omega
      simp only [List.getElem?_eq_getElem hlt, List.getD_eq_getElem?_getD, Option.getD_some, Bool.and_eq_true,
        List.contains_iff_mem, decide_eq_true_eq]
      exact ⟨hb.mem_iff.mpr (List.getElem_mem hlt), hc.refl _⟩
    · have hr' : i < 0 ∨ i ≥ (bag.length : Int) := by omega
      rw [(c05_sl_get_eq_nth hs h i).2.2 hr, if_pos hr', hlen]
      simp
  | peek =>
    obtain ⟨hpk, hmin⟩ := c05_sl_peek_eq_head hs h
    rw [hpk]
    simp only [permB_of_perm hb.symm, Bool.true_and]
    cases hl : s.asSlice with
    | nil =>
      have : bag = [] := by rw [hl] at hb; exact hb.eq_nil
      subst this; simp
    | cons x t =>
      cases bag with
      | nil => rw [hl] at hb; exact absurd hb.symm.eq_nil (by simp)
      | cons b bs =>
        simp only [Bool.and_eq_true, List.contains_iff_mem, List.all_eq_true, decide_eq_true_eq]
        refine ⟨hb.mem_iff.mpr (by rw [hl]; exact List.mem_cons_self), ?_⟩
        intro y hy
        have hy' : y ∈ s.asSlice := hb.mem_iff.mp hy
        rcases hmin x (by rw [hl]; rfl) y hy' with h1 | h1
        · exact h1
        · rw [h1]; have := hc.refl x; omega
  | asSlice =>
    rw [e1, e2]
    simp only [Spec.step, permB_of_perm hb.symm, Bool.true_and, Bool.and_true]
    exact (sorted_iff cmp _).mpr (c05_sl_asSlice_sorted hs)
  | len =>
    rw [e1, e2]
    simp only [Spec.step, hb.length_eq, beq_self_eq_true, Bool.true_and]
    exact permB_of_perm hb.symm

/-- The executable well-formedness test the driver applies to a list built by
    `NewSkipListFromSlice` is sound: a dump that passes it is a state all theorems here apply to. -/
theorem c05_sl_wfB_sound {cmp : Cmp} {s : SL} (h : s.wfB cmp = true) : WF cmp s := by
  simp only [SL.wfB, Bool.and_eq_true, Bool.or_eq_true, List.all_eq_true, List.any_eq_true,
    decide_eq_true_eq] at h
  obtain ⟨⟨⟨⟨⟨h1, h2⟩, h3⟩, h4⟩, h5⟩, h6⟩ := h
  refine ⟨?_, h2, ⟨h3, h4, fun hl => ?_⟩, h6⟩
  · have := (sorted_iff cmp _).mp h1
    rw [List.pairwise_map] at this
    exact this
  · rcases h5 with h5 | ⟨n, hn, hle⟩
    · omega
    · exact ⟨n, hn, hle⟩

/-- `NewSkipListFromSlice` (Insert every element in order, any tower heights) enumerates
    `Spec.fromSlice` of its input and is well formed. -/
theorem c05_sl_from_slice {cmp : Cmp} (hc : Lawful cmp) (hvs : List (Nat × Int))
    (hh : ∀ x ∈ hvs, 1 ≤ x.1 ∧ x.1 ≤ MaxLevel) :
    (run cmp SL.new (hvs.map fun x => (x.1, Op.insert x.2))).1.asSlice = Spec.fromSlice cmp (hvs.map (·.2)) ∧
    WF cmp (run cmp SL.new (hvs.map fun x => (x.1, Op.insert x.2))).1 := by
  have hok : HeightsOK (hvs.map fun x => (x.1, Op.insert x.2)) := by
    intro y hy
    obtain ⟨x, hx, rfl⟩ := List.mem_map.mp hy
    exact hh x hx
  obtain ⟨h1, h2⟩ := c05_sl_run_refines hc _ hok (c05_sl_new_wf cmp)
  refine ⟨?_, h2⟩
  have e : (run cmp SL.new (hvs.map fun x => (x.1, Op.insert x.2))).1.asSlice =
      (Spec.run cmp SL.new.asSlice ((hvs.map fun x => (x.1, Op.insert x.2)).map (·.2))).1 := by rw [← h1]
  rw [e]
  have key : ∀ (vs : List Int) (l : List Int),
      (Spec.run cmp l (vs.map Op.insert)).1 = vs.foldl (fun l v => Spec.insert cmp v l) l := by
    intro vs
    induction vs with
    | nil => intro l; rfl
    | cons v vs ih => intro l; simp only [List.map_cons, Spec.run, Spec.step, List.foldl_cons]; exact ih _
  have hm : ((hvs.map fun x => (x.1, Op.insert x.2)).map (·.2)) = (hvs.map (·.2)).map Op.insert := by
    simp [List.map_map, Function.comp_def]
  rw [hm, key]
  rfl

/-- The shape of `randomLevel`'s loop (start at 1, count up, cap at `MaxLevel`) yields a height in
    `1..MaxLevel` for EVERY sequence of generator values and every threshold (every `FactorP`) — the
    only thing the theorems above assume about tower heights.  (Supplementary: the run is tied to
    this contract by the driver's per-Insert range check, not to this function.) -/
theorem c05_sl_randomLevel_range (thr : Int) (draws : List Int) :
    1 ≤ randomLevel thr draws ∧ randomLevel thr draws ≤ MaxLevel := by
  have mono : ∀ (ds : List Int) (l : Nat), l ≤ randomLevelLoop thr ds l := by
    intro ds
    induction ds with
    | nil => intro l; exact Nat.le_refl _
    | cons d rest ih =>
      intro l
      simp only [randomLevelLoop]
      split
      · exact Nat.le_trans (Nat.le_succ l) (ih (l + 1))
      · exact Nat.le_refl _
  have := mono draws 1
  simp only [randomLevel]
  split
  · constructor <;> omega
  · exact ⟨by decide, Nat.le_refl _⟩

/-! non-vacuity -/
example : (run natural SL.new [(2, .insert 5), (1, .insert 3), (3, .insert 5), (1, .delete 4), (1, .delete 5), (1, .asSlice)]).2.getLast?
    = some (.ok (.slice [3, 5])) := by decide
example : (run natural SL.new [(2, .insert 5), (1, .insert 3), (3, .insert 7), (1, .delete 7)]).1
    = ⟨[⟨3, 1⟩, ⟨5, 2⟩], 2, 2⟩ := by decide
example : randomLevel 16383 [5, 70000, 16383] = 3 := by decide
example : HeightsOK [(2, Op.insert 5), (32, Op.insert 3)] := by
  intro x hx; simp at hx; rcases hx with rfl | rfl <;> decide

end Ekit.SkipList
