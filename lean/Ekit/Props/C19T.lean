/-
C19 (review additions) — how necessary are the two excluding hypotheses of the `_partial` theorems?

* `N < 2^31` (`c19_budget_exact_partial`, `c19_seq_result_partial`): NECESSARY for every limited budget —
  `c19_counter_wrap_general`: for EVERY strategy with `0 < maxRetries` call number 2^31 is granted although the
  budget was used up long before (the witness of C19.lean is the instance `maxRetries = 1`).
* `initial² ≤ 2^63` (`c19_conc_in_bounds_partial`): sufficient, NOT necessary.  The exact condition is
  `SafeSeen cfg` — no counter value a call can see has a raw product `0 < p < initial`:
  `c19_conc_in_bounds_iff` proves that all returned intervals are within bounds on all interleavings IF AND
  ONLY IF the strategy is fixed or `SafeSeen` holds (the "only if" direction constructs the violating
  interleaving for every offending configuration, generalising the two witnesses of C19.lean).
  `c19_initial_sq_not_necessary` is a configuration with `initial² > 2^63` that is nevertheless safe.
-/
import Ekit.Props.C19
import Ekit.Lemmas.RetryTight

namespace Ekit.Retry

/-- **The bound `N < 2^31` is necessary for every limited budget.**  For every configuration with a positive
    budget, sequential call number 2^31 is granted by the code (the `int32` counter wraps to `MinInt32`, which is
    `≤ maxRetries`) although the specification refuses it whenever `maxRetries < 2^31` (always, for an `int32`). -/
theorem c19_counter_wrap_general (cfg : Cfg) (hpos : 0 < cfg.maxRetries) (h32 : cfg.maxRetries < 2147483648) :
    (callResult cfg 2147483648).2 = true ∧ Spec.granted cfg.maxRetries 2147483648 = false := by
  constructor
  · rw [c19_seq_granted_iff cfg 2147483648 (by decide)]
    have : wrap32 ((2147483648 : Nat) : Int) = -2147483648 := by decide
    rw [this]
    simp only [budgetOk, Bool.or_eq_true, decide_eq_true_eq]
    right; omega
  · simp only [Spec.granted, Bool.or_eq_false_iff, decide_eq_false_iff_not]
    constructor <;> omega

/-- "every interval it returns lies between the initial and the maximum interval", any interleaving, under the
    EXACT condition (strictly weaker than `initial² ≤ 2^63`, see `c19_conc_in_bounds_partial_of_seen`) -/
theorem c19_conc_in_bounds_seen (cfg : Cfg) (hv : Valid cfg) (hsafe : cfg.kind = .fixed ∨ SafeSeen cfg)
    (tr : List Label) (s : St) (h : run cfg St.init tr = some s) :
    ∀ r ∈ s.rets, r.ok = true → cfg.initial ≤ r.iv ∧ r.iv ≤ cfg.max := by
  rcases hsafe with hk | hs
  · exact c19_conc_in_bounds_partial cfg hv (.inl hk) tr s h
  · exact inBoundsSeen_run hv hs tr (actInv_init cfg) (by intro r hr; simp [St.init] at hr) h

/-- the published partial theorem is a corollary: `initial² ≤ 2^63 ⇒ SafeWrap ⇒ SafeSeen` -/
theorem c19_conc_in_bounds_partial_of_seen (cfg : Cfg) (hv : Valid cfg)
    (hsafe : cfg.kind = .fixed ∨ cfg.initial * cfg.initial ≤ 9223372036854775808)
    (tr : List Label) (s : St) (h : run cfg St.init tr = some s) :
    ∀ r ∈ s.rets, r.ok = true → cfg.initial ≤ r.iv ∧ r.iv ≤ cfg.max :=
  c19_conc_in_bounds_seen cfg hv
    (hsafe.imp id fun hsq => SafeWrap.toSafeSeen fun r hpos => rawInterval_pos_ge_initial cfg hv.pos hsq r hpos) tr s h

/-- **Exact characterisation.**  For a valid configuration, every interval returned with `ok = true` lies in
    `[initial, max]` on EVERY interleaving of any number of goroutines if and only if the strategy is the fixed
    one or no counter value a call can see yields a positive wrapped product below `initial`. -/
theorem c19_conc_in_bounds_iff (cfg : Cfg) (hv : Valid cfg) :
    (∀ (tr : List Label) (s : St), run cfg St.init tr = some s →
        ∀ r ∈ s.rets, r.ok = true → cfg.initial ≤ r.iv ∧ r.iv ≤ cfg.max) ↔
      (cfg.kind = .fixed ∨ SafeSeen cfg) := by
  constructor
  · intro hall
    cases hk : cfg.kind with
    | fixed => exact .inl rfl
    | exp =>
      right
      intro r ⟨n, hn1, hrn, hb⟩ hpos
      apply Classical.byContradiction
      intro hlt
      have hlt' : rawInterval cfg r < cfg.initial := by omega
      obtain ⟨m, rfl⟩ : ∃ m, n = m + 1 := ⟨n - 1, by omega⟩
      rw [hrn] at hb hpos hlt'
      obtain ⟨s, hrun, hmem, _⟩ := stale_trace cfg hv hk m hb hpos hlt'
      have := (hall _ s hrun _ hmem rfl).1
      simp only at this
      omega
  · intro hsafe tr s h
    exact c19_conc_in_bounds_seen cfg hv hsafe tr s h

/-- `initial = 2^40 ns` (≈ 18 min), `max = MaxInt64`, unlimited budget: `initial² = 2^80 > 2^63`, yet every
    wrapped product that is not the true product is `≤ 0` — the configuration is safe on every interleaving,
    on both architectures.  So `initial² ≤ 2^63` is not necessary. -/
def bigSafeCfg (arch : Arch) : Cfg := ⟨.exp, 1099511627776, 9223372036854775807, 0, arch⟩

theorem bigSafe_aux (arch : Arch) (e : Int) (hpos : 0 < wrap64 (1099511627776 * pow2 arch e)) :
    (1099511627776 : Int) ≤ wrap64 (1099511627776 * pow2 arch e) := by
  by_cases hneg : e < 0
  · have h0 : pow2 arch e = 0 := by simp [pow2, hneg]
    have h1 : wrap64 (1099511627776 * 0) = 0 := by decide +kernel
    rw [h0, h1] at hpos; omega
  · by_cases h62 : e ≤ 62
    · have key : ∀ k : Fin 63, 0 < wrap64 (1099511627776 * (2 : Int) ^ k.1) →
          (1099511627776 : Int) ≤ wrap64 (1099511627776 * (2 : Int) ^ k.1) := by decide +kernel
      have hk : e.toNat < 63 := by omega
      have h0 : pow2 arch e = (2 : Int) ^ e.toNat := by simp [pow2, hneg, h62]
      rw [h0] at hpos ⊢
      exact key ⟨e.toNat, hk⟩ hpos
    · have h0 : pow2 arch e = arch.ovf := by simp [pow2, hneg, h62]
      rw [h0] at hpos
      exfalso
      cases arch
      · have h1 : wrap64 (1099511627776 * Arch.satMin.ovf) = 0 := by decide +kernel
        rw [h1] at hpos; omega
      · have h1 : wrap64 (1099511627776 * Arch.satMax.ovf) = -1099511627776 := by decide +kernel
        rw [h1] at hpos; omega

theorem bigSafe_safeSeen (arch : Arch) : SafeSeen (bigSafeCfg arch) :=
  fun r _ hpos => bigSafe_aux arch (wrap32 (r - 1)) hpos

theorem bigSafe_valid (arch : Arch) : Valid (bigSafeCfg arch) := by
  cases arch <;> exact ⟨by decide, by decide, by decide⟩

theorem c19_initial_sq_not_necessary (arch : Arch) :
    Valid (bigSafeCfg arch) ∧ ¬ ((bigSafeCfg arch).initial * (bigSafeCfg arch).initial ≤ 9223372036854775808) ∧
    ∀ (tr : List Label) (s : St), run (bigSafeCfg arch) St.init tr = some s →
      ∀ r ∈ s.rets, r.ok = true → (bigSafeCfg arch).initial ≤ r.iv ∧ r.iv ≤ (bigSafeCfg arch).max :=
  ⟨bigSafe_valid arch, by cases arch <;> decide,
   fun tr s h => c19_conc_in_bounds_seen _ (bigSafe_valid arch) (.inr (bigSafe_safeSeen arch)) tr s h⟩

/-- the two witnesses of C19.lean are instances of the general construction: `staleCfg` is not `SafeSeen` -/
theorem c19_staleCfg_not_safeSeen (arch : Arch) : ¬ SafeSeen (staleCfg arch) := by
  intro h
  have hv : Valid (staleCfg arch) := (c19_stale_flag_witness arch).1
  have hall := (c19_conc_in_bounds_iff (staleCfg arch) hv).2 (.inr h)
  obtain ⟨_, s, hrun, hmem, hlt, _⟩ := c19_stale_flag_witness arch
  have := (hall _ s hrun _ hmem rfl).1
  simp only at this
  omega

end Ekit.Retry
