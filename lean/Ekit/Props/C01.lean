/-
C01 — Tree-backed containers refine an abstract sorted map for every history.

Property theorems only.  Model and specification: Ekit/Model/RBTree.lean; helper lemmas:
Ekit/Lemmas/RBSorted.lean (sorted association lists), RBList.lean (in-order traversal of the tree
operations), RBRefine.lean (one-step refinement).  All theorems hold for EVERY key type `α`, value
type `β` and comparator `cmp` satisfying `LawfulCmp` (antisymmetry by sign + transitivity of ≤):
key equality is only ever `cmp a b = 0`.
-/
import Ekit.Lemmas.RBWrap

namespace Ekit.RB
variable {α β : Type} {cmp : α → α → Int}

/-! #### tree.RBTree / internal tree.RBTree -/

/-- "every call returns exactly what an abstract key->value map ordered by the user's comparator
    would return, and size and contents always equal that map's" — one call. -/
theorem c01_rbtree_step_refines (hc : LawfulCmp cmp) (t : RBTree α β) (hw : t.WF cmp) (op : TreeOp α β) :
    ((t.step cmp op).1.root.toList, (t.step cmp op).2) = SMap.step cmp t.root.toList op ∧
    (t.step cmp op).1.WF cmp :=
  RBTree.step_refines hc t hw op

/-- … for EVERY history of Add/Set/Find/Delete/KeyValues/Size, from any well-formed tree. -/
theorem c01_rbtree_run_refines (hc : LawfulCmp cmp) (t : RBTree α β) (hw : t.WF cmp) (ops : List (TreeOp α β)) :
    ((t.run cmp ops).1.root.toList, (t.run cmp ops).2) = SMap.run cmp t.root.toList ops ∧
    (t.run cmp ops).1.WF cmp := by
  induction ops generalizing t with
  | nil => exact ⟨rfl, hw⟩
  | cons op rest ih =>
    obtain ⟨h1, h2⟩ := RBTree.step_refines hc t hw op
    obtain ⟨h3, h4⟩ := ih (t.step cmp op).1 h2
    simp only [RBTree.run, SMap.run]
    rw [← h1]
    simp only []
    rw [← h3]
    exact ⟨rfl, h4⟩

/-- the same, starting from `NewRBTree` -/
theorem c01_rbtree_run_refines_empty (hc : LawfulCmp cmp) (ops : List (TreeOp α β)) :
    (((RBTree.empty : RBTree α β).run cmp ops).1.root.toList, (RBTree.empty.run cmp ops).2) = SMap.run cmp [] ops :=
  (c01_rbtree_run_refines hc RBTree.empty RBTree.wf_empty ops).1

/-- "RBTree.KeyValues … list every live entry exactly once in ascending comparator order",
    and `Size` is the number of entries — after every history. -/
theorem c01_keyValues_strictAsc (hc : LawfulCmp cmp) (ops : List (TreeOp α β)) :
    let t := ((RBTree.empty : RBTree α β).run cmp ops).1
    t.root.toList.Pairwise (fun a b => cmp a.1 b.1 < 0) ∧ t.size = t.root.toList.length := by
  have := (c01_rbtree_run_refines hc (RBTree.empty : RBTree α β) RBTree.wf_empty ops).2
  exact ⟨this.ordered, this.size_eq⟩

/-- "a call that reports failure (duplicate Add, Set/Find/Delete of an absent key) changes
    nothing": the state afterwards is the identical tree (shape, colours, values, size). -/
theorem c01_failed_call_unchanged (t : RBTree α β) (op : TreeOp α β)
    (h : (t.step cmp op).2 = .errDup ∨ (t.step cmp op).2 = .errAbsent ∨ (t.step cmp op).2 = .none) :
    (t.step cmp op).1 = t := by
  cases op with
  | add k v =>
    simp only [RBTree.step] at h ⊢
    cases hi : Tree.insert cmp t.root k v <;> simp_all
  | set k v =>
    simp only [RBTree.step] at h ⊢
    cases hi : Tree.set cmp k v t.root <;> simp_all
  | find k =>
    simp only [RBTree.step] at h ⊢
    cases hi : Tree.find cmp k t.root <;> simp_all
  | delete k =>
    simp only [RBTree.step] at h ⊢
    cases hi : Tree.delete cmp t.root k with
    | none => rfl
    | some xt => obtain ⟨x, t'⟩ := xt; simp_all
  | keyValues => rfl
  | size => rfl

/-- …and those failures happen exactly when the abstract map says so (duplicate ⇔ key present,
    absent ⇔ key not present, where "present" means some stored key compares equal). -/
theorem c01_failure_iff (hc : LawfulCmp cmp) (t : RBTree α β) (hw : t.WF cmp) (k : α) (v : β) :
    ((t.step cmp (.add k v)).2 = .errDup ↔ (SMap.lookup cmp k t.root.toList).isSome) ∧
    ((t.step cmp (.set k v)).2 = .errAbsent ↔ SMap.lookup cmp k t.root.toList = none) ∧
    ((t.step cmp (.find k)).2 = .errAbsent ↔ SMap.lookup cmp k t.root.toList = none) ∧
    ((t.step cmp (.delete k)).2 = .none ↔ SMap.lookup cmp k t.root.toList = none) := by
  have h1 := (Prod.mk.inj (RBTree.step_refines hc t hw (.add k v)).1).2
  have h2 := (Prod.mk.inj (RBTree.step_refines hc t hw (.set k v)).1).2
  have h3 := (Prod.mk.inj (RBTree.step_refines hc t hw (.find k)).1).2
  have h4 := (Prod.mk.inj (RBTree.step_refines hc t hw (.delete k)).1).2
  rw [h1, h2, h3, h4]
  cases hl : SMap.lookup cmp k t.root.toList <;> simp [SMap.step, hl]

/-! #### mapx.TreeMap -/

/-- TreeMap: `Put` = insert-or-overwrite (never fails), `Get`, `Delete`, `Keys`, `Values`, `Len`
    answer as the abstract sorted map does — one call. -/
theorem c01_treemap_step_refines (hc : LawfulCmp cmp) (t : RBTree α β) (hw : t.WF cmp) (op : MapOp α β) :
    ((TreeMap.step cmp t op).1.root.toList, (TreeMap.step cmp t op).2) = SMap.mstep cmp t.root.toList op ∧
    (TreeMap.step cmp t op).1.WF cmp :=
  TreeMap.step_refines hc t hw op

/-- TreeMap, every history -/
theorem c01_treemap_run_refines (hc : LawfulCmp cmp) (t : RBTree α β) (hw : t.WF cmp) (ops : List (MapOp α β)) :
    ((TreeMap.run cmp t ops).1.root.toList, (TreeMap.run cmp t ops).2) = SMap.mrun cmp t.root.toList ops ∧
    (TreeMap.run cmp t ops).1.WF cmp := by
  induction ops generalizing t with
  | nil => exact ⟨rfl, hw⟩
  | cons op rest ih =>
    obtain ⟨h1, h2⟩ := TreeMap.step_refines hc t hw op
    obtain ⟨h3, h4⟩ := ih (TreeMap.step cmp t op).1 h2
    simp only [TreeMap.run, SMap.mrun]
    rw [← h1]
    simp only []
    rw [← h3]
    exact ⟨rfl, h4⟩


/-- `Put` never fails and never replaces a stored key: an equal key keeps the key first inserted
    and takes the new value; `Get` then returns that value ("only the comparator defines equality"). -/
theorem c01_treemap_put_get (hc : LawfulCmp cmp) (t : RBTree α β) (hw : t.WF cmp) (k k' : α) (v : β)
    (he : cmp k' k = 0) :
    (TreeMap.step cmp t (.put k v)).2 = .ok ∧
    (TreeMap.step cmp (TreeMap.step cmp t (.put k v)).1 (.get k')).2 = .val v := by
  obtain ⟨h1, h2⟩ := TreeMap.step_refines hc t hw (.put k v)
  obtain ⟨e1, e2⟩ := pair_eq h1
  obtain ⟨g1, _⟩ := TreeMap.step_refines hc _ h2 (.get k')
  have e3 := (pair_eq g1).2
  rw [e3, e1]
  simp only [SMap.mstep] at e2 ⊢
  cases hl : SMap.lookup cmp k t.root.toList with
  | none =>
    simp only [hl] at e2 ⊢
    refine ⟨e2, ?_⟩
    have hs : SMap.Sorted cmp (SMap.insert cmp k v t.root.toList) := SMap.sorted_insert hc hw.ordered hl
    -- the new entry is the one equal to k'
    obtain ⟨xs, ys, hxy⟩ := List.append_of_mem (SMap.mem_insert.2 (Or.inl rfl) : (k, v) ∈ SMap.insert cmp k v t.root.toList)
    rw [hxy] at hs ⊢
    rw [SMap.lookup_mid_eq hc hs (p := (k, v)) he]
  | some p =>
    simp only [hl] at e2 ⊢
    refine ⟨e2, ?_⟩
    obtain ⟨hm, hk⟩ := SMap.lookup_some_mem hl
    obtain ⟨xs, ys, hxy⟩ := List.append_of_mem hm
    have hs := hw.ordered
    simp only [Tree.Ordered] at hs
    rw [hxy] at hs ⊢
    rw [SMap.update_mid_eq hc hs hk]
    have hs' : SMap.Sorted cmp (xs ++ (p.1, v) :: ys) := by
      have := SMap.sorted_update (k := k) (v := v) hs
      rwa [SMap.update_mid_eq hc hs hk] at this
    rw [SMap.lookup_mid_eq hc hs' (p := (p.1, v)) (hc.eq_trans he hk)]

/-! #### set.TreeSet -/

/-- TreeSet (a TreeMap holding nil values): `Add`, `Delete`, `Exist`, `Keys` answer as the abstract
    set of comparator-classes does — one call and every history. `Keys` is the sorted key list, in
    particular "the right set". -/
theorem c01_treeset_step_refines (hc : LawfulCmp cmp) (t : RBTree α Unit) (hw : t.WF cmp) (op : SetOp α) :
    ((TreeSet.step cmp t op).1.root.toList, (TreeSet.step cmp t op).2) = SMap.sstep cmp t.root.toList op ∧
    (TreeSet.step cmp t op).1.WF cmp :=
  TreeSet.step_refines hc t hw op

theorem c01_treeset_run_refines (hc : LawfulCmp cmp) (t : RBTree α Unit) (hw : t.WF cmp) (ops : List (SetOp α)) :
    ((TreeSet.run cmp t ops).1.root.toList, (TreeSet.run cmp t ops).2) = SMap.srun cmp t.root.toList ops ∧
    (TreeSet.run cmp t ops).1.WF cmp := by
  induction ops generalizing t with
  | nil => exact ⟨rfl, hw⟩
  | cons op rest ih =>
    obtain ⟨h1, h2⟩ := TreeSet.step_refines hc t hw op
    obtain ⟨h3, h4⟩ := ih (TreeSet.step cmp t op).1 h2
    simp only [TreeSet.run, SMap.srun]
    rw [← h1]
    simp only []
    rw [← h3]
    exact ⟨rfl, h4⟩

/-! #### mapx.MultiMap over a TreeMap -/

/-- MultiMap: `Put`/`PutMany` append to the values of the key, everything else is the TreeMap — one
    call and every history. -/
theorem c01_multimap_step_refines {γ : Type} (hc : LawfulCmp cmp) (t : RBTree α (List γ)) (hw : t.WF cmp)
    (op : MapOp α (List γ)) :
    ((MultiMap.step cmp t op).1.root.toList, (MultiMap.step cmp t op).2) = SMap.multiStep cmp t.root.toList op ∧
    (MultiMap.step cmp t op).1.WF cmp :=
  MultiMap.step_refines hc t hw op

theorem c01_multimap_run_refines {γ : Type} (hc : LawfulCmp cmp) (t : RBTree α (List γ)) (hw : t.WF cmp)
    (ops : List (MapOp α (List γ))) :
    ((MultiMap.run cmp t ops).1.root.toList, (MultiMap.run cmp t ops).2) = SMap.multiRun cmp t.root.toList ops ∧
    (MultiMap.run cmp t ops).1.WF cmp := by
  induction ops generalizing t with
  | nil => exact ⟨rfl, hw⟩
  | cons op rest ih =>
    obtain ⟨h1, h2⟩ := MultiMap.step_refines hc t hw op
    obtain ⟨h3, h4⟩ := ih (MultiMap.step cmp t op).1 h2
    simp only [MultiMap.run, SMap.multiRun]
    rw [← h1]
    simp only []
    rw [← h3]
    exact ⟨rfl, h4⟩

/-! #### mapx.LinkedMap over a TreeMap -/

/-- LinkedMap: results, `Keys`, `Values`, `Len` are those of the association list kept in
    first-insertion order (`OMap`) — one call. -/
theorem c01_linked_step_refines (hc : LawfulCmp cmp) (s : LinkedMap α β) (hi : s.Inv cmp) (op : MapOp α β) :
    ((s.step cmp op).1.cells, (s.step cmp op).2) = OMap.step cmp s.cells op ∧ (s.step cmp op).1.Inv cmp :=
  LinkedMap.step_refines hc s hi op

/-- LinkedMap, every history from `NewLinkedTreeMap` -/
theorem c01_linked_run_refines (hc : LawfulCmp cmp) (ops : List (MapOp α β)) :
    (((LinkedMap.empty : LinkedMap α β).run cmp ops).1.cells, (LinkedMap.empty.run cmp ops).2) = OMap.run cmp [] ops := by
  suffices ∀ s : LinkedMap α β, s.Inv cmp →
      ((s.run cmp ops).1.cells, (s.run cmp ops).2) = OMap.run cmp s.cells ops from
    this _ LinkedMap.inv_empty
  induction ops with
  | nil => intro s _; rfl
  | cons op rest ih =>
    intro s hi
    obtain ⟨h1, h2⟩ := LinkedMap.step_refines hc s hi op
    have h3 := ih (s.step cmp op).1 h2
    simp only [LinkedMap.run, OMap.run]
    rw [← h1]
    simp only []
    rw [← h3]

/-- "first-insertion order for the linked variant": a `Put` of a new key appends it to `Keys`, a
    `Put` of a present key leaves `Keys` exactly as they were (the stored key is never replaced), a
    `Delete` removes that key only and keeps the order of the others. -/
theorem c01_linked_keys_insertion_order (s : List (α × β)) (k : α) (v : β) :
    let keys := fun (l : List (α × β)) => l.map (·.1)
    (SMap.lookup cmp k s = none → keys (OMap.step cmp s (.put k v)).1 = keys s ++ [k]) ∧
    ((SMap.lookup cmp k s).isSome → keys (OMap.step cmp s (.put k v)).1 = keys s) ∧
    (keys (OMap.step cmp s (.delete k)).1).Sublist (keys s) := by
  refine ⟨?_, ?_, ?_⟩
  · intro h; simp [OMap.step, h]
  · intro h
    obtain ⟨p, hp⟩ := Option.isSome_iff_exists.1 h
    simp only [OMap.step, hp, SMap.update, List.map_map]
    apply List.map_congr_left
    intro q _
    simp only [Function.comp]
    split <;> rfl
  · simp only [OMap.step]
    cases SMap.lookup cmp k s with
    | none => exact List.Sublist.refl _
    | some p => exact List.Sublist.map _ List.eraseP_sublist

/-! #### the comparators of the correspondence runs are lawful; non-vacuity -/

theorem c01_cmpAsc_lawful : LawfulCmp cmpAsc :=
  ⟨fun a b => by simp only [cmpAsc]; omega, fun a b c => by simp only [cmpAsc]; omega⟩

theorem c01_cmpDesc_lawful : LawfulCmp cmpDesc := by
  constructor
  · intro a b; simp only [cmpDesc]; split <;> split <;> (try split) <;> omega
  · intro a b c; simp only [cmpDesc]
    split <;> split <;> (try split) <;> (try split) <;> (try split) <;> (try split) <;> omega

/-- `cmpHalf` identifies 2k and 2k+1: a comparator for which key equality is NOT structural equality -/
theorem c01_cmpHalf_lawful : LawfulCmp cmpHalf := by
  constructor
  · intro a b; simp only [cmpHalf]; omega
  · intro a b c; simp only [cmpHalf]; omega

example : cmpHalf 2 3 = 0 ∧ (2 : Int) ≠ 3 := by decide

/-- a 7-node tree built by the model, on which every kind of call succeeds or fails as the
    abstract map says (hypotheses of the theorems above are satisfiable by a non-trivial state) -/
def t7 : RBTree Int Int :=
  ((RBTree.empty : RBTree Int Int).run cmpAsc
    [.add 4 40, .add 2 20, .add 6 60, .add 1 10, .add 3 30, .add 5 50, .add 7 70]).1

example : t7.WF cmpAsc := (c01_rbtree_run_refines c01_cmpAsc_lawful RBTree.empty RBTree.wf_empty _).2
example : t7.root.toList = [(1, 10), (2, 20), (3, 30), (4, 40), (5, 50), (6, 60), (7, 70)] := by decide
example : (t7.step cmpAsc (.add 4 41)).2 = .errDup := by decide
example : (t7.step cmpAsc (.set 8 1)).2 = .errAbsent := by decide
example : (t7.step cmpAsc (.delete 4)).2 = .val 40 := by decide
example : (t7.step cmpAsc (.delete 4)).1.root.toList = [(1, 10), (2, 20), (3, 30), (5, 50), (6, 60), (7, 70)] := by decide
example : ((TreeMap.step cmpHalf (TreeMap.step cmpHalf RBTree.empty (.put 2 10)).1 (.put 3 11)).1.root.toList : List (Int × Int))
    = [(2, 11)] := by decide

end Ekit.RB
