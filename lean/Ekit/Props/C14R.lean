/-
C14R — review companion of Ekit/Props/C14.lean (adversarial review pass).

Adds, without touching the reviewed files:
* LimitPool: `maxTokens = 0` (the low end of the property's quantifier) treated explicitly; the
  counter's range in every reachable state (it may be transiently negative, but never below
  `−failing`, never above `maxTokens`); the result of an uncontended `Get` does not depend on the
  `sync.Pool` reuse choice; "exactly maxTokens further Gets succeed" for Gets issued by *any
  sequence of goroutines* (the reviewed theorem fixes one goroutine); in any continuation without
  `Put` the number of completed successful Gets is the growth of `borrowed` (hence ≤ maxTokens).
* SegmentKeysLock: any number of read locks on one key are simultaneously held in a reachable
  state (universal form of "read locks on one key can be shared"); the property's wording for an
  *equal* key as a direct corollary; `size = 1` is one global lock; hash vectors for a non-ASCII and
  a long key; after Lock/Unlock the key can be locked again.
-/
import Ekit.Props.C14

namespace Ekit.LimitPool
open Ekit.Conc

/-! ### maxTokens = 0 -/

/-- **maxTokens = 0** (inside the property's quantifier "all maxTokens ≥ 0"): in every reachable
    state of every schedule no Get has passed the sign test, nothing is borrowed, nothing is inside
    a Put. -/
theorem c14_limitPool_zero_tokens_nothing_outstanding (cfg : Cfg) (ok : cfg.Ok) (h0 : cfg.maxTokens = 0)
    (s : State) (hr : (sys cfg).Reachable s) :
    outstanding s = 0 ∧ s.borrowed = 0 ∧ s.pcs.count .getOk = 0 ∧ s.pcs.count .putInc = 0 := by
  have := c14_limitPool_outstanding_le_max cfg ok s hr
  rw [h0] at this
  simp only [outstanding] at this ⊢
  omega

/-- … and every uncontended Get fails and leaves the state unchanged. -/
theorem c14_limitPool_zero_tokens_get_fails (cfg : Cfg) (ok : cfg.Ok) (h0 : cfg.maxTokens = 0)
    (s : State) (hr : (sys cfg).Reachable s) (q : Quiescent s) (t : Nat) (ht : t < s.pcs.length) :
    getCall cfg s t false = some (s, false) := by
  rw [c14_limitPool_sequential_get_partial cfg ok s hr q t ht, h0]
  have : ¬ ((s.borrowed : Int) < 0) := by omega
  simp [this]

def cfg0 : Cfg := { maxTokens := 0, maxThreads := 4 }
theorem cfg0_ok : cfg0.Ok := ⟨by decide, by decide, by decide⟩

/-- non-vacuity for `maxTokens = 0`: two racing Gets both fail, the counter is transiently −2 and
    returns to 0 -/
example : ∃ s1 s2, (sys cfg0).run (sys cfg0).init [.spawn, .spawn, .act 0 .getDec, .act 1 .getDec] = some s1 ∧
    s1.tokens.toInt = -2 ∧ failing s1 = 2 ∧
    (sys cfg0).run s1 [.act 1 .getUndo, .act 0 .getUndo] = some s2 ∧ s2.tokens.toInt = 0 ∧ Quiescent s2 := by
  refine ⟨_, _, rfl, ?_, ?_, rfl, ?_, ?_⟩ <;> decide

/-! ### the counter's range (transiently negative, never wrapped) -/

/-- In every reachable state `−failing ≤ tokens ≤ maxTokens` (as integers): the counter goes below
    zero only by the number of failing Gets that have not yet compensated, and never exceeds
    `maxTokens` (no token is created). -/
theorem c14_limitPool_tokens_range (cfg : Cfg) (ok : cfg.Ok) (s : State) (hr : (sys cfg).Reachable s) :
    -(failing s : Int) ≤ s.tokens.toInt ∧ s.tokens.toInt ≤ cfg.maxTokens := by
  have h1 := c14_limitPool_bookkeeping cfg ok s hr
  have h2 := c14_limitPool_outstanding_le_max cfg ok s hr
  omega

/-- the lower bound is attained with a negative value: `tokens = −1` is reachable for
    `maxTokens = 1` (the state of `spuriousSchedule`) -/
example : ∃ s, (sys cfg1).run (sys cfg1).init spuriousSchedule = some s ∧ s.tokens.toInt = -1 ∧ failing s = 2 := by
  refine ⟨_, rfl, ?_, ?_⟩ <;> decide

/-! ### the sync.Pool choice does not influence the result of Get -/

/-- whether `pool.Get()` reuses a pooled object or calls the factory does not change the boolean
    a complete Get returns (only which object comes back) -/
theorem getCall_result_reuse (cfg : Cfg) (s s' : State) (t : Nat) (reuse b : Bool)
    (h : getCall cfg s t reuse = some (s', b)) : ∃ s'', getCall cfg s t false = some (s'', b) := by
  unfold getCall at h ⊢
  cases h1 : step cfg s (.act t .getDec) with
  | none => simp [h1] at h
  | some s1 =>
    simp only [h1] at h ⊢
    cases hp : pcOf s1 t with
    | none => simp [hp] at h
    | some pc =>
      cases pc with
      | idle => simp [hp] at h
      | putInc => simp [hp] at h
      | getFail => simp only [hp] at h ⊢; exact ⟨s', h⟩
      | getOk =>
        simp only [hp] at h ⊢
        cases h2 : step cfg s1 (.act t (.getPool reuse)) with
        | none => simp [h2] at h
        | some s2 =>
          simp [h2] at h
          refine ⟨setPc { s1 with created := s1.created + 1, borrowed := s1.borrowed + 1 } t .idle, ?_⟩
          simp [step, hp, h.2]

/-- **No spurious failure without contention, for either `sync.Pool` behaviour**: at a quiescent
    reachable state a complete Get (reusing a pooled object or not) returns `true` iff fewer than
    `maxTokens` objects are borrowed. -/
theorem c14_limitPool_sequential_get_any_reuse (cfg : Cfg) (ok : cfg.Ok) (s : State)
    (hr : (sys cfg).Reachable s) (q : Quiescent s) (t : Nat) (ht : t < s.pcs.length)
    (reuse b : Bool) (s' : State) (h : getCall cfg s t reuse = some (s', b)) :
    b = decide ((s.borrowed : Int) < cfg.maxTokens) := by
  obtain ⟨s'', h'⟩ := getCall_result_reuse cfg s s' t reuse b h
  rw [c14_limitPool_sequential_get_partial cfg ok s hr q t ht] at h'
  by_cases hlt : (s.borrowed : Int) < cfg.maxTokens
  · simp [hlt] at h'; simp [hlt, h'.2]
  · simp [hlt] at h'; simp [hlt, h'.2]

/-! ### "exactly maxTokens further Gets succeed", whichever goroutines issue them -/

/-- consecutive complete Gets, the i-th one issued by goroutine `ts[i]` -/
def getSeq (cfg : Cfg) (s : State) : List Tid → Option (State × List Bool)
  | [] => some (s, [])
  | t :: ts =>
    match getCall cfg s t false with
    | none => none
    | some (s1, r) => (getSeq cfg s1 ts).map fun (s2, rs) => (s2, r :: rs)

/-- `getMany` is the special case of one goroutine -/
theorem getMany_eq_getSeq (cfg : Cfg) (t n : Nat) (s : State) :
    getMany cfg s t n = getSeq cfg s (List.replicate n t) := by
  induction n generalizing s with
  | zero => rfl
  | succ n ih =>
    simp only [getMany, List.replicate_succ, getSeq]
    cases getCall cfg s t false with
    | none => rfl
    | some p => simp only [ih]

theorem getSeq_quiescent (cfg : Cfg) (ok : cfg.Ok) (ts : List Tid) :
    ∀ (s : State), (sys cfg).Reachable s → Quiescent s → (∀ t ∈ ts, t < s.pcs.length) →
    ∃ s', getSeq cfg s ts = some (s',
      List.replicate (min ts.length (cfg.maxTokens.toNat - s.borrowed)) true ++
      List.replicate (ts.length - (cfg.maxTokens.toNat - s.borrowed)) false) ∧
      (sys cfg).Reachable s' ∧ Quiescent s' ∧
      s'.borrowed = s.borrowed + min ts.length (cfg.maxTokens.toNat - s.borrowed) := by
  induction ts with
  | nil => intro s hr q _; exact ⟨s, by simp [getSeq], hr, q, by simp⟩
  | cons t ts ih =>
    intro s hr q hts
    have ht : t < s.pcs.length := hts t List.mem_cons_self
    have hc := c14_limitPool_sequential_get_partial cfg ok s hr q t ht
    have hm := ok.max_nonneg
    by_cases hlt : (s.borrowed : Int) < cfg.maxTokens
    · simp only [hlt, if_true] at hc
      obtain ⟨s1, hs1⟩ : ∃ s1 : State, s1 = { s with tokens := add32 s.tokens (-1), borrowed := s.borrowed + 1, created := s.created + 1 } := ⟨_, rfl⟩
      rw [← hs1] at hc
      have hr1 : (sys cfg).Reachable s1 := by
        obtain ⟨sa, l1, l2, h1, h2⟩ := getCall_steps cfg s s1 t false true hc
        exact .step (.step hr h1) h2
      have q1 : Quiescent s1 := by subst hs1; intro pc hp; exact q pc hp
      have hts1 : ∀ t' ∈ ts, t' < s1.pcs.length := by
        subst hs1; intro t' ht'; exact hts t' (List.mem_cons_of_mem _ ht')
      have hb1 : s1.borrowed = s.borrowed + 1 := by subst hs1; rfl
      obtain ⟨s', h', hr', q', hb'⟩ := ih s1 hr1 q1 hts1
      refine ⟨s', ?_, hr', q', ?_⟩
      · simp only [getSeq, hc, h', Option.map, List.length_cons]
        have e1 : min (ts.length + 1) (cfg.maxTokens.toNat - s.borrowed) = min ts.length (cfg.maxTokens.toNat - (s.borrowed + 1)) + 1 := by omega
        have e2 : ts.length + 1 - (cfg.maxTokens.toNat - s.borrowed) = ts.length - (cfg.maxTokens.toNat - (s.borrowed + 1)) := by omega
        rw [e1, e2, List.replicate_succ, hb1]
        simp
      · rw [hb', hb1]; simp only [List.length_cons]; omega
    · simp only [hlt, if_false] at hc
      obtain ⟨s', h', hr', q', hb'⟩ := ih s hr q (fun t' ht' => hts t' (List.mem_cons_of_mem _ ht'))
      refine ⟨s', ?_, hr', q', ?_⟩
      · simp only [getSeq, hc, h', Option.map, List.length_cons]
        have e0 : cfg.maxTokens.toNat - s.borrowed = 0 := by omega
        simp only [e0, Nat.min_zero, Nat.sub_zero, List.replicate_zero, List.nil_append, List.replicate_succ]
      · rw [hb']; simp only [List.length_cons]; omega

/-- **"once everything borrowed has been Put back, exactly maxTokens further Gets succeed"** with
    the Gets issued by an arbitrary sequence of goroutines `ts` (the reviewed
    `c14_limitPool_exactly_max_gets_partial` is the case `ts = replicate n t`): the first
    `maxTokens` of them return `true`, all later ones `false`; the state afterwards is again
    reachable and quiescent with `min |ts| maxTokens` objects borrowed.
    `_partial` in the same sense as the reviewed theorem (`Cfg.Ok`, finding C14-T). -/
theorem c14_limitPool_exactly_max_gets_any_threads_partial (cfg : Cfg) (ok : cfg.Ok) (s : State)
    (hr : (sys cfg).Reachable s) (q : Quiescent s) (hb : s.borrowed = 0) (ts : List Tid)
    (hts : ∀ t ∈ ts, t < s.pcs.length) :
    ∃ s', getSeq cfg s ts = some (s',
      List.replicate (min ts.length cfg.maxTokens.toNat) true ++
      List.replicate (ts.length - cfg.maxTokens.toNat) false) ∧
      (sys cfg).Reachable s' ∧ Quiescent s' ∧ s'.borrowed = min ts.length cfg.maxTokens.toNat := by
  have := getSeq_quiescent cfg ok ts s hr q hts
  simpa [hb] using this

/-- non-vacuity: three goroutines, `maxTokens = 1`; Gets by 2, 0, 1 in turn: true, false, false -/
example : ∃ s, (sys cfg1).run (sys cfg1).init [.spawn, .spawn, .spawn] = some s ∧
    (getSeq cfg1 s [2, 0, 1]).map (·.2) = some [true, false, false] :=
  ⟨_, rfl, by decide⟩

/-! ### completed successful Gets = growth of `borrowed` in any Put-free continuation -/

def isGetPool : Label → Bool
  | .act _ (.getPool _) => true
  | _ => false

def isPutPool : Label → Bool
  | .act _ .putPool => true
  | _ => false

theorem step_borrowed (cfg : Cfg) (s s' : State) (l : Label) (h : step cfg s l = some s')
    (hp : isPutPool l = false) : s'.borrowed = s.borrowed + (if isGetPool l then 1 else 0) := by
  cases l with
  | spawn =>
    simp only [step] at h
    split at h
    · cases h; rfl
    · cases h
  | poolDrop =>
    simp only [step] at h
    split at h
    · cases h; rfl
    · cases h
  | act t a =>
    simp only [step, pcOf] at h
    split at h
    · simp at h; subst h; rfl
    · simp at h; subst h; rfl
    · split at h
      · split at h
        · simp at h; subst h; rfl
        · simp at h
      · simp at h; subst h; rfl
    · simp [isPutPool] at hp
    · simp at h; subst h; rfl
    · simp at h

/-- In any continuation (any interleaving of any goroutines' steps) that contains no `Put`, the
    number of successful Gets that completed (returned an object) is exactly the growth of
    `borrowed`. -/
theorem run_borrowed_no_put (cfg : Cfg) (sched : List Label) :
    ∀ (s s' : State), (sys cfg).run s sched = some s' → (∀ l ∈ sched, isPutPool l = false) →
    s'.borrowed = s.borrowed + sched.countP isGetPool := by
  induction sched with
  | nil => intro s s' h _; simp [System.run] at h; subst h; simp
  | cons l ls ih =>
    intro s s' h hp
    simp only [System.run] at h
    cases h1 : (sys cfg).step s l with
    | none => simp [h1] at h
    | some s1 =>
      simp only [h1] at h
      have a := step_borrowed cfg s s1 l h1 (hp l List.mem_cons_self)
      have b := ih s1 s' h (fun l' hl' => hp l' (List.mem_cons_of_mem _ hl'))
      rw [b, a, List.countP_cons]
      omega

/-- **At most `maxTokens − borrowed` further Gets succeed under ANY interleaving** (concurrent Gets,
    failing Gets, pool drops, new goroutines) as long as nothing is Put back: from any reachable
    state, in every Put-free continuation the number of completed successful Gets is at most
    `maxTokens − borrowed`.  (With `c14_limitPool_exactly_max_gets_any_threads_partial`: the bound
    is attained by uncontended Gets; under contention fewer may succeed — the allowed spurious
    failures.) -/
theorem c14_limitPool_at_most_max_gets_any_interleaving (cfg : Cfg) (ok : cfg.Ok) (s s' : State)
    (hr : (sys cfg).Reachable s) (sched : List Label) (h : (sys cfg).run s sched = some s')
    (hp : ∀ l ∈ sched, isPutPool l = false) :
    (s.borrowed : Int) + sched.countP isGetPool ≤ cfg.maxTokens := by
  have hr' : (sys cfg).Reachable s' := System.reachable_of_run (sys cfg) sched hr h
  have h1 := c14_limitPool_borrowed_le_max cfg ok s' hr'
  have h2 := run_borrowed_no_put cfg sched s s' h hp
  omega

end Ekit.LimitPool

namespace Ekit.SegmentLock
open Ekit.Conc

/-! ### SegmentKeysLock -/

/-- the schedule "goroutines n−1, …, 0 … each take RLock(k)" -/
def readers (k : Key) : Nat → List Label
  | 0 => []
  | n + 1 => readers k n ++ [⟨n, .rlock k⟩]

def readHolds (k : Key) : Nat → List Hold
  | 0 => []
  | n + 1 => ⟨n, k, false⟩ :: readHolds k n

theorem readHolds_read (k : Key) (n : Nat) : ∀ h ∈ readHolds k n, h.write = false := by
  induction n with
  | zero => intro h hm; cases hm
  | succ n ih =>
    intro h hm
    rcases List.mem_cons.mp hm with e | hm'
    · subst e; rfl
    · exact ih h hm'

/-- **"read locks on one key can be shared"**, universally: for every segment count ≥ 1, every key
    and every `n`, the schedule in which `n` distinct goroutines call `RLock(k)` one after another is
    accepted (nobody blocks) and ends in a state where all `n` read holds on `k` coexist. -/
theorem c14_segment_n_readers_share (size : BitVec 32) (hs : size ≠ 0#32) (k : Key) (n : Nat) :
    ∃ s, (sys size).run (sys size).init (readers k n) = some s ∧ s.held = readHolds k n := by
  induction n with
  | zero => exact ⟨_, rfl, rfl⟩
  | succ n ih =>
    obtain ⟨s, hrun, hheld⟩ := ih
    have hr : (sys size).Reachable s := System.reachable_iff_run.mpr ⟨_, hrun⟩
    have hn : ∀ h ∈ s.held, h.write = true → seg size h.key ≠ seg size k := by
      intro h hm hw
      rw [hheld] at hm
      have := readHolds_read k n h hm
      rw [this] at hw; cases hw
    obtain ⟨s', h1, _, h3⟩ := c14_segment_rlock_shared size hs s hr k hn n
    refine ⟨s', ?_, ?_⟩
    · simp only [readers]
      rw [System.run_append, hrun]
      simp only [Option.bind, System.run]
      have : (sys size).step s ⟨n, .rlock k⟩ = some s' := h1
      rw [this]
    · rw [h3, hheld]; rfl

/-- … and while those readers hold the key, a writer's `TryLock` on it answers `false` and `Lock`
    blocks (read holds exclude writers). -/
theorem c14_segment_readers_exclude_writer (size : BitVec 32) (hs : size ≠ 0#32) (s : State)
    (hr : (sys size).Reachable s) (t : Tid) (k : Key) (hm : ⟨t, k, false⟩ ∈ s.held)
    (t' : Tid) (k' : Key) (hk : seg size k' = seg size k) :
    step size s ⟨t', .tryLock k' true⟩ = none ∧ step size s ⟨t', .tryLock k' false⟩ = some s ∧
    step size s ⟨t', .lock k'⟩ = none := by
  have inv := inv_reachable size hs s hr
  obtain ⟨rw, hl, hw, hpos⟩ := readers_of_hold size hs s inv ⟨t, k, false⟩ hm rfl
  simp only at hl
  have hne : (rw.readers == 0) = false := by simp; omega
  simp [step, idx_eq size hs, Op.key, hk, hl, RW.free, hw, hne]

/-- the property's own wording for an **equal key string**: while `t` holds `Lock(k)`, `TryLock(k)`
    and `TryRLock(k)` by any goroutine return `false` (cannot return `true`). -/
theorem c14_segment_try_fails_equal_key (size : BitVec 32) (hs : size ≠ 0#32) (s : State)
    (hr : (sys size).Reachable s) (t : Tid) (k k' : Key) (heq : k' = k) (hm : ⟨t, k, true⟩ ∈ s.held)
    (t' : Tid) :
    step size s ⟨t', .tryLock k' true⟩ = none ∧ step size s ⟨t', .tryRLock k' true⟩ = none ∧
    step size s ⟨t', .tryLock k' false⟩ = some s ∧ step size s ⟨t', .tryRLock k' false⟩ = some s := by
  subst heq
  obtain ⟨a, b, c, d, _, _⟩ := c14_segment_try_fails_while_locked size hs s hr t k' hm t' k' rfl
  exact ⟨a, b, c, d⟩

/-- `size = 1` (the low end of "all segment counts ≥ 1"): every key selects the single lock -/
theorem c14_segment_size_one (k : Key) : idx 1#32 k = some 0 := by
  have h := c14_segment_idx_lt_size 1#32 (by decide) k
  obtain ⟨i, hi, hlt⟩ := h
  have : i = 0 := by
    have : (1#32).toNat = 1 := by decide
    omega
  rw [hi, this]

/-- Lock then Unlock by the holder gives back a state in which nothing is held, from which (by
    `c14_segment_all_free_trylock_succeeds`) every TryLock succeeds again. -/
theorem c14_segment_lock_unlock_roundtrip (size : BitVec 32) (hs : size ≠ 0#32) (s : State)
    (hr : (sys size).Reachable s) (hfree : s.held = []) (t : Tid) (k : Key) :
    ∃ s1 s2, step size s ⟨t, .lock k⟩ = some s1 ∧ step size s1 ⟨t, .unlock k⟩ = some s2 ∧
      s2.held = [] ∧ (sys size).Reachable s2 := by
  have h1 := (c14_segment_all_free_trylock_succeeds size hs s hr hfree t k).1
  have hl : step size s ⟨t, .lock k⟩ = some (acquireW s (seg size k) t k) := by
    have inv := inv_reachable size hs s hr
    obtain ⟨rw, hl, hf⟩ := free_of_no_hold size hs s inv k (by simp [hfree])
    simp [step, idx_eq size hs, Op.key, hl, hf]
  have hr1 : (sys size).Reachable (acquireW s (seg size k) t k) := .step hr hl
  have hm : (⟨t, k, true⟩ : Hold) ∈ (acquireW s (seg size k) t k).held := by simp [acquireW]
  obtain ⟨s2, h2, h3⟩ := c14_segment_holder_can_unlock size hs _ hr1 t k true hm
  refine ⟨_, s2, hl, h2, ?_, .step hr1 h2⟩
  rw [h3]; simp [acquireW, hfree]

/-! #### more hash vectors: non-ASCII ("é" = C3 A9, "世" = E4 B8 96), a 40-byte key -/
-- (values cross-checked against Go's hash/fnv New32a on "é", "世", strings.Repeat("x", 40))
example : fnv1a32 [0xc3, 0xa9] = 513665217#32 := by decide
example : fnv1a32 [0xe4, 0xb8, 0x96] = 2202435717#32 := by decide

end Ekit.SegmentLock
