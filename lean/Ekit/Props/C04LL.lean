/-
C04 — the REGENERATED linked list.

`Ekit/Generated/LinkedListGo.lean` is list/linked_list.go translated by a go/ast syntax dump (harness/minigoll) into
the deep embedding of Ekit/MiniGo/LangLL.lean; all semantics is in that interpreter (nil dereference = panic,
ill-typed = stuck, calls and loop iterations consume fuel).  Lemmas/LLRefine.lean proves that every translated
public call simulates the hand-written pointer-level model `Ekit.Lists.Ring` (Model/LinkedRing.lean), state for state
(`Rel`: same `head`/`tail`/`length`/allocation counter, same three fields in every heap cell).  Composed with
`c04_ring_step_refines` (Props/C04Ring.lean) this transfers C04 to the program text that is regenerated from the
current tree: from `NewLinkedList()`, after every history of translated calls, with enough fuel, the interpreter does
not panic / get stuck, returns exactly what the abstract sequence returns, and its heap is a sentinel ring (`Inv`)
holding the abstract sequence's contents.
-/
import Ekit.Lemmas.LLRefine

namespace Ekit.MiniGo.LL.Refine
open Ekit.MiniGo.LL Ekit.Gen.LinkedListGo
open Ekit.Lists (Op Out Ret)
open Ekit.Lists.Ring (Inv vals)

/-- the constructor: `NewLinkedList()` run by the interpreter builds (a state related to) `Ring.new` -/
theorem c04_ll_new (fuel : Nat) (hf : 1 ≤ fuel) :
    ∃ s, call procs fuel .NewLinkedList [] emptySt = .ok (.unit, s) ∧ Rel s Ekit.Lists.Ring.new :=
  new_sim fuel hf

/-- **one call**: from a state related to a ring satisfying the invariant, with fuel `len + 3`, the translated
    procedure does not panic, returns the model's (hence the abstract sequence's) result and re-establishes both
    the relation and the invariant. -/
theorem c04_ll_step_refines (s : St) (l : Ekit.Lists.Ring.LL) (as : List Nat) (hR : Rel s l) (hi : Inv l as)
    (op : Op) (ht : translated op = true) (fuel : Nat) (hf : as.length + 3 ≤ fuel) :
    ∃ v s' l' as', runOp fuel s op = .ok (v, s') ∧ Rel s' l' ∧ Inv l' as' ∧
      vals l' as' = (Ekit.Lists.Spec.step (vals l as) op).1 ∧ OutIs (Ekit.Lists.Spec.step (vals l as) op).2 v := by
  obtain ⟨l1, as1, o, h1, hi1, hr, _, _⟩ := Ekit.Lists.Ring.c04_ring_step_refines l as hi op
  have hs : Ekit.Lists.Spec.step (vals l as) op = (vals l1 as1, o) := by rw [← Ekit.Lists.c04_linked_step_refines, hr]
  obtain ⟨v, s1, e1, hR1, ho⟩ := step_sim s l as hR hi op ht fuel hf l1 o h1
  exact ⟨v, s1, l1, as1, e1, hR1, hi1, by rw [hs], by rw [hs]; exact ho⟩

/-- C04 for the regenerated linked list: from `NewLinkedList()`, after every history of translated calls, with enough
    fuel (`fuelFor ops` = total growth of the history + 3 suffices), the interpreter running the translated
    list/linked_list.go never panics, returns exactly what the abstract sequence returns, and its heap holds the
    abstract sequence's contents (through `Rel` + `Inv` + `vals`). -/
theorem c04_ll_run_refines (ops : List Op) (hops : ∀ op ∈ ops, translated op = true) :
    ∀ fuel, fuelFor ops ≤ fuel → ∃ s0, call procs fuel .NewLinkedList [] emptySt = .ok (.unit, s0) ∧
      ∃ s l as vs, runOps fuel s0 ops = .ok (vs, s) ∧ Rel s l ∧ Inv l as ∧ vals l as = (Ekit.Lists.Spec.run [] ops).1 ∧
        Forall₂ OutIs (Ekit.Lists.Spec.run [] ops).2 vs := by
  intro fuel hf
  unfold fuelFor at hf
  obtain ⟨s0, e0, hR0⟩ := new_sim fuel (by omega)
  obtain ⟨s, l, as, vs, e, hR, hi, _, hv, hF⟩ :=
    run_sim ops s0 Ekit.Lists.Ring.new [] hR0 Ekit.Lists.Ring.inv_new hops fuel (by simp; omega)
  have hnil : vals Ekit.Lists.Ring.new [] = [] := rfl
  rw [hnil] at hv hF
  exact ⟨s0, e0, s, l, as, vs, e, hR, hi, hv, hF⟩

/-- the form with an existential fuel bound -/
theorem c04_ll_run_refines' (ops : List Op) (hops : ∀ op ∈ ops, translated op = true) :
    ∃ F, ∀ fuel, F ≤ fuel → ∃ s0, call procs fuel .NewLinkedList [] emptySt = .ok (.unit, s0) ∧
      ∃ s l as vs, runOps fuel s0 ops = .ok (vs, s) ∧ Rel s l ∧ Inv l as ∧ vals l as = (Ekit.Lists.Spec.run [] ops).1 ∧
        Forall₂ OutIs (Ekit.Lists.Spec.run [] ops).2 vs :=
  ⟨fuelFor ops, c04_ll_run_refines ops hops⟩

/-! non-vacuity (cheap for the kernel: no interpreter run on a heap closure) -/
example : ∀ op ∈ [Op.append [1, 2, 3], .add 1 9, .delete 0, .get 2, .set 0 7, .delete 5, .len], translated op = true := by
  decide
example : fuelFor [Op.append [1, 2, 3], .add 1 9, .delete 0, .get 2, .set 0 7, .delete 5, .len] = 7 := by decide
example : translated .asSlice = false ∧ translated .range = false := ⟨rfl, rfl⟩
/-- the constructor really runs (fuel 1) and the result is related to `Ring.new`, which satisfies the invariant -/
example : ∃ s, call procs 1 .NewLinkedList [] emptySt = .ok (.unit, s) ∧ Rel s Ekit.Lists.Ring.new ∧
    Inv Ekit.Lists.Ring.new [] := by
  obtain ⟨s, h1, h2⟩ := c04_ll_new 1 (Nat.le_refl 1)
  exact ⟨s, h1, h2, Ekit.Lists.Ring.inv_new⟩
/-- the results really have the advertised shapes -/
example : OutIs (.ok (.val 3)) (.pair (.int 3) (.ptr none)) ∧ OutIs (.err (.idx 3 5)) (.errIdx 3 5) ∧
    ¬ OutIs (.ok .unit) (.int 0) := ⟨rfl, Or.inl rfl, by simp [OutIs]⟩

end Ekit.MiniGo.LL.Refine
