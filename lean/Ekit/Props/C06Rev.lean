/-
C06 — review additions (adversarial review of `Ekit/Props/C06.lean`).

The linearizability theorems of C06 quantify over every run from the true initial state, for any
number of threads, and the linearization points match the code; no vacuity or weakening was found.
Two things a referee can still ask for are added here.

1. **The queue called "lock-free" in the property is not lock-free** (a recorded observation about
   the real code, inside the property's wording: the property demands linearizability, not progress).
   `Enqueue` does not help a half-finished enqueue (`if tailNext != nil { continue }`): while one
   thread sits between its two CASes (node linked, tail not yet swung — `e4`), *no other* Enqueue can
   link a node or complete, however often it is scheduled; it spins.  If the thread at `e4` is
   descheduled for long, all producers burn CPU; consumers see the queue without the linked element.
   `c06_clq_enqueuers_spin_while_unswung` is the one-step statement (by induction: along every run in
   which the thread at `e4` does not move, `nodes` and `tail` are constant and nobody else reaches
   `e4`), `c06_clq_spin_witness` a concrete cycle.
2. **Explicit conservation for the lock-free queue** ("no element is lost, duplicated or
   reordered") as a state invariant, complementary to the history-level statement:
   `nodes = (dequeued prefix) ++ absq ++ (at most one linked-but-unswung value)`.
-/
import Ekit.Props.C06

namespace Ekit.Props.C06
open Ekit.Conc Ekit.Linz

section CLQ
variable {α : Type} [DecidableEq α]

/-- **Not lock-free.**  In a reachable state in which thread `u` is between its two CASes, a step of any
    other thread `t` neither links a node nor swings the tail nor brings `t` between the CASes: no other
    Enqueue makes progress until `u` itself is scheduled. -/
theorem c06_clq_enqueuers_spin_while_unswung (s s' : CLQ.St α) (hr : (CLQ.sys α).Reachable s)
    (u t : Nat) (v : α) (lt nw : Nat) (hu : s.pc u = .e4 v lt nw) (htu : t ≠ u)
    (hs : (CLQ.sys α).step s (.tau t) = some s') :
    s'.nodes = s.nodes ∧ s'.tail = s.tail ∧ s'.pc u = .e4 v lt nw ∧ CLQ.isE4 (s'.pc t) = false ∧
      s'.pc t ≠ .ret .ok := by
  have h := CLQ.inv_reachable s hr
  obtain ⟨hlt, _, hlen, _⟩ := h.e4_facts hu
  have hnot : CLQ.isE4 (s.pc t) = false := by
    cases hb : CLQ.isE4 (s.pc t) with
    | false => rfl
    | true => exact absurd (h.uniq t u hb (by simp [hu, CLQ.isE4])) htu
  have hut : u ≠ t := fun e => htu e.symm
  have hnext : ∀ i, i ≤ s.tail → s.next i = some (i + 1) := by
    intro i hi; simp only [CLQ.St.next]; rw [if_pos (by omega)]
  have hok := h.ok t
  simp only [CLQ.sys, CLQ.step] at hs
  cases hp : s.pc t <;> simp only [hp] at hs hok hnot
  case e4 => simp [CLQ.isE4] at hnot
  case e2 w l =>
    simp only [CLQ.PcOk] at hok
    rw [hnext l hok] at hs
    injection hs with hs; subst hs
    simp [CLQ.St.set, upd, hut, hu, CLQ.isE4]
  case e3 w l =>
    simp only [CLQ.PcOk] at hok
    rw [hnext l hok] at hs
    injection hs with hs; subst hs
    simp [CLQ.St.set, upd, hut, hu, CLQ.isE4]
  all_goals (try (simp at hs; done))
  all_goals (try split at hs)
  all_goals (try split at hs)
  all_goals (try split at hs)
  all_goals (try (simp at hs; done))
  all_goals (injection hs with hs; subst hs)
  all_goals (simp [CLQ.St.set, upd, hut, hu, CLQ.isE4])

/-- a concrete spin: thread 1 has linked `7` and is preempted before the swing; thread 2's Enqueue goes
    `load tail, load next ≠ nil, retry` — after any number of rounds it is exactly where it started,
    and a dequeuer meanwhile answers "empty" although `Enqueue(7)`'s node is already linked. -/
theorem c06_clq_spin_witness :
    (((CLQ.sys Int).run (CLQ.sys Int).init
        ([.call 1 (.enq 7), .call 2 (.enq 8), .tau 1, .tau 1, .tau 1, .tau 2] ++
          [.tau 2, .tau 2, .tau 2, .tau 2, .tau 2, .tau 2])).map
      fun s => (s.nodes, s.tail, s.pc 1, s.pc 2)) =
    (((CLQ.sys Int).run (CLQ.sys Int).init
        [.call 1 (.enq 7), .call 2 (.enq 8), .tau 1, .tau 1, .tau 1, .tau 2]).map
      fun s => (s.nodes, s.tail, s.pc 1, s.pc 2)) := by decide

/-- **Conservation as a state invariant**: every value ever linked is, in link order, either already
    dequeued (`nodes.take head`), in the abstract queue, or the single linked-but-unswung value —
    nothing is dropped, duplicated or reordered by any interleaving. -/
theorem c06_clq_conservation (s : CLQ.St α) (hr : (CLQ.sys α).Reachable s) :
    s.nodes = s.nodes.take s.head ++ s.absq ++ s.nodes.drop s.tail ∧ (s.nodes.drop s.tail).length ≤ 1 := by
  have h := CLQ.inv_reachable s hr
  have hht := h.ht; have htl := h.tl; have hlt := h.lt
  refine ⟨?_, by simp only [List.length_drop]; omega⟩
  simp only [CLQ.St.absq]
  have e1 : s.nodes.take s.head = (s.nodes.take s.tail).take s.head := by
    rw [List.take_take]; congr 1; omega
  rw [e1, List.take_append_drop, List.take_append_drop]

end CLQ
end Ekit.Props.C06
