/-
C02 — review additions (adversarial review of Props/C02.lean).

Gaps closed here:
* `c02_wrappers_cmps_le` ASSUMED `RBInv` of the index tree of TreeSet / LinkedMap / MultiMap but nothing
  proved that those wrappers keep it: `c02_treeset_step_inv`, `c02_multimap_step_inv`,
  `c02_linked_step_inv` and the `…_reachable_inv` versions (every history from the constructor).
* the comparator-call bounds of the wrappers and of TreeMap are lifted to every history from the
  constructor without any hypothesis on the state (`c02_treemap_cmps_le_reachable`,
  `c02_wrappers_cmps_le_reachable`).
* `cmpCount` was tied to the executed descent only for `findNode` (`c02_findCount`).  `insCount` /
  `delCount` are the descents of `addNode` / `Delete` instrumented with one tick per comparator call
  (one per visited node, as in the Go loops); they return exactly `ins` / `del` and `cmpCount`.
* the height bound in the form that does not go through `Nat.log2`: `2^(height/2) ≤ n+1`
  (`c02_height_pow`), so the statement does not depend on how `Nat.log2` is totalised at 0.
-/
import Ekit.Props.C02
import Ekit.Lemmas.RBWrap

namespace Ekit.RB
variable {α β : Type} {cmp : α → α → Int}

/-! #### the wrappers keep the red-black invariant of their index tree -/

/-- TreeSet: `Add` = TreeMap.Put, `Delete` = TreeMap.Delete, `Exist` = TreeMap.Get -/
theorem c02_treeset_step_inv (hc : LawfulCmp cmp) (t : RBTree α Unit) (h : RBInv cmp t) (op : SetOp α) :
    RBInv cmp (TreeSet.step cmp t op).1 := by
  cases op with
  | add k => exact c02_treemap_step_inv hc t h (.put k ())
  | delete k => exact c02_treemap_step_inv hc t h (.delete k)
  | exist k =>
    have ha := c02_treemap_step_inv hc t h (.get k)
    simp only [TreeSet.step]
    generalize TreeMap.step cmp t (.get k) = q at ha
    obtain ⟨q1, q2⟩ := q
    cases q2 <;> exact ha
  | keys => exact h

theorem c02_treeset_reachable_inv (hc : LawfulCmp cmp) (ops : List (SetOp α)) :
    RBInv cmp (TreeSet.run cmp (RBTree.empty : RBTree α Unit) ops).1 := by
  suffices ∀ t : RBTree α Unit, RBInv cmp t → RBInv cmp (TreeSet.run cmp t ops).1 from this _ c02_empty_inv
  induction ops with
  | nil => intro t h; exact h
  | cons op rest ih => intro t h; exact ih _ (c02_treeset_step_inv hc t h op)

/-- MultiMap over a TreeMap: every call is one TreeMap call on the index (plus a `Get`) -/
theorem c02_multimap_step_inv {γ : Type} (hc : LawfulCmp cmp) (t : RBTree α (List γ)) (h : RBInv cmp t)
    (op : MapOp α (List γ)) : RBInv cmp (MultiMap.step cmp t op).1 := by
  cases op with
  | put k vs => exact c02_treemap_step_inv hc t h (.put k _)
  | get k => exact c02_treemap_step_inv hc t h (.get k)
  | delete k => exact c02_treemap_step_inv hc t h (.delete k)
  | keys => exact h
  | values => exact h
  | len => exact h

theorem c02_multimap_reachable_inv {γ : Type} (hc : LawfulCmp cmp) (ops : List (MapOp α (List γ))) :
    RBInv cmp (MultiMap.run cmp (RBTree.empty : RBTree α (List γ)) ops).1 := by
  suffices ∀ t : RBTree α (List γ), RBInv cmp t → RBInv cmp (MultiMap.run cmp t ops).1 from this _ c02_empty_inv
  induction ops with
  | nil => intro t h; exact h
  | cons op rest ih => intro t h; exact ih _ (c02_multimap_step_inv hc t h op)

/-- LinkedMap over a TreeMap: the index tree `m` is only ever changed by `TreeMap.Put` / `TreeMap.Delete` -/
theorem c02_linked_step_inv (hc : LawfulCmp cmp) (s : LinkedMap α β) (h : RBInv cmp s.m) (op : MapOp α β) :
    RBInv cmp (s.step cmp op).1.m := by
  cases op with
  | put k v =>
    have hp := c02_treemap_step_inv hc s.m h (.put k ())
    simp only [LinkedMap.step]
    generalize TreeMap.step cmp s.m (.get k) = g
    obtain ⟨g1, g2⟩ := g
    generalize TreeMap.step cmp s.m (.put k ()) = q at hp
    obtain ⟨q1, q2⟩ := q
    cases g2 <;> cases q2 <;> first | exact h | exact hp
  | get k =>
    simp only [LinkedMap.step]
    generalize TreeMap.step cmp s.m (.get k) = g
    obtain ⟨g1, g2⟩ := g
    cases g2 <;> (try cases LinkedMap.cellOf cmp k s.cells) <;> exact h
  | delete k =>
    have hd := c02_treemap_step_inv hc s.m h (.delete k)
    simp only [LinkedMap.step]
    generalize TreeMap.step cmp s.m (.delete k) = g at hd
    obtain ⟨g1, g2⟩ := g
    cases g2 <;> (try cases LinkedMap.cellOf cmp k s.cells) <;> first | exact h | exact hd
  | keys => exact h
  | values => exact h
  | len => exact h

theorem c02_linked_reachable_inv (hc : LawfulCmp cmp) (ops : List (MapOp α β)) :
    RBInv cmp ((LinkedMap.empty : LinkedMap α β).run cmp ops).1.m := by
  suffices ∀ s : LinkedMap α β, RBInv cmp s.m → RBInv cmp (s.run cmp ops).1.m from this _ c02_empty_inv
  induction ops with
  | nil => intro s h; exact h
  | cons op rest ih => intro s h; exact ih _ (c02_linked_step_inv hc s h op)

/-! #### the comparator-call bounds, for every history from the constructor, no hypothesis on the state -/

theorem c02_treemap_cmps_le_reachable (hc : LawfulCmp cmp) (ops : List (MapOp α β)) (op : MapOp α β) :
    let t := (TreeMap.run cmp (RBTree.empty : RBTree α β) ops).1
    TreeMap.cmps cmp t op ≤ 2 * (2 * Nat.log2 (t.size.toNat + 1)) :=
  c02_treemap_cmps_le _ (c02_treemap_reachable_inv hc ops) op

theorem c02_treeset_cmps_le_reachable (hc : LawfulCmp cmp) (ops : List (SetOp α)) (op : SetOp α) :
    let t := (TreeSet.run cmp (RBTree.empty : RBTree α Unit) ops).1
    TreeSet.cmps cmp t op ≤ 2 * (2 * Nat.log2 (t.size.toNat + 1)) :=
  (c02_wrappers_cmps_le (β := Unit) (γ := Unit) _ (c02_treeset_reachable_inv hc ops) op
    LinkedMap.empty c02_empty_inv .len RBTree.empty c02_empty_inv .len).1

theorem c02_linked_cmps_le_reachable (hc : LawfulCmp cmp) (ops : List (MapOp α β)) (op : MapOp α β) :
    let s := ((LinkedMap.empty : LinkedMap α β).run cmp ops).1
    LinkedMap.cmps cmp s op ≤ 2 * (2 * Nat.log2 (s.m.size.toNat + 1)) :=
  (c02_wrappers_cmps_le (γ := Unit) (RBTree.empty : RBTree α Unit) c02_empty_inv .keys
    _ (c02_linked_reachable_inv hc ops) op RBTree.empty c02_empty_inv .len).2.1

theorem c02_multimap_cmps_le_reachable {γ : Type} (hc : LawfulCmp cmp) (ops : List (MapOp α (List γ)))
    (op : MapOp α (List γ)) :
    let t := (MultiMap.run cmp (RBTree.empty : RBTree α (List γ)) ops).1
    MultiMap.cmps cmp t op ≤ 3 * (2 * Nat.log2 (t.size.toNat + 1)) :=
  (c02_wrappers_cmps_le (β := Unit) (RBTree.empty : RBTree α Unit) c02_empty_inv .keys
    LinkedMap.empty c02_empty_inv .len _ (c02_multimap_reachable_inv hc ops) op).2.2

/-- for the linked map the index size IS the container's `Len()` (so the bound is in terms of the
    number of keys the container holds) — every history from `NewLinkedTreeMap`. -/
theorem c02_linked_index_size (hc : LawfulCmp cmp) (ops : List (MapOp α β)) :
    let s := ((LinkedMap.empty : LinkedMap α β).run cmp ops).1
    s.m.size = s.length ∧ s.length = s.cells.length := by
  suffices ∀ s : LinkedMap α β, s.Inv cmp → s.m.size = s.length →
      (s.run cmp ops).1.m.size = (s.run cmp ops).1.length ∧ (s.run cmp ops).1.Inv cmp by
    obtain ⟨a, b⟩ := this _ (LinkedMap.inv_empty (cmp := cmp)) rfl
    exact ⟨a, b.len⟩
  induction ops with
  | nil => intro s hi he; exact ⟨he, hi⟩
  | cons op rest ih =>
    intro s hi he
    have hi' := (LinkedMap.step_refines hc s hi op).2
    refine ih _ hi' ?_
    -- index size and `length` move together
    cases op with
    | put k v =>
      simp only [LinkedMap.step]
      have hp := (TreeMap.step_refines hc s.m hi.wf (.put k ()))
      have hg := (pair_eq (TreeMap.step_refines hc s.m hi.wf (.get k)).1).2
      cases hl : SMap.lookup cmp k s.m.root.toList with
      | some p =>
        simp only [SMap.mstep, hl] at hg
        generalize TreeMap.step cmp s.m (.get k) = g at hg
        obtain ⟨g1, g2⟩ := g
        simp only at hg
        subst hg
        exact he
      | none =>
        simp only [SMap.mstep, hl] at hg
        generalize TreeMap.step cmp s.m (.get k) = g at hg
        obtain ⟨g1, g2⟩ := g
        simp only at hg
        subst hg
        obtain ⟨e1, e2⟩ := pair_eq hp.1
        simp only [SMap.mstep, hl] at e1 e2
        have hsz : (TreeMap.step cmp s.m (.put k ())).1.size = s.m.size + 1 := by
          rw [hp.2.size_eq, e1, SMap.length_insert, hi.wf.size_eq]; simp
        generalize TreeMap.step cmp s.m (.put k ()) = q at hsz e2
        obtain ⟨q1, q2⟩ := q
        simp only at e2 hsz
        subst e2
        show q1.size = s.length + 1
        omega
    | get k =>
      simp only [LinkedMap.step]
      generalize TreeMap.step cmp s.m (.get k) = g
      obtain ⟨g1, g2⟩ := g
      cases g2 <;> (try cases LinkedMap.cellOf cmp k s.cells) <;> exact he
    | delete k =>
      simp only [LinkedMap.step]
      have hd := (TreeMap.step_refines hc s.m hi.wf (.delete k))
      obtain ⟨e1, e2⟩ := pair_eq hd.1
      cases hl : SMap.lookup cmp k s.m.root.toList with
      | some p =>
        simp only [SMap.mstep, hl] at e1 e2
        have hsz : (TreeMap.step cmp s.m (.delete k)).1.size = s.m.size - 1 := by
          rw [hd.2.size_eq, e1, SMap.length_erase hl, hi.wf.size_eq]
        generalize TreeMap.step cmp s.m (.delete k) = q at hsz e2
        obtain ⟨q1, q2⟩ := q
        simp only at e2
        subst e2
        cases LinkedMap.cellOf cmp k s.cells <;> (simp only at hsz ⊢; omega)
      | none =>
        simp only [SMap.mstep, hl] at e1 e2
        generalize TreeMap.step cmp s.m (.delete k) = q at e2
        obtain ⟨q1, q2⟩ := q
        simp only at e2
        subst e2
        exact he
    | keys => exact he
    | values => exact he
    | len => exact he

/-! #### the descents of `addNode` and `Delete`, instrumented with one tick per comparator call -/

namespace Tree

/-- `ins` with a counter: one tick for every `rb.compare(node.key, t.key)` of the `addNode` loop -/
def insCount (cmp : α → α → Int) (k : α) (v : β) : Tree α β → Option (Tree α β) × Nat
  | nil => (some (node .red nil k v nil), 0)
  | node c l k' v' r =>
    if cmp k k' < 0 then
      let p := insCount cmp k v l
      (match p.1 with
       | some l' => some (fixInsL c l' k' v' r)
       | none => none, p.2 + 1)
    else if cmp k k' > 0 then
      let p := insCount cmp k v r
      (match p.1 with
       | some r' => some (fixInsR c l k' v' r')
       | none => none, p.2 + 1)
    else (none, 1)

/-- `del` with a counter: one tick for every comparison of `findNode`; `deleteNode`, `findSuccessor`
    and the fix-ups never call the comparator -/
def delCount (cmp : α → α → Int) (k : α) : Tree α β → Option (β × (Tree α β × Bool)) × Nat
  | nil => (none, 0)
  | node c l k' v' r =>
    if cmp k k' < 0 then
      let p := delCount cmp k l
      (match p.1 with
       | some (x, res) => some (x, balL c res k' v' r)
       | none => none, p.2 + 1)
    else if cmp k k' > 0 then
      let p := delCount cmp k r
      (match p.1 with
       | some (x, res) => some (x, balR c l k' v' res)
       | none => none, p.2 + 1)
    else
      (match l, r with
       | node .., node rc rl rk rv rr =>
         let m := delMin rc rl rk rv rr
         some (v', balR c l m.1.1 m.1.2 m.2)
       | _, _ => some (v', spliceOut c l r), 1)

end Tree

/-- the counting insertion descent is the insertion descent, and it makes `cmpCount` comparator calls -/
theorem c02_insCount (k : α) (v : β) (t : Tree α β) :
    Tree.insCount cmp k v t = (Tree.ins cmp k v t, Tree.cmpCount cmp k t) := by
  induction t with
  | nil => rfl
  | node c l k' v' r ihl ihr =>
    simp only [Tree.insCount, Tree.ins, Tree.cmpCount]
    split
    · rw [ihl]; rfl
    · split
      · rw [ihr]; rfl
      · rfl

/-- the counting deletion is the deletion, and it makes `cmpCount` comparator calls -/
theorem c02_delCount (k : α) (t : Tree α β) :
    Tree.delCount cmp k t = (Tree.del cmp k t, Tree.cmpCount cmp k t) := by
  induction t with
  | nil => rfl
  | node c l k' v' r ihl ihr =>
    simp only [Tree.delCount, Tree.del, Tree.cmpCount]
    split
    · rw [ihl]; rfl
    · split
      · rw [ihr]; rfl
      · rfl

/-- hence: the number of comparator calls of an insertion / deletion / lookup on ANY reachable tree
    holding `n` keys is at most `2*log2(n+1)` — stated on the instrumented descents themselves. -/
theorem c02_counts_le_reachable (hc : LawfulCmp cmp) (ops : List (TreeOp α β)) (k : α) (v : β) :
    let t := ((RBTree.empty : RBTree α β).run cmp ops).1
    (Tree.insCount cmp k v t.root).2 ≤ 2 * Nat.log2 (t.size.toNat + 1) ∧
    (Tree.delCount cmp k t.root).2 ≤ 2 * Nat.log2 (t.size.toNat + 1) ∧
    (Tree.findCount cmp k t.root).2 ≤ 2 * Nat.log2 (t.size.toNat + 1) := by
  intro t
  have h := c02_cmps_le_reachable (cmp := cmp) hc ops (.find k)
  simp only [RBTree.cmps] at h
  rw [c02_insCount, c02_delCount, c02_findCount]
  exact ⟨h, h, h⟩

/-! #### the height bound without `Nat.log2` -/

/-- a valid red-black tree of height `h` holds at least `2^⌈h/2⌉ - 1 ≥ 2^(h/2) - 1` keys -/
theorem c02_height_pow (t : RBTree α β) (h : RBInv cmp t) :
    2 ^ (t.root.height / 2) ≤ t.root.count + 1 := by
  have h1 := Tree.two_pow_bh_le t.root h.balanced
  have h2 := Tree.height_le_bh t.root h.noRedRed h.balanced
  have h3 : t.root.height ≤ 2 * Tree.bh t.root := by
    have := h.rootBlack
    simp only [this] at h2
    simpa using h2
  exact Nat.le_trans (Nat.pow_le_pow_right (by decide) (by omega)) h1

/-! #### non-vacuity: wrappers reach non-trivial index trees and really use two / three locates -/

/-- a linked map whose index was rebalanced by insertions and deletions -/
def lm6 : LinkedMap Int Int :=
  ((LinkedMap.empty : LinkedMap Int Int).run cmpAsc
    [.put 5 50, .put 3 30, .put 8 80, .put 1 10, .put 4 40, .put 9 90, .delete 3, .put 5 55, .put 2 20]).1

example : RBInv cmpAsc lm6.m := c02_linked_reachable_inv c02_cmpAsc_lawful _
example : lm6.m.root.count = 6 ∧ lm6.length = 6 ∧ lm6.m.root.height = 3 := by decide
example : lm6.cells = [(5, 55), (8, 80), (1, 10), (4, 40), (9, 90), (2, 20)] := by decide
/-- `Put` of an absent key on the linked map: two locates (Get, then Add) -/
example : LinkedMap.cmps cmpAsc lm6 (.put 10 0) = 2 * lm6.m.root.cmpCount cmpAsc 10 ∧ lm6.m.root.cmpCount cmpAsc 10 = 3 := by decide
/-- the instrumented descents on a concrete tree: 10 is found after `height` comparisons -/
example : (Tree.delCount cmpAsc 10 t10.root).2 = 5 ∧ (Tree.insCount cmpAsc 11 0 t10.root).2 = 5 := by decide

end Ekit.RB
