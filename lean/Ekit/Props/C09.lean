/-
C09 — Blocked queue calls wake when they can proceed; cancellation is prompt and clean.

The property theorems are in two files that share nothing but the statement they formalise:
* `Ekit/Props/C09a.lean` — ConcurrentArrayBlockingQueue and ConcurrentLinkedBlockingQueue (+ the `cond` helper),
  over the same transition systems as C07;
* `Ekit/Props/C09b.lean` — DelayQueue, over the same timed transition system as C08.
Residue (named `…_partial` in both files): wall-clock "as soon as"/"promptly" and scheduler fairness are not
expressible; what is proved is enabledness (no lost wake-up, no stuck state, the ctx arm enabled at every blocking
point) plus progress variants where they exist.
-/
import Ekit.Props.C09a
import Ekit.Props.C09b
