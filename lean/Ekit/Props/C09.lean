/- TEMPORARY (c08 agent's private testing of its C09 share): the merged C09 imports both shares. -/
import Ekit.Props.C09b
