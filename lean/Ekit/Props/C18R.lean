/-
C18R — review companion of Ekit/Props/C18.lean (adversarial review pass).

Main finding: the two AEAD hypotheses of C18 are **jointly unsatisfiable**.  `AEAD.Correct` is global
(`∀ k n p, open k n (seal k n p) = some p`: infinitely many triples open) while `IdealAEAD a Q` says
that only the finitely many triples of the list `Q` open.  `c18_correct_ideal_incompatible` proves
`a.Correct → IdealAEAD a Q → False` for every `a`, `Q`.  No theorem of C18 uses both at once (so none is
vacuous on its own: `toyAEAD` is `Correct`, `pointToy` is ideal), but C18 therefore never shows ONE
cipher for which "the genuine stored value round-trips" and "everything else is rejected" hold
together.  This file does:

* `AEAD.CorrectAt a k n p` — correctness at the one triple that matters; `c18_scan_value_roundtrip_at`
  is the round trip under that weaker hypothesis (strictly stronger theorem than
  `c18_scan_value_roundtrip`, which is re-derived as `c18_scan_value_roundtrip_cor`).
* `c18_scan_accepts_iff_genuine` — the property's two halves in one statement about one cipher:
  under `CorrectAt` + `IdealAEAD` w.r.t. the one genuine triple, `Scan` with any receiver of the same
  type restores `x` with `Valid = true` when (src = the stored value ∧ same key) and returns an error
  leaving the receiver untouched for EVERY other (src, key).
* the joint hypotheses are satisfiable (`pointToy`), with a concrete int16 column on which the
  genuine value restores and every single-bit flip / truncation / extension / other key is rejected.
* a set-based authenticity hypothesis `AuthenticAEAD` (only the image of `seal` opens) that IS
  compatible with global `Correct` (instance `frameToy`), and the rejection theorem for it.
* small uncovered clauses: the nonce is the 12-byte prefix of the stored value ("pairwise inequality
  of ciphertexts and nonces"), the stored value is never empty / never shorter than the nonce,
  `JsonColumn.Value` is NULL **iff** the column is invalid, a bool column through the JSON arm.
-/
import Ekit.Props.C18

namespace Ekit.Sqlx
open Ekit.Go

/-! ### the two AEAD hypotheses of C18 cannot hold together -/

private theorem mem_le_sum (l : List Nat) (x : Nat) (h : x ∈ l) : x ≤ l.sum := by
  induction l with
  | nil => cases h
  | cons y ys ih =>
    simp only [List.sum_cons]
    rcases List.mem_cons.mp h with rfl | h
    · omega
    · have := ih h; omega

/-- **Finding.** `AEAD.Correct` (global) and `IdealAEAD a Q` (only the finitely many triples in the list
`Q` open) contradict each other: a key longer than every key in `Q` still opens its own sealing. -/
theorem c18_correct_ideal_incompatible (a : AEAD) (Q : List (Bytes × Bytes × Bytes))
    (hc : a.Correct) (hi : IdealAEAD a Q) : False := by
  let k : Bytes := List.replicate ((Q.map (fun t => t.1.length)).sum + 1) 0
  have hopen := hc k [] []
  have hmem : (k, [], a.sealAE k [] []) ∈ Q := by
    by_cases hm : (k, [], a.sealAE k [] []) ∈ Q
    · exact hm
    · rw [hi _ _ _ hm] at hopen; cases hopen
  have h1 : k.length ∈ Q.map (fun t => t.1.length) := List.mem_map.mpr ⟨_, hmem, rfl⟩
  have h2 := mem_le_sum _ _ h1
  simp only [k, List.length_replicate] at h2
  omega

/-! ### correctness where it is needed, and the combined statement -/

/-- decryption inverts encryption at ONE (key, nonce, plaintext) -/
def AEAD.CorrectAt (a : AEAD) (k n p : Bytes) : Prop := a.openAE k n (a.sealAE k n p) = some p

theorem c18_correctAt_of_correct {a : AEAD} (h : a.Correct) (k n p : Bytes) : a.CorrectAt k n p := h k n p

/-- **Round trip under pointwise correctness** (the hypothesis `a.Correct` of
`c18_scan_value_roundtrip` weakened to the one triple that `Value` produced). -/
theorem c18_scan_value_roundtrip_at {J} (a : AEAD) (c : JsonCodec J)
    (e r : Col J) (nonce ct : Bytes)
    (hn : nonce.length = nonceSize) (hv : value a c e nonce = .ok ct)
    (ha : ∀ b, serialize c e.val = .ok b → a.CorrectAt e.key nonce b)
    (hk : r.key = e.key) (hty : r.val.ty = e.val.ty) (hj : Val.RepresentableFor c r.val e.val) :
    scan a c r (.bytes ct) = ({ r with val := e.val, valid := true }, .ok ()) ∧
    scan a c r (.str ct) = ({ r with val := e.val, valid := true }, .ok ()) := by
  obtain ⟨_, hkl, b, hb, rfl⟩ := value_ok hv
  have hd : aesDecrypt a r.key (nonce ++ a.sealAE e.key nonce b) = .ok b := by
    rw [hk, aesDecrypt_framed a e.key nonce _ hkl hn, ha b hb]
  have hds := deserialize_serialize c r.val e.val b hty hb hj
  have : scan a c r (.bytes (nonce ++ a.sealAE e.key nonce b)) = ({ r with val := e.val, valid := true }, .ok ()) := by
    rw [scan_bytes, hd]
    simp [hds, Outcome.isOk]
  exact ⟨this, by rw [scan_str]; exact this⟩

/-- the original theorem is a corollary -/
theorem c18_scan_value_roundtrip_cor {J} (a : AEAD) (ha : a.Correct) (c : JsonCodec J)
    (e r : Col J) (nonce ct : Bytes)
    (hn : nonce.length = nonceSize) (hv : value a c e nonce = .ok ct)
    (hk : r.key = e.key) (hty : r.val.ty = e.val.ty) (hj : Val.RepresentableFor c r.val e.val) :
    scan a c r (.bytes ct) = ({ r with val := e.val, valid := true }, .ok ()) ∧
    scan a c r (.str ct) = ({ r with val := e.val, valid := true }, .ok ()) :=
  c18_scan_value_roundtrip_at a c e r nonce ct hn hv (fun b _ => c18_correctAt_of_correct ha _ _ b) hk hty hj

/-- **Accepted iff genuine** — both halves of the property about ONE cipher.  `ct` is what `Value`
returned for column `e` with nonce `nonce`; the cipher decrypts that one sealing correctly and is ideal
w.r.t. it (nothing else opens).  Then for EVERY receiver `r` of the same Go type (any previous value,
any `Valid`, ANY key) and EVERY byte string `d`, as `[]byte` or `string` src:
* `d = ct` and `r.key = e.key`: `Scan` returns nil, `Val = x`, `Valid = true`;
* otherwise (any bit flipped, truncated to any length, extended, any other key of any length, any
  unrelated bytes): `Scan` returns an error and the receiver is untouched. -/
theorem c18_scan_accepts_iff_genuine {J} (a : AEAD) (c : JsonCodec J) (e r : Col J) (nonce ct b : Bytes)
    (hn : nonce.length = nonceSize) (hv : value a c e nonce = .ok ct) (hb : serialize c e.val = .ok b)
    (hca : a.CorrectAt e.key nonce b)
    (hI : IdealAEAD a [(e.key, nonce, a.sealAE e.key nonce b)])
    (hty : r.val.ty = e.val.ty) (hj : Val.RepresentableFor c r.val e.val) (d : Bytes) :
    ((d = ct ∧ r.key = e.key) →
        scan a c r (.bytes d) = ({ r with val := e.val, valid := true }, .ok ()) ∧
        scan a c r (.str d) = ({ r with val := e.val, valid := true }, .ok ())) ∧
    (¬ (d = ct ∧ r.key = e.key) →
        ∃ er, scan a c r (.bytes d) = (r, .err er) ∧ scan a c r (.str d) = (r, .err er)) := by
  have hct : ct = nonce ++ a.sealAE e.key nonce b := by
    obtain ⟨_, _, b', hb', h⟩ := value_ok hv
    rw [hb] at hb'; cases hb'; exact h
  constructor
  · rintro ⟨rfl, hk⟩
    exact c18_scan_value_roundtrip_at a c e r nonce d hn hv
      (fun b' hb' => by rw [hb] at hb'; cases hb'; exact hca) hk hty hj
  · intro hne
    apply c18_only_genuine_accepted a e.key nonce _ hI c r d
    by_cases hd : d = ct
    · exact .inr (fun hk => hne ⟨hd, hk⟩)
    · exact .inl (by rw [← hct]; exact hd)

/-- consequently `Scan` succeeds on `d` iff `d` is the stored value and the key is the same -/
theorem c18_scan_ok_iff_genuine {J} (a : AEAD) (c : JsonCodec J) (e r : Col J) (nonce ct b : Bytes)
    (hn : nonce.length = nonceSize) (hv : value a c e nonce = .ok ct) (hb : serialize c e.val = .ok b)
    (hca : a.CorrectAt e.key nonce b)
    (hI : IdealAEAD a [(e.key, nonce, a.sealAE e.key nonce b)])
    (hty : r.val.ty = e.val.ty) (hj : Val.RepresentableFor c r.val e.val) (d : Bytes) :
    (scan a c r (.bytes d)).2 = .ok () ↔ (d = ct ∧ r.key = e.key) := by
  obtain ⟨h1, h2⟩ := c18_scan_accepts_iff_genuine a c e r nonce ct b hn hv hb hca hI hty hj d
  constructor
  · intro hok
    by_cases hg : d = ct ∧ r.key = e.key
    · exact hg
    · obtain ⟨er, h, _⟩ := h2 hg
      rw [h] at hok; cases hok
  · intro hg; rw [(h1 hg).1]

/-! ### the joint hypotheses are satisfiable, and the conclusions concern real states -/

/-- `pointToy` is correct at its genuine triple AND ideal w.r.t. it -/
example (key nonce sealed pt : Bytes) :
    (pointToy key nonce sealed pt).CorrectAt key nonce pt ∧
    IdealAEAD (pointToy key nonce sealed pt) [(key, nonce, (pointToy key nonce sealed pt).sealAE key nonce pt)] := by
  refine ⟨by simp [AEAD.CorrectAt, pointToy], ?_⟩
  intro k n c h
  simp only [List.mem_singleton, Prod.mk.injEq] at h
  simp only [pointToy] at h ⊢
  simp [h]

namespace Demo
def key : Bytes := List.replicate 16 7
def nonce : Bytes := List.replicate 12 9
def sealed : Bytes := [0x51, 0x52, 0x53, 0x54]
def cipher : AEAD := pointToy key nonce sealed [0xBE, 0xEF]
def e : Col Bool := { val := .num .i16 0xBEEF#16, valid := true, key := key }
def ct : Bytes := nonce ++ sealed

theorem value_e : value cipher toyJson e nonce = .ok ct := by decide
theorem ser_e : serialize toyJson e.val = .ok [0xBE, 0xEF] := by decide
theorem correctAt : cipher.CorrectAt e.key nonce [0xBE, 0xEF] := by unfold AEAD.CorrectAt; decide
theorem ideal : IdealAEAD cipher [(e.key, nonce, cipher.sealAE e.key nonce [0xBE, 0xEF])] := by
  intro k n c h
  simp only [List.mem_singleton, Prod.mk.injEq] at h
  simp only [cipher, pointToy] at h ⊢
  simp only [e] at h
  simp [h]

/-- every hypothesis of `c18_scan_accepts_iff_genuine` holds for this concrete int16 column: with any
int16 receiver, the genuine value restores 0xBEEF and EVERY other byte string / key is an error -/
theorem c18_demo_accepts_iff_genuine (r : Col Bool) (v : BitVec 16) (hr : r.val = .num .i16 v) (d : Bytes) :
    ((d = ct ∧ r.key = key) → scan cipher toyJson r (.bytes d) = ({ r with val := .num .i16 0xBEEF#16, valid := true }, .ok ())) ∧
    (¬ (d = ct ∧ r.key = key) → ∃ er, scan cipher toyJson r (.bytes d) = (r, .err er)) := by
  have hty : r.val.ty = e.val.ty := by rw [hr]; rfl
  have hj : Val.RepresentableFor toyJson r.val e.val := by rw [hr]; simp [Val.RepresentableFor]
  obtain ⟨h1, h2⟩ := c18_scan_accepts_iff_genuine cipher toyJson e r nonce ct _ (by decide) value_e ser_e
    correctAt ideal hty hj d
  exact ⟨fun h => (h1 h).1, fun h => let ⟨er, h, _⟩ := h2 h; ⟨er, h⟩⟩

/-- flipping bit 3 of the stored value: rejected, receiver untouched (instance of the above) -/
example (r : Col Bool) (v : BitVec 16) (hr : r.val = .num .i16 v) :
    ∃ er, scan cipher toyJson r (.bytes (flipBit ct 3)) = (r, .err er) :=
  (c18_demo_accepts_iff_genuine r v hr _).2 (fun h => flipBit_ne ct 3 (by decide) h.1)
end Demo

/-! ### an authenticity hypothesis that is compatible with global correctness -/

/-- only sealings open, and they open to what was sealed (for a deterministic AEAD this says that
`open k n` is the partial inverse of the injective `seal k n`; it is what remains of `IdealAEAD` when
`Q` is allowed to be the infinite set of all sealings) -/
def AuthenticAEAD (a : AEAD) : Prop := ∀ k n c p, a.openAE k n c = some p → c = a.sealAE k n p

/-- under `AuthenticAEAD`, a src whose body is not the sealing (under the scanning key and the src's own
nonce prefix) of any plaintext is rejected and the column is untouched -/
theorem c18_not_a_sealing_rejected {J} (a : AEAD) (hA : AuthenticAEAD a) (c : JsonCodec J) (e : Col J) (d : Bytes)
    (hq : ∀ p, d.drop nonceSize ≠ a.sealAE e.key (d.take nonceSize) p) :
    ∃ er, scan a c e (.bytes d) = (e, .err er) ∧ scan a c e (.str d) = (e, .err er) := by
  have hopen : a.openAE e.key (d.take nonceSize) (d.drop nonceSize) = none := by
    cases h : a.openAE e.key (d.take nonceSize) (d.drop nonceSize) with
    | none => rfl
    | some p => exact absurd (hA _ _ _ _ h) (hq p)
  have hd : ∃ er, aesDecrypt a e.key d = .err er := by
    rw [aesDecrypt_eq]
    split
    · exact ⟨_, rfl⟩
    · split
      · exact ⟨_, rfl⟩
      · rw [hopen]; exact ⟨_, rfl⟩
  obtain ⟨er, hd⟩ := hd
  have h : scan a c e (.bytes d) = (e, .err er) := by rw [scan_bytes, hd]
  exact ⟨er, h, by rw [scan_str]; exact h⟩

/-- a cipher that frames the plaintext with key and nonce: globally `Correct` AND `AuthenticAEAD` -/
def frameToy : AEAD where
  sealAE k n p := k ++ n ++ p
  openAE k n c := if c.take (k.length + n.length) = k ++ n then some (c.drop (k.length + n.length)) else none

example : frameToy.Correct ∧ AuthenticAEAD frameToy := by
  constructor
  · intro k n p
    have h1 : (k ++ n ++ p).take (k.length + n.length) = k ++ n := by
      rw [← List.length_append]; exact List.take_left
    have h2 : (k ++ n ++ p).drop (k.length + n.length) = p := by
      rw [← List.length_append]; exact List.drop_left
    simp only [frameToy, h1, h2, if_true]
  · intro k n c p h
    simp only [frameToy] at h ⊢
    split at h
    · rename_i ht
      cases h
      rw [← ht, List.take_append_drop]
    · cases h

/-! ### smaller uncovered clauses -/

/-- the stored value starts with the nonce (so the harness's "pairwise inequality of nonces" observes
the oracle argument), is at least `nonceSize` long and in particular never empty -/
theorem c18_value_nonce_prefix {J} (a : AEAD) (c : JsonCodec J) (e : Col J) (nonce ct : Bytes)
    (hn : nonce.length = nonceSize) (hv : value a c e nonce = .ok ct) :
    ct.take nonceSize = nonce ∧ nonceSize ≤ ct.length := by
  obtain ⟨_, _, b, _, rfl⟩ := value_ok hv
  constructor
  · rw [← hn]; exact List.take_left
  · simp only [List.length_append]; omega

/-- "two encryptions of the same value differ", contrapositive form: equal outputs force equal nonces
(so any repetition among stored values is a repetition of `crypto/rand`'s nonce) -/
theorem c18_equal_ct_equal_nonce {J} (a : AEAD) (c : JsonCodec J) (e : Col J) (n1 n2 ct : Bytes)
    (h1 : n1.length = nonceSize) (h2 : n2.length = nonceSize)
    (hv1 : value a c e n1 = .ok ct) (hv2 : value a c e n2 = .ok ct) : n1 = n2 := by
  rw [← (c18_value_nonce_prefix a c e n1 ct h1 hv1).1, ← (c18_value_nonce_prefix a c e n2 ct h2 hv2).1]

/-- "an invalid column yields SQL NULL" as an equivalence: `Value()` is NULL only for an invalid column -/
theorem c18_json_null_iff_invalid {J} (c : JsonCodec J) (j : JCol J) :
    j.value c = .ok none ↔ j.valid = false := by
  constructor
  · intro h
    cases hv : j.valid with
    | false => rfl
    | true =>
      cases hm : c.marshal j.val <;> simp [JCol.value, hv, hm] at h
  · exact c18_json_null_when_invalid c j

/-- a valid JsonColumn whose value marshals yields exactly those bytes; one that does not, an error -/
theorem c18_json_value_valid {J} (c : JsonCodec J) (j : JCol J) (hv : j.valid = true) :
    j.value c = match c.marshal j.val with
      | some b => .ok (some b)
      | none => .err eJson := by
  cases hm : c.marshal j.val <;> simp [JCol.value, hv, hm]

/-- `EncryptColumn.Value` on a JSON-serialised `T` whose value does not marshal (e.g. a NaN inside a
struct) is an error, not a panic and not a ciphertext -/
theorem c18_unmarshalable_value_err {J} (a : AEAD) (c : JsonCodec J) (e : Col J) (x : J) (nonce : Bytes)
    (hv : e.valid = true) (hk : keyLenOk e.key.length = true) (hx : e.val = .other x) (hm : c.marshal x = none) :
    value a c e nonce = .err eJson := by
  simp [value, hv, hk, hx, serialize, hm]

/-- `Val.RepresentableFor` is satisfiable on the JSON arm, and a `bool` column (JSON arm) really
round-trips through `value`/`scan` with a `Correct` cipher -/
example (p x : Bool) : Val.RepresentableFor toyJson (.other p) (.other x) := by
  intro b hb
  cases x <;> simp [toyJson] at hb <;> subst hb <;> rfl

example :
    let e : Col Bool := { val := .other true, valid := true, key := List.replicate 32 1 }
    let r : Col Bool := { val := .other false, valid := false, key := List.replicate 32 1 }
    let nonce : Bytes := List.replicate 12 0
    value toyAEAD toyJson e nonce = .ok (nonce ++ [0xAA, 1]) ∧
    scan toyAEAD toyJson r (.bytes (nonce ++ [0xAA, 1])) = ({ r with val := .other true, valid := true }, .ok ()) := by
  constructor <;> rfl

/-- `int` / `uint` columns (the 64-bit detour) and float bit patterns incl. a NaN, concretely -/
example :
    let r : Col Bool := { val := .int 0, valid := false, key := List.replicate 24 1 }
    let e : Col Bool := { r with val := .int (-1), valid := true }
    let nonce : Bytes := List.replicate 12 0
    ∃ ct, value toyAEAD toyJson e nonce = .ok ct ∧ ct.length = 12 + 1 + 8 ∧
      scan toyAEAD toyJson r (.bytes ct) = ({ r with val := .int (-1), valid := true }, .ok ()) :=
  ⟨_, rfl, rfl, rfl⟩

example :
    let nan : BitVec 64 := 0x7FF8000000000001#64
    decodeNum .f64 (encodeNum .f64 nan) = .ok nan := (c18_be_roundtrip_64 _).2.2

end Ekit.Sqlx
