/-
C09 (share: ConcurrentArrayBlockingQueue, ConcurrentLinkedBlockingQueue, `cond`) —
"Blocked queue calls wake when they can proceed; cancellation is prompt and clean".

What a safety proof can carry is proved here, on the same transition systems as C07, for every
capacity, any number of simultaneous waiters and wakers, every interleaving, and a context ending
(`ctxEnd`) at every synchronisation point a call passes through:

* `fetch_before_unlock`, `no_lost_wakeup_*`: the `cond` protocol (channel fetched under the lock;
  swap, unlock, close) never loses a wake-up;
* `enabled_when_possible_*`: no reachable state is stuck — a call the specification enables can move,
  or a thread it waits for can;
* `cancel_enabled_*`, `cancel_after_slot_clean`: wherever a call can block, the context arm is enabled
  as soon as the context has ended, and a cancellation after winning a slot gives the permit back;
* `capacity_conserved_*`: at quiescence, after any pattern of cancellations, nothing is leaked;
* `progress_*`: a variant that every own action decreases (array queue) / decreases except on the
  wake-up back edge, which is paid for by a broadcast (linked queue).

**Partial residue** (named, not provable in this setting): "as soon as" / "promptly" in wall-clock
terms, and that enabled actions are eventually scheduled (weak fairness of the Go scheduler and of
`sync.RWMutex`/`semaphore.Weighted` hand-off).  Enabledness + variant give completion under weak
fairness; the dynamic harness checks completion within a generous bound on the real code.
-/
import Ekit.Generated.SkelC09
import Ekit.Model.BQueueSkel
import Ekit.Lemmas.ArrayBQSolo
import Ekit.Lemmas.LinkedBQSolo

open Ekit.Conc Ekit.BQ

/-! ## Linked queue and `cond` -/
section Linked
open Ekit.LinkedBQ

/-- **fetch_before_unlock**: when `signalCh` is about to release the lock, the calling thread still
    holds it, the channel it has fetched is the current generation, and the wait condition it
    evaluated still holds (no broadcast can have slipped in between). -/
theorem c09a_lbq_fetch_before_unlock (m : Int) (s : State) (hr : (sys m).Reachable s) (t : Nat) :
    (∀ v g, s.pc t = .eSigUnlock v g → s.writer = some t ∧ g = s.notFull.cur ∧ full s = true) ∧
    (∀ g, s.pc t = .dSigUnlock g → s.writer = some t ∧ g = s.notEmpty.cur ∧ s.q = []) := by
  obtain ⟨h, h2, _⟩ := inv123_reachable m s hr
  refine ⟨fun v g hp => ?_, fun g hp => ?_⟩
  · have := h2.lockF t; simp only [hp, lockFact] at this
    exact ⟨h.mutexW t (by simp [hp, inW]), this.1, this.2⟩
  · have := h2.lockF t; simp only [hp, lockFact] at this
    exact ⟨h.mutexW t (by simp [hp, inW]), this.1, this.2⟩

/-- a parked waiter never holds a generation newer than the current one, every generation older
    than the current one is closed or its `close` is pending in exactly one thread, and a channel is
    never closed twice (no "close of closed channel" panic). -/
theorem c09a_lbq_generations (m : Int) (s : State) (hr : (sys m).Reachable s) (w : Which) (g : Nat) :
    (g < (getCond s w).cur → g ∈ (getCond s w).closed ∨ ∃ u, isCloser (s.pc u) w g = true) ∧
    (g ∈ (getCond s w).closed → g < (getCond s w).cur) ∧
    (∀ u, isCloser (s.pc u) w g = true → g ∉ (getCond s w).closed ∧
        ∀ u', isCloser (s.pc u') w g = true → u = u') := by
  obtain ⟨_, h2, _⟩ := inv123_reachable m s hr
  exact ⟨h2.closerEx w g, h2.closedLt w g, fun u hu => ⟨(h2.closerOk u w g hu).2, fun u' hu' => h2.closerInj u u' w g hu hu'⟩⟩

/-- **no_lost_wakeup** (Enqueue blocked on full): see `Ekit.LinkedBQ.no_lost_wakeup_enq`. -/
theorem c09a_lbq_no_lost_wakeup_enq (m : Int) (s : State) (hr : (sys m).Reachable s) (t : Nat) (v : Int) (g : Nat)
    (hp : s.pc t = .eSelect v g) (hnf : full s = false) :
    (g < s.notFull.cur ∧ g ∈ s.notFull.closed ∧ tauEn s t) ∨
    (g < s.notFull.cur ∧ ∃ u, isCloser (s.pc u) .notFull g = true ∧ tauEn s u) ∨
    (g = s.notFull.cur ∧ ∃ u, isSwap (s.pc u) .notFull = true ∧ tauEn s u) :=
  no_lost_wakeup_enq m s hr t v g hp hnf

/-- **no_lost_wakeup** (Dequeue blocked on empty), for any number of simultaneous waiters. -/
theorem c09a_lbq_no_lost_wakeup_deq (m : Int) (s : State) (hr : (sys m).Reachable s) (t : Nat) (g : Nat)
    (hp : s.pc t = .dSelect g) (hne : s.q ≠ []) :
    (g < s.notEmpty.cur ∧ g ∈ s.notEmpty.closed ∧ tauEn s t) ∨
    (g < s.notEmpty.cur ∧ ∃ u, isCloser (s.pc u) .notEmpty g = true ∧ tauEn s u) ∨
    (g = s.notEmpty.cur ∧ ∃ u, isSwap (s.pc u) .notEmpty = true ∧ tauEn s u) :=
  no_lost_wakeup_deq m s hr t g hp hne

/-- **enabled_when_possible** (linked queue). -/
theorem c09a_lbq_enabled_when_possible (m : Int) (s : State) (hr : (sys m).Reachable s)
    (t : Nat) (hidle : s.pc t ≠ .idle) (hret : ∀ r, s.pc t ≠ .ret r) (hspec : specEnables s t) :
    tauEn s t ∨ ∃ u, waitsFor s t u ∧ tauEn s u :=
  enabled_when_possible m s hr t hidle hret hspec

/-- **cancel_enabled** (linked queue): the only points at which a call waits for something another
    call must do are the two selects; there the `ctx.Done()` arm is enabled as soon as the context
    has ended and leads directly to `return ctx.Err()`; a context that has ended before the call is
    noticed by the first check.  In both cases nothing was written (`c07_lbq_ctx_err_no_effect`) and
    the lock is not held. -/
theorem c09a_lbq_cancel_enabled (s : State) (t : Nat) (hc : s.ctxDone t = true) :
    (∀ v g, s.pc t = .eSelect v g → step s (.ctxArm t) = some (setPc s t (.ret .ctxErr))) ∧
    (∀ g, s.pc t = .dSelect g → step s (.ctxArm t) = some (setPc s t (.ret .ctxErr))) ∧
    (∀ v, s.pc t = .eCtx v → s.panicked = false → step s (.tau t) = some (setPc s t (.ret .ctxErr))) ∧
    (s.pc t = .dCtx → s.panicked = false → step s (.tau t) = some (setPc s t (.ret .ctxErr))) := by
  refine ⟨fun v g hp => ?_, fun g hp => ?_, fun v hp hn => ?_, fun hp hn => ?_⟩
  · simp [step, hp, hc]
  · simp [step, hp, hc]
  · simp [step, tauStep, hp, hc, hn]
  · simp [step, tauStep, hp, hc, hn]

/-- **capacity_conserved** (linked queue): at quiescence, after any pattern of cancellations, the
    lock is free, no read lock is held, no `close` is pending, every superseded channel is closed,
    and the list is within its bound — the queue's only capacity is `maxSize - len`. -/
theorem c09a_lbq_capacity_conserved (m : Int) (s : State) (hr : (sys m).Reachable s)
    (hq : ∀ t, s.pc t = .idle) :
    s.writer = none ∧ s.readers = 0 ∧ (0 < m → (s.q.length : Int) ≤ m) ∧
    (∀ w g, g < (getCond s w).cur → g ∈ (getCond s w).closed) := by
  obtain ⟨h, h2, h3⟩ := inv123_reachable m s hr
  refine ⟨?_, ?_, fun hm => ?_, fun w g hg => ?_⟩
  · cases hw : s.writer with
    | none => rfl
    | some w => have := h3 w hw; simp [hq w, inW] at this
  · have := h.rd
    rw [wsum_eq_zero wR s.pc (fun t _ => by rw [hq t]; rfl)] at this; exact this
  · have := h2.cap_le (by rw [h.msz]; exact hm); rw [h.msz] at this; exact this
  · cases h2.closerEx w g hg with
    | inl hc => exact hc
    | inr hc => obtain ⟨u, hu⟩ := hc; simp [hq u, isCloser] at hu

/-- **accepts / delivers without blocking** (linked queue): at quiescence — after any pattern of
    cancellations — an Enqueue on a queue that is not full, whose context does not end, returns nil
    after finitely many own actions, each of them enabled (it never parks); a Dequeue on a non-empty
    queue returns an element.  (By `c07_lbq_linearizable` an Enqueue cannot return nil on a full
    queue, so exactly `maxSize - len` further elements are accepted.) -/
theorem c09a_lbq_accepts_at_quiescence (m : Int) (s : State) (hr : (sys m).Reachable s)
    (hq : ∀ u, s.pc u = .idle) (t : Nat) :
    (∀ v, full s = false → ∃ n s', (sys m).run s (.inv t (.enq v) :: List.replicate n (.tau t)) = some s' ∧
        s'.pc t = .ret .ok) ∧
    (s.q ≠ [] → ∃ n s' x, (sys m).run s (.inv t .deq :: List.replicate n (.tau t)) = some s' ∧
        s'.pc t = .ret (.val x)) := by
  have h0 : ∀ op, ∃ s0, step s (.inv t op) = some s0 ∧ s0.pc t = start op ∧ s0.q = s.q ∧ s0.maxSize = s.maxSize ∧
      Solo s0 t := by
    intro op
    refine ⟨{ s with pc := upd s.pc t (start op), ctxDone := upd s.ctxDone t false, writes := upd s.writes t 0, live := t :: s.live },
      by simp [step, hq t], by simp, rfl, rfl, fun u hu => by simp [upd, hu, hq u], by simp⟩
  refine ⟨fun v hnf => ?_, fun hne => ?_⟩
  · obtain ⟨s0, hs0, hp0, hq0, hm0, hsolo⟩ := h0 (.enq v)
    have hr0 : (sys m).Reachable s0 := @System.Reachable.step _ _ (sys m).toSystem s s0 (.inv t _) hr hs0
    have hok : okE s0 (s0.pc t) := by
      rw [hp0]; simp only [start, okE]; rw [full_congr hq0 hm0]; exact hnf
    obtain ⟨n, s', hrun, _, _, hres⟩ := solo_completes m t 12 s0 hr0 hsolo (by simp [rank, hp0, start]) (Or.inl hok)
    exact ⟨n, s', by simp only [System.run, sys, hs0]; exact hrun, hres.1 hok⟩
  · obtain ⟨s0, hs0, hp0, hq0, _, hsolo⟩ := h0 .deq
    have hr0 : (sys m).Reachable s0 := @System.Reachable.step _ _ (sys m).toSystem s s0 (.inv t _) hr hs0
    have hok : okD s0 (s0.pc t) := by
      rw [hp0]; simp only [start, okD]; rw [hq0]; exact hne
    obtain ⟨n, s', hrun, _, _, hres⟩ := solo_completes m t 12 s0 hr0 hsolo (by simp [rank, hp0, start]) (Or.inr hok)
    obtain ⟨x, hx⟩ := hres.2 hok
    exact ⟨n, s', x, by simp only [System.run, sys, hs0]; exact hrun, hx⟩

/-- **progress (partial)**: every action of a call other than the wake-up back edge strictly
    decreases the variant `rank` (≤ 12), and a back edge is only taken on a channel older than the
    current generation, i.e. after a broadcast by a call that completed its effect. -/
theorem c09a_lbq_progress_partial (m : Int) (s s' : State) (hr : (sys m).Reachable s) (t : Nat)
    (hs : step s (.tau t) = some s' ∨ step s (.ctxArm t) = some s') :
    rank s' t < rank s t ∨
    (backEdge s s' t ∧ (∀ v g, s.pc t = .eSelect v g → g < s.notFull.cur) ∧
      (∀ g, s.pc t = .dSelect g → g < s.notEmpty.cur)) := by
  have hr' : (sys m).Reachable s' := by
    cases hs with
    | inl hs => exact @System.Reachable.step _ _ (sys m).toSystem s s' (.tau t) hr hs
    | inr hs => exact @System.Reachable.step _ _ (sys m).toSystem s s' (.ctxArm t) hr hs
  have hnp := (inv123_reachable m s' hr').2.1.noPanic
  cases rank_decreases_or_backEdge hnp hs with
  | inl h => exact Or.inl h
  | inr h => exact Or.inr ⟨h, backEdge_generation m s s' hr t h⟩

end Linked

/-! ## Array queue -/
section Array
open Ekit.ArrayBQ

/-- **enabled_when_possible** (array queue): see `Ekit.ArrayBQ.enabled_when_possible`. -/
theorem c09a_abq_enabled_when_possible (cap : Nat) (hcap : 1 ≤ cap) (s : State) (hr : (sys cap).Reachable s)
    (t : Nat) (hidle : s.pc t ≠ .idle) (hret : ∀ r, s.pc t ≠ .ret r) (hspec : specEnables s t) :
    tauEn s t ∨ ∃ u, waitsFor s t u ∧ (tauEn s u ∨ ∃ w, waitsFor s u w ∧ tauEn s w) :=
  enabled_when_possible hcap s hr t hidle hret hspec

/-- **cancel_enabled** (array queue): a call blocked in `Acquire` can return the context error as
    soon as its context has ended, in one step, without having touched anything. -/
theorem c09a_abq_cancel_enabled (s : State) (t : Nat) (hc : s.ctxDone t = true) :
    (∀ v, s.pc t = .eAcq v → step s (.ctxArm t) = some (setPc s t (.ret .ctxErr))) ∧
    (s.pc t = .dAcq → step s (.ctxArm t) = some (setPc s t (.ret .ctxErr))) := by
  refine ⟨fun v hp => ?_, fun hp => ?_⟩
  · simp [step, hp, hc]
  · simp [step, hp, hc]

/-- **cancellation after winning a slot is clean** ("a context expiring between winning a slot and
    taking the lock"): if the context has ended when the re-check under the lock runs, the next three
    actions of the call are enabled and lead to `return ctx.Err()` with the permit given back, the
    lock released and the ring untouched. -/
theorem c09a_abq_cancel_after_slot_clean (cap : Nat) (hcap : 1 ≤ cap) (s : State) (hr : (sys cap).Reachable s)
    (t : Nat) (v : Int) (hp : s.pc t = .eChk v) (hc : s.ctxDone t = true) :
    ∃ s', (sys cap).run s [.tau t, .tau t, .tau t] = some s' ∧ s'.pc t = .ret .ctxErr ∧
      s'.enqFree = s.enqFree + 1 ∧ s'.deqFree = s.deqFree ∧ s'.writer = none ∧
      s'.data = s.data ∧ s'.head = s.head ∧ s'.tail = s.tail ∧ s'.count = s.count := by
  have h := inv_reachable hcap s hr
  have hE := h.permE; have hD := h.permD
  have hmem : t ∈ s.live := (h.live_iff t).mpr (by simp [hp])
  have hwE := wsum_le_of_mem wE s.pc hmem
  simp only [hp, wE] at hwE
  have hsz := h.size_eq
  have hw := h.mutexW t (by simp [hp, inW])
  have hfree : s.enqFree + 1 ≤ s.size := by omega
  have hnp := h.noPanic
  have h1 : step s (.tau t) = some (setPc s t .eRelBack) := by simp [step, tauStep, hp, hc, hnp]
  have h2 : step (setPc s t .eRelBack) (.tau t) =
      some (fpAdd (setPc { (setPc s t .eRelBack) with enqFree := s.enqFree + 1 } t (.unlock .ctxErr)) t (-1) 0 0) := by
    simp [step, tauStep, setPc, hnp, hfree]
  have h3 : step (fpAdd (setPc { (setPc s t .eRelBack) with enqFree := s.enqFree + 1 } t (.unlock .ctxErr)) t (-1) 0 0) (.tau t) =
      some (setPc { (fpAdd (setPc { (setPc s t .eRelBack) with enqFree := s.enqFree + 1 } t (.unlock .ctxErr)) t (-1) 0 0) with writer := none } t (.ret .ctxErr)) := by
    simp [step, tauStep, setPc, fpAdd, hnp, hw]
  obtain ⟨s3, hrun, hs3⟩ : ∃ s3, (sys cap).run s [.tau t, .tau t, .tau t] = some s3 ∧ s3 = (setPc { (fpAdd (setPc { (setPc s t .eRelBack) with enqFree := s.enqFree + 1 } t (.unlock .ctxErr)) t (-1) 0 0) with writer := none } t (.ret .ctxErr)) :=
    ⟨_, by simp only [System.run, sys, h1, h2, h3], rfl⟩
  refine ⟨s3, hrun, ?_⟩
  subst hs3
  simp [setPc, fpAdd]

/-- the same for Dequeue. -/
theorem c09a_abq_cancel_after_slot_clean_deq (cap : Nat) (hcap : 1 ≤ cap) (s : State) (hr : (sys cap).Reachable s)
    (t : Nat) (hp : s.pc t = .dChk) (hc : s.ctxDone t = true) :
    ∃ s', (sys cap).run s [.tau t, .tau t, .tau t] = some s' ∧ s'.pc t = .ret .ctxErr ∧
      s'.deqFree = s.deqFree + 1 ∧ s'.enqFree = s.enqFree ∧ s'.writer = none ∧
      s'.data = s.data ∧ s'.head = s.head ∧ s'.tail = s.tail ∧ s'.count = s.count := by
  have h := inv_reachable hcap s hr
  have hE := h.permE; have hD := h.permD
  have hmem : t ∈ s.live := (h.live_iff t).mpr (by simp [hp])
  have hwD := wsum_le_of_mem wD s.pc hmem
  simp only [hp, wD] at hwD
  have hsz := h.size_eq
  have hw := h.mutexW t (by simp [hp, inW])
  have hfree : s.deqFree + 1 ≤ s.size := by omega
  have hnp := h.noPanic
  have h1 : step s (.tau t) = some (setPc s t .dRelBack) := by simp [step, tauStep, hp, hc, hnp]
  have h2 : step (setPc s t .dRelBack) (.tau t) =
      some (fpAdd (setPc { (setPc s t .dRelBack) with deqFree := s.deqFree + 1 } t (.unlock .ctxErr)) t 0 (-1) 0) := by
    simp [step, tauStep, setPc, hnp, hfree]
  have h3 : step (fpAdd (setPc { (setPc s t .dRelBack) with deqFree := s.deqFree + 1 } t (.unlock .ctxErr)) t 0 (-1) 0) (.tau t) =
      some (setPc { (fpAdd (setPc { (setPc s t .dRelBack) with deqFree := s.deqFree + 1 } t (.unlock .ctxErr)) t 0 (-1) 0) with writer := none } t (.ret .ctxErr)) := by
    simp [step, tauStep, setPc, fpAdd, hnp, hw]
  obtain ⟨s3, hrun, hs3⟩ : ∃ s3, (sys cap).run s [.tau t, .tau t, .tau t] = some s3 ∧ s3 = (setPc { (fpAdd (setPc { (setPc s t .dRelBack) with deqFree := s.deqFree + 1 } t (.unlock .ctxErr)) t 0 (-1) 0) with writer := none } t (.ret .ctxErr)) :=
    ⟨_, by simp only [System.run, sys, h1, h2, h3], rfl⟩
  refine ⟨s3, hrun, ?_⟩
  subst hs3
  simp [setPc, fpAdd]

/-- **capacity_conserved** (array queue): at quiescence after any pattern of cancellations
    `enqFree = cap - count`, `deqFree = count`, the lock is free and no read lock is held. -/
theorem c09a_abq_capacity_conserved (cap : Nat) (hcap : 1 ≤ cap) (s : State) (hr : (sys cap).Reachable s)
    (hq : ∀ t, s.pc t = .idle) :
    (s.enqFree : Int) = cap - s.count ∧ (s.deqFree : Int) = s.count ∧ s.writer = none ∧ s.readers = 0 := by
  obtain ⟨h, _, h3⟩ := inv123_reachable hcap s hr
  have hz : ∀ w : Pc → Nat, w .idle = 0 → wsum w s.pc s.live = 0 :=
    fun w hw => wsum_eq_zero w s.pc (fun t _ => by rw [hq t]; exact hw)
  have hE := h.permE; have hD := h.permD; have hR := h.rd
  rw [hz wE rfl] at hE; rw [hz wD rfl] at hD; rw [hz wR rfl] at hR
  refine ⟨by omega, by omega, ?_, hR⟩
  cases hw : s.writer with
  | none => rfl
  | some w => have := h3 w hw; simp [hq w, inW] at this

/-- **accepts / delivers without blocking** (array queue): at quiescence — after any pattern of
    cancellations — an Enqueue on a queue that is not full, whose context does not end, returns nil
    after finitely many own actions, each of them enabled; a Dequeue on a non-empty queue returns an
    element.  (By `c07_abq_linearizable` an Enqueue cannot return nil on a full queue, so exactly
    `cap - count` further elements are accepted, and then delivered.) -/
theorem c09a_abq_accepts_at_quiescence (cap : Nat) (hcap : 1 ≤ cap) (s : State) (hr : (sys cap).Reachable s)
    (hq : ∀ u, s.pc u = .idle) (t : Nat) :
    (∀ v, s.count < cap → ∃ n s', (sys cap).run s (.inv t (.enq v) :: List.replicate n (.tau t)) = some s' ∧
        s'.pc t = .ret .ok) ∧
    (0 < s.count → ∃ n s' x, (sys cap).run s (.inv t .deq :: List.replicate n (.tau t)) = some s' ∧
        s'.pc t = .ret (.val x)) := by
  have h := inv_reachable hcap s hr
  have h0 : ∀ op, ∃ s0, step s (.inv t op) = some s0 ∧ s0.pc t = start op ∧ contents s0 = contents s ∧
      s0.size = s.size ∧ Solo s0 t := by
    intro op
    refine ⟨{ s with pc := upd s.pc t (start op), ctxDone := upd s.ctxDone t false, fp := upd s.fp t ⟨0, 0, 0⟩, live := t :: s.live },
      by simp [step, hq t], by simp, rfl, rfl, fun u hu => by simp [upd, hu, hq u], by simp⟩
  have hc0 := h.count_nonneg
  refine ⟨fun v hnf => ?_, fun hne => ?_⟩
  · obtain ⟨s0, hs0, hp0, hc, hsz, hsolo⟩ := h0 (.enq v)
    have hr0 : (sys cap).Reachable s0 := @System.Reachable.step _ _ (sys cap).toSystem s s0 (.inv t _) hr hs0
    have hspec : specEnables s0 t := by
      simp only [specEnables, hp0, start, hc, hsz, h.size_eq, contents_length]; omega
    obtain ⟨n, s', hrun, _, _, hres⟩ := solo_completes hcap t 8 s0 hr0 hsolo (by simp [rank, hp0, start])
      (Or.inl (by simp [hp0, start, okE])) hspec
    exact ⟨n, s', by simp only [System.run, sys, hs0]; exact hrun, hres.1 (by simp [hp0, start, okE])⟩
  · obtain ⟨s0, hs0, hp0, hc, _, hsolo⟩ := h0 .deq
    have hr0 : (sys cap).Reachable s0 := @System.Reachable.step _ _ (sys cap).toSystem s s0 (.inv t _) hr hs0
    have hspec : specEnables s0 t := by
      simp only [specEnables, hp0, start, hc, contents_length]; omega
    obtain ⟨n, s', hrun, _, _, hres⟩ := solo_completes hcap t 8 s0 hr0 hsolo (by simp [rank, hp0, start])
      (Or.inr (by simp [hp0, start, okD])) hspec
    obtain ⟨x, hx⟩ := hres.2 (by simp [hp0, start, okD])
    exact ⟨n, s', x, by simp only [System.run, sys, hs0]; exact hrun, hx⟩

/-- **progress**: every own action of a call strictly decreases `rank` (≤ 8 + cap), so with the
    enabledness theorem a call completes under weak fairness. -/
theorem c09a_abq_progress (cap : Nat) (hcap : 1 ≤ cap) (s s' : State) (hr : (sys cap).Reachable s) (t : Nat)
    (hs : step s (.tau t) = some s' ∨ step s (.ctxArm t) = some s') : rank s' t < rank s t := by
  have hr' : (sys cap).Reachable s' := by
    cases hs with
    | inl hs => exact @System.Reachable.step _ _ (sys cap).toSystem s s' (.tau t) hr hs
    | inr hs => exact @System.Reachable.step _ _ (sys cap).toSystem s s' (.ctxArm t) hr hs
  exact rank_decreases (inv_reachable hcap s' hr').noPanic hs

end Array

/-! ## Skeleton obligations (this share) -/
theorem c09a_skel_ConcurrentArrayBlockingQueue_AsSlice : Ekit.Gen.SkelC09.ConcurrentArrayBlockingQueue_AsSlice = Ekit.BQSkel.expected_ConcurrentArrayBlockingQueue_AsSlice := by rfl
theorem c09a_skel_ConcurrentArrayBlockingQueue_Dequeue : Ekit.Gen.SkelC09.ConcurrentArrayBlockingQueue_Dequeue = Ekit.BQSkel.expected_ConcurrentArrayBlockingQueue_Dequeue := by rfl
theorem c09a_skel_ConcurrentArrayBlockingQueue_Enqueue : Ekit.Gen.SkelC09.ConcurrentArrayBlockingQueue_Enqueue = Ekit.BQSkel.expected_ConcurrentArrayBlockingQueue_Enqueue := by rfl
theorem c09a_skel_ConcurrentArrayBlockingQueue_Len : Ekit.Gen.SkelC09.ConcurrentArrayBlockingQueue_Len = Ekit.BQSkel.expected_ConcurrentArrayBlockingQueue_Len := by rfl
theorem c09a_skel_ConcurrentLinkedBlockingQueue_AsSlice : Ekit.Gen.SkelC09.ConcurrentLinkedBlockingQueue_AsSlice = Ekit.BQSkel.expected_ConcurrentLinkedBlockingQueue_AsSlice := by rfl
theorem c09a_skel_ConcurrentLinkedBlockingQueue_Dequeue : Ekit.Gen.SkelC09.ConcurrentLinkedBlockingQueue_Dequeue = Ekit.BQSkel.expected_ConcurrentLinkedBlockingQueue_Dequeue := by rfl
theorem c09a_skel_ConcurrentLinkedBlockingQueue_Enqueue : Ekit.Gen.SkelC09.ConcurrentLinkedBlockingQueue_Enqueue = Ekit.BQSkel.expected_ConcurrentLinkedBlockingQueue_Enqueue := by rfl
theorem c09a_skel_ConcurrentLinkedBlockingQueue_Len : Ekit.Gen.SkelC09.ConcurrentLinkedBlockingQueue_Len = Ekit.BQSkel.expected_ConcurrentLinkedBlockingQueue_Len := by rfl
theorem c09a_skel_NewConcurrentArrayBlockingQueue : Ekit.Gen.SkelC09.NewConcurrentArrayBlockingQueue = Ekit.BQSkel.expected_NewConcurrentArrayBlockingQueue := by rfl
theorem c09a_skel_NewConcurrentLinkedBlockingQueue : Ekit.Gen.SkelC09.NewConcurrentLinkedBlockingQueue = Ekit.BQSkel.expected_NewConcurrentLinkedBlockingQueue := by rfl
theorem c09a_skel_cond_broadcast : Ekit.Gen.SkelC09.cond_broadcast = Ekit.BQSkel.expected_cond_broadcast := by rfl
theorem c09a_skel_cond_signalCh : Ekit.Gen.SkelC09.cond_signalCh = Ekit.BQSkel.expected_cond_signalCh := by rfl
