/-
C09 (DelayQueue share) — blocked DelayQueue calls wake when they can proceed; cancellation is prompt
and clean.  The array and linked blocking queues are in the other share of C09.

Property theorems only, on the same transition system as C08 (Ekit/Model/DelayQ.lean), for every
timer discipline, capacity, number of threads and schedule.

What a safety proof can carry of a liveness property, and what is left (see `c09_delay_promptness_partial`):
* no lost wake-up: a parked call that has missed an event holds a superseded generation, and every
  superseded generation is closed or about to be closed by a thread inside `broadcast`, all of whose
  remaining steps are enabled;
* the generation is fetched before the lock is released (the fact the above rests on);
* no stuck state: every thread inside a call has an enabled step unless it waits for the mutex (whose
  holder then has one) or is parked in a select with no ready arm; a Dequeue parked on its timer is
  woken by the passage of time alone;
* cancellation: at every blocking point the `ctx.Done()` arm is enabled once the context has ended,
  and leads to the context-error return with no effect on the queue;
* capacity conserved: at quiescence after ANY history (any pattern of cancellations) the lock is free
  and the queue accepts exactly `cap - len` further elements, the next one parks.
-/
import Ekit.Lemmas.DelayQCap
import Ekit.Model.DelayQSkel
import Ekit.Generated.SkelC09

namespace Ekit.DelayQ
open Ekit.Conc

/-! #### Regenerated sync skeletons (every function of queue/delay_queue.go, incl. `cond`) -/

theorem c09_skel_DelayQueue_Dequeue : Ekit.Gen.SkelC09.DelayQueue_Dequeue = Skel.expected_DelayQueue_Dequeue := by rfl
theorem c09_skel_DelayQueue_Enqueue : Ekit.Gen.SkelC09.DelayQueue_Enqueue = Skel.expected_DelayQueue_Enqueue := by rfl
theorem c09_skel_NewDelayQueue : Ekit.Gen.SkelC09.NewDelayQueue = Skel.expected_NewDelayQueue := by rfl
theorem c09_skel_cond_broadcast : Ekit.Gen.SkelC09.cond_broadcast = Skel.expected_cond_broadcast := by rfl
theorem c09_skel_cond_signalCh : Ekit.Gen.SkelC09.cond_signalCh = Skel.expected_cond_signalCh := by rfl
theorem c09_skel_newCond : Ekit.Gen.SkelC09.newCond = Skel.expected_newCond := by rfl

/-! #### fetch before unlock -/

/-- **fetch_before_unlock**: when `signalCh` is about to release the lock, the caller owns the lock and
    the channel it is going to wait on is the CURRENT generation (so nothing can have been broadcast
    between the caller's look at the queue and its obtaining the channel). -/
theorem c09_fetch_before_unlock (P : Params) (s : State) (t g : Nat) (k : Cont) (hr : (sys P).Reachable s)
    (h : s.pc t = .sUnlock g k) : s.mutex = some t ∧ g = s.cur k.cond := by
  have hi := inv9_reachable P s hr
  exact ⟨hi.lock.1 t (by rw [h]; rfl), hi.gen.fetched_cur t g k h⟩

/-! #### no lost wake-up -/

/-- **no_lost_wakeup_delay**: a Dequeue that is parked (or on its way to park) on generation `g` of the
    enqueue signal — because the queue was empty or its head not yet expired — and that has missed an
    insertion (`enqd` grew since it looked at the queue under the lock: e.g. "a newly enqueued element
    that expires first") holds a superseded generation whose channel is closed (its `select` arm is
    ready), or some thread is inside the `broadcast` that closes it: at `bSwap` (inserted, about to
    install the new generation) or at `bUnlock`/`bClose` of exactly `g`. -/
theorem c09_no_lost_wakeup_delay (P : Params) (s : State) (t g : Nat) (hr : (sys P).Reachable s)
    (hw : (s.pc t).waitsE = some g) (hnew : s.enqd.length ≠ s.seenE t) :
    g ∈ s.closed .enqSig ∨ (∃ u r, s.pc u = .bSwap .enqSig r) ∨ (∃ u, (s.pc u).closing = some (.enqSig, g)) := by
  have hi := inv9_reachable P s hr
  by_cases hg : g = s.cur .enqSig
  · rcases hi.wake.waitE t g hw hg with h | h
    · exact absurd h hnew
    · exact Or.inr (Or.inl h)
  · have hle := hi.gen.held_le t _ g (waitsE_holds hw)
    have hlt : g < s.cur .enqSig := by omega
    rcases hi.gen.covered _ g hlt with h | h
    · exact Or.inl h
    · exact Or.inr (Or.inr h)

/-- the same for an Enqueue parked on a full queue: it cannot miss a removal -/
theorem c09_no_lost_wakeup_full (P : Params) (s : State) (t g : Nat) (hr : (sys P).Reachable s)
    (hw : (s.pc t).waitsD = some g) (hnew : s.deqd.length ≠ s.seenD t) :
    g ∈ s.closed .deqSig ∨ (∃ u r, s.pc u = .bSwap .deqSig r) ∨ (∃ u, (s.pc u).closing = some (.deqSig, g)) := by
  have hi := inv9_reachable P s hr
  by_cases hg : g = s.cur .deqSig
  · rcases hi.wake.waitD t g hw hg with h | h
    · exact absurd h hnew
    · exact Or.inr (Or.inl h)
  · have hle := hi.gen.held_le t _ g (waitsD_holds hw)
    have hlt : g < s.cur .deqSig := by omega
    rcases hi.gen.covered _ g hlt with h | h
    · exact Or.inl h
    · exact Or.inr (Or.inr h)

/-- every superseded generation is closed or has a thread inside `broadcast` about to close it -/
theorem c09_superseded_closed_or_closing (P : Params) (s : State) (c : CondId) (g : Nat)
    (hr : (sys P).Reachable s) (hg : g < s.cur c) :
    g ∈ s.closed c ∨ ∃ u, (s.pc u).closing = some (c, g) :=
  (inv9_reachable P s hr).gen.covered c g hg

/-- a thread inside `broadcast` always has its next step enabled and it goes forward:
    swap → unlock → close (which closes exactly the old generation) → return -/
theorem c09_broadcaster_progress (P : Params) (s : State) (u : Nat) (c : CondId) (r : Ret)
    (hr : (sys P).Reachable s) :
    (s.pc u = .bSwap c r → ∃ s', step P s (.swap u) = some s' ∧ s'.pc u = .bUnlock c (s.cur c) r) ∧
    (∀ g, s.pc u = .bUnlock c g r → ∃ s', step P s (.unlock u) = some s' ∧ s'.pc u = .bClose c g r) ∧
    (∀ g, s.pc u = .bClose c g r → ∃ s', step P s (.close u) = some s' ∧ s'.pc u = .ret r ∧ g ∈ s'.closed c) := by
  have hi := inv9_reachable P s hr
  refine ⟨fun h => ?_, fun g h => ?_, fun g h => ?_⟩
  · simp only [step, h]; exact ⟨_, rfl, by simp⟩
  · have hm := hi.lock.1 u (by rw [h]; rfl)
    simp only [step, h, hm]; exact ⟨_, rfl, by simp⟩
  · have hc := (hi.gen.closing_lt u c g (by rw [h]; rfl)).2
    simp only [step, h, hc, if_false]; exact ⟨_, rfl, by simp, by simp⟩

/-- once the channel is closed the signal arm of each of the three waits is enabled and leads back to
    the head of the loop (where the queue is examined again under the lock) -/
theorem c09_signal_arm_enabled (P : Params) (s : State) (t g : Nat) :
    (∀ x, s.pc t = .eWait x g → g ∈ s.closed .deqSig → ∃ s', step P s (.selSig t) = some s' ∧ s'.pc t = .eTop x) ∧
    (s.pc t = .dWaitE g → g ∈ s.closed .enqSig → ∃ s', step P s (.selSig t) = some s' ∧ s'.pc t = .dTop) ∧
    (s.pc t = .dWaitT g → g ∈ s.closed .enqSig → ∃ s', step P s (.selSig t) = some s' ∧ s'.pc t = .dTop) := by
  refine ⟨fun x h hg => ?_, fun h hg => ?_, fun h hg => ?_⟩ <;>
    (simp only [step, h, hg, if_true]; exact ⟨_, rfl, by simp [State.setPc]⟩)

/-! #### no stuck state -/

/-- **enabled_when_possible**: a thread inside a call has an enabled step of its own, unless it is
    `blocked`: waiting for the mutex while somebody holds it, or parked in a select none of whose
    arms (ctx, closed signal, buffered tick) is ready.  In particular no reachable state panics
    (Unlock of an unlocked mutex, close of a closed channel are disabled steps of the model). -/
theorem c09_enabled_or_blocked (P : Params) (s : State) (t : Nat) (hr : (sys P).Reachable s)
    (hpc : s.pc t ≠ .idle) : blocked s t ∨ ∃ l, l.actor = some t ∧ (step P s l).isSome = true :=
  enabled_or_blocked P s t (inv9_reachable P s hr) hpc

/-- the holder of the mutex is never blocked (critical sections contain no wait), so a thread waiting
    for the mutex waits for a thread that can move -/
theorem c09_lock_holder_runs (P : Params) (s : State) (u : Nat) (hr : (sys P).Reachable s)
    (hm : s.mutex = some u) : ¬ blocked s u ∧ ∃ l, l.actor = some u ∧ (step P s l).isSome = true := by
  have hi := inv9_reachable P s hr
  have hl := hi.lock.2 u hm
  have hnb : ¬ blocked s u := by
    intro hb
    unfold blocked at hb
    cases hp : s.pc u <;> rw [hp] at hb hl <;> simp [Pc.locked] at hb hl
  have hne : s.pc u ≠ .idle := by intro h; rw [h] at hl; cases hl
  rcases enabled_or_blocked P s u hi hne with h | h
  · exact absurd h hnb
  · exact ⟨hnb, h⟩

/-- a Dequeue parked in the three-way select is woken by the passage of time alone: a tick is already
    buffered, or the timer is armed for some instant `w` and after `tick`ing to `w` the runtime's
    `fire` and then the timer arm are enabled; the call then re-locks and re-examines the head. -/
theorem c09_timer_waiter_wakes (P : Params) (s : State) (t g : Nat) (hr : (sys P).Reachable s)
    (h : s.pc t = .dWaitT g) :
    (∃ s', step P s (.selTimer t) = some s' ∧ s'.pc t = .dRelock) ∨
    (∃ n s', (sys P).toSystem.run s [.tick n, .fire t, .selTimer t] = some s' ∧ s'.pc t = .dRelock) := by
  have hi := inv9_reachable P s hr
  have hl := hi.tmr t g h
  cases ht : s.timer t with
  | none => rw [ht] at hl; cases hl
  | some tm =>
    obtain ⟨a, b⟩ := tm
    cases a with
    | some w =>
      right
      refine ⟨w - s.now, ?_⟩
      have hw : w ≤ s.now + (w - s.now) := by omega
      simp [System.run, sys, step, ht, hw, h]
    | none =>
      left
      rw [ht] at hl
      have hb : b = true := by simpa [timerLive] using hl
      subst hb
      simp [step, ht, h]

/-! #### cancellation -/

/-- **cancel_enabled**: once the context of a call has ended, at each of its blocking points (the two
    loop heads and the three selects) the `ctx.Done()` arm is enabled and leads straight to the
    context-error return; the queue, the lock and the generations are untouched by that step.
    (At every other program point the call has an unconditional step or waits for the mutex, see
    `c09_enabled_or_blocked` / `c09_lock_holder_runs`; `c08_ctx_err_no_effect` shows such a call never
    modified the queue.) -/
theorem c09_cancel_enabled (P : Params) (s : State) (t : Nat) (hc : s.ctxDone t = true) :
    (∀ x, s.pc t = .eTop x → ∃ s', step P s (.ctxErr t) = some s' ∧ s'.pc t = .ret .enqCtx ∧ s'.q = s.q ∧ s'.mutex = s.mutex) ∧
    (s.pc t = .dTop → ∃ s', step P s (.ctxErr t) = some s' ∧ s'.pc t = .ret .deqCtx ∧ s'.q = s.q ∧ s'.mutex = s.mutex) ∧
    (∀ x g, s.pc t = .eWait x g → ∃ s', step P s (.selCtx t) = some s' ∧ s'.pc t = .ret .enqCtx ∧ s'.q = s.q ∧ s'.mutex = s.mutex) ∧
    (∀ g, s.pc t = .dWaitE g → ∃ s', step P s (.selCtx t) = some s' ∧ s'.pc t = .ret .deqCtx ∧ s'.q = s.q ∧ s'.mutex = s.mutex) ∧
    (∀ g, s.pc t = .dWaitT g → ∃ s', step P s (.selCtx t) = some s' ∧ s'.pc t = .ret .deqCtx ∧ s'.q = s.q ∧ s'.mutex = s.mutex) := by
  refine ⟨fun x h => ?_, fun h => ?_, fun x g h => ?_, fun g h => ?_, fun g h => ?_⟩ <;>
    (simp only [step, h, hc, if_true]; exact ⟨_, rfl, by simp [State.setPc], rfl, rfl⟩)

/-- a parked call is never the holder of the mutex: cancellation cannot leak the lock -/
theorem c09_parked_not_holder (P : Params) (s : State) (t : Nat) (hr : (sys P).Reachable s)
    (hb : blocked s t) : s.mutex ≠ some t := by
  intro hm
  exact (c09_lock_holder_runs P s t hr hm).1 hb

/-! #### capacity conserved -/

/-- **capacity_conserved**: in every quiescent reachable state — whatever calls were cancelled, timed
    out or completed before — the lock is free, the length is within the capacity, and for any `xs` of
    fresh elements that fit (`cap = 0` or `len + |xs| ≤ cap`) the Enqueues of all of `xs` complete without
    blocking, leaving a quiescent state; and if the queue is full the next Enqueue parks on the
    current generation of the dequeue signal without touching the queue. -/
theorem c09_capacity_conserved (P : Params) (s : State) (t : Nat) (hr : (sys P).Reachable s) (hq : quiescent s) :
    s.mutex = none ∧ (0 < P.cap → s.q.length ≤ P.cap) ∧
    (∀ xs : List Elem, xs.Nodup → (∀ x ∈ xs, x ∉ s.issued) → (P.cap = 0 ∨ s.q.length + xs.length ≤ P.cap) →
      ∃ s', (sys P).toSystem.run s (fillRun t xs) = some s' ∧ s'.q = xs.reverse ++ s.q ∧ quiescent s') ∧
    (∀ x, x ∉ s.issued → isFull P s.q = true →
      ∃ s', (sys P).toSystem.run s [.invEnq t x, .ctxOk t, .lock t, .enq t, .fetch t, .unlock t] = some s' ∧
        s'.q = s.q ∧ s'.pc t = .eWait x (s.cur .deqSig) ∧ s'.mutex = none) := by
  have hi := inv9_reachable P s hr
  refine ⟨quiescent_mutex P s hi hq, hi.cap, fun xs hnd hf hc => ?_, fun x hx hfull => ?_⟩
  · obtain ⟨s', h1, h2, h3, _⟩ := fill_quiescent P t xs s hr hq hnd hf hc
    exact ⟨s', h1, h2, h3⟩
  · exact soloEnq_full_parks P s hi hq t x hx hfull

/-- … and delivers: at quiescence an expired minimal element is handed out by a solo Dequeue -/
theorem c09_delivers_at_quiescence (P : Params) (s : State) (t : Nat) (x : Elem) (hr : (sys P).Reachable s)
    (hq : quiescent s) (hmin : isMin s.q x = true) (hexp : x.dl ≤ s.now) :
    ∃ s', (sys P).toSystem.run s (soloDeqOk t x) = some s' ∧ s'.q = s.q.erase x ∧ quiescent s' ∧
      s'.retd = x :: s.retd :=
  soloDeq_quiescent P s (inv9_reachable P s hr) hq t x hmin hexp

/-! #### What is NOT proved (the `partial` part of C09 for the DelayQueue)

Full statement: "a blocked call completes AS SOON AS it becomes possible / returns the context's error
PROMPTLY".  Proved above: the safety core — no lost wake-up, enabledness of the woken thread and of
everybody it may wait for, enabledness of the ctx arm, wake-up of a timer waiter by time alone.
Not expressible in this framework and therefore not proved: wall-clock promptness, scheduler
fairness (that an enabled thread is eventually scheduled), accuracy of `time.Timer`.  A woken Dequeue
may legitimately loop (another consumer took the element), so completion under interference needs
fairness between consumers; completion WITHOUT interference (the woken call runs to its return in a
fixed number of its own steps, a futile wake-up re-parks on a fresh un-closed generation, one `close`
wakes all waiters) is proved in Ekit/Props/C09bRev.lean.
The theorem below packages what IS proved for the parked Dequeue under the name the design uses. -/
theorem c09_delay_promptness_partial (P : Params) (s : State) (t g : Nat) (hr : (sys P).Reachable s)
    (hw : (s.pc t).waitsE = some g) :
    (s.enqd.length ≠ s.seenE t →
      g ∈ s.closed .enqSig ∨ (∃ u r, s.pc u = .bSwap .enqSig r) ∨ (∃ u, (s.pc u).closing = some (.enqSig, g))) ∧
    (s.ctxDone t = true → ∀ g', (s.pc t = .dWaitE g' ∨ s.pc t = .dWaitT g') → (step P s (.selCtx t)).isSome = true) := by
  refine ⟨c09_no_lost_wakeup_delay P s t g hr hw, fun hc g' h => ?_⟩
  rcases h with h | h <;> simp [step, h, hc, State.setPc]

/-! #### Non-vacuity -/

/-- the wake-up case of the property text: consumer 2 parks on a far element (deadline 100); producer 1
    inserts a sooner one (deadline 7) — consumer 2 has missed an insertion, holds generation 1 < 2, the
    channel is closed, its signal arm is enabled, and it then gets the sooner element at 7. -/
example : ((sys ⟨.sync, 0⟩).toSystem.run init (soloEnqOk 1 ⟨1, 100⟩ ++
      [.invDeq 2, .ctxOk 2, .lock 2, .peek 2 (some ⟨1, 100⟩), .fetch 2, .unlock 2, .arm 2] ++
      soloEnqOk 1 ⟨2, 7⟩)).map (fun s => (s.pc 2, s.enqd.length, s.seenE 2, s.cur .enqSig, s.closed .enqSig))
    = some (.dWaitT 1, 2, 1, 2, [1, 0]) := by decide
example : ((sys ⟨.sync, 0⟩).toSystem.run init (soloEnqOk 1 ⟨1, 100⟩ ++
      [.invDeq 2, .ctxOk 2, .lock 2, .peek 2 (some ⟨1, 100⟩), .fetch 2, .unlock 2, .arm 2] ++
      soloEnqOk 1 ⟨2, 7⟩ ++ [.selSig 2, .ctxOk 2, .lock 2, .peek 2 (some ⟨2, 7⟩), .fetch 2, .unlock 2, .arm 2,
        .tick 7, .fire 2, .selTimer 2, .lock 2, .repeek 2 (some ⟨2, 7⟩), .pop 2 (some ⟨2, 7⟩), .swap 2, .unlock 2,
        .close 2])).map (fun s => (s.pc 2, s.now, s.q))
    = some (.ret (.deqOk ⟨2, 7⟩), 7, [⟨1, 100⟩]) := by decide
/-- a cancelled Enqueue on a full queue returns the context error and leaves a quiescent, intact queue -/
example : ((sys ⟨.async, 1⟩).toSystem.run init (soloEnqOk 1 ⟨1, 100⟩ ++
      [.invEnq 2 ⟨2, 5⟩, .ctxOk 2, .lock 2, .enq 2, .fetch 2, .unlock 2, .cancel 2, .selCtx 2, .ret 2 .enqCtx])).map
      (fun s => (s.pc 2, s.q, s.mutex, s.eff 2))
    = some (.idle, [⟨1, 100⟩], none, false) := by decide

end Ekit.DelayQ
