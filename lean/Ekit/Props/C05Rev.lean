/-
C05 — review additions (priority queue part; the skip-list part is at the end of this file).

`Props/C05.lean` states most facts for ONE call on a well-formed queue (`WF`).  The property speaks
about every instant of every history from the constructor, about the multiset that went in and came
out, and about full drains.  This file lifts the call-level theorems:

* `c05_pq_run_length`            one result per call (the `zip` in `c05_pq_run_refines` drops nothing)
* `c05_pq_reachable_inv`         every state after every history from `NewPriorityQueue(capacity)`, every
                                 growth choice: well formed, capacity field fixed, `Len()` = number of
                                 elements, `0 ≤ Len() ≤ capacity` when bounded, `isFull`/`isEmpty` exactly when
* `c05_pq_reachable_results`     in every reachable state: Enqueue = ErrOutOfCapacity iff bounded and holding
                                 `capacity` elements and otherwise succeeds; Dequeue/Peek = ErrEmptyQueue iff
                                 nothing held and otherwise return a member that is a minimum
* `c05_pq_no_panic_run`          no call of any history from the constructor panics
* `c05_pq_multiset_conserved`    "returns exactly the multiset that was enqueued": in every history,
                                 initial contents + successfully enqueued = dequeued + what is still held
* `c05_pq_drain_sorted`          draining a queue returns its contents in ascending order, then it is empty
* `c05_pq_heapsort`              constructor, enqueue `ts` (fits), drain: the dequeued sequence is the sorted `ts`
* `c05_pq_slice_fits_run`        len ≤ cap of the backing array along every history whose growth choices
                                 cover the appended element
-/
import Ekit.Props.C05

namespace Ekit.Heap
open Ekit.Cmp Ekit.Go

/-! ### histories -/

/-- one result per call: the `zip` of calls and results in `c05_pq_run_refines` /
    `c05_pq_history_from_new` loses nothing (guards those theorems against vacuity). -/
theorem c05_pq_run_length (cmp : Cmp) (q : PQ) (hist : List (Nat × Op)) :
    (run cmp q hist).2.length = hist.length := by
  induction hist generalizing q with
  | nil => rfl
  | cons x rest ih => obtain ⟨g, op⟩ := x; simp [run, ih]

theorem run_append (cmp : Cmp) (q : PQ) (h1 h2 : List (Nat × Op)) :
    run cmp q (h1 ++ h2) =
      ((run cmp (run cmp q h1).1 h2).1, (run cmp q h1).2 ++ (run cmp (run cmp q h1).1 h2).2) := by
  induction h1 generalizing q with
  | nil => rfl
  | cons x rest ih => obtain ⟨g, op⟩ := x; simp [run, ih]

/-- well-formedness and the capacity field along a whole history -/
theorem run_wf_cap {cmp : Cmp} (hc : Lawful cmp) (hist : List (Nat × Op)) {q : PQ} (hq : WF cmp q) :
    WF cmp (run cmp q hist).1 ∧ (run cmp q hist).1.capacity = q.capacity := by
  induction hist generalizing q with
  | nil => exact ⟨hq, rfl⟩
  | cons x rest ih =>
    obtain ⟨g, op⟩ := x
    obtain ⟨_, _, _, h3, h4⟩ := c05_pq_step_refines hc hq (List.Perm.refl _) g op
    obtain ⟨i1, i2⟩ := ih h3
    exact ⟨i1, i2.trans h4⟩

theorem len_eq_contents {cmp : Cmp} {q : PQ} (hq : WF cmp q) : q.len = (q.contents.length : Int) :=
  (c05_pq_len_le_cap hq).1

theorem isEmpty_iff {cmp : Cmp} {q : PQ} (hq : WF cmp q) : q.isEmpty = true ↔ q.contents = [] := by
  have := hq.slot0
  simp only [PQ.isEmpty, PQ.contents, decide_eq_true_eq, List.drop_eq_nil_iff]; omega

theorem isFull_iff {cmp : Cmp} {q : PQ} (hq : WF cmp q) :
    q.isFull = true ↔ (0 < q.capacity ∧ (q.contents.length : Int) = q.capacity) := by
  have := hq.slot0
  simp only [PQ.isFull, PQ.contents, Bool.and_eq_true, decide_eq_true_eq, beq_iff_eq, List.length_drop]
  omega

/-- **Every instant of every history from the constructor** (every requested capacity, every
    sequence of calls, every growth choice of the runtime — the state after a prefix of a history is
    the state after a history): the queue is well formed, its capacity is the constructor's,
    `Len()` is the number of elements held and is never negative, a bounded queue NEVER holds more
    than its capacity, and `isFull` / `isEmpty` hold exactly when it holds `capacity` / zero elements. -/
theorem c05_pq_reachable_inv {cmp : Cmp} (hc : Lawful cmp) (capacity : Int) (hist : List (Nat × Op)) :
    WF cmp (run cmp (PQ.new capacity) hist).1 ∧
    (run cmp (PQ.new capacity) hist).1.capacity = Spec.normCap capacity ∧
    (run cmp (PQ.new capacity) hist).1.len = ((run cmp (PQ.new capacity) hist).1.contents.length : Int) ∧
    (0 < Spec.normCap capacity →
      ((run cmp (PQ.new capacity) hist).1.contents.length : Int) ≤ Spec.normCap capacity) ∧
    ((run cmp (PQ.new capacity) hist).1.isFull = true ↔
      (0 < Spec.normCap capacity ∧
        ((run cmp (PQ.new capacity) hist).1.contents.length : Int) = Spec.normCap capacity)) ∧
    ((run cmp (PQ.new capacity) hist).1.isEmpty = true ↔ (run cmp (PQ.new capacity) hist).1.contents = []) := by
  obtain ⟨hwf, hcap⟩ := run_wf_cap hc hist (c05_pq_new_wf cmp capacity)
  rw [(c05_pq_new_capacity capacity).1] at hcap
  obtain ⟨h1, h2⟩ := c05_pq_len_le_cap hwf
  refine ⟨hwf, hcap, h1, ?_, ?_, isEmpty_iff hwf⟩
  · intro hpos
    rw [hcap] at h2
    have := h2 hpos
    omega
  · rw [isFull_iff hwf, hcap]

/-- **The results in every reachable state**: after any history from the constructor, with
    `q` the state reached and `n` the number of elements it holds,
    * Enqueue fails with ErrOutOfCapacity iff the queue is bounded and `n = capacity`, and otherwise
      succeeds (those are the only two results) and then holds the old elements plus the new one;
    * Dequeue and Peek fail with ErrEmptyQueue iff `n = 0`, and otherwise return THE SAME element
      (also among ties), which is held and is `≤` every element held; Dequeue removes exactly that
      element, Peek nothing. -/
theorem c05_pq_reachable_results {cmp : Cmp} (hc : Lawful cmp) (capacity : Int) (hist : List (Nat × Op))
    (grow : Nat) :
    (∀ t, ((step cmp (run cmp (PQ.new capacity) hist).1 grow (.enqueue t)).2 = .err errCap ↔
            (0 < Spec.normCap capacity ∧
              ((run cmp (PQ.new capacity) hist).1.contents.length : Int) = Spec.normCap capacity)) ∧
          ((step cmp (run cmp (PQ.new capacity) hist).1 grow (.enqueue t)).2 ≠ .err errCap →
            (step cmp (run cmp (PQ.new capacity) hist).1 grow (.enqueue t)).2 = .ok .unit ∧
            (step cmp (run cmp (PQ.new capacity) hist).1 grow (.enqueue t)).1.contents.Perm
              (t :: (run cmp (PQ.new capacity) hist).1.contents))) ∧
    ((step cmp (run cmp (PQ.new capacity) hist).1 grow .dequeue).2 = .err errEmpty ↔
      (run cmp (PQ.new capacity) hist).1.contents = []) ∧
    ((step cmp (run cmp (PQ.new capacity) hist).1 grow .peek).2 = .err errEmpty ↔
      (run cmp (PQ.new capacity) hist).1.contents = []) ∧
    ((run cmp (PQ.new capacity) hist).1.contents ≠ [] →
      ∃ v, (step cmp (run cmp (PQ.new capacity) hist).1 grow .dequeue).2 = .ok (.val v) ∧
        (step cmp (run cmp (PQ.new capacity) hist).1 grow .peek) =
          ((run cmp (PQ.new capacity) hist).1, .ok (.val v)) ∧
        v ∈ (run cmp (PQ.new capacity) hist).1.contents ∧
        (∀ x ∈ (run cmp (PQ.new capacity) hist).1.contents, cmp v x ≤ 0) ∧
        (run cmp (PQ.new capacity) hist).1.contents.Perm
          (v :: (step cmp (run cmp (PQ.new capacity) hist).1 grow .dequeue).1.contents)) := by
  obtain ⟨hwf, hcap, -, -, hfull, hempty⟩ := c05_pq_reachable_inv hc capacity hist
  generalize (run cmp (PQ.new capacity) hist).1 = q at *
  refine ⟨fun t => ⟨?_, ?_⟩, (c05_pq_empty_iff hc hwf grow).1, (c05_pq_empty_iff hc hwf grow).2.1, ?_⟩
  · rw [(c05_pq_full_iff cmp q grow t).1, hcap]
  · intro hne
    cases hf : q.isFull with
    | true => exact absurd (by simp [step, hf]) hne
    | false =>
      obtain ⟨q', h1, _, h3, _⟩ := enqueue_ok hc hwf grow t hf
      rw [h1]; exact ⟨rfl, h3⟩
  · intro hne
    have he : q.isEmpty = false := by
      cases h : q.isEmpty with
      | true => exact absurd (hempty.mp h) hne
      | false => rfl
    obtain ⟨pop, q', h1, _, h3, h4, _, _, h7, _⟩ := dequeue_ok hc hwf grow he
    have hpk : step cmp q grow .peek = (q, .ok (.val pop)) := by simp [step, he, h7]
    exact ⟨pop, by rw [h1], hpk, h3.mem_iff.mpr List.mem_cons_self, h4, by rw [h1]; exact h3⟩

/-- **No call of any history from the constructor panics** (sift loops in range and within their
    fuel, no division by zero / negative `make` in the shrink), for every growth choice. -/
theorem c05_pq_no_panic_run {cmp : Cmp} (hc : Lawful cmp) (hist : List (Nat × Op)) {q : PQ} (hq : WF cmp q) :
    ∀ o ∈ (run cmp q hist).2, o.isPanic = false := by
  induction hist generalizing q with
  | nil => intro o ho; cases ho
  | cons x rest ih =>
    obtain ⟨g, op⟩ := x
    intro o ho
    simp only [run, List.mem_cons] at ho
    rcases ho with rfl | ho
    · exact c05_pq_no_panic hc hq g op
    · exact ih (c05_pq_step_wf hc hq g op) o ho

theorem c05_pq_no_panic_from_new {cmp : Cmp} (hc : Lawful cmp) (capacity : Int) (hist : List (Nat × Op)) :
    ∀ o ∈ (run cmp (PQ.new capacity) hist).2, o.isPanic = false :=
  c05_pq_no_panic_run hc hist (c05_pq_new_wf cmp capacity)

/-! ### "returns exactly the multiset that was enqueued" -/

/-- the element a (call, result) pair put into the queue -/
def enqOf : Op × Out → Option Int
  | (.enqueue t, .ok .unit) => some t
  | _ => none

/-- the element a (call, result) pair took out of the queue -/
def deqOf : Op × Out → Option Int
  | (.dequeue, .ok (.val v)) => some v
  | _ => none

/-- the successfully enqueued elements of a trace, in call order -/
def enqueued (tr : List (Op × Out)) : List Int := tr.filterMap enqOf
/-- the dequeued elements of a trace, in call order -/
def dequeued (tr : List (Op × Out)) : List Int := tr.filterMap deqOf

/-- the trace of a history: calls paired with their results -/
def trace (cmp : Cmp) (q : PQ) (hist : List (Nat × Op)) : List (Op × Out) :=
  (hist.map (·.2)).zip (run cmp q hist).2

theorem trace_cons (cmp : Cmp) (q : PQ) (g : Nat) (op : Op) (rest : List (Nat × Op)) :
    trace cmp q ((g, op) :: rest) = (op, (step cmp q g op).2) :: trace cmp (step cmp q g op).1 rest := by
  simp [trace, run]

theorem trace_length (cmp : Cmp) (q : PQ) (hist : List (Nat × Op)) : (trace cmp q hist).length = hist.length := by
  simp [trace, c05_pq_run_length]

/-- **Conservation of the multiset along every history** (any calls, any growth choices): what the
    queue held at the start plus everything successfully enqueued is, as a multiset, everything
    dequeued plus what it still holds.  Nothing is lost, duplicated or invented — across any amount
    of growth and shrinking of the backing array. -/
theorem c05_pq_multiset_conserved {cmp : Cmp} (hc : Lawful cmp) (hist : List (Nat × Op)) {q : PQ}
    (hq : WF cmp q) :
    (q.contents ++ enqueued (trace cmp q hist)).Perm
      (dequeued (trace cmp q hist) ++ (run cmp q hist).1.contents) := by
  induction hist generalizing q with
  | nil => simp [trace, enqueued, dequeued, run]
  | cons x rest ih =>
    obtain ⟨g, op⟩ := x
    have hwf' := c05_pq_step_wf hc hq g op
    have ih' := ih hwf'
    rw [trace_cons]
    simp only [run, enqueued, dequeued, List.filterMap_cons] at ih' ⊢
    cases op with
    | enqueue t =>
      cases hf : q.isFull with
      | true =>
        have hst : step cmp q g (.enqueue t) = (q, .err errCap) := by simp [step, hf]
        rw [hst] at ih' ⊢
        simpa [enqOf, deqOf] using ih'
      | false =>
        obtain ⟨q', h1, _, h3, _⟩ := enqueue_ok hc hq g t hf
        rw [h1] at ih' ⊢
        simp only [enqOf, deqOf]
        refine List.Perm.trans ?_ ih'
        have : (q.contents ++ t :: List.filterMap enqOf (trace cmp q' rest)).Perm
            ((t :: q.contents) ++ List.filterMap enqOf (trace cmp q' rest)) := List.perm_middle
        exact this.trans (List.Perm.append_right _ h3.symm)
    | dequeue =>
      cases he : q.isEmpty with
      | true =>
        have hst : step cmp q g .dequeue = (q, .err errEmpty) := by simp [step, he]
        rw [hst] at ih' ⊢
        simpa [enqOf, deqOf] using ih'
      | false =>
        obtain ⟨pop, q', h1, _, h3, _⟩ := dequeue_ok hc hq g he
        rw [h1] at ih' ⊢
        simp only [enqOf, deqOf, List.cons_append]
        exact (List.Perm.append_right _ h3).trans (List.Perm.cons pop ih')
    | peek =>
      have hst : (step cmp q g .peek).1 = q := by simp only [step]; split <;> (try split) <;> rfl
      rw [hst] at ih'
      have e1 : enqOf (Op.peek, (step cmp q g .peek).2) = none := rfl
      have e2 : deqOf (Op.peek, (step cmp q g .peek).2) = none := rfl
      rw [e1, e2]; simp only []; rw [hst]; exact ih'
    | len => exact ih'
    | cap => exact ih'
    | boundless => exact ih'

/-- … from the constructor: everything successfully enqueued = everything dequeued + what is held. -/
theorem c05_pq_multiset_from_new {cmp : Cmp} (hc : Lawful cmp) (capacity : Int) (hist : List (Nat × Op)) :
    (enqueued (trace cmp (PQ.new capacity) hist)).Perm
      (dequeued (trace cmp (PQ.new capacity) hist) ++ (run cmp (PQ.new capacity) hist).1.contents) := by
  have := c05_pq_multiset_conserved hc hist (c05_pq_new_wf cmp capacity)
  rw [(c05_pq_new_capacity capacity).2.1] at this
  simpa using this

/-! ### full drains come out sorted -/

/-- **Draining**: `n` Dequeues on a queue holding `n` elements (any growth/shrink choices) all
    succeed, return the elements held in ascending order under `cmp` — i.e. the sorted multiset — and
    leave the queue empty (so the next Dequeue/Peek is ErrEmptyQueue by `c05_pq_empty_iff`). -/
theorem c05_pq_drain_sorted {cmp : Cmp} (hc : Lawful cmp) (grows : List Nat) {q : PQ} (hq : WF cmp q)
    (hn : grows.length = q.contents.length) :
    ∃ vs : List Int,
      (run cmp q (grows.map fun g => (g, Op.dequeue))).2 = vs.map (fun v => Outcome.ok (Ret.val v)) ∧
      vs.Perm q.contents ∧ vs.Pairwise (fun a b => cmp a b ≤ 0) ∧
      (run cmp q (grows.map fun g => (g, Op.dequeue))).1.contents = [] ∧
      WF cmp (run cmp q (grows.map fun g => (g, Op.dequeue))).1 ∧
      (run cmp q (grows.map fun g => (g, Op.dequeue))).1.capacity = q.capacity := by
  induction grows generalizing q with
  | nil =>
    have : q.contents = [] := List.eq_nil_of_length_eq_zero (by simpa using hn.symm)
    exact ⟨[], rfl, by rw [this], List.Pairwise.nil, this, hq, rfl⟩
  | cons g gs ih =>
    have he : q.isEmpty = false := by
      cases h : q.isEmpty with
      | true => rw [(isEmpty_iff hq).mp h] at hn; simp at hn
      | false => rfl
    obtain ⟨pop, q', h1, h2, h3, h4, h5, _⟩ := dequeue_ok hc hq g he
    have hlen : gs.length = q'.contents.length := by
      have := h3.length_eq; simp at this hn; omega
    obtain ⟨vs, i1, i2, i3, i4, i5, i6⟩ := ih h2 hlen
    refine ⟨pop :: vs, ?_, ?_, ?_, ?_, ?_, ?_⟩
    · simp only [List.map_cons, run, h1, i1]
    · exact (List.Perm.cons pop i2).trans h3.symm
    · refine List.pairwise_cons.mpr ⟨fun y hy => ?_, i3⟩
      exact h4 y (h3.mem_iff.mpr (List.mem_cons_of_mem _ (i2.mem_iff.mp hy)))
    · simp only [List.map_cons, run, h1]; exact i4
    · simp only [List.map_cons, run, h1]; exact i5
    · simp only [List.map_cons, run, h1]; rw [i6, h5]

/-- a run of Enqueues that fit all succeed and add exactly their elements -/
theorem enqueue_all {cmp : Cmp} (hc : Lawful cmp) (ets : List (Nat × Int)) {q : PQ} (hq : WF cmp q)
    (hfit : q.capacity ≤ 0 ∨ (q.contents.length : Int) + ets.length ≤ q.capacity) :
    (run cmp q (ets.map fun p => (p.1, Op.enqueue p.2))).2 = List.replicate ets.length (.ok .unit) ∧
    (run cmp q (ets.map fun p => (p.1, Op.enqueue p.2))).1.contents.Perm (ets.map (·.2) ++ q.contents) ∧
    WF cmp (run cmp q (ets.map fun p => (p.1, Op.enqueue p.2))).1 ∧
    (run cmp q (ets.map fun p => (p.1, Op.enqueue p.2))).1.capacity = q.capacity := by
  induction ets generalizing q with
  | nil => exact ⟨rfl, List.Perm.refl _, hq, rfl⟩
  | cons e es ih =>
    obtain ⟨g, t⟩ := e
    have hf : q.isFull = false := by
      cases h : q.isFull with
      | true =>
        have := (isFull_iff hq).mp h
        simp only [List.length_cons] at hfit
        omega
      | false => rfl
    obtain ⟨q', h1, h2, h3, h4, _⟩ := enqueue_ok hc hq g t hf
    have hfit' : q'.capacity ≤ 0 ∨ (q'.contents.length : Int) + es.length ≤ q'.capacity := by
      rw [h4]
      have := h3.length_eq
      simp only [List.length_cons] at this hfit
      omega
    obtain ⟨i1, i2, i3, i4⟩ := ih h2 hfit'
    simp only [List.map_cons, run, h1, List.length_cons, List.replicate_succ]
    refine ⟨by rw [i1], ?_, i3, by rw [i4, h4]⟩
    refine i2.trans ?_
    have : (List.map (·.2) es ++ q'.contents).Perm (List.map (·.2) es ++ t :: q.contents) :=
      List.Perm.append_left _ h3
    exact this.trans List.perm_middle

/-- **Heap sort through the public calls, from the constructor**: create a queue (unbounded, or
    bounded with room for all of `ts`), Enqueue the elements `ts` in any order, then Dequeue
    `|ts|` times — for every growth choice of the runtime on every call: every call succeeds, and the
    sequence of dequeued values is `ts` as a multiset, in ascending order under the comparator
    ("always dequeues a minimum, returns exactly the multiset that was enqueued"); the queue ends empty. -/
theorem c05_pq_heapsort {cmp : Cmp} (hc : Lawful cmp) (capacity : Int) (ets : List (Nat × Int))
    (grows : List Nat) (hcap : capacity < 1 ∨ (ets.length : Int) ≤ capacity) (hn : grows.length = ets.length) :
    ∃ vs : List Int,
      (run cmp (PQ.new capacity)
        ((ets.map fun p => (p.1, Op.enqueue p.2)) ++ grows.map fun g => (g, Op.dequeue))).2 =
        List.replicate ets.length (.ok .unit) ++ vs.map (fun v => Outcome.ok (Ret.val v)) ∧
      vs.Perm (ets.map (·.2)) ∧ vs.Pairwise (fun a b => cmp a b ≤ 0) ∧
      (run cmp (PQ.new capacity)
        ((ets.map fun p => (p.1, Op.enqueue p.2)) ++ grows.map fun g => (g, Op.dequeue))).1.contents = [] := by
  have hnew := c05_pq_new_capacity capacity
  have hfit : (PQ.new capacity).capacity ≤ 0 ∨
      ((PQ.new capacity).contents.length : Int) + ets.length ≤ (PQ.new capacity).capacity := by
    rw [hnew.1, hnew.2.1]
    unfold Spec.normCap
    rcases hcap with h | h
    · left; simp [h]
    · by_cases h1 : capacity < 1
      · left; simp [h1]
      · right; simp [h1]; omega
  obtain ⟨e1, e2, e3, _⟩ := enqueue_all hc ets (c05_pq_new_wf cmp capacity) hfit
  rw [hnew.2.1, List.append_nil] at e2
  have hlen : grows.length =
      (run cmp (PQ.new capacity) (ets.map fun p => (p.1, Op.enqueue p.2))).1.contents.length := by
    rw [e2.length_eq, List.length_map, hn]
  obtain ⟨vs, d1, d2, d3, d4, _⟩ := c05_pq_drain_sorted hc grows e3 hlen
  refine ⟨vs, ?_, d2.trans e2, d3, ?_⟩
  · rw [run_append]; simp only []; rw [e1, d1]
  · rw [run_append]; exact d4

/-! ### the backing array along histories -/

/-- the runtime's growth choices of a history cover the appended element on every call
    (`cap ≥ len` of the slice `append` returns: the contract the driver checks on every line) -/
def GrowOK (cmp : Cmp) : PQ → List (Nat × Op) → Prop
  | _, [] => True
  | q, (g, op) :: rest => q.data.vals.length + 1 ≤ g ∧ GrowOK cmp (step cmp q g op).1 rest

/-- `len(data) ≤ cap(data)` along every history from the constructor whose growth choices are
    legal: neither the in-place append nor the shrink-reallocation ever truncates the heap array. -/
theorem c05_pq_slice_fits_run {cmp : Cmp} (hc : Lawful cmp) (hist : List (Nat × Op)) {q : PQ} (hq : WF cmp q)
    (hfit : q.data.vals.length ≤ q.data.cap) (hg : GrowOK cmp q hist) :
    (run cmp q hist).1.data.vals.length ≤ (run cmp q hist).1.data.cap := by
  induction hist generalizing q with
  | nil => exact hfit
  | cons x rest ih =>
    obtain ⟨g, op⟩ := x
    obtain ⟨hg1, hg2⟩ := hg
    exact ih (c05_pq_step_wf hc hq g op) (c05_pq_slice_fits hc hq g op hfit hg1) hg2

theorem c05_pq_slice_fits_from_new {cmp : Cmp} (hc : Lawful cmp) (capacity : Int) (hist : List (Nat × Op))
    (hg : GrowOK cmp (PQ.new capacity) hist) :
    (run cmp (PQ.new capacity) hist).1.data.vals.length ≤ (run cmp (PQ.new capacity) hist).1.data.cap := by
  refine c05_pq_slice_fits_run hc hist (c05_pq_new_wf cmp capacity) ?_ hg
  unfold PQ.new
  split
  · decide
  · simp only [List.length_cons, List.length_nil]; omega

/-- a bounded queue's backing array is never reallocated: its capacity is `capacity+1` in every
    reachable state, whatever the runtime would choose (all growth choices, no `GrowOK` needed) -/
theorem c05_pq_bounded_never_reallocates {cmp : Cmp} (hc : Lawful cmp) (capacity : Int) (hpos : 1 ≤ capacity)
    (hist : List (Nat × Op)) :
    ((run cmp (PQ.new capacity) hist).1.data.cap : Int) = capacity + 1 := by
  obtain ⟨hwf, hcap, _⟩ := c05_pq_reachable_inv hc capacity hist
  have hn : Spec.normCap capacity = capacity := by unfold Spec.normCap; split <;> omega
  rw [hn] at hcap
  have := (hwf.bounded (by omega)).2
  rw [hcap] at this; exact this

/-! ### non-vacuity -/

/-- a bounded queue with ties (`div3`: 3,4,5 all compare equal) filled to capacity, refused, drained -/
example : (run div3 (PQ.new 3) [(0, .enqueue 7), (0, .enqueue 4), (0, .enqueue 3), (0, .enqueue 1), (0, .boundless),
      (0, .dequeue), (0, .peek), (0, .dequeue), (0, .dequeue), (0, .dequeue), (0, .len)]).2
    = [.ok .unit, .ok .unit, .ok .unit, .err errCap, .ok (.bool false),
       .ok (.val 4), .ok (.val 3), .ok (.val 3), .ok (.val 7), .err errEmpty, .ok (.int 0)] := by decide
/-- `capacity ≤ 0` is the unbounded queue -/
example : (run natural (PQ.new (-5)) [(0, .cap), (0, .boundless), (0, .enqueue 2), (0, .enqueue 1), (0, .peek)]).2
    = [.ok (.int 0), .ok (.bool true), .ok .unit, .ok .unit, .ok (.val 1)] := by decide
/-- the hypotheses of `c05_pq_heapsort` are satisfiable, bounded and unbounded -/
example : ∃ vs : List Int, vs.Perm [5, 1, 3] ∧ vs.Pairwise (fun a b => natural a b ≤ 0) ∧
    (run natural (PQ.new 3) [(0, .enqueue 5), (0, .enqueue 1), (0, .enqueue 3), (0, .dequeue), (0, .dequeue), (0, .dequeue)]).2
      = List.replicate 3 (.ok .unit) ++ vs.map (fun v => Outcome.ok (Ret.val v)) := by
  obtain ⟨vs, h1, h2, h3, _⟩ := c05_pq_heapsort natural_lawful 3 [(0, 5), (0, 1), (0, 3)] [0, 0, 0]
    (Or.inr (by decide)) rfl
  exact ⟨vs, h2, h3, h1⟩
/-- growth beyond the constructor's 64 slots and a shrink-reallocation happen inside a history from
    the constructor: 64 Enqueues (the 64th reallocates, the runtime picks 300), one Dequeue
    (300/64 ≥ 4: `slice.Shrink` reallocates to 150) -/
example :
    let hist : List (Nat × Op) := ((List.range 64).map fun (i : Nat) => (300, Op.enqueue (100 - (i : Int)))) ++ [(0, .dequeue)]
    (run natural (PQ.new 0) (hist.take 64)).1.data.cap = 300 ∧
    (run natural (PQ.new 0) hist).1.data.cap = 150 ∧
    (run natural (PQ.new 0) hist).2.getLast? = some (.ok (.val 37)) ∧
    (run natural (PQ.new 0) hist).1.contents.length = 63 := by decide +kernel

end Ekit.Heap

namespace Ekit.SkipList
open Ekit.Cmp Ekit.Go

/-! ## Skip list — review additions

* `c05_sl_run_length`             one result per call
* `c05_sl_step_refines_ins` / `c05_sl_run_refines_ins`
                                  the refinement theorems with the height contract demanded ONLY of Inserts
                                  (the height argument of any other call is never read)
* `c05_sl_history_from_new`       from `NewSkipList`, every history, every height sequence: results and
                                  enumeration are the sorted-sequence specification's, well formed, ascending,
                                  nothing panics
* `c05_sl_bag_history`            ANY lawful comparator (ties allowed, no separation hypothesis): after every
                                  history the enumeration is ascending and is, as a multiset, the inserted
                                  elements minus one element comparing equal to the target per successful delete
* `c05_sl_reachable_observers`    in every reachable state Len/Peek/Get/Search/AsSlice agree with the sorted
                                  multiset enumerated (Get with a real index read, Peek a minimum)
-/

theorem c05_sl_run_length (cmp : Cmp) (s : SL) (hist : List (Nat × Op)) :
    (run cmp s hist).2.length = hist.length := by
  induction hist generalizing s with
  | nil => rfl
  | cons x rest ih => obtain ⟨h, op⟩ := x; simp [run, ih]

/-- only Insert reads the tower height -/
theorem step_height_irrelevant (cmp : Cmp) (s : SL) (h h' : Nat) (op : Op) (hop : ∀ v, op ≠ .insert v) :
    step cmp s h op = step cmp s h' op := by
  cases op with
  | insert v => exact absurd rfl (hop v)
  | _ => rfl

/-- the heights of the Inserts of a history are ones `randomLevel` can return (nothing is asked of
    the unused height slot of the other calls) -/
def InsertHeightsOK (hist : List (Nat × Op)) : Prop :=
  ∀ x ∈ hist, ∀ v, x.2 = .insert v → 1 ≤ x.1 ∧ x.1 ≤ MaxLevel

theorem HeightsOK.insertHeightsOK {hist : List (Nat × Op)} (h : HeightsOK hist) : InsertHeightsOK hist :=
  fun x hx _ _ => h x hx

/-- `c05_sl_step_refines` with the height contract only where a height is drawn -/
theorem c05_sl_step_refines_ins {cmp : Cmp} (hc : Lawful cmp) {s : SL} (hs : WF cmp s) (h : Nat) (op : Op)
    (hh : ∀ v, op = .insert v → 1 ≤ h ∧ h ≤ MaxLevel) :
    ((step cmp s h op).1.asSlice, (step cmp s h op).2) = Spec.step cmp s.asSlice op ∧
    WF cmp (step cmp s h op).1 := by
  by_cases hins : ∃ v, op = .insert v
  · obtain ⟨v, rfl⟩ := hins
    exact c05_sl_step_refines hc hs h (hh v rfl) _
  · have hop : ∀ v, op ≠ .insert v := fun v e => hins ⟨v, e⟩
    rw [step_height_irrelevant cmp s h 1 op hop]
    exact c05_sl_step_refines hc hs 1 ⟨Nat.le_refl _, by decide⟩ op

/-- `c05_sl_run_refines` with the height contract only on Inserts -/
theorem c05_sl_run_refines_ins {cmp : Cmp} (hc : Lawful cmp) (hist : List (Nat × Op)) (hh : InsertHeightsOK hist)
    {s : SL} (hs : WF cmp s) :
    ((run cmp s hist).1.asSlice, (run cmp s hist).2) = Spec.run cmp s.asSlice (hist.map (·.2)) ∧
    WF cmp (run cmp s hist).1 := by
  induction hist generalizing s with
  | nil => exact ⟨rfl, hs⟩
  | cons x rest ih =>
    obtain ⟨h, op⟩ := x
    obtain ⟨h1, h2⟩ := c05_sl_step_refines_ins hc hs h op (fun v hv => hh (h, op) List.mem_cons_self v hv)
    obtain ⟨h3, h4⟩ := ih (fun y hy => hh y (List.mem_cons_of_mem _ hy)) h2
    refine ⟨?_, h4⟩
    simp only [run, List.map_cons, Spec.run]
    have e1 : (step cmp s h op).1.asSlice = (Spec.step cmp s.asSlice op).1 := by rw [← h1]
    have e2 : (step cmp s h op).2 = (Spec.step cmp s.asSlice op).2 := by rw [← h1]
    rw [← e1, ← e2]
    have e3 : (run cmp (step cmp s h op).1 rest).1.asSlice =
        (Spec.run cmp (step cmp s h op).1.asSlice (rest.map (·.2))).1 := by rw [← h3]
    have e4 : (run cmp (step cmp s h op).1 rest).2 =
        (Spec.run cmp (step cmp s h op).1.asSlice (rest.map (·.2))).2 := by rw [← h3]
    rw [e3, e4]

/-- "whatever tower heights its random source produces", with the contract only on Inserts: two
    runs of the same calls from `NewSkipList` with different height sequences return the same
    results and enumerate the same sequence. -/
theorem c05_sl_heights_irrelevant_ins {cmp : Cmp} (hc : Lawful cmp) (hist1 hist2 : List (Nat × Op))
    (h1 : InsertHeightsOK hist1) (h2 : InsertHeightsOK hist2) (hops : hist1.map (·.2) = hist2.map (·.2)) :
    (run cmp SL.new hist1).2 = (run cmp SL.new hist2).2 ∧
    (run cmp SL.new hist1).1.asSlice = (run cmp SL.new hist2).1.asSlice := by
  have a := (c05_sl_run_refines_ins hc hist1 h1 (c05_sl_new_wf cmp)).1
  have b := (c05_sl_run_refines_ins hc hist2 h2 (c05_sl_new_wf cmp)).1
  rw [hops] at a
  have := a.trans b.symm
  simp only [Prod.mk.injEq] at this
  exact ⟨this.2, this.1⟩

/-- no result of the sorted-sequence specification is a panic -/
theorem spec_run_no_panic (cmp : Cmp) (l : List Int) (ops : List Op) :
    ∀ o ∈ (Spec.run cmp l ops).2, o.isPanic = false := by
  induction ops generalizing l with
  | nil => intro o ho; cases ho
  | cons op ops ih =>
    intro o ho
    simp only [Spec.run, List.mem_cons] at ho
    rcases ho with rfl | ho
    · cases op <;> simp only [Spec.step] <;> (try split) <;> rfl
    · exact ih _ o ho

/-- **Every history from `NewSkipList`, every sequence of tower heights**: the results and the
    final enumeration are exactly those of the sorted-sequence specification started empty, the
    list is well formed, `AsSlice()` is ascending, there is one result per call and none is a panic. -/
theorem c05_sl_history_from_new {cmp : Cmp} (hc : Lawful cmp) (hist : List (Nat × Op)) (hh : InsertHeightsOK hist) :
    ((run cmp SL.new hist).1.asSlice, (run cmp SL.new hist).2) = Spec.run cmp [] (hist.map (·.2)) ∧
    WF cmp (run cmp SL.new hist).1 ∧
    (run cmp SL.new hist).1.asSlice.Pairwise (fun a b => cmp a b ≤ 0) ∧
    (run cmp SL.new hist).2.length = hist.length ∧
    ∀ o ∈ (run cmp SL.new hist).2, o.isPanic = false := by
  obtain ⟨h1, h2⟩ := c05_sl_run_refines_ins hc hist hh (c05_sl_new_wf cmp)
  have h1' : ((run cmp SL.new hist).1.asSlice, (run cmp SL.new hist).2) = Spec.run cmp [] (hist.map (·.2)) := h1
  refine ⟨h1', h2, c05_sl_asSlice_sorted h2, c05_sl_run_length _ _ _, ?_⟩
  have e : (run cmp SL.new hist).2 = (Spec.run cmp [] (hist.map (·.2))).2 := by rw [← h1']
  rw [e]
  exact spec_run_no_panic cmp _ _

/-! ### "exactly the multiset inserted minus deleted" for comparators WITH ties

`c05_sl_asSlice_sorted_perm` needs a comparator that separates different elements.  With ties
DeleteElement(v) removes an element that compares equal to `v` (the first one enumerated), which
need not be `v` itself; the multiset statement the property can mean is then the following
relation. -/

/-- the effect of one call on the multiset held: Insert adds the element; DeleteElement removes one
    element comparing equal to the target if there is one, else nothing; other calls nothing -/
inductive BagStep (cmp : Cmp) : List Int → Op → List Int → Prop
  | insert (bag : List Int) (v : Int) : BagStep cmp bag (.insert v) (v :: bag)
  | deleteHit (bag : List Int) (v x : Int) : x ∈ bag → cmp x v = 0 → BagStep cmp bag (.delete v) (bag.erase x)
  | deleteMiss (bag : List Int) (v : Int) : (∀ x ∈ bag, cmp x v ≠ 0) → BagStep cmp bag (.delete v) bag
  | other (bag : List Int) (op : Op) : (∀ v, op ≠ .insert v) → (∀ v, op ≠ .delete v) → BagStep cmp bag op bag

inductive BagRun (cmp : Cmp) : List Int → List Op → List Int → Prop
  | nil (bag : List Int) : BagRun cmp bag [] bag
  | cons {bag bag' bag'' : List Int} {op : Op} {ops : List Op} :
      BagStep cmp bag op bag' → BagRun cmp bag' ops bag'' → BagRun cmp bag (op :: ops) bag''

/-- one call, any lawful comparator: the enumeration follows `BagStep` -/
theorem bag_step {cmp : Cmp} (hc : Lawful cmp) {s : SL} (hs : WF cmp s) (h : Nat) (op : Op)
    (hh : ∀ v, op = .insert v → 1 ≤ h ∧ h ≤ MaxLevel) {bag : List Int} (hb : s.asSlice.Perm bag) :
    ∃ bag', BagStep cmp bag op bag' ∧ (step cmp s h op).1.asSlice.Perm bag' := by
  have href := (c05_sl_step_refines_ins hc hs h op hh).1
  have e1 : (step cmp s h op).1.asSlice = (Spec.step cmp s.asSlice op).1 := by rw [← href]
  cases op with
  | insert v =>
    exact ⟨v :: bag, .insert bag v, ((c05_sl_insert_multiset hc hs h (hh v rfl) v).1).trans (List.Perm.cons v hb)⟩
  | delete v =>
    rcases c05_sl_delete_multiset hc hs 1 ⟨Nat.le_refl _, by decide⟩ v with ⟨hall, hsame⟩ | ⟨x, hx, hxe, hp⟩
    · refine ⟨bag, .deleteMiss bag v (fun x hx => hall x (hb.mem_iff.mpr hx)), ?_⟩
      rw [step_height_irrelevant cmp s h 1 (.delete v) (fun _ e => by cases e), hsame]; exact hb
    · refine ⟨bag.erase x, .deleteHit bag v x (hb.mem_iff.mp hx) hxe, ?_⟩
      rw [step_height_irrelevant cmp s h 1 (.delete v) (fun _ e => by cases e)]
      have h1 : bag.Perm (x :: (step cmp s 1 (.delete v)).1.asSlice) := hb.symm.trans hp
      have := h1.erase x
      simp only [List.erase_cons_head] at this
      exact this.symm
  | search v => exact ⟨bag, .other bag _ (fun _ e => by cases e) (fun _ e => by cases e), by rw [e1]; exact hb⟩
  | get i =>
    refine ⟨bag, .other bag _ (fun _ e => by cases e) (fun _ e => by cases e), ?_⟩
    rw [e1]; simp only [Spec.step]; split <;> exact hb
  | peek =>
    refine ⟨bag, .other bag _ (fun _ e => by cases e) (fun _ e => by cases e), ?_⟩
    rw [e1]; simp only [Spec.step]; split <;> exact hb
  | asSlice => exact ⟨bag, .other bag _ (fun _ e => by cases e) (fun _ e => by cases e), by rw [e1]; exact hb⟩
  | len => exact ⟨bag, .other bag _ (fun _ e => by cases e) (fun _ e => by cases e), by rw [e1]; exact hb⟩

/-- **Every history, every height sequence, ANY lawful comparator (many ties allowed)**: the
    enumeration afterwards is ascending and is, as a multiset, what `BagRun` leaves of the initial
    multiset: every inserted element added, one element comparing equal to the target removed per
    DeleteElement that finds one, nothing else. -/
theorem c05_sl_bag_history {cmp : Cmp} (hc : Lawful cmp) (hist : List (Nat × Op)) (hh : InsertHeightsOK hist)
    {s : SL} (hs : WF cmp s) {bag : List Int} (hb : s.asSlice.Perm bag) :
    ∃ bag', BagRun cmp bag (hist.map (·.2)) bag' ∧ (run cmp s hist).1.asSlice.Perm bag' ∧
      (run cmp s hist).1.asSlice.Pairwise (fun a b => cmp a b ≤ 0) := by
  induction hist generalizing s bag with
  | nil => exact ⟨bag, .nil bag, hb, c05_sl_asSlice_sorted hs⟩
  | cons x rest ih =>
    obtain ⟨h, op⟩ := x
    have hhx : ∀ v, op = .insert v → 1 ≤ h ∧ h ≤ MaxLevel := fun v hv => hh (h, op) List.mem_cons_self v hv
    obtain ⟨bag1, b1, p1⟩ := bag_step hc hs h op hhx hb
    have hwf := (c05_sl_step_refines_ins hc hs h op hhx).2
    obtain ⟨bag2, b2, p2, s2⟩ := ih (fun y hy => hh y (List.mem_cons_of_mem _ hy)) hwf p1
    exact ⟨bag2, .cons b1 b2, p2, s2⟩

/-- … from `NewSkipList` (the empty multiset). -/
theorem c05_sl_bag_history_from_new {cmp : Cmp} (hc : Lawful cmp) (hist : List (Nat × Op))
    (hh : InsertHeightsOK hist) :
    ∃ bag', BagRun cmp [] (hist.map (·.2)) bag' ∧ (run cmp SL.new hist).1.asSlice.Perm bag' ∧
      (run cmp SL.new hist).1.asSlice.Pairwise (fun a b => cmp a b ≤ 0) :=
  c05_sl_bag_history hc hist hh (c05_sl_new_wf cmp) (List.Perm.refl _)

/-- with a separating comparator `BagRun` is the function `Spec.bagRun` (so `c05_sl_bag_history`
    really generalises `c05_sl_asSlice_sorted_perm`) -/
theorem bagRun_of_separating {cmp : Cmp} (hc : Lawful cmp) (hex : ∀ a b, cmp a b = 0 → a = b) {bag bag' : List Int}
    {ops : List Op} (h : BagRun cmp bag ops bag') : bag' = Spec.bagRun bag ops := by
  induction h with
  | nil bag => rfl
  | @cons b0 b1 b2 op ops hstep _ ih =>
    rw [ih]
    simp only [Spec.bagRun]
    congr 1
    cases hstep with
    | insert v => rfl
    | deleteHit v x hx hxe => rw [hex x v hxe]; rfl
    | deleteMiss v hall =>
      simp only [Spec.bagStep]
      refine (List.erase_of_not_mem ?_).symm
      intro hm
      exact hall v hm (hc.refl v)
    | other _ h1 h2 =>
      cases op with
      | insert v => exact absurd rfl (h1 v)
      | delete v => exact absurd rfl (h2 v)
      | _ => rfl

/-! ### the observers in every reachable state -/

/-- Peek returns a minimum: `≤` EVERY enumerated element (no `∨ y = x` escape). -/
theorem c05_sl_peek_min {cmp : Cmp} (hc : Lawful cmp) {s : SL} (hs : WF cmp s) (x : Int)
    (hx : s.asSlice.head? = some x) : ∀ y ∈ s.asSlice, cmp x y ≤ 0 := by
  intro y hy
  rcases (c05_sl_peek_eq_head hs 1).2 x hx y hy with h | h
  · exact h
  · rw [h]; have := hc.refl x; omega

/-- Get with a genuine (partial) index read instead of `getD … 0`. -/
theorem c05_sl_get_eq_getElem {cmp : Cmp} {s : SL} (hs : WF cmp s) (h : Nat) (i : Nat) (hi : i < s.asSlice.length) :
    step cmp s h (.get (i : Int)) = (s, .ok (.val s.asSlice[i])) := by
  obtain ⟨h1, h2, _⟩ := c05_sl_get_eq_nth hs h (i : Int)
  have := h2 ⟨by omega, by omega⟩
  apply Prod.ext h1
  rw [this]
  simp [List.getD_eq_getElem?_getD, List.getElem?_eq_getElem hi]

/-- **In every state reachable from `NewSkipList` by any history with any tower heights**, with `L`
    the sequence `AsSlice()` enumerates: `L` is ascending; Len = `|L|`; Peek = the head of `L`, which
    is `≤` every element (error iff `L` is empty); Get(i) = `L[i]` for `0 ≤ i < |L|` and the index
    error (not a panic) otherwise; Search(v) iff some element of `L` compares equal to `v`; none of
    these observers changes the list. -/
theorem c05_sl_reachable_observers {cmp : Cmp} (hc : Lawful cmp) (hist : List (Nat × Op))
    (hh : InsertHeightsOK hist) (h : Nat) :
    (run cmp SL.new hist).1.asSlice.Pairwise (fun a b => cmp a b ≤ 0) ∧
    step cmp (run cmp SL.new hist).1 h .asSlice =
      ((run cmp SL.new hist).1, .ok (.slice (run cmp SL.new hist).1.asSlice)) ∧
    step cmp (run cmp SL.new hist).1 h .len =
      ((run cmp SL.new hist).1, .ok (.int (run cmp SL.new hist).1.asSlice.length)) ∧
    step cmp (run cmp SL.new hist).1 h .peek =
      ((run cmp SL.new hist).1,
        match (run cmp SL.new hist).1.asSlice with | [] => .err errEmpty | x :: _ => .ok (.val x)) ∧
    (∀ x, (run cmp SL.new hist).1.asSlice.head? = some x → ∀ y ∈ (run cmp SL.new hist).1.asSlice, cmp x y ≤ 0) ∧
    (∀ (i : Nat) (hi : i < (run cmp SL.new hist).1.asSlice.length),
      step cmp (run cmp SL.new hist).1 h (.get (i : Int)) =
        ((run cmp SL.new hist).1, .ok (.val (run cmp SL.new hist).1.asSlice[i]))) ∧
    (∀ i : Int, ¬ (0 ≤ i ∧ i < ((run cmp SL.new hist).1.asSlice.length : Int)) →
      step cmp (run cmp SL.new hist).1 h (.get i) =
        ((run cmp SL.new hist).1, .err (.idx (run cmp SL.new hist).1.asSlice.length i))) ∧
    (∀ v, ∃ b, step cmp (run cmp SL.new hist).1 h (.search v) = ((run cmp SL.new hist).1, .ok (.bool b)) ∧
      (b = true ↔ ∃ x ∈ (run cmp SL.new hist).1.asSlice, cmp x v = 0)) := by
  obtain ⟨_, hwf, hsorted, _⟩ := c05_sl_history_from_new hc hist hh
  generalize (run cmp SL.new hist).1 = s at *
  refine ⟨hsorted, ?_, c05_sl_len_eq hwf h, (c05_sl_peek_eq_head hwf h).1, c05_sl_peek_min hc hwf,
    fun i hi => c05_sl_get_eq_getElem hwf h i hi, ?_, fun v => c05_sl_search_iff_mem hc hwf h v⟩
  · have hsz : ¬ s.size < 0 := by have := hwf.size; omega
    simp [step, hsz, SL.asSlice]
  · intro i hi
    obtain ⟨h1, _, h3⟩ := c05_sl_get_eq_nth hwf h i
    exact Prod.ext h1 (h3 hi)

/-! ### non-vacuity -/

/-- ties: under `div3` the elements 3,4,5 compare equal; Insert puts a new element in FRONT of its
    class (enumeration 0,5,3,4).  DeleteElement(4) removes the FIRST enumerated element of that
    class (here 5, not 4), DeleteElement(9) finds nothing; tower heights vary and the node removed is
    the tallest tower (height 7), after which `level` drops to 2. -/
example : (run div3 SL.new [(2, .insert 4), (1, .insert 3), (7, .insert 5), (1, .insert 0), (0, .delete 4), (0, .delete 9),
      (0, .asSlice), (0, .search 4), (0, .get 1), (0, .get 3), (0, .peek), (0, .len)]) =
    (⟨[⟨0, 1⟩, ⟨3, 1⟩, ⟨4, 2⟩], 2, 3⟩,
     [.ok .unit, .ok .unit, .ok .unit, .ok .unit, .ok (.bool true), .ok (.bool true),
      .ok (.slice [0, 3, 4]), .ok (.bool true), .ok (.val 3), .err (.idx 3 3), .ok (.val 0), .ok (.int 3)]) := by decide
/-- that history satisfies `InsertHeightsOK` although non-Insert calls carry the height slot 0
    (it does NOT satisfy `HeightsOK`, so `c05_sl_run_refines` did not cover it) -/
example : InsertHeightsOK [(2, Op.insert 4), (7, .insert 3), (0, .delete 5), (0, .asSlice)] ∧
    ¬ HeightsOK [(2, Op.insert 4), (7, .insert 3), (0, .delete 5), (0, .asSlice)] := by
  constructor
  · intro x hx v hv
    simp at hx
    rcases hx with rfl | rfl | rfl | rfl <;> first | decide | cases hv
  · intro h
    have := h (0, .asSlice) (by simp)
    omega
/-- `BagRun` with ties really removes an element different from the target -/
example : BagRun div3 [] [.insert 4, .delete 5] [] :=
  .cons (.insert [] 4) (.cons (.deleteHit [4] 5 4 (by simp) (by decide)) (.nil _))
/-- the maximal tower height is accepted and the level follows it up and down -/
example : (run natural SL.new [(32, .insert 1), (1, .insert 2), (0, .delete 1)]).1 = ⟨[⟨2, 1⟩], 1, 1⟩ ∧
    (run natural SL.new [(32, .insert 1), (1, .insert 2)]).1.level = 32 := by decide

end Ekit.SkipList
