/-
The linearizability theorems of C08 in the classical Herlihy–Wing form.

`Ekit.Conc.Linearizable` (history of the canonical atomic automaton) is equivalent to
"well-formed and Herlihy–Wing linearizable" (`Ekit.Conc.linearizable_iff_hw`, HerlihyWing.lean; the
classical definition itself is in HerlihyWingDef.lean).  Each corollary below is the corresponding
property theorem followed by that equivalence: every history of every run of the model is a
well-formed history, and there is a list `L` of its calls with results that contains every completed
call (with its result) and possibly some pending ones, is a legal sequential execution of the
specification, and respects the real-time order of the history.
-/
import Ekit.Conc.HerlihyWing
import Ekit.Props.C08

namespace Ekit.Props.HWForms
open Ekit.Conc

section C08
open Ekit.DelayQ

theorem c08_hw_linearizable_timed (P : Params) (ls : List Label) (s : State)
    (hrun : (sys P).toSystem.run (sys P).init ls = some s) :
    HW.WellFormed ((sys P).history ls) ∧ HW.HWLinearizable (timedSpec P) ((sys P).history ls) :=
  (c08_linearizable_timed P ls s hrun).hw

end C08

end Ekit.Props.HWForms
