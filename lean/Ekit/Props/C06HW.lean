/-
The linearizability theorems of C06 in the classical Herlihy–Wing form.

`Ekit.Conc.Linearizable` (history of the canonical atomic automaton) is equivalent to
"well-formed and Herlihy–Wing linearizable" (`Ekit.Conc.linearizable_iff_hw`, HerlihyWing.lean; the
classical definition itself is in HerlihyWingDef.lean).  Each corollary below is the corresponding
property theorem followed by that equivalence: every history of every run of the model is a
well-formed history, and there is a list `L` of its calls with results that contains every completed
call (with its result) and possibly some pending ones, is a legal sequential execution of the
specification, and respects the real-time order of the history.
-/
import Ekit.Conc.HerlihyWing
import Ekit.Props.C06

namespace Ekit.Props.HWForms
open Ekit.Conc Ekit.Linz

section C06
open Ekit.Props.C06

theorem c06_clq_hw_linearizable {α : Type} [DecidableEq α] (ls : List (Lbl (QOp α) (QRet α)))
    (s : CLQ.St α) (hrun : (CLQ.sys α).run (CLQ.sys α).init ls = some s) :
    HW.WellFormed ((CLQ.sys α).history ls) ∧ HW.HWLinearizable (fifoSpec α) ((CLQ.sys α).history ls) :=
  (c06_clq_linearizable ls s hrun).hw

open LockWrapped in
theorem c06_lockWrapped_hw_linearizable {S Op Ret A : Type} [DecidableEq Ret] (P : Params S Op Ret)
    (spec : SeqSpec A Op Ret) (abs : S → A) (hinit : abs P.init = spec.init)
    (href : ∀ s op, spec.apply (abs s) op (abs (P.f s op).1) (P.f s op).2)
    (hro : ∀ s op, (P.style op).readOnly = true → (P.f s op).1 = s)
    (ls : List (Lbl Op Ret)) (s : St S Op Ret) (hrun : (sys P).run (sys P).init ls = some s) :
    HW.WellFormed ((sys P).history ls) ∧ HW.HWLinearizable spec ((sys P).history ls) :=
  (c06_lockWrapped_linearizable P spec abs hinit href hro ls s hrun).hw

open LockWrapped in
theorem c06_concurrentList_hw_linearizable (x0 : Ekit.Lists.AnyList)
    (grow : Ekit.Lists.AnyList → SOp → Nat)
    (ls : List (Lbl SOp SRet)) (s : St Ekit.Lists.AnyList SOp SRet)
    (hrun : (sys (listParams x0 grow)).run (sys (listParams x0 grow)).init ls = some s) :
    HW.WellFormed ((sys (listParams x0 grow)).history ls) ∧
      HW.HWLinearizable (seqSpec x0.vals) ((sys (listParams x0 grow)).history ls) :=
  (c06_concurrentList_linearizable x0 grow ls s hrun).hw

open LockWrapped in
theorem c06_cow_hw_linearizable (a0 : Ekit.Lists.CowList)
    (ls : List (Lbl SOp SRet)) (s : St Ekit.Lists.CowList SOp SRet)
    (hrun : (sys (cowParams a0)).run (sys (cowParams a0)).init ls = some s) :
    HW.WellFormed ((sys (cowParams a0)).history ls) ∧
      HW.HWLinearizable (seqSpec a0.s.vals) ((sys (cowParams a0)).history ls) :=
  (c06_cow_linearizable a0 ls s hrun).hw

open LockWrapped in
theorem c06_cpq_hw_linearizable {H : Type} (capacity : Int) (h0 : H) (f : H → POp → H × PRet)
    (absH : H → PQS) (hinit : absH h0 = pqInit capacity)
    (href : ∀ h op, pqStep (absH h) op (f h op).2 = some (absH (f h op).1))
    (hro : ∀ h op, (pqStyle op).readOnly = true → (f h op).1 = h)
    (ls : List (Lbl POp PRet)) (s : St H POp PRet)
    (hrun : (sys (pqParams h0 f)).run (sys (pqParams h0 f)).init ls = some s) :
    HW.WellFormed ((sys (pqParams h0 f)).history ls) ∧
      HW.HWLinearizable (pqSpec capacity) ((sys (pqParams h0 f)).history ls) :=
  (c06_cpq_linearizable capacity h0 f absH hinit href hro ls s hrun).hw

theorem c06_syncMap_hw_linearizable (ls : List (Lbl MOp MRet)) (s : SyncMap.St)
    (hrun : SyncMap.sys.run SyncMap.sys.init ls = some s) :
    HW.WellFormed (SyncMap.sys.history ls) ∧ HW.HWLinearizable mapSpec (SyncMap.sys.history ls) :=
  (c06_syncMap_linearizable ls s hrun).hw

end C06

end Ekit.Props.HWForms
