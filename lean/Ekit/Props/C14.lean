/-
C14 — LimitPool bounds outstanding objects; SegmentKeysLock excludes per key.

Property theorems only.  Models: Ekit/Model/LimitPool.lean, Ekit/Model/SegmentLock.lean (transition
systems over Ekit/Conc/System.lean + Basic.lean, any number of threads, any interleaving of the atomic steps of the
methods as written in syncx/limit_pool.go and syncx/segment_key_lock.go).  Helper lemmas:
Ekit/Lemmas/LimitPool.lean, Ekit/Lemmas/SegmentLock.lean.

Range assumptions of the LimitPool theorems (`Cfg.Ok`): `0 ≤ maxTokens < 2^31` and at most `2^31`
goroutines (the `int32` counter wraps once 2^31+1 failing Gets sit between their decrement and
their compensation).  The property quantifies over "all maxTokens ≥ 0", so with respect to that
quantifier the positive LimitPool theorems are **partial** (`_partial` in their doc comments / names
where the conclusion really fails outside the range): the constructor converts `int` to `int32`,
and for `2^31 < maxTokens < 2^32` (more generally whenever the truncated value is ≤ 0) the counter
starts non-positive and no Get ever succeeds — known finding **C14-T**, with its negative-witness
theorem `c14_limitPool_truncation_witness` below and a reproduction on the real code in every run
of the check.  (`maxTokens = 2^31` itself happens to behave correctly: the counter starts at −2^31,
the first `Add(-1)` wraps to 2^31−1, and exactly 2^31 Gets succeed.)
SegmentKeysLock theorems require `size ≠ 0` (`size = 0` makes `hash % size` panic at first use;
see `c14_segment_size_zero_panics`), which is the property's own quantifier (size ≥ 1).

Assumed primitives (modelled, not verified; DESIGN §7): `atomic.Int32.Add` is one sequentially
consistent step returning the new value; `sync.Pool` stores/returns/drops objects; `sync.RWMutex`
has the abstract state "writer held? / number of readers", `Lock`/`RLock` return only when
compatible, `TryLock`/`TryRLock` answer instead of waiting (a `TryRLock` may also answer `false`
while only readers hold the lock — Go's writer preference).  Client protocol: only borrowed objects
are `Put`; only holders unlock.

Spurious failures of `Get` under contention (a Get that fails although fewer than `maxTokens`
objects are outstanding, because other failing Gets have transiently pushed the counter below
zero) are allowed by the property and exhibited in `c14_limitPool_spurious_failure_possible`.
-/
import Ekit.Lemmas.LimitPool
import Ekit.Lemmas.SegmentLock

namespace Ekit.LimitPool
open Ekit.Conc

/-- **Bookkeeping** ("tokens are conserved", instantaneous form): in every reachable state — any
    number of threads, any interleaving of the atomic steps of Get and Put —
    `tokens = maxTokens − outstanding − failing` holds as an equation between integers (the int32
    never wrapped).  Partial w.r.t. "all maxTokens ≥ 0": needs `maxTokens < 2^31` (C14-T). -/
theorem c14_limitPool_bookkeeping (cfg : Cfg) (ok : cfg.Ok) (s : State) (hr : (sys cfg).Reachable s) :
    s.tokens.toInt = cfg.maxTokens - outstanding s - failing s :=
  (inv_reachable cfg ok s hr).tok

/-- **"LimitPool never has more than maxTokens successful Gets outstanding"** — at every instant
    of every schedule.  `outstanding` counts a Get from the moment its sign test passed until the
    matching Put has re-added the token.  Proved under `Cfg.Ok` (`maxTokens < 2^31`); beyond that
    range this half of the property is not contradicted by C14-T (no Get succeeds at all) but is
    not proved here. -/
theorem c14_limitPool_outstanding_le_max (cfg : Cfg) (ok : cfg.Ok) (s : State) (hr : (sys cfg).Reachable s) :
    (outstanding s : Int) ≤ cfg.maxTokens :=
  (inv_reachable cfg ok s hr).bound

/-- the client-observable reading: objects handed out and not yet given to `Put` -/
theorem c14_limitPool_borrowed_le_max (cfg : Cfg) (ok : cfg.Ok) (s : State) (hr : (sys cfg).Reachable s) :
    (s.borrowed : Int) ≤ cfg.maxTokens := by
  have := c14_limitPool_outstanding_le_max cfg ok s hr
  simp only [outstanding] at this
  omega

/-- the same statement quantified over schedules explicitly: whatever list of labels is run -/
theorem c14_limitPool_outstanding_le_max_run (cfg : Cfg) (ok : cfg.Ok) (sched : List Label) (s : State)
    (h : (sys cfg).run (sys cfg).init sched = some s) : (outstanding s : Int) ≤ cfg.maxTokens :=
  c14_limitPool_outstanding_le_max cfg ok s (System.reachable_iff_run.mpr ⟨sched, h⟩)

/-- **"tokens are conserved: once everything borrowed has been Put back …"**: at quiescence with
    nothing borrowed the counter is back at `maxTokens`, whatever interleaving of Gets, failed Gets
    and Puts occurred before.
    `_partial`: proved for `maxTokens < 2^31` (`Cfg.Ok`); for larger values the conclusion is false
    (the counter starts at the truncated value) — known finding C14-T. -/
theorem c14_limitPool_conserved_partial (cfg : Cfg) (ok : cfg.Ok) (s : State) (hr : (sys cfg).Reachable s)
    (q : Quiescent s) (hb : s.borrowed = 0) : s.tokens.toInt = cfg.maxTokens := by
  have := quiescent_tokens cfg s (inv_reachable cfg ok s hr) q
  simpa [hb] using this

/-- **"… exactly maxTokens further Gets succeed"**: from such a state, `n` further uninterrupted
    Gets (by any thread `t`) return `true` exactly `min n maxTokens` times — the first `maxTokens`
    of them — and `false` afterwards.
    `_partial`: proved for `maxTokens < 2^31`; false beyond (`c14_limitPool_truncation_witness`). -/
theorem c14_limitPool_exactly_max_gets_partial (cfg : Cfg) (ok : cfg.Ok) (s : State) (hr : (sys cfg).Reachable s)
    (q : Quiescent s) (hb : s.borrowed = 0) (t : Nat) (ht : t < s.pcs.length) (n : Nat) :
    ∃ s', getMany cfg s t n = some (s',
      List.replicate (min n cfg.maxTokens.toNat) true ++ List.replicate (n - cfg.maxTokens.toNat) false) := by
  have := getMany_quiescent cfg ok t n s (inv_reachable cfg ok s hr) q ht
  simpa [hb] using this

/-- No spurious failure without contention: at any quiescent reachable state a Get succeeds iff
    fewer than `maxTokens` objects are borrowed, and a failed Get leaves the state unchanged.
    `_partial`: proved for `maxTokens < 2^31`; false beyond (`c14_limitPool_truncation_witness`). -/
theorem c14_limitPool_sequential_get_partial (cfg : Cfg) (ok : cfg.Ok) (s : State) (hr : (sys cfg).Reachable s)
    (q : Quiescent s) (t : Nat) (ht : t < s.pcs.length) :
    getCall cfg s t false =
      if (s.borrowed : Int) < cfg.maxTokens then
        some ({ s with tokens := add32 s.tokens (-1), borrowed := s.borrowed + 1, created := s.created + 1 }, true)
      else some (s, false) :=
  getCall_quiescent cfg ok s (inv_reachable cfg ok s hr) q t ht

/-- The two counter updates of a failing `Get` (`Add(-1)` then `Add(1)`) cancel exactly in int32
    arithmetic, for every counter value (including across the wrap). -/
theorem c14_limitPool_failed_get_restores (x : BitVec 32) : add32 (add32 x (-1)) 1 = x := add32_cancel x

/-- `Get` and `Put` never block: a thread that is inside a method always has an enabled step
    (so every call completes in at most two of its own steps, whatever the others do). -/
theorem c14_limitPool_wait_free (cfg : Cfg) (s : State) (t : Nat) (pc : PC) (h : pcOf s t = some pc)
    (hne : pc ≠ .idle) : ∃ a s', step cfg s (.act t a) = some s' := by
  cases pc with
  | idle => exact absurd rfl hne
  | getFail => exact ⟨.getUndo, _, by simp only [step, h]; rfl⟩
  | getOk => exact ⟨.getPool false, _, by simp only [step, h]; rfl⟩
  | putInc => exact ⟨.putInc, _, by simp only [step, h]; rfl⟩

/-- …and an idle thread can always start a `Get` (it is never blocked either) -/
theorem c14_limitPool_get_enabled (cfg : Cfg) (s : State) (t : Nat) (h : pcOf s t = some .idle) :
    ∃ s', step cfg s (.act t .getDec) = some s' := ⟨_, by simp only [step, h]; rfl⟩

/-! #### non-vacuity and the allowed spurious failure -/

/-- why the thread bound is needed: at `tokens = −2^31` one more decrement wraps to `2^31 − 1` and
    the sign test passes (2^31 + 1 simultaneously failing Gets; outside `Cfg.Ok`) -/
example : (add32 (BitVec.ofInt 32 (-2147483648)) (-1)).slt 0#32 = false := by decide

/-- a tiny configuration inside the stated ranges -/
def cfg1 : Cfg := { maxTokens := 1, maxThreads := 8 }
theorem cfg1_ok : cfg1.Ok := ⟨by decide, by decide, by decide⟩

/-- Spurious failure under contention (allowed, not flagged): with `maxTokens = 1`, thread 2's
    failing Get has not yet compensated when thread 0 calls Get; thread 0 fails although nothing
    is outstanding at that moment. -/
def spuriousSchedule : List Label :=
  [.spawn, .spawn, .spawn,
   .act 1 .getDec,            -- 1 takes the only token (tokens 0)
   .act 2 .getDec,            -- 2 fails (tokens -1), not yet compensated
   .act 1 (.getPool false), .act 1 .putPool, .act 1 .putInc,   -- 1 returns its object (tokens 0)
   .act 0 .getDec]            -- 0: Add(-1) = -1 < 0 → will return false

theorem c14_limitPool_spurious_failure_possible :
    ∃ s, (sys cfg1).run (sys cfg1).init spuriousSchedule = some s ∧ outstanding s = 0 ∧ pcOf s 0 = some .getFail := by
  refine ⟨_, rfl, ?_, ?_⟩ <;> decide

/-- the hypotheses of the conservation theorems are satisfiable by a non-trivial reachable state:
    three threads, a successful and a failed Get, a Put, then quiescence with nothing borrowed -/
example : ∃ s, (sys cfg1).run (sys cfg1).init (spuriousSchedule ++ [.act 0 .getUndo, .act 2 .getUndo]) = some s ∧
    Quiescent s ∧ s.borrowed = 0 ∧ s.tokens.toInt = 1 ∧ 0 < s.pcs.length := by
  refine ⟨_, rfl, ?_, ?_, ?_, ?_⟩ <;> decide

/-- the bound is attained: `outstanding = maxTokens` is reachable -/
example : ∃ s, (sys cfg1).run (sys cfg1).init [.spawn, .act 0 .getDec] = some s ∧ (outstanding s : Int) = cfg1.maxTokens := by
  refine ⟨_, rfl, ?_⟩; decide

/-! #### known finding C14-T: `maxTokens ≥ 2^31` is truncated to `int32` (negative witness) -/

/-- `NewLimitPool(2^31 + 1, …)`: inside the property's quantifier, outside `Cfg.Ok` -/
def cfgT : Cfg := { maxTokens := 2147483649, maxThreads := 1 }

/-- the state after the constructor and one goroutine appearing -/
def sT : State := { tokens := BitVec.ofInt 32 (-2147483647), pcs := [.idle], borrowed := 0, pooled := 0, created := 0 }

/-- **Negative witness (C14-T).** With `maxTokens = 2^31 + 1` the counter starts at −(2^31 − 1):
    the state `sT` is reachable with nothing outstanding and nobody inside a method, and the very
    first `Get` fails (and restores the state), although 0 of `maxTokens` objects are outstanding —
    contradicting "exactly maxTokens further Gets succeed". -/
theorem c14_limitPool_truncation_witness :
    (sys cfgT).run (sys cfgT).init [.spawn] = some sT ∧ Quiescent sT ∧ outstanding sT = 0 ∧
    (0 : Int) < cfgT.maxTokens ∧ getCall cfgT sT 0 false = some (sT, false) := by
  refine ⟨by decide, by decide, by decide, by decide, by decide⟩

/-- …hence *no* Get ever succeeds: any number of consecutive Gets all fail. -/
theorem c14_limitPool_truncation_all_fail (n : Nat) :
    getMany cfgT sT 0 n = some (sT, List.replicate n false) := by
  induction n with
  | zero => rfl
  | succ n ih =>
    have h := c14_limitPool_truncation_witness.2.2.2.2
    simp only [getMany, h, ih, Option.map, List.replicate_succ]

/-- the boundary value `maxTokens = 2^31` starts at −2^31 and is rescued by the wrap of the first
    decrement (2^31 − 1 ≥ 0): the first Get succeeds -/
example : (init { maxTokens := 2147483648, maxThreads := 1 }).tokens.toInt = -2147483648 ∧
    (add32 (init { maxTokens := 2147483648, maxThreads := 1 }).tokens (-1)).toInt = 2147483647 := by decide

end Ekit.LimitPool

namespace Ekit.SegmentLock
open Ekit.Conc

/-! ### SegmentKeysLock -/

/-- **"an equal key string"**: the lock is a function of the key's *contents* — the model's keys are
    byte sequences, so two allocations holding the same bytes are the same argument.  (The harness
    checks this on the real code with equal strings built in distinct allocations.) -/
theorem c14_segment_idx_congr (size : BitVec 32) (k1 k2 : Key) (h : k1 = k2) : idx size k1 = idx size k2 := by
  rw [h]

/-- for every segment count ≥ 1 and every key (empty, long, non-ASCII — any bytes) `getLock`
    indexes inside `locks`; no panic -/
theorem c14_segment_idx_lt_size (size : BitVec 32) (hs : size ≠ 0#32) (k : Key) :
    ∃ i, idx size k = some i ∧ i < size.toNat :=
  ⟨seg size k, idx_eq size hs k, seg_lt size hs k⟩

/-- `size = 0` (outside the property's quantifier): the constructor succeeds, every method panics
    with an integer division by zero at first use -/
theorem c14_segment_size_zero_panics (k : Key) (s : State) (l : Label) :
    idx 0#32 k = none ∧ step 0#32 s l = none := by
  simp [idx, step]

/-- **"while a goroutine holds Lock(k), no other goroutine holds a read or write lock for an equal
    key string"** — in the strong form: every *other* recorded hold (of any thread, read or write)
    is on a different segment, in every reachable state of any number of threads. -/
theorem c14_segment_lock_excludes (size : BitVec 32) (hs : size ≠ 0#32) (s : State)
    (hr : (sys size).Reachable s) (h : Hold) (hm : h ∈ s.held) (hw : h.write = true) :
    ∀ h' ∈ s.held.erase h, seg size h'.key ≠ seg size h.key := by
  intro h' hm' heq
  have inv := inv_reachable size hs s hr
  obtain ⟨rw, _, _, _, hw1, hr0⟩ := writer_of_hold size hs s inv h hm hw
  have a := wcount_erase size h s.held (seg size h.key) hm
  simp [hw] at a
  cases hw' : h'.write with
  | true =>
    have : 0 < wcount size (s.held.erase h) (seg size h.key) :=
      countP_pos_of_mem _ _ h' hm' (by simp [hw', heq])
    omega
  | false =>
    have : 0 < rcount size s.held (seg size h.key) :=
      countP_pos_of_mem _ _ h' (List.mem_of_mem_erase hm') (by simp [hw', heq])
    omega

/-- the same in the property's words: thread `t` holds `Lock(k)` ⇒ no other thread holds a read or
    a write lock on a key with equal contents -/
theorem c14_segment_lock_excludes_key (size : BitVec 32) (hs : size ≠ 0#32) (s : State)
    (hr : (sys size).Reachable s) (t : Tid) (k : Key) (hm : ⟨t, k, true⟩ ∈ s.held)
    (t' : Tid) (ht : t' ≠ t) (w : Bool) : (⟨t', k, w⟩ : Hold) ∉ s.held := by
  intro hm'
  have hne : (⟨t', k, w⟩ : Hold) ≠ ⟨t, k, true⟩ := by
    intro e; injection e with e1; exact ht e1
  have := c14_segment_lock_excludes size hs s hr ⟨t, k, true⟩ hm rfl ⟨t', k, w⟩
    ((List.mem_erase_of_ne hne).mpr hm')
  exact this rfl

/-- **"… and TryLock/TryRLock on it fail"** (and Lock/RLock block): while `t` holds `Lock(k)`, for
    every thread and every key on the same segment — in particular every equal key — `TryLock` and
    `TryRLock` cannot return `true`, do return `false` leaving the state unchanged, and `Lock` /
    `RLock` cannot return. -/
theorem c14_segment_try_fails_while_locked (size : BitVec 32) (hs : size ≠ 0#32) (s : State)
    (hr : (sys size).Reachable s) (t : Tid) (k : Key) (hm : ⟨t, k, true⟩ ∈ s.held)
    (t' : Tid) (k' : Key) (hk : seg size k' = seg size k) :
    step size s ⟨t', .tryLock k' true⟩ = none ∧ step size s ⟨t', .tryRLock k' true⟩ = none ∧
    step size s ⟨t', .tryLock k' false⟩ = some s ∧ step size s ⟨t', .tryRLock k' false⟩ = some s ∧
    step size s ⟨t', .lock k'⟩ = none ∧ step size s ⟨t', .rlock k'⟩ = none := by
  have inv := inv_reachable size hs s hr
  obtain ⟨rw, hl, hw, hr0, _, _⟩ := writer_of_hold size hs s inv ⟨t, k, true⟩ hm rfl
  simp only at hl
  simp [step, idx_eq size hs, Op.key, hk, hl, RW.free, hw]

/-- **"read locks on one key can be shared"**: whenever no write lock is held on the key's
    segment — whatever read locks are — `RLock(k)` (and `TryRLock(k) = true`) is enabled for any
    thread and adds a read hold next to the existing ones. -/
theorem c14_segment_rlock_shared (size : BitVec 32) (hs : size ≠ 0#32) (s : State)
    (hr : (sys size).Reachable s) (k : Key)
    (hn : ∀ h ∈ s.held, h.write = true → seg size h.key ≠ seg size k) (t' : Tid) :
    ∃ s', step size s ⟨t', .rlock k⟩ = some s' ∧ step size s ⟨t', .tryRLock k true⟩ = some s' ∧
      s'.held = ⟨t', k, false⟩ :: s.held := by
  have inv := inv_reachable size hs s hr
  obtain ⟨rw, hl, hw⟩ := no_writer_of_no_hold size hs s inv k hn
  refine ⟨acquireR s (seg size k) rw t' k, ?_, ?_, rfl⟩ <;>
    simp [step, idx_eq size hs, Op.key, hl, hw]

/-- **"when nothing is held every TryLock succeeds"** — more generally whenever nothing is held on
    the key's segment: `TryLock(k)` returns `true` (acquiring the lock) and cannot return `false`. -/
theorem c14_segment_free_trylock_succeeds (size : BitVec 32) (hs : size ≠ 0#32) (s : State)
    (hr : (sys size).Reachable s) (k : Key) (hn : ∀ h ∈ s.held, seg size h.key ≠ seg size k) (t : Tid) :
    step size s ⟨t, .tryLock k true⟩ = some (acquireW s (seg size k) t k) ∧
    step size s ⟨t, .tryLock k false⟩ = none := by
  have inv := inv_reachable size hs s hr
  obtain ⟨rw, hl, hf⟩ := free_of_no_hold size hs s inv k hn
  simp [step, idx_eq size hs, Op.key, hl, hf]

theorem c14_segment_all_free_trylock_succeeds (size : BitVec 32) (hs : size ≠ 0#32) (s : State)
    (hr : (sys size).Reachable s) (hfree : s.held = []) (t : Tid) (k : Key) :
    step size s ⟨t, .tryLock k true⟩ = some (acquireW s (seg size k) t k) ∧
    step size s ⟨t, .tryLock k false⟩ = none :=
  c14_segment_free_trylock_succeeds size hs s hr k (by simp [hfree]) t

/-- a holder's `Unlock`/`RUnlock` is always enabled (it never hits Go's "unlock of unlocked
    RWMutex" fatal error) and removes exactly its hold -/
theorem c14_segment_holder_can_unlock (size : BitVec 32) (hs : size ≠ 0#32) (s : State)
    (hr : (sys size).Reachable s) (t : Tid) (k : Key) (w : Bool) (hm : ⟨t, k, w⟩ ∈ s.held) :
    ∃ s', step size s ⟨t, if w then .unlock k else .runlock k⟩ = some s' ∧
      s'.held = s.held.erase ⟨t, k, w⟩ := by
  have inv := inv_reachable size hs s hr
  cases w with
  | true =>
    obtain ⟨rw, hl, hw, _⟩ := writer_of_hold size hs s inv ⟨t, k, true⟩ hm rfl
    simp only at hl
    simp [step, idx_eq size hs, Op.key, hl, hm, hw]
  | false =>
    obtain ⟨rw, hl, _, hpos⟩ := readers_of_hold size hs s inv ⟨t, k, false⟩ hm rfl
    simp only at hl
    simp [step, idx_eq size hs, Op.key, hl, hm, hpos]

/-! #### the FNV-1a model on concrete inputs (the same vectors hash/fnv's own tests use) and
non-vacuity of the lock theorems -/

def bytes (s : String) : Key := s.toUTF8.toList

example : fnv1a32 [] = 0x811c9dc5#32 := by decide
example : fnv1a32 [97] = 0xe40c292c#32 := by decide                 -- "a"
example : fnv1a32 [97, 98] = 0x4d2505ca#32 := by decide             -- "ab"
example : fnv1a32 [97, 98, 99] = 0x1a47e90b#32 := by decide         -- "abc"

/-- two threads share a read lock on one key, a third thread's TryLock on it fails -/
example : ∃ s, (sys 4#32).run (sys 4#32).init [⟨1, .rlock [107]⟩, ⟨2, .tryRLock [107] true⟩, ⟨3, .tryLock [107] false⟩] = some s ∧
    s.held = [⟨2, [107], false⟩, ⟨1, [107], false⟩] := ⟨_, rfl, rfl⟩

/-- a state satisfying the hypotheses of `lock_excludes`: thread 1 holds Lock("k") while thread 2
    holds a read lock on a key of another segment -/
example : ∃ s, (sys 4#32).run (sys 4#32).init [⟨1, .lock [107]⟩, ⟨2, .rlock [108]⟩, ⟨3, .tryLock [107] false⟩,
      ⟨3, .tryRLock [107] false⟩] = some s ∧ (⟨1, [107], true⟩ : Hold) ∈ s.held ∧ s.held.length = 2 := by
  refine ⟨_, rfl, ?_, ?_⟩ <;> decide

end Ekit.SegmentLock
