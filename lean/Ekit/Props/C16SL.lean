/-
C16 / C04 — internal/slice at the level of Go's slices (backing arrays, aliasing, `append` in place or reallocating).

The theorems of Props/C16.lean and Props/C04.lean are about the hand-written value-level models `sliceAdd`, `sliceDelete`,
`sliceShrink` (Model/Lists.lean), in which a slice is `(contents, capacity)`.  Here the Go source itself —
`internal/slice/{add,delete,shrink}.go` translated statement by statement by `harness/minigosl` (Generated/SliceGo.lean) and
run by the MiniGo interpreter with aliasing slices (MiniGo/LangSL.lean: slice value = `(array, len, cap)`, a heap of full
backing arrays, `append` in place when `len < cap` and otherwise into a fresh array whose capacity is the runtime's
choice, index and re-slice bounds checks as panics, loops on fuel) — is proved to compute those models: same outcome,
same resulting contents and capacity, never a panic or a stuck state, and the heap effect is the stated one
(`Add`: in the argument's array iff `len < cap`, else a fresh array and the argument's array untouched;
`Delete`: always in the argument's array, spare slots untouched; `Shrink`: the very same slice value and an unchanged
heap, or a fresh array of the computed capacity).  Property theorems only; proofs are in Lemmas/SLRefine.lean.
-/
import Ekit.Lemmas.SLRefine

namespace Ekit.Props.C16SL
open Ekit.MiniGo.SL Ekit.Gen.SliceGo Ekit.Lists Ekit.MiniGo.SL.Refine
open Ekit.Go (Outcome Err)

/-- `slice.Add` as translated computes `sliceAdd` (the oracle offers room: `l + 1 ≤ g`; `l + 2` units of fuel suffice). -/
theorem c16_sl_add_refines (st : St) (a l c : Nat) (h : WFS st a l c) (e idx : Int) (g : Nat) (rest : List Nat)
    (hg : st.grow = g :: rest) (hroom : l + 1 ≤ g) (fuel : Nat) (hf : l + 2 ≤ fuel) :
    match sliceAdd (view st a l c) e idx g with
    | .err er => er = .idx l idx ∧
        run fuel proc_Add [.slice (some a) l c, .int e, .int idx] st = .ok (.pair (.slice none 0 0) (.errIdx l idx), st)
    | .ok r => ∃ a' st', run fuel proc_Add [.slice (some a) l c, .int e, .int idx] st =
          .ok (.pair (.slice (some a') r.vals.length r.cap) .nilErr, st') ∧
        WFS st' a' r.vals.length r.cap ∧ view st' a' r.vals.length r.cap = r ∧
        (if l < c then a' = a ∧ st'.grow = st.grow ∧ st'.alloc = st.alloc
         else a' = st.alloc ∧ st'.arrs a = st.arrs a ∧ st'.grow = rest ∧ st'.alloc = st.alloc + 1) ∧
        (∀ x, x ≠ a' → st'.arrs x = st.arrs x)
    | .panic _ => False :=
  add_sim st a l c h e idx g rest hg hroom fuel hf

/-- `slice.Delete` as translated computes `sliceDelete`, always in place (`l` units of fuel suffice). -/
theorem c16_sl_delete_refines (st : St) (a l c : Nat) (h : WFS st a l c) (idx : Int) (fuel : Nat) (hf : l ≤ fuel) :
    match sliceDelete (view st a l c) idx with
    | .err er => er = .idx l idx ∧
        run fuel proc_Delete [.slice (some a) l c, .int idx] st =
          .ok (.pair (.slice none 0 0) (.pair (.int 0) (.errIdx l idx)), st)
    | .ok (r, res) => ∃ st', run fuel proc_Delete [.slice (some a) l c, .int idx] st =
          .ok (.pair (.slice (some a) (l - 1) c) (.pair (.int res) .nilErr), st') ∧
        r.vals.length = l - 1 ∧ r.cap = c ∧ WFS st' a (l - 1) c ∧ view st' a (l - 1) c = r ∧
        (st'.arrs a).take l = shiftLeft ((st.arrs a).take l) l idx.toNat l ∧ (st'.arrs a).drop l = (st.arrs a).drop l ∧
        (∀ x, x ≠ a → st'.arrs x = st.arrs x) ∧ st'.alloc = st.alloc ∧ st'.grow = st.grow
    | .panic _ => False :=
  delete_sim st a l c h idx fuel hf

/-- `slice.Shrink` as translated computes `sliceShrink` (no loop: any fuel; the oracle is never consulted). -/
theorem c04_sl_shrink_refines (st : St) (a l c : Nat) (h : WFS st a l c) (g' : Nat) (fuel : Nat) :
    match sliceShrink (view st a l c) g' with
    | .err _ => False
    | .panic _ => run fuel proc_Shrink [.slice (some a) l c] st = .error .panic
    | .ok r => ∃ a' st', run fuel proc_Shrink [.slice (some a) l c] st = .ok (.slice (some a') r.vals.length r.cap, st') ∧
        WFS st' a' r.vals.length r.cap ∧ view st' a' r.vals.length r.cap = r ∧ r.vals = (view st a l c).vals ∧
        (match Ekit.Gen.calCapacity c l with
         | some (n, true) =>
           a' = st.alloc ∧ r.cap = n.toNat ∧ st'.alloc = st.alloc + 1 ∧ st'.grow = st.grow ∧
             ∀ x, x ≠ st.alloc → st'.arrs x = st.arrs x
         | _ => a' = a ∧ r = view st a l c ∧ st'.arrs = st.arrs ∧ st'.alloc = st.alloc ∧ st'.grow = st.grow) :=
  shrink_sim st a l c h g' fuel

/-- for a well-formed slice `Shrink` never panics (the model's panic outcomes are unreachable) -/
theorem c04_sl_shrink_no_panic (st : St) (a l c : Nat) (h : WFS st a l c) (g' : Nat) :
    ∃ r, sliceShrink (view st a l c) g' = .ok r := by
  have hvl : ((st.arrs a).take l).length = l := by rw [List.length_take]; have := h.1; have := h.2.1; omega
  have hs := calCapacity_isSome (c : Int) (l : Int)
  simp only [sliceShrink, view, hvl]
  cases hc : Ekit.Gen.calCapacity (c : Int) (l : Int) with
  | none => rw [hc] at hs; simp at hs
  | some p =>
    obtain ⟨n, ch⟩ := p
    cases ch with
    | false => exact ⟨_, rfl⟩
    | true =>
      have := calCapacity_changed_ge (c : Int) (l : Int) n (by omega) (by have := h.2.1; omega) hc
      have hn : ¬ n < 0 := by omega
      simp only [Bool.not_true, Bool.false_eq_true, if_false, hn]
      exact ⟨_, rfl⟩


end Ekit.Props.C16SL
