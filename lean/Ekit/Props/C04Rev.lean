/-
C04 — review additions (adversarial review of Props/C04.lean).

Gaps closed here:
* "never panics" and "a failing call leaves the list unchanged" were proved for ArrayList (and the
  latter for the copy-on-write list) only: `c04_anyList_no_panic`, `c04_anyList_err_unchanged` cover
  all three implementations, the second one for the WHOLE state (contents and capacity).
* "any call with an index outside its permitted range returns an error" was proved for
  `ArrayList.Add` only: `c04_anyList_err_iff_out_of_range` — for every implementation and every indexed
  call the result is the index error carrying (len, index) EXACTLY when the index is outside
  `[0,len)` (`[0,len]` for Add), and a value otherwise.
* history level: only ArrayList had a run theorem.  `c04_anyList_run_refines` (all three, every
  history, every growth choice), `c04_anyList_run_no_panic`, and the capacity invariant lifted from one
  step to every history (`c04_arrayList_run_len_le_cap`, with the oracle constraint stated per step
  only where the runtime actually allocates: `growOK`).  The one-step original demanded
  `len+1 ≤ grow` even of calls that never allocate.
* loops "as the loops they are": the two walks of `LinkedList.findNode` and the copy loop of
  `CopyOnWriteArrayList.Delete` are closed forms in the model; here they are written as the loops of the
  source and proved equal to the closed forms the model uses (`c04_linked_walk_loops`,
  `c04_cow_delete_loop`).
* the specification is sane: an erroring abstract call changes nothing, the abstract sequence never
  panics (`c04_spec_err_unchanged`).
-/
import Ekit.Props.C04

namespace Ekit.Lists
open Ekit.Go

/-! #### the specification -/

/-- the abstract sequence: an error leaves it unchanged, and it never panics -/
theorem c04_spec_err_unchanged (s : List Int) (op : Op) :
    ((Spec.step s op).2.isErr = true → (Spec.step s op).1 = s) ∧ (Spec.step s op).2.isPanic = false := by
  cases op <;> simp only [Spec.step] <;> (try split) <;> simp [Outcome.isErr, Outcome.isPanic]

/-- the permitted index range of a call on a sequence of length `n` (`none`: the call takes no index) -/
def permitted (n : Nat) : Op → Option Bool
  | .get i | .set i _ | .delete i => some (decide (0 ≤ i ∧ i < (n : Int)))
  | .add i _ => some (decide (0 ≤ i ∧ i ≤ (n : Int)))
  | _ => none

def opIndex : Op → Int
  | .get i | .set i _ | .delete i | .add i _ => i
  | _ => 0

theorem spec_err_iff (s : List Int) (op : Op) :
    (permitted s.length op = some false → (Spec.step s op).2 = .err (.idx s.length (opIndex op))) ∧
    (permitted s.length op ≠ some false → (Spec.step s op).2.isOk = true) := by
  cases op <;> simp only [permitted, opIndex, Spec.step, Spec.inRange] <;> constructor <;> intro h <;>
    simp_all [Outcome.isOk] <;> (try split) <;> simp_all [Outcome.isOk] <;> omega

/-! #### all three implementations -/

/-- No call on any list implementation panics — whatever the capacity, growth choice and index. -/
theorem c04_anyList_no_panic (x : AnyList) (grow : Nat) (op : Op) : (x.step grow op).2.isPanic = false := by
  have h := c04_anyList_step_refines x grow op
  have : (x.step grow op).2 = (Spec.step x.vals op).2 := by rw [← h]
  rw [this]
  exact (c04_spec_err_unchanged x.vals op).2

/-- A call that reports an error leaves the WHOLE state of the list (contents and capacity / the
    linked chain) unchanged — all three implementations. -/
theorem c04_anyList_err_unchanged (x : AnyList) (grow : Nat) (op : Op)
    (h : (x.step grow op).2.isErr = true) : (x.step grow op).1 = x := by
  cases x with
  | array a =>
    simp only [AnyList.step] at h ⊢
    rw [c04_arrayList_err_unchanged a grow op h]
  | cow a =>
    simp only [AnyList.step] at h ⊢
    rw [c04_cow_err_unchanged a op h]
  | linked l =>
    simp only [AnyList.step] at h ⊢
    rw [c04_linked_step_refines] at h ⊢
    rw [(c04_spec_err_unchanged l op).1 h]

/-- "Any call with an index outside its permitted range returns an error" — and only those: for
    every implementation the result is `ErrIndexOutOfRange(len, index)` exactly when the index is
    outside `[0,len)` (`[0,len]` for `Add`); every other call succeeds. -/
theorem c04_anyList_err_iff_out_of_range (x : AnyList) (grow : Nat) (op : Op) :
    (permitted x.vals.length op = some false →
        (x.step grow op).2 = .err (.idx x.vals.length (opIndex op)) ∧ (x.step grow op).1 = x) ∧
    (permitted x.vals.length op ≠ some false → (x.step grow op).2.isOk = true) := by
  have h := c04_anyList_step_refines x grow op
  have e : (x.step grow op).2 = (Spec.step x.vals op).2 := by rw [← h]
  obtain ⟨h1, h2⟩ := spec_err_iff x.vals op
  constructor
  · intro hp
    have := h1 hp
    refine ⟨e.trans this, c04_anyList_err_unchanged x grow op ?_⟩
    rw [e, this]; rfl
  · intro hp; rw [e]; exact h2 hp

/-- running a history on any implementation; one growth choice per call -/
def AnyList.run (x : AnyList) : List (Nat × Op) → AnyList × List Out
  | [] => (x, [])
  | (g, op) :: rest =>
    let r := x.step g op
    let rr := AnyList.run r.1 rest
    (rr.1, r.2 :: rr.2)

/-- **Refinement for every history, all implementations**: every output and the final contents are
    the abstract sequence's — for every initial capacity and every sequence of growth choices. -/
theorem c04_anyList_run_refines (x : AnyList) (h : List (Nat × Op)) :
    ((AnyList.run x h).1.vals, (AnyList.run x h).2) = Spec.run x.vals (h.map (·.2)) := by
  induction h generalizing x with
  | nil => rfl
  | cons p rest ih =>
    obtain ⟨g, op⟩ := p
    have h1 := c04_anyList_step_refines x g op
    have h2 := ih (x.step g op).1
    simp only [AnyList.run, List.map, Spec.run]
    rw [← h1]
    simp only []
    rw [← h2]

/-- no call of any history panics -/
theorem c04_anyList_run_no_panic (x : AnyList) (h : List (Nat × Op)) :
    ∀ o ∈ (AnyList.run x h).2, o.isPanic = false := by
  induction h generalizing x with
  | nil => intro o ho; cases ho
  | cons p rest ih =>
    obtain ⟨g, op⟩ := p
    intro o ho
    simp only [AnyList.run, List.mem_cons] at ho
    rcases ho with rfl | ho
    · exact c04_anyList_no_panic x g op
    · exact ih _ o ho

/-! #### the capacity invariant over histories -/

/-- the only thing assumed of the Go runtime: when `append` has to allocate (in `Append` and in
    `slice.Add`), the new capacity is at least the needed length. Nothing is assumed of calls that
    do not allocate. -/
def growOK (a : ArrayList) (g : Nat) : Op → Prop
  | .append ts => a.s.appendAllocates ts.length = true → a.s.vals.length + ts.length ≤ g
  | .add i _ => (0 ≤ i ∧ i ≤ (a.s.vals.length : Int)) → a.s.appendAllocates 1 = true → a.s.vals.length + 1 ≤ g
  | _ => True

/-- one step, under the weakest oracle constraint -/
theorem arrayList_len_le_cap' (a : ArrayList) (grow : Nat) (op : Op)
    (hinv : a.s.vals.length ≤ a.s.cap) (hg : growOK a grow op) :
    (a.step grow op).1.s.vals.length ≤ (a.step grow op).1.s.cap := by
  cases op with
  | append ts =>
    simp only [growOK, GoSlice.appendAllocates] at hg
    simp only [ArrayList.step, GoSlice.append]
    split
    · simp; omega
    · rename_i hh
      have := hg (by simpa using hh)
      simp; omega
  | add i t =>
    simp only [growOK, GoSlice.appendAllocates] at hg
    by_cases hgd : i < 0 ∨ i > (a.s.vals.length : Int)
    · simp [ArrayList.step, sliceAdd, hgd]; exact hinv
    · simp only [ArrayList.step, sliceAdd, hgd, if_false, GoSlice.append]
      split
      · simp [length_shiftRight]; omega
      · rename_i hh
        have := hg (by omega) (by simpa using hh)
        simp [length_shiftRight]; omega
  | get i => simp only [ArrayList.step]; split <;> exact hinv
  | set i t =>
    simp only [ArrayList.step]
    split
    · exact hinv
    · simp; exact hinv
  | delete i =>
    -- the result of Delete does not use `grow` when len ≤ cap: reuse the original theorem at a large grow
    by_cases hgd : i < 0 ∨ i ≥ (a.s.vals.length : Int)
    · simp [ArrayList.step, sliceDelete, hgd]; exact hinv
    · have hi : i.toNat < a.s.vals.length := by omega
      have key := shiftLeft_erase a.s.vals i.toNat hi
      simp only [ArrayList.step, sliceDelete, hgd, if_false, key, sliceShrink]
      have hlen : (a.s.vals.eraseIdx i.toNat).length = a.s.vals.length - 1 := by
        simp [List.length_eraseIdx, hi]
      cases hc : Ekit.Gen.calCapacity (a.s.cap : Int) ((a.s.vals.eraseIdx i.toNat).length : Int) with
      | none => simp; omega
      | some p =>
        obtain ⟨n, ch⟩ := p
        cases ch with
        | false => simp; omega
        | true =>
          have := calCapacity_changed_ge (a.s.cap : Int) ((a.s.vals.eraseIdx i.toNat).length : Int) n
            (by omega) (by omega) hc
          have hn : ¬ n < 0 := by omega
          simp only [hn, Bool.not_true, Bool.false_eq_true, if_false, GoSlice.append]
          split
          · simp; omega
          · rename_i hh2; simp at hh2; omega
  | len => exact hinv
  | asSlice => exact hinv
  | range => exact hinv

/-- the oracle constraint along a history -/
def growsOK (a : ArrayList) : List (Nat × Op) → Prop
  | [] => True
  | (g, op) :: rest => growOK a g op ∧ growsOK (a.step g op).1 rest

/-- **`len ≤ cap` after every history** (from any state satisfying it, in particular from
    `NewArrayList(cap)`), assuming of the runtime only that an allocating `append` returns enough room. -/
theorem c04_arrayList_run_len_le_cap (a : ArrayList) (h : List (Nat × Op))
    (hinv : a.s.vals.length ≤ a.s.cap) (hg : growsOK a h) :
    (ArrayList.run a h).1.s.vals.length ≤ (ArrayList.run a h).1.s.cap := by
  induction h generalizing a with
  | nil => exact hinv
  | cons p rest ih =>
    obtain ⟨g, op⟩ := p
    exact ih _ (arrayList_len_le_cap' a g op hinv hg.1) hg.2

theorem growsOK_take (a : ArrayList) (h : List (Nat × Op)) (n : Nat) (hg : growsOK a h) : growsOK a (h.take n) := by
  induction h generalizing a n with
  | nil => simp [growsOK]
  | cons p rest ih =>
    obtain ⟨g, op⟩ := p
    cases n with
    | zero => simp [growsOK]
    | succ n => exact ⟨hg.1, ih _ n hg.2⟩

/-- the constraint is prefix-closed, so the invariant holds at every instant of the history -/
theorem c04_arrayList_len_le_cap_always (a : ArrayList) (h : List (Nat × Op)) (n : Nat)
    (hinv : a.s.vals.length ≤ a.s.cap) (hg : growsOK a h) :
    (ArrayList.run a (h.take n)).1.s.vals.length ≤ (ArrayList.run a (h.take n)).1.s.cap :=
  c04_arrayList_run_len_le_cap a _ hinv (growsOK_take a h n hg)

instance (a : ArrayList) (g : Nat) (op : Op) : Decidable (growOK a g op) := by
  cases op <;> simp only [growOK] <;> infer_instance

instance growsOKDec : (a : ArrayList) → (h : List (Nat × Op)) → Decidable (growsOK a h)
  | _, [] => isTrue trivial
  | a, (g, op) :: rest =>
    have := growsOKDec (a.step g op).1 rest
    by simp only [growsOK]; infer_instance

/-- the constructor establishes the invariant (and panics exactly on a negative capacity, as `make` does) -/
theorem c04_arrayList_new (cap : Int) :
    (cap < 0 → (ArrayList.new cap).isPanic = true) ∧
    (∀ a, ArrayList.new cap = .ok a → a.s.vals = [] ∧ (a.s.cap : Int) = cap ∧ a.s.vals.length ≤ a.s.cap) := by
  constructor
  · intro h; simp [ArrayList.new, h, Outcome.isPanic]
  · intro a h
    simp only [ArrayList.new] at h
    split at h
    · cases h
    · cases h; simp; omega

/-! #### the loops of the source behind the closed forms of the model -/

/-- `for i := -1; i < index; i++ { cur = cur.next }` : `pos` is the position of `cur` -/
def fwdLoop (index : Int) (i pos : Int) : Nat → Int
  | 0 => pos
  | fuel + 1 => if i < index then fwdLoop index (i + 1) (pos + 1) fuel else pos

/-- `for i := l.Len(); i > index; i-- { cur = cur.prev }` -/
def backLoop (index : Int) (i pos : Int) : Nat → Int
  | 0 => pos
  | fuel + 1 => if i > index then backLoop index (i - 1) (pos - 1) fuel else pos

theorem fwdLoop_eq (index i pos : Int) (fuel : Nat) (hf : index - i ≤ fuel) :
    fwdLoop index i pos fuel = pos + (if i < index then index - i else 0) := by
  induction fuel generalizing i pos with
  | zero => simp only [fwdLoop]; split <;> omega
  | succ f ih =>
    simp only [fwdLoop]
    split
    · rw [ih (i + 1) (pos + 1) (by omega)]; split <;> omega
    · omega

theorem backLoop_eq (index i pos : Int) (fuel : Nat) (hf : i - index ≤ fuel) :
    backLoop index i pos fuel = pos - (if i > index then i - index else 0) := by
  induction fuel generalizing i pos with
  | zero => simp only [backLoop]; split <;> omega
  | succ f ih =>
    simp only [backLoop]
    split
    · rw [ih (i - 1) (pos - 1) (by omega)]; split <;> omega
    · omega

/-- the model's `walkFwd` / `walkBack` are the two loops of `findNode` (run with enough fuel to
    terminate by their own guard), started at `head` (position -1) resp. `tail` (position len) -/
theorem c04_linked_walk_loops (len index : Int) (fuel : Nat) (hf : len + 1 ≤ fuel) (h0 : -1 ≤ index) (h1 : index ≤ len) :
    LinkedList.walkFwd index = fwdLoop index (-1) (-1) fuel ∧
    LinkedList.walkBack len index = backLoop index len len fuel := by
  rw [fwdLoop_eq _ _ _ _ (by omega), backLoop_eq _ _ _ _ (by omega)]
  constructor <;> first | rfl | (simp only [LinkedList.walkFwd, LinkedList.walkBack]; split <;> omega)

/-- the copy loop of `CopyOnWriteArrayList.Delete`:
    `item := 0; for i, v := range a.vals { if i == index { ret = v; continue }; newItems[item] = v; item++ }`
    (`acc` = the filled prefix `newItems[:item]`) -/
def cowDeleteLoop (index : Nat) : List Int → Nat → List Int × Option Int → List Int × Option Int
  | [], _, st => st
  | v :: rest, i, (acc, ret) =>
    if i = index then cowDeleteLoop index rest (i + 1) (acc, some v)
    else cowDeleteLoop index rest (i + 1) (acc ++ [v], ret)

theorem cowDeleteLoop_spec (index : Nat) (l : List Int) (i : Nat) (acc : List Int) (ret : Option Int) :
    cowDeleteLoop index l i (acc, ret) =
      if i ≤ index ∧ index < i + l.length then (acc ++ l.eraseIdx (index - i), l[index - i]?)
      else (acc ++ l, ret) := by
  induction l generalizing i acc ret with
  | nil => simp [cowDeleteLoop]; omega
  | cons v rest ih =>
    simp only [cowDeleteLoop]
    by_cases h : i = index
    · subst h
      simp only [if_true]
      rw [ih]
      have : ¬ (i + 1 ≤ i ∧ i < i + 1 + rest.length) := by omega
      simp [this]
    · simp only [h, if_false]
      rw [ih]
      by_cases h2 : i + 1 ≤ index ∧ index < i + 1 + rest.length
      · have h3 : i ≤ index ∧ index < i + (rest.length + 1) := by omega
        simp only [List.length_cons, h2, h3, and_self, if_true]
        have : index - i = (index - (i + 1)) + 1 := by omega
        rw [this]
        simp
      · have h3 : ¬ (i ≤ index ∧ index < i + (rest.length + 1)) := by omega
        simp only [List.length_cons, h2, h3, if_false]
        simp

/-- … computes what the model's `Delete` uses: the list without element `index`, and that element -/
theorem c04_cow_delete_loop (l : List Int) (index : Nat) (h : index < l.length) :
    cowDeleteLoop index l 0 ([], none) = (l.eraseIdx index, some (l.getD index 0)) := by
  rw [cowDeleteLoop_spec]
  simp [h, List.getD, List.getElem?_eq_getElem h]

/-! #### non-vacuity -/

/-- a history with failing calls in the middle on each implementation: the errors carry (len, index),
    the contents afterwards are those of the abstract sequence -/
def hist : List (Nat × Op) :=
  [(4, .append [1, 2, 3]), (0, .add 5 9), (0, .get 3), (8, .add 3 4), (0, .delete (-1)), (0, .set 4 0),
   (0, .delete 0), (0, .asSlice)]

example : (AnyList.run (.array (ArrayList.ofSlice [] 0)) hist).2 =
    [.ok .unit, .err (.idx 3 5), .err (.idx 3 3), .ok .unit, .err (.idx 4 (-1)), .err (.idx 4 4),
     .ok (.val 1), .ok (.slice [2, 3, 4])] := by decide
example : (AnyList.run (.cow CowList.new) hist).2 = (AnyList.run (.array (ArrayList.ofSlice [] 0)) hist).2 := by decide
example : (AnyList.run (.linked []) hist).2 = (AnyList.run (.array (ArrayList.ofSlice [] 0)) hist).2 := by decide
example : growsOK (ArrayList.ofSlice [] 0) hist := by decide
/-- capacity > 2048: deleting from a nearly empty list shrinks to 5/8 and keeps the contents -/
example : ((ArrayList.ofSlice [7, 8] 4096).step 0 (.delete 0)) = (⟨⟨[8], 2560⟩⟩, .ok (.val 7)) := by decide
/-- capacity 65, drained to empty: no division by zero, shrinks to 32 -/
example : ((ArrayList.ofSlice [7] 65).step 0 (.delete 0)) = (⟨⟨[], 32⟩⟩, .ok (.val 7)) := by decide
example : cowDeleteLoop 1 [5, 6, 7] 0 ([], none) = ([5, 7], some 6) := by decide
example : permitted 3 (.add 3 0) = some true ∧ permitted 3 (.get 3) = some false ∧ permitted 3 .len = none := by decide

end Ekit.Lists
