/-
C16 — Slice, map and pair helpers compute the exact mathematical result.

Property theorems only.  Models: Ekit/Model/Slices.lean (package slice), Ekit/Model/SlicesKV.lean
(mapx, tuple/pair), Ekit/Model/Lists.lean (internal/slice Add/Delete, shared with C04).
Abstract specification: Ekit/Spec/Slices.lean.  Helper lemmas: Ekit/Lemmas/Slices*.lean.

All statements are over an arbitrary element type `α` (with decidable equality where the Go code
needs `comparable`), arbitrary slices, arbitrary predicates / equality functions / index-aware
callbacks, every index, every map-iteration order the runtime may choose (`IterOrder`) and every
enumeration of a result map (`Enumerates`).
-/
import Ekit.Lemmas.SlicesSet
import Ekit.Lemmas.SlicesFunc
import Ekit.Lemmas.SlicesSeq
import Ekit.Lemmas.SlicesInPlace
import Ekit.Lemmas.SlicesKV

namespace Ekit.Slices
open Ekit.Go Ekit.Lists

/-! ## 1. "the slice set functions return exactly the corresponding set without duplicates" -/
section Sets
variable {α : Type} [DecidableEq α]

/-- UnionSet: whatever order the runtime visits `srcMap` in (`it`) and whatever order it enumerates
    the final `dstMap` in (`r`), the result has no duplicates and contains exactly the elements of
    `src` or `dst`. -/
theorem c16_unionSet (src dst it r : List α) (hit : IterOrder (toMap src) it)
    (hr : Enumerates (unionSetWith it dst) r) :
    r.Nodup ∧ ∀ x, x ∈ r ↔ x ∈ src ∨ x ∈ dst := by
  obtain ⟨h1, h2⟩ := (enumerates_iff nodup_unionSetWith).mp hr
  exact ⟨h1, fun x => (h2 x).trans (mem_unionSetWith hit)⟩

/-- IntersectSet (membership test of `dst`'s elements in `srcMap`, then `deduplicate`). -/
theorem c16_intersectSet (src dst r : List α) (hr : Enumerates (intersectSet src dst) r) :
    r.Nodup ∧ ∀ x, x ∈ r ↔ x ∈ src ∧ x ∈ dst := by
  obtain ⟨h1, h2⟩ := (enumerates_iff nodup_intersectSet).mp hr
  exact ⟨h1, fun x => (h2 x).trans mem_intersectSet⟩

/-- DiffSet. -/
theorem c16_diffSet (src dst r : List α) (hr : Enumerates (diffSet src dst) r) :
    r.Nodup ∧ ∀ x, x ∈ r ↔ x ∈ src ∧ x ∉ dst := by
  obtain ⟨h1, h2⟩ := (enumerates_iff nodup_diffSet).mp hr
  exact ⟨h1, fun x => (h2 x).trans mem_diffSet⟩

/-- SymmetricDiffSet, for every visiting order `it` of `dstMap` (the loop mutates `srcMap` while it
    looks keys up in it, so that each key of `dst` is visited exactly once matters). -/
theorem c16_symDiffSet (src dst it r : List α) (hit : IterOrder (toMap dst) it)
    (hr : Enumerates (symDiffSetWith it src) r) :
    r.Nodup ∧ ∀ x, x ∈ r ↔ (x ∈ src ∧ x ∉ dst) ∨ (x ∉ src ∧ x ∈ dst) := by
  obtain ⟨h1, h2⟩ := (enumerates_iff (nodup_symDiffSetWith hit)).mp hr
  exact ⟨h1, fun x => (h2 x).trans (mem_symDiffSetWith hit)⟩

/-- The Boolean specification used by the driver's `spec` mode says exactly "no duplicates and the
    right elements" … -/
theorem c16_spec_sets_meaning (src dst r : List α) :
    (Spec.union r src dst = true ↔ r.Nodup ∧ ∀ x, x ∈ r ↔ x ∈ src ∨ x ∈ dst) ∧
    (Spec.inter r src dst = true ↔ r.Nodup ∧ ∀ x, x ∈ r ↔ x ∈ src ∧ x ∈ dst) ∧
    (Spec.diff r src dst = true ↔ r.Nodup ∧ ∀ x, x ∈ r ↔ x ∈ src ∧ x ∉ dst) ∧
    (Spec.symDiff r src dst = true ↔ r.Nodup ∧ ∀ x, x ∈ r ↔ (x ∈ src ∧ x ∉ dst) ∨ (x ∉ src ∧ x ∈ dst)) := by
  refine ⟨?_, ?_, ?_, ?_⟩
  · unfold Spec.union
    rw [Spec.isSetOf_iff (by intro x; simp [Spec.unionMem])]
    simp [Spec.unionMem]
  · unfold Spec.inter
    rw [Spec.isSetOf_iff (by intro x; simp [Spec.interMem]; intro h _; exact Or.inl h)]
    simp [Spec.interMem]
  · unfold Spec.diff
    rw [Spec.isSetOf_iff (by intro x; simp [Spec.diffMem]; intro h _; exact Or.inl h)]
    simp [Spec.diffMem]
  · unfold Spec.symDiff
    rw [Spec.isSetOf_iff (by
      intro x; simp only [Spec.symMem, List.mem_append]
      by_cases h1 : x ∈ src <;> by_cases h2 : x ∈ dst <;> simp [h1, h2])]
    apply and_congr Iff.rfl
    apply forall_congr'
    intro x
    apply iff_congr Iff.rfl
    simp only [Spec.symMem]
    by_cases h1 : x ∈ src <;> by_cases h2 : x ∈ dst <;> simp [h1, h2]

/-- … and the acceptor of `model` mode (an enumeration of the model's final map) accepts exactly the
    same results: for the map-based functions model and specification coincide. -/
theorem c16_model_iff_spec_sets (src dst r : List α) :
    (Enumerates (unionSet src dst) r ↔ Spec.union r src dst = true) ∧
    (Enumerates (intersectSet src dst) r ↔ Spec.inter r src dst = true) ∧
    (Enumerates (diffSet src dst) r ↔ Spec.diff r src dst = true) ∧
    (Enumerates (symDiffSet src dst) r ↔ Spec.symDiff r src dst = true) := by
  obtain ⟨s1, s2, s3, s4⟩ := c16_spec_sets_meaning src dst r
  refine ⟨?_, ?_, ?_, ?_⟩
  · unfold unionSet
    rw [s1, enumerates_iff nodup_unionSetWith]
    exact and_congr Iff.rfl (forall_congr' fun x => iff_congr Iff.rfl (mem_unionSetWith (List.Perm.refl _)))
  · rw [s2, enumerates_iff nodup_intersectSet]
    exact and_congr Iff.rfl (forall_congr' fun x => iff_congr Iff.rfl mem_intersectSet)
  · rw [s3, enumerates_iff nodup_diffSet]
    exact and_congr Iff.rfl (forall_congr' fun x => iff_congr Iff.rfl mem_diffSet)
  · unfold symDiffSet
    rw [s4, enumerates_iff (nodup_symDiffSetWith (List.Perm.refl _))]
    exact and_congr Iff.rfl (forall_congr' fun x => iff_congr Iff.rfl (mem_symDiffSetWith (List.Perm.refl _)))

/-- ContainsAny / ContainsAll (map-based). -/
theorem c16_containsAny_iff (src dst : List α) :
    containsAny src dst = true ↔ ∃ x, x ∈ dst ∧ x ∈ src := by
  unfold containsAny
  rw [containsAny_go_iff]
  exact exists_congr fun x => and_congr Iff.rfl mem_toMap

theorem c16_containsAll_iff (src dst : List α) :
    containsAll src dst = true ↔ ∀ x, x ∈ dst → x ∈ src := by
  unfold containsAll
  rw [containsAll_go_iff]
  exact forall_congr' fun x => imp_congr Iff.rfl mem_toMap

/-- Contains. -/
theorem c16_contains_iff (src : List α) (x : α) : contains src x = true ↔ x ∈ src := by
  unfold contains
  rw [containsFunc_iff]
  constructor
  · rintro ⟨y, hy, he⟩; simp at he; subst he; exact hy
  · intro h; exact ⟨x, h, by simp⟩

end Sets

/-! ## 2. "their predicate-taking variants agree with the comparable variants" -/
section FuncVariants
variable {α : Type} [DecidableEq α]

/-- With `==` as the equality function every quadratic variant returns one of the results the
    map-based variant may return (same set, no duplicates). -/
theorem c16_func_agrees (src dst : List α) :
    Enumerates (unionSet src dst) (unionSetFunc src dst beqFn) ∧
    Enumerates (intersectSet src dst) (intersectSetFunc src dst beqFn) ∧
    Enumerates (diffSet src dst) (diffSetFunc src dst beqFn) ∧
    Enumerates (symDiffSet src dst) (symDiffSetFunc src dst beqFn) := by
  refine ⟨?_, ?_, ?_, ?_⟩
  · unfold unionSet
    rw [enumerates_iff nodup_unionSetWith]
    refine ⟨nodup_dedup_beq _, fun x => ?_⟩
    rw [unionSetFunc, mem_dedup_beq, mem_unionSetWith (List.Perm.refl _), List.mem_append]
    exact Or.comm
  · rw [enumerates_iff nodup_intersectSet]
    refine ⟨nodup_dedup_beq _, fun x => ?_⟩
    rw [intersectSetFunc, mem_dedup_beq, mem_intersectSet, List.mem_filter, containsFunc_iff]
    constructor
    · rintro ⟨h1, y, hy, he⟩; simp at he; subst he; exact ⟨hy, h1⟩
    · rintro ⟨h1, h2⟩; exact ⟨h2, x, h1, by simp⟩
  · rw [enumerates_iff nodup_diffSet]
    refine ⟨nodup_dedup_beq _, fun x => ?_⟩
    rw [diffSetFunc, mem_dedup_beq, mem_diffSet, List.mem_filter]
    simp only [Bool.not_eq_true', containsFunc_false_iff, decide_eq_false_iff_not]
    constructor
    · rintro ⟨h1, h2⟩; exact ⟨h1, fun hx => h2 x hx rfl⟩
    · rintro ⟨h1, h2⟩; exact ⟨h1, fun y hy e => h2 (e ▸ hy)⟩
  · unfold symDiffSet
    rw [enumerates_iff (nodup_symDiffSetWith (List.Perm.refl _))]
    refine ⟨nodup_dedup_beq _, fun x => ?_⟩
    rw [symDiffSetFunc, mem_dedup_beq, mem_symDiffSetWith (List.Perm.refl _), List.mem_append,
      List.mem_filter, List.mem_filter]
    simp only [Bool.not_eq_true', containsFunc_false_iff, decide_eq_false_iff_not]
    constructor
    · rintro (⟨h1, h2⟩ | ⟨h1, h2⟩)
      · exact Or.inl ⟨h1, fun hx => h2 x hx rfl⟩
      · exact Or.inr ⟨fun hx => h2 x hx rfl, h1⟩
    · rintro (⟨h1, h2⟩ | ⟨h1, h2⟩)
      · exact Or.inl ⟨h1, fun y hy e => h2 (e ▸ hy)⟩
      · exact Or.inr ⟨h2, fun y hy e => h1 (e ▸ hy)⟩

/-- With an arbitrary reflexive, transitive equality function: the result consists of elements of
    the arguments, pairwise inequivalent, one for every class that has to be represented
    (`Spec.isRepsOf`, the acceptor of `spec` mode). -/
theorem c16_func_representatives (src dst : List α) (eq : α → α → Bool) (hrefl : ∀ a, eq a a = true)
    (htrans : ∀ a b c, eq a b = true → eq b c = true → eq a c = true) :
    Spec.isRepsOf (unionSetFunc src dst eq) (src ++ dst) (Spec.unionWant src dst) eq = true ∧
    Spec.isRepsOf (intersectSetFunc src dst eq) (src ++ dst) (Spec.interWant src dst eq) eq = true ∧
    Spec.isRepsOf (diffSetFunc src dst eq) (src ++ dst) (Spec.diffWant src dst eq) eq = true ∧
    Spec.isRepsOf (symDiffSetFunc src dst eq) (src ++ dst) (Spec.symWant src dst eq) eq = true := by
  refine ⟨?_, ?_, ?_, ?_⟩
  · rw [unionSetFunc_eq]
    exact dedup_isRepsOf (by intro x; simp [Spec.unionWant]; exact Or.symm) hrefl htrans
  · rw [intersectSetFunc_eq]
    exact dedup_isRepsOf (by intro x hx; simp [Spec.interWant] at hx; simp [hx.1]) hrefl htrans
  · rw [diffSetFunc_eq]
    exact dedup_isRepsOf (by intro x hx; simp [Spec.diffWant] at hx; simp [hx.1]) hrefl htrans
  · rw [symDiffSetFunc_eq]
    exact dedup_isRepsOf (by
      intro x hx; simp [Spec.symWant] at hx
      rcases hx with h | h
      · simp [h.1]
      · simp [h.1]) hrefl htrans

/-- what `Spec.isRepsOf` says, as a proposition -/
theorem c16_isRepsOf_meaning (r pool want : List α) (eq : α → α → Bool) :
    Spec.isRepsOf r pool want eq = true ↔
      (∀ y, y ∈ r → y ∈ pool ∧ ∃ x, x ∈ want ∧ eq y x = true) ∧
      r.Pairwise (fun a b => eq b a = false) ∧
      (∀ x, x ∈ want → ∃ y, y ∈ r ∧ eq y x = true) := by
  unfold Spec.isRepsOf
  simp only [Bool.and_eq_true, List.all_eq_true, List.any_eq_true, decide_eq_true_eq]
  constructor
  · rintro ⟨⟨h1, h2⟩, h3⟩; exact ⟨h1, h2, h3⟩
  · rintro ⟨h1, h2, h3⟩; exact ⟨⟨h1, h2⟩, h3⟩

omit [DecidableEq α] in
/-- which of several equal elements survives: exactly the elements that have no `equal` element
    AFTER them, in their original order (so the LAST of a group of duplicates is kept) -/
theorem c16_dedup_keeps_last (l : List α) (eq : α → α → Bool) :
    deduplicateFunc l eq =
      (l.zipIdx.filter (fun x => !(l.drop (x.2 + 1)).any (fun s => eq s x.1))).map (·.1) := by
  have := dedup_positions_aux l eq 0
  simpa using this

omit [DecidableEq α] in
/-- ContainsAnyFunc / ContainsAllFunc for an arbitrary binary predicate. -/
theorem c16_containsFunc_iff (src dst : List α) (eq : α → α → Bool) :
    (containsAnyFunc src dst eq = true ↔ ∃ d, d ∈ dst ∧ ∃ s, s ∈ src ∧ eq s d = true) ∧
    (containsAllFunc src dst eq = true ↔ ∀ d, d ∈ dst → ∃ s, s ∈ src ∧ eq s d = true) := by
  rw [containsAnyFunc_eq, containsAllFunc_eq]
  simp [Spec.containsAny, Spec.containsAll]

/-- … and with `==` they agree with the map-based ContainsAny / ContainsAll. -/
theorem c16_containsFunc_agrees (src dst : List α) :
    containsAnyFunc src dst beqFn = containsAny src dst ∧
    containsAllFunc src dst beqFn = containsAll src dst := by
  constructor
  · rw [Bool.eq_iff_iff, (c16_containsFunc_iff src dst beqFn).1, c16_containsAny_iff]
    constructor
    · rintro ⟨d, hd, s, hs, he⟩; simp at he; subst he; exact ⟨s, hd, hs⟩
    · rintro ⟨x, hd, hs⟩; exact ⟨x, hd, x, hs, by simp⟩
  · rw [Bool.eq_iff_iff, (c16_containsFunc_iff src dst beqFn).2, c16_containsAll_iff]
    constructor
    · intro h x hx; obtain ⟨s, hs, he⟩ := h x hx; simp at he; subst he; exact hs
    · intro h d hd; exact ⟨d, h d hd, by simp⟩

end FuncVariants

/-! ## 3. "index/find/filter/map/reverse/aggregate/add/delete agree with the obvious sequence definition" -/
section Sequences
variable {α : Type}

/-- IndexFunc (hence Index) = first index found by `List.findIdx?`, or -1. -/
theorem c16_index (src : List α) (p : α → Bool) :
    indexFunc src p = (match src.findIdx? p with | some i => (i : Int) | none => -1) :=
  indexFunc_eq src p

/-- LastIndexFunc never panics (its `src[i]` is always in range) and returns the last index at which
    `p` holds, or -1. -/
theorem c16_lastIndex (src : List α) (p : α → Bool) :
    ∃ r : Int, lastIndexFunc src p = .ok r ∧
      ((r = -1 ∧ ∀ x, x ∈ src → p x = false) ∨
       (∃ i : Nat, r = (i : Int) ∧ ∃ h : i < src.length, p src[i] = true ∧
          ∀ j, i < j → (hj : j < src.length) → p src[j] = false)) := by
  refine ⟨Spec.lastIndex src p, lastIndexFunc_eq src p, ?_⟩
  unfold Spec.lastIndex
  cases hf : List.findIdx? p src.reverse with
  | none =>
    left
    refine ⟨rfl, ?_⟩
    intro x hx
    exact (List.findIdx?_eq_none_iff.mp hf) x (List.mem_reverse.mpr hx)
  | some k =>
    right
    rw [List.findIdx?_eq_some_iff_getElem] at hf
    obtain ⟨hk, hpk, hbefore⟩ := hf
    have hk' : k < src.length := by simpa using hk
    refine ⟨src.length - 1 - k, by simp only []; omega, by omega, ?_, ?_⟩
    · have := hpk
      rw [List.getElem_reverse] at this
      exact this
    · intro j hj hjl
      have hlt : src.length - 1 - j < k := by omega
      have := hbefore (src.length - 1 - j) hlt
      rw [List.getElem_reverse] at this
      have e : src.length - 1 - (src.length - 1 - j) = j := by omega
      simp only [e] at this
      simpa using this

/-- IndexAllFunc (hence IndexAll) = the positions of the elements satisfying `p`, ascending. -/
theorem c16_indexAll (src : List α) (p : α → Bool) :
    indexAllFunc src p = ((src.zipIdx.filter (fun x => p x.1)).map (fun x => (x.2 : Int))) :=
  indexAllFunc_eq src p

/-- Find = `List.find?`; FindAll = `List.filter`, never nil. -/
theorem c16_find (src : List α) (p : α → Bool) :
    find src p = src.find? p ∧ findAll src p = some (src.filter p) :=
  ⟨find_eq src p, findAll_eq src p⟩

/-- FilterMap, with the index passed to the callback. -/
theorem c16_filterMap {β} (src : List α) (m : Nat → α → β × Bool) :
    filterMap src m =
      src.zipIdx.filterMap (fun x => if (m x.2 x.1).2 then some (m x.2 x.1).1 else none) :=
  filterMap_eq src m

/-- Map never panics (every `dst[i] = …` is in range) and is the index-aware `List.map`. -/
theorem c16_map {β} [Inhabited β] (src : List α) (m : Nat → α → β) :
    mapFn src m = .ok (src.zipIdx.map (fun x => m x.2 x.1)) :=
  mapFn_eq src m

/-- Reverse never panics and is `List.reverse`; ReverseSelf leaves the reversal in its argument. -/
theorem c16_reverse (src : List α) :
    reverse src = .ok src.reverse ∧ reverseSelf src = .ok src.reverse :=
  ⟨reverse_eq src, reverseSelf_eq src⟩

/-- FilterDelete never panics; it returns the elements for which the callback (given the ORIGINAL
    index and the ORIGINAL element — the compaction never overwrites a position before reading it)
    is false, in order; its argument afterwards holds that result followed by its old tail. -/
theorem c16_filterDelete (src : List α) (m : Nat → α → Bool) :
    filterDelete src m =
      .ok ((src.zipIdx.filter (fun x => !m x.2 x.1)).map (·.1),
           (src.zipIdx.filter (fun x => !m x.2 x.1)).map (·.1) ++
             src.drop ((src.zipIdx.filter (fun x => !m x.2 x.1)).map (·.1)).length) :=
  filterDelete_eq src m

/-- Max / Min on a non-empty slice (the documented precondition) never panic and return an element
    of the slice that bounds all the others; on the empty slice they panic (`ts[0]`). -/
theorem c16_max_min (ts : List Int) (h : ts ≠ []) :
    (∃ m, maxOf ts = .ok m ∧ m ∈ ts ∧ ∀ x, x ∈ ts → x ≤ m) ∧
    (∃ m, minOf ts = .ok m ∧ m ∈ ts ∧ ∀ x, x ∈ ts → m ≤ x) := by
  cases ts with
  | nil => exact absurd rfl h
  | cons x r =>
    constructor
    · refine ⟨_, maxOf_cons x r, ?_, ?_⟩
      · rcases (foldl_max_spec r x).1 with h1 | h1
        · rw [h1]; exact List.mem_cons_self
        · exact List.mem_cons_of_mem _ h1
      · intro y hy
        rcases List.mem_cons.mp hy with h1 | h1
        · rw [h1]; exact (foldl_max_spec r x).2.1
        · exact (foldl_max_spec r x).2.2 y h1
    · refine ⟨_, minOf_cons x r, ?_, ?_⟩
      · rcases (foldl_min_spec r x).1 with h1 | h1
        · rw [h1]; exact List.mem_cons_self
        · exact List.mem_cons_of_mem _ h1
      · intro y hy
        rcases List.mem_cons.mp hy with h1 | h1
        · rw [h1]; exact (foldl_min_spec r x).2.1
        · exact (foldl_min_spec r x).2.2 y h1

theorem c16_max_min_empty : maxOf [] = .panic panicIndex ∧ minOf [] = .panic panicIndex := by
  constructor <;> rfl

/-- Sum = `List.sum` (over unbounded integers; Go's wrap-around is outside the model). -/
theorem c16_sum (ts : List Int) : sumOf ts = ts.sum := by
  unfold sumOf
  rw [foldl_add]; simp

end Sequences

/-! ## 4. Add / Delete: `insertIdx` / `eraseIdx`, "errors rather than panic for out-of-range indices",
        and what happens to the argument -/

/-- Add inside `[0, len]`: the result is `insertIdx`, whatever the spare capacity and the runtime's
    growth choice; it shares the argument's array iff there was spare capacity, and then the
    argument sees the first `len` elements of the result (the documented-as-harmless shift in
    place); otherwise the argument is untouched. -/
theorem c16_add_inRange (s : GoSlice) (e : Int) (i : Int) (grow : Nat)
    (h : 0 ≤ i ∧ i ≤ (s.vals.length : Int)) :
    ∃ r arg shares, addAt s e i grow = .ok (r, arg, shares) ∧
      r.vals = s.vals.insertIdx i.toNat e ∧
      shares = decide (s.vals.length + 1 ≤ s.cap) ∧
      r.cap = (if s.vals.length + 1 ≤ s.cap then s.cap else grow) ∧
      arg = (if s.vals.length + 1 ≤ s.cap then (s.vals.insertIdx i.toNat e).take s.vals.length else s.vals) := by
  have hg : ¬ (i < 0 ∨ i > (s.vals.length : Int)) := by omega
  have hi : i.toNat ≤ s.vals.length := by omega
  have key := shiftRight_insert s.vals i.toNat e hi
  unfold addAt sliceAdd
  simp only [hg, if_false, GoSlice.append, GoSlice.appendAllocates, List.length_cons, List.length_nil]
  by_cases hc : s.vals.length + (0 + 1) ≤ s.cap
  · have hc' : s.vals.length + 1 ≤ s.cap := by omega
    simp only [hc, if_true, decide_true, Bool.not_true, Bool.false_eq_true, if_false]
    refine ⟨_, _, _, rfl, ?_, by simp, by simp, ?_⟩
    · simpa using key
    · rw [key]
  · have hc' : ¬ s.vals.length + 1 ≤ s.cap := by omega
    simp only [hc, if_false, decide_false, Bool.not_false, if_true]
    refine ⟨_, _, _, rfl, ?_, by simp, by simp, by simp⟩
    simpa using key

/-- Add outside `[0, len]`: the index error (never a panic), nothing modified. -/
theorem c16_add_outOfRange (s : GoSlice) (e : Int) (i : Int) (grow : Nat)
    (h : i < 0 ∨ i > (s.vals.length : Int)) :
    addAt s e i grow = .err (.idx s.vals.length i) := by
  simp [addAt, sliceAdd, h]

/-- Delete inside `[0, len)`: the result is `eraseIdx`; the argument (same array, same length) sees
    the result followed by its old last element. -/
theorem c16_delete_inRange (s : GoSlice) (i : Int) (h : 0 ≤ i ∧ i < (s.vals.length : Int)) :
    ∃ r arg, deleteAt s i = .ok (r, arg) ∧ r.vals = s.vals.eraseIdx i.toNat ∧ r.cap = s.cap ∧
      arg.length = s.vals.length ∧ arg.take (s.vals.length - 1) = s.vals.eraseIdx i.toNat ∧
      arg[s.vals.length - 1]? = s.vals[s.vals.length - 1]? := by
  have hg : ¬ (i < 0 ∨ i ≥ (s.vals.length : Int)) := by omega
  have hi : i.toNat < s.vals.length := by omega
  have key := shiftLeft_erase s.vals i.toNat hi
  unfold deleteAt sliceDelete
  simp only [hg, if_false]
  refine ⟨_, _, rfl, key, rfl, length_shiftLeft _ _ _ _, key, ?_⟩
  rw [getElem?_shiftLeft s.vals i.toNat s.vals.length (by omega)]
  have : ¬ (i.toNat ≤ s.vals.length - 1 ∧ s.vals.length - 1 + 1 < s.vals.length) := by omega
  simp only [this, if_false]

/-- Delete outside `[0, len)`: the index error (never a panic), nothing modified. -/
theorem c16_delete_outOfRange (s : GoSlice) (i : Int) (h : i < 0 ∨ i ≥ (s.vals.length : Int)) :
    deleteAt s i = .err (.idx s.vals.length i) := by
  simp [deleteAt, sliceDelete, h]

/-- For every index whatsoever Add and Delete return a value or an error — never a panic. -/
theorem c16_add_delete_never_panic (s : GoSlice) (e i : Int) (grow : Nat) :
    (addAt s e i grow).isPanic = false ∧ (deleteAt s i).isPanic = false := by
  constructor
  · by_cases h : i < 0 ∨ i > (s.vals.length : Int)
    · rw [c16_add_outOfRange s e i grow h]; rfl
    · obtain ⟨r, arg, sh, h1, _⟩ := c16_add_inRange s e i grow (by omega)
      rw [h1]; rfl
  · by_cases h : i < 0 ∨ i ≥ (s.vals.length : Int)
    · rw [c16_delete_outOfRange s i h]; rfl
    · obtain ⟨r, arg, h1, _⟩ := c16_delete_inRange s i (by omega)
      rw [h1]; rfl

/-- The acceptor of `spec` mode for Add/Delete is `insertIdx`/`eraseIdx` with the index error; and ("only the
    documented in-place functions modify their argument") what is visible through the argument of a successful Add
    afterwards satisfies `Spec.addArgOk`: unchanged unless the result lives in the argument's own array. -/
theorem c16_add_delete_refine_spec (s : GoSlice) (e i : Int) (grow : Nat) :
    (addAt s e i grow).map (·.1.vals) = Spec.add s.vals e i ∧
    (deleteAt s i).map (·.1.vals) = Spec.delete s.vals i ∧
    (∀ r arg shares, addAt s e i grow = .ok (r, arg, shares) → Spec.addArgOk s.vals arg r.vals shares = true) := by
  refine ⟨?_, ?_, ?_⟩
  · by_cases h : i < 0 ∨ i > (s.vals.length : Int)
    · rw [c16_add_outOfRange s e i grow h]
      have : ¬ (0 ≤ i ∧ i ≤ (s.vals.length : Int)) := by omega
      simp [Spec.add, this, Outcome.map]
    · obtain ⟨r, arg, sh, h1, h2, _⟩ := c16_add_inRange s e i grow (by omega)
      have : (0 ≤ i ∧ i ≤ (s.vals.length : Int)) := by omega
      rw [h1]; simp [Spec.add, this, Outcome.map, h2]
  · by_cases h : i < 0 ∨ i ≥ (s.vals.length : Int)
    · rw [c16_delete_outOfRange s i h]
      have : ¬ (0 ≤ i ∧ i < (s.vals.length : Int)) := by omega
      simp [Spec.delete, Spec.inRange, this, Outcome.map]
    · obtain ⟨r, arg, h1, h2, _⟩ := c16_delete_inRange s i (by omega)
      have : (0 ≤ i ∧ i < (s.vals.length : Int)) := by omega
      rw [h1]; simp [Spec.delete, Spec.inRange, this, Outcome.map, h2]
  · intro r arg shares hok
    by_cases h : i < 0 ∨ i > (s.vals.length : Int)
    · rw [c16_add_outOfRange s e i grow h] at hok; cases hok
    · obtain ⟨r', arg', sh', h1, h2, h3, _, h5⟩ := c16_add_inRange s e i grow (by omega)
      rw [h1] at hok
      cases hok
      subst h3
      by_cases hc : s.vals.length + 1 ≤ s.cap
      · simp [Spec.addArgOk, hc, h5, h2]
      · simp [Spec.addArgOk, hc, h5]

/-! ## 5. "never return nil where a non-nil result is promised" -/

/-- FindAll ("永远不会返回 nil") returns a non-nil slice for every input (also when nothing matches or
    the input is nil/empty).  ToMap/ToMapV ("保证返回的map是一个空map而不是nil") return the `make`d map:
    `toMapV` is a total function into association lists, the empty map being `[]`; that the real
    result is non-nil is checked on every correspondence run (`nn=1`, both modes). -/
theorem c16_nonNil {α} (src : List α) (p : α → Bool) :
    (findAll src p).isSome = true ∧ (findAll ([] : List α) p) = some [] ∧
    promisedNonNil .findAll = true ∧ promisedNonNil .toMap = true := by
  refine ⟨by simp [findAll], by simp [findAll, findAll.go], rfl, rfl⟩

/-! ## 6. slice.ToMap / ToMapV, mapx: "later duplicates winning", inverse laws, errors -/
section Maps
variable {κ ν : Type} [DecidableEq κ]

/-- ToMapV (hence ToMap): distinct keys, and `m[k]` is the value computed from the LAST element
    whose key is `k` (absent iff no element has that key). -/
theorem c16_toMapV_later_wins {α} (elements : List α) (fn : α → κ × ν) :
    (amKeys (toMapV elements fn)).Nodup ∧
    ∀ k, amGet (toMapV elements fn) k = Spec.lastBinding (elements.map fn) k := by
  rw [toMapV_foldl]
  refine ⟨nodup_amKeys_foldl_put _ [] (by simp [amKeys]), ?_⟩
  intro k
  rw [amGet_foldl_put]
  cases Spec.lastBinding (elements.map fn) k <;> simp [amGet]


/-- what the Boolean specification `isMapOf` (acceptor of `spec` mode) says -/
theorem c16_isMapOf_meaning [DecidableEq ν] (m kvs : List (κ × ν)) :
    Spec.isMapOf m kvs = true ↔
      (m.map (·.1)).Nodup ∧ (∀ e, e ∈ m → Spec.lastBinding kvs e.1 = some e.2) ∧
      (∀ e, e ∈ kvs → e.1 ∈ m.map (·.1)) := by
  unfold Spec.isMapOf
  simp only [Bool.and_eq_true, decide_eq_true_eq, List.all_eq_true, beq_iff_eq, List.contains_eq_mem]
  constructor
  · rintro ⟨⟨h1, h2⟩, h3⟩; exact ⟨h1, h2, h3⟩
  · rintro ⟨h1, h2, h3⟩; exact ⟨⟨h1, h2⟩, h3⟩

/-- A well-formed map whose lookups are the last bindings of `kvs` — and every enumeration of it —
    satisfies `isMapOf`, and nothing else does: model and specification coincide for map results. -/
theorem c16_model_iff_spec_maps [DecidableEq ν] (m r kvs : List (κ × ν)) (hn : (amKeys m).Nodup)
    (hget : ∀ k, amGet m k = Spec.lastBinding kvs k) :
    r.Perm m ↔ Spec.isMapOf r kvs = true := by
  rw [c16_isMapOf_meaning]
  constructor
  · intro hr
    refine ⟨?_, ?_, ?_⟩
    · exact (List.Perm.nodup_iff (hr.map (fun e : κ × ν => e.1))).mpr hn
    · intro e he
      rw [← hget]
      exact amGet_of_mem hn ((List.Perm.mem_iff hr).mp he)
    · intro e he
      have : Spec.lastBinding kvs e.1 ≠ none := by
        rw [ne_eq, lastBinding_eq_none_iff]
        exact fun h => h (List.mem_map_of_mem (f := (·.1)) he)
      rw [← hget, ne_eq, amGet_eq_none_iff] at this
      have hk : e.1 ∈ amKeys m := Classical.not_not.mp this
      exact (List.Perm.mem_iff (hr.map (fun e : κ × ν => e.1))).mpr hk
  · rintro ⟨h1, h2, h3⟩
    have hrn : r.Nodup := List.Pairwise.of_map (fun e : κ × ν => e.1) (fun a b h e => h (e ▸ rfl)) h1
    have hmn : m.Nodup := List.Pairwise.of_map (fun e : κ × ν => e.1) (fun a b h e => h (e ▸ rfl)) hn
    rw [List.perm_ext_iff_of_nodup hrn hmn]
    intro e
    constructor
    · intro he
      have := h2 e he
      rw [← hget] at this
      exact amGet_some_mem this
    · intro he
      have hg : amGet m e.1 = some e.2 := amGet_of_mem hn he
      rw [hget] at hg
      have hne : Spec.lastBinding kvs e.1 ≠ none := by rw [hg]; simp
      rw [ne_eq, lastBinding_eq_none_iff] at hne
      have hk : e.1 ∈ kvs.map (·.1) := Classical.not_not.mp hne
      obtain ⟨e', he', hk'⟩ := List.mem_map.mp hk
      have := h3 e' he'
      obtain ⟨e'', he'', hk''⟩ := List.mem_map.mp this
      have h4 := h2 e'' he''
      have e1 : e''.1 = e.1 := by rw [hk'', hk']
      rw [e1, hg] at h4
      have e2 : e''.2 = e.2 := by simpa using h4.symm
      have : e'' = e := Prod.ext e1 e2
      rw [← this]; exact he''

/-- slice.ToMapV's result, enumerated in any order, is accepted by the specification -/
theorem c16_toMapV_spec {α} [DecidableEq ν] (elements : List α) (fn : α → κ × ν) (r : List (κ × ν)) :
    r.Perm (toMapV elements fn) ↔ Spec.isMapOf r (elements.map fn) = true :=
  c16_model_iff_spec_maps _ r _ (c16_toMapV_later_wins elements fn).1 (c16_toMapV_later_wins elements fn).2

/-- mapx.Keys: in whatever order `it` the runtime visits the map, exactly the keys, each once. -/
theorem c16_mx_keys (m : AMap κ ν) (hn : (amKeys m).Nodup) (it : List κ) (hit : it.Perm (amKeys m)) :
    mxKeys it = it ∧ (mxKeys it).Nodup ∧ ∀ k, k ∈ mxKeys it ↔ amGet m k ≠ none := by
  rw [mxKeys_eq]
  refine ⟨rfl, (List.Perm.nodup_iff hit).mpr hn, fun k => ?_⟩
  rw [List.Perm.mem_iff hit, ne_eq, amGet_eq_none_iff, Classical.not_not]

/-- mapx.Values: a permutation of the values of the entries. -/
theorem c16_mx_values [Inhabited ν] (m : AMap κ ν) (hn : (amKeys m).Nodup) (it : List κ)
    (hit : it.Perm (amKeys m)) : (mxValues m it).Perm (m.map (·.2)) := by
  rw [mxValues_eq]
  have h1 := hit.map (fun k => (amGet m k).getD default)
  have h2 : (amKeys m).map (fun k => (amGet m k).getD default) = m.map (·.2) := by
    have := congrArg (List.map (·.2)) (map_lookup_self m hn)
    rw [List.map_map] at this
    exact this
  rw [h2] at h1
  exact h1

/-- mapx.KeysValues: the two results have the same length and are index-aligned: zipped together
    they are a permutation of the map's entries. -/
theorem c16_mx_keysValues [Inhabited ν] (m : AMap κ ν) (hn : (amKeys m).Nodup) (it : List κ)
    (hit : it.Perm (amKeys m)) :
    (mxKeysValues m it).1 = it ∧ (mxKeysValues m it).1.length = (mxKeysValues m it).2.length ∧
    ((mxKeysValues m it).1.zip (mxKeysValues m it).2).Perm m := by
  rw [mxKeysValues_eq]
  refine ⟨rfl, by simp, ?_⟩
  simp only []
  rw [zip_map_self]
  have := hit.map (fun k => (k, (amGet m k).getD default))
  rw [map_lookup_self m hn] at this
  exact this

/-- mapx.ToMap on non-nil equally long slices: a well-formed map whose keys are exactly `keys` and
    in which every key is bound to the value at its LAST occurrence. -/
theorem c16_mx_toMap (ks : List κ) (vs : List ν) (hlen : ks.length = vs.length) :
    ∃ m, mxToMap (some ks) (some vs) = .ok m ∧ (amKeys m).Nodup ∧
      (∀ k, amGet m k = Spec.lastBinding (ks.zip vs) k) ∧ (∀ k, k ∈ amKeys m ↔ k ∈ ks) := by
  refine ⟨_, mxToMap_ok ks vs hlen, nodup_amKeys_foldl_put _ [] (by simp [amKeys]), ?_, ?_⟩
  · intro k
    rw [amGet_foldl_put]
    cases Spec.lastBinding (ks.zip vs) k <;> simp [amGet]
  · intro k
    rw [mem_amKeys_foldl_put]
    have : (ks.zip vs).map (·.1) = ks := by
      rw [← List.unzip_fst, List.unzip_zip_left (by omega)]
    rw [this]
    simp [amKeys]

/-- nil arguments and a length mismatch are reported as errors; no input makes ToMap panic
    (in particular `values[i]` is never out of range). -/
theorem c16_mx_toMap_errors (keys : Option (List κ)) (values : Option (List ν)) :
    (keys = none ∨ values = none → mxToMap keys values = .err errNil) ∧
    (∀ ks vs, keys = some ks → values = some vs → ks.length ≠ vs.length →
        mxToMap keys values = .err errLen) ∧
    (mxToMap keys values).isPanic = false := by
  refine ⟨?_, ?_, ?_⟩
  · rintro (h | h)
    · subst h; cases values <;> rfl
    · subst h; cases keys <;> rfl
  · intro ks vs h1 h2 hne
    subst h1; subst h2
    simp [mxToMap, hne]
  · cases keys with
    | none => cases values <;> rfl
    | some ks =>
      cases values with
      | none => rfl
      | some vs =>
        by_cases h : ks.length = vs.length
        · rw [mxToMap_ok ks vs h]; rfl
        · simp [mxToMap, h, Outcome.isPanic]

/-- ToMap ∘ KeysValues = identity: rebuilding a map from what KeysValues returned (in any visiting
    order) gives a map with the same entries and the same lookups. -/
theorem c16_mx_toMap_keysValues [Inhabited ν] (m : AMap κ ν) (hn : (amKeys m).Nodup) (it : List κ)
    (hit : it.Perm (amKeys m)) :
    ∃ m', mxToMap (some (mxKeysValues m it).1) (some (mxKeysValues m it).2) = .ok m' ∧
      m'.Perm m ∧ ∀ k, amGet m' k = amGet m k := by
  rw [mxKeysValues_eq]
  simp only []
  rw [mxToMap_ok _ _ (by simp), zip_map_self]
  have hitn : it.Nodup := (List.Perm.nodup_iff hit).mpr hn
  have hkeys : (it.map (fun k => (k, (amGet m k).getD default))).map (·.1) = it :=
    map_fst_pairing it _
  rw [foldl_put_nodup _ [] (by simp only [amKeys, List.map_nil, List.nil_append]; rw [hkeys]; exact hitn)]
  have hp : (it.map (fun k => (k, (amGet m k).getD default))).Perm m := by
    have := hit.map (fun k => (k, (amGet m k).getD default))
    rw [map_lookup_self m hn] at this
    exact this
  exact ⟨_, rfl, hp, amGet_perm hn hp⟩

/-- KeysValues ∘ ToMap = identity on duplicate-free keys (up to the enumeration order). -/
theorem c16_mx_keysValues_toMap [Inhabited ν] (ks : List κ) (vs : List ν) (hlen : ks.length = vs.length)
    (hnd : ks.Nodup) :
    ∃ m, mxToMap (some ks) (some vs) = .ok m ∧ ∀ it, it.Perm (amKeys m) →
      ((mxKeysValues m it).1.zip (mxKeysValues m it).2).Perm (ks.zip vs) := by
  have hk : (ks.zip vs).map (·.1) = ks := by
    rw [← List.unzip_fst, List.unzip_zip_left (by omega)]
  have hm : (ks.zip vs).foldl (fun m e => amPut m e.1 e.2) [] = ks.zip vs := by
    rw [foldl_put_nodup _ [] (by simp only [amKeys, List.map_nil, List.nil_append]; rw [hk]; exact hnd)]
    simp
  refine ⟨ks.zip vs, by rw [mxToMap_ok ks vs hlen, hm], ?_⟩
  intro it hit
  have hn : (amKeys (ks.zip vs)).Nodup := by unfold amKeys; rw [hk]; exact hnd
  exact (c16_mx_keysValues (ks.zip vs) hn it hit).2.2

end Maps

/-! ## 7. tuple/pair: NewPairs / SplitPairs / FlattenPairs / PackPairs -/
section Pairs
variable {κ ν : Type} [Inhabited κ] [Inhabited ν]

/-- NewPairs on non-nil equally long slices is the index-aligned zip (and never panics);
    nil arguments and a length mismatch are errors. -/
theorem c16_newPairs (keys : Option (List κ)) (values : Option (List ν)) :
    (∀ ks vs, keys = some ks → values = some vs → ks.length = vs.length →
        newPairs keys values = .ok (ks.zip vs)) ∧
    (keys = none ∨ values = none → newPairs keys values = .err errNil) ∧
    (∀ ks vs, keys = some ks → values = some vs → ks.length ≠ vs.length →
        newPairs keys values = .err errLen) ∧
    (newPairs keys values).isPanic = false := by
  refine ⟨?_, ?_, ?_, ?_⟩
  · intro ks vs h1 h2 h; subst h1; subst h2; exact newPairs_ok ks vs h
  · rintro (h | h)
    · subst h; cases values <;> rfl
    · subst h; cases keys <;> rfl
  · intro ks vs h1 h2 hne
    subst h1; subst h2
    simp [newPairs, hne]
  · cases keys with
    | none => cases values <;> rfl
    | some ks =>
      cases values with
      | none => rfl
      | some vs =>
        by_cases h : ks.length = vs.length
        · rw [newPairs_ok ks vs h]; rfl
        · simp [newPairs, h, Outcome.isPanic]

/-- SplitPairs: nil in, (nil, nil) out; otherwise the two projections, non-nil, never a panic. -/
theorem c16_splitPairs (ps : List (κ × ν)) :
    splitPairs (none : Option (List (κ × ν))) = .ok (none, none) ∧
    splitPairs (some ps) = .ok (some (ps.map (·.1)), some (ps.map (·.2))) :=
  ⟨rfl, splitPairs_some ps⟩

/-- SplitPairs ∘ NewPairs = identity. -/
theorem c16_splitPairs_newPairs (ks : List κ) (vs : List ν) (hlen : ks.length = vs.length) :
    (newPairs (some ks) (some vs)).bind (fun ps => splitPairs (some ps)) = .ok (some ks, some vs) := by
  rw [newPairs_ok ks vs hlen]
  simp only [Outcome.bind]
  rw [splitPairs_some]
  have h1 : (ks.zip vs).map (·.1) = ks := by rw [← List.unzip_fst, List.unzip_zip_left (by omega)]
  have h2 : (ks.zip vs).map (·.2) = vs := by rw [← List.unzip_snd, List.unzip_zip_right (by omega)]
  rw [h1, h2]

/-- NewPairs ∘ SplitPairs = identity. -/
theorem c16_newPairs_splitPairs (ps : List (κ × ν)) :
    (splitPairs (some ps)).bind (fun kv => newPairs kv.1 kv.2) = .ok ps := by
  rw [splitPairs_some]
  simp only [Outcome.bind]
  rw [newPairs_ok _ _ (by simp)]
  congr 1
  rw [← List.unzip_fst, ← List.unzip_snd, List.zip_unzip]

omit [Inhabited κ] [Inhabited ν] in
/-- FlattenPairs: nil in, nil out; otherwise length 2n with key i at 2i and value i at 2i+1. -/
theorem c16_flattenPairs {δ} (injK : κ → δ) (injV : ν → δ) (ps : List (κ × ν)) :
    flattenPairs injK injV (none : Option (List (κ × ν))) = none ∧
    ∃ fl, flattenPairs injK injV (some ps) = some fl ∧ fl.length = ps.length * 2 ∧
      ∀ i, fl[i * 2]? = ps[i]?.map (fun p => injK p.1) ∧ fl[i * 2 + 1]? = ps[i]?.map (fun p => injV p.2) := by
  refine ⟨rfl, _, flattenPairs_some injK injV ps, length_flatMap_pair _ _ ps, fun i => ?_⟩
  exact flatMap_pair_getElem? (fun p => injK p.1) (fun p => injV p.2) ps i

/-- PackPairs, the documented guarantee in general form: if `n = len(flat)/2` and for every `i < n`
    `flat[2i]` is a `K` and `flat[2i+1]` is a `V` (a trailing odd element is ignored), the result is
    the n pairs `(flat[2i], flat[2i+1])` — no panic. -/
theorem c16_packPairs {δ} (castK : δ → Option κ) (castV : δ → Option ν) (fl : List δ)
    (ps : List (κ × ν)) (hn : fl.length / 2 = ps.length)
    (hk : ∀ i, i < ps.length → fl[i * 2]?.bind castK = some (ps.getD i default).1)
    (hv : ∀ i, i < ps.length → fl[i * 2 + 1]?.bind castV = some (ps.getD i default).2) :
    packPairs castK castV (some fl) = .ok (some ps) ∧
    packPairs castK castV (none : Option (List δ)) = .ok none := by
  refine ⟨?_, rfl⟩
  unfold packPairs
  simp only [hn, Nat.sub_zero]
  rw [packPairs_loop castK castV fl ps hk hv ps.length 0 _ (by omega) (by simp)]
  simp

/-- PackPairs ∘ FlattenPairs = identity (nil ↦ nil included), for any faithful embedding into `any`. -/
theorem c16_packPairs_flattenPairs {δ} (injK : κ → δ) (injV : ν → δ) (castK : δ → Option κ)
    (castV : δ → Option ν) (hK : ∀ k, castK (injK k) = some k) (hV : ∀ v, castV (injV v) = some v)
    (pairs : Option (List (κ × ν))) :
    packPairs castK castV (flattenPairs injK injV pairs) = .ok pairs := by
  cases pairs with
  | none => rfl
  | some ps =>
    rw [flattenPairs_some]
    refine (c16_packPairs castK castV _ ps ?_ ?_ ?_).1
    · rw [length_flatMap_pair]; omega
    · intro i hi
      rw [(flatMap_pair_getElem? (fun p => injK p.1) (fun p => injV p.2) ps i).1]
      simp [List.getElem?_eq_getElem hi, hK, List.getD]
    · intro i hi
      rw [(flatMap_pair_getElem? (fun p => injK p.1) (fun p => injV p.2) ps i).2]
      simp [List.getElem?_eq_getElem hi, hV, List.getD]

/-- For EVERY input PackPairs returns nil for nil, `len/2` pairs, or the documented type-assertion
    panic — never an index panic (so `n := len/2` is right also for odd lengths). -/
theorem c16_packPairs_total {δ} (castK : δ → Option κ) (castV : δ → Option ν) (flat : Option (List δ)) :
    (flat = none ∧ packPairs castK castV flat = .ok none) ∨
    (∃ fl ps, flat = some fl ∧ packPairs castK castV flat = .ok (some ps) ∧ ps.length = fl.length / 2) ∨
    packPairs castK castV flat = .panic panicCast := by
  cases flat with
  | none => left; exact ⟨rfl, rfl⟩
  | some fl =>
    right
    have := packPairs_loop_panic castK castV fl (fl.length / 2) (Nat.div_mul_le_self _ _) (fl.length / 2) 0
      (List.replicate (fl.length / 2) default) (by omega) (by simp)
    unfold packPairs
    simp only [Nat.sub_zero]
    rcases this with ⟨ps, h1, h2⟩ | h
    · left; exact ⟨fl, ps, rfl, by rw [h1], h2⟩
    · right; rw [h]

end Pairs

/-! ## non-vacuity: the hypotheses are satisfiable and the interesting branches are taken -/
example : unionSet [1, 2, 1] [2, 3] = [2, 3, 1] := by decide
example : symDiffSetWith [3, 2] [1, 2, 1] = [1, 3] := by decide
example : deduplicateFunc [1, 2, 1, 3, 2] beqFn = [1, 3, 2] := by decide
example : unionSetFunc [1, 4] [2, 3] (fun a b => decide (a % 2 = b % 2)) = [1, 4] := by decide
example : lastIndexFunc [5, 7, 5, 8] (fun x => decide (x = 5)) = .ok 2 := by decide
example : reverseSelf [1, 2, 3, 4, 5] = .ok [5, 4, 3, 2, 1] := by decide
example : filterDelete [10, 11, 12, 13] (fun i _ => decide (i % 2 = 0)) = .ok ([11, 13], [11, 13, 12, 13]) := by decide
example : addAt ⟨[1, 2, 3], 4⟩ 9 1 0 = .ok (⟨[1, 9, 2, 3], 4⟩, [1, 9, 2], true) := by decide
example : addAt ⟨[1, 2, 3], 3⟩ 9 1 8 = .ok (⟨[1, 9, 2, 3], 8⟩, [1, 2, 3], false) := by decide
example : addAt ⟨[1, 2, 3], 3⟩ 9 4 8 = .err (.idx 3 4) := by decide
example : deleteAt ⟨[1, 2, 3], 3⟩ 0 = .ok (⟨[2, 3], 3⟩, [2, 3, 3]) := by decide
example : maxOf [3, 9, 2] = .ok 9 ∧ minOf [3, 9, 2] = .ok 2 := by decide
example : toMapV [1, 2, 3, 4] (fun x => (x % 2, x)) = [(1, 3), (0, 4)] := by decide
example : mxToMap (some [1, 2, 1]) (some [10, 20, 30]) = .ok [(1, 30), (2, 20)] := by decide
example : mxToMap (some [1, 2]) (some [10]) = (.err errLen : Outcome (AMap Nat Nat)) := by decide
example : packPairs (κ := Nat) (ν := Nat) (fun (d : Nat ⊕ Nat) => match d with | .inl k => some k | .inr _ => none)
    (fun d => match d with | .inr v => some v | .inl _ => none) (some [.inl 1, .inr 2, .inl 3]) = .ok (some [(1, 2)]) := by decide
example : packPairs (κ := Nat) (ν := Nat) (fun (d : Nat ⊕ Nat) => match d with | .inl k => some k | .inr _ => none)
    (fun d => match d with | .inr v => some v | .inl _ => none) (some [.inl 1, .inl 2]) = .panic panicCast := by decide

end Ekit.Slices
