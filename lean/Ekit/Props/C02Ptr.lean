/-
C02, pointer level: "parent links consistent with child links" after every history — proved about the MiniGo
interpreter (Ekit/MiniGo/Lang.lean) running the program that `harness/minigo` translates from the CURRENT
`internal/tree/red_black_tree.go` (Ekit/Generated/RBTreeGo.lean), for every comparator function, every key/value
history and every fuel.  Property theorems only; the work is in Ekit/Lemmas/RBHeapFrame, RBPtrSafe, RBPtrRotate,
RBPtrAdd, RBPtrDelete, RBPtrTop.

What the statements quantify over: `cmpF` is ANY function `Int → Int → Int` (no lawfulness is needed for the pointer
structure), `fuel` is any bound (an operation that runs out of fuel, or panics on a nil dereference, returns an error
and is outside the hypothesis `= .ok …`; absence of panics on the real code is what the trace correspondence and the
functional model's `no_panic` theorems are about).
-/
import Ekit.Lemmas.RBPtrTop
import Ekit.Lemmas.RBPtrRBTop

namespace Ekit.MiniGo.RBHeap
open Ekit.MiniGo Ekit.Gen.RBTreeGo

/-- the operations of `RBTree` that the containers use -/
inductive POp where
  | add (k v : Int)
  | delete (k : Int)
  | find (k : Int)
  | set (k v : Int)

def POp.run (cmpF : Int → Int → Int) (fuel : Nat) (st : St) : POp → Res (Val × St)
  | .add k v => call cmpF procs fuel .Add [.int k, .int v] st
  | .delete k => call cmpF procs fuel .Delete [.int k] st
  | .find k => call cmpF procs fuel .Find [.int k] st
  | .set k v => call cmpF procs fuel .Set [.int k, .int v] st

/-- `NewRBTree`: `root: nil`, size 0, nothing allocated -/
def newTree : St := { h := fun _ => {}, alloc := 0, root := none, size := 0 }

/-- a history: every call returned (no panic, enough fuel) -/
def runOps (cmpF : Int → Int → Int) (fuel : Nat) : St → List POp → Option St
  | st, [] => some st
  | st, op :: ops =>
    match op.run cmpF fuel st with
    | .ok (_, st1) => runOps cmpF fuel st1 ops
    | .error _ => none

/-- a node is reachable from the root by child pointers -/
inductive Reach (st : St) : Nat → Prop where
  | root {a} : st.root = some a → Reach st a
  | left {a b} : Reach st a → (st.h a).left = some b → Reach st b
  | right {a b} : Reach st a → (st.h a).right = some b → Reach st b

/-- C02: the empty tree is well-formed -/
theorem c02_ptr_new_wf : WF newTree :=
  ⟨.leaf, by simp [Repr, newTree], by simp [PT.addrs], by simp [PT.addrs]⟩

/-- C02: every operation that returns preserves the pointer-level invariant -/
theorem c02_ptr_step_wf (cmpF : Int → Int → Int) (fuel : Nat) (st : St) (op : POp) (r : Val) (st' : St)
    (hW : WF st) (h : op.run cmpF fuel st = .ok (r, st')) : WF st' := by
  cases op with
  | add k v => exact wf_add cmpF fuel k v st r st' hW h
  | delete k => exact wf_delete cmpF fuel k st r st' hW h
  | find k => exact wf_find cmpF fuel k st r st' hW h
  | set k v => exact wf_set cmpF fuel k v st r st' hW h

/-- C02: after ANY history of Add/Delete/Find/Set from `NewRBTree` the heap is well-formed -/
theorem c02_ptr_reachable_wf (cmpF : Int → Int → Int) (fuel : Nat) (ops : List POp) :
    ∀ st st', WF st → runOps cmpF fuel st ops = some st' → WF st' := by
  induction ops with
  | nil => intro st st' hW h; simp [runOps] at h; subst h; exact hW
  | cons op ops ih =>
    intro st st' hW h
    simp only [runOps] at h
    cases h1 : op.run cmpF fuel st with
    | error e => simp [h1] at h
    | ok r1 =>
      obtain ⟨r, st1⟩ := r1
      rw [h1] at h
      exact ih st1 st' (c02_ptr_step_wf cmpF fuel st op r st1 hW h1) h

theorem c02_ptr_history_wf (cmpF : Int → Int → Int) (fuel : Nat) (ops : List POp) (st : St)
    (h : runOps cmpF fuel newTree ops = some st) : WF st :=
  c02_ptr_reachable_wf cmpF fuel ops newTree st c02_ptr_new_wf h

/-! what `WF` says, without the witness tree: the sentence of the property -/

theorem reach_mem {st : St} {t : PT} (hH : Holds st t) {a : Nat} (hr : Reach st a) : a ∈ t.addrs := by
  induction hr with
  | root h => have := repr_ptr hH.1; rw [h] at this; exact ptr_mem_addrs this.symm
  | left _ h ih => exact (repr_fields hH.1 _ ih).1 _ h
  | right _ h ih => exact (repr_fields hH.1 _ ih).2.1 _ h

/-- a node of the tree is the top one, or its parent link is a node of the tree that has it as a child -/
theorem parent_spec {h : Nat → Node} {t : PT} : ∀ {p par}, Repr h p par t → ∀ a ∈ t.addrs,
    (p = some a ∧ (h a).parent = par) ∨
    ∃ q, q ∈ t.addrs ∧ (h a).parent = some q ∧ ((h q).left = some a ∨ (h q).right = some a) := by
  induction t with
  | leaf => intro p par _ a ha; simp [PT.addrs] at ha
  | node l b r ihl ihr =>
    intro p par hR a ha
    simp only [Repr] at hR
    obtain ⟨h1, h2, h3, h4⟩ := hR
    simp only [PT.addrs, List.mem_append, List.mem_cons] at ha
    rcases ha with ha | ha | ha
    · right
      rcases ihl h3 a ha with ⟨e1, e2⟩ | ⟨q, hq, e1, e2⟩
      · exact ⟨b, by simp [PT.addrs], e2, .inl e1⟩
      · exact ⟨q, by simp [PT.addrs, hq], e1, e2⟩
    · subst ha; exact .inl ⟨h1, h2⟩
    · right
      rcases ihr h4 a ha with ⟨e1, e2⟩ | ⟨q, hq, e1, e2⟩
      · exact ⟨b, by simp [PT.addrs], e2, .inr e1⟩
      · exact ⟨q, by simp [PT.addrs, hq], e1, e2⟩

/-- a child pointer of a node of the tree leads to a node whose parent link points back -/
theorem child_spec {h : Nat → Node} {t : PT} : ∀ {p par}, Repr h p par t → ∀ a ∈ t.addrs,
    (∀ b, (h a).left = some b → (h b).parent = some a) ∧ (∀ b, (h a).right = some b → (h b).parent = some a) := by
  induction t with
  | leaf => intro p par _ a ha; simp [PT.addrs] at ha
  | node l b r ihl ihr =>
    intro p par hR a ha
    simp only [Repr] at hR
    obtain ⟨_, _, h3, h4⟩ := hR
    simp only [PT.addrs, List.mem_append, List.mem_cons] at ha
    rcases ha with ha | ha | ha
    · exact ihl h3 a ha
    · subst ha
      constructor
      · intro c hc
        rw [hc] at h3
        cases l with
        | leaf => simp [Repr] at h3
        | node ll x lr => simp only [Repr] at h3; obtain ⟨e, hp, _⟩ := h3; cases e; exact hp
      · intro c hc
        rw [hc] at h4
        cases r with
        | leaf => simp [Repr] at h4
        | node rl x rr => simp only [Repr] at h4; obtain ⟨e, hp, _⟩ := h4; cases e; exact hp
    · exact ihr h4 a ha

/-- every node of the represented tree is reachable from its top pointer -/
theorem mem_reach {st : St} {t : PT} : ∀ {p par}, Repr st.h p par t → (∀ x, p = some x → Reach st x) →
    ∀ a ∈ t.addrs, Reach st a := by
  induction t with
  | leaf => intro p par _ _ a ha; simp [PT.addrs] at ha
  | node l b r ihl ihr =>
    intro p par hR hp a ha
    simp only [Repr] at hR
    obtain ⟨h1, _, h3, h4⟩ := hR
    have hb : Reach st b := hp b h1
    simp only [PT.addrs, List.mem_append, List.mem_cons] at ha
    rcases ha with ha | ha | ha
    · exact ihl h3 (fun x hx => .left hb hx) a ha
    · subst ha; exact hb
    · exact ihr h4 (fun x hx => .right hb hx) a ha

/-- C02, the sentence of the property: in a well-formed heap the root has no parent, the parent link of every child
    of a reachable node points back to that node, and every reachable node other than the root is the left or the
    right child of the (reachable) node its parent link names -/
theorem c02_ptr_parent_links (st : St) (hW : WF st) :
    (∀ a, st.root = some a → (st.h a).parent = none) ∧
    ∀ a, Reach st a →
      (∀ b, (st.h a).left = some b → (st.h b).parent = some a) ∧
      (∀ b, (st.h a).right = some b → (st.h b).parent = some a) ∧
      ((st.root = some a ∧ (st.h a).parent = none) ∨
        ∃ q, Reach st q ∧ (st.h a).parent = some q ∧ ((st.h q).left = some a ∨ (st.h q).right = some a)) := by
  obtain ⟨t, hH⟩ := hW
  have hall : ∀ a ∈ t.addrs, Reach st a := mem_reach hH.1 (fun x hx => .root hx)
  constructor
  · intro a ha
    have hm := reach_mem hH (.root ha)
    rcases parent_spec hH.1 a hm with ⟨_, e⟩ | ⟨q, hq, e1, e2⟩
    · exact e
    · -- the root cannot be a child: its address would occur twice
      exfalso
      have hr := repr_ptr hH.1
      rw [ha] at hr
      cases t with
      | leaf => simp [PT.ptr] at hr
      | node l b r =>
        simp [PT.ptr] at hr; subst hr
        have hnd := hH.2.1
        simp only [PT.addrs] at hnd
        rw [List.nodup_append] at hnd
        obtain ⟨_, ndr, hdisj⟩ := hnd
        rw [List.nodup_cons] at ndr
        have h1 := hH.1
        simp only [Repr] at h1
        obtain ⟨_, _, h3, h4⟩ := h1
        -- q has `a` as a child, so `a` is a node of the sub-tree under q, i.e. of l or r
        have hchild : a ∈ l.addrs ∨ a ∈ r.addrs := by
          simp only [PT.addrs, List.mem_append, List.mem_cons] at hq
          rcases hq with hq | hq | hq
          · rcases e2 with e2 | e2
            · exact .inl ((repr_fields h3 q hq).1 a e2)
            · exact .inl ((repr_fields h3 q hq).2.1 a e2)
          · subst hq
            rcases e2 with e2 | e2
            · rw [e2] at h3; exact .inl (ptr_mem_addrs (repr_ptr h3).symm)
            · rw [e2] at h4; exact .inr (ptr_mem_addrs (repr_ptr h4).symm)
          · rcases e2 with e2 | e2
            · exact .inr ((repr_fields h4 q hq).1 a e2)
            · exact .inr ((repr_fields h4 q hq).2.1 a e2)
        rcases hchild with hc | hc
        · exact hdisj a hc a (by simp) rfl
        · exact ndr.1 hc
  · intro a ha
    have hm := reach_mem hH ha
    obtain ⟨c1, c2⟩ := child_spec hH.1 a hm
    refine ⟨c1, c2, ?_⟩
    rcases parent_spec hH.1 a hm with ⟨e1, e2⟩ | ⟨q, hq, e1, e2⟩
    · exact .inl ⟨e1, e2⟩
    · exact .inr ⟨q, hall q hq, e1, e2⟩

/-- C02: after any history from `NewRBTree`, parent links are consistent with child links -/
theorem c02_ptr_history_parent_links (cmpF : Int → Int → Int) (fuel : Nat) (ops : List POp) (st : St)
    (h : runOps cmpF fuel newTree ops = some st) :
    (∀ a, st.root = some a → (st.h a).parent = none) ∧
    ∀ a, Reach st a →
      (∀ b, (st.h a).left = some b → (st.h b).parent = some a) ∧
      (∀ b, (st.h a).right = some b → (st.h b).parent = some a) ∧
      ((st.root = some a ∧ (st.h a).parent = none) ∨
        ∃ q, Reach st q ∧ (st.h a).parent = some q ∧ ((st.h q).left = some a ∨ (st.h q).right = some a)) :=
  c02_ptr_parent_links st (c02_ptr_history_wf cmpF fuel ops st h)

/-- the executable check used by the trace acceptor implies the invariant -/
theorem reprB_sound {h : Nat → Node} {t : PT} : ∀ {p par}, reprB h p par t = true → Repr h p par t := by
  induction t with
  | leaf => intro p par hb; simpa [reprB, Repr] using hb
  | node l a r ihl ihr =>
    intro p par hb
    simp only [reprB, Bool.and_eq_true, beq_iff_eq] at hb
    exact ⟨hb.1.1.1, hb.1.1.2, ihl hb.1.2, ihr hb.2⟩

theorem nodupB_sound : ∀ {l : List Nat}, nodupB l = true → l.Nodup
  | [], _ => List.nodup_nil
  | a :: l, hb => by
    simp only [nodupB, Bool.and_eq_true, Bool.not_eq_true', List.contains_eq_mem, decide_eq_false_iff_not] at hb
    exact List.nodup_cons.2 ⟨hb.1, nodupB_sound hb.2⟩

theorem c02_ptr_wfB_sound (st : St) (hb : wfB st = true) : WF st := by
  simp only [wfB] at hb
  cases ht : readPT st.h (st.alloc + 1) st.root with
  | none => simp [ht] at hb
  | some t =>
    simp only [ht, Bool.and_eq_true, List.all_eq_true, decide_eq_true_eq] at hb
    exact ⟨t, reprB_sound hb.1.1, nodupB_sound hb.1.2, hb.2⟩

/-! search-tree order at the pointer level -/

/-- C02: every operation that returns keeps the in-order keys strictly ascending (lawful comparator) -/
theorem c02_ptr_step_ordered_of (cmpF : Int → Int → Int) (hLaw : Ekit.RB.LawfulCmp cmpF) (hFix : FixSpec cmpF) (fuel : Nat)
    (st : St) (op : POp)
    (r : Val) (st' : St) (hW : OrdWF cmpF st) (h : op.run cmpF fuel st = .ok (r, st')) : OrdWF cmpF st' := by
  cases op with
  | add k v => exact ordwf_add cmpF hLaw fuel k v st r st' hW h
  | delete k => exact ordwf_delete cmpF hLaw hFix fuel k st r st' hW h
  | find k => exact ordwf_find cmpF fuel k st r st' hW h
  | set k v => exact ordwf_set cmpF fuel k v st r st' hW h

theorem c02_ptr_reachable_ordered_of (cmpF : Int → Int → Int) (hLaw : Ekit.RB.LawfulCmp cmpF) (hFix : FixSpec cmpF)
    (fuel : Nat) (ops : List POp) : ∀ st st', OrdWF cmpF st → runOps cmpF fuel st ops = some st' → OrdWF cmpF st' := by
  induction ops with
  | nil => intro st st' hW h; simp [runOps] at h; subst h; exact hW
  | cons op ops ih =>
    intro st st' hW h
    simp only [runOps] at h
    cases h1 : op.run cmpF fuel st with
    | error e => simp [h1] at h
    | ok r1 =>
      obtain ⟨r, st1⟩ := r1
      rw [h1] at h
      exact ih st1 st' (c02_ptr_step_ordered_of cmpF hLaw hFix fuel st op r st1 hW h1) h

/-- C02: after any history from `NewRBTree`, the keys met by an in-order walk along the child pointers are strictly
    ascending under the comparator ("keys strictly ascending in-order"), for every lawful comparator -/
theorem c02_ptr_history_ordered_of (cmpF : Int → Int → Int) (hLaw : Ekit.RB.LawfulCmp cmpF) (hFix : FixSpec cmpF)
    (fuel : Nat) (ops : List POp) (st : St) (h : runOps cmpF fuel newTree ops = some st) :
    ∃ t, Holds st t ∧ (t.addrs.map fun a => (st.h a).key).Pairwise fun x y => cmpF x y < 0 :=
  c02_ptr_reachable_ordered_of cmpF hLaw hFix fuel ops newTree st
    ⟨.leaf, ⟨by simp [Repr, newTree], by simp [PT.addrs], by simp [PT.addrs]⟩, by simp [Ordered, keysOf, PT.addrs]⟩ h

/-- C02: every operation that returns keeps the in-order keys strictly ascending (lawful comparator) -/
theorem c02_ptr_step_ordered (cmpF : Int → Int → Int) (hLaw : Ekit.RB.LawfulCmp cmpF) (fuel : Nat) (st : St) (op : POp)
    (r : Val) (st' : St) (hW : OrdWF cmpF st) (h : op.run cmpF fuel st = .ok (r, st')) : OrdWF cmpF st' :=
  c02_ptr_step_ordered_of cmpF hLaw (fixSpec_holds cmpF) fuel st op r st' hW h

/-- C02: after any history from `NewRBTree`, the keys met by an in-order walk along the child pointers are strictly
    ascending under the comparator, for every lawful comparator — no hypothesis left -/
theorem c02_ptr_history_ordered (cmpF : Int → Int → Int) (hLaw : Ekit.RB.LawfulCmp cmpF) (fuel : Nat)
    (ops : List POp) (st : St) (h : runOps cmpF fuel newTree ops = some st) :
    ∃ t, Holds st t ∧ (t.addrs.map fun a => (st.h a).key).Pairwise fun x y => cmpF x y < 0 :=
  c02_ptr_history_ordered_of cmpF hLaw (fixSpec_holds cmpF) fuel ops st h

/-! the size counter at the pointer level -/

/-- C02: every operation that returns keeps `rb.size` equal to the number of nodes of the tree the heap holds -/
theorem c02_ptr_step_size (cmpF : Int → Int → Int) (fuel : Nat) (st : St) (op : POp)
    (r : Val) (st' : St) (hW : SizeWF st) (h : op.run cmpF fuel st = .ok (r, st')) : SizeWF st' := by
  cases op with
  | add k v => exact sizewf_add cmpF fuel k v st r st' hW h
  | delete k => exact sizewf_delete cmpF fuel k st r st' hW h
  | find k => exact sizewf_find cmpF fuel k st r st' hW h
  | set k v => exact sizewf_set cmpF fuel k v st r st' hW h

/-- C02: after any history from `NewRBTree`, for EVERY comparator function, the reported size equals the node count -/
theorem c02_ptr_history_size (cmpF : Int → Int → Int) (fuel : Nat) (ops : List POp) :
    ∀ st st', SizeWF st → runOps cmpF fuel st ops = some st' → SizeWF st' := by
  induction ops with
  | nil => intro st st' hW h; simp [runOps] at h; subst h; exact hW
  | cons op ops ih =>
    intro st st' hW h
    simp only [runOps] at h
    cases h1 : op.run cmpF fuel st with
    | error e => simp [h1] at h
    | ok r1 =>
      obtain ⟨r, st1⟩ := r1
      rw [h1] at h
      exact ih st1 st' (c02_ptr_step_size cmpF fuel st op r st1 hW h1) h

theorem c02_ptr_new_size : SizeWF newTree :=
  ⟨.leaf, ⟨by simp [Repr, newTree], by simp [PT.addrs], by simp [PT.addrs]⟩, by simp [newTree, PT.addrs]⟩

/-! the red-black colouring at the pointer level -/

/-- C02: every operation that returns keeps the tree red-black coloured: black root, no red node with a red child, the same
    number of black nodes on every path from the root to a nil pointer — for EVERY comparator function -/
theorem c02_ptr_step_rb (cmpF : Int → Int → Int) (fuel : Nat) (st : St) (op : POp)
    (r : Val) (st' : St) (hW : RBWF st) (h : op.run cmpF fuel st = .ok (r, st')) : RBWF st' := by
  cases op with
  | add k v => exact rbwf_add cmpF fuel k v st r st' hW h
  | delete k => exact rbwf_delete cmpF fuel k st r st' hW h
  | find k => exact rbwf_find cmpF fuel k st r st' hW h
  | set k v => exact rbwf_set cmpF fuel k v st r st' hW h

theorem c02_ptr_new_rb : RBWF newTree :=
  ⟨.leaf, ⟨by simp [Repr, newTree], by simp [PT.addrs], by simp [PT.addrs]⟩, trivial, trivial, 0, rfl⟩

theorem c02_ptr_reachable_rb (cmpF : Int → Int → Int) (fuel : Nat) (ops : List POp) :
    ∀ st st', RBWF st → runOps cmpF fuel st ops = some st' → RBWF st' := by
  induction ops with
  | nil => intro st st' hW h; simp [runOps] at h; subst h; exact hW
  | cons op ops ih =>
    intro st st' hW h
    simp only [runOps] at h
    cases h1 : op.run cmpF fuel st with
    | error e => simp [h1] at h
    | ok r1 =>
      obtain ⟨r, st1⟩ := r1
      rw [h1] at h
      exact ih st1 st' (c02_ptr_step_rb cmpF fuel st op r st1 hW h1) h

/-- C02: after ANY history of Add/Delete/Find/Set from `NewRBTree` the translated red-black tree IS a red-black tree -/
theorem c02_ptr_history_rb (cmpF : Int → Int → Int) (fuel : Nat) (ops : List POp) (st : St)
    (h : runOps cmpF fuel newTree ops = some st) : ∃ t, Holds st t ∧ RB st t :=
  c02_ptr_reachable_rb cmpF fuel ops newTree st c02_ptr_new_rb h

/-- C02, the consequence: after any history the tree read off the heap along the child pointers has height at most
    2·log2(n+1), n the number of its nodes — so a descent (`findNode`, the loop of `addNode`) makes at most that many
    comparator calls -/
theorem c02_ptr_history_height (cmpF : Int → Int → Int) (fuel : Nat) (ops : List POp) (st : St)
    (h : runOps cmpF fuel newTree ops = some st) :
    ∃ t, Holds st t ∧ t.height ≤ 2 * Nat.log2 (t.addrs.length + 1) := by
  obtain ⟨t, hH, hR⟩ := c02_ptr_history_rb cmpF fuel ops st h
  exact ⟨t, hH, rb_height_le st t hR⟩

/-! non-vacuity: that histories run to completion (so that `runOps … = some st` is satisfiable) is what the trace acceptor
    `Driver/Rbptr.lean` establishes on every check: it runs `call cmpF procs` on ~25 000 operations per run and every one
    returns `.ok`; a kernel `decide` of the interpreter on a closure-represented heap is too expensive to keep here. -/

end Ekit.MiniGo.RBHeap
