/-
C16R — review companion of Ekit/Props/C16.lean (adversarial review pass).

Adds, without touching the reviewed files:
* the missing direction of "NewPairs/SplitPairs/FlattenPairs/PackPairs are mutually inverse":
  FlattenPairs ∘ PackPairs = identity on even-length, well-typed flat slices
  (the reviewed file proves only PackPairs ∘ FlattenPairs);
* Index / LastIndex / Contains in the property's own words for the `comparable` variants
  (first / last position of the element, −1 iff absent) — the reviewed statements are about the
  `Func` variants and `List.findIdx?`;
* the set-algebra identities the property's motivation mentions, as corollaries for every
  enumeration order (symmetric difference = union of the two differences, is disjoint from the
  intersection; intersection / union are commutative as sets);
* non-vacuity `example`s for the mapx / pair theorems, which had none (`mxKeysValues`, `mxValues`,
  `newPairs`, `splitPairs`, `flattenPairs`, nil arguments, and the inverse laws on concrete data).
-/
import Ekit.Props.C16

namespace Ekit.Slices
open Ekit.Go Ekit.Lists

/-! ## FlattenPairs ∘ PackPairs = identity -/
section Pairs
variable {κ ν : Type} [Inhabited κ] [Inhabited ν]

/-- **FlattenPairs ∘ PackPairs = identity** on every flat slice of even length whose elements at
    even positions are `K`s and at odd positions are `V`s (exactly the inputs on which PackPairs
    does not panic, by `c16_packPairs_total`; for an odd length the trailing element is dropped and
    the composition cannot be the identity).  `castK`/`injK` model `x.(K)` and the conversion of a
    `K` to `any`: a successful assertion returns the value that was stored. -/
theorem c16_flattenPairs_packPairs {δ} (injK : κ → δ) (injV : ν → δ) (castK : δ → Option κ)
    (castV : δ → Option ν) (hK : ∀ d k, castK d = some k → injK k = d)
    (hV : ∀ d v, castV d = some v → injV v = d)
    (fl : List δ) (heven : fl.length % 2 = 0)
    (hk : ∀ i, i < fl.length / 2 → ∃ k, fl[i * 2]?.bind castK = some k)
    (hv : ∀ i, i < fl.length / 2 → ∃ v, fl[i * 2 + 1]?.bind castV = some v) :
    ∃ ps, packPairs castK castV (some fl) = .ok (some ps) ∧ ps.length = fl.length / 2 ∧
      flattenPairs injK injV (some ps) = some fl := by
  let f : Nat → κ × ν := fun i =>
    ((fl[i * 2]?.bind castK).getD default, (fl[i * 2 + 1]?.bind castV).getD default)
  let ps := (List.range (fl.length / 2)).map f
  have hlen : ps.length = fl.length / 2 := by simp [ps]
  have hget? : ∀ i, i < fl.length / 2 → ps[i]? = some (f i) := by
    intro i hi
    simp [ps, List.getElem?_map, List.getElem?_range hi]
  have hget : ∀ i, i < fl.length / 2 → ps.getD i default = f i := by
    intro i hi
    simp [List.getD, hget? i hi]
  have hk' : ∀ i, i < ps.length → fl[i * 2]?.bind castK = some (ps.getD i default).1 := by
    intro i hi
    rw [hlen] at hi
    obtain ⟨k, e⟩ := hk i hi
    rw [hget i hi]
    simp [f, e]
  have hv' : ∀ i, i < ps.length → fl[i * 2 + 1]?.bind castV = some (ps.getD i default).2 := by
    intro i hi
    rw [hlen] at hi
    obtain ⟨v, e⟩ := hv i hi
    rw [hget i hi]
    simp [f, e]
  have h1 := (c16_packPairs castK castV fl ps (by rw [hlen]) hk' hv').1
  refine ⟨ps, h1, hlen, ?_⟩
  obtain ⟨_, fl', hfl, hl, hidx⟩ := c16_flattenPairs injK injV ps
  rw [hfl]
  congr 1
  apply List.ext_getElem?
  intro j
  obtain ⟨i, hj⟩ : ∃ i, j = i * 2 ∨ j = i * 2 + 1 := ⟨j / 2, by omega⟩
  rcases hj with hj | hj <;> subst hj
  · rw [(hidx i).1]
    by_cases hi : i < fl.length / 2
    · rw [hget? i hi]
      obtain ⟨k, e⟩ := hk i hi
      cases hd : fl[i * 2]? with
      | none => simp [hd] at e
      | some d =>
        simp only [hd, Option.bind_some] at e
        simp [f, hd, e, hK d k e]
    · have h1 : ps[i]? = none := by
        apply List.getElem?_eq_none; omega
      have h2 : fl[i * 2]? = none := by
        apply List.getElem?_eq_none; omega
      rw [h1, h2]; rfl
  · rw [(hidx i).2]
    by_cases hi : i < fl.length / 2
    · rw [hget? i hi]
      obtain ⟨v, e⟩ := hv i hi
      cases hd : fl[i * 2 + 1]? with
      | none => simp [hd] at e
      | some d =>
        simp only [hd, Option.bind_some] at e
        simp [f, hd, e, hV d v e]
    · have h1 : ps[i]? = none := by
        apply List.getElem?_eq_none; omega
      have h2 : fl[i * 2 + 1]? = none := by
        apply List.getElem?_eq_none; omega
      rw [h1, h2]; rfl

end Pairs

/-! ## the `comparable` variants in the property's own words -/
section Comparable
variable {α : Type} [DecidableEq α]

/-- Index: −1 iff the element does not occur; otherwise the FIRST position holding it. -/
theorem c16_index_comparable (src : List α) (x : α) :
    (index src x = -1 ↔ x ∉ src) ∧
    ∀ i : Nat, index src x = (i : Int) → src[i]? = some x ∧ ∀ j, j < i → src[j]? ≠ some x := by
  unfold index
  rw [c16_index]
  cases hf : List.findIdx? (fun s => decide (s = x)) src with
  | none =>
    have hn := List.findIdx?_eq_none_iff.mp hf
    refine ⟨⟨fun _ hx => by simpa using hn x hx, fun _ => rfl⟩, ?_⟩
    intro i hi
    simp only at hi
    omega
  | some k =>
    rw [List.findIdx?_eq_some_iff_getElem] at hf
    obtain ⟨hk, hpk, hbefore⟩ := hf
    refine ⟨⟨fun h => by simp only at h; omega, fun hx => ?_⟩, ?_⟩
    · exfalso
      apply hx
      have : src[k] = x := by simpa using hpk
      exact this ▸ List.getElem_mem hk
    · intro i hi
      simp only at hi
      have hik : i = k := by omega
      subst hik
      refine ⟨?_, ?_⟩
      · rw [List.getElem?_eq_getElem hk]; simpa using hpk
      · intro j hj hjx
        have hjl : j < src.length := by omega
        have := hbefore j hj
        rw [List.getElem?_eq_getElem hjl] at hjx
        simp at hjx
        simp [hjx] at this

/-- LastIndex: never panics; −1 iff the element does not occur; otherwise the LAST position
    holding it. -/
theorem c16_lastIndex_comparable (src : List α) (x : α) :
    ∃ r : Int, lastIndex src x = .ok r ∧ (r = -1 ↔ x ∉ src) ∧
      ∀ i : Nat, r = (i : Int) → src[i]? = some x ∧ ∀ j, i < j → src[j]? ≠ some x := by
  obtain ⟨r, h1, h2⟩ := c16_lastIndex src (fun s => decide (s = x))
  refine ⟨r, h1, ?_, ?_⟩
  · rcases h2 with ⟨hr, hall⟩ | ⟨i, hr, hi, hp, _⟩
    · exact ⟨fun _ hx => by simpa using hall x hx, fun _ => hr⟩
    · refine ⟨fun h => by omega, fun hx => ?_⟩
      exfalso; apply hx
      have : src[i] = x := by simpa using hp
      exact this ▸ List.getElem_mem hi
  · intro i hri
    rcases h2 with ⟨hr, _⟩ | ⟨i', hr, hi, hp, hafter⟩
    · omega
    · have hii : i' = i := by omega
      subst hii
      refine ⟨?_, ?_⟩
      · rw [List.getElem?_eq_getElem hi]; simpa using hp
      · intro j hj hjx
        cases hjl : src[j]? with
        | none => simp [hjl] at hjx
        | some y =>
          have hlt : j < src.length := (List.getElem?_eq_some_iff.mp hjl).1
          have := hafter j hj hlt
          rw [List.getElem?_eq_getElem hlt] at hjx
          simp at hjx
          simp [hjx] at this

/-- IndexAll: exactly the positions holding the element, ascending. -/
theorem c16_indexAll_comparable (src : List α) (x : α) :
    indexAll src x = ((src.zipIdx.filter (fun p => decide (p.1 = x))).map (fun p => (p.2 : Int))) := by
  unfold indexAll
  exact c16_indexAll src _

end Comparable

/-! ## set-algebra identities (for every enumeration the runtime may produce) -/
section Algebra
variable {α : Type} [DecidableEq α]

/-- The symmetric difference is the disjoint union of the two differences and is disjoint from the
    intersection; together with the intersection it makes up the union. -/
theorem c16_set_algebra (src dst it1 it2 ru ri rd1 rd2 rs : List α)
    (hit1 : IterOrder (toMap src) it1) (hit2 : IterOrder (toMap dst) it2)
    (hu : Enumerates (unionSetWith it1 dst) ru) (hi : Enumerates (intersectSet src dst) ri)
    (hd1 : Enumerates (diffSet src dst) rd1) (hd2 : Enumerates (diffSet dst src) rd2)
    (hs : Enumerates (symDiffSetWith it2 src) rs) :
    (∀ x, x ∈ rs ↔ x ∈ rd1 ∨ x ∈ rd2) ∧ (∀ x, ¬ (x ∈ rd1 ∧ x ∈ rd2)) ∧
    (∀ x, ¬ (x ∈ rs ∧ x ∈ ri)) ∧ (∀ x, x ∈ ru ↔ x ∈ rs ∨ x ∈ ri) ∧
    rs.length = rd1.length + rd2.length ∧ ru.length = rs.length + ri.length := by
  have U := c16_unionSet src dst it1 ru hit1 hu
  have I := c16_intersectSet src dst ri hi
  have D1 := c16_diffSet src dst rd1 hd1
  have D2 := c16_diffSet dst src rd2 hd2
  have S := c16_symDiffSet src dst it2 rs hit2 hs
  have m1 : ∀ x, x ∈ rs ↔ x ∈ rd1 ∨ x ∈ rd2 := by
    intro x; rw [S.2, D1.2, D2.2]
    constructor
    · rintro (⟨a, b⟩ | ⟨a, b⟩)
      · exact Or.inl ⟨a, b⟩
      · exact Or.inr ⟨b, a⟩
    · rintro (⟨a, b⟩ | ⟨a, b⟩)
      · exact Or.inl ⟨a, b⟩
      · exact Or.inr ⟨b, a⟩
  have m2 : ∀ x, ¬ (x ∈ rd1 ∧ x ∈ rd2) := by
    intro x; rw [D1.2, D2.2]; rintro ⟨⟨a, b⟩, ⟨c, _⟩⟩; exact b c
  have m3 : ∀ x, ¬ (x ∈ rs ∧ x ∈ ri) := by
    intro x; rw [S.2, I.2]
    rintro ⟨(⟨_, b⟩ | ⟨a, _⟩), ⟨c, d⟩⟩
    · exact b d
    · exact a c
  have m4 : ∀ x, x ∈ ru ↔ x ∈ rs ∨ x ∈ ri := by
    intro x; rw [U.2, S.2, I.2]
    by_cases a : x ∈ src <;> by_cases b : x ∈ dst <;> simp [a, b]
  refine ⟨m1, m2, m3, m4, ?_, ?_⟩
  · have hp : rs.Perm (rd1 ++ rd2) := by
      rw [List.perm_ext_iff_of_nodup S.1]
      · intro x; rw [m1, List.mem_append]
      · rw [List.nodup_append]
        exact ⟨D1.1, D2.1, fun a ha b hb e => m2 a ⟨ha, e ▸ hb⟩⟩
    rw [hp.length_eq, List.length_append]
  · have hp : ru.Perm (rs ++ ri) := by
      rw [List.perm_ext_iff_of_nodup U.1]
      · intro x; rw [m4, List.mem_append]
      · rw [List.nodup_append]
        exact ⟨S.1, I.1, fun a ha b hb e => m3 a ⟨ha, e ▸ hb⟩⟩
    rw [hp.length_eq, List.length_append]

/-- Union, intersection and symmetric difference do not depend on the argument order (as sets);
    every result of one call is an admissible result of the swapped call. -/
theorem c16_sets_commute (src dst r : List α) :
    (Enumerates (unionSet src dst) r ↔ Enumerates (unionSet dst src) r) ∧
    (Enumerates (intersectSet src dst) r ↔ Enumerates (intersectSet dst src) r) ∧
    (Enumerates (symDiffSet src dst) r ↔ Enumerates (symDiffSet dst src) r) := by
  obtain ⟨a1, a2, _, a4⟩ := c16_model_iff_spec_sets src dst r
  obtain ⟨b1, b2, _, b4⟩ := c16_model_iff_spec_sets dst src r
  obtain ⟨s1, s2, _, s4⟩ := c16_spec_sets_meaning src dst r
  obtain ⟨t1, t2, _, t4⟩ := c16_spec_sets_meaning dst src r
  refine ⟨?_, ?_, ?_⟩
  · rw [a1, b1, s1, t1]
    exact and_congr Iff.rfl (forall_congr' fun x => iff_congr Iff.rfl Or.comm)
  · rw [a2, b2, s2, t2]
    exact and_congr Iff.rfl (forall_congr' fun x => iff_congr Iff.rfl And.comm)
  · rw [a4, b4, s4, t4]
    refine and_congr Iff.rfl (forall_congr' fun x => iff_congr Iff.rfl ?_)
    constructor
    · rintro (⟨a, b⟩ | ⟨a, b⟩)
      · exact Or.inr ⟨b, a⟩
      · exact Or.inl ⟨b, a⟩
    · rintro (⟨a, b⟩ | ⟨a, b⟩)
      · exact Or.inr ⟨b, a⟩
      · exact Or.inl ⟨b, a⟩

end Algebra

/-! ## non-vacuity for the mapx / pair theorems and the remaining sequence functions -/

example : mxKeysValues [(1, 10), (2, 20), (3, 30)] [3, 1, 2] = ([3, 1, 2], [30, 10, 20]) := by decide
example : mxValues [(1, 10), (2, 20), (3, 30)] [2, 3, 1] = [20, 30, 10] := by decide
example : mxKeys [2, 3, 1] = [2, 3, 1] := by decide
/-- ToMap ∘ KeysValues on concrete data, with a visiting order different from the insertion order -/
example : mxToMap (some (mxKeysValues [(1, 10), (2, 20)] [2, 1]).1) (some (mxKeysValues [(1, 10), (2, 20)] [2, 1]).2)
    = .ok [(2, 20), (1, 10)] := by decide
example : mxToMap (none : Option (List Nat)) (some [1]) = (.err errNil : Outcome (AMap Nat Nat)) := by decide
example : mxToMap (some ([] : List Nat)) (some ([] : List Nat)) = .ok [] := by decide
example : newPairs (some [1, 2, 3]) (some [10, 20, 30]) = .ok [(1, 10), (2, 20), (3, 30)] := by decide
example : newPairs (some [1, 2, 3]) (some [10, 20]) = (.err errLen : Outcome (List (Nat × Nat))) := by decide
example : newPairs (some [1]) (none : Option (List Nat)) = (.err errNil : Outcome (List (Nat × Nat))) := by decide
example : newPairs (some ([] : List Nat)) (some ([] : List Nat)) = .ok [] := by decide
example : splitPairs (some [(1, 10), (2, 20)]) = .ok (some [1, 2], some [10, 20]) := by decide
example : splitPairs (some ([] : List (Nat × Nat))) = .ok (some [], some []) := by decide
example : flattenPairs (κ := Nat) (ν := Nat) Sum.inl Sum.inr (some [(1, 10), (2, 20)])
    = some [.inl 1, .inr 10, .inl 2, .inr 20] := by decide
example : flattenPairs (κ := Nat) (ν := Nat) Sum.inl Sum.inr (some []) = some [] := by decide
example : indexFunc [5, 7, 5, 8] (fun x => decide (x = 5)) = 0 ∧ indexFunc [5, 7] (fun x => decide (x = 9)) = -1 := by decide
example : indexAllFunc [5, 7, 5, 8] (fun x => decide (x = 5)) = [0, 2] := by decide
example : filterMap [10, 11, 12] (fun i x => (x + i, decide (x % 2 = 0))) = [10, 14] := by decide
example : mapFn [10, 11, 12] (fun i x => x + i) = .ok [10, 12, 14] := by decide
example : findAll [1, 3] (fun x => decide (x % 2 = 0)) = some [] := by decide
example : containsAny [1, 2] [3, 2] = true ∧ containsAll [1, 2] [2, 3] = false ∧ containsAll [1, 2] ([] : List Nat) = true := by decide
example : intersectSet [1, 2, 2, 3] [2, 2, 3, 4] = [2, 3] ∧ diffSet [1, 2, 2, 3] [2, 4] = [1, 3] := by decide
example : deleteAt ⟨[1, 2, 3], 3⟩ 3 = .err (.idx 3 3) ∧ deleteAt ⟨[1, 2, 3], 3⟩ (-1) = .err (.idx 3 (-1)) := by decide
example : addAt ⟨[], 0⟩ 7 0 4 = .ok (⟨[7], 4⟩, [], false) := by decide

/-- FlattenPairs ∘ PackPairs on a concrete even-length well-typed slice; and the reason for the
    evenness hypothesis: an odd trailing element is silently dropped by PackPairs, so the round trip
    loses it (`len(flat)/2`), without any error. -/
example : (match packPairs (κ := Nat) (ν := Nat) (fun (d : Nat ⊕ Nat) => match d with | .inl k => some k | .inr _ => none)
      (fun d => match d with | .inr v => some v | .inl _ => none) (some [.inl 1, .inr 2, .inl 3, .inr 4]) with
    | .ok ps => flattenPairs Sum.inl Sum.inr ps | _ => none) = some [.inl 1, .inr 2, .inl 3, .inr 4] := by decide
example : (match packPairs (κ := Nat) (ν := Nat) (fun (d : Nat ⊕ Nat) => match d with | .inl k => some k | .inr _ => none)
      (fun d => match d with | .inr v => some v | .inl _ => none) (some [.inl 1, .inr 2, .inl 3]) with
    | .ok ps => flattenPairs Sum.inl Sum.inr ps | _ => none) = some [.inl 1, .inr 2] := by decide

end Ekit.Slices
