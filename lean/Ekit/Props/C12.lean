/-
C12 — "Graceful Shutdown completes: the done channel closes after the last task".

On the pinned tree the property is VIOLATED in two recorded ways (known_findings.json C12-F1, C12-F2).
This file therefore contains
* `c12_done_not_early` — the safety half, proved in full: the channel returned by Shutdown is never closed
  while an accepted task is queued or running;
* the two machine-checked NEGATIVE WITNESSES `c12_idle_exit_hang` and `c12_core_exit_strand`: explicit
  schedules of the model (Ekit/Model/PoolWitness.lean, the traces of DESIGN.md) replayed through
  `System.run` by kernel evaluation, ending in a state that is proved *dead for ever*;
* `c12_shutdown_completes_partial` — what does hold, with the excluding hypothesis spelled out.
The full statement that cannot be proved (it is false):
    ∀ reachable s, s.graceful → ∃ continuation to a state with `cancelled` (under weak fairness and
    terminating tasks), i.e. "after Shutdown succeeds … the returned channel is closed within bounded time".
-/
import Ekit.Lemmas.PoolDead
import Ekit.Lemmas.PoolInv2
import Ekit.Model.PoolWitness
import Ekit.Model.PoolSkel
import Ekit.Generated.SkelC12

namespace Ekit.Pool
open Ekit.Conc Ekit.Pool.Skel Ekit.Pool.Witness

private theorem vle (c : Cfg) (hv : c.Valid) : c.initGo ≤ c.maxGo := Nat.le_trans hv.init_core hv.core_max

/-! ### "The channel is never closed while an accepted task is still queued or running" -/

/-- When the graceful path has closed the done channel (`graceful ∧ cancelled`) the queue is empty and
    `totalGo = 0`; no worker goroutine is alive any more, in particular none holds or runs a task. -/
theorem c12_done_not_early (c : Cfg) (hv : c.Valid) (s : St) (hr : (sys c).Reachable s)
    (hg : s.graceful = true) (hd : s.cancelled = true) :
    s.queue = [] ∧ s.totalGo = 0 ∧ (∀ (i : Nat) (w : Worker), s.workers[i]? = some w → live w.pc = false) := by
  have hi := reach_invAll c (vle c hv) s hr
  have h1 := hi.g.glob.1 hg hd
  have h2 := hi.c.glob.1
  refine ⟨h1.1, h1.2.2, fun i w hw => ?_⟩
  have h0 : s.workers.countP liveW = 0 := by rw [h1.2.2] at h2; omega
  exact countP_eq_zero_forall liveW s.workers h0 i w hw

/-- …hence every accepted task has been executed exactly once by then (nothing was handed back: ShutdownNow
    never ran) -/
theorem c12_done_all_ran (c : Cfg) (hv : c.Valid) (s : St) (hr : (sys c).Reachable s)
    (hg : s.graceful = true) (hd : s.cancelled = true) (id : Nat) (tk : Task)
    (hid : s.tasks[id]? = some tk) (hok : tk.subRes = .ok) : tk.runs + s.returned.count id = 1 := by
  have hi := reach_invAll c (vle c hv) s hr
  have h1 := c12_done_not_early c hv s hr hg hd
  have h2 := hi.t.glob.1 id
  have h3 := hi.t.glob.2 id (tk.owner, tk.sent, tk.subRes) (by simp [tinfo, hid])
  have hs : tk.sent = true := h3.2 hok
  have hw : s.workers.countP (holdsT id) = 0 := by
    rw [List.countP_eq_zero]
    intro w hwm
    obtain ⟨i, hi'⟩ := List.getElem?_of_mem hwm
    have hl := h1.2.2 i w hi'
    simp only [holdsT, decide_eq_true_eq, not_and]
    intro hp
    rcases hp with ⟨hp, _⟩ | hp <;> (rw [hp] at hl; simp at hl)
  have hq : s.queue.count id = 0 := by rw [h1.1]; rfl
  simp only [consT, runsN, sentN, hid, Option.map_some, Option.getD_some, hs, if_true] at h2
  omega

/-! ### negative witness C12-F1: last totalGo decrement at the idle-timeout exit while closing -/

theorem c12_f1_replay : ((sys cfgF1).run init f1Trace).map obs =
    some ⟨.closing, false, true, 0, [], [.exited, .exited], 1, true, [1], [.ok]⟩ := by rfl

theorem c12_dead_of_obs (s : St) (pcs : List WPc) (h1 : s.life = .closing) (h2 : s.cancelled = false)
    (h3 : s.workers.map (·.pc) = pcs) (h4 : ∀ p ∈ pcs, p = WPc.exited) : Dead s := by
  refine ⟨h1, h2, fun i w hw => ?_⟩
  apply h4
  rw [← h3]
  exact List.mem_map.2 ⟨w, List.mem_of_getElem? hw, rfl⟩

/-- **C12-F1** (`initGo=1, WithMaxGo(2)`).  There is a reachable state — after a successful Shutdown, with
    the one accepted task executed and the queue empty — in which the pool is closing, every worker has
    left, the last `totalGo` decrement was made at the idle-timeout exit while closing (`badExits = 1`),
    and from which **no** continuation whatsoever closes the done channel. -/
theorem c12_idle_exit_hang :
    ∃ s, (sys cfgF1).Reachable s ∧ cfgF1.Valid ∧ s.graceful = true ∧ s.life = .closing ∧ s.totalGo = 0 ∧
      s.queue = [] ∧ s.badExits = 1 ∧ Dead s ∧
      ∀ ls s', (sys cfgF1).run s ls = some s' → s'.cancelled = false := by
  have hrep := c12_f1_replay
  cases hrun : (sys cfgF1).run init f1Trace with
  | none => rw [hrun] at hrep; cases hrep
  | some s =>
    rw [hrun] at hrep
    simp only [Option.map_some, Option.some.injEq] at hrep
    have hr : (sys cfgF1).Reachable s := System.reachable_of_run (sys cfgF1) f1Trace System.Reachable.init hrun
    have hv : cfgF1.Valid := ⟨by decide, by decide, by decide, by decide⟩
    have hd : Dead s := c12_dead_of_obs s [.exited, .exited] (congrArg Obs.life hrep) (congrArg Obs.cancelled hrep)
      (congrArg Obs.pcs hrep) (by simp)
    refine ⟨s, hr, hv, congrArg Obs.graceful hrep, congrArg Obs.life hrep, congrArg Obs.totalGo hrep,
      congrArg Obs.queue hrep, congrArg Obs.badExits hrep, hd, fun ls s' h => ?_⟩
    exact (dead_forever cfgF1 (by decide) s hr hd ls s' h).notDone

/-! ### negative witness C12-F2: totalGo = 0 while running with queued tasks -/

theorem c12_f2_strand_replay : ((sys cfgF2).run init f2Strand).map obs =
    some ⟨.running, false, false, 0, [3, 4], [.exited, .exited, .exited], 0, false, [1, 1, 1, 0, 0],
          [.ok, .ok, .ok, .ok, .ok]⟩ := by rfl

theorem c12_f2_shutdown_replay : ((sys cfgF2).run init (f2Strand ++ f2Shutdown)).map obs =
    some ⟨.closing, false, true, 0, [3, 4], [.exited, .exited, .exited], 0, true, [1, 1, 1, 0, 0],
          [.ok, .ok, .ok, .ok, .ok]⟩ := by rfl

/-- **C12-F2** (`initGo=1, coreGo=2, maxGo=3`).  There is a reachable state in which the pool is *running*
    with `totalGo = 0`, every worker gone, and two accepted tasks (Submit returned nil) queued that never
    ran; after a later successful Shutdown the pool is dead: the done channel is never closed and the two
    tasks stay in the queue, never executed, in every continuation. -/
theorem c12_core_exit_strand :
    ∃ s1 s2, (sys cfgF2).Reachable s1 ∧ cfgF2.Valid ∧ s1.life = .running ∧ s1.totalGo = 0 ∧ s1.queue = [3, 4] ∧
      s1.workers.map (·.pc) = [.exited, .exited, .exited] ∧
      s1.tasks.map (·.subRes) = [.ok, .ok, .ok, .ok, .ok] ∧ s1.tasks.map (·.runs) = [1, 1, 1, 0, 0] ∧
      (sys cfgF2).run s1 f2Shutdown = some s2 ∧ s2.graceful = true ∧ Dead s2 ∧
      ∀ ls s', (sys cfgF2).run s2 ls = some s' →
        s'.cancelled = false ∧ s'.queue = [3, 4] ∧ runsN s'.tasks 3 = 0 ∧ runsN s'.tasks 4 = 0 := by
  have hrep1 := c12_f2_strand_replay
  have hrep2 := c12_f2_shutdown_replay
  rw [System.run_append] at hrep2
  cases hrun1 : (sys cfgF2).run init f2Strand with
  | none => rw [hrun1] at hrep1; cases hrep1
  | some s1 =>
    rw [hrun1] at hrep1 hrep2
    simp only [Option.map_some, Option.some.injEq, Option.bind_some] at hrep1 hrep2
    cases hrun2 : (sys cfgF2).run s1 f2Shutdown with
    | none => rw [hrun2] at hrep2; cases hrep2
    | some s2 =>
      rw [hrun2] at hrep2
      simp only [Option.map_some, Option.some.injEq] at hrep2
      have hr1 : (sys cfgF2).Reachable s1 := System.reachable_of_run (sys cfgF2) f2Strand System.Reachable.init hrun1
      have hr2 : (sys cfgF2).Reachable s2 := System.reachable_of_run (sys cfgF2) f2Shutdown hr1 hrun2
      have hv : cfgF2.Valid := ⟨by decide, by decide, by decide, by decide⟩
      have hd : Dead s2 := c12_dead_of_obs s2 [.exited, .exited, .exited] (congrArg Obs.life hrep2)
        (congrArg Obs.cancelled hrep2) (congrArg Obs.pcs hrep2) (by simp)
      have hq2 : s2.queue = [3, 4] := congrArg Obs.queue hrep2
      have hruns2 : s2.tasks.map (·.runs) = [1, 1, 1, 0, 0] := congrArg Obs.runs hrep2
      refine ⟨s1, s2, hr1, hv, congrArg Obs.life hrep1, congrArg Obs.totalGo hrep1, congrArg Obs.queue hrep1,
        congrArg Obs.pcs hrep1, congrArg Obs.subRes hrep1, congrArg Obs.runs hrep1, hrun2,
        congrArg Obs.graceful hrep2, hd, fun ls s' h => ?_⟩
      have hfz := dead_forever_frozen cfgF2 (by decide) s2 hr2 hd ls s' h
      have r3 : runsN s2.tasks 3 = 0 := by
        have := congrArg (fun l => l[3]?) hruns2
        simp only [List.getElem?_map] at this
        simp only [runsN]; rw [this]; rfl
      have r4 : runsN s2.tasks 4 = 0 := by
        have := congrArg (fun l => l[4]?) hruns2
        simp only [List.getElem?_map] at this
        simp only [runsN]; rw [this]; rfl
      exact ⟨(dead_forever cfgF2 (by decide) s2 hr2 hd ls s' h).notDone, hfz.1.trans hq2,
             (hfz.2 3).trans r3, (hfz.2 4).trans r4⟩

/-! ### what does hold: partial liveness -/

/-- **Partial liveness.**  Hypothesis `HP s`: Shutdown's CAS succeeded and found at least one worker
    (`0 < liveAtShut`), the done channel is not closed yet, and no worker has left through the idle-timeout or
    above-core exit while closing (`badExits = 0`).  Then the pool is not dead: some worker is still counted
    (and will reach the closed queue), or one is about to cancel, or — closing with no worker counted — one sits
    between its decrement on the `!ok` path and the closing→stopped CAS, which it wins (`totalGo = 0`).
    What is missing for the full statement: (1) the hypothesis `badExits = 0` is exactly what fails in
    C12-F1/F2; (2) an enabledness + variant argument (weak fairness, terminating tasks) turning "never dead"
    into "eventually closed" — wall-clock liveness is not a theorem of the transition system. -/
theorem c12_shutdown_completes_partial (c : Cfg) (hv : c.Valid) (s : St) (hr : (sys c).Reachable s) (hH : HP s) :
    0 < s.workers.countP liveW ∨ 0 < s.workers.countP cancelW ∨
      (s.life = .closing ∧ s.totalGo = 0 ∧ 0 < s.workers.countP finW) := by
  have hp := (reach_invP c (vle c hv) s hr).glob.1 hH
  have hc := (reach_invAll c (vle c hv) s hr).c.glob
  rcases hp with h | h | ⟨h1, h2⟩
  · exact Or.inl h
  · exact Or.inr (Or.inl h)
  · by_cases hl : 0 < s.workers.countP liveW
    · exact Or.inl hl
    · refine Or.inr (Or.inr ⟨h1, ?_, h2⟩)
      have hp0 : s.pending = 0 := hc.2.2.1 (by rw [h1]; simp)
      have := hc.1
      omega

/-- in particular, under that hypothesis the pool is never in a dead state -/
theorem c12_not_dead_partial (c : Cfg) (hv : c.Valid) (s : St) (hr : (sys c).Reachable s) (hH : HP s) : ¬ Dead s := by
  intro hd
  have hex : ∀ (p : Worker → Bool), (∀ w, p w = true → w.pc ≠ .exited) → ¬ 0 < s.workers.countP p := by
    intro p hp hpos
    rw [List.countP_pos_iff] at hpos
    obtain ⟨w, hw, hpw⟩ := hpos
    obtain ⟨i, hi⟩ := List.getElem?_of_mem hw
    exact hp w hpw (hd.gone i w hi)
  rcases c12_shutdown_completes_partial c hv s hr hH with h | h | ⟨_, _, h⟩
  · exact hex liveW (fun w hw he => by simp [liveW, he] at hw) h
  · exact hex cancelW (fun w hw he => by simp [cancelW, he] at hw) h
  · exact hex finW (fun w hw he => by simp [finW, he] at hw) h

/-- the hypothesis is automatic for fixed-size pools (`initGo = coreGo = maxGo`): no worker ever leaves
    through the idle-timeout or the above-core exit -/
theorem c12_fixed_size_no_bad_exit (c : Cfg) (hv : c.Valid) (hfix : c.initGo = c.maxGo) (s : St)
    (hr : (sys c).Reachable s) : s.badExits = 0 ∧ ∀ (i : Nat) (w : Worker), s.workers[i]? = some w → w.timer = .off :=
  ⟨(reach_invF c hv hfix s hr).glob, fun i w hw => ((reach_invF c hv hfix s hr).wk i w hw).1⟩

/-- …so a fixed-size pool that had a worker at Shutdown is never dead before the done channel closes -/
theorem c12_fixed_size_never_dead (c : Cfg) (hv : c.Valid) (hfix : c.initGo = c.maxGo) (s : St)
    (hr : (sys c).Reachable s) (hg : s.graceful = true) (hl : 0 < s.liveAtShut) (hn : s.cancelled = false) : ¬ Dead s :=
  c12_not_dead_partial c hv s hr ⟨hg, hn, (c12_fixed_size_no_bad_exit c hv hfix s hr).1, hl⟩

/-! ### regenerated tie: sync skeletons of every function of pool/task_pool.go -/

theorem c12_skel_NewOnDemandBlockTaskPool : Ekit.Gen.SkelC12.NewOnDemandBlockTaskPool = expected_NewOnDemandBlockTaskPool := rfl
theorem c12_skel_OnDemandBlockTaskPool_Shutdown : Ekit.Gen.SkelC12.OnDemandBlockTaskPool_Shutdown = expected_OnDemandBlockTaskPool_Shutdown := rfl
theorem c12_skel_OnDemandBlockTaskPool_ShutdownNow : Ekit.Gen.SkelC12.OnDemandBlockTaskPool_ShutdownNow = expected_OnDemandBlockTaskPool_ShutdownNow := rfl
theorem c12_skel_OnDemandBlockTaskPool_Start : Ekit.Gen.SkelC12.OnDemandBlockTaskPool_Start = expected_OnDemandBlockTaskPool_Start := rfl
theorem c12_skel_OnDemandBlockTaskPool_States : Ekit.Gen.SkelC12.OnDemandBlockTaskPool_States = expected_OnDemandBlockTaskPool_States := rfl
theorem c12_skel_OnDemandBlockTaskPool_Submit : Ekit.Gen.SkelC12.OnDemandBlockTaskPool_Submit = expected_OnDemandBlockTaskPool_Submit := rfl
theorem c12_skel_OnDemandBlockTaskPool_allowToCreateGoroutine : Ekit.Gen.SkelC12.OnDemandBlockTaskPool_allowToCreateGoroutine = expected_OnDemandBlockTaskPool_allowToCreateGoroutine := rfl
theorem c12_skel_OnDemandBlockTaskPool_decreaseTotalGo : Ekit.Gen.SkelC12.OnDemandBlockTaskPool_decreaseTotalGo = expected_OnDemandBlockTaskPool_decreaseTotalGo := rfl
theorem c12_skel_OnDemandBlockTaskPool_getState : Ekit.Gen.SkelC12.OnDemandBlockTaskPool_getState = expected_OnDemandBlockTaskPool_getState := rfl
theorem c12_skel_OnDemandBlockTaskPool_goroutine : Ekit.Gen.SkelC12.OnDemandBlockTaskPool_goroutine = expected_OnDemandBlockTaskPool_goroutine := rfl
theorem c12_skel_OnDemandBlockTaskPool_increaseTotalGo : Ekit.Gen.SkelC12.OnDemandBlockTaskPool_increaseTotalGo = expected_OnDemandBlockTaskPool_increaseTotalGo := rfl
theorem c12_skel_OnDemandBlockTaskPool_internalState : Ekit.Gen.SkelC12.OnDemandBlockTaskPool_internalState = expected_OnDemandBlockTaskPool_internalState := rfl
theorem c12_skel_OnDemandBlockTaskPool_numOfGo : Ekit.Gen.SkelC12.OnDemandBlockTaskPool_numOfGo = expected_OnDemandBlockTaskPool_numOfGo := rfl
theorem c12_skel_OnDemandBlockTaskPool_numOfGoThatCanBeCreate : Ekit.Gen.SkelC12.OnDemandBlockTaskPool_numOfGoThatCanBeCreate = expected_OnDemandBlockTaskPool_numOfGoThatCanBeCreate := rfl
theorem c12_skel_OnDemandBlockTaskPool_sendState : Ekit.Gen.SkelC12.OnDemandBlockTaskPool_sendState = expected_OnDemandBlockTaskPool_sendState := rfl
theorem c12_skel_OnDemandBlockTaskPool_trySubmit : Ekit.Gen.SkelC12.OnDemandBlockTaskPool_trySubmit = expected_OnDemandBlockTaskPool_trySubmit := rfl
theorem c12_skel_TaskFunc_Run : Ekit.Gen.SkelC12.TaskFunc_Run = expected_TaskFunc_Run := rfl
theorem c12_skel_WithCoreGo : Ekit.Gen.SkelC12.WithCoreGo = expected_WithCoreGo := rfl
theorem c12_skel_WithMaxGo : Ekit.Gen.SkelC12.WithMaxGo = expected_WithMaxGo := rfl
theorem c12_skel_WithMaxIdleTime : Ekit.Gen.SkelC12.WithMaxIdleTime = expected_WithMaxIdleTime := rfl
theorem c12_skel_WithQueueBacklogRate : Ekit.Gen.SkelC12.WithQueueBacklogRate = expected_WithQueueBacklogRate := rfl
theorem c12_skel_group_add : Ekit.Gen.SkelC12.group_add = expected_group_add := rfl
theorem c12_skel_group_delete : Ekit.Gen.SkelC12.group_delete = expected_group_delete := rfl
theorem c12_skel_group_isIn : Ekit.Gen.SkelC12.group_isIn = expected_group_isIn := rfl
theorem c12_skel_group_size : Ekit.Gen.SkelC12.group_size = expected_group_size := rfl
theorem c12_skel_taskWrapper_Run : Ekit.Gen.SkelC12.taskWrapper_Run = expected_taskWrapper_Run := rfl

end Ekit.Pool
