/-
The linearizability theorems of C07 in the classical Herlihy–Wing form.

`Ekit.Conc.Linearizable` (history of the canonical atomic automaton) is equivalent to
"well-formed and Herlihy–Wing linearizable" (`Ekit.Conc.linearizable_iff_hw`, HerlihyWing.lean; the
classical definition itself is in HerlihyWingDef.lean).  Each corollary below is the corresponding
property theorem followed by that equivalence: every history of every run of the model is a
well-formed history, and there is a list `L` of its calls with results that contains every completed
call (with its result) and possibly some pending ones, is a legal sequential execution of the
specification, and respects the real-time order of the history.
-/
import Ekit.Conc.HerlihyWing
import Ekit.Props.C07

namespace Ekit.Props.HWForms
open Ekit.Conc Ekit.BQ

section Array
open Ekit.ArrayBQ
theorem c07_abq_hw_linearizable (cap : Nat) (hcap : 1 ≤ cap) (ls : List Label) (s : State)
    (hrun : (sys cap).run (sys cap).init ls = some s) :
    HW.WellFormed ((sys cap).history ls) ∧ HW.HWLinearizable (bqSpec (some cap)) ((sys cap).history ls) :=
  (c07_abq_linearizable cap hcap ls s hrun).hw
end Array

section Linked
open Ekit.LinkedBQ
theorem c07_lbq_hw_linearizable (m : Int) (ls : List Label) (s : State)
    (hrun : (sys m).run (sys m).init ls = some s) :
    HW.WellFormed ((sys m).history ls) ∧ HW.HWLinearizable (bqSpec (bound m)) ((sys m).history ls) :=
  (c07_lbq_linearizable m ls s hrun).hw
end Linked

end Ekit.Props.HWForms
