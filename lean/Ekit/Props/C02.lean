/-
C02 — The red-black tree stays balanced: logarithmic lookups after any history.

Property theorems only.  Model: Ekit/Model/RBTree.lean (the functions the trace acceptor
Driver/Tree.lean executes against the real tree); helper lemmas: Ekit/Lemmas/RBInv.lean (insert
fix-up), RBDel.lean (delete fix-up: black sibling cases 2/3/4, red sibling, splice, successor),
RBHeight.lean (height bound), RBRefine.lean (ordering and size, shared with C01).

"parent links consistent with child links" has no counterpart in the functional model (there are no
parent pointers); it is checked on the implementation after every call by the audit hook.
-/
import Ekit.Lemmas.RBHeight
import Ekit.Lemmas.RBRefine

namespace Ekit.RB
variable {α β : Type} {cmp : α → α → Int}

/-- "a valid red-black tree: black root, no red node with a red child, the same number of black
    nodes on every root-to-leaf path, keys strictly ascending in-order, and the reported size equal
    to the node count" -/
structure RBInv (cmp : α → α → Int) (t : RBTree α β) : Prop where
  rootBlack : t.root.color = .black
  noRedRed : t.root.NoRR
  balanced : t.root.Bal
  ordered : t.root.Ordered cmp
  size_eq : t.size = t.root.count

theorem RBInv.wf {t : RBTree α β} (h : RBInv cmp t) : t.WF cmp :=
  ⟨h.ordered, by rw [h.size_eq, Tree.length_toList]⟩

/-- the colour/shape part of the invariant needs NO assumption on the comparator at all -/
structure ShapeInv (t : Tree α β) : Prop where
  rootBlack : t.color = .black
  noRedRed : t.NoRR
  balanced : t.Bal

theorem c02_empty_inv : RBInv cmp (RBTree.empty : RBTree α β) :=
  ⟨rfl, trivial, trivial, List.Pairwise.nil, rfl⟩

/-- `Add` (insert + `fixAfterAdd`): black root, no red-red and equal black heights are kept — for
    EVERY comparator, lawful or not. -/
theorem c02_insert_inv (k : α) (v : β) (t t' : Tree α β) (h : ShapeInv t)
    (hi : Tree.insert cmp t k v = some t') : ShapeInv t' := by
  obtain ⟨a, b, c⟩ := Tree.insert_inv cmp k v t t' h.noRedRed h.balanced hi
  exact ⟨a, b, c⟩

/-- `Delete` (`deleteNode` + `fixAfterDelete`, all 2×4 cases, successor splice, phantom leaf). -/
theorem c02_delete_inv (k : α) (x : β) (t t' : Tree α β) (h : ShapeInv t)
    (hd : Tree.delete cmp t k = some (x, t')) : ShapeInv t' := by
  obtain ⟨a, b, c⟩ := Tree.delete_inv cmp k t t' x h.rootBlack h.noRedRed h.balanced hd
  exact ⟨a, b, c⟩

/-- every public call of the tree keeps the whole invariant -/
theorem c02_step_inv (hc : LawfulCmp cmp) (t : RBTree α β) (h : RBInv cmp t) (op : TreeOp α β) :
    RBInv cmp (t.step cmp op).1 := by
  have hw := (RBTree.step_refines hc t h.wf op).2
  have hsz : ((t.step cmp op).1).size = ((t.step cmp op).1).root.count := by
    rw [hw.size_eq, Tree.length_toList]
  refine ⟨?_, ?_, ?_, hw.ordered, hsz⟩ <;>
  · cases op with
    | add k v =>
      simp only [RBTree.step]
      cases hi : Tree.insert cmp t.root k v with
      | none => first | exact h.rootBlack | exact h.noRedRed | exact h.balanced
      | some t' =>
        have := c02_insert_inv k v t.root t' ⟨h.rootBlack, h.noRedRed, h.balanced⟩ hi
        first | exact this.rootBlack | exact this.noRedRed | exact this.balanced
    | set k v =>
      simp only [RBTree.step]
      cases hi : Tree.set cmp k v t.root with
      | none => first | exact h.rootBlack | exact h.noRedRed | exact h.balanced
      | some t' =>
        obtain ⟨a1, a2, a3, a4, a5⟩ := Tree.set_shape cmp k v t.root t' hi
        first | exact a1.trans h.rootBlack | exact a4 h.noRedRed | exact a5 h.balanced
    | find k =>
      simp only [RBTree.step]
      cases Tree.find cmp k t.root <;> first | exact h.rootBlack | exact h.noRedRed | exact h.balanced
    | delete k =>
      simp only [RBTree.step]
      cases hi : Tree.delete cmp t.root k with
      | none => first | exact h.rootBlack | exact h.noRedRed | exact h.balanced
      | some xt =>
        obtain ⟨x, t'⟩ := xt
        have := c02_delete_inv k x t.root t' ⟨h.rootBlack, h.noRedRed, h.balanced⟩ hi
        first | exact this.rootBlack | exact this.noRedRed | exact this.balanced
    | keyValues => first | exact h.rootBlack | exact h.noRedRed | exact h.balanced
    | size => first | exact h.rootBlack | exact h.noRedRed | exact h.balanced

/-- "After any history of insertions and deletions the tree is a valid red-black tree" -/
theorem c02_reachable_inv (hc : LawfulCmp cmp) (ops : List (TreeOp α β)) :
    RBInv cmp ((RBTree.empty : RBTree α β).run cmp ops).1 := by
  suffices ∀ t : RBTree α β, RBInv cmp t → RBInv cmp (t.run cmp ops).1 from this _ c02_empty_inv
  induction ops with
  | nil => intro t h; exact h
  | cons op rest ih => intro t h; exact ih _ (c02_step_inv hc t h op)

/-- … and the TreeMap operations built on them (`Put` = Add, else Set) -/
theorem c02_treemap_step_inv (hc : LawfulCmp cmp) (t : RBTree α β) (h : RBInv cmp t) (op : MapOp α β) :
    RBInv cmp (TreeMap.step cmp t op).1 := by
  cases op with
  | put k v =>
    have ha := c02_step_inv hc t h (.add k v)
    simp only [TreeMap.step]
    generalize hq : t.step cmp (.add k v) = q at ha
    obtain ⟨q1, q2⟩ := q
    cases q2 <;> first | exact ha | exact c02_step_inv hc q1 ha (.set k v)
  | get k =>
    have ha := c02_step_inv hc t h (.find k)
    simp only [TreeMap.step]
    generalize hq : t.step cmp (.find k) = q at ha
    obtain ⟨q1, q2⟩ := q
    cases q2 <;> exact ha
  | delete k => exact c02_step_inv hc t h (.delete k)
  | keys => exact h
  | values => exact h
  | len => exact h

theorem c02_treemap_reachable_inv (hc : LawfulCmp cmp) (ops : List (MapOp α β)) :
    RBInv cmp (TreeMap.run cmp (RBTree.empty : RBTree α β) ops).1 := by
  suffices ∀ t : RBTree α β, RBInv cmp t → RBInv cmp (TreeMap.run cmp t ops).1 from this _ c02_empty_inv
  induction ops with
  | nil => intro t h; exact h
  | cons op rest ih => intro t h; exact ih _ (c02_treemap_step_inv hc t h op)

/-- a valid red-black tree with `n` nodes has at most `2*log2(n+1)` nodes on any path -/
theorem c02_height_le (t : RBTree α β) (h : RBInv cmp t) :
    t.root.height ≤ 2 * Nat.log2 (t.root.count + 1) :=
  Tree.height_le_log t.root h.rootBlack h.noRedRed h.balanced

/-- the descent of `findNode` / `addNode` makes at most one comparator call per level -/
theorem c02_cmpCount_le_height (k : α) (t : Tree α β) : t.cmpCount cmp k ≤ t.height :=
  Tree.cmpCount_le_height cmp k t

/-- the counting lookup the bound is stated for is the lookup: same result, `cmpCount` calls -/
theorem c02_findCount (k : α) (t : Tree α β) :
    Tree.findCount cmp k t = (Tree.findEntry cmp k t, Tree.cmpCount cmp k t) :=
  Tree.findCount_eq cmp k t

/-- "a lookup, insertion or deletion on a container holding n keys never makes more than
    2*log2(n+1) comparator calls to locate its key" — every RBTree call, `n = Size()`. -/
theorem c02_cmps_le (t : RBTree α β) (h : RBInv cmp t) (op : TreeOp α β) :
    t.cmps cmp op ≤ 2 * Nat.log2 (t.size.toNat + 1) := by
  have hh := c02_height_le t h
  have hs : t.size.toNat = t.root.count := by rw [h.size_eq]; simp
  rw [hs]
  cases op <;> simp only [RBTree.cmps] <;>
    first
    | exact Nat.le_trans (Tree.cmpCount_le_height cmp _ t.root) hh
    | exact Nat.zero_le _

/-- … after any history: the bound holds for every call of every reachable tree -/
theorem c02_cmps_le_reachable (hc : LawfulCmp cmp) (ops : List (TreeOp α β)) (op : TreeOp α β) :
    let t := ((RBTree.empty : RBTree α β).run cmp ops).1
    t.cmps cmp op ≤ 2 * Nat.log2 (t.size.toNat + 1) :=
  c02_cmps_le _ (c02_reachable_inv hc ops) op

/-- TreeMap: `Get`/`Delete` locate once, `Put` at most twice (Add, then Set on a present key);
    each locate is within the bound. -/
theorem c02_treemap_cmps_le (t : RBTree α β) (h : RBInv cmp t) (op : MapOp α β) :
    TreeMap.cmps cmp t op ≤ 2 * (2 * Nat.log2 (t.size.toNat + 1)) := by
  have hh := c02_height_le t h
  have hs : t.size.toNat = t.root.count := by rw [h.size_eq]; simp
  rw [hs]
  cases op with
  | put k v =>
    have := Tree.cmpCount_le_height cmp k t.root
    simp only [TreeMap.cmps]
    split <;> omega
  | get k => have := Tree.cmpCount_le_height cmp k t.root; simp only [TreeMap.cmps]; omega
  | delete k => have := Tree.cmpCount_le_height cmp k t.root; simp only [TreeMap.cmps]; omega
  | keys => exact Nat.zero_le _
  | values => exact Nat.zero_le _
  | len => exact Nat.zero_le _


/-- TreeSet (`Add` = TreeMap.Put: at most two locates), LinkedMap (`Put` = Get, then Put on the index
    when absent: at most two) and MultiMap (`Put` = Get, Add, Set: at most three) stay within the
    bound per locate; `t` is the index tree of the container. -/
theorem c02_wrappers_cmps_le {γ : Type}
    (ts : RBTree α Unit) (hs : RBInv cmp ts) (sop : SetOp α)
    (lm : LinkedMap α β) (hl : RBInv cmp lm.m) (lop : MapOp α β)
    (tm : RBTree α (List γ)) (hm : RBInv cmp tm) (mop : MapOp α (List γ)) :
    TreeSet.cmps cmp ts sop ≤ 2 * (2 * Nat.log2 (ts.size.toNat + 1)) ∧
    LinkedMap.cmps cmp lm lop ≤ 2 * (2 * Nat.log2 (lm.m.size.toNat + 1)) ∧
    MultiMap.cmps cmp tm mop ≤ 3 * (2 * Nat.log2 (tm.size.toNat + 1)) := by
  have h1 := c02_height_le ts hs
  have h2 := c02_height_le lm.m hl
  have h3 := c02_height_le tm hm
  have e1 : ts.size.toNat = ts.root.count := by rw [hs.size_eq]; simp
  have e2 : lm.m.size.toNat = lm.m.root.count := by rw [hl.size_eq]; simp
  have e3 : tm.size.toNat = tm.root.count := by rw [hm.size_eq]; simp
  rw [e1, e2, e3]
  refine ⟨?_, ?_, ?_⟩
  · cases sop with
    | add k =>
      have := Tree.cmpCount_le_height cmp k ts.root
      simp only [TreeSet.cmps, TreeMap.cmps]; split <;> omega
    | delete k => have := Tree.cmpCount_le_height cmp k ts.root; simp only [TreeSet.cmps]; omega
    | exist k => have := Tree.cmpCount_le_height cmp k ts.root; simp only [TreeSet.cmps]; omega
    | keys => exact Nat.zero_le _
  · cases lop with
    | put k v =>
      have := Tree.cmpCount_le_height cmp k lm.m.root
      simp only [LinkedMap.cmps]; split <;> omega
    | get k => have := Tree.cmpCount_le_height cmp k lm.m.root; simp only [LinkedMap.cmps]; omega
    | delete k => have := Tree.cmpCount_le_height cmp k lm.m.root; simp only [LinkedMap.cmps]; omega
    | keys => exact Nat.zero_le _
    | values => exact Nat.zero_le _
    | len => exact Nat.zero_le _
  · cases mop with
    | put k v =>
      have := Tree.cmpCount_le_height cmp k tm.root
      simp only [MultiMap.cmps]; split <;> omega
    | get k => have := Tree.cmpCount_le_height cmp k tm.root; simp only [MultiMap.cmps]; omega
    | delete k => have := Tree.cmpCount_le_height cmp k tm.root; simp only [MultiMap.cmps]; omega
    | keys => exact Nat.zero_le _
    | values => exact Nat.zero_le _
    | len => exact Nat.zero_le _

/-! #### non-vacuity: concrete trees built by the model -/

theorem c02_cmpAsc_lawful : LawfulCmp cmpAsc :=
  ⟨fun a b => by simp only [cmpAsc]; omega, fun a b c => by simp only [cmpAsc]; omega⟩

/-- 1..10 inserted ascending (every insertion rotates or recolours) -/
def t10 : RBTree Int Int :=
  ((RBTree.empty : RBTree Int Int).run cmpAsc
    [.add 1 0, .add 2 1, .add 3 2, .add 4 3, .add 5 4, .add 6 5, .add 7 6, .add 8 7, .add 9 8, .add 10 9]).1

example : RBInv cmpAsc t10 := c02_reachable_inv c02_cmpAsc_lawful _
example : t10.root.count = 10 ∧ t10.root.height = 5 ∧ 2 * Nat.log2 (10 + 1) = 6 := by decide
/-- a lookup that really needs `height` comparator calls -/
example : t10.root.cmpCount cmpAsc 10 = 5 := by decide
/-- deletions below the root that come back "one black short" (the flag the fix-up lemmas are about)
    and are repaired by a fix-up on the way up: the sibling-red case and the black-sibling cases -/
example : (Tree.del cmpAsc 1 (Tree.node .black (Tree.node .black .nil 1 0 .nil) 2 0 (Tree.node .black .nil 3 0 .nil))).map (·.2.2)
    = some true := by decide
example : (Tree.fixDelL .black (Tree.nil : Tree Int Int) 1 0
      (Tree.node .red (Tree.node .black .nil 3 0 .nil) 4 0 (Tree.node .black .nil 5 0 .nil))).2 = false := by decide
example : ((t10.step cmpAsc (.delete 1)).1.root.height, (t10.step cmpAsc (.delete 4)).1.root.count) = (4, 9) := by decide

end Ekit.RB
