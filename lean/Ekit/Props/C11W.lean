/-
C11 — non-vacuity witness (review addition): the bounds `totalGo ≤ maxGo`, "tasks executing concurrently ≤ maxGo"
and "GoCnt reported by States ≤ maxGo" are attained in a reachable state.
-/
import Ekit.Props.C10W

namespace Ekit.Pool
open Ekit.Conc Ekit.Pool.Witness

/-! ### C11: the bound is attained -/

/-- Start (1 worker); Submit t0 — which creates the second worker —, Submit t1 (no growth: totalGo = maxGo);
    both workers enter `task.Run` of blocking tasks. -/
def traceTwo : List Label :=
  callSteps 0 [.invStart, .stLoad1, .stLoad2, .stLoad3, .stCas, .stNum, .stIncLock, .stIncWrite, .stSpawn, .stUnlock, .ret] ++
  callSteps 0 [.invSubmit false .block, .subLoad1, .subLoad2, .subCas1, .subCas2, .selSend, .allowRLock, .allowRead,
               .incLock, .incWrite, .spawn, .unlock, .ret] ++
  callSteps 0 (subRunning .block) ++
  workSteps 0 [.selRecv, .leaveGroup, .incRun] ++ workSteps 1 [.selRecv, .leaveGroup, .incRun] ++
  callSteps 3 [.invStates, .gsRLock, .gsRead]

/-- **Non-vacuity of C11** (`initGo = 1`, `WithMaxGo(2)`): a reachable state in which `maxGo = 2` tasks
    execute at the same instant, `totalGo = maxGo`, and a `States` sample reports `GoCnt = maxGo`: the
    bounds of `c11_running_le_maxGo`, `c11_totalGo_le_maxGo` and `c11_states_goCnt_le_max` are attained. -/
theorem c11_witness_bound_attained :
    ∃ s, (sys cfgF1).Reachable s ∧ cfgF1.Valid ∧ cfgF1.maxGo = 2 ∧ s.totalGo = 2 ∧
      s.workers.countP (fun w => execPc w.pc) = 2 ∧ (s.callers 3).pc = .ret ∧ (s.callers 3).res = .goCnt 2 := by
  have hrep : ((sys cfgF1).run init traceTwo).map
      (fun s => (s.totalGo, s.workers.map (·.pc), (s.callers 3).pc, (s.callers 3).res)) =
      some (2, [.running, .running], .ret, .goCnt 2) := by rfl
  cases hrun : (sys cfgF1).run init traceTwo with
  | none => rw [hrun] at hrep; cases hrep
  | some s =>
    rw [hrun] at hrep
    simp only [Option.map_some, Option.some.injEq, Prod.mk.injEq] at hrep
    obtain ⟨h1, h2, h3, h4⟩ := hrep
    refine ⟨s, System.reachable_of_run (sys cfgF1) traceTwo System.Reachable.init hrun,
      ⟨by decide, by decide, by decide, by decide⟩, rfl, h1, ?_, h3, h4⟩
    have : s.workers.countP (fun w => execPc w.pc) = (s.workers.map (·.pc)).countP execPc := by
      rw [List.countP_map]; rfl
    rw [this, h2]; rfl

end Ekit.Pool
