/-
C04 — List implementations refine an abstract sequence; failed calls change nothing.

Property theorems only (helper lemmas are in Ekit/Lemmas/Lists.lean).  The models are in
Ekit/Model/Lists.lean; `Ekit.Gen.calCapacity` is regenerated from /repo/internal/slice/shrink.go.
-/
import Ekit.Lemmas.Lists

namespace Ekit.Lists
open Ekit.Go

/-- The translation of the CURRENT source of `calCapacity` (regenerated on every run by
    harness/extract) is the function the shrink model and its lemmas were written against. -/
theorem c04_calCapacity_matches_source (c l : Int) : Ekit.Gen.calCapacity c l = calCapacityRef c l :=
  calCapacity_eq_ref c l

/-! #### ArrayList -/

/-- One call on an ArrayList returns what the abstract sequence returns and leaves contents equal
    to the abstract sequence's — for EVERY capacity, EVERY runtime growth choice, EVERY index. -/
theorem c04_arrayList_step_refines (a : ArrayList) (grow : Nat) (op : Op) :
    ((a.step grow op).1.s.vals, (a.step grow op).2) = Spec.step a.s.vals op := by
  cases op with
  | get i =>
    simp only [ArrayList.step, Spec.step, Spec.inRange]
    by_cases h : i < 0 ∨ i ≥ (a.s.vals.length : Int)
    · have : ¬ (0 ≤ i ∧ i < (a.s.vals.length : Int)) := by omega
      simp [h, this]
    · have : (0 ≤ i ∧ i < (a.s.vals.length : Int)) := by omega
      simp [h, this]
  | append ts =>
    simp only [ArrayList.step, Spec.step, GoSlice.append]
    split <;> rfl
  | add i t =>
    simp only [ArrayList.step, Spec.step, sliceAdd]
    by_cases h : i < 0 ∨ i > (a.s.vals.length : Int)
    · have : ¬ (0 ≤ i ∧ i ≤ (a.s.vals.length : Int)) := by omega
      simp [h, this]
    · have h' : (0 ≤ i ∧ i ≤ (a.s.vals.length : Int)) := by omega
      have hi : i.toNat ≤ a.s.vals.length := by omega
      have key := shiftRight_insert a.s.vals i.toNat t hi
      simp only [h, if_false, h', GoSlice.append]
      split <;> simp_all
  | set i t =>
    simp only [ArrayList.step, Spec.step, Spec.inRange]
    by_cases h : i ≥ (a.s.vals.length : Int) ∨ i < 0
    · have : ¬ (0 ≤ i ∧ i < (a.s.vals.length : Int)) := by omega
      simp [h, this]
    · have : (0 ≤ i ∧ i < (a.s.vals.length : Int)) := by omega
      simp [h, this]
  | delete i =>
    simp only [ArrayList.step, Spec.step, Spec.inRange, sliceDelete]
    by_cases h : i < 0 ∨ i ≥ (a.s.vals.length : Int)
    · have : ¬ (0 ≤ i ∧ i < (a.s.vals.length : Int)) := by omega
      simp [h, this]
    · have h' : (0 ≤ i ∧ i < (a.s.vals.length : Int)) := by omega
      have hi : i.toNat < a.s.vals.length := by omega
      have key := shiftLeft_erase a.s.vals i.toNat hi
      simp only [h, if_false, h', key]
      simp only [sliceShrink]
      have hs := calCapacity_isSome (a.s.cap : Int) ((a.s.vals.eraseIdx i.toNat).length : Int)
      cases hc : Ekit.Gen.calCapacity (a.s.cap : Int) ((a.s.vals.eraseIdx i.toNat).length : Int) with
      | none => simp [hc] at hs
      | some p =>
        obtain ⟨n, changed⟩ := p
        cases changed with
        | false => simp
        | true =>
          have hn : ¬ n < 0 := by
            have := calCapacity_nonneg _ _ _ _ (by omega) hc
            omega
          simp [hn, GoSlice.append]
          split <;> simp
  | len => rfl
  | asSlice => rfl
  | range => rfl

/-- Running any history with any sequence of growth choices. -/
def ArrayList.run (a : ArrayList) : List (Nat × Op) → ArrayList × List Out
  | [] => (a, [])
  | (g, op) :: rest =>
    let r := a.step g op
    let rr := ArrayList.run r.1 rest
    (rr.1, r.2 :: rr.2)

/-- **Refinement for every history**: all outputs and the final contents equal the abstract
    sequence's, whatever the initial capacity and growth choices. -/
theorem c04_arrayList_run_refines (a : ArrayList) (h : List (Nat × Op)) :
    ((ArrayList.run a h).1.s.vals, (ArrayList.run a h).2) = Spec.run a.s.vals (h.map (·.2)) := by
  induction h generalizing a with
  | nil => rfl
  | cons x rest ih =>
    obtain ⟨g, op⟩ := x
    have h1 := c04_arrayList_step_refines a g op
    have h2 := ih (a.step g op).1
    simp only [ArrayList.run, List.map, Spec.run]
    rw [← h1]
    simp only []
    rw [← h2]

/-- No call on an ArrayList panics (in particular `Delete` down to empty with capacity > 64). -/
theorem c04_arrayList_no_panic (a : ArrayList) (grow : Nat) (op : Op) :
    (a.step grow op).2.isPanic = false := by
  have h := c04_arrayList_step_refines a grow op
  have : (a.step grow op).2 = (Spec.step a.s.vals op).2 := by rw [← h]
  rw [this]
  cases op <;> simp [Spec.step] <;> (try split) <;> rfl

/-- A call that reports an error leaves the whole list state (contents AND capacity) unchanged. -/
theorem c04_arrayList_err_unchanged (a : ArrayList) (grow : Nat) (op : Op)
    (h : (a.step grow op).2.isErr = true) : (a.step grow op).1 = a := by
  cases op with
  | get i => simp only [ArrayList.step]; split <;> rfl
  | append ts => simp [ArrayList.step, Outcome.isErr] at h
  | add i t =>
    simp only [ArrayList.step] at h ⊢
    cases hs : sliceAdd a.s t i grow <;> simp_all [Outcome.isErr]
  | set i t =>
    simp only [ArrayList.step] at h ⊢
    split <;> simp_all [Outcome.isErr]
  | delete i =>
    by_cases hg : i < 0 ∨ i ≥ (a.s.vals.length : Int)
    · simp [ArrayList.step, sliceDelete, hg]
    · exfalso
      have r := c04_arrayList_step_refines a grow (.delete i)
      have e : (a.step grow (.delete i)).2 = (Spec.step a.s.vals (.delete i)).2 := by rw [← r]
      rw [e] at h
      have : (0 ≤ i ∧ i < (a.s.vals.length : Int)) := by omega
      simp [Spec.step, Spec.inRange, this, Outcome.isErr] at h
  | len => rfl
  | asSlice => rfl
  | range => rfl

/-- Out-of-range indices are reported as the index error carrying (len, index). -/
theorem c04_arrayList_oob_err (a : ArrayList) (grow : Nat) (i t : Int)
    (h : i < 0 ∨ i > (a.s.vals.length : Int)) :
    (a.step grow (.add i t)).2 = .err (.idx a.s.vals.length i) := by
  have := c04_arrayList_step_refines a grow (.add i t)
  have e : (a.step grow (.add i t)).2 = (Spec.step a.s.vals (.add i t)).2 := by rw [← this]
  rw [e]
  have : ¬ (0 ≤ i ∧ i ≤ (a.s.vals.length : Int)) := by omega
  simp [Spec.step, this]

/-- Capacity bookkeeping: `len ≤ cap` is an invariant provided the runtime's growth choice is at
    least the needed length (the only assumption on `append`). -/
theorem c04_arrayList_len_le_cap (a : ArrayList) (grow : Nat) (op : Op)
    (hinv : a.s.vals.length ≤ a.s.cap)
    (hgrow : ∀ n, op = .append n → a.s.vals.length + n.length ≤ grow)
    (hgrow1 : a.s.vals.length + 1 ≤ grow) :
    (a.step grow op).1.s.vals.length ≤ (a.step grow op).1.s.cap := by
  cases op with
  | get i => simp only [ArrayList.step]; split <;> exact hinv
  | append ts =>
    have := hgrow ts rfl
    simp only [ArrayList.step, GoSlice.append]
    split <;> simp <;> omega
  | add i t =>
    by_cases hg : i < 0 ∨ i > (a.s.vals.length : Int)
    · simp [ArrayList.step, sliceAdd, hg]; exact hinv
    · simp only [ArrayList.step, sliceAdd, hg, if_false, GoSlice.append]
      split <;> simp [length_shiftRight] <;> omega
  | set i t =>
    simp only [ArrayList.step]
    split
    · exact hinv
    · simp; exact hinv
  | delete i =>
    by_cases hg : i < 0 ∨ i ≥ (a.s.vals.length : Int)
    · simp [ArrayList.step, sliceDelete, hg]; exact hinv
    · have hi : i.toNat < a.s.vals.length := by omega
      have key := shiftLeft_erase a.s.vals i.toNat hi
      simp only [ArrayList.step, sliceDelete, hg, if_false, key, sliceShrink]
      have hlen : (a.s.vals.eraseIdx i.toNat).length = a.s.vals.length - 1 := by
        simp [List.length_eraseIdx, hi]
      cases hc : Ekit.Gen.calCapacity (a.s.cap : Int) ((a.s.vals.eraseIdx i.toNat).length : Int) with
      | none => simp; omega
      | some p =>
        obtain ⟨n, ch⟩ := p
        cases ch with
        | false => simp; omega
        | true =>
          have := calCapacity_changed_ge (a.s.cap : Int) ((a.s.vals.eraseIdx i.toNat).length : Int) n
            (by omega) (by omega) hc
          have hn : ¬ n < 0 := by omega
          simp only [hn, Bool.not_true, Bool.false_eq_true, if_false, GoSlice.append]
          split
          · simp; omega
          · rename_i hh2; simp at hh2; omega
  | len => exact hinv
  | asSlice => exact hinv
  | range => exact hinv

/-! #### LinkedList -/

/-- `findNode(index)` lands on element `index` from whichever end it starts. -/
theorem c04_linked_findPos (len index : Int) (h0 : -1 ≤ index) (h1 : index ≤ len) :
    LinkedList.findPos len index = index := by
  unfold LinkedList.findPos LinkedList.walkFwd LinkedList.walkBack
  split <;> split <;> omega

theorem c04_linked_step_refines (l : List Int) (op : Op) :
    LinkedList.step l op = Spec.step l op := by
  cases op with
  | get i =>
    simp only [LinkedList.step, Spec.step, LinkedList.checkIndex, Spec.inRange]
    by_cases h : (0 ≤ i ∧ i < (l.length : Int))
    · have := c04_linked_findPos l.length i (by omega) (by omega)
      simp [h, this]
    · simp [h]
  | append ts => rfl
  | add i t =>
    simp only [LinkedList.step, Spec.step]
    by_cases h : i < 0 ∨ i > (l.length : Int)
    · have : ¬ (0 ≤ i ∧ i ≤ (l.length : Int)) := by omega
      simp [h, this]
    · have h' : (0 ≤ i ∧ i ≤ (l.length : Int)) := by omega
      have := c04_linked_findPos l.length i (by omega) (by omega)
      simp only [h, if_false, this]
      by_cases he : i = (l.length : Int)
      · have : i.toNat = l.length := by omega
        simp [he]
      · simp [he, h']
  | set i t =>
    simp only [LinkedList.step, Spec.step, LinkedList.checkIndex, Spec.inRange]
    by_cases h : (0 ≤ i ∧ i < (l.length : Int))
    · have := c04_linked_findPos l.length i (by omega) (by omega)
      simp [h, this]
    · simp [h]
  | delete i =>
    simp only [LinkedList.step, Spec.step, LinkedList.checkIndex, Spec.inRange]
    by_cases h : (0 ≤ i ∧ i < (l.length : Int))
    · have := c04_linked_findPos l.length i (by omega) (by omega)
      simp [h, this]
    · simp [h]
  | len => rfl
  | asSlice => rfl
  | range => rfl

/-! #### CopyOnWriteArrayList (sequential semantics) -/

theorem c04_cow_step_refines (a : CowList) (op : Op) :
    ((a.step op).1.s.vals, (a.step op).2) = Spec.step a.s.vals op := by
  cases op with
  | get i =>
    simp only [CowList.step, Spec.step, Spec.inRange]
    by_cases h : i < 0 ∨ i ≥ (a.s.vals.length : Int)
    · have : ¬ (0 ≤ i ∧ i < (a.s.vals.length : Int)) := by omega
      simp [h, this]
    · have : (0 ≤ i ∧ i < (a.s.vals.length : Int)) := by omega
      simp [h, this]
  | append ts => simp [CowList.step, Spec.step, GoSlice.append]
  | add i t =>
    simp only [CowList.step, Spec.step, sliceAdd]
    by_cases h : i < 0 ∨ i > (a.s.vals.length : Int)
    · have : ¬ (0 ≤ i ∧ i ≤ (a.s.vals.length : Int)) := by omega
      simp [h, this]
    · have h' : (0 ≤ i ∧ i ≤ (a.s.vals.length : Int)) := by omega
      have hi : i.toNat ≤ a.s.vals.length := by omega
      have key := shiftRight_insert a.s.vals i.toNat t hi
      simp only [h, if_false, h', GoSlice.append]
      simp_all
  | set i t =>
    simp only [CowList.step, Spec.step, Spec.inRange]
    by_cases h : i ≥ (a.s.vals.length : Int) ∨ i < 0
    · have : ¬ (0 ≤ i ∧ i < (a.s.vals.length : Int)) := by omega
      simp [h, this]
    · have : (0 ≤ i ∧ i < (a.s.vals.length : Int)) := by omega
      simp [h, this]
  | delete i =>
    simp only [CowList.step, Spec.step, Spec.inRange]
    by_cases h : i ≥ (a.s.vals.length : Int) ∨ i < 0
    · have : ¬ (0 ≤ i ∧ i < (a.s.vals.length : Int)) := by omega
      simp [h, this]
    · have : (0 ≤ i ∧ i < (a.s.vals.length : Int)) := by omega
      simp [h, this]
  | len => rfl
  | asSlice => rfl
  | range => rfl

/-- A failed call on the copy-on-write list leaves it unchanged (the defect fixed in /repo:
    `Add` used to store the helper's nil result). -/
theorem c04_cow_err_unchanged (a : CowList) (op : Op)
    (h : (a.step op).2.isErr = true) : (a.step op).1 = a := by
  cases op with
  | get i => simp only [CowList.step]; split <;> rfl
  | append ts => simp [CowList.step, Outcome.isErr] at h
  | add i t =>
    simp only [CowList.step] at h ⊢
    cases hs : sliceAdd ⟨a.s.vals, a.s.vals.length + 1⟩ t i 0 <;> simp_all [Outcome.isErr]
  | set i t =>
    simp only [CowList.step] at h ⊢
    split <;> simp_all [Outcome.isErr]
  | delete i =>
    simp only [CowList.step] at h ⊢
    split <;> simp_all [Outcome.isErr]
  | len => rfl
  | asSlice => rfl
  | range => rfl

/-- the uniform statement used for all three implementations (and, by delegation, for the
    ConcurrentList wrapper whose methods call the wrapped list's under its lock) -/
theorem c04_anyList_step_refines (x : AnyList) (grow : Nat) (op : Op) :
    ((x.step grow op).1.vals, (x.step grow op).2) = Spec.step x.vals op := by
  cases x with
  | array a => exact c04_arrayList_step_refines a grow op
  | cow a => exact c04_cow_step_refines a op
  | linked l =>
    have := c04_linked_step_refines l op
    simp only [AnyList.step, AnyList.vals]
    rw [← this]

/-! non-vacuity: concrete states meet the hypotheses and exercise the interesting branches -/
example : ((ArrayList.ofSlice [1, 2, 3] 3).step 8 (.add 7 9)).1 = ArrayList.ofSlice [1, 2, 3] 3 := by decide
example : ((ArrayList.ofSlice [1] 100).step 0 (.delete 0)) = (⟨⟨[], 50⟩⟩, .ok (.val 1)) := by decide
example : ((ArrayList.ofSlice [1, 2, 3] 3).step 8 (.add 1 9)).1 = ArrayList.ofSlice [1, 9, 2, 3] 8 := by decide

end Ekit.Lists
