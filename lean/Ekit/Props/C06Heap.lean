/-
C06 ∘ C05 — ConcurrentPriorityQueue over the ACTUAL heap.

`c06_cpq_linearizable` (Props/C06.lean) is stated for an abstract sequential body `f` that is *assumed*
to refine the priority-queue specification; only the toy `refPQ` discharged the assumption.  Here the
body is the heap model of C05 (`Ekit.Heap.step`: the 1-based array, the sift-up loop, `heapify`, the
shrink through `calCapacity`, the runtime's growth choice) and the assumption is *proved* from the
C05 theorems, so one theorem covers `queue/concurrent_priority_queue.go` (the RWMutex skeleton) AND
`internal/queue/priority_queue.go` (the heap):

* `c06_cpq_heap_bag_linearizable` — for EVERY comparator that is a total preorder (`Cmp.Lawful`), on
  the heap model's own operations and answers (panics included as possible answers), w.r.t. C05's own
  bag-with-capacity specification `Heap.Spec.check` ("a minimum under `cmp`");
* `c06_cpq_heap_linearizable` — w.r.t. `pqSpec capacity`, the specification the driver's
  linearizability search runs on recorded histories (elements `(priority, id)`, "a minimum" = no
  present element has a smaller priority), for every coding of the elements in the heap's `Int`
  cells and every lawful comparator under which `≤` implies `priority ≤ priority`.

How the pieces are joined (nothing in the C05 / C06 models is changed):

* protected data = `PQ × Nat`: the heap model's state and the number of writer bodies executed so
  far; the runtime's growth choice for a call is `grow n q op` — an ARBITRARY function of that
  count, the heap and the call, so every sequence of choices is covered (the choices are part of
  the nondeterminism all theorems quantify over).
* the bodies are the raw `Heap.step` on ALL states; well-formedness (`Heap.WF`: slot 0, heap order,
  capacity bookkeeping) is not assumed of the data but proved invariant along every run
  (`LockWrapped.linearizable_inv`, `Lemmas/LockWrappedSub.lean`; `c06_cpq_heap_data_wf`).
* `pqSpec`'s answers have no panic constructor.  `retOf` reports a panic of the heap (or an error other
  than the two documented ones) as `panicRet`, an answer `pqSpec` accepts in NO state for NO operation
  (`c06_pqSpec_rejects_panicRet`) — so the linearizability theorem contains "no call panics"; that no
  body can panic in a reachable state is also proved directly (`c06_cpq_heap_no_panic`).
* ties: `pqStep` checks the observed element against "present and of minimal priority"; C05 proves
  the root is present and `cmp root x ≤ 0` for every present `x`; the bridge is the hypothesis
  `cmp u v ≤ 0 → priority u ≤ priority v` (so also comparators that break ties by id are covered).
* the specification's state is the multiset in canonical sorted form; the heap array is abstracted
  to it by decoding and sorting (`absH`, `Lemmas/PQSort.lean`).
-/
import Ekit.Conc.HerlihyWing
import Ekit.Props.C05
import Ekit.Props.C06
import Ekit.Lemmas.LockWrappedSub
import Ekit.Lemmas.HeapCoding
import Ekit.Lemmas.PQSort

namespace Ekit.Props.C06
open Ekit.Conc Ekit.Linz Ekit.Linz.LockWrapped Ekit.Cmp Ekit.Go
open Ekit.Heap (PQ Coding errCap errEmpty)

/-- the data the RWMutex protects: the heap, and how many writer bodies have run (index into the
    runtime's sequence of growth choices) -/
abbrev HS := PQ × Nat

/-! ## every lawful comparator: the heap model's own interface against C05's bag specification -/

/-- C05's acceptor `Heap.Spec.check` as a relational sequential specification; the bag is a list up
    to permutation -/
def bagSpec (cmp : Cmp) (capacity : Int) : SeqSpec (List Int) Heap.Op Heap.Out where
  init := []
  apply b op b' r := ∃ b'', Heap.Spec.check cmp (Heap.Spec.normCap capacity) b op r = some b'' ∧ b''.Perm b'

/-- `Enqueue/Dequeue` under `Lock`, the rest under `RLock`.  (`IsBoundless` is a method of the inner
    heap that the wrapper does not export; it is kept so that the operations are exactly `Heap.Op` —
    the theorem then also covers a wrapper exporting it under `RLock`, and a run need never call it.) -/
def rawStyle : Heap.Op → Style
  | .enqueue _ => .inplaceW
  | .dequeue => .inplaceW
  | _ => .sharedR

def rawF (cmp : Cmp) (grow : Nat → PQ → Heap.Op → Nat) (x : HS) (op : Heap.Op) : HS × Heap.Out :=
  let r := Heap.step cmp x.1 (grow x.2 x.1 op) op
  ((r.1, if (rawStyle op).readOnly then x.2 else x.2 + 1), r.2)

/-- `NewConcurrentPriorityQueue(capacity, cmp)` with the heap of `internal/queue` inside -/
def rawParams (cmp : Cmp) (capacity : Int) (grow : Nat → PQ → Heap.Op → Nat) : Params HS Heap.Op Heap.Out where
  init := (PQ.new capacity, 0)
  f := rawF cmp grow
  style := rawStyle

/-- the read-only methods of the heap leave it as it is — in every state, well formed or not -/
theorem heap_step_readOnly (cmp : Cmp) (q : PQ) (g : Nat) (op : Heap.Op) (h : (rawStyle op).readOnly = true) :
    (Heap.step cmp q g op).1 = q := by
  cases op <;> simp [rawStyle, Style.readOnly] at h <;> simp only [Heap.step] <;> (try split) <;> (try split) <;> rfl

/-- **ConcurrentPriorityQueue over the C05 heap, every total-preorder comparator**: every history of
    every run (any threads, any interleaving, any growth choices) is linearizable w.r.t. the
    bag-with-capacity specification of C05: Enqueue fails with ErrOutOfCapacity exactly at capacity,
    Dequeue/Peek answer a present element that is a minimum under `cmp` or ErrEmptyQueue exactly on
    the empty bag, Len/Cap/IsBoundless report the bag — and no answer is a panic. -/
theorem c06_cpq_heap_bag_linearizable {cmp : Cmp} (hc : Lawful cmp) (capacity : Int)
    (grow : Nat → PQ → Heap.Op → Nat) (ls : List (Lbl Heap.Op Heap.Out)) (s : St HS Heap.Op Heap.Out)
    (hrun : (sys (rawParams cmp capacity grow)).run (sys (rawParams cmp capacity grow)).init ls = some s) :
    Linearizable (bagSpec cmp capacity) ((sys (rawParams cmp capacity grow)).history ls) := by
  refine linearizable_inv (rawParams cmp capacity grow)
    (fun x => Heap.WF cmp x.1 ∧ x.1.capacity = Heap.Spec.normCap capacity)
    ⟨Heap.c05_pq_new_wf cmp capacity, (Heap.c05_pq_new_capacity capacity).1⟩ ?_
    (bagSpec cmp capacity) (fun x => x.1.contents) (Heap.c05_pq_new_capacity capacity).2.1 ?_ ?_ ls s hrun
  · rintro ⟨q, n⟩ op ⟨hq, hcap⟩
    obtain ⟨_, _, _, h3, h4⟩ := Heap.c05_pq_step_refines hc hq (List.Perm.refl _) (grow n q op) op
    exact ⟨h3, h4.trans hcap⟩
  · rintro ⟨q, n⟩ op ⟨hq, hcap⟩
    obtain ⟨bag', h1, h2, _, _⟩ := Heap.c05_pq_step_refines hc hq (List.Perm.refl _) (grow n q op) op
    exact ⟨bag', by rw [← hcap]; exact h1, h2.symm⟩
  · rintro ⟨q, n⟩ op _ hro
    have hro' : (rawStyle op).readOnly = true := hro
    simp only [rawParams, rawF, hro', if_true]
    rw [heap_step_readOnly cmp q _ op hro']

/-- a panic is an answer the bag specification never accepts -/
theorem c06_bagSpec_never_panics (cmp : Cmp) (capacity : Int) (b b' : List Int) (op : Heap.Op) (m : String) :
    ¬ (bagSpec cmp capacity).apply b op b' (.panic m) := by
  rintro ⟨b'', h, _⟩
  cases op <;> simp [Heap.Spec.check] at h <;> (try split at h) <;> simp_all

/-! ## the specification of the linearizability search: `pqSpec` -/

/-- a call of the wrapper as a call of the heap: the element is stored as its code -/
def opOf (C : Coding El) : POp → Heap.Op
  | .enq e => .enqueue (C.enc e)
  | .deq => .dequeue
  | .peek => .peek
  | .len => .len
  | .cap => .cap

/-- the answer reserved for "the heap panicked, or failed with an undocumented error":
    `pqSpec` accepts it in no state (`c06_pqSpec_rejects_panicRet`) -/
def panicRet : PRet := .n (-1)

/-- the heap's answer as the wrapper's answer -/
def retOf (C : Coding El) : Heap.Out → PRet
  | .ok .unit => .ok
  | .ok (.val v) => .val (C.dec v)
  | .ok (.int n) => .n n
  | .ok (.bool _) => panicRet
  | .err e => if e = errCap then .full else if e = errEmpty then .empty else panicRet
  | .panic _ => panicRet

def heapF (cmp : Cmp) (C : Coding El) (grow : Nat → PQ → POp → Nat) (x : HS) (op : POp) : HS × PRet :=
  let r := Heap.step cmp x.1 (grow x.2 x.1 op) (opOf C op)
  ((r.1, if (pqStyle op).readOnly then x.2 else x.2 + 1), retOf C r.2)

/-- `NewConcurrentPriorityQueue(capacity, cmp)`: the RWMutex skeleton of C06 (`pqParams`, `pqStyle`)
    around the heap model of C05 -/
def heapParams (cmp : Cmp) (C : Coding El) (capacity : Int) (grow : Nat → PQ → POp → Nat) : Params HS POp PRet :=
  pqParams (PQ.new capacity, 0) (heapF cmp C grow)

/-- the abstraction: decode the cells `1..` of the heap array and put them in canonical order -/
def absH (C : Coding El) (x : HS) : PQS := ⟨x.1.capacity.toNat, sortEl (x.1.contents.map C.dec)⟩

theorem c06_pqSpec_rejects_panicRet (s : PQS) (op : POp) : pqStep s op panicRet = none := by
  cases op <;> simp [pqStep, panicRet] <;> omega

theorem pqFull_abs {cap : Int} (l : List El) :
    pqFull ⟨cap.toNat, sortEl l⟩ = true ↔ cap > 0 ∧ (l.length : Int) = cap := by
  simp only [pqFull, Bool.and_eq_true, decide_eq_true_eq, beq_iff_eq, sortEl_length]
  omega

theorem isMin_abs {cmp : Cmp} (C : Coding El) (hp : ∀ u v, cmp u v ≤ 0 → (C.dec u).1 ≤ (C.dec v).1)
    {bag : List Int} {v : Int} (h : Heap.Spec.isMin cmp bag v = true) :
    isMin (sortEl (bag.map C.dec)) (C.dec v) = true := by
  simp only [Heap.Spec.isMin, Bool.and_eq_true, List.contains_iff_mem, List.all_eq_true,
    decide_eq_true_eq] at h
  rw [isMin_iff]
  refine ⟨mem_sortEl.mpr (List.mem_map_of_mem h.1), fun x hx => ?_⟩
  obtain ⟨y, hy, rfl⟩ := List.mem_map.mp (mem_sortEl.mp hx)
  exact hp v y (h.2 y hy)

/-- **the bridge C05 → C06 for one call**: an answer C05's bag acceptor allows for the cells of the
    heap is, decoded, an answer `pqStep` allows for the decoded, sorted cells; and the new
    abstract states correspond. -/
theorem pqStep_of_check {cmp : Cmp} (C : Coding El) (hp : ∀ u v, cmp u v ≤ 0 → (C.dec u).1 ≤ (C.dec v).1)
    {cap : Int} (hcap : 0 ≤ cap) {bag bag' cont' : List Int} (op : POp) (out : Heap.Out)
    (h : Heap.Spec.check cmp cap bag (opOf C op) out = some bag') (hperm : cont'.Perm bag') :
    pqStep ⟨cap.toNat, sortEl (bag.map C.dec)⟩ op (retOf C out) =
      some ⟨cap.toNat, sortEl (cont'.map C.dec)⟩ := by
  have hsame : ∀ {b : List Int}, cont'.Perm b → sortEl (cont'.map C.dec) = sortEl (b.map C.dec) :=
    fun hb => sortEl_congr (hb.map _)
  cases op with
  | enq e =>
    simp only [opOf, Heap.Spec.check] at h
    split at h
    · rename_i hfull
      split at h
      · rename_i hout
        cases h
        have hf : pqFull ⟨cap.toNat, sortEl (bag.map C.dec)⟩ = true :=
          (pqFull_abs _).mpr (by simpa using hfull)
        subst hout
        simp [retOf, pqStep, hf, hsame hperm]
      · cases h
    · rename_i hfull
      split at h
      · rename_i hout
        cases h
        have hf : ¬ pqFull ⟨cap.toNat, sortEl (bag.map C.dec)⟩ = true := by
          rw [pqFull_abs]; simpa using hfull
        subst hout
        simp [retOf, pqStep, hf, hsame hperm, C.dec_enc]
      · cases h
  | deq =>
    simp only [opOf, Heap.Spec.check] at h
    split at h
    · rename_i hemp
      split at h
      · rename_i hout
        cases h
        subst hout
        have : bag = [] := by simpa using hemp
        subst this
        have : cont' = [] := hperm.eq_nil
        subst this
        simp [retOf, pqStep, errCap, errEmpty]
      · cases h
    · split at h
      · rename_i v
        split at h
        · rename_i hmin
          cases h
          have hmin' := isMin_abs C hp hmin
          have hmem : v ∈ bag := by
            simp only [Heap.Spec.isMin, Bool.and_eq_true, List.contains_iff_mem] at hmin
            exact hmin.1
          have he : (sortEl (bag.map C.dec)).erase (C.dec v) = sortEl (cont'.map C.dec) := by
            apply sortEl_erase
            have := ((List.perm_cons_erase hmem).trans (List.Perm.cons v hperm.symm)).map C.dec
            simpa using this
          simp [retOf, pqStep, hmin', he]
        · cases h
      · cases h
  | peek =>
    simp only [opOf, Heap.Spec.check] at h
    split at h
    · rename_i hemp
      split at h
      · rename_i hout
        cases h
        subst hout
        have : bag = [] := by simpa using hemp
        subst this
        have : cont' = [] := hperm.eq_nil
        subst this
        simp [retOf, pqStep, errCap, errEmpty]
      · cases h
    · split at h
      · rename_i v
        split at h
        · rename_i hmin
          cases h
          simp [retOf, pqStep, isMin_abs C hp hmin, hsame hperm]
        · cases h
      · cases h
  | len =>
    simp only [opOf, Heap.Spec.check] at h
    split at h
    · rename_i hout
      cases h
      subst hout
      simp [retOf, pqStep, sortEl_length, hsame hperm]
    · cases h
  | cap =>
    simp only [opOf, Heap.Spec.check] at h
    split at h
    · rename_i hout
      cases h
      subst hout
      have : ((cap.toNat : Nat) : Int) = cap := Int.toNat_of_nonneg hcap
      simp [retOf, pqStep, hsame hperm, this]
    · cases h

/-- `hinit` of `c06_cpq_linearizable`, for the heap -/
theorem c06_cpq_heap_hinit (C : Coding El) (capacity : Int) : absH C (PQ.new capacity, 0) = pqInit capacity := by
  have h := Heap.c05_pq_new_capacity capacity
  simp only [absH, pqInit, h.1, h.2.1, List.map_nil, sortEl_nil, PQS.mk.injEq, and_true]
  simp only [Heap.Spec.normCap]
  split <;> omega

/-- `href` of `c06_cpq_linearizable`, for the heap — from every WELL-FORMED state, by
    `c05_pq_step_refines` -/
theorem c06_cpq_heap_href {cmp : Cmp} (hc : Lawful cmp) (C : Coding El)
    (hp : ∀ u v, cmp u v ≤ 0 → (C.dec u).1 ≤ (C.dec v).1) (grow : Nat → PQ → POp → Nat)
    (x : HS) (hx : Heap.WF cmp x.1) (op : POp) :
    pqStep (absH C x) op (heapF cmp C grow x op).2 = some (absH C (heapF cmp C grow x op).1) ∧
      Heap.WF cmp (heapF cmp C grow x op).1.1 := by
  obtain ⟨q, n⟩ := x
  obtain ⟨bag', h1, h2, h3, h4⟩ :=
    Heap.c05_pq_step_refines hc hx (List.Perm.refl _) (grow n q op) (opOf C op)
  refine ⟨?_, h3⟩
  have := pqStep_of_check C hp hx.cap_nonneg op _ h1 h2
  simp only [absH, heapF, h4]
  exact this

/-- `hro` of `c06_cpq_linearizable`, for the heap (every state) -/
theorem c06_cpq_heap_hro (cmp : Cmp) (C : Coding El) (grow : Nat → PQ → POp → Nat) (x : HS) (op : POp)
    (h : (pqStyle op).readOnly = true) : (heapF cmp C grow x op).1 = x := by
  obtain ⟨q, n⟩ := x
  simp only [heapF, h, if_true]
  have : (rawStyle (opOf C op)).readOnly = true := by
    cases op <;> simp [pqStyle, Style.readOnly] at h <;> rfl
  rw [heap_step_readOnly cmp q _ _ this]

/-- **ConcurrentPriorityQueue with the actual heap of C05 inside is linearizable w.r.t. the
    priority-queue specification** — for every comparator `cmp` that is a total preorder and under
    which `≤` implies `priority ≤ priority` on the decoded elements, every coding of the elements,
    every requested capacity (also `≤ 0` = unbounded), every growth behaviour of the runtime, every
    number of threads and every interleaving.  No hypothesis about the heap is left: `hinit/href/hro`
    of `c06_cpq_linearizable` are discharged by C05. -/
theorem c06_cpq_heap_linearizable {cmp : Cmp} (hc : Lawful cmp) (C : Coding El)
    (hp : ∀ u v, cmp u v ≤ 0 → (C.dec u).1 ≤ (C.dec v).1) (capacity : Int)
    (grow : Nat → PQ → POp → Nat) (ls : List (Lbl POp PRet)) (s : St HS POp PRet)
    (hrun : (sys (heapParams cmp C capacity grow)).run (sys (heapParams cmp C capacity grow)).init ls = some s) :
    Linearizable (pqSpec capacity) ((sys (heapParams cmp C capacity grow)).history ls) := by
  -- the run is a run of the same wrapper over the well-formed heaps (lock-step, same labels) …
  have h0 : Heap.WF cmp (heapParams cmp C capacity grow).init.1 := Heap.c05_pq_new_wf cmp capacity
  have hI : ∀ x op, Heap.WF cmp x.1 → Heap.WF cmp ((heapParams cmp C capacity grow).f x op).1.1 :=
    fun x op hx => (c06_cpq_heap_href hc C hp grow x hx op).2
  obtain ⟨s', hrun', _⟩ := run_lift (heapParams cmp C capacity grow) (fun x => Heap.WF cmp x.1) h0 hI ls s hrun
  -- … to which `c06_cpq_linearizable` applies, its three hypotheses now being theorems
  exact c06_cpq_linearizable capacity
    (subParams (heapParams cmp C capacity grow) (fun x => Heap.WF cmp x.1) h0 hI).init
    (subParams (heapParams cmp C capacity grow) (fun x => Heap.WF cmp x.1) h0 hI).f
    (fun x => absH C x.1) (c06_cpq_heap_hinit C capacity)
    (fun x op => (c06_cpq_heap_href hc C hp grow x.1 x.2 op).1)
    (fun x op h => Subtype.ext (c06_cpq_heap_hro cmp C grow x.1 op h)) ls s' hrun'

/-- The heap inside the wrapper is well formed in every reachable state (and so is every snapshot a
    body is working from): the mutex never lets a body see a half-sifted array. -/
theorem c06_cpq_heap_data_wf {cmp : Cmp} (hc : Lawful cmp) (C : Coding El)
    (hp : ∀ u v, cmp u v ≤ 0 → (C.dec u).1 ≤ (C.dec v).1) (capacity : Int)
    (grow : Nat → PQ → POp → Nat) (s : St HS POp PRet)
    (hr : (sys (heapParams cmp C capacity grow)).Reachable s) :
    Heap.WF cmp s.data.1 ∧ ∀ t op sn, (s.pc t = .mid op sn ∨ s.pc t = .out op sn) → Heap.WF cmp sn.1 :=
  reachable_inv (heapParams cmp C capacity grow) (fun x => Heap.WF cmp x.1)
    (Heap.c05_pq_new_wf cmp capacity) (fun x op hx => (c06_cpq_heap_href hc C hp grow x hx op).2) s hr

/-- "no call panics", directly: in every reachable state no method of the heap, called on the
    protected data with any growth choice, panics — and the answer the body computes is never the
    reserved `panicRet` coming from a panic. -/
theorem c06_cpq_heap_no_panic {cmp : Cmp} (hc : Lawful cmp) (C : Coding El)
    (hp : ∀ u v, cmp u v ≤ 0 → (C.dec u).1 ≤ (C.dec v).1) (capacity : Int)
    (grow : Nat → PQ → POp → Nat) (s : St HS POp PRet)
    (hr : (sys (heapParams cmp C capacity grow)).Reachable s) (g : Nat) (op : Heap.Op) :
    (Heap.step cmp s.data.1 g op).2.isPanic = false :=
  Heap.c05_pq_no_panic hc (c06_cpq_heap_data_wf hc C hp capacity grow s hr).1 g op

/-! ### the hypotheses are satisfiable: the comparator of the C06 harness (compare priorities) -/

/-- `func(a, b El) int { compare a.prio with b.prio }` on codes -/
def prioCmp (C : Coding El) : Cmp := fun u v => natural (C.dec u).1 (C.dec v).1

theorem prioCmp_lawful (C : Coding El) : Lawful (prioCmp C) := comap_lawful (fun u => (C.dec u).1)

theorem prioCmp_le (C : Coding El) (u v : Int) (h : prioCmp C u v ≤ 0) : (C.dec u).1 ≤ (C.dec v).1 := by
  simp only [prioCmp, natural] at h
  split at h
  · omega
  · split at h <;> omega

/-- the instance the harness exercises: priorities compared, ties visible through the ids -/
theorem c06_cpq_heap_prio_linearizable (C : Coding El) (capacity : Int)
    (grow : Nat → PQ → POp → Nat) (ls : List (Lbl POp PRet)) (s : St HS POp PRet)
    (hrun : (sys (heapParams (prioCmp C) C capacity grow)).run
      (sys (heapParams (prioCmp C) C capacity grow)).init ls = some s) :
    Linearizable (pqSpec capacity) ((sys (heapParams (prioCmp C) C capacity grow)).history ls) :=
  c06_cpq_heap_linearizable (prioCmp_lawful C) C (prioCmp_le C) capacity grow ls s hrun

/-! ### non-vacuity: a run of the composed model with ties, a full queue and a racing reader -/

/-- the answer a thread is about to return -/
def answer {S Op Ret : Type} : Pc S Op Ret → Option Ret
  | .ret r => some r
  | _ => none

set_option maxRecDepth 4096 in
example :
    (((sys (heapParams (prioCmp Coding.intPair) Coding.intPair 2 (fun _ _ _ => 0))).run
        (sys (heapParams (prioCmp Coding.intPair) Coding.intPair 2 (fun _ _ _ => 0))).init
        [.call 1 (.enq (5, 1)), .tau 1, .tau 1, .tau 1, .tau 1, .ret 1 .ok,
         .call 1 (.enq (3, 2)), .tau 1, .tau 1,          -- writer inside, array dirty
         .call 2 .peek,                                   -- reader has to wait for the lock
         .tau 1, .tau 1, .ret 1 .ok,
         .tau 2, .tau 2, .tau 2, .tau 2,                  -- now it sees the new root
         .call 1 (.enq (3, 3)), .tau 1, .tau 1, .tau 1, .tau 1, .ret 1 .full,
         .call 3 .deq, .tau 3, .tau 3, .tau 3, .tau 3]).map
      fun s => (absH Coding.intPair s.data, s.data.2, answer (s.pc 2), answer (s.pc 3))) =
    some (⟨2, [(5, 1)]⟩, 4, some (.val (3, 2)), some (.val (3, 2))) := by decide

end Ekit.Props.C06

/-! ## the same statements in the classical Herlihy–Wing form (see Props/C06HW.lean) -/
namespace Ekit.Props.HWForms
open Ekit.Conc Ekit.Linz Ekit.Linz.LockWrapped Ekit.Cmp Ekit.Props.C06
open Ekit.Heap (PQ Coding)

theorem c06_cpq_heap_hw_linearizable {cmp : Cmp} (hc : Lawful cmp) (C : Coding El)
    (hp : ∀ u v, cmp u v ≤ 0 → (C.dec u).1 ≤ (C.dec v).1) (capacity : Int)
    (grow : Nat → PQ → POp → Nat) (ls : List (Lbl POp PRet)) (s : St HS POp PRet)
    (hrun : (sys (heapParams cmp C capacity grow)).run (sys (heapParams cmp C capacity grow)).init ls = some s) :
    HW.WellFormed ((sys (heapParams cmp C capacity grow)).history ls) ∧
      HW.HWLinearizable (pqSpec capacity) ((sys (heapParams cmp C capacity grow)).history ls) :=
  (c06_cpq_heap_linearizable hc C hp capacity grow ls s hrun).hw

theorem c06_cpq_heap_bag_hw_linearizable {cmp : Cmp} (hc : Lawful cmp) (capacity : Int)
    (grow : Nat → PQ → Heap.Op → Nat) (ls : List (Lbl Heap.Op Heap.Out)) (s : St HS Heap.Op Heap.Out)
    (hrun : (sys (rawParams cmp capacity grow)).run (sys (rawParams cmp capacity grow)).init ls = some s) :
    HW.WellFormed ((sys (rawParams cmp capacity grow)).history ls) ∧
      HW.HWLinearizable (bagSpec cmp capacity) ((sys (rawParams cmp capacity grow)).history ls) :=
  (c06_cpq_heap_bag_linearizable hc capacity grow ls s hrun).hw

end Ekit.Props.HWForms
