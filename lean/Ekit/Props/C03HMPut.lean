import Ekit.Props.C03HM
import Ekit.Lemmas.HMRefinePut
/-! C03, the regenerated hash map, writers: the MiniGo interpreter running the translation of the CURRENT `mapx/hashmap.go`
(Ekit/Generated/HashMapGo.lean) simulates the hand model `HMap Int` on `Put` and `Delete` as well (Lemmas/HMRefinePut.lean).

`Rel'` = the simulation relation `Rel` of Lemmas/HMRefine.lean plus two invariants of the model state that the constructor
establishes and both writers preserve: no bucket is an empty chain (`NoEmpty` — with an empty chain under a present code the
real `Put` dereferences `pre == nil`; the code never stores one) and no code occurs twice in the bucket list (`NoDupCodes`).
Both were found necessary: the statements without them were refuted with concrete counter-models before being corrected. -/
namespace Ekit.MiniGo.HM.Refine
open Ekit.MiniGo.HM Ekit.Gen.HashMapGo
open Ekit.HashMap

/-- the translated constructor establishes the strengthened relation with the empty model -/
theorem c03_hm_new_strong (ko : KeyOps) (fuel : Nat) (hf : 1 ≤ fuel) (n : Int) (hn : 0 ≤ n) (st : St) :
    ∃ st', call ko procs fuel .NewHashMap [.int n] st = .ok (.unit, st') ∧ Rel' st' (HMap.empty : HMap Int) := by
  obtain ⟨f, rfl⟩ : ∃ f, fuel = f + 1 := ⟨fuel - 1, by omega⟩
  exact New_sim' ko f n hn st

/-- **`Put`**: on related states, for every choice of the node pool, the translated `Put` returns the nil error, does not
    panic / get stuck / run out of fuel (beyond a bound), and ends in a state related to the model's -/
theorem c03_hm_put_refines (hk : Hashable) (st : St) (m : HMap Int) (o : Oracle) (k v : Int) (r : Rel' st m)
    (hc : st.choice = o.choice) :
    ∃ f0, ∀ fuel, f0 ≤ fuel → ∃ st',
      call (koOf hk) procs fuel .Put [.int k, .int v] st = .ok (.ptr none, st') ∧
      Rel' st' (m.step hk o (.put k v)).1 ∧ (m.step hk o (.put k v)).2 = .ok .unit := by
  obtain ⟨f0, h⟩ := Put_sim' hk st m o k v r hc
  refine ⟨f0 + 1, fun fuel hf => ?_⟩
  obtain ⟨f, rfl⟩ : ∃ f, fuel = f + 1 := ⟨fuel - 1, by omega⟩
  exact h f (by omega)

/-- **`Delete`**: on related states the translated `Delete` returns the model's value and found-flag (the zero value next to
    `false` included), does not panic / get stuck / run out of fuel, and ends in a state related to the model's (the removed
    node is in the pool, formatted) -/
theorem c03_hm_delete_refines (hk : Hashable) (st : St) (m : HMap Int) (o : Oracle) (k : Int) (r : Rel' st m) :
    ∃ f0, ∀ fuel, f0 ≤ fuel → ∃ st',
      call (koOf hk) procs fuel .Delete [.int k] st = .ok (retVal (m.step hk o (.delete k)).2, st') ∧
      Rel' st' (m.step hk o (.delete k)).1 := by
  obtain ⟨f0, h⟩ := Delete_sim' hk st m o k r
  refine ⟨f0 + 1, fun fuel hf => ?_⟩
  obtain ⟨f, rfl⟩ : ∃ f, fuel = f + 1 := ⟨fuel - 1, by omega⟩
  exact h f (by omega)

/-- `Get` under the strengthened relation (which both writers maintain) -/
theorem c03_hm_get_strong (hk : Hashable) (st : St) (m : HMap Int) (o : Oracle) (k : Int) (r : Rel' st m) :
    ∃ f0, ∀ fuel, f0 ≤ fuel →
      call (koOf hk) procs fuel .Get [.int k] st = .ok (retVal (m.step hk o (.get k)).2, st) :=
  c03_hm_get_refines_model hk st m o k r.rel

end Ekit.MiniGo.HM.Refine
