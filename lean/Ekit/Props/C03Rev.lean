/-
C03 — review additions (hostile-referee pass over Ekit/Props/C03.lean).

What was missing in C03.lean and is proved here, all for an arbitrary lawful `h : Hashable`
(constant `Code` included), every history from the constructor and every run-time choice:

* the abstract map itself is validated against a container-free reading of the history
  (`lastWrite`: the value of the last `Put` of a key `Equals` to `k` that no later `Delete` of a key
  `Equals` to `k` removed) — so "behaves like an abstract map keyed by `Equals`" does not rest on the
  association-list definition of `Spec` alone (`c03_spec_get_last_write`), and the real walks' `Get`
  after ANY history equals it (`c03_get_after_history`, `c03_linked_get_after_history`): operations
  on keys that are not `Equals` to `k` — same hash code or not — never influence what `Get k` returns,
  over whole histories and not just one step;
* `Len`/`Keys`/`Values` in EVERY reachable state (C03.lean states them from an assumed `R h m s`):
  `c03_len_keys_values_reachable`, and the intrinsic counting form "every live key is listed exactly
  once, every dead key not at all" (`c03_keys_exactly_once`), `Len() = len(Keys()) = len(Values())`
  whatever the three iteration orders (`c03_len_eq_len_keys`);
* `Keys()` and `Values()` taken in the same iteration order pair up to the live entries
  (`c03_keys_values_zip`);
* calls that fail or only read change nothing, pool included (`c03_reads_change_nothing`,
  `c03_delete_missing_changes_nothing`, linked variants);
* no call of any history panics or errs (`c03_run_no_panic`), the from-`NewHashMap` form of
  `c03_delete_other_untouched` (`c03_delete_other_untouched_reachable`);
* the pool of the `HashMap` inside a `LinkedMap` / `MultiMap` only ever holds clean nodes
  (`c03_linked_pool_clean`, `c03_multi_pool_clean`);
* non-vacuity of the `ValidRun` hypothesis: every sequence of calls with every sequence of pool
  choices has a legal iteration-order oracle (`c03_validrun_exists`), plus concrete examples.
-/
import Ekit.Props.C03

namespace Ekit.HashMap
open Ekit.Go

variable {V : Type}

/-! ### The abstract map against a container-free reading of a history -/

/-- What a history leaves under key `k`, read off the calls alone: start from `init`; a `Put k' v`
    with `k'.Equals(k)` makes it `some v`, a `Delete k'` with `k'.Equals(k)` makes it `none`, every
    other call (in particular every call on a key that is not `Equals` to `k`) leaves it alone. -/
def lastWrite (h : Hashable) (k : Int) : Option V → List (Op V) → Option V
  | init, [] => init
  | init, .put k' v :: r => lastWrite h k (if h.equals k' k then some v else init) r
  | init, .delete k' :: r => lastWrite h k (if h.equals k' k then none else init) r
  | init, .get _ :: r => lastWrite h k init r
  | init, .len :: r => lastWrite h k init r
  | init, .keys :: r => lastWrite h k init r
  | init, .values :: r => lastWrite h k init r

theorem Hashable.Law.equals_false_symm {h : Hashable} (hl : h.Law) {a b : Int} (e : h.equals a b = false) :
    h.equals b a = false := by
  cases hb : h.equals b a with
  | false => rfl
  | true => rw [hl.symm _ _ hb] at e; exact absurd e (by simp)

/-- `Equals` keys are looked up alike -/
theorem Spec.get_congr {h : Hashable} (hl : h.Law) {k k' : Int} (e : h.equals k k' = true) (s : Spec.State V) :
    Spec.get h s k = Spec.get h s k' := by
  have : (fun x : Int × V => h.equals x.1 k) = (fun x : Int × V => h.equals x.1 k') := by
    funext x
    cases h1 : h.equals x.1 k with
    | true => exact (hl.trans _ _ _ h1 e).symm
    | false =>
      cases h2 : h.equals x.1 k' with
      | false => rfl
      | true => rw [hl.trans _ _ _ h2 (hl.symm _ _ e)] at h1; exact absurd h1 (by simp)
  unfold Spec.get
  rw [this]

theorem Spec.get_delete_same {h : Hashable} (s : Spec.State V) (k : Int) :
    Spec.get h (Spec.delete h s k) k = none := by
  unfold Spec.get Spec.delete
  have : (s.filter (fun e => !h.equals e.1 k)).find? (fun e => h.equals e.1 k) = none := by
    rw [List.find?_eq_none]
    intro x hx
    have := (List.mem_filter.mp hx).2
    simpa using this
  rw [this]; rfl

/-- **The abstract map is the last-write map.**  After any history the abstract map holds under `k`
    exactly what the calls on keys `Equals` to `k` left there. -/
theorem c03_spec_get_last_write {h : Hashable} (hl : h.Law) (k : Int) (ops : List (Op V)) (s : Spec.State V) :
    Spec.get h (Spec.run h s ops).1 k = lastWrite h k (Spec.get h s k) ops := by
  induction ops generalizing s with
  | nil => rfl
  | cons op r ih =>
    simp only [Spec.run]
    rw [ih]
    cases op with
    | put k' v =>
      simp only [Spec.step, lastWrite]
      cases e : h.equals k' k with
      | true =>
        rw [← Spec.get_congr hl e, Spec.get_put_same hl]; rfl
      | false =>
        rw [Spec.get_put_other hl (hl.equals_false_symm e)]; rfl
    | delete k' =>
      simp only [Spec.step, lastWrite]
      cases e : h.equals k' k with
      | true =>
        rw [← Spec.get_congr hl e, Spec.get_delete_same]; rfl
      | false =>
        rw [Spec.get_delete_other hl (hl.equals_false_symm e)]; rfl
    | get _ => rfl
    | len => rfl
    | keys => rfl
    | values => rfl

/-- a history that never touches a key `Equals` to `k` leaves `k` exactly as it was -/
theorem c03_last_write_untouched (h : Hashable) (k : Int) (init : Option V) (ops : List (Op V))
    (hu : ∀ op ∈ ops, (∀ k' v, op = .put k' v → h.equals k' k = false) ∧
                      (∀ k', op = .delete k' → h.equals k' k = false)) :
    lastWrite h k init ops = init := by
  induction ops generalizing init with
  | nil => rfl
  | cons op r ih =>
    have hr := ih (hu := fun op' ho' => hu op' (List.mem_cons_of_mem _ ho'))
    have h0 := hu op (List.mem_cons_self ..)
    cases op with
    | put k' v => simp only [lastWrite, h0.1 k' v rfl]; exact hr _
    | delete k' => simp only [lastWrite, h0.2 k' rfl]; exact hr _
    | get _ => exact hr _
    | len => exact hr _
    | keys => exact hr _
    | values => exact hr _

section hashmap
variable [Inhabited V]

/-- **`Get` after any history.**  On a `HashMap` grown from `NewHashMap` by any history of calls, with
    any pool choices and any legal iteration orders, `Get k` changes nothing and returns exactly the
    value of the last `Put` of a key `Equals` to `k` not followed by a `Delete` of such a key.  Calls on
    other keys — whether or not they share `k`'s hash code, whether they recycle pooled nodes, whether
    they unlink the head, an interior node or the tail of `k`'s chain — have no influence. -/
theorem c03_get_after_history {h : Hashable} (hl : h.Law) (hist : List (Oracle × Op V))
    (hv : HMap.ValidRun h (HMap.empty : HMap V) hist) (o : Oracle) (k : Int) :
    (HMap.run h (HMap.empty : HMap V) hist).1.step h o (.get k) =
      ((HMap.run h (HMap.empty : HMap V) hist).1,
       .ok (Spec.lookupRet (lastWrite h k none (hist.map (·.2))))) := by
  rw [get_refines hl (c03_run_from_new hl hist hv).1 o k, c03_spec_get_last_write hl]
  rfl

/-- the same from any state satisfying the invariant, for a continuation of the history -/
theorem c03_get_after_history_from {h : Hashable} (hl : h.Law) {m : HMap V} (hI : Inv h m)
    (hist : List (Oracle × Op V)) (hv : HMap.ValidRun h m hist) (o o' : Oracle) (k : Int) :
    ((HMap.run h m hist).1.step h o (.get k)).2 =
      .ok (Spec.lookupRet (lastWrite h k
        (match (m.step h o' (.get k)).2 with | .ok (.found v) => some v | _ => none) (hist.map (·.2)))) := by
  have hR : R h m m.entries := ⟨hI, List.Perm.refl _⟩
  rw [get_refines hl (c03_run_refines_assoc hl hR hist hv).1 o k, c03_spec_get_last_write hl,
    get_refines hl hR o' k]
  cases Spec.get h m.entries k <;> rfl


/-! ### `Len`, `Keys`, `Values` in every reachable state -/

omit [Inhabited V] in
/-- in a list without `Equals`-duplicates a key is matched by exactly one entry or by none -/
theorem countP_of_noDupKeys {h : Hashable} (hl : h.Law) (k : Int) {s : List (Int × V)} (hn : NoDupKeys h s) :
    s.countP (fun e => h.equals e.1 k) = if (Spec.get h s k).isSome then 1 else 0 := by
  induction s with
  | nil => rfl
  | cons e r ih =>
    cases he : h.equals e.1 k with
    | true =>
      have hno := NoDupKeys.no_second hl hn he
      have h0 : r.countP (fun e => h.equals e.1 k) = 0 := by
        rw [List.countP_eq_zero]; intro x hx; simp [hno x hx]
      have hg : (Spec.get h (e :: r) k).isSome = true := by simp [Spec.get, he]
      rw [List.countP_cons_of_pos (by simp [he]), h0, hg]
      rfl
    | false =>
      have := ih (List.pairwise_cons.mp hn).2
      have hg : Spec.get h (e :: r) k = Spec.get h r k := by simp [Spec.get, he]
      rw [List.countP_cons_of_neg (by simp [he]), hg]
      exact this

/-- **`Len`/`Keys`/`Values` in every reachable state** (C03.lean: from an assumed `R h m s`).  After any
    history from `NewHashMap`, whatever three orders the runtime iterates the Go map in for the three
    calls: `Len()` is the size of the abstract map, `Keys()`/`Values()` are permutations of its keys
    and values, no two listed keys are `Equals`, and the abstract map has no two `Equals` keys (its size
    is the number of distinct live keys). -/
theorem c03_len_keys_values_reachable {h : Hashable} (hl : h.Law) (hist : List (Oracle × Op V))
    (hv : HMap.ValidRun h (HMap.empty : HMap V) hist) {o1 o2 o3 : List Int}
    (h1 : o1.Perm ((HMap.run h (HMap.empty : HMap V) hist).1.buckets.map (·.1)))
    (h2 : o2.Perm ((HMap.run h (HMap.empty : HMap V) hist).1.buckets.map (·.1)))
    (h3 : o3.Perm ((HMap.run h (HMap.empty : HMap V) hist).1.buckets.map (·.1))) :
    let m := (HMap.run h (HMap.empty : HMap V) hist).1
    let s := (Spec.run h [] (hist.map (·.2))).1
    m.len o1 = s.length ∧ (m.keys o2).Perm (s.map (·.1)) ∧ (m.values o3).Perm (s.map (·.2)) ∧
      (m.keys o2).Pairwise (fun a b => h.equals a b = false) ∧ NoDupKeys h s := by
  intro m s
  have hR : R h m s := (c03_run_from_new hl hist hv).1
  have a := c03_len_eq_card hl hR h1
  have b := c03_keys_nodup_perm hl hR h2
  have c := c03_keys_nodup_perm hl hR h3
  exact ⟨a.1, b.1, c.2.1, b.2.2, a.2⟩

/-- **`Len() = len(Keys()) = len(Values())`** in every reachable state, whatever the three iteration
    orders (the `observe_at` line of the property). -/
theorem c03_len_eq_len_keys {h : Hashable} (hl : h.Law) (hist : List (Oracle × Op V))
    (hv : HMap.ValidRun h (HMap.empty : HMap V) hist) {o1 o2 o3 : List Int}
    (h1 : o1.Perm ((HMap.run h (HMap.empty : HMap V) hist).1.buckets.map (·.1)))
    (h2 : o2.Perm ((HMap.run h (HMap.empty : HMap V) hist).1.buckets.map (·.1)))
    (h3 : o3.Perm ((HMap.run h (HMap.empty : HMap V) hist).1.buckets.map (·.1))) :
    let m := (HMap.run h (HMap.empty : HMap V) hist).1
    m.len o1 = (m.keys o2).length ∧ m.len o1 = (m.values o3).length := by
  intro m
  obtain ⟨a, b, c, _, _⟩ := c03_len_keys_values_reachable hl hist hv h1 h2 h3
  refine ⟨?_, ?_⟩
  · rw [a, b.length_eq, List.length_map]
  · rw [a, c.length_eq, List.length_map]

/-- **every live key exactly once, every dead key never** — the counting form of "`Keys` lists each live
    entry exactly once" and of "`Len` equals the number of distinct live keys", with "live" read off the
    history alone (`lastWrite`): after any history from `NewHashMap`, for EVERY key `k`, the number of
    keys listed by `Keys()` that are `Equals` to `k` is 1 if the last `Put`/`Delete` on a key `Equals` to
    `k` was a `Put`, and 0 otherwise; and `Len()` is the length of that listing. -/
theorem c03_keys_exactly_once {h : Hashable} (hl : h.Law) (hist : List (Oracle × Op V))
    (hv : HMap.ValidRun h (HMap.empty : HMap V) hist) {order : List Int}
    (ho : order.Perm ((HMap.run h (HMap.empty : HMap V) hist).1.buckets.map (·.1))) (k : Int) :
    let m := (HMap.run h (HMap.empty : HMap V) hist).1
    (m.keys order).countP (fun a => h.equals a k) =
        (if (lastWrite h k (none : Option V) (hist.map (·.2))).isSome then 1 else 0) ∧
      m.len order = (m.keys order).length := by
  intro m
  obtain ⟨_, b, _, _, e⟩ := c03_len_keys_values_reachable hl hist hv ho ho ho
  refine ⟨?_, len_eq_keys_length m order⟩
  rw [b.countP_eq, List.countP_map]
  have := countP_of_noDupKeys hl k e
  rw [c03_spec_get_last_write hl] at this
  exact this

/-- every key that `Keys()` lists is live, and is listed once: the instance `k := a listed key` -/
theorem c03_listed_key_is_live {h : Hashable} (hl : h.Law) (hist : List (Oracle × Op V))
    (hv : HMap.ValidRun h (HMap.empty : HMap V) hist) {order : List Int}
    (ho : order.Perm ((HMap.run h (HMap.empty : HMap V) hist).1.buckets.map (·.1))) {a : Int}
    (ha : a ∈ (HMap.run h (HMap.empty : HMap V) hist).1.keys order) :
    (lastWrite h a (none : Option V) (hist.map (·.2))).isSome = true := by
  have := (c03_keys_exactly_once hl hist hv ho a).1
  cases hw : (lastWrite h a (none : Option V) (hist.map (·.2))).isSome with
  | true => rfl
  | false =>
    rw [hw] at this
    simp only [Bool.false_eq_true, if_false, List.countP_eq_zero] at this
    have := this a ha
    simp [hl.refl a] at this

/-- **`Keys()` and `Values()` pair up.**  Taken in the same iteration order, the i-th key and the i-th
    value belong to the same live entry: zipped they are a permutation of the abstract map. -/
theorem c03_keys_values_zip {h : Hashable} {m : HMap V} {s : Spec.State V} (hR : R h m s)
    {order : List Int} (ho : order.Perm (m.buckets.map (·.1))) :
    ((m.keys order).zip (m.values order)).Perm s := by
  have hw := walk_perm (fun c => c) hR.inv.codes_nodup ho
  have hz : (m.keys order).zip (m.values order) = order.flatMap fun c => m.chainAt c := by
    have hk : m.keys order = (order.flatMap fun c => m.chainAt c).map (·.1) := by
      unfold HMap.keys; rw [List.map_flatMap]
    have hvv : m.values order = (order.flatMap fun c => m.chainAt c).map (·.2) := by
      unfold HMap.values; rw [List.map_flatMap]
    rw [hk, hvv]
    generalize (order.flatMap fun c => m.chainAt c) = l
    induction l with
    | nil => rfl
    | cons x r ih => simp only [List.map_cons, List.zip_cons_cons, ih]
  rw [hz]
  exact hw.trans hR.perm

/-! ### calls that fail or only read change nothing -/

/-- `Get`, `Len`, `Keys`, `Values` leave the whole `HashMap` — table and pool — exactly as it was
    (no hypothesis at all). -/
theorem c03_reads_change_nothing (h : Hashable) (m : HMap V) (o : Oracle) (k : Int) :
    (m.step h o (.get k)).1 = m ∧ (m.step h o .len).1 = m ∧ (m.step h o .keys).1 = m ∧
      (m.step h o .values).1 = m := by
  refine ⟨?_, rfl, rfl, rfl⟩
  simp only [HMap.step]
  split <;> rfl

/-- a `Delete` that reports "not found" leaves the whole `HashMap` — table and pool — exactly as it was;
    a `Delete` that reports "found" hands exactly one node to the pool (no hypothesis at all). -/
theorem c03_delete_missing_changes_nothing (h : Hashable) (m : HMap V) (o : Oracle) (k : Int) :
    ((m.step h o (.delete k)).2 = .ok .missing → (m.step h o (.delete k)).1 = m) ∧
    (∀ v, (m.step h o (.delete k)).2 = .ok (.found v) →
      (m.step h o (.delete k)).1.pool.length = m.pool.length + 1) := by
  cases hlk : AL.lookup (h.code k) m.buckets with
  | none =>
    simp [HMap.step, hlk]
  | some chain =>
    cases hf : chainFind h k chain with
    | none =>
      simp [HMap.step, hlk, hf]
    | some t =>
      obtain ⟨num, node, next⟩ := t
      simp [HMap.step, hlk, hf]

/-- an overwriting `Put` and a `Put` that finds no bucket or no match never fail; a `Put` that
    overwrites leaves the pool alone.  In a reachable state: the stored key set changes only by the new
    key.  (Stated through the refinement: `c03_step_refines`.)  Here: the pool never grows on `Put`. -/
theorem c03_put_pool_never_grows (h : Hashable) (m : HMap V) (o : Oracle) (k : Int) (v : V) :
    (m.step h o (.put k v)).1.pool.length ≤ m.pool.length := by
  have hg : ∀ c, (poolGet m.pool c).2.length ≤ m.pool.length := by
    intro c
    unfold poolGet
    cases c with
    | none => exact Nat.le_refl _
    | some i =>
      cases hn : m.pool[i]? with
      | none => simp only [hn]; exact Nat.le_refl _
      | some n =>
        simp only [hn, List.length_eraseIdx]
        split <;> omega
  simp only [HMap.step, newNode]
  split
  · exact hg _
  · split
    · exact Nat.le_refl _
    · split <;> exact hg _

/-! ### all histories: no panic, non-interference from `NewHashMap` -/

/-- **no call of any history panics or returns an error** (C03.lean: one call from an assumed `Inv`) -/
theorem c03_run_no_panic {h : Hashable} (hl : h.Law) (hist : List (Oracle × Op V))
    (hv : HMap.ValidRun h (HMap.empty : HMap V) hist) :
    ∀ out ∈ (HMap.run h (HMap.empty : HMap V) hist).2, out.isOk = true := by
  have : ∀ (m : HMap V), Inv h m → HMap.ValidRun h m hist → ∀ out ∈ (HMap.run h m hist).2, out.isOk = true := by
    clear hv
    induction hist with
    | nil => intro m _ _ out ho; cases ho
    | cons x rest ih =>
      intro m hI hv out ho
      obtain ⟨o, op⟩ := x
      obtain ⟨hv1, hv2⟩ := hv
      simp only [HMap.run, List.mem_cons] at ho
      rcases ho with rfl | ho
      · exact c03_no_panic hl hI o hv1 op
      · have hR : R h m m.entries := ⟨hI, List.Perm.refl _⟩
        exact ih _ (c03_step_refines hl hR o hv1 op).1.inv hv2 out ho
  exact this _ (c03_empty_refines h).inv hv

/-- `c03_delete_other_untouched` in every state reachable from `NewHashMap` (instead of from an assumed
    `Inv`): after any history, deleting or overwriting `k'` does not change what `Get k` returns for any
    `k` that is not `Equals` to `k'`, whatever their hash codes. -/
theorem c03_delete_other_untouched_reachable {h : Hashable} (hl : h.Law) (hist : List (Oracle × Op V))
    (hv : HMap.ValidRun h (HMap.empty : HMap V) hist) (o o' o'' : Oracle) {k k' : Int}
    (hne : h.equals k k' = false) (v : V) :
    let m := (HMap.run h (HMap.empty : HMap V) hist).1
    ((m.step h o (.delete k')).1.step h o' (.get k)).2 = (m.step h o'' (.get k)).2 ∧
    ((m.step h o (.put k' v)).1.step h o' (.get k)).2 = (m.step h o'' (.get k)).2 :=
  c03_delete_other_untouched hl (c03_reachable_inv hl hist hv) o o' o'' hne v

/-! ### the `ValidRun` hypothesis is satisfiable for every sequence of calls -/

/-- attach to every call the pool choice given and the iteration order "as stored" -/
def withOrders (h : Hashable) : HMap V → List (Option Nat × Op V) → List (Oracle × Op V)
  | _, [] => []
  | m, (c, op) :: r =>
    let o : Oracle := ⟨c, m.buckets.map (·.1)⟩
    (o, op) :: withOrders h (m.step h o op).1 r

/-- **non-vacuity of `ValidRun`**: for every sequence of calls and every sequence of pool choices there
    is a history with exactly those calls and choices whose iteration orders are legal — the
    all-history theorems are about every sequence of calls. -/
theorem c03_validrun_exists (h : Hashable) (m : HMap V) (calls : List (Option Nat × Op V)) :
    HMap.ValidRun h m (withOrders h m calls) ∧ (withOrders h m calls).map (·.2) = calls.map (·.2) ∧
      (withOrders h m calls).map (·.1.choice) = calls.map (·.1) := by
  induction calls generalizing m with
  | nil => exact ⟨trivial, rfl, rfl⟩
  | cons x r ih =>
    obtain ⟨c, op⟩ := x
    obtain ⟨a, b, d⟩ := ih (m.step h ⟨c, m.buckets.map (·.1)⟩ op).1
    refine ⟨⟨List.Perm.refl _, a⟩, ?_, ?_⟩
    · simp only [withOrders, List.map_cons, b]
    · simp only [withOrders, List.map_cons, d]

end hashmap

/-! ### LinkedMap and MultiMap: the history forms that were missing -/

/-- `Get` on a `NewLinkedHashMap` after any history: the last write on a key `Equals` to `k` -/
theorem c03_linked_get_after_history [Inhabited V] {h : Hashable} (hl : h.Law) (hist : List (Oracle × Op V))
    (o : Oracle) (k : Int) :
    (LMap.run h (LMap.empty : LMap V) hist).1.step h o (.get k) =
      ((LMap.run h (LMap.empty : LMap V) hist).1,
       .ok (Spec.lookupRet (lastWrite h k none (hist.map (·.2))))) := by
  have hR := (c03_linked_run_refines hl hist).1
  have := linked_get_refines hl hR o k
  rw [this, c03_spec_get_last_write hl]
  rfl

/-- in every state of a `NewLinkedHashMap` reachable by any history: `Len()` is the number of entries
    `Keys()` lists, which is the size of the abstract map; `Keys()`/`Values()` are the abstract map's in
    its (first-insertion) order; the listed keys are pairwise not `Equals`; the inner `HashMap`'s pool
    holds only clean nodes and its invariant holds. -/
theorem c03_linked_reachable [Inhabited V] {h : Hashable} (hl : h.Law) (hist : List (Oracle × Op V)) (o : Oracle) :
    let l := (LMap.run h (LMap.empty : LMap V) hist).1
    let s := (Spec.run h [] (hist.map (·.2))).1
    (l.step h o .len).2 = .ok (.int s.length) ∧ (l.step h o .keys).2 = .ok (.keys (s.map (·.1))) ∧
      (l.step h o .values).2 = .ok (.vals (s.map (·.2))) ∧ NoDupKeys h s ∧ Inv h l.m ∧
      (∀ n ∈ l.m.pool, n.key = 0 ∧ n.value = 0 ∧ n.tail = []) ∧
      (l.step h o .len).1 = l ∧ (l.step h o .keys).1 = l ∧ (l.step h o .values).1 = l := by
  intro l s
  have hR : LR h l s := (c03_linked_run_refines hl hist).1
  refine ⟨(linked_refines hl hR o .len).2, (linked_refines hl hR o .keys).2,
    (linked_refines hl hR o .values).2, ?_, hR.inner.inv, ?_, rfl, rfl, rfl⟩
  · have := NoDupKeys.perm hl hR.inner.perm hR.inner.inv.keys_nodup
    rw [hR.abs]
    unfold NoDupKeys LMap.ids LMap.abs at *
    rw [List.pairwise_map] at this ⊢
    exact this
  · intro n hn
    rw [hR.inner.inv.pool_clean n hn]
    exact ⟨rfl, rfl, rfl⟩

/-- the pool of the `HashMap` inside a hash-backed `MultiMap` holds only clean nodes after any history,
    and no call of any history panics or errs -/
theorem c03_multi_pool_clean {h : Hashable} (hl : h.Law) (hist : List (Oracle × Op (List Int)))
    (hv : ValidRunWith (fun o m => o.Valid m) (multiStep (hashMapi h (List Int))) HMap.empty hist) :
    ∀ n ∈ (runWith (multiStep (hashMapi h (List Int))) HMap.empty hist).1.pool,
      n.key = 0 ∧ n.value = [] ∧ n.tail = [] := by
  intro n hn
  rw [(c03_multi_run_refines hl hist hv).1.inv.pool_clean n hn]
  exact ⟨rfl, rfl, rfl⟩


/-- on a `LinkedMap` in a sound state (every state reachable from `NewLinkedHashMap`: `c03_linked_run_refines`)
    a `Get` changes nothing, and a `Delete` that reports "not found" changes nothing — neither the list,
    nor `length`, nor the inner `HashMap` and its pool. -/
theorem c03_linked_failed_changes_nothing [Inhabited V] {h : Hashable} (hl : h.Law) {l : LMap V}
    {s : Spec.State V} (hR : LR h l s) (o : Oracle) (k : Int) :
    (l.step h o (.get k)).1 = l ∧
      ((l.step h o (.delete k)).2 = .ok .missing → (l.step h o (.delete k)).1 = l) := by
  refine ⟨by rw [linked_get_refines hl hR o k], ?_⟩
  intro hmiss
  rw [(linked_delete_refines hl hR o k).2, hR.abs, find_abs] at hmiss
  have hf : l.list.find? (fun n => h.equals n.key k) = none := by
    cases hf : l.list.find? (fun n => h.equals n.key k) with
    | none => rfl
    | some n => rw [hf] at hmiss; simp [Spec.lookupRet] at hmiss
  have hi := (delete_refines hl hR.inner o k).2
  rw [find_ids, hf] at hi
  simp only [Option.map_none, Spec.lookupRet] at hi
  have hst := (c03_delete_missing_changes_nothing h l.m o k).1 hi
  simp only [LMap.step, hi, hst]

/-! ### MultiMap: what `Get` returns after any history -/

/-- the multi map's container-free reading of a history: `PutMany(k', vs...)` with `k'.Equals(k)` appends
    `vs` to what is there (to nothing if absent), `Delete k'` with `k'.Equals(k)` clears it -/
def lastAppend (h : Hashable) (k : Int) : Option (List Int) → List (Op (List Int)) → Option (List Int)
  | init, [] => init
  | init, .put k' vs :: r => lastAppend h k (if h.equals k' k then some (init.getD [] ++ vs) else init) r
  | init, .delete k' :: r => lastAppend h k (if h.equals k' k then none else init) r
  | init, .get _ :: r => lastAppend h k init r
  | init, .len :: r => lastAppend h k init r
  | init, .keys :: r => lastAppend h k init r
  | init, .values :: r => lastAppend h k init r

theorem c03_spec_multi_get_last_append {h : Hashable} (hl : h.Law) (k : Int) (ops : List (Op (List Int)))
    (s : Spec.State (List Int)) :
    Spec.get h (foldRun (Spec.multiStep h) s ops).1 k = lastAppend h k (Spec.get h s k) ops := by
  induction ops generalizing s with
  | nil => rfl
  | cons op r ih =>
    simp only [foldRun]
    rw [ih]
    cases op with
    | put k' vs =>
      simp only [Spec.multiStep, lastAppend]
      cases e : h.equals k' k with
      | true =>
        have hc := Spec.get_congr hl e s
        have hp : ∀ x, Spec.get h (Spec.put h s k' x) k = some x := by
          intro x; rw [← Spec.get_congr hl e, Spec.get_put_same hl]
        rw [hp, hc]; rfl
      | false =>
        rw [Spec.get_put_other hl (hl.equals_false_symm e)]; rfl
    | delete k' =>
      simp only [Spec.multiStep, Spec.step, lastAppend]
      cases e : h.equals k' k with
      | true =>
        rw [← Spec.get_congr hl e, Spec.get_delete_same]; rfl
      | false =>
        rw [Spec.get_delete_other hl (hl.equals_false_symm e)]; rfl
    | get _ => rfl
    | len => rfl
    | keys => rfl
    | values => rfl

/-- **`MultiMap.Get` after any history** on a `NewMultiHashMap`: the values `PutMany`ed under keys `Equals`
    to `k` since the last `Delete` of such a key, in call order — whatever happened to other keys with
    the same hash code. -/
theorem c03_multi_get_after_history {h : Hashable} (hl : h.Law) (hist : List (Oracle × Op (List Int)))
    (hv : ValidRunWith (fun o m => o.Valid m) (multiStep (hashMapi h (List Int))) HMap.empty hist)
    (o : Oracle) (k : Int) :
    (multiStep (hashMapi h (List Int)) (runWith (multiStep (hashMapi h (List Int))) HMap.empty hist).1 o (.get k)).2 =
      .ok (Spec.lookupRet (lastAppend h k none (hist.map (·.2)))) := by
  have hR := (c03_multi_run_refines hl hist hv).1
  generalize (runWith (multiStep (hashMapi h (List Int))) HMap.empty hist).1 = m at hR ⊢
  simp only [multiStep, hashMapi]
  rw [get_refines hl hR o k, c03_spec_multi_get_last_append hl]
  have h0 : Spec.get h ([] : Spec.State (List Int)) k = none := rfl
  rw [h0]
  cases lastAppend h k none (hist.map (·.2)) <;> rfl

/-! ### builtinMap: `Get` after any history -/

theorem foldRun_spec_step (h : Hashable) (s : Spec.State V) (ops : List (Op V)) :
    foldRun (Spec.step h) s ops = Spec.run h s ops := by
  induction ops generalizing s with
  | nil => rfl
  | cons op r ih => simp only [foldRun, Spec.run, ih]

theorem c03_builtin_get_after_history [Inhabited V] (hist : List (Oracle × Op V))
    (hv : ValidRunWith (fun o b => BMap.OrderValid o b) (BMap.step (V := V)) [] hist) (o : Oracle) (k : Int) :
    BMap.step (runWith (BMap.step (V := V)) [] hist).1 o (.get k) =
      ((runWith (BMap.step (V := V)) [] hist).1,
       .ok (Spec.lookupRet (lastWrite idHashable k none (hist.map (·.2))))) := by
  have hs := (c03_builtin_run_refines hist hv).1
  simp only [BMap.step]
  rw [bmap_lookup_eq, hs, foldRun_spec_step, c03_spec_get_last_write idHashable_law]
  rfl

/-! ### MapSet: `Exist` after any history -/

/-- a `MapSet` call as the map call it is (`Add k` = `Put(k, struct{}{})`, `Exist` = `Get`) -/
def SetOp.toOp : SetOp → Op Unit
  | .add k => .put k ()
  | .delete k => .delete k
  | .exist k => .get k
  | .keys => .keys

theorem setRun_state (s : Spec.State Unit) (ops : List SetOp) :
    (foldRun Spec.setStep s ops).1 = (Spec.run idHashable s (ops.map SetOp.toOp)).1 := by
  induction ops generalizing s with
  | nil => rfl
  | cons op r ih =>
    cases op <;> simp only [foldRun, Spec.run, List.map_cons, SetOp.toOp, Spec.setStep, Spec.step, ih]

/-- **`MapSet.Exist` after any history**: `k` is a member iff the last `Add`/`Delete` of `k` was an `Add` -/
theorem c03_mapset_exist_after_history (hist : List (Oracle × SetOp))
    (hv : ValidRunWith (fun o b => BMap.OrderValid o b) MapSet.step [] hist) (o : Oracle) (k : Int) :
    MapSet.step (runWith MapSet.step [] hist).1 o (.exist k) =
      ((runWith MapSet.step [] hist).1,
       .ok (Spec.lookupRet (lastWrite idHashable k none ((hist.map (·.2)).map SetOp.toOp)))) := by
  have hs := (c03_mapset_run_refines hist hv).1
  simp only [MapSet.step]
  rw [bmap_lookup_eq, hs, setRun_state, c03_spec_get_last_write idHashable_law]
  rfl

/-! ### node recycling is unobservable -/

theorem Ret.Equiv.trans_symm {a b c : Ret V} (h1 : Ret.Equiv a c) (h2 : Ret.Equiv b c) : Ret.Equiv a b := by
  cases a <;> cases c <;> simp only [Ret.Equiv] at h1 <;> cases b <;> simp only [Ret.Equiv] at h2 ⊢ <;>
    first | exact h1.trans h2.symm | trivial

theorem OutEquiv.trans_symm {a b c : Out V} (h1 : OutEquiv a c) (h2 : OutEquiv b c) : OutEquiv a b := by
  cases a <;> cases c <;> simp only [OutEquiv] at h1 <;> cases b <;> simp only [OutEquiv] at h2 ⊢ <;>
    first | exact Ret.Equiv.trans_symm h1 h2 | exact h1.trans h2.symm

theorem OutsEquiv.trans_symm {a b c : List (Out V)} (h1 : OutsEquiv a c) (h2 : OutsEquiv b c) : OutsEquiv a b := by
  induction a generalizing b c with
  | nil =>
    cases c with
    | nil => cases b with
      | nil => trivial
      | cons _ _ => exact h2.elim
    | cons _ _ => exact h1.elim
  | cons x xs ih =>
    cases c with
    | nil => exact h1.elim
    | cons z zs =>
      cases b with
      | nil => exact h2.elim
      | cons y ys => exact ⟨OutEquiv.trans_symm h1.1 h2.1, ih h1.2 h2.2⟩

/-- **Recycling is unobservable.**  Two runs of the same calls from `NewHashMap` that differ in every
    run-time choice — which pooled node (if any) each `Put` received from `sync.Pool`, and in which
    order the Go map was iterated — return the same results (`Keys`/`Values` up to that order) and end
    with the same live entries.  In particular a run that recycles nodes is indistinguishable from one
    that always allocates: a recycled node cannot carry anything over. -/
theorem c03_pool_choice_unobservable [Inhabited V] {h : Hashable} (hl : h.Law) (hist1 hist2 : List (Oracle × Op V))
    (hops : hist1.map (·.2) = hist2.map (·.2))
    (hv1 : HMap.ValidRun h (HMap.empty : HMap V) hist1) (hv2 : HMap.ValidRun h (HMap.empty : HMap V) hist2) :
    OutsEquiv (HMap.run h (HMap.empty : HMap V) hist1).2 (HMap.run h (HMap.empty : HMap V) hist2).2 ∧
      (HMap.run h (HMap.empty : HMap V) hist1).1.entries.Perm (HMap.run h (HMap.empty : HMap V) hist2).1.entries := by
  obtain ⟨a1, b1⟩ := c03_run_from_new hl hist1 hv1
  obtain ⟨a2, b2⟩ := c03_run_from_new hl hist2 hv2
  rw [hops] at a1 b1
  exact ⟨OutsEquiv.trans_symm b1 b2, a1.perm.trans a2.perm.symm⟩

/-- the `Hashable` contract is needed, not an artefact: with an `Equals` that identifies keys of
    different `Code`s the real walk (faithfully modelled) keeps both — `Len` is 2 where the abstract map
    keyed by `Equals` has one entry.  (`Put(1, _); Put(2, _)` with `Equals ≡ true`, `Code = id`.) -/
example :
    let h : Hashable := ⟨fun a => a, fun _ _ => true⟩
    let m := (HMap.run h (HMap.empty : HMap Int) [({}, .put 1 10), ({ order := [1] }, .put 2 20)]).1
    m.len [1, 2] = 2 ∧ (Spec.run h ([] : Spec.State Int) [.put 1 10, .put 2 20]).1.length = 1 := by decide

/-! ### non-vacuity: concrete histories meet the hypotheses and take every unlink case -/

-- one chain (constant code): head-with-successor, recycled node appended, tail, interior, only-node
-- deletes; every oracle is legal; the outputs are the abstract map's
example :
    let hist : List (Oracle × Op Int) :=
      [({}, .put 1 10), ({ order := [7] }, .put 2 20), ({ order := [7] }, .put 3 30),
       ({ order := [7] }, .delete 1),                       -- head with a successor
       ({ choice := some 0, order := [7] }, .put 4 40),     -- recycles the freed node
       ({ order := [7] }, .put 5 50),
       ({ order := [7] }, .delete 4),                       -- interior
       ({ order := [7] }, .delete 5),                       -- tail
       ({ order := [7] }, .keys), ({ order := [7] }, .len),
       ({ order := [7] }, .delete 2), ({ order := [7] }, .delete 3),   -- the only node
       ({ order := [] }, .len), ({ order := [] }, .get 3)]
    (HMap.run constKey HMap.empty hist).2 =
      [.ok .unit, .ok .unit, .ok .unit, .ok (.found 10), .ok .unit, .ok .unit, .ok (.found 40),
       .ok (.found 50), .ok (.keys [2, 3]), .ok (.int 2), .ok (.found 20), .ok (.found 30), .ok (.int 0),
       .ok .missing] ∧
    (HMap.run constKey HMap.empty hist).1 = ⟨[], [⟨0, 0, []⟩, ⟨0, 0, []⟩, ⟨0, 0, []⟩, ⟨0, 0, []⟩]⟩ ∧
    (Spec.run constKey [] (hist.map (·.2))).2 = (HMap.run constKey HMap.empty hist).2 := by
  decide

-- the `ValidRun` hypothesis of that kind of history holds (two buckets, iteration order reversed)
example :
    let h : Hashable := ⟨fun a => a.tmod 2, fun a b => a == b⟩
    HMap.ValidRun h (HMap.empty : HMap Int)
      [({}, .put 1 10), ({ order := [1] }, .put 2 20), ({ order := [0, 1] }, .put 3 30),
       ({ order := [0, 1] }, .keys), ({ order := [0, 1] }, .delete 1), ({ order := [1, 0] }, .len)] ∧
    ((HMap.run h (HMap.empty : HMap Int)
      [({}, .put 1 10), ({ order := [1] }, .put 2 20), ({ order := [0, 1] }, .put 3 30),
       ({ order := [0, 1] }, .keys)]).2.getLast? = some (.ok (.keys [2, 1, 3]))) := by
  refine ⟨⟨.refl _, .refl _, List.Perm.swap _ _ _, List.Perm.swap _ _ _, List.Perm.swap _ _ _, .refl _, trivial⟩, by decide⟩

-- the pool invariant is load-bearing: the model WOULD expose a recycled node whose `next` was not
-- cleared (`newNode` does not assign `next`) — `c03_pool_nodes_clean` is not true by construction
example : (newNode [(⟨5, 50, [(6, 60)]⟩ : PNode Int)] (some 0) 1 10).1 = [(1, 10), (6, 60)] := by decide

-- `lastWrite` on a colliding history: 2 was put, overwritten, deleted, put again; 1 untouched meanwhile
example :
    lastWrite constKey 2 none [Op.put 1 10, .put 2 20, .put 2 21, .delete 2, .put 2 22, .delete 3] = some 22 ∧
    lastWrite constKey 1 none [Op.put 1 10, .put 2 20, .put 2 21, .delete 2, .put 2 22, .delete 3] = some 10 ∧
    lastWrite constKey 3 none [Op.put 1 10, .put 2 20, .put 2 21, .delete 2, .put 2 22, .delete 3] = (none : Option Int) := by
  decide

-- linked map over a constant hash: delete-then-reinsert moves the key to the back, the inner node is recycled
example :
    let hist : List (Oracle × Op Int) :=
      [({}, .put 1 10), ({}, .put 2 20), ({}, .put 3 30), ({}, .delete 2),
       ({ choice := some 0 }, .put 2 21), ({}, .put 1 11), ({}, .keys), ({}, .values), ({}, .len), ({}, .delete 9)]
    (LMap.run constKey (LMap.empty : LMap Int) hist).2 =
      [.ok .unit, .ok .unit, .ok .unit, .ok (.found 20), .ok .unit, .ok .unit, .ok (.keys [1, 3, 2]),
       .ok (.vals [11, 30, 21]), .ok (.int 3), .ok .missing] ∧
    (LMap.run constKey (LMap.empty : LMap Int) hist).1.m.pool = [] := by
  decide

-- multi map over a constant hash: append per key, delete clears
example :
    let st := runWith (multiStep (hashMapi constKey (List Int))) HMap.empty
      [({}, .put 1 [10]), ({ order := [7] }, .put 2 [20]), ({ order := [7] }, .put 1 [11, 12]),
       ({ order := [7] }, .get 1), ({ order := [7] }, .delete 1), ({ order := [7] }, .put 1 []), ({ order := [7] }, .get 1),
       ({ order := [7] }, .len)]
    st.2 = [.ok .unit, .ok .unit, .ok .unit, .ok (.found [10, 11, 12]), .ok (.found [10, 11, 12]), .ok .unit,
            .ok (.found []), .ok (.int 2)] := by
  decide

end Ekit.HashMap
