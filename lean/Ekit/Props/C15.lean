import Ekit.Lemmas.Races
import Ekit.Lemmas.RacesWitness
import Ekit.Lemmas.RacesWitness2
import Ekit.Model.Races
/-!
# C15 — thread-safe types are free of data races under any concurrent use

Three layers (see DESIGN §3 "Lockset ⇒ data-race freedom", §4.1(d)):

1. `Ekit/Conc/Lockset.lean`: the trace model of the Go memory model's happens-before (assumed
   semantics, as definitions) and the theorem that a disciplined trace has no data race — for any
   number of threads and any client program.
2. `Ekit/Generated/AccessTable.lean`: the access table regenerated from the 15 anchored files on every
   run (lock placement is read from the source, not modelled by hand) with a discipline certificate,
   checked here by the kernel.
3. `FromTable` (Lemmas/Races): what it means for an execution to be described by the table — the
   statement of what the extractor is trusted for.  Table + certificate + `FromTable` ⇒ `RaceFree`.

The quantifier "all client programs, all schedules" is the universally quantified trace.
-/
namespace Ekit.Races
open Ekit.Conc.Lockset Ekit.Conc.AccessTable

/-- **"never constitutes a data race under the Go memory model"**, generic form: any well-formed trace
that conforms to a discipline table (each location atomic-only, lock-protected with exclusive writes,
read-only after publication, or thread-local; constructor accesses before the first publication) has no
pair of conflicting accesses unordered by happens-before.  All four discipline classes, any number of
threads, any client program. -/
theorem c15_disciplined_raceFree {Lock Loc Tok : Type} {S : Setup Loc Tok} {disc : Loc → Discipline Lock}
    {ini : Nat → Prop} {tr : Trace Lock Loc Tok} (wf : WellFormed tr) (c : Conforms S disc ini tr) :
    RaceFree tr :=
  disciplined_raceFree wf c

/-- The classic lockset argument on its own: two events of different threads that hold a common lock,
at least one exclusively, are ordered by happens-before. -/
theorem c15_lock_orders {Lock Loc Tok : Type} {tr : Trace Lock Loc Tok} (wf : WellFormed tr) {i j : Nat}
    {t t' : Tid} {l : Lock} {m m' : Mode} {eᵢ eⱼ : Ev Lock Loc Tok}
    (hij : i < j) (hne : t ≠ t') (hi : tr[i]? = some eᵢ) (hj : tr[j]? = some eⱼ)
    (hti : eᵢ.tid = t) (htj : eⱼ.tid = t') (hm : m = .excl ∨ m' = .excl)
    (h₁ : HoldsAt tr i t l m) (h₂ : HoldsAt tr j t' l m') : HB tr i j :=
  lock_orders wf hij hne hi hj hti htj hm h₁ h₂

/-- **"Every value handed from one goroutine to another through these types is published with a
happens-before edge"**, lock-protected containers: whatever the producer did before storing under the
lock happens before whatever the consumer does after loading under the lock. -/
theorem c15_handoff_lock {Lock Loc Tok : Type} {tr : Trace Lock Loc Tok} (wf : WellFormed tr)
    {i₀ i j j₀ : Nat} {t t' : Tid} {l : Lock} {m : Mode} {e₀ eᵢ eⱼ e₁ : Ev Lock Loc Tok}
    (h0 : tr[i₀]? = some e₀) (hi : tr[i]? = some eᵢ) (hj : tr[j]? = some eⱼ) (h1 : tr[j₀]? = some e₁)
    (ht0 : e₀.tid = t) (hti : eᵢ.tid = t) (htj : eⱼ.tid = t') (ht1 : e₁.tid = t')
    (hi0 : i₀ < i) (hij : i < j) (hj1 : j < j₀) (hne : t ≠ t')
    (hw : HoldsAt tr i t l .excl) (hr : HoldsAt tr j t' l m) : HB tr i₀ j₀ :=
  handoff_lock wf h0 hi hj h1 ht0 hti htj ht1 hi0 hij hj1 hne hw hr

/-- The same for containers that publish through an atomic location (ConcurrentLinkedQueue's CAS on
`tail.next`, atomicx.Value, the retry counters). -/
theorem c15_handoff_atomic {Lock Loc Tok : Type} {tr : Trace Lock Loc Tok} {i₀ i j j₀ : Nat} {t t' : Tid}
    {x : Loc} {w' : Bool} {e₀ e₁ : Ev Lock Loc Tok}
    (h0 : tr[i₀]? = some e₀) (hi : tr[i]? = some (.atomic t x true)) (hj : tr[j]? = some (.atomic t' x w'))
    (h1 : tr[j₀]? = some e₁) (ht0 : e₀.tid = t) (ht1 : e₁.tid = t')
    (hi0 : i₀ < i) (hij : i < j) (hj1 : j < j₀) : HB tr i₀ j₀ :=
  handoff_atomic h0 hi hj h1 ht0 ht1 hi0 hij hj1

/-- The table regenerated from the current source is disciplined: every location of every
thread-safe type is accessed only atomically, or never written after construction, or all its plain
writes hold one common lock exclusively and all its reads hold it at least shared.  (Kernel
evaluation over the finite regenerated table; no axioms.)  Removing a lock from a reader or turning
`atomic.AddInt32(&s.retries, 1)` into `s.retries++` changes the table and breaks this. -/
theorem c15_accessTable_disciplined :
    DisciplinedBy Ekit.Gen.AccessTable.disciplines Ekit.Gen.AccessTable.accessTable = true := by
  decide +kernel

/-- The regenerated file is internally consistent: every row's location id names the row's location
string, every lock id is in range, and the certificate has one class per location. -/
theorem c15_table_wellFormed :
    (Ekit.Gen.AccessTable.accessTable.all fun a =>
        Ekit.Gen.AccessTable.locNames[a.loc]? == some a.field &&
        (a.excl ++ a.shared).all (· < Ekit.Gen.AccessTable.lockNames.length)) = true ∧
    Ekit.Gen.AccessTable.disciplines.length = Ekit.Gen.AccessTable.locNames.length := by
  constructor <;> decide +kernel

/-- The hand-written alias facts (`cond.l` is the queue's mutex) are exactly what the extractor derives
from the constructors in the current source. -/
theorem c15_aliases : Ekit.Gen.AccessTable.aliases = expectedAliases := by decide

/-- **The property for the analysed code**: every execution described by the regenerated table — any
number of goroutines calling any public methods of any instances in any order, objects handed over
with a happens-before edge — is free of data races. -/
theorem c15_raceFree (W : World) (ini : Nat → Prop) (tr : TTrace) (wf : WellFormed tr)
    (ft : FromTable Ekit.Gen.AccessTable.accessTable W ini tr) : RaceFree tr :=
  table_raceFree c15_accessTable_disciplined wf ft

/-- Pairwise form, the static counterpart of the dynamic method matrix: any two rows of the table are
compatible, so every pair of methods of every type is declared conflict-free (`pairOk` is the function
the driver evaluates in model mode). -/
theorem c15_pairs_conflict_free (typ m₁ m₂ : String) :
    pairOk Ekit.Gen.AccessTable.accessTable typ m₁ m₂ = true :=
  disciplinedBy_pairOk c15_accessTable_disciplined typ m₁ m₂

/-- hence the driver's static verdict accepts every pair of known entries -/
theorem c15_pairVerdict_accepts (typ m₁ m₂ : String)
    (h₁ : hasEntry Ekit.Gen.AccessTable.entries typ m₁ = true)
    (h₂ : hasEntry Ekit.Gen.AccessTable.entries typ m₂ = true) :
    pairVerdict Ekit.Gen.AccessTable.accessTable Ekit.Gen.AccessTable.entries typ m₁ m₂ = none := by
  unfold pairVerdict
  simp [h₁, h₂, c15_pairs_conflict_free]

/-! ### Known findings of the pinned tree, as traces: the definitions are not vacuous -/

/-- CopyOnWriteArrayList.Get/Len/Cap/Range on the pinned tree: a reader without the mutex races with a
writer that holds it. -/
theorem c15_witness_unlocked_reader_races : Race Witness.unlockedReader 3 5 := Witness.unlockedReader_races

/-- syncx.Cond.checkCopy on the pinned tree: a plain load races with another goroutine's CAS. -/
theorem c15_witness_plain_load_of_atomic_races : Race Witness.plainLoadOfAtomic 2 3 :=
  Witness.plainLoadOfAtomic_races

/-- The repaired shape (reader takes the lock) is a well-formed conforming trace: the hypotheses of the
main theorem are satisfiable, and it yields race freedom. -/
theorem c15_witness_locked_reader_raceFree : RaceFree Witness.lockedReader := Witness.lockedReader_raceFree

/-- `FromTable` is satisfiable: a miniature table (constructor write, `Set` under the lock, `Get` under the
shared lock) describes a concrete two-thread trace, and the chain table ⇒ `Conforms` ⇒ `RaceFree` runs on it. -/
theorem c15_witness_fromTable_raceFree : RaceFree Witness2.tr :=
  table_raceFree Witness2.miniTable_disciplined
    (by
      -- well-formedness of the concrete trace: the only acquisitions are at 3 (thread 0) and 6 (thread 1)
      intro a t l m ha t' m' hne hm hh
      obtain ⟨x, hxa, hx, hno⟩ := hh
      have hb := Witness2.tr_bound ha
      have hbx := Witness2.tr_bound hx
      have acqs : ∀ (y : Nat) (t : Tid) (l : TLock) (m : Mode), y < 9 → Witness2.tr[y]? = some (.acq t l m) →
          (y = 3 ∧ t = 0 ∧ m = .excl) ∨ (y = 6 ∧ t = 1 ∧ m = .shared) := by
        intro y t l m hy h
        match y, hy, h with
        | 0, _, h => simp [Witness2.tr] at h
        | 1, _, h => simp [Witness2.tr] at h
        | 2, _, h => simp [Witness2.tr] at h
        | 3, _, h => simp [Witness2.tr] at h; exact .inl ⟨rfl, h.1.symm, h.2.2.symm⟩
        | 4, _, h => simp [Witness2.tr] at h
        | 5, _, h => simp [Witness2.tr] at h
        | 6, _, h => simp [Witness2.tr] at h; exact .inr ⟨rfl, h.1.symm, h.2.2.symm⟩
        | 7, _, h => simp [Witness2.tr] at h
        | 8, _, h => simp [Witness2.tr] at h
      rcases acqs a t l m hb ha with ⟨rfl, rfl, rfl⟩ | ⟨rfl, rfl, rfl⟩
      · rcases acqs x t' l m' hbx hx with ⟨rfl, _⟩ | ⟨rfl, _⟩ <;> omega
      · rcases acqs x t' l m' hbx hx with ⟨rfl, rfl, rfl⟩ | ⟨rfl, _⟩
        · -- thread 0 released at position 5
          have h3 : Witness2.tr[3]? = some (.acq 0 l .excl) := hx
          have hl : l = (5, 0) := by simp [Witness2.tr] at h3; exact h3.symm
          subst hl
          exact hno 5 (by decide) (by decide) rfl
        · omega)
    Witness2.tr_fromTable

/-- non-vacuity of the table check: the certificate checker rejects a table in which a reader dropped the
lock (rows of a miniature CopyOnWriteArrayList with `Get` reading `vals` without the mutex) -/
example : DisciplinedBy [.lockProtected 0]
    [.mk' "f.go" "L" "Set" "L.vals" 0 true false false [0] [], .mk' "f.go" "L" "Get" "L.vals" 0 false false false [] []]
    = false := by decide

example : DisciplinedBy [.lockProtected 0]
    [.mk' "f.go" "L" "Set" "L.vals" 0 true false false [0] [], .mk' "f.go" "L" "Get" "L.vals" 0 false false false [] [0]]
    = true := by decide

/-- a plain increment next to atomic loads is rejected under every class -/
example : ∀ c ∈ [Cls.atomicOnly, Cls.readOnly, Cls.lockProtected 0],
    DisciplinedBy [c] [.mk' "f.go" "S" "Next" "S.retries" 0 true false false [] [],
                       .mk' "f.go" "S" "Peek" "S.retries" 0 false true false [] []] = false := by decide

end Ekit.Races
