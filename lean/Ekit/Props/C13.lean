/-
C13 — syncx.Cond never loses or invents a wake-up, with or without timeouts.

  "Every Signal is delivered to exactly one waiter: if the waiter it reaches is concurrently
   abandoning its wait because its context ended, the signal is passed on to the next waiter rather
   than lost, so while enough non-cancelled waiters remain the number of Waits returning nil equals
   the number of Signals; Broadcast releases every goroutine waiting when it is called.  A Wait
   returns only after a Signal/Broadcast or with its context's error, always holds the lock when it
   returns, and a waiter that gave up never absorbs a later signal."

All theorems are about `Ekit.Cond.step` (Ekit/Model/Cond.lean), the transition system the trace
acceptor Driver/Cond.lean executes; they quantify over every reachable state, i.e. every
interleaving of any number of threads, every choice of select arm, every moment of context expiry
and every choice of pooled node.  The skeleton obligations at the end tie the model to the current
source of /repo/syncx/cond.go.
-/
import Ekit.Lemmas.CondExtra
import Ekit.Lemmas.CondSnap
import Ekit.Lemmas.CondTrace
import Ekit.Model.CondSkel
import Ekit.Model.CondExec
import Ekit.Generated.SkelC13
import Ekit.Generated.SkelC13cc

namespace Ekit.Cond
open Ekit.Conc

/-! ### Structure: locks, ownership, no fault -/

/-- The structural invariant (mutual exclusion under `mu`, node ownership, list/channel/pool
    discipline, `L` discipline) holds in every reachable state. -/
theorem c13_inv {s : State} (hr : Reachable s) : Inv s := inv_reachable hr

/-- `mu` serialises the critical sections: two threads inside are the same thread.  (The steps of a
    critical section do not test `mu`; this is what the lock steps buy.) -/
theorem c13_mutex {s : State} (hr : Reachable s) (t u : Tid)
    (ht : (s.pc t).inMu = true) (hu : (s.pc u).inMu = true) : t = u := by
  have h := (inv_reachable hr).mutex
  have a := h t ht; have b := h u hu
  simp_all

/-- No reachable state has a faulted thread: never "Cond is copied" on an uncopied Cond, never a nil
    `notifyList`, never `remove` of an unlinked node (nil dereference), never `notifyNext` on an empty
    list (send on the sentinel's nil channel, blocking forever under `mu`), never `L.Unlock()` of an
    unlocked `L` (given the documented precondition that `Wait` is called with `L` held). -/
theorem c13_no_fault {s : State} (hr : Reachable s) (t : Tid) (f : Fault) : s.pc t ≠ .fault f := by
  intro h
  have := (inv_reachable hr).noFault t
  simp [h, Pc.isFault] at this

/-! ### Token conservation -/

/-- **Conservation.** `issued = consumed_nil + in_channels + in_hand + dropped` at every reachable state:
    tokens are created only by Signal/Broadcast sends, and each is either received by a Wait that
    returns nil, still in a channel, in the hand of the one cancelled waiter that is passing it on
    (it holds `mu`), or was dropped. -/
theorem c13_conservation {s : State} (hr : Reachable s) :
    s.issued = s.consumedNil + s.full.length + s.inHand + s.dropped :=
  (cnt_reachable hr).conserve

/-- A token is `dropped` only by the hand-off of a cancelled waiter that finds the list **empty**
    (nobody left to pass it to); no other step changes `dropped`. -/
theorem c13_dropped_only_when_empty {s s' : State} {l : Label} (hs : step s l = some s')
    (hd : s'.dropped ≠ s.dropped) : (∃ t, l = .fwdLen t) ∧ s.list = [] ∧ s'.dropped = s.dropped + 1 := by
  step_cases hs <;> simp_all

/-! ### Signal, Broadcast, hand-off (whole-call statements via the ghost snapshot) -/

/-- **signal_one.** When a Signal releases `mu` it has sent exactly one token, to the node that was at
    the front of the list when it acquired `mu`, and unlinked exactly that node — or nothing if the list
    was empty.  (`snap t` = list at acquisition, `sent t` = nodes sent to since.) -/
theorem c13_signal_one {s : State} (hr : Reachable s) (t : Tid) (h : s.pc t = .sUnlock) :
    s.sent t = (s.snap t).take 1 ∧ s.list = (s.snap t).drop 1 := by
  have := snap_reachable hr t
  simpa [h, Pc.snapRel] using this

/-- the same after the call returned control (the list may have changed since) -/
theorem c13_signal_one_ret {s : State} (hr : Reachable s) (t : Tid) (h : s.pc t = .sRet) :
    s.sent t = (s.snap t).take 1 := by
  have := snap_reachable hr t
  simpa [h, Pc.snapRel] using this

/-- Signal's send goes to the front node: at the send, the snapshot is `m :: list`. -/
theorem c13_signal_to_front {s : State} (hr : Reachable s) (t : Tid) (m : NodeId) (h : s.pc t = .sSend m) :
    s.snap t = m :: s.list ∧ s.sent t = [] := by
  have := snap_reachable hr t
  simpa [h, Pc.snapRel] using this

/-- **broadcast_all.** When a Broadcast releases `mu` it has sent one token to each node that was in
    the list at the instant it acquired `mu`, in order, and the list is empty. -/
theorem c13_broadcast_all {s : State} (hr : Reachable s) (t : Tid) (h : s.pc t = .bUnlock) :
    s.sent t = s.snap t ∧ s.list = [] := by
  have := snap_reachable hr t
  simpa [h, Pc.snapRel] using this

/-- **handoff.** A cancelled waiter that found a token in its channel and a non-empty list sends the
    token to the node that was at the **front** of the list when it locked `mu` (the signal is passed
    on to the next waiter, in FIFO order). -/
theorem c13_handoff {s : State} (hr : Reachable s) (t : Tid) (n m : NodeId) (h : s.pc t = .wFwdSend n m) :
    s.snap t = m :: s.list ∧ s.sent t = [] := by
  have := snap_reachable hr t
  simpa [h, Pc.snapRel] using this

/-- The whole ctx arm: when a cancelled waiter releases `mu` it has either passed one token to the front
    of the list as it was when it locked (or had nobody to pass it to), or — having found no token —
    unlinked exactly its own node. -/
theorem c13_ctx_arm {s : State} (hr : Reachable s) (t : Tid) (n : NodeId) (r : Res)
    (h : s.pc t = .wCtxUnlock n r) :
    (s.sent t = (s.snap t).take 1 ∧ s.list = (s.snap t).drop 1) ∨
    (s.sent t = [] ∧ s.list = (s.snap t).erase n ∧ n ∈ s.snap t) := by
  have := snap_reachable hr t
  simpa [h, Pc.snapRel] using this

/-- The hand-off send is never blocked and puts the token into the target's channel: the signal is
    passed on, not lost. -/
theorem c13_handoff_delivers {s : State} (hr : Reachable s) (t : Tid) (n m : NodeId)
    (h : s.pc t = .wFwdSend n m) :
    ∃ s', step s (.fwdSend t) = some s' ∧ s'.full = m :: s.full ∧ s'.fwd = s.fwd + 1 := by
  have hi := inv_reachable hr
  have hmu := hi.mutex t (by simp [h, Pc.inMu])
  have htg : s.tgt = some m := by simp [State.tgt, hmu, h, Pc.target]
  have := (hi.tgtOK m htg).2.1
  simp [step, h, this]

/-! ### Sends -/

/-- **Sends never block**: whenever a thread is about to send to node `m` (holding `mu`), `m`'s
    1-buffered channel is empty — otherwise the sender would block forever holding `mu`. -/
theorem c13_send_never_blocks {s : State} (hr : Reachable s) (t : Tid) (m : NodeId)
    (h : (s.pc t).target = some m) : m ∉ s.full ∧ m ∉ s.list := by
  have hi := inv_reachable hr
  have hin : (s.pc t).inMu = true := by
    cases hp : s.pc t <;> simp_all [Pc.target, Pc.inMu]
  have hmu := hi.mutex t hin
  have htg : s.tgt = some m := by simp [State.tgt, hmu, h]
  exact ⟨(hi.tgtOK m htg).2.1, (hi.tgtOK m htg).1⟩

/-- Every token is sent to the node of a waiter that is still enqueued (between `add` and the
    decision of its selects): no send targets a node whose owner is through with the list. -/
theorem c13_send_targets_waiter {s : State} (hr : Reachable s) (t : Tid) (m : NodeId)
    (h : (s.pc t).target = some m) : ∃ u, (s.pc u).node = some m ∧ (s.pc u).parked = true := by
  have hi := inv_reachable hr
  have hin : (s.pc t).inMu = true := by
    cases hp : s.pc t <;> simp_all [Pc.target, Pc.inMu]
  have hmu := hi.mutex t hin
  have htg : s.tgt = some m := by simp [State.tgt, hmu, h]
  obtain ⟨u, hu⟩ := owned_reachable hr m (Or.inr (Or.inr htg))
  exact ⟨u, hu, hi.isTgt u m hu htg⟩

/-- Every token sitting in a channel belongs to a waiter that will still look at its channel (outer or
    inner select): it will be received. -/
theorem c13_token_has_receiver {s : State} (hr : Reachable s) (n : NodeId) (h : n ∈ s.full) :
    ∃ u, (s.pc u).node = some n ∧ (s.pc u).fullPc = true := by
  obtain ⟨u, hu⟩ := owned_reachable hr n (Or.inr (Or.inl h))
  exact ⟨u, hu, (inv_reachable hr).inFull u n hu h⟩

/-! ### Wait's results -/

/-- **nil_only_with_token.** A Wait that is committed to return nil is one that received a token in
    its outer select and has not returned yet (`nilPend`); together with the counting below: never
    more nil returns than tokens issued. -/
theorem c13_nil_only_with_token {s : State} (hr : Reachable s) (t : Tid) :
    (s.pc t).result = some .nil ↔ t ∈ s.nilPend :=
  ((cnt_reachable hr).nilMem t).symm

/-- nil returns so far + Waits committed to nil = tokens received by outer selects ≤ tokens issued -/
theorem c13_nil_le_issued {s : State} (hr : Reachable s) :
    s.retNil + s.nilPend.length = s.consumedNil ∧ s.retNil ≤ s.issued := by
  have c := cnt_reachable hr
  refine ⟨c.nilAcc, ?_⟩
  have := c.conserve; have := c.nilAcc
  simp only [State.issued]; omega

/-- A Wait returns an error only if its context has ended, and the error is the context's
    (`ctx.Err()` is evaluated after the context ended, so it is non-nil). -/
theorem c13_err_only_if_ctx_done {s : State} (hr : Reachable s) (t : Tid)
    (h : (s.pc t).result = some .ctxErr) : s.ctx t = true :=
  errCtx_reachable hr t h

/-- the ctx arm always yields the error result (never nil) -/
theorem c13_ctx_arm_returns_err {s : State} (hr : Reachable s) (t : Tid) (n : NodeId) (r : Res)
    (h : s.pc t = .wCtxUnlock n r) : r = .ctxErr :=
  (inv_reachable hr).ctxRes t n r h

/-- **returns_holding_L.** A Wait about to return holds `c.L`, and so does the caller right after
    the return. -/
theorem c13_returns_holding_L {s : State} (hr : Reachable s) (t : Tid) (r : Res) (h : s.pc t = .wRet r) :
    s.L = some t ∧ ∀ s', step s (.resWait t r) = some s' → s'.L = some t := by
  have hl := (inv_reachable hr).lHeld t (by simp [h, Pc.needsL])
  refine ⟨hl, ?_⟩
  intro s' hs
  cases r <;> simp [step, h] at hs <;> subst hs <;> exact hl

/-- `Wait` releases `L` only after it is enqueued: at its `L.Unlock()` the node is linked, or already
    signalled, or being signalled. -/
theorem c13_enqueued_before_unlock {s : State} (hr : Reachable s) (t : Tid) (n : NodeId)
    (h : s.pc t = .wUnlockL n) : n ∈ s.list ∨ n ∈ s.full ∨ s.tgt = some n :=
  (inv_reachable hr).must t n (by simp [h, Pc.node]) (by simp [h, Pc.listPc])

/-! ### Giving up, recycling -/

/-- **gaveup_never_absorbs.** Once a waiter is through with the list (it consumed a token in the ctx
    arm, or unlinked itself, up to and including `free`), its node is not linked, holds no token and is
    not a send target: it can receive nothing later. -/
theorem c13_gaveup_never_absorbs {s : State} (hr : Reachable s) (t : Tid) (n : NodeId)
    (hn : (s.pc t).node = some n) (ht : (s.pc t).through = true) :
    n ∉ s.list ∧ n ∉ s.full ∧ s.tgt ≠ some n := by
  have hi := inv_reachable hr
  have a := hi.inList t n hn
  have b := hi.inFull t n hn
  have c := hi.isTgt t n hn
  cases hp : s.pc t <;> simp_all [Pc.through, Pc.listPc, Pc.fullPc, Pc.parked]

/-- **node_clean_on_free.** When a node returns to the pool its channel is empty (and it is unlinked
    and not a send target) … -/
theorem c13_node_clean_on_free {s : State} (hr : Reachable s) (t : Tid) (n : NodeId) (r : Res)
    (h : s.pc t = .wFree n r) : n ∉ s.full ∧ n ∉ s.list ∧ s.tgt ≠ some n := by
  have := c13_gaveup_never_absorbs hr t n (by simp [h, Pc.node]) (by simp [h, Pc.through])
  exact ⟨this.2.1, this.1, this.2.2⟩

/-- … and it stays so while pooled, and nobody owns it: a later waiter reusing it starts with an empty
    channel, so reuse cannot leak a stale token. -/
theorem c13_pool_clean {s : State} (hr : Reachable s) (n : NodeId) (h : n ∈ s.pool) :
    n ∉ s.full ∧ n ∉ s.list ∧ s.tgt ≠ some n ∧ ∀ t, (s.pc t).node ≠ some n := by
  have hi := inv_reachable hr
  have := hi.poolClean n h
  exact ⟨this.2.1, this.1, this.2.2, hi.poolFree n h⟩

/-- a wait node belongs to at most one waiter at a time (the pool never hands out a node twice) -/
theorem c13_node_unique_owner {s : State} (hr : Reachable s) (t u : Tid) (n : NodeId)
    (ht : (s.pc t).node = some n) (hu : (s.pc u).node = some n) : t = u :=
  (inv_reachable hr).own t u n ht hu

/-! ### No lost wake-up (enabledness; safety) -/

/-- A waiter standing at the outer select whose channel holds a token can take the receive arm; one
    whose context ended can take the ctx arm. -/
theorem c13_parked_enabled (s : State) (t : Tid) (n : NodeId) (h : s.pc t = .wSelect n) :
    (n ∈ s.full → (step s (.selRecv t)).isSome) ∧ (s.ctx t = true → (step s (.selCtx t)).isSome) := by
  constructor <;> intro h' <;> simp [step, h, h']

/-- **A parked waiter that has not been signalled is linked** (or is the very node a notifier holding
    `mu` is sending to): the next Signal / Broadcast / hand-off reaches it.  With `c13_parked_enabled`
    this is "no lost wake-up" as a safety property. -/
theorem c13_unsignalled_is_linked {s : State} (hr : Reachable s) (t : Tid) (n : NodeId)
    (hn : (s.pc t).node = some n) (hp : (s.pc t).parked = true) (hf : n ∉ s.full) (hg : s.tgt ≠ some n) :
    n ∈ s.list := by
  have := (inv_reachable hr).must t n hn (parked_listPc hp)
  simp_all

/-- Hence: a Signal that performs its length check while some enqueued waiter is still unsignalled
    finds the list non-empty (and issues a token); likewise a hand-off finds somebody to pass to. -/
theorem c13_enough_waiters {s : State} (hr : Reachable s) (u : Tid)
    (hu : s.pc u = .sLen ∨ ∃ k, s.pc u = .wFwdLen k)
    (t : Tid) (n : NodeId) (hn : (s.pc t).node = some n) (hp : (s.pc t).parked = true) (hf : n ∉ s.full) :
    s.list ≠ [] := by
  have hi := inv_reachable hr
  have hin : (s.pc u).inMu = true := by rcases hu with h | ⟨k, h⟩ <;> simp [h, Pc.inMu]
  have hmu := hi.mutex u hin
  have htg : s.tgt = none := by rcases hu with h | ⟨k, h⟩ <;> simp [State.tgt, hmu, h, Pc.target]
  have := c13_unsignalled_is_linked hr t n hn hp hf (by simp [htg])
  intro h; simp [h] at this

/-- `sigEmpty` (Signals that issued nothing) grows only at a length check that finds the list empty. -/
theorem c13_sigEmpty_only_when_empty {s s' : State} {l : Label} (hs : step s l = some s')
    (hd : s'.sigEmpty ≠ s.sigEmpty) : (∃ t, l = .sLen t) ∧ s.list = [] := by
  step_cases hs <;> simp_all

theorem isSome_ex {s : State} {l : Label} (h : (step s l).isSome = true) : ∃ l s', step s l = some s' := by
  cases hs : step s l with
  | none => simp [hs] at h
  | some s' => exact ⟨l, s', hs⟩

/-- **Progress of the lock holder (partial).**  The holder of `mu` always has an enabled step: nothing
    blocks inside a critical section (in particular no send).  Termination of the critical sections
    (hence eventual release of `mu`) and wall-clock promptness are liveness facts outside this safety
    development: Broadcast's loop strictly shortens the list at every iteration (`bPop`), all other
    sections are straight-line. -/
theorem c13_mu_holder_enabled_partial {s : State} (hr : Reachable s) (t : Tid) (h : s.mu = some t) :
    ∃ l s', step s l = some s' := by
  have hi := inv_reachable hr
  have hin := hi.muHeld t h
  have hsend : ∀ m, (s.pc t).target = some m → m ∉ s.full := fun m hm => (c13_send_never_blocks hr t m hm).1
  cases hp : s.pc t <;> simp [hp, Pc.inMu] at hin
  case wAlloc => exact isSome_ex (l := .alloc t none) (by simp [step, hp])
  case wPush n => exact isSome_ex (l := .push t) (by simp [step, hp])
  case wAddUnlock n => exact isSome_ex (l := .addUnlock t) (by simp [step, hp])
  case wInner n =>
    by_cases hf : n ∈ s.full
    · exact isSome_ex (l := .innerRecv t) (by simp [step, hp, hf])
    · exact isSome_ex (l := .innerDefault t) (by simp [step, hp, hf])
  case wFwdLen n => exact isSome_ex (l := .fwdLen t) (by simp only [step, hp]; split <;> rfl)
  case wFwdPop n => exact isSome_ex (l := .fwdPop t) (by simp only [step, hp]; split <;> rfl)
  case wFwdSend n m =>
    have := hsend m (by simp [hp, Pc.target])
    exact isSome_ex (l := .fwdSend t) (by simp [step, hp, this])
  case wRemove n => exact isSome_ex (l := .remove t) (by simp only [step, hp]; split <;> rfl)
  case wCtxErr n => exact isSome_ex (l := .ctxErr t) (by simp [step, hp])
  case wCtxUnlock n r => exact isSome_ex (l := .ctxUnlock t) (by simp [step, hp])
  case sLen => exact isSome_ex (l := .sLen t) (by simp only [step, hp, if_true]; split <;> rfl)
  case sPop => exact isSome_ex (l := .sPop t) (by simp only [step, hp, if_true]; split <;> rfl)
  case sSend m =>
    have := hsend m (by simp [hp, Pc.target])
    exact isSome_ex (l := .sSend t) (by simp [step, hp, this])
  case sUnlock => exact isSome_ex (l := .sUnlock t) (by simp [step, hp])
  case bLen => exact isSome_ex (l := .bLen t) (by simp only [step, hp, if_true]; split <;> rfl)
  case bPop => exact isSome_ex (l := .bPop t) (by simp only [step, hp, if_true]; split <;> rfl)
  case bSend m =>
    have := hsend m (by simp [hp, Pc.target])
    exact isSome_ex (l := .bSend t) (by simp [step, hp, this])
  case bUnlock => exact isSome_ex (l := .bUnlock t) (by simp [step, hp])

/-! ### The counting corollary -/

/-- Every Signal that took effect (performed its length check under `mu`) issued exactly one token,
    or found the list empty, or is between its check and its send. -/
theorem c13_signal_accounting {s : State} (hr : Reachable s) :
    s.sigChecks = s.sigIssued + s.sigEmpty + s.sigInFlight :=
  (cnt_reachable hr).sigAcc

/-- **#nil ≤ #Signals + tokens issued by Broadcasts** at every reachable state (the law the harness
    checks on every scenario): no wake-up is invented. -/
theorem c13_nil_le_signals_plus_broadcast {s : State} (hr : Reachable s) :
    s.retNil ≤ s.sigChecks + s.bcIssued := by
  have c := cnt_reachable hr
  have := c.conserve; have := c.nilAcc; have := c.sigAcc
  omega

/-- **"While enough non-cancelled waiters remain, #Waits returning nil = #Signals."**
    If no Signal found the list empty and no hand-off found it empty (by `c13_enough_waiters`,
    `c13_sigEmpty_only_when_empty` and `c13_dropped_only_when_empty` that is the case as long as an
    enqueued unsignalled waiter exists at each of those moments), no Broadcast issued tokens, and the
    state is quiescent (`mu` free, no token in a channel, no Wait between receiving and returning),
    then the number of Waits that returned nil equals the number of Signals that took effect. -/
theorem c13_nil_eq_signals {s : State} (hr : Reachable s)
    (hE : s.sigEmpty = 0) (hD : s.dropped = 0) (hB : s.bcIssued = 0)
    (hq1 : s.mu = none) (hq2 : s.full = []) (hq3 : s.nilPend = []) :
    s.retNil = s.sigChecks := by
  have c := cnt_reachable hr
  have h1 := c.conserve; have h2 := c.nilAcc; have h3 := c.sigAcc
  simp [State.inHand, State.sigInFlight, hq1, hq2, hq3, hE, hD, hB] at h1 h2 h3
  omega

/-- In general, at quiescence: nil returns = tokens issued − tokens dropped. -/
theorem c13_quiescent_count {s : State} (hr : Reachable s)
    (hq1 : s.mu = none) (hq2 : s.full = []) (hq3 : s.nilPend = []) :
    s.retNil + s.dropped = s.issued := by
  have c := cnt_reachable hr
  have h1 := c.conserve; have h2 := c.nilAcc
  simp [State.inHand, hq1, hq2, hq3] at h1 h2
  simp only [State.issued]; omega

/-! ### The same, without ghost state: counting labels of a run -/

/-- Over **any run** of the model from the initial state: the number of `Wait`s that return nil is at
    most the number of Signals that took effect plus the number of tokens Broadcasts sent
    (labels `resWait _ nil`, `sLen _`, `bSend _`). -/
theorem c13_trace_no_invented_wakeup (ls : List Label) (s : State) (h : sys.toSystem.run init ls = some s) :
    ls.countP Label.isRetNil ≤ ls.countP Label.isSigCheck + ls.countP Label.isBcSend := by
  have hr : Reachable s := System.reachable_of_run sys.toSystem ls System.Reachable.init h
  have h1 := c13_nil_le_signals_plus_broadcast hr
  have h2 := counts_run ls init s h
  simp only [State.counts, Counts.mk.injEq] at h2
  obtain ⟨a, _, c, _, e, _⟩ := h2
  simp [init] at a c e
  omega

/-- Over any run ending in a quiescent state in which no Signal and no hand-off ever found the list
    empty and no Broadcast sent a token: #Waits returning nil = #Signals that took effect. -/
theorem c13_trace_nil_eq_signals (ls : List Label) (s : State) (h : sys.toSystem.run init ls = some s)
    (hE : s.sigEmpty = 0) (hD : s.dropped = 0) (hB : ls.countP Label.isBcSend = 0)
    (hq1 : s.mu = none) (hq2 : s.full = []) (hq3 : s.nilPend = []) :
    ls.countP Label.isRetNil = ls.countP Label.isSigCheck := by
  have hr : Reachable s := System.reachable_of_run sys.toSystem ls System.Reachable.init h
  have h2 := counts_run ls init s h
  simp only [State.counts, Counts.mk.injEq] at h2
  obtain ⟨a, _, c, _, e, _⟩ := h2
  simp [init] at a c e
  have h1 := c13_nil_eq_signals hr hE hD (by omega) hq1 hq2 hq3
  omega

/-- The trace acceptor's enumeration of a thread's next labels (`pcLabels`, Ekit/Model/CondExec.lean)
    misses no transition of the model (up to the pool's choice of node, which is not observable). -/
theorem c13_pcLabels_complete {s s' : State} {l : Label} {t : Tid} (hs : step s l = some s')
    (ha : l.actor = some t) : l ∈ pcLabels s t (s.pc t) ∨ ∃ c, l = .alloc t c :=
  pcLabels_complete hs ha

/-! ### Non-vacuity: the hand-off schedule is a run of the model -/

/-- waiters 1 and 2 enqueue, Signal (thread 0) sends to waiter 1's node, waiter 1's context ends and
    its outer select takes the ctx arm: it finds the token and passes it to waiter 2, which returns nil -/
def handoffRun : List Label :=
  [.lockL 1, .invWait 1 false, .ccLoad 1, .ccCas 1, .firstUse 1, .addLock 1, .alloc 1 none, .push 1,
   .addUnlock 1, .waitUnlockL 1,
   .lockL 2, .invWait 2 false, .ccLoad 2, .firstUse 2, .addLock 2, .alloc 2 none, .push 2, .addUnlock 2,
   .waitUnlockL 2,
   .invSignal 0, .ccLoad 0, .firstUse 0, .sLock 0, .sLen 0, .sPop 0, .sSend 0, .sUnlock 0, .resSignal 0,
   .expire 1, .selCtx 1, .ctxLock 1, .innerRecv 1, .fwdLen 1, .fwdPop 1, .fwdSend 1, .ctxErr 1, .ctxUnlock 1,
   .free 1, .relockL 1, .resWait 1 .ctxErr, .unlockL 1,
   .selRecv 2, .free 2, .relockL 2, .resWait 2 .nil, .unlockL 2]

def summary (s : State) : Nat × Nat × Nat × Nat × Nat × List NodeId × List NodeId × List NodeId :=
  (s.sigIssued, s.fwd, s.dropped, s.retNil, s.retErr, s.list, s.full, s.pool)

example : (sys.toSystem.run init handoffRun).map summary = some (1, 1, 0, 1, 1, [], [], [1, 0]) := by
  rfl

/-- the same schedule with nobody to pass the token to: it is dropped (the only way to lose one) -/
def dropRun : List Label :=
  [.lockL 1, .invWait 1 false, .ccLoad 1, .ccCas 1, .firstUse 1, .addLock 1, .alloc 1 none, .push 1,
   .addUnlock 1, .waitUnlockL 1,
   .invSignal 0, .ccLoad 0, .firstUse 0, .sLock 0, .sLen 0, .sPop 0, .sSend 0, .sUnlock 0, .resSignal 0,
   .expire 1, .selCtx 1, .ctxLock 1, .innerRecv 1, .fwdLen 1, .ctxErr 1, .ctxUnlock 1,
   .free 1, .relockL 1, .resWait 1 .ctxErr, .unlockL 1]

example : (sys.toSystem.run init dropRun).map summary = some (1, 0, 1, 0, 1, [], [], [0]) := by
  rfl

/-- hypotheses of `c13_nil_eq_signals` are satisfiable with a non-trivial count -/
example : ∃ s, Reachable s ∧ s.sigEmpty = 0 ∧ s.dropped = 0 ∧ s.bcIssued = 0 ∧ s.mu = none ∧ s.full = [] ∧
    s.nilPend = [] ∧ s.sigChecks = 1 ∧ s.retNil = 1 := by
  have e : (sys.toSystem.run init handoffRun).map
      (fun s => (s.sigEmpty, s.dropped, s.bcIssued, s.mu, s.full, s.nilPend, s.sigChecks, s.retNil))
      = some (0, 0, 0, none, [], [], 1, 1) := by rfl
  cases hs : sys.toSystem.run init handoffRun with
  | none => simp [hs] at e
  | some s =>
    refine ⟨s, System.reachable_of_run sys.toSystem handoffRun System.Reachable.init hs, ?_⟩
    simp [hs] at e
    obtain ⟨a, b, c, d, e1, f, g, h⟩ := e
    exact ⟨a, b, c, d, e1, f, g, h⟩

/-! ### Skeleton obligations: the model was written against the current source -/
section Skeleton
open Ekit.Cond.Skel
theorem c13_skel_Cond_Wait : Ekit.Gen.SkelC13.Cond_Wait = expected_Cond_Wait := by decide +kernel
theorem c13_skel_Cond_Signal : Ekit.Gen.SkelC13.Cond_Signal = expected_Cond_Signal := by decide +kernel
theorem c13_skel_Cond_Broadcast : Ekit.Gen.SkelC13.Cond_Broadcast = expected_Cond_Broadcast := by decide +kernel
theorem c13_skel_Cond_checkCopy : Ekit.Gen.SkelC13cc.Cond_checkCopy = expected_Cond_checkCopy := by decide +kernel
theorem c13_skel_Cond_checkFirstUse : Ekit.Gen.SkelC13.Cond_checkFirstUse = expected_Cond_checkFirstUse := by decide +kernel
theorem c13_skel_NewCond : Ekit.Gen.SkelC13.NewCond = expected_NewCond := by decide +kernel
theorem c13_skel_notifyList_add : Ekit.Gen.SkelC13.notifyList_add = expected_notifyList_add := by decide +kernel
theorem c13_skel_notifyList_wait : Ekit.Gen.SkelC13.notifyList_wait = expected_notifyList_wait := by decide +kernel
theorem c13_skel_notifyList_notifyOne : Ekit.Gen.SkelC13.notifyList_notifyOne = expected_notifyList_notifyOne := by decide +kernel
theorem c13_skel_notifyList_notifyNext : Ekit.Gen.SkelC13.notifyList_notifyNext = expected_notifyList_notifyNext := by decide +kernel
theorem c13_skel_notifyList_notifyAll : Ekit.Gen.SkelC13.notifyList_notifyAll = expected_notifyList_notifyAll := by decide +kernel
theorem c13_skel_newNotifyList : Ekit.Gen.SkelC13.newNotifyList = expected_newNotifyList := by decide +kernel
theorem c13_skel_newChanList : Ekit.Gen.SkelC13.newChanList = expected_newChanList := by decide +kernel
theorem c13_skel_chanList_len : Ekit.Gen.SkelC13.chanList_len = expected_chanList_len := by decide +kernel
theorem c13_skel_chanList_front : Ekit.Gen.SkelC13.chanList_front = expected_chanList_front := by decide +kernel
theorem c13_skel_chanList_alloc : Ekit.Gen.SkelC13.chanList_alloc = expected_chanList_alloc := by decide +kernel
theorem c13_skel_chanList_pushBack : Ekit.Gen.SkelC13.chanList_pushBack = expected_chanList_pushBack := by decide +kernel
theorem c13_skel_chanList_remove : Ekit.Gen.SkelC13.chanList_remove = expected_chanList_remove := by decide +kernel
theorem c13_skel_chanList_free : Ekit.Gen.SkelC13.chanList_free = expected_chanList_free := by decide +kernel
theorem c13_skel_noCopy_Lock : Ekit.Gen.SkelC13.noCopy_Lock = expected_noCopy_Lock := by decide +kernel
theorem c13_skel_noCopy_Unlock : Ekit.Gen.SkelC13.noCopy_Unlock = expected_noCopy_Unlock := by decide +kernel
end Skeleton

end Ekit.Cond
