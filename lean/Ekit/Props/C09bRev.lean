/-
C09 (DelayQueue share) — review additions (hostile-referee pass).

What `C09b.lean` had: "a parked call that missed an event holds a closed-or-closing generation",
"the signal arm is enabled once closed", "no stuck state".  What it did not have:

1. **Broadcast wakes ALL waiters** (`c09_broadcast_wakes_all`): the one `close` step of a broadcaster
   enables the signal arm of EVERY call parked on that generation, simultaneously (any number).
2. **The enabled step makes progress** (`c09_woken_dequeue_completes_solo`,
   `c09_ticked_dequeue_completes_solo`, `c09_timer_dequeue_completes_by_time_alone`,
   `c09_woken_enqueue_completes_solo`): a woken call that is then left alone — the lock is free, its
   context has not ended, the condition it waited for holds — runs straight to its successful return
   in a FIXED number of its own steps, without parking again.  This is the variant `C09b.lean` said was
   not proved ("no progress variant"): one wake-up = one loop iteration = at most 9 own steps.
3. **A futile wake-up re-parks on a fresh, un-closed generation with nothing missed**
   (`c09_futile_wakeup_reparks_fresh`): the loop cannot spin on a closed channel.
4. **Delivers exactly what it holds** (`c09_drains_at_quiescence`, `c09_accepts_and_delivers_capacity`):
   at quiescence after ANY history, once the elements are expired, solo Dequeues hand out ALL
   elements of the queue, each exactly once, leaving it empty and quiescent; in particular an empty
   bounded queue accepts `cap` fresh elements without blocking and delivers exactly those `cap`.
5. Non-vacuity runs from `init`: two consumers parked on the same generation both woken by ONE
   insertion; a parked producer on a full queue woken by a removal; a cancellation at each of the five
   blocking points.
Still not a theorem (and not expressible here): scheduler fairness, timer accuracy, wall-clock bounds.
-/
import Ekit.Props.C09b

namespace Ekit.DelayQ
open Ekit.Conc

/-! ### 1. one close wakes every waiter of that generation -/

/-- the calls parked in a `select` on generation `g` of cond `c` -/
def parkedOn (s : State) (t : Nat) (c : CondId) (g : Nat) : Prop :=
  (∃ x, s.pc t = .eWait x g ∧ c = .deqSig) ∨ (s.pc t = .dWaitE g ∧ c = .enqSig) ∨ (s.pc t = .dWaitT g ∧ c = .enqSig)

/-- **broadcast wakes ALL**: the broadcaster's `close` step is enabled (`c09_broadcaster_progress`)
    and in the state after it EVERY thread parked on the closed generation — any number of them — has
    its signal arm enabled, leading to the head of its loop. -/
theorem c09_broadcast_wakes_all (P : Params) (s : State) (u : Nat) (c : CondId) (g : Nat) (r : Ret)
    (hr : (sys P).Reachable s) (hu : s.pc u = .bClose c g r) :
    ∃ s', step P s (.close u) = some s' ∧ g ∈ s'.closed c ∧
      ∀ t, parkedOn s t c g → parkedOn s' t c g ∧
        ∃ s'', step P s' (.selSig t) = some s'' ∧ (s''.pc t = .dTop ∨ ∃ x, s''.pc t = .eTop x) := by
  obtain ⟨s', hs, _, hg⟩ := (c09_broadcaster_progress P s u c r hr).2.2 g hu
  refine ⟨s', hs, hg, fun t hp => ?_⟩
  have hne : t ≠ u := by
    intro e; subst e
    rcases hp with ⟨x, h, _⟩ | ⟨h, _⟩ | ⟨h, _⟩ <;> rw [hu] at h <;> cases h
  have hpc : s'.pc t = s.pc t := by
    simp only [step, hu] at hs
    split at hs
    · cases hs
    · cases hs; simp [upd, hne]
  have hp' : parkedOn s' t c g := by unfold parkedOn; rw [hpc]; exact hp
  refine ⟨hp', ?_⟩
  rcases hp' with ⟨x, h, rfl⟩ | ⟨h, rfl⟩ | ⟨h, rfl⟩
  · obtain ⟨s'', h1, h2⟩ := (c09_signal_arm_enabled P s' t g).1 x h hg
    exact ⟨s'', h1, Or.inr ⟨x, h2⟩⟩
  · obtain ⟨s'', h1, h2⟩ := (c09_signal_arm_enabled P s' t g).2.1 h hg
    exact ⟨s'', h1, Or.inl h2⟩
  · obtain ⟨s'', h1, h2⟩ := (c09_signal_arm_enabled P s' t g).2.2 h hg
    exact ⟨s'', h1, Or.inl h2⟩

/-! ### 2. the woken call completes when left alone -/

theorem cur_not_closed (P : Params) (s : State) (hr : (sys P).Reachable s) (c : CondId) : s.cur c ∉ s.closed c :=
  fun h => Nat.lt_irrefl _ ((inv9_reachable P s hr).gen.closed_lt _ _ h)

/-- the steps of a Dequeue from the head of its loop to its return, when an expired minimum is there -/
def deqTail (t : Nat) (x : Elem) : List Label :=
  [.ctxOk t, .lock t, .peek t (some x), .pop t (some x), .swap t, .unlock t, .close t, .ret t (.deqOk x)]

theorem deqTail_runs (P : Params) (s : State) (hr : (sys P).Reachable s) (t : Nat) (x : Elem)
    (hpc : s.pc t = .dTop) (hc : s.ctxDone t = false) (hm : s.mutex = none)
    (hmin : isMin s.q x = true) (hexp : x.dl ≤ s.now) :
    ∃ s', (sys P).toSystem.run s (deqTail t x) = some s' ∧ s'.pc t = .idle ∧ s'.q = s.q.erase x ∧
      s'.retd = x :: s.retd ∧ s'.mutex = none ∧ s.cur .deqSig ∈ s'.closed .deqSig := by
  have hcl := cur_not_closed P s hr .deqSig
  simp [System.run, deqTail, sys, step, hpc, hc, hm, hmin, hexp, hcl, State.setPc]

/-- **A Dequeue woken by the enqueue signal completes when left alone.**  Parked on the empty queue or
    on its timer, generation closed, context alive, lock free, an expired minimum `x` in the queue:
    nine own steps lead to the return of `x` — no second parking. -/
theorem c09_woken_dequeue_completes_solo (P : Params) (s : State) (t g : Nat) (x : Elem)
    (hr : (sys P).Reachable s) (hpc : s.pc t = .dWaitE g ∨ s.pc t = .dWaitT g)
    (hg : g ∈ s.closed .enqSig) (hc : s.ctxDone t = false) (hm : s.mutex = none)
    (hmin : isMin s.q x = true) (hexp : x.dl ≤ s.now) :
    ∃ s', (sys P).toSystem.run s (.selSig t :: deqTail t x) = some s' ∧ s'.pc t = .idle ∧
      s'.q = s.q.erase x ∧ s'.retd = x :: s.retd ∧ s'.mutex = none := by
  have hstep : ∃ s1, step P s (.selSig t) = some s1 ∧ s1 = s.setPc t .dTop := by
    rcases hpc with h | h <;> exact ⟨_, by simp [step, h, hg], rfl⟩
  obtain ⟨s1, h1, e1⟩ := hstep
  have h1' : (sys P).toSystem.step s (.selSig t) = some s1 := h1
  have hr1 : (sys P).Reachable s1 := System.Reachable.step hr h1'
  obtain ⟨s', h2, a, b, c, d, _⟩ := deqTail_runs P s1 hr1 t x (by rw [e1]; simp [State.setPc])
    (by rw [e1]; exact hc) (by rw [e1]; exact hm) (by rw [e1]; exact hmin) (by rw [e1]; exact hexp)
  refine ⟨s', ?_, a, by rw [b, e1]; rfl, by rw [c, e1]; rfl, d⟩
  simp only [System.run]
  rw [h1']; exact h2

/-- the steps of a Dequeue from a received timer tick to its return -/
def deqTimerTail (t : Nat) (x : Elem) : List Label :=
  [.selTimer t, .lock t, .repeek t (some x), .pop t (some x), .swap t, .unlock t, .close t, .ret t (.deqOk x)]

/-- **A Dequeue whose timer tick is available completes when left alone** (no ctx check on this path,
    as in the code): parked on its timer with a tick buffered, lock free, an expired minimum `x`. -/
theorem c09_ticked_dequeue_completes_solo (P : Params) (s : State) (t g : Nat) (x : Elem) (a : Option Nat)
    (hr : (sys P).Reachable s) (hpc : s.pc t = .dWaitT g) (htm : s.timer t = some ⟨a, true⟩)
    (hm : s.mutex = none) (hmin : isMin s.q x = true) (hexp : x.dl ≤ s.now) :
    ∃ s', (sys P).toSystem.run s (deqTimerTail t x) = some s' ∧ s'.pc t = .idle ∧
      s'.q = s.q.erase x ∧ s'.retd = x :: s.retd ∧ s'.mutex = none ∧ s'.timer t = none := by
  have hcl := cur_not_closed P s hr .deqSig
  simp [System.run, deqTimerTail, sys, step, hpc, htm, hm, hmin, hexp, hcl, State.setPc]

/-- **"returns once an element … expires"**: a Dequeue parked on its timer (for whatever head it saw),
    left alone with the lock free, completes BY THE PASSAGE OF TIME ALONE: advance the clock to the
    later of the armed instant and the deadline of a minimum `x` of the queue; then the runtime's
    `fire` and eight own steps return `x`.  Both timer disciplines.  (If a tick is already buffered
    the `fire` is not needed: `c09_ticked_dequeue_completes_solo`.) -/
theorem c09_timer_dequeue_completes_by_time_alone (P : Params) (s : State) (t g w : Nat) (b : Bool) (x : Elem)
    (hr : (sys P).Reachable s) (hpc : s.pc t = .dWaitT g) (htm : s.timer t = some ⟨some w, b⟩)
    (hm : s.mutex = none) (hmin : isMin s.q x = true) :
    ∃ n s', (sys P).toSystem.run s (.tick n :: .fire t :: deqTimerTail t x) = some s' ∧ s'.pc t = .idle ∧
      s'.q = s.q.erase x ∧ s'.retd = x :: s.retd ∧ s'.mutex = none := by
  have hcl := cur_not_closed P s hr .deqSig
  refine ⟨(max w x.dl) - s.now, ?_⟩
  have h1 : w ≤ s.now + (max w x.dl - s.now) := by omega
  have h2 : x.dl ≤ s.now + (max w x.dl - s.now) := by omega
  simp [System.run, deqTimerTail, sys, step, hpc, htm, hm, hmin, h1, h2, hcl, State.setPc]

/-- **An Enqueue woken by the dequeue signal completes when left alone**: parked on the full queue,
    generation closed, context alive, lock free, queue no longer full: eight own steps insert `x`. -/
theorem c09_woken_enqueue_completes_solo (P : Params) (s : State) (t g : Nat) (x : Elem)
    (hr : (sys P).Reachable s) (hpc : s.pc t = .eWait x g) (hg : g ∈ s.closed .deqSig)
    (hc : s.ctxDone t = false) (hm : s.mutex = none) (hfull : isFull P s.q = false) :
    ∃ s', (sys P).toSystem.run s
        [.selSig t, .ctxOk t, .lock t, .enq t, .swap t, .unlock t, .close t, .ret t .enqOk] = some s' ∧
      s'.pc t = .idle ∧ s'.q = x :: s.q ∧ s'.mutex = none ∧ s.cur .enqSig ∈ s'.closed .enqSig := by
  have hcl := cur_not_closed P s hr .enqSig
  simp [System.run, sys, step, hpc, hg, hc, hm, hfull, hcl, State.setPc]

/-! ### 3. a futile wake-up re-parks on a fresh generation -/

/-- A Dequeue woken by the signal that finds the queue EMPTY again (another consumer was faster) parks
    again — on the CURRENT generation, which is not closed, having missed nothing: it is then `blocked`
    in the sense of `c09_enabled_or_blocked` until the next insertion, it cannot spin. -/
theorem c09_futile_wakeup_reparks_fresh (P : Params) (s : State) (t g : Nat)
    (hr : (sys P).Reachable s) (hpc : s.pc t = .dWaitE g ∨ s.pc t = .dWaitT g)
    (hg : g ∈ s.closed .enqSig) (hc : s.ctxDone t = false) (hm : s.mutex = none) (hq : s.q = []) :
    ∃ s', (sys P).toSystem.run s [.selSig t, .ctxOk t, .lock t, .peek t none, .fetch t, .unlock t] = some s' ∧
      s'.pc t = .dWaitE (s.cur .enqSig) ∧ s.cur .enqSig ∉ s'.closed .enqSig ∧ s'.cur .enqSig = s.cur .enqSig ∧
      s'.seenE t = s'.enqd.length ∧ s'.mutex = none ∧ s'.q = [] := by
  have hcl := cur_not_closed P s hr .enqSig
  rcases hpc with h | h <;>
    simp [System.run, sys, step, h, hg, hc, hm, hq, hcl, State.setPc, Cont.cond]

/-! ### 4. delivers everything it holds -/

/-- one solo Dequeue after the other -/
def drainRun (t : Nat) (xs : List Elem) : List Label := xs.flatMap (soloDeqOk t)

/-- a field of the state that steps with labels satisfying `good` leave alone is left alone by runs of such labels -/
theorem run_preserves {α : Type} (P : Params) (f : State → α) (good : Label → Prop)
    (hstep : ∀ a b l, good l → step P a l = some b → f b = f a) :
    ∀ (ls : List Label) (a b : State), (∀ l ∈ ls, good l) → (sys P).toSystem.run a ls = some b → f b = f a
  | [], a, b, _, h => by simp [System.run] at h; rw [h]
  | l :: r, a, b, hg, h => by
    simp only [System.run] at h
    cases hs : (sys P).toSystem.step a l with
    | none => rw [hs] at h; cases h
    | some a1 =>
      rw [hs] at h
      rw [run_preserves P f good hstep r a1 b (fun l' hl' => hg l' (List.mem_cons_of_mem _ hl')) h]
      exact hstep a a1 l (hg l (by simp)) hs

theorem step_now_of_not_tick (P : Params) (a b : State) (l : Label) (hl : ∀ n, l ≠ .tick n)
    (h : step P a l = some b) : b.now = a.now := by
  step_cases h <;> first | rfl | exact absurd rfl (hl _)

theorem soloDeq_now (P : Params) (s s' : State) (t : Nat) (x : Elem)
    (h : (sys P).toSystem.run s (soloDeqOk t x) = some s') : s'.now = s.now :=
  run_preserves P (·.now) (fun l => ∀ n, l ≠ .tick n) (step_now_of_not_tick P) _ s s'
    (by intro l hl n; simp [soloDeqOk] at hl; rcases hl with h | h | h | h | h | h | h | h | h <;> simp [h]) h

/-- **drain**: in every quiescent reachable state all of whose elements are expired, solo Dequeues hand
    out ALL elements (some enumeration `xs` of the queue, in deadline order as each is a minimum when
    taken), each exactly once, leaving the queue empty and quiescent. -/
theorem c09_drains_at_quiescence (P : Params) (t : Nat) : ∀ (n : Nat) (s : State), s.q.length = n →
    (sys P).Reachable s → quiescent s → (∀ x ∈ s.q, x.dl ≤ s.now) →
    ∃ xs s', xs.Perm s.q ∧ (sys P).toSystem.run s (drainRun t xs) = some s' ∧ s'.q = [] ∧ quiescent s' ∧
      s'.retd = xs.reverse ++ s.retd ∧ (sys P).Reachable s'
  | 0, s, hn, hr, hq, _ => by
    have : s.q = [] := List.eq_nil_of_length_eq_zero hn
    exact ⟨[], s, by rw [this], rfl, this, hq, by simp, hr⟩
  | n + 1, s, hn, hr, hq, hexp => by
    have hne : s.q ≠ [] := by intro h; rw [h] at hn; cases hn
    obtain ⟨x, hmin⟩ := exists_isMin s.q hne
    have hx := isMin_mem hmin
    obtain ⟨s1, hrun1, hq1, hqu1, hret1⟩ :=
      c09_delivers_at_quiescence P s t x hr hq hmin (hexp x hx)
    have hr1 : (sys P).Reachable s1 := System.reachable_of_run _ _ hr hrun1
    have hnow : s1.now = s.now := soloDeq_now P s s1 t x hrun1
    have hlen : s1.q.length = n := by rw [hq1, List.length_erase_of_mem hx, hn]; rfl
    obtain ⟨xs, s2, hp, hrun2, hq2, hqu2, hret2, hr2⟩ := c09_drains_at_quiescence P t n s1 hlen hr1 hqu1
      (by intro y hy; rw [hnow]; rw [hq1] at hy; exact hexp y (List.mem_of_mem_erase hy))
    refine ⟨x :: xs, s2, ?_, ?_, hq2, hqu2, ?_, hr2⟩
    · rw [hq1] at hp
      exact (List.Perm.cons x hp).trans (List.perm_cons_erase hx).symm
    · simp only [drainRun, List.flatMap_cons]
      rw [System.run_append, hrun1]; exact hrun2
    · rw [hret2, hret1]; simp

/-- **"after any pattern of cancellations the queue still accepts and delivers exactly `capacity`
    elements without blocking"**: in every quiescent reachable state with an empty bounded queue —
    whatever was cancelled, timed out or completed before — `cap` fresh elements are all accepted by
    non-blocking solo Enqueues (and the `cap+1`-st parks: `c09_capacity_conserved`), and once the clock
    has passed their deadlines all `cap` of them, and nothing else, are delivered by non-blocking solo
    Dequeues, each exactly once. -/
theorem c09_accepts_and_delivers_capacity (P : Params) (t : Nat) (s : State) (xs : List Elem)
    (hr : (sys P).Reachable s) (hq : quiescent s) (hempty : s.q = []) (hc : 0 < P.cap)
    (hnd : xs.Nodup) (hfresh : ∀ x ∈ xs, x ∉ s.issued) (hlen : xs.length = P.cap) :
    ∃ s1 n ys s2, (sys P).toSystem.run s (fillRun t xs) = some s1 ∧ s1.q.length = P.cap ∧ isFull P s1.q = true ∧
      (sys P).toSystem.run s1 (.tick n :: drainRun t ys) = some s2 ∧ ys.Perm xs ∧ s2.q = [] ∧ quiescent s2 ∧
      s2.retd = ys.reverse ++ s.retd := by
  obtain ⟨s1, hrun1, hq1, hqu1, hr1⟩ := fill_quiescent P t xs s hr hq hnd hfresh
    (Or.inr (by rw [hempty, hlen]; simp))
  have hq1' : s1.q = xs.reverse := by rw [hq1, hempty]; simp
  have hl1 : s1.q.length = P.cap := by rw [hq1']; simp [hlen]
  have hfull : isFull P s1.q = true := by simp [isFull, hc, hl1]
  -- advance the clock past every deadline
  let m := (xs.map (·.dl)).foldr max 0
  have hm : ∀ x ∈ xs, x.dl ≤ m := by
    intro x hx
    have : ∀ (l : List Nat) (a : Nat), a ∈ l → a ≤ l.foldr max 0 := by
      intro l; induction l with
      | nil => intro a h; cases h
      | cons b r ih => intro a h; simp only [List.foldr_cons]; rcases List.mem_cons.mp h with rfl | h
                       · exact Nat.le_max_left _ _
                       · exact Nat.le_trans (ih a h) (Nat.le_max_right _ _)
    exact this _ _ (List.mem_map_of_mem hx)
  let s1' : State := { s1 with now := s1.now + m }
  have hst : (sys P).toSystem.step s1 (.tick m) = some s1' := rfl
  have hr1' : (sys P).Reachable s1' := System.Reachable.step hr1 hst
  have hretd1 : s1.retd = s.retd := by
    have step_enqret : ∀ (a b : State) (l : Label), (∀ u x, l ≠ .ret u (.deqOk x)) → step P a l = some b →
        b.retd = a.retd := by
      intro a b l hl h
      step_cases h <;> first | rfl | (rename_i r _ _; cases r <;> first | rfl | exact absurd rfl (hl _ _))
    refine run_preserves P (·.retd) (fun l => ∀ u x, l ≠ .ret u (.deqOk x)) step_enqret _ s s1 ?_ hrun1
    intro l hl u y
    simp only [fillRun, List.mem_flatMap] at hl
    obtain ⟨x, _, hl⟩ := hl
    simp [soloEnqOk] at hl
    rcases hl with h | h | h | h | h | h | h | h <;> simp [h]
  obtain ⟨ys, s2, hp, hrun2, hq2, hqu2, hret2, _⟩ := c09_drains_at_quiescence P t _ s1' rfl hr1' hqu1
    (by intro x hx
        have hx' : x ∈ xs := by
          have : x ∈ s1.q := hx
          rw [hq1'] at this; exact List.mem_reverse.mp this
        have := hm x hx'
        show x.dl ≤ s1.now + m
        omega)
  refine ⟨s1, m, ys, s2, hrun1, hl1, hfull, ?_, ?_, hq2, hqu2, ?_⟩
  · simp only [System.run, hst]; exact hrun2
  · have : s1'.q = xs.reverse := hq1'
    rw [this] at hp; exact hp.trans (List.reverse_perm xs)
  · rw [hret2]; show ys.reverse ++ s1.retd = _; rw [hretd1]

/-! ### 5. non-vacuity: runs from `init` -/

def view (P : Params) (ls : List Label) {α : Type} (f : State → α) : Option α :=
  ((sys P).toSystem.run init ls).map f

/-- consumers 2 and 3 both park on generation 0 of the enqueue signal (empty queue); ONE insertion by
    producer 1 closes generation 0 … -/
def twoWaiters : List Label :=
  [.invDeq 2, .ctxOk 2, .lock 2, .peek 2 none, .fetch 2, .unlock 2,
   .invDeq 3, .ctxOk 3, .lock 3, .peek 3 none, .fetch 3, .unlock 3] ++ soloEnqOk 1 ⟨1, 0⟩

example : view ⟨.sync, 0⟩ twoWaiters (fun s => (s.pc 2, s.pc 3, s.closed .enqSig, s.q)) =
    some (.dWaitE 0, .dWaitE 0, [0], [⟨1, 0⟩]) := by decide
/-- … and BOTH have their signal arm enabled (hypotheses of `c09_broadcast_wakes_all` /
    `c09_woken_dequeue_completes_solo` with two simultaneous waiters) -/
example : view ⟨.sync, 0⟩ (twoWaiters ++ [.selSig 2, .selSig 3]) (fun s => (s.pc 2, s.pc 3)) =
    some (.dTop, .dTop) := by decide
/-- consumer 2 completes; consumer 3 finds the queue empty and re-parks on the FRESH generation 1,
    which is not closed (`c09_futile_wakeup_reparks_fresh`) -/
example : view ⟨.sync, 0⟩ (twoWaiters ++ .selSig 2 :: deqTail 2 ⟨1, 0⟩ ++
      [.selSig 3, .ctxOk 3, .lock 3, .peek 3 none, .fetch 3, .unlock 3])
    (fun s => (s.pc 2, s.pc 3, s.cur .enqSig, s.closed .enqSig, s.retd)) =
    some (.idle, .dWaitE 1, 1, [0], [⟨1, 0⟩]) := by decide

/-- the state just before the broadcaster's `close` (hypothesis `s.pc u = bClose …` of
    `c09_broadcast_wakes_all` with two parked waiters, neither yet enabled) -/
example : view ⟨.sync, 0⟩ ([.invDeq 2, .ctxOk 2, .lock 2, .peek 2 none, .fetch 2, .unlock 2,
      .invDeq 3, .ctxOk 3, .lock 3, .peek 3 none, .fetch 3, .unlock 3,
      .invEnq 1 ⟨1, 0⟩, .ctxOk 1, .lock 1, .enq 1, .swap 1, .unlock 1])
    (fun s => (s.pc 1, s.pc 2, s.pc 3, s.closed .enqSig)) =
    some (.bClose .enqSig 0 .enqOk, .dWaitE 0, .dWaitE 0, []) := by decide

/-- a full bounded queue (capacity 1) with a parked producer; the consumer's removal wakes it and it
    completes alone (hypotheses of `c09_woken_enqueue_completes_solo`) -/
def fullParked : List Label :=
  soloEnqOk 1 ⟨1, 0⟩ ++ [.invEnq 2 ⟨2, 9⟩, .ctxOk 2, .lock 2, .enq 2, .fetch 2, .unlock 2] ++ soloDeqOk 3 ⟨1, 0⟩

example : view ⟨.async, 1⟩ fullParked (fun s => (s.pc 2, s.closed .deqSig, s.ctxDone 2, s.mutex, s.q)) =
    some (.eWait ⟨2, 9⟩ 0, [0], false, none, []) := by decide
example : view ⟨.async, 1⟩ (fullParked ++ [.selSig 2, .ctxOk 2, .lock 2, .enq 2, .swap 2, .unlock 2, .close 2,
      .ret 2 .enqOk]) (fun s => (s.pc 2, s.q)) = some (.idle, [⟨2, 9⟩]) := by decide

/-- a consumer parked on its timer for a far element completes by time alone
    (hypotheses of `c09_timer_dequeue_completes_by_time_alone`), both disciplines -/
def timerParked : List Label :=
  soloEnqOk 1 ⟨1, 50⟩ ++ [.invDeq 2, .ctxOk 2, .lock 2, .peek 2 (some ⟨1, 50⟩), .fetch 2, .unlock 2, .arm 2]

example : view ⟨.sync, 0⟩ timerParked (fun s => (s.pc 2, s.timer 2, s.mutex)) =
    some (.dWaitT 1, some ⟨some 50, false⟩, none) := by decide
example : view ⟨.sync, 0⟩ (timerParked ++ .tick 50 :: .fire 2 :: deqTimerTail 2 ⟨1, 50⟩)
    (fun s => (s.pc 2, s.q, s.now, s.retd)) = some (.idle, [], 50, [⟨1, 50⟩]) := by decide
example : view ⟨.async, 0⟩ (timerParked ++ .tick 50 :: .fire 2 :: deqTimerTail 2 ⟨1, 50⟩)
    (fun s => (s.pc 2, s.q, s.now, s.retd)) = some (.idle, [], 50, [⟨1, 50⟩]) := by decide

/-- a cancellation at each of the five blocking points returns the context error, queue and lock intact
    (hypotheses of `c09_cancel_enabled`): Enqueue loop head, Dequeue loop head, Enqueue parked on a full
    queue, Dequeue parked on the empty queue, Dequeue parked on its timer -/
example : view ⟨.sync, 1⟩ [.invEnq 1 ⟨1, 5⟩, .cancel 1, .ctxErr 1, .ret 1 .enqCtx] (fun s => (s.pc 1, s.q, s.mutex)) =
    some (.idle, [], none) := by decide
example : view ⟨.sync, 1⟩ [.invDeq 1, .cancel 1, .ctxErr 1, .ret 1 .deqCtx] (fun s => (s.pc 1, s.q, s.mutex)) =
    some (.idle, [], none) := by decide
example : view ⟨.sync, 1⟩ (soloEnqOk 1 ⟨1, 50⟩ ++ [.invEnq 2 ⟨2, 9⟩, .ctxOk 2, .lock 2, .enq 2, .fetch 2, .unlock 2,
      .cancel 2, .selCtx 2, .ret 2 .enqCtx]) (fun s => (s.pc 2, s.q, s.mutex)) = some (.idle, [⟨1, 50⟩], none) := by
  decide
example : view ⟨.sync, 1⟩ [.invDeq 2, .ctxOk 2, .lock 2, .peek 2 none, .fetch 2, .unlock 2, .cancel 2, .selCtx 2,
      .ret 2 .deqCtx] (fun s => (s.pc 2, s.q, s.mutex)) = some (.idle, [], none) := by decide
example : view ⟨.sync, 1⟩ (timerParked ++ [.cancel 2, .selCtx 2, .ret 2 .deqCtx])
    (fun s => (s.pc 2, s.q, s.mutex, s.timer 2)) = some (.idle, [⟨1, 50⟩], none, none) := by decide
/-- … and after those cancellations the capacity-1 queue still accepts exactly one more element and
    parks the next producer (hypotheses of `c09_capacity_conserved` in a quiescent state that HAS a
    history of cancellations) -/
example : view ⟨.sync, 1⟩ ([.invDeq 2, .ctxOk 2, .lock 2, .peek 2 none, .fetch 2, .unlock 2, .cancel 2, .selCtx 2,
      .ret 2 .deqCtx] ++ soloEnqOk 1 ⟨1, 50⟩ ++ [.invEnq 2 ⟨2, 9⟩, .ctxOk 2, .lock 2, .enq 2, .fetch 2, .unlock 2])
    (fun s => (s.pc 1, s.pc 2, s.q)) = some (.idle, .eWait ⟨2, 9⟩ 0, [⟨1, 50⟩]) := by decide

end Ekit.DelayQ
