/-
C08 ∘ C05 — the DelayQueue model's assumptions about its internal heap, discharged by the heap model.

`Ekit/Model/DelayQ.lean` keeps the queue as a list `s.q` and lets the LABEL choose what the internal
`queue.PriorityQueue` answers, under these guards (quoted from `DelayQ.step`):

    | .enq t      => … if isFull P s.q then (q untouched; wait on dequeueSignal)
                         else some { s with q := x :: s.q, … }
    | .peek t h   => … match h with
                       | none   => if s.q = [] then … else none
                       | some x => if isMin s.q x then … else none          (also `.repeek t h`)
    | .pop t h    => … match h with
                       | none   => if s.q = [] then …(deqErr)… else none
                       | some y => if isMin s.q y then some { s with q := s.q.erase y, … } else none

with `isMin q x = q.contains x && q.all (fun y => x.dl ≤ y.dl)` and
`isFull P q = (0 < P.cap) && (q.length = P.cap)` — "the heap's own correctness is C05".

This file proves that the heap model of C05 (`Ekit.Heap.step`), created by `NewPriorityQueue(c, cmp)`
with the comparator `NewDelayQueue` passes (`delayCmp`: compare `Delay() = dl - now`), implements
exactly that interface, for every coding of the elements in the heap's cells:

* per call (`c08_heap_peek`, `c08_heap_dequeue`, `c08_heap_enqueue`, `c08_heap_len_le_cap`,
  `c08_heap_no_panic`): from every well-formed heap whose decoded cells are, as a multiset, the
  model's `s.q` — Peek answers ErrEmptyQueue iff `s.q = []`, else an `x` with `isMin s.q x`, and
  changes nothing; Dequeue likewise and leaves a well-formed heap holding `s.q.erase x`; Enqueue
  answers ErrOutOfCapacity iff `isFull P s.q` and then changes nothing, else succeeds and holds
  `x :: s.q`; nothing panics; `Len() ≤ capacity`.
* composed (`sysH`, `c08_heap_step_sim`, `c08_heap_run_projects`, `c08_heap_never_refuses`): the
  transition system "DelayQueue model next to the real heap", in which the heap — not the label —
  decides the answers and the branch of `switch err`, and in which an unknown error / panic of the
  heap has NO step.  Every run of it is a run of `sys P` (same labels), the coupling
  "heap well formed ∧ heap cells = `s.q` as multisets ∧ capacities agree" holds in every reachable
  state, and at every heap-facing program point the composed system has a step for whatever the
  heap answers (it never falls into the unmodelled arm).  Hence every C08 theorem holds of the
  DelayQueue over the real heap (`c08_heap_linearizable_timed` and its HW form as instances).

The comparator reads the clock: `delayCmp C now` is lawful for every `now` and does not depend on it
(`delayCmp_now`), which is why the heap invariant established at one instant is still the heap
invariant later (the model calls `Delay()` of both arguments at the same virtual instant — the
DelayQ model's own abstraction of `time.Until`).
-/
import Ekit.Conc.HerlihyWing
import Ekit.Props.C05
import Ekit.Props.C08
import Ekit.Lemmas.HeapCoding

namespace Ekit.DelayQ
open Ekit.Conc Ekit.Cmp Ekit.Go
open Ekit.Heap (PQ Coding errCap errEmpty)

/-! ## the comparator -/

/-- `func(src, dst T) int { srcDelay := src.Delay(); dstDelay := dst.Delay(); if srcDelay > dstDelay
    { return 1 }; if srcDelay == dstDelay { return 0 }; return -1 }` on codes, at clock reading `now` -/
def delayCmp (C : Coding Elem) (now : Nat) : Cmp := fun u v =>
  if ((C.dec u).dl : Int) - (now : Int) > ((C.dec v).dl : Int) - (now : Int) then 1
  else if ((C.dec u).dl : Int) - (now : Int) = ((C.dec v).dl : Int) - (now : Int) then 0 else -1

/-- the order does not depend on when the comparator is evaluated -/
theorem delayCmp_now (C : Coding Elem) (now now' : Nat) : delayCmp C now = delayCmp C now' := by
  funext u v
  simp only [delayCmp]
  split <;> split <;> (try split) <;> (try split) <;> omega

theorem delayCmp_le (C : Coding Elem) (now : Nat) (u v : Int) :
    delayCmp C now u v ≤ 0 ↔ (C.dec u).dl ≤ (C.dec v).dl := by
  simp only [delayCmp]
  split <;> (try split) <;> omega

theorem delayCmp_lt (C : Coding Elem) (now : Nat) (u v : Int) :
    delayCmp C now u v < 0 ↔ (C.dec u).dl < (C.dec v).dl := by
  simp only [delayCmp]
  split <;> (try split) <;> omega

theorem delayCmp_gt (C : Coding Elem) (now : Nat) (u v : Int) :
    0 < delayCmp C now u v ↔ (C.dec v).dl < (C.dec u).dl := by
  simp only [delayCmp]
  split <;> (try split) <;> omega

/-- "compare delays" is a total preorder (with ties: different elements, same deadline) -/
theorem delayCmp_lawful (C : Coding Elem) (now : Nat) : Lawful (delayCmp C now) where
  swap a b := by rw [delayCmp_lt, delayCmp_gt]
  trans a b c h1 h2 := by
    rw [delayCmp_le] at h1 h2 ⊢
    exact Nat.le_trans h1 h2

/-! ## the heap as the model's queue -/

/-- the elements the heap holds: its cells `1..`, decoded -/
def absQ (C : Coding Elem) (pq : PQ) : List Elem := pq.contents.map C.dec

/-- `val, err := d.q.Peek()` / `d.q.Dequeue()` as the `h` of the labels `peek/repeek/pop`:
    `some x` for `err == nil`, `none` for `ErrEmptyQueue`; anything else (a panic, another error)
    is not an answer the DelayQueue model has a step for -/
def headAns (C : Coding Elem) : Heap.Out → Option (Option Elem)
  | .ok (.val v) => some (some (C.dec v))
  | .err e => if e = errEmpty then some none else none
  | _ => none

/-- `err := d.q.Enqueue(t)` and the `switch err`: `some true` = `nil`, `some false` =
    `ErrOutOfCapacity`, `none` = the `default:` arm or a panic (no step of the model) -/
def enqAns : Heap.Out → Option Bool
  | .ok .unit => some true
  | .err e => if e = errCap then some false else none
  | _ => none

theorem isMin_iff' (q : List Elem) (x : Elem) : isMin q x = true ↔ x ∈ q ∧ ∀ y ∈ q, x.dl ≤ y.dl := by
  simp [isMin]

theorem isMin_perm {q q' : List Elem} (hp : q.Perm q') (x : Elem) : isMin q x = isMin q' x := by
  rw [Bool.eq_iff_iff, isMin_iff', isMin_iff']
  constructor
  · rintro ⟨h1, h2⟩; exact ⟨hp.mem_iff.mp h1, fun y hy => h2 y (hp.mem_iff.mpr hy)⟩
  · rintro ⟨h1, h2⟩; exact ⟨hp.mem_iff.mpr h1, fun y hy => h2 y (hp.mem_iff.mp hy)⟩

/-- C05's "a minimum under `cmp`" of the cells is the model's `isMin` of the decoded cells -/
theorem isMin_of_heap (C : Coding Elem) (now : Nat) {bag : List Int} {v : Int}
    (h : Heap.Spec.isMin (delayCmp C now) bag v = true) {sq : List Elem} (hsq : (bag.map C.dec).Perm sq) :
    isMin sq (C.dec v) = true := by
  simp only [Heap.Spec.isMin, Bool.and_eq_true, List.contains_iff_mem, List.all_eq_true,
    decide_eq_true_eq] at h
  rw [← isMin_perm hsq, isMin_iff']
  refine ⟨List.mem_map_of_mem h.1, fun y hy => ?_⟩
  obtain ⟨w, hw, rfl⟩ := List.mem_map.mp hy
  exact (delayCmp_le C now v w).mp (h.2 w hw)

theorem isFull_iff (P : Params) (q : List Elem) : isFull P q = true ↔ 0 < P.cap ∧ q.length = P.cap := by
  simp [isFull]

section calls
variable (C : Coding Elem) (now : Nat) (P : Params) {pq : PQ} (hq : Heap.WF (delayCmp C now) pq)
  {sq : List Elem} (hsq : (absQ C pq).Perm sq)
include hq hsq

/-- **Peek** — the guard of the labels `peek t h` / `repeek t h`:
    `match h with | none => s.q = [] | some x => isMin s.q x`; the heap is not modified. -/
theorem c08_heap_peek (g : Nat) :
    ∃ h, headAns C (Heap.step (delayCmp C now) pq g .peek).2 = some h ∧
      (Heap.step (delayCmp C now) pq g .peek).1 = pq ∧
      (match h with
        | none => sq = []
        | some x => isMin sq x = true) := by
  obtain ⟨bag', h1, _, _, _⟩ :=
    Heap.c05_pq_step_refines (delayCmp_lawful C now) hq (List.Perm.refl _) g .peek
  have hsame : (Heap.step (delayCmp C now) pq g .peek).1 = pq := by
    simp only [Heap.step]; split <;> (try split) <;> rfl
  simp only [Heap.Spec.check] at h1
  split at h1
  · rename_i hemp
    split at h1
    · rename_i hout
      refine ⟨none, by rw [hout]; simp [headAns], hsame, ?_⟩
      have : pq.contents = [] := by simpa using hemp
      simp only [absQ, this, List.map_nil] at hsq
      exact hsq.symm.eq_nil
    · cases h1
  · split at h1
    · rename_i v hout
      split at h1
      · rename_i hmin
        exact ⟨some (C.dec v), by rw [hout]; rfl, hsame, isMin_of_heap C now hmin hsq⟩
      · cases h1
    · cases h1

/-- **Dequeue** — the guard and the effect of the label `pop t h`:
    `| none => s.q = []` (nothing changes) `| some y => isMin s.q y` and `q := s.q.erase y`:
    exactly one occurrence leaves, the heap stays well formed with the same capacity. -/
theorem c08_heap_dequeue (g : Nat) :
    ∃ h, headAns C (Heap.step (delayCmp C now) pq g .dequeue).2 = some h ∧
      Heap.WF (delayCmp C now) (Heap.step (delayCmp C now) pq g .dequeue).1 ∧
      (Heap.step (delayCmp C now) pq g .dequeue).1.capacity = pq.capacity ∧
      (match h with
        | none => sq = [] ∧ (Heap.step (delayCmp C now) pq g .dequeue).1 = pq
        | some y => isMin sq y = true ∧
            (absQ C (Heap.step (delayCmp C now) pq g .dequeue).1).Perm (sq.erase y)) := by
  have hc := delayCmp_lawful C now
  obtain ⟨bag', h1, h2, h3, h4⟩ := Heap.c05_pq_step_refines hc hq (List.Perm.refl _) g .dequeue
  simp only [Heap.Spec.check] at h1
  split at h1
  · rename_i hemp
    split at h1
    · rename_i hout
      have he : pq.contents = [] := by simpa using hemp
      refine ⟨none, by rw [hout]; simp [headAns], h3, h4, ?_, ((Heap.c05_pq_empty_iff hc hq g).2.2 he).1⟩
      simp only [absQ, he, List.map_nil] at hsq
      exact hsq.symm.eq_nil
    · cases h1
  · split at h1
    · rename_i v hout
      split at h1
      · rename_i hmin
        cases h1
        refine ⟨some (C.dec v), by rw [hout]; rfl, h3, h4, isMin_of_heap C now hmin hsq, ?_⟩
        have hmem : v ∈ pq.contents := by
          simp only [Heap.Spec.isMin, Bool.and_eq_true, List.contains_iff_mem] at hmin
          exact hmin.1
        -- contents ~ v :: contents', decoded: sq ~ dec v :: absQ pq'
        have hp : sq.Perm (C.dec v :: absQ C (Heap.step (delayCmp C now) pq g .dequeue).1) := by
          refine hsq.symm.trans ?_
          have := ((List.perm_cons_erase hmem).trans (List.Perm.cons v h2.symm)).map C.dec
          simpa [absQ] using this
        have := hp.erase (C.dec v)
        simp only [List.erase_cons_head] at this
        exact this.symm
      · cases h1
    · cases h1

/-- **Enqueue** — the branch of the label `enq t`: `if isFull P s.q then` ErrOutOfCapacity and nothing
    changes `else` success and `q := x :: s.q` (exactly one occurrence is added); the heap stays
    well formed with the same capacity. -/
theorem c08_heap_enqueue (hcap : pq.capacity = (P.cap : Int)) (g : Nat) (x : Elem) :
    Heap.WF (delayCmp C now) (Heap.step (delayCmp C now) pq g (.enqueue (C.enc x))).1 ∧
    (Heap.step (delayCmp C now) pq g (.enqueue (C.enc x))).1.capacity = pq.capacity ∧
    (if isFull P sq then
      (Heap.step (delayCmp C now) pq g (.enqueue (C.enc x))).2 = .err errCap ∧
        (Heap.step (delayCmp C now) pq g (.enqueue (C.enc x))).1 = pq
    else
      (Heap.step (delayCmp C now) pq g (.enqueue (C.enc x))).2 = .ok .unit ∧
        (absQ C (Heap.step (delayCmp C now) pq g (.enqueue (C.enc x))).1).Perm (x :: sq)) := by
  have hc := delayCmp_lawful C now
  obtain ⟨bag', h1, h2, h3, h4⟩ :=
    Heap.c05_pq_step_refines hc hq (List.Perm.refl _) g (.enqueue (C.enc x))
  refine ⟨h3, h4, ?_⟩
  have hlen : sq.length = pq.contents.length := by rw [← hsq.length_eq]; simp [absQ]
  simp only [Heap.Spec.check] at h1
  split at h1
  · rename_i hfull
    have hf : isFull P sq = true := by rw [isFull_iff, hlen]; omega
    simp only [hf, if_true]
    split at h1
    · rename_i hout
      exact ⟨hout, (Heap.c05_pq_full_iff (delayCmp C now) pq g (C.enc x)).2 hout⟩
    · cases h1
  · rename_i hfull
    have hf : ¬ isFull P sq = true := by rw [isFull_iff, hlen]; omega
    simp only [hf]
    split at h1
    · rename_i hout
      cases h1
      refine ⟨hout, ?_⟩
      have h5 := h2.map C.dec
      simp only [List.map_cons, C.dec_enc] at h5
      exact h5.trans (List.Perm.cons x hsq)
    · cases h1

omit hsq in
/-- no call of the heap made by the DelayQueue panics -/
theorem c08_heap_no_panic (g : Nat) (op : Heap.Op) :
    (Heap.step (delayCmp C now) pq g op).2.isPanic = false :=
  Heap.c05_pq_no_panic (delayCmp_lawful C now) hq g op

/-- `Len()` is the size of the model's queue, and a bounded heap never holds more than its capacity -/
theorem c08_heap_len_le_cap (hcap : pq.capacity = (P.cap : Int)) :
    pq.len = (sq.length : Int) ∧ (0 < P.cap → sq.length ≤ P.cap) := by
  have hlen : sq.length = pq.contents.length := by rw [← hsq.length_eq]; simp [absQ]
  obtain ⟨h1, h2⟩ := Heap.c05_pq_len_le_cap hq
  refine ⟨by rw [h1, hlen], fun hpos => ?_⟩
  have := h2 (by omega)
  omega

end calls

/-! ## the DelayQueue model next to the real heap -/

/-- what ties the heap to the model's list: well formed (under the comparator as evaluated now),
    same elements, same capacity -/
structure Coupled (P : Params) (C : Coding Elem) (s : State) (pq : PQ) : Prop where
  wf : Heap.WF (delayCmp C s.now) pq
  same : (absQ C pq).Perm s.q
  cap : pq.capacity = (P.cap : Int)

/-- One step of the DelayQueue with `d.q` = the heap model.  The four heap-facing steps call the
    heap (`lg.2` = the runtime's growth choice) and branch on ITS answer, as the code does; the label's
    `h` records that answer.  A panic / unknown error of the heap has no step.  `s.q` is carried along
    as a ghost (it is never read here).  Every other label is the model's own step. -/
def stepH (P : Params) (C : Coding Elem) (x : State × PQ) (lg : Label × Nat) : Option (State × PQ) :=
  let s := x.1
  match lg.1 with
  | .enq t =>
    match s.pc t with
    | .eCrit e =>
      let r := Heap.step (delayCmp C s.now) x.2 lg.2 (.enqueue (C.enc e))
      match enqAns r.2 with
      | some false =>
        some ({ s with pc := upd s.pc t (.sFetch (.enqWait e)), seenD := upd s.seenD t s.deqd.length }, r.1)
      | some true =>
        some ({ s with q := e :: s.q, enqd := e :: s.enqd, eff := upd s.eff t true,
                       pc := upd s.pc t (.bSwap .enqSig .enqOk) }, r.1)
      | none => none
    | _ => none
  | .peek t h =>
    match s.pc t with
    | .dPeek =>
      let r := Heap.step (delayCmp C s.now) x.2 lg.2 .peek
      if headAns C r.2 = some h then
        match h with
        | none => some ({ s with pc := upd s.pc t (.sFetch .deqEmpty), seenE := upd s.seenE t s.enqd.length }, r.1)
        | some y =>
          if y.dl ≤ s.now then some (s.setPc t (.dPop y), r.1)
          else some ({ s with pc := upd s.pc t (.sFetch (.deqTimer (y.dl - s.now))),
                              seenE := upd s.seenE t s.enqd.length }, r.1)
      else none
    | _ => none
  | .repeek t h =>
    match s.pc t with
    | .dRepeek =>
      let r := Heap.step (delayCmp C s.now) x.2 lg.2 .peek
      if headAns C r.2 = some h then
        match h with
        | none => some (s.setPc t .dReUnlock, r.1)
        | some y => if y.dl ≤ s.now then some (s.setPc t (.dPop y), r.1) else some (s.setPc t .dReUnlock, r.1)
      else none
    | _ => none
  | .pop t h =>
    match s.pc t with
    | .dPop _ =>
      let r := Heap.step (delayCmp C s.now) x.2 lg.2 .dequeue
      if headAns C r.2 = some h then
        match h with
        | none => some (s.setPc t (.bSwap .deqSig .deqErr), r.1)
        | some y =>
          some ({ s with q := s.q.erase y, deqd := y :: s.deqd, eff := upd s.eff t true,
                         pc := upd s.pc t (.bSwap .deqSig (.deqOk y)) }, r.1)
      else none
    | _ => none
  | l => (step P s l).map (fun s' => (s', x.2))

/-- `NewDelayQueue(c)`: the model's initial state next to `NewPriorityQueue(c, cmp)` -/
def sysH (P : Params) (C : Coding Elem) : System (State × PQ) (Label × Nat) where
  init := (init, PQ.new (P.cap : Int))
  step := stepH P C

/-- `P.cap` is `c` normalised (`c ≤ 0` ↦ 0): the heap `NewPriorityQueue(c, …)` builds is the one
    built from `P.cap` -/
theorem new_cap (c : Int) : PQ.new c = PQ.new ((c.toNat : Nat) : Int) := by
  simp only [PQ.new]
  split <;> split <;> first | rfl | omega | (congr 1 <;> first | omega | (congr 1; omega))

theorem coupled_init (P : Params) (C : Coding Elem) : Coupled P C init (PQ.new (P.cap : Int)) := by
  have h := Heap.c05_pq_new_capacity (P.cap : Int)
  refine ⟨Heap.c05_pq_new_wf _ _, ?_, ?_⟩
  · simp only [absQ, h.2.1, List.map_nil]; exact List.Perm.refl _
  · rw [h.1]; simp only [Heap.Spec.normCap]; split <;> omega

/-- **One step of the composed system is the same step of the DelayQueue model** (the guards the
    model puts on the label-chosen heap answers hold for the real heap's answers, and the model's
    branch of `Enqueue` is the one the heap's error value selects), **and the coupling is preserved**. -/
theorem c08_heap_step_sim (P : Params) (C : Coding Elem) {s s' : State} {pq pq' : PQ} {l : Label} {g : Nat}
    (hc : Coupled P C s pq) (h : stepH P C (s, pq) (l, g) = some (s', pq')) :
    step P s l = some s' ∧ Coupled P C s' pq' := by
  have hother : ∀ {s'' : State}, step P s l = some s'' → (∀ t, l ≠ .enq t) → (∀ t y, l ≠ .pop t y) →
      Coupled P C s'' pq := by
    intro s'' hs h1 h2
    have hq : s''.q = s.q := by
      rcases step_q P s l s'' hs with hq | ⟨t, _, hl, _⟩ | ⟨t, y, hl, _⟩
      · exact hq
      · exact absurd hl (h1 t)
      · exact absurd hl (h2 t _)
    exact ⟨by rw [delayCmp_now C s''.now s.now]; exact hc.wf, by rw [hq]; exact hc.same, hc.cap⟩
  cases l with
  | enq t =>
    simp only [stepH] at h
    split at h
    · rename_i e hpc
      obtain ⟨hwf, hcap, hbr⟩ := c08_heap_enqueue C s.now P hc.wf hc.same hc.cap g e
      split at h
      · rename_i hans
        cases h
        by_cases hf : isFull P s.q = true
        · simp only [hf, if_true] at hbr
          refine ⟨by simp [step, hpc, hf], ⟨hwf, by rw [hbr.2]; exact hc.same, hcap.trans hc.cap⟩⟩
        · simp only [hf] at hbr
          rw [hbr.1] at hans; simp [enqAns] at hans
      · rename_i hans
        cases h
        by_cases hf : isFull P s.q = true
        · simp only [hf, if_true] at hbr
          rw [hbr.1] at hans; simp [enqAns] at hans
        · simp only [hf] at hbr
          refine ⟨by simp [step, hpc, hf], ⟨hwf, hbr.2, hcap.trans hc.cap⟩⟩
      · cases h
    · cases h
  | peek t hh =>
    simp only [stepH] at h
    split at h
    · rename_i hpc
      obtain ⟨h0, hans, hsame, hguard⟩ := c08_heap_peek C s.now hc.wf hc.same g
      split at h
      · rename_i heq
        rw [hans] at heq
        cases heq
        have hst : step P s (.peek t hh) = some s' := by
          cases hh with
          | none =>
            simp only [Option.some.injEq, Prod.mk.injEq] at h
            simp [step, hpc, hguard, ← h.1]
          | some y =>
            simp only at hguard
            by_cases hd : y.dl ≤ s.now
            · simp only [hd, if_true, Option.some.injEq, Prod.mk.injEq] at h
              simp [step, hpc, hguard, hd, ← h.1]
            · simp only [hd, if_false, Option.some.injEq, Prod.mk.injEq] at h
              simp [step, hpc, hguard, hd, ← h.1]
        have hpq : pq' = pq := by
          cases hh with
          | none => simp only [Option.some.injEq, Prod.mk.injEq] at h; rw [← h.2, hsame]
          | some y => simp only at h; split at h <;> (simp only [Option.some.injEq, Prod.mk.injEq] at h; rw [← h.2, hsame])
        exact ⟨hst, hpq ▸ hother hst (fun _ => by simp) (fun _ _ => by simp)⟩
      · cases h
    · cases h
  | repeek t hh =>
    simp only [stepH] at h
    split at h
    · rename_i hpc
      obtain ⟨h0, hans, hsame, hguard⟩ := c08_heap_peek C s.now hc.wf hc.same g
      split at h
      · rename_i heq
        rw [hans] at heq
        cases heq
        have hst : step P s (.repeek t hh) = some s' := by
          cases hh with
          | none =>
            simp only [Option.some.injEq, Prod.mk.injEq] at h
            simp [step, hpc, hguard, ← h.1]
          | some y =>
            simp only at hguard
            by_cases hd : y.dl ≤ s.now
            · simp only [hd, if_true, Option.some.injEq, Prod.mk.injEq] at h
              simp [step, hpc, hguard, hd, ← h.1]
            · simp only [hd, if_false, Option.some.injEq, Prod.mk.injEq] at h
              simp [step, hpc, hguard, hd, ← h.1]
        have hpq : pq' = pq := by
          cases hh with
          | none => simp only [Option.some.injEq, Prod.mk.injEq] at h; rw [← h.2, hsame]
          | some y => simp only at h; split at h <;> (simp only [Option.some.injEq, Prod.mk.injEq] at h; rw [← h.2, hsame])
        exact ⟨hst, hpq ▸ hother hst (fun _ => by simp) (fun _ _ => by simp)⟩
      · cases h
    · cases h
  | pop t hh =>
    simp only [stepH] at h
    split at h
    · rename_i x0 hpc
      obtain ⟨h0, hans, hwf, hcap, hguard⟩ := c08_heap_dequeue C s.now hc.wf hc.same g
      split at h
      · rename_i heq
        rw [hans] at heq
        cases heq
        cases hh with
        | none =>
          simp only [Option.some.injEq, Prod.mk.injEq] at h
          simp only at hguard
          refine ⟨by simp [step, hpc, hguard.1, ← h.1], ?_⟩
          rw [← h.1, ← h.2, hguard.2]
          exact ⟨hc.wf, hc.same, hc.cap⟩
        | some y =>
          simp only [Option.some.injEq, Prod.mk.injEq] at h
          simp only at hguard
          refine ⟨by simp [step, hpc, hguard.1, ← h.1], ?_⟩
          rw [← h.1, ← h.2]
          exact ⟨hwf, hguard.2, hcap.trans hc.cap⟩
      · cases h
    · cases h
  | _ =>
    simp only [stepH] at h
    first
      | (cases hs : step P s _ with
          | none => rw [hs] at h; cases h
          | some s1 =>
            rw [hs] at h
            simp only [Option.map_some, Option.some.injEq, Prod.mk.injEq] at h
            obtain ⟨rfl, rfl⟩ := h
            exact ⟨rfl, hother hs (fun _ => by simp) (fun _ _ => by simp)⟩)

/-- **Every run of the DelayQueue over the real heap is a run of the DelayQueue model with the same
    labels, and the coupling holds at its end.** -/
theorem c08_heap_run_projects (P : Params) (C : Coding Elem) (ls : List (Label × Nat)) {s s' : State}
    {pq pq' : PQ} (hc : Coupled P C s pq) (h : (sysH P C).run (s, pq) ls = some (s', pq')) :
    (sys P).toSystem.run s (ls.map (·.1)) = some s' ∧ Coupled P C s' pq' := by
  induction ls generalizing s pq with
  | nil =>
    simp only [System.run, Option.some.injEq, Prod.mk.injEq] at h
    obtain ⟨rfl, rfl⟩ := h
    exact ⟨rfl, hc⟩
  | cons lg rest ih =>
    obtain ⟨l, g⟩ := lg
    simp only [System.run] at h
    cases hs : (sysH P C).step (s, pq) (l, g) with
    | none => rw [hs] at h; cases h
    | some x1 =>
      obtain ⟨s1, pq1⟩ := x1
      rw [hs] at h
      obtain ⟨h1, h2⟩ := c08_heap_step_sim P C hc hs
      obtain ⟨h3, h4⟩ := ih h2 h
      refine ⟨?_, h4⟩
      simp only [List.map_cons, System.run]
      have : (sys P).toSystem.step s l = some s1 := h1
      rw [this]
      exact h3

/-- in every reachable state of the composed system: the model's state is reachable in the model,
    the heap is well formed, holds exactly the model's queue, and has the model's capacity -/
theorem c08_heap_reachable (P : Params) (C : Coding Elem) (x : State × PQ) (hr : (sysH P C).Reachable x) :
    (sys P).Reachable x.1 ∧ Coupled P C x.1 x.2 := by
  obtain ⟨ls, hrun⟩ := System.run_of_reachable _ hr
  obtain ⟨s, pq⟩ := x
  obtain ⟨h1, h2⟩ := c08_heap_run_projects P C ls (coupled_init P C) hrun
  exact ⟨System.reachable_of_run _ _ System.Reachable.init h1, h2⟩

/-- **The heap never sends the DelayQueue into the unmodelled arm, and never blocks it**: at each of
    the four heap-facing program points, for every growth choice, the composed system has a step —
    for `Enqueue` the label `enq t`, for `Peek`/`Dequeue` the label carrying the heap's answer. -/
theorem c08_heap_never_refuses (P : Params) (C : Coding Elem) {s : State} {pq : PQ} (hc : Coupled P C s pq)
    (t g : Nat) :
    (∀ e, s.pc t = .eCrit e → (stepH P C (s, pq) (.enq t, g)).isSome = true) ∧
    (s.pc t = .dPeek → ∃ h, (stepH P C (s, pq) (.peek t h, g)).isSome = true) ∧
    (s.pc t = .dRepeek → ∃ h, (stepH P C (s, pq) (.repeek t h, g)).isSome = true) ∧
    (∀ x, s.pc t = .dPop x → ∃ h, (stepH P C (s, pq) (.pop t h, g)).isSome = true) := by
  refine ⟨fun e hpc => ?_, fun hpc => ?_, fun hpc => ?_, fun x hpc => ?_⟩
  · obtain ⟨_, _, hbr⟩ := c08_heap_enqueue C s.now P hc.wf hc.same hc.cap g e
    by_cases hf : isFull P s.q = true
    · simp only [hf, if_true] at hbr
      simp [stepH, hpc, hbr.1, enqAns]
    · simp only [hf] at hbr
      simp [stepH, hpc, hbr.1, enqAns]
  · obtain ⟨h, hans, _, _⟩ := c08_heap_peek C s.now hc.wf hc.same g
    refine ⟨h, ?_⟩
    simp only [stepH, hpc, hans, if_true]
    cases h with
    | none => rfl
    | some y => simp only; split <;> rfl
  · obtain ⟨h, hans, _, _⟩ := c08_heap_peek C s.now hc.wf hc.same g
    refine ⟨h, ?_⟩
    simp only [stepH, hpc, hans, if_true]
    cases h with
    | none => rfl
    | some y => simp only; split <;> rfl
  · obtain ⟨h, hans, _, _⟩ := c08_heap_dequeue C s.now hc.wf hc.same g
    refine ⟨h, ?_⟩
    simp only [stepH, hpc, hans, if_true]
    cases h <;> rfl

/-! ## the C08 theorems, for the DelayQueue over the real heap -/

/-- the linearizability theorem of C08 with the real heap inside: every history of every run of the
    composed system (any threads, schedule, timing, timer discipline, capacity, growth choices) is a
    history of the atomic timed specification -/
theorem c08_heap_linearizable_timed (P : Params) (C : Coding Elem) (ls : List (Label × Nat)) (x : State × PQ)
    (hrun : (sysH P C).run (sysH P C).init ls = some x) :
    Linearizable (timedSpec P) ((sys P).history (ls.map (·.1))) := by
  obtain ⟨s, pq⟩ := x
  exact c08_linearizable_timed P _ s (c08_heap_run_projects P C ls (coupled_init P C) hrun).1

/-- "the bounded variant never holds more than its capacity", about the heap array itself -/
theorem c08_heap_bounded_len_le_cap (P : Params) (C : Coding Elem) (x : State × PQ)
    (hr : (sysH P C).Reachable x) (hcap : 0 < P.cap) : x.2.len ≤ (P.cap : Int) := by
  obtain ⟨_, hc⟩ := c08_heap_reachable P C x hr
  obtain ⟨h1, h2⟩ := c08_heap_len_le_cap C x.1.now P hc.wf hc.same hc.cap
  have := h2 hcap
  omega

/-- the element the heap hands to a successful `pop` is expired and of minimal deadline among the
    heap's cells (C08's `dequeue_expired` / `dequeue_earliest`, read on the heap) -/
theorem c08_heap_pop_expired_earliest (P : Params) (C : Coding Elem) (x x' : State × PQ)
    (hr : (sysH P C).Reachable x) (t g : Nat) (y : Elem)
    (h : stepH P C x (.pop t (some y), g) = some x') :
    y.dl ≤ x.1.now ∧ y ∈ absQ C x.2 ∧ ∀ z ∈ absQ C x.2, y.dl ≤ z.dl := by
  obtain ⟨s, pq⟩ := x
  obtain ⟨s', pq'⟩ := x'
  obtain ⟨hr1, hc⟩ := c08_heap_reachable P C _ hr
  obtain ⟨hst, _⟩ := c08_heap_step_sim P C hc h
  obtain ⟨h1, h2⟩ := c08_dequeue_earliest P s s' t y hst
  exact ⟨c08_dequeue_expired P s s' t y hr1 hst, hc.same.mem_iff.mpr h1,
    fun z hz => h2 z (hc.same.mem_iff.mp hz)⟩

/-! ## non-vacuity -/

/-- a concrete coding of `(id, dl)` -/
def elemCoding : Coding Elem :=
  Coding.natPair.comap (fun x => (x.id, x.dl)) (fun p => ⟨p.1, p.2⟩) (fun _ => rfl)

/-- two elements with the SAME deadline and one later one go through the real heap; the bounded
    queue refuses a fourth; after the clock has passed 5 a consumer peeks and pops a minimum -/
example :
    (((sysH ⟨.sync, 3⟩ elemCoding).run (sysH ⟨.sync, 3⟩ elemCoding).init
        ((soloEnqOk 1 ⟨1, 9⟩ ++ soloEnqOk 1 ⟨2, 5⟩ ++ soloEnqOk 1 ⟨3, 5⟩ ++
          ([.invEnq 4 ⟨4, 1⟩, .ctxOk 4, .lock 4, .enq 4, .fetch 4, .unlock 4, .tick 6] : List Label) ++
          ([.invDeq 2, .ctxOk 2, .lock 2, .peek 2 (some ⟨2, 5⟩), .pop 2 (some ⟨2, 5⟩)] : List Label)).map (·, 0))).map
      fun x => (x.1.q, absQ elemCoding x.2, x.1.pc 4, x.1.pc 2)) =
    some ([⟨3, 5⟩, ⟨1, 9⟩], [⟨3, 5⟩, ⟨1, 9⟩], .eWait ⟨4, 1⟩ 0, .bSwap .deqSig (.deqOk ⟨2, 5⟩)) := by decide

/-- an answer the heap does not give is not a step: the label may not invent the head -/
example :
    ((sysH ⟨.sync, 0⟩ elemCoding).run (sysH ⟨.sync, 0⟩ elemCoding).init
        ((soloEnqOk 1 ⟨1, 9⟩ ++ soloEnqOk 1 ⟨2, 5⟩ ++
          ([.invDeq 2, .ctxOk 2, .lock 2, .peek 2 (some ⟨1, 9⟩)] : List Label)).map (·, 0))).isSome = false := by decide

end Ekit.DelayQ

/-! ## Herlihy–Wing form -/
namespace Ekit.Props.HWForms
open Ekit.Conc Ekit.DelayQ
open Ekit.Heap (PQ Coding)

theorem c08_heap_hw_linearizable_timed (P : Params) (C : Coding Elem) (ls : List (Label × Nat)) (x : State × PQ)
    (hrun : (sysH P C).run (sysH P C).init ls = some x) :
    HW.WellFormed ((sys P).history (ls.map (·.1))) ∧
      HW.HWLinearizable (timedSpec P) ((sys P).history (ls.map (·.1))) :=
  (c08_heap_linearizable_timed P C ls x hrun).hw

end Ekit.Props.HWForms
