/-
C01 at the pointer level, unconditional: for every lawful comparator and every history of Add/Delete/Find/Set from
`NewRBTree` there is a fuel bound above which the interpreter running the translated internal/tree/red_black_tree.go
completes the history, returns exactly what the abstract sorted map returns and ends with exactly its entries.
-/
import Ekit.Props.C01Ptr
import Ekit.Props.C02Total

namespace Ekit.MiniGo.RBHeap
open Ekit.MiniGo Ekit.Gen.RBTreeGo

theorem runOpsR_of_runOps (cmpF : Int → Int → Int) (fuel : Nat) (ops : List POp) :
    ∀ st st', runOps cmpF fuel st ops = some st' → ∃ rs, runOpsR cmpF fuel st ops = some (st', rs) := by
  induction ops with
  | nil => intro st st' h; simp [runOps] at h; subst h; exact ⟨[], rfl⟩
  | cons op ops ih =>
    intro st st' h
    simp only [runOps] at h
    cases h1 : op.run cmpF fuel st with
    | error e => simp [h1] at h
    | ok r1 =>
      obtain ⟨r, st1⟩ := r1
      rw [h1] at h
      obtain ⟨rs, hrs⟩ := ih st1 st' h
      exact ⟨r :: rs, by simp [runOpsR, h1, hrs]⟩

/-- C01: every history of the translated tree, run with enough fuel, completes and computes the abstract sorted map -/
theorem c01_ptr_history_total_refines (cmpF : Int → Int → Int) (hLaw : Ekit.RB.LawfulCmp cmpF) (ops : List POp) :
    ∃ F st rs, (∀ fuel, F ≤ fuel → runOps cmpF fuel newTree ops = some st) ∧
      runOpsR cmpF F newTree ops = some (st, rs) ∧
      ∃ t, Holds st t ∧
        entries st t = (Ekit.RB.SMap.run cmpF [] (ops.map POp.toTreeOp)).1 ∧
        Forall₂ RetIs (Ekit.RB.SMap.run cmpF [] (ops.map POp.toTreeOp)).2 rs := by
  obtain ⟨F, st, h⟩ := c02_ptr_history_total cmpF ops
  obtain ⟨rs, hrs⟩ := runOpsR_of_runOps cmpF F ops newTree st (h F (Nat.le_refl _))
  have hH0 : Holds newTree .leaf := ⟨by simp [Repr, newTree], by simp [PT.addrs], by simp [PT.addrs]⟩
  have hO0 : Ordered cmpF newTree .leaf := by simp [Ordered, keysOf, PT.addrs]
  obtain ⟨t, hH, _, hE, hR⟩ := c01_ptr_run_refines cmpF hLaw F ops newTree .leaf hH0 hO0 st rs hrs
  have he : entries newTree .leaf = [] := by simp [entries, PT.addrs]
  rw [he] at hE hR
  exact ⟨F, st, rs, h, hrs, t, hH, hE, hR⟩

end Ekit.MiniGo.RBHeap
