/-
C17 — AnyValue accessors are total and exact: the right value or an error.

  "For any held value, every AnyValue accessor either returns an error or returns precisely the value
   denoted: the held value when it has exactly the requested type, or - for the As conversions - the
   number a decimal string denotes if and only if it fits the target type, and the exact decimal text of
   an integer; never a truncated or wrapped number, and never a panic. A stored Err is always returned
   unchanged, and each OrDefault form returns the default exactly when the strict accessor would fail."

The theorems are about `Ekit.Value.run` / `runRow` / `runAsString` / `runDef` / `runJSONScan` (the
interpreter the driver executes in `model` mode) applied to `Ekit.Gen.valueTable`, **the table
regenerated from /repo/value.go on every run** — so `c17_table_sound` is re-decided against what the code
says now — and about `parseInt` / `parseUint` / `formatInt` (the strconv model).

Not proved here (oracle parameters, compared bit-for-bit with strconv / encoding/json by the harness):
strconv.ParseFloat, strconv.FormatFloat, float32<->float64 conversion, json.Unmarshal. For those only
the dispatch / Err / default logic is covered.
-/
import Ekit.Lemmas.ValueRun
import Ekit.Generated.ValueTable

namespace Ekit.Value
open Ekit.Go Spec Ekit.Gen

/-! ### the regenerated table -/

/-- Everything the other theorems need from value.go, decided on the regenerated table: every accessor
starts with the `Err` guard, uses the comma-ok assertion / a type switch on exactly its result type,
its `case string` calls the strconv function of the right signedness with base 10 and **bit size =
width of the conversion target**, converts to the result type; every OrDefault form consults the strict
accessor of its own type; AsString switches on `valueOf.Kind()` with the integer kinds on
FormatInt/FormatUint base 10, strings as is, `default` an error; JSONScan propagates AsBytes' error;
nothing in the file was left unclassified. -/
theorem c17_table_sound : valueTable.sound = true := by decide

def Conv.bitSize : Conv → Option Nat
  | .parseInt _ b => some b
  | .parseUint _ b => some b
  | .parseFloat b => some b
  | .toBytes => none

/-- width of the type the parsed number is converted to (`T(res)`; the direct `return strconv.ParseX(…)`
forms return the 64-bit result unchanged) -/
def StrCase.castWidth (sc : StrCase) : Option Nat :=
  match sc.cast, sc.conv with
  | some (.i t), _ => some t.bits
  | some .float32, _ => some 32
  | some .float64, _ => some 64
  | none, .toBytes => none
  | none, _ => some 64
  | _, _ => some 0

/-- `table_sound` in the form of DESIGN §5: for every row the bit size handed to strconv equals the
width of the conversion applied to the result (this is the statement that fails for
`ParseInt(v, 10, 64)` followed by `int8(res)`). -/
theorem c17_bitSize_eq_castWidth :
    ∀ row ∈ valueRows, ∀ sc, row.str = some sc → Conv.bitSize sc.conv = sc.castWidth := by decide

/-- the table has an entry for every method the specification knows (so `run … = some _` below is not vacuous) -/
theorem c17_table_complete :
    (∀ name ∈ ["Int", "Int8", "Int16", "Int32", "Int64", "Uint", "Uint8", "Uint16", "Uint32", "Uint64", "Float32",
        "Float64", "String", "Bytes", "Bool", "AsInt", "AsInt8", "AsInt16", "AsInt32", "AsInt64", "AsUint", "AsUint8",
        "AsUint16", "AsUint32", "AsUint64", "AsFloat32", "AsFloat64", "AsBytes"],
      (valueRows.find? (·.name = name)).isSome = true) ∧
    (∀ name ∈ ["IntOrDefault", "Int8OrDefault", "Int16OrDefault", "Int32OrDefault", "Int64OrDefault", "UintOrDefault",
        "Uint8OrDefault", "Uint16OrDefault", "Uint32OrDefault", "Uint64OrDefault", "Float32OrDefault",
        "Float64OrDefault", "StringOrDefault", "BytesOrDefault", "BoolOrDefault"],
      (valueDefs.find? (·.name = name)).isSome = true) := by decide

/-! ### strconv -/

/-- **parse_exact** ("the number a decimal string denotes if and only if it fits the target type"):
ParseInt(s, 10, bits) succeeds with `v` iff `s` is `[+-]?[0-9]+`, denotes `v`, and
`-2^(bits-1) ≤ v < 2^(bits-1)`; for every string and every bit size 2..64. -/
theorem c17_parse_exact (s : Str) (bits : Nat) (v : Int) (h2 : 2 ≤ bits) (h64 : bits ≤ 64) :
    parseInt s 10 bits = (v, none) ↔ denoteS s = some v ∧ fitsS bits v :=
  parseInt_exact s bits v h2 h64

/-- parse_exact, unsigned: ParseUint(s, 10, bits) succeeds with `v` iff `s` is `[0-9]+`, denotes `v`, `v < 2^bits`. -/
theorem c17_parseUint_exact (s : Str) (bits v : Nat) (h1 : 1 ≤ bits) (h64 : bits ≤ 64) :
    parseUint s 10 bits = (v, none) ↔ denoteU s = some v ∧ v < 2 ^ bits :=
  parseUint_exact s bits v h1 h64

/-- **cast_exact** ("never a truncated or wrapped number"): Go's conversion `T(res)` is the identity on
values that fit `T` (and always lands in `T`). -/
theorem c17_cast_exact (t : IntT) (v : Int) : (t.fits v → t.wrap v = v) ∧ t.fits (t.wrap v) :=
  ⟨wrap_of_fits t v, wrap_fits t v⟩

/-- FormatInt(v, 10) is *the* canonical decimal numeral of `v`: it denotes `v`, has no `+`, no leading
zeros, no `-0`. -/
theorem c17_format_canonical (v : Int) : canonical (formatInt 10 v) v := formatInt_canonical v

/-- … and the only one: "the exact decimal text of an integer" determines the string. -/
theorem c17_canonical_unique (s : Str) (v : Int) (h : canonical s v) : s = formatInt 10 v :=
  canonical_unique s v h

/-! ### the accessors of the regenerated table -/

theorem valueRows_sound : ∀ r ∈ valueRows, r.sound = true := (Table.sound_elim c17_table_sound).1

/-- "the held value when it has exactly the requested type": every strict and `As` accessor returns the
held value itself when its dynamic type is identical to the accessor's result type; a strict accessor
returns an error for every other held value (nil, defined types, other kinds, pointers, …). -/
theorem c17_exact_type (o : Oracle) :
    ∀ r ∈ valueRows, ∀ (h : Held),
      (∀ v, typeAssert r.ret h = some v → runRow o r ⟨h, none⟩ = .ok v) ∧
      (r.str = none → typeAssert r.ret h = none → runRow o r ⟨h, none⟩ = .err errType) := by
  intro r hr h
  have hs := valueRows_sound r hr
  exact ⟨fun v ht => runRow_exact o hs h v ht, fun hstr ht => runRow_strict_err o hs hstr h ht⟩

/-- **asIntN_exact** (parse_exact + cast_exact + table_sound): for every integer `As` accessor of the
table, every string `s` and every `v`: the accessor applied to the held string `s` returns `v` iff
`s` is a decimal numeral (strconv's grammar for the target's signedness) denoting `v` and `v` fits the
target type; and when no such `v` exists it returns an error. -/
theorem c17_asIntN_exact (o : Oracle) :
    ∀ r ∈ valueRows, ∀ (t : IntT) (sc : StrCase), r.ret = .i t → r.str = some sc → ∀ (s : Str),
      (∀ v, runRow o r ⟨.str false s, none⟩ = .ok (.int v) ↔ (denote t.signed s = some v ∧ t.fits v)) ∧
      ((¬ ∃ v, denote t.signed s = some v ∧ t.fits v) → (runRow o r ⟨.str false s, none⟩).isErr = true) := by
  intro r hr t sc hret hstr s
  have hs := valueRows_sound r hr
  obtain ⟨_, _, _, hcase⟩ := Row.sound_elim hs
  have hsf : sc.soundFor (.i t) = true := by
    rcases hcase with ⟨hn, _⟩ | ⟨sc', hs', _, _, _, _, hsf⟩
    · rw [hn] at hstr; simp at hstr
    · rw [hs'] at hstr; cases hstr; rw [hret] at hsf; exact hsf
  have hta : typeAssert r.ret (.str false s) = none := by rw [hret]; simp [typeAssert]
  rw [runRow_plain_string o hs hstr s hta]
  rcases runStr_int o hsf s with ⟨v, hd, hf, hrun⟩ | ⟨hno, e, hrun⟩
  · refine ⟨fun v' => ?_, fun hno => absurd ⟨v, hd, hf⟩ hno⟩
    rw [hrun]
    constructor
    · intro h; cases h; exact ⟨hd, hf⟩
    · intro ⟨hd', _⟩; rw [hd] at hd'; cases hd'; rfl
  · refine ⟨fun v' => ?_, fun _ => by rw [hrun]; rfl⟩
    rw [hrun]
    constructor
    · intro h; cases h
    · intro h; exact absurd ⟨v', h⟩ hno

/-- "the exact decimal text of an integer": AsString of a held integer of any kind (predeclared or
defined type) is FormatInt's canonical numeral of its value. -/
theorem c17_asString_exact_text (o : Oracle) (t : IntT) (named : Bool) (v : Int) (hwf : t.fits v) :
    runAsString o valueAsString ⟨.int t named v, none⟩ = .ok (.str (formatInt 10 v)) ∧
    canonical (formatInt 10 v) v :=
  ⟨runAsString_int o (Table.sound_elim c17_table_sound).2.2.1 t named v hwf, formatInt_canonical v⟩

/-- **format_parse_roundtrip**: the text AsString produces for an integer that fits type `t` is read
back to the same integer by the `As` accessor for `t`. -/
theorem c17_format_parse_roundtrip (o : Oracle) :
    ∀ r ∈ valueRows, ∀ (t : IntT) (sc : StrCase), r.ret = .i t → r.str = some sc → ∀ (v : Int), t.fits v →
      runRow o r ⟨.str false (formatInt 10 v), none⟩ = .ok (.int v) := by
  intro r hr t sc hret hstr v hf
  refine ((c17_asIntN_exact o r hr t sc hret hstr (formatInt 10 v)).1 v).mpr ⟨?_, hf⟩
  unfold denote
  cases hs : t.signed with
  | true => simp [denoteS_formatInt]
  | false =>
    have h0 : 0 ≤ v := by simp [IntT.fits, hs, fitsU] at hf; exact hf.1
    simp [formatInt_nonneg h0, denoteU_formatNat]
    omega

/-- **err_passthrough**: "A stored Err is always returned unchanged" — by every strict accessor, every
`As` accessor, AsString and JSONScan, whatever the held value. -/
theorem c17_err_passthrough (o : Oracle) (h : Held) (e : Err) (call : Call)
    (hcall : ∀ n d, call ≠ .orDefault n d) (out : Out)
    (hr : run o valueTable ⟨h, some e⟩ call = some out) : out = .err e :=
  run_stored o c17_table_sound h e call hcall out hr

/-- **orDefault_iff_err**: "each OrDefault form returns the default exactly when the strict accessor
would fail": every OrDefault row consults a strict accessor `r` of its own result type, returns `r`'s
value when `r` succeeds and the default when `r` returns an error (stored Err included). -/
theorem c17_orDefault_iff_err (o : Oracle) :
    ∀ d ∈ valueDefs, ∀ (av : AnyValue) (dv : Val),
      ∃ r, valueRows.find? (·.name = d.via) = some r ∧ r.str = none ∧ r.ret = d.ret ∧
        ((∃ v, runRow o r av = .ok v ∧ runDef o valueTable d av dv = .ok v) ∨
         ((runRow o r av).isErr = true ∧ runDef o valueTable d av dv = .ok dv)) := by
  intro d hd av dv
  exact runDef_spec o ((Table.sound_elim c17_table_sound).2.1 d hd) av dv

/-- **accessor_total**: "never a panic" — no accessor, OrDefault form or JSONScan panics for any held
value (nil, typed nils, pointers, … included) and any stored Err. (json.Unmarshal is an oracle; it is
assumed not to panic itself.) -/
theorem c17_accessor_total (o : Oracle) (ho : ∀ b t, (o.unmarshal b t).isPanic = false)
    (av : AnyValue) (call : Call) (out : Out) (hr : run o valueTable av call = some out) :
    out.isPanic = false :=
  run_nopanic o ho c17_table_sound av call out hr

/-- **the model satisfies the specification** the driver uses as oracle in `spec` mode: for every held
value with in-range integers, every call and every oracle, the outcome computed by the table
interpreter is one that `Spec.judge` allows. -/
theorem c17_refines_spec (o : Oracle) (av : AnyValue) (hwf : av.val.wf) (call : Call) (out : Out)
    (hr : run o valueTable av call = some out) :
    ∃ vd, judge o av call = some vd ∧ vd.accepts out = true :=
  run_refines o c17_table_sound av hwf call out hr

/-! ### non-vacuity -/

def dummyOracle : Oracle :=
  { parseFloat := fun _ _ => (0, some .syntax), narrow32 := id, widen32 := id,
    formatFloat := fun _ _ _ _ => [], unmarshal := fun _ _ => .err errJSON }

/-- "128" is a numeral that does not fit int8: AsInt8 reports a range error, AsInt16 returns 128 -/
example : run dummyOracle valueTable ⟨.str false [49, 50, 56], none⟩ (.acc "AsInt8") = some (.err errRange) := by decide
example : run dummyOracle valueTable ⟨.str false [49, 50, 56], none⟩ (.acc "AsInt16") = some (.ok (.int 128)) := by decide
example : run dummyOracle valueTable ⟨.str false [45, 49, 50, 56], none⟩ (.acc "AsInt8") = some (.ok (.int (-128))) := by decide
example : run dummyOracle valueTable ⟨.str false [43, 53], none⟩ (.acc "AsUint8") = some (.err errSyntax) := by decide
/-- a nil held value: AsString returns an error, does not panic -/
example : run dummyOracle valueTable ⟨.nil, none⟩ (.acc "AsString") = some (.err errType) := by decide
example : formatInt 10 (-128) = [45, 49, 50, 56] := by
  have h : (-(-128 : Int)).toNat = 128 := by decide
  unfold formatInt
  simp only [h]
  rw [formatNat_ge (by decide), formatNat_ge (by decide), formatNat_lt (by decide)]
  decide
example : runAsString dummyOracle valueAsString ⟨.int .int8 false (-128), none⟩ = .ok (.str (formatInt 10 (-128))) :=
  (c17_asString_exact_text dummyOracle .int8 false (-128) (by decide)).1
example : run dummyOracle valueTable ⟨.int .int8 false 5, some errOther⟩ (.acc "Int8") = some (.err errOther) := by decide
example : run dummyOracle valueTable ⟨.int .int8 true 5, none⟩ (.orDefault "Int8OrDefault" (.int 7)) = some (.ok (.int 7)) := by decide
example : denoteS [45, 49, 50, 56] = some (-128) ∧ fitsS 8 (-128) ∧ ¬ fitsS 8 128 := by decide
example : (Held.int .int8 false 127).wf := by simp only [Held.wf]; decide

end Ekit.Value
