/-
C01 — review additions (adversarial review of Props/C01.lean).

Gaps closed here:
* "a call that reports failure … changes nothing" was proved for RBTree only
  (`c01_failed_call_unchanged`).  Here: TreeMap, MultiMap (unconditionally) and LinkedMap (under its
  invariant — the model has a branch `cellOf = none` that decrements `length` and answers "absent";
  it is proved unreachable), and lookups never change anything.
* every-history-from-the-constructor corollaries for TreeMap / TreeSet / MultiMap (the originals are
  stated from an arbitrary well-formed state only) and the `Keys`/`Values`/`Len` clause on the
  TreeMap itself: `Keys` strictly ascending, `Values` aligned with `Keys`, `Len = len(Keys)`.
* sanity of the SPECIFICATION (a refinement of a wrong spec proves nothing): the abstract sorted map
  stays strictly sorted under every history, holds at most one entry per comparator-class
  ("exactly once"), and obeys the map laws get-after-put / get-after-delete / other keys untouched.
* "first-insertion order" end-to-end on the MODEL states (the original is about the spec `OMap` only).
* non-vacuity examples for the wrappers (linked order after overwrite + delete + reinsert, multimap
  append, tree set with a comparator coarser than equality).
-/
import Ekit.Props.C01

namespace Ekit.RB
variable {α β : Type} {cmp : α → α → Int}

/-! #### failing / read-only calls change nothing — the wrappers -/

/-- TreeMap: `Get` never changes the map; a `Delete` that reports "absent" changes nothing
    (identical tree: shape, colours, values, size).  No hypothesis at all. -/
theorem c01_treemap_failed_call_unchanged (t : RBTree α β) (k : α) :
    (TreeMap.step cmp t (.get k)).1 = t ∧
    ((TreeMap.step cmp t (.delete k)).2 = .none → (TreeMap.step cmp t (.delete k)).1 = t) ∧
    (TreeMap.step cmp t .keys).1 = t ∧ (TreeMap.step cmp t .values).1 = t ∧ (TreeMap.step cmp t .len).1 = t := by
  refine ⟨?_, ?_, rfl, rfl, rfl⟩
  · simp only [TreeMap.step, RBTree.step]
    cases Tree.find cmp k t.root <;> rfl
  · intro h
    exact c01_failed_call_unchanged t (.delete k) (Or.inr (Or.inr h))

/-- `Put` on a TreeMap never reports an error (so there is no failing `Put` to worry about) — from a
    well-formed state. -/
theorem c01_treemap_put_ok (hc : LawfulCmp cmp) (t : RBTree α β) (hw : t.WF cmp) (k : α) (v : β) :
    (TreeMap.step cmp t (.put k v)).2 = .ok := by
  have := (pair_eq (TreeMap.step_refines hc t hw (.put k v)).1).2
  rw [this]
  simp only [SMap.mstep]
  cases SMap.lookup cmp k t.root.toList <;> rfl

/-- MultiMap over a TreeMap: `Get` never changes it, a `Delete` reporting "absent" changes nothing. -/
theorem c01_multimap_failed_call_unchanged {γ : Type} (t : RBTree α (List γ)) (k : α) :
    (MultiMap.step cmp t (.get k)).1 = t ∧
    ((MultiMap.step cmp t (.delete k)).2 = .none → (MultiMap.step cmp t (.delete k)).1 = t) :=
  ⟨(c01_treemap_failed_call_unchanged t k).1, (c01_treemap_failed_call_unchanged t k).2.1⟩

/-- LinkedMap over a TreeMap: `Get` never changes it; a `Delete` reporting "absent" leaves index tree,
    cell list and `length` identical.  (The model's `cellOf = none` branch, which would decrement
    `length` while answering "absent", is unreachable under the invariant.) -/
theorem c01_linked_failed_call_unchanged (hc : LawfulCmp cmp) (s : LinkedMap α β) (hi : s.Inv cmp) (k : α) :
    (s.step cmp (.get k)).1 = s ∧
    ((s.step cmp (.delete k)).2 = .none → (s.step cmp (.delete k)).1 = s) := by
  constructor
  · simp only [LinkedMap.step]
    generalize TreeMap.step cmp s.m (.get k) = g
    obtain ⟨g1, g2⟩ := g
    cases g2 <;> (try cases LinkedMap.cellOf cmp k s.cells) <;> rfl
  · obtain ⟨hw, hsame, hdist, hlen⟩ := hi
    have hd := (pair_eq (TreeMap.step_refines hc s.m hw (.delete k)).1).2
    simp only [LinkedMap.step]
    cases hl : SMap.lookup cmp k s.m.root.toList with
    | none =>
      simp only [SMap.mstep, hl] at hd
      generalize TreeMap.step cmp s.m (.delete k) = g at hd
      obtain ⟨g1, g2⟩ := g
      simp only at hd
      subst hd
      intro _; rfl
    | some p =>
      simp only [SMap.mstep, hl] at hd
      generalize TreeMap.step cmp s.m (.delete k) = g at hd
      obtain ⟨g1, g2⟩ := g
      simp only at hd
      subst hd
      have hh : SMap.Has cmp k s.cells := (hsame k).1 (SMap.isSome_lookup.1 (by simp [hl]))
      obtain ⟨q, hq⟩ := Option.isSome_iff_exists.1 (SMap.isSome_lookup.2 hh)
      have hc' : LinkedMap.cellOf cmp k s.cells = some q := hq
      simp only [hc']
      intro h; cases h

/-! #### every history from the constructor -/

theorem c01_treemap_run_refines_empty (hc : LawfulCmp cmp) (ops : List (MapOp α β)) :
    ((TreeMap.run cmp (RBTree.empty : RBTree α β) ops).1.root.toList, (TreeMap.run cmp RBTree.empty ops).2)
      = SMap.mrun cmp [] ops :=
  (c01_treemap_run_refines hc RBTree.empty RBTree.wf_empty ops).1

theorem c01_treeset_run_refines_empty (hc : LawfulCmp cmp) (ops : List (SetOp α)) :
    ((TreeSet.run cmp (RBTree.empty : RBTree α Unit) ops).1.root.toList, (TreeSet.run cmp RBTree.empty ops).2)
      = SMap.srun cmp [] ops :=
  (c01_treeset_run_refines hc RBTree.empty RBTree.wf_empty ops).1

theorem c01_multimap_run_refines_empty {γ : Type} (hc : LawfulCmp cmp) (ops : List (MapOp α (List γ))) :
    ((MultiMap.run cmp (RBTree.empty : RBTree α (List γ)) ops).1.root.toList, (MultiMap.run cmp RBTree.empty ops).2)
      = SMap.multiRun cmp [] ops :=
  (c01_multimap_run_refines hc RBTree.empty RBTree.wf_empty ops).1

/-- "TreeMap.Keys/Values list every live entry exactly once in ascending comparator order", `Values`
    aligned with `Keys`, `Len` = number of keys — what the three calls RETURN after every history. -/
theorem c01_treemap_keys_values_len (hc : LawfulCmp cmp) (ops : List (MapOp α β)) :
    let t := (TreeMap.run cmp (RBTree.empty : RBTree α β) ops).1
    ∃ ks vs, (TreeMap.step cmp t .keys).2 = .keys ks ∧ (TreeMap.step cmp t .values).2 = .vals vs ∧
      (TreeMap.step cmp t .len).2 = .int ks.length ∧
      ks.Pairwise (fun a b => cmp a b < 0) ∧ ks.zip vs = t.root.toList ∧ ks.length = vs.length := by
  intro t
  have hw := (c01_treemap_run_refines hc (RBTree.empty : RBTree α β) RBTree.wf_empty ops).2
  refine ⟨t.root.toList.map (·.1), t.root.toList.map (·.2), rfl, rfl, ?_, ?_, ?_, by simp⟩
  · simp only [TreeMap.step, List.length_map]; rw [hw.size_eq]
  · exact List.pairwise_map.2 hw.ordered
  · rw [List.zip_map']
    simp

/-! helper lemmas: what a lookup of ANOTHER key sees after insert / update / erase (no sortedness needed) -/
namespace SMap

theorem lookup_insert_ne {k k' : α} {v : β} {s : List (α × β)} (hne : cmp k' k ≠ 0) :
    lookup cmp k' (insert cmp k v s) = lookup cmp k' s := by
  induction s with
  | nil => simp [insert, lookup, hne]
  | cons p rest ih =>
    simp only [insert]
    split
    · simp only [lookup, List.find?_cons]
      have : (cmp k' k == 0) = false := by simpa using hne
      simp [this]
    · simp only [lookup, List.find?_cons] at ih ⊢
      rw [ih]

theorem lookup_update_ne {k k' : α} {v : β} {s : List (α × β)} (hne : ∀ x, cmp k x = 0 → cmp k' x ≠ 0) :
    lookup cmp k' (update cmp k v s) = lookup cmp k' s := by
  induction s with
  | nil => rfl
  | cons p rest ih =>
    simp only [update, lookup, List.map_cons, List.find?_cons] at ih ⊢
    by_cases h : cmp k p.1 = 0
    · have h2 : (cmp k' p.1 == 0) = false := by simpa using hne _ h
      simp only [h, beq_self_eq_true, if_true, h2]
      exact ih
    · have h1 : (cmp k p.1 == 0) = false := by simpa using h
      simp only [h1, Bool.false_eq_true, if_false]
      rw [ih]

theorem lookup_erase_ne {k k' : α} {s : List (α × β)} (hne : ∀ x, cmp k x = 0 → cmp k' x ≠ 0) :
    lookup cmp k' (erase cmp k s) = lookup cmp k' s := by
  induction s with
  | nil => rfl
  | cons p rest ih =>
    simp only [erase, lookup] at ih ⊢
    by_cases h : cmp k p.1 = 0
    · have h2 : (cmp k' p.1 == 0) = false := by simpa using hne _ h
      rw [List.eraseP_cons_of_pos (by simpa using h)]
      simp only [List.find?_cons, h2]
    · rw [List.eraseP_cons_of_neg (by simpa using h)]
      simp only [List.find?_cons]
      rw [ih]

end SMap

/-! #### the specification itself is a sorted map -/

/-- the abstract map stays strictly sorted under every call -/
theorem c01_spec_step_sorted (hc : LawfulCmp cmp) (s : List (α × β)) (hs : SMap.Sorted cmp s) (op : TreeOp α β) :
    SMap.Sorted cmp (SMap.step cmp s op).1 := by
  cases op with
  | add k v =>
    simp only [SMap.step]
    cases hl : SMap.lookup cmp k s with
    | none => exact SMap.sorted_insert hc hs hl
    | some p => exact hs
  | set k v =>
    simp only [SMap.step]
    cases SMap.lookup cmp k s with
    | none => exact hs
    | some p => exact SMap.sorted_update hs
  | find k => simp only [SMap.step]; cases SMap.lookup cmp k s <;> exact hs
  | delete k =>
    simp only [SMap.step]
    cases SMap.lookup cmp k s with
    | none => exact hs
    | some p => exact SMap.sorted_erase hs
  | keyValues => exact hs
  | size => exact hs

/-- "exactly once": a strictly sorted list holds at most one entry per comparator-class -/
theorem c01_spec_unique (hc : LawfulCmp cmp) (s : List (α × β)) (hs : SMap.Sorted cmp s) (k : α)
    (p q : α × β) (hp : p ∈ s) (hq : q ∈ s) (hpk : cmp k p.1 = 0) (hqk : cmp k q.1 = 0) : p = q := by
  obtain ⟨xs, ys, rfl⟩ := List.append_of_mem hp
  have h1 := SMap.lookup_mid_eq hc hs (k := k) (p := p) hpk
  -- q is found by the same lookup
  have hd := hs.distinct
  rcases List.mem_append.1 hq with hx | hy
  · have := (List.pairwise_append.1 hd).2.2 q hx p (List.mem_cons_self ..)
    exact absurd (hc.eq_trans (hc.eq_symm hqk) hpk) this
  · rcases List.mem_cons.1 hy with rfl | hy'
    · rfl
    · have := (List.pairwise_cons.1 (List.pairwise_append.1 hd).2.1).1 q hy'
      exact absurd (hc.eq_trans (hc.eq_symm hpk) hqk) this

/-- map laws of the abstract `mapi` view (`Put` = insert-or-overwrite) on sorted states:
    get-after-put returns the value put; get-after-delete is absent; a `Put`/`Delete` of `k` does not
    change what `Get` answers for a key that is not comparator-equal to `k`. -/
theorem c01_spec_map_laws (hc : LawfulCmp cmp) (s : List (α × β)) (hs : SMap.Sorted cmp s) (k k' : α) (v : β) :
    (SMap.mstep cmp (SMap.mstep cmp s (.put k v)).1 (.get k)).2 = .val v ∧
    (SMap.mstep cmp (SMap.mstep cmp s (.delete k)).1 (.get k)).2 = .none ∧
    (cmp k' k ≠ 0 →
      (SMap.mstep cmp (SMap.mstep cmp s (.put k v)).1 (.get k')).2 = (SMap.mstep cmp s (.get k')).2 ∧
      (SMap.mstep cmp (SMap.mstep cmp s (.delete k)).1 (.get k')).2 = (SMap.mstep cmp s (.get k')).2) := by
  have hkk : cmp k k = 0 := hc.refl k
  refine ⟨?_, ?_, ?_⟩
  · simp only [SMap.mstep]
    cases hl : SMap.lookup cmp k s with
    | none =>
      simp only
      have hs' : SMap.Sorted cmp (SMap.insert cmp k v s) := SMap.sorted_insert hc hs hl
      obtain ⟨xs, ys, hxy⟩ := List.append_of_mem (SMap.mem_insert.2 (Or.inl rfl) : (k, v) ∈ SMap.insert cmp k v s)
      rw [hxy] at hs' ⊢
      rw [SMap.lookup_mid_eq hc hs' (p := (k, v)) hkk]
    | some p =>
      simp only
      obtain ⟨hm, hk⟩ := SMap.lookup_some_mem hl
      obtain ⟨xs, ys, hxy⟩ := List.append_of_mem hm
      rw [hxy] at hs ⊢
      rw [SMap.update_mid_eq hc hs hk]
      have hs' : SMap.Sorted cmp (xs ++ (p.1, v) :: ys) := by
        have := SMap.sorted_update (k := k) (v := v) hs
        rwa [SMap.update_mid_eq hc hs hk] at this
      rw [SMap.lookup_mid_eq hc hs' (p := (p.1, v)) hk]
  · simp only [SMap.mstep]
    cases hl : SMap.lookup cmp k s with
    | none => simp only [hl]
    | some p =>
      simp only
      have : SMap.lookup cmp k (SMap.erase cmp k s) = none := by
        rw [SMap.lookup_eq_none]
        intro hh
        have := (SMap.has_erase hc hs.distinct (k := k) (k' := k)).1 hh
        exact this.2 hkk
      rw [this]
  · intro hne
    have hne' : ∀ x : α, cmp k x = 0 → cmp k' x ≠ 0 := fun x h1 h2 => hne (hc.eq_trans h2 (hc.eq_symm h1))
    constructor
    · simp only [SMap.mstep]
      cases SMap.lookup cmp k s with
      | none => simp only [SMap.lookup_insert_ne hne]; cases SMap.lookup cmp k' s <;> rfl
      | some p => simp only [SMap.lookup_update_ne hne']; cases SMap.lookup cmp k' s <;> rfl
    · simp only [SMap.mstep]
      cases SMap.lookup cmp k s with
      | none => rfl
      | some p => simp only [SMap.lookup_erase_ne hne']; cases SMap.lookup cmp k' s <;> rfl

/-! #### "first-insertion order for the linked variant", on the MODEL states -/

/-- on every state satisfying the invariant (hence every reachable one): `Put` of a new key appends it
    to `Keys()`, `Put` of a present key leaves `Keys()` exactly as it was, `Delete` only removes. -/
theorem c01_linked_model_keys_order (hc : LawfulCmp cmp) (s : LinkedMap α β) (hi : s.Inv cmp) (k : α) (v : β) :
    let keys := fun (l : LinkedMap α β) => l.cells.map (·.1)
    (SMap.lookup cmp k s.cells = none → keys (s.step cmp (.put k v)).1 = keys s ++ [k]) ∧
    ((SMap.lookup cmp k s.cells).isSome → keys (s.step cmp (.put k v)).1 = keys s) ∧
    (keys (s.step cmp (.delete k)).1).Sublist (keys s) := by
  have h1 := (pair_eq (c01_linked_step_refines hc s hi (.put k v)).1).1
  have h2 := (pair_eq (c01_linked_step_refines hc s hi (.delete k)).1).1
  have := c01_linked_keys_insertion_order (cmp := cmp) s.cells k v
  simp only [h1, h2]
  exact this

/-- the invariant holds in every state reachable from `NewLinkedTreeMap` (so the theorem above and
    `c01_linked_failed_call_unchanged` apply to all of them) -/
theorem c01_linked_reachable_inv (hc : LawfulCmp cmp) (ops : List (MapOp α β)) :
    ((LinkedMap.empty : LinkedMap α β).run cmp ops).1.Inv cmp := by
  suffices ∀ s : LinkedMap α β, s.Inv cmp → (s.run cmp ops).1.Inv cmp from this _ LinkedMap.inv_empty
  induction ops with
  | nil => intro s h; exact h
  | cons op rest ih => intro s h; exact ih _ (LinkedMap.step_refines hc s h op).2

/-! #### non-vacuity for the wrappers -/

/-- overwrite keeps the place, delete + re-insert moves to the end -/
example : (((LinkedMap.empty : LinkedMap Int Int).run cmpAsc
      [.put 5 50, .put 3 30, .put 8 80, .put 3 31, .delete 5, .put 5 51, .delete 7, .get 3, .keys, .len]).2)
    = [.ok, .ok, .ok, .ok, .val 50, .ok, .none, .val 31, .keys [3, 8, 5], .int 3] := by decide

/-- with a comparator coarser than equality the linked map keeps the key FIRST inserted -/
example : (((LinkedMap.empty : LinkedMap Int Int).run cmpHalf [.put 3 30, .put 2 20, .keys, .values]).2)
    = [.ok, .ok, .keys [3], .vals [20]] := by decide

example : ((MultiMap.run cmpAsc (RBTree.empty : RBTree Int (List Int))
      [.put 1 [10], .put 2 [20], .put 1 [11, 12], .get 1, .delete 3, .delete 2, .keys, .len]).2)
    = [.ok, .ok, .ok, .val [10, 11, 12], .none, .val [20], .keys [1], .int 1] := by decide

example : ((TreeSet.run cmpHalf (RBTree.empty : RBTree Int Unit)
      [.add 2, .add 3, .add 7, .exist 6, .exist 4, .delete 3, .keys]).2)
    = [.ok, .ok, .ok, .bool true, .bool false, .ok, .keys [7]] := by decide

/-- a failing call on a non-trivial TreeMap state (hypothesis of the "unchanged" theorems is satisfiable) -/
example : (TreeMap.step cmpAsc t7 (.delete 9)).2 = .none ∧ (TreeMap.step cmpAsc t7 (.get 9)).2 = .none := by decide

end Ekit.RB
