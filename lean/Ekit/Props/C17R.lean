/-
C17R — review companion of Ekit/Props/C17.lean (adversarial review pass).

Closes the gaps found by the review:
* the row-level theorems (`c17_exact_type`, `c17_asIntN_exact`, `c17_format_parse_roundtrip`) are about
  `runRow o r` for `r ∈ valueRows`; the `run`-level theorems (`c17_accessor_total`,
  `c17_err_passthrough`) have the hypothesis `run … = some out`.  Nothing tied the two levels together
  (`c17_table_complete` only says that `find?` finds *some* row of that name).  `c17_run_acc_eq` /
  `c17_run_orDefault_eq` say that `run` on the name of a row IS `runRow` of that row (names are unique,
  none is shadowed by "AsString"), and `c17_named_total` / `c17_orDefault_total` turn the conditional
  statements into unconditional ones for every method name of the specification.
* `c17_asIntN_exact` was only instantiated (by `example`) for 3 of the 10 integer targets:
  `c17_asInt_rows_exist` shows its hypotheses are satisfiable for EVERY `IntT`, and
  `c17_asInt_exact_all` is the resulting closed statement (∀ target type, ∀ string).
* "OrDefault returns the default exactly when the strict accessor would fail" was stated relative to the
  model's own strict accessor; `c17_orDefault_exact` states it against the table-independent
  `typeAssert` (value when no stored Err and the held type is identical, the default in every other case).
* "either an error or …" for an `As` accessor on a held value that is neither of the exact type nor a
  plain string (other integer kinds, defined string types, nil, pointers …): `c17_as_other_held_err`.
* AsString on a held string / byte slice returns exactly the content: `c17_asString_content`.
* boundary / notation examples for the strconv model (leading '+', "-0", empty, lone sign, underscore,
  leading zeros, 64-bit extremes).
-/
import Ekit.Props.C17

namespace Ekit.Value
open Ekit.Go Spec Ekit.Gen

/-! ### tying `run` to the rows -/

/-- names in the regenerated table are unique and none is "AsString": looking a row up by its own name
finds that very row -/
theorem c17_row_names_unique :
    ∀ r ∈ valueRows, valueRows.find? (·.name = r.name) = some r ∧ r.name ≠ "AsString" := by decide

theorem c17_def_names_unique :
    ∀ d ∈ valueDefs, valueDefs.find? (·.name = d.name) = some d := by decide

/-- `run` on the name of a row is `runRow` of that row (so every `runRow`-level theorem of C17 is a statement
about what the driver executes for `.acc r.name`). -/
theorem c17_run_acc_eq (o : Oracle) (av : AnyValue) :
    ∀ r ∈ valueRows, run o valueTable av (.acc r.name) = some (runRow o r av) := by
  intro r hr
  obtain ⟨hf, hne⟩ := c17_row_names_unique r hr
  have hf' : valueTable.rows.find? (·.name = r.name) = some r := hf
  simp only [run, runNamed, hne, if_false, hf', Option.map_some]

theorem c17_run_asString_eq (o : Oracle) (av : AnyValue) :
    run o valueTable av (.acc "AsString") = some (runAsString o valueAsString av) := by
  simp [run, runNamed, valueTable]

theorem c17_run_orDefault_eq (o : Oracle) (av : AnyValue) (dv : Val) :
    ∀ d ∈ valueDefs, run o valueTable av (.orDefault d.name dv) = some (runDef o valueTable d av dv) := by
  intro d hd
  have hf' : valueTable.defs.find? (·.name = d.name) = some d := c17_def_names_unique d hd
  simp only [run, hf', Option.map_some]

/-- the method names of the specification -/
def accNames : List String :=
  ["Int", "Int8", "Int16", "Int32", "Int64", "Uint", "Uint8", "Uint16", "Uint32", "Uint64", "Float32",
   "Float64", "String", "Bytes", "Bool", "AsInt", "AsInt8", "AsInt16", "AsInt32", "AsInt64", "AsUint", "AsUint8",
   "AsUint16", "AsUint32", "AsUint64", "AsFloat32", "AsFloat64", "AsBytes", "AsString"]

def defNames : List String :=
  ["IntOrDefault", "Int8OrDefault", "Int16OrDefault", "Int32OrDefault", "Int64OrDefault", "UintOrDefault",
   "Uint8OrDefault", "Uint16OrDefault", "Uint32OrDefault", "Uint64OrDefault", "Float32OrDefault",
   "Float64OrDefault", "StringOrDefault", "BytesOrDefault", "BoolOrDefault"]

/-- these are exactly the names the specification gives a verdict for -/
theorem c17_names_are_spec_domain :
    (∀ n ∈ accNames, (strictTarget n).isSome ∨ (asTarget n).isSome) ∧ (∀ n ∈ defNames, (defTarget n).isSome) := by
  decide

theorem c17_acc_defined (o : Oracle) (av : AnyValue) :
    ∀ name ∈ accNames, ∃ out, run o valueTable av (.acc name) = some out := by
  intro name hn
  by_cases has : name = "AsString"
  · subst has; exact ⟨_, c17_run_asString_eq o av⟩
  · have hfind : (valueRows.find? (·.name = name)).isSome = true := by
      have : name ∈ accNames.dropLast := by
        simp only [accNames, List.dropLast] at hn ⊢
        simp only [List.mem_cons, List.not_mem_nil, or_false] at hn ⊢
        rcases hn with h | h | h | h | h | h | h | h | h | h | h | h | h | h | h | h | h | h | h | h | h | h | h | h | h
          | h | h | h | h <;> simp [h] at has ⊢
      exact c17_table_complete.1 name this
    obtain ⟨r, hr⟩ := Option.isSome_iff_exists.mp hfind
    have hr' : valueTable.rows.find? (·.name = name) = some r := hr
    exact ⟨runRow o r av, by simp only [run, runNamed, has, if_false, hr', Option.map_some]⟩

/-- **unconditional totality + Err passthrough** for every accessor name of the specification (strict,
`As`, AsString): the call is defined in the table, does not panic for any held value / stored Err, and
returns a stored Err unchanged.  (`c17_accessor_total` and `c17_err_passthrough` without their
`run … = some out` hypothesis.) -/
theorem c17_named_total (o : Oracle) (av : AnyValue) :
    ∀ name ∈ accNames, ∃ out, run o valueTable av (.acc name) = some out ∧ out.isPanic = false ∧
      (∀ e, av.err = some e → out = .err e) := by
  intro name hn
  obtain ⟨out, hout⟩ := c17_acc_defined o av name hn
  refine ⟨out, hout, ?_, ?_⟩
  · -- `.acc` never reaches json.Unmarshal, so no assumption on the oracle is needed: use a total one
    have key : ∀ out', runNamed o valueTable name av = some out' → out'.isPanic = false :=
      fun out' h => runNamed_nopanic o c17_table_sound name av out' h
    exact key out hout
  · intro e he
    cases av with
    | mk h err =>
      simp only at he; subst he
      exact c17_err_passthrough o h e (.acc name) (fun _ _ hc => by cases hc) out hout

/-- every OrDefault form is defined, never panics and never returns an error: it returns a value -/
theorem c17_orDefault_total (o : Oracle) (av : AnyValue) (dv : Val) :
    ∀ name ∈ defNames, ∃ v, run o valueTable av (.orDefault name dv) = some (.ok v) := by
  intro name hn
  have hfind : (valueDefs.find? (·.name = name)).isSome = true := c17_table_complete.2 name hn
  obtain ⟨d, hd⟩ := Option.isSome_iff_exists.mp hfind
  have hmem : d ∈ valueDefs := List.mem_of_find?_eq_some hd
  have hd' : valueTable.defs.find? (·.name = name) = some d := hd
  obtain ⟨r, _, _, _, h⟩ := c17_orDefault_iff_err o d hmem av dv
  rcases h with ⟨v, _, h2⟩ | ⟨_, h2⟩
  · exact ⟨v, by simp only [run, hd', Option.map_some, h2]⟩
  · exact ⟨dv, by simp only [run, hd', Option.map_some, h2]⟩

/-! ### OrDefault against the table-independent `typeAssert` -/

/-- **"each OrDefault form returns the default exactly when the strict accessor would fail"**, stated
against the specification's notion of the strict accessor failing (a stored Err, or a held value whose
dynamic type is not identical to the requested type) instead of against the model's own strict row:
the held value when there is no stored Err and the type is identical, the default in EVERY other case. -/
theorem c17_orDefault_exact (o : Oracle) :
    ∀ d ∈ valueDefs, ∀ (av : AnyValue) (dv : Val),
      runDef o valueTable d av dv =
        match av.err, typeAssert d.ret av.val with
        | none, some v => .ok v
        | _, _ => .ok dv := by
  intro d hd av dv
  obtain ⟨r, hfind, hstr, hret, h⟩ := c17_orDefault_iff_err o d hd av dv
  have hr : r ∈ valueRows := List.mem_of_find?_eq_some hfind
  have hs := valueRows_sound r hr
  cases av with
  | mk hv err =>
    cases err with
    | some e =>
      have hrun : runRow o r ⟨hv, some e⟩ = .err e := runRow_stored o hs hv e
      rcases h with ⟨v, h1, _⟩ | ⟨_, h2⟩
      · rw [hrun] at h1; cases h1
      · simpa using h2
    | none =>
      obtain ⟨hex, herr⟩ := c17_exact_type o r hr hv
      rw [← hret]
      cases hta : typeAssert r.ret hv with
      | some v =>
        have hrun := hex v hta
        rcases h with ⟨v', h1, h2⟩ | ⟨h1, _⟩
        · rw [hrun] at h1; cases h1; simpa using h2
        · rw [hrun] at h1; cases h1
      | none =>
        have hrun := herr hstr hta
        rcases h with ⟨v', h1, _⟩ | ⟨_, h2⟩
        · rw [hrun] at h1; cases h1
        · simpa using h2

/-! ### integer `As` accessors: every target type -/

/-- the hypotheses of `c17_asIntN_exact` / `c17_format_parse_roundtrip` are satisfiable for EVERY integer
type: the table has an `As` row with a `case string` for each of the ten -/
theorem c17_asInt_rows_exist : ∀ t : IntT, ∃ r ∈ valueRows, r.ret = .i t ∧ ∃ sc, r.str = some sc := by
  intro t
  cases t
  · exact ⟨valueRows[1], by decide, rfl, _, rfl⟩
  · exact ⟨valueRows[5], by decide, rfl, _, rfl⟩
  · exact ⟨valueRows[9], by decide, rfl, _, rfl⟩
  · exact ⟨valueRows[13], by decide, rfl, _, rfl⟩
  · exact ⟨valueRows[17], by decide, rfl, _, rfl⟩
  · exact ⟨valueRows[3], by decide, rfl, _, rfl⟩
  · exact ⟨valueRows[7], by decide, rfl, _, rfl⟩
  · exact ⟨valueRows[11], by decide, rfl, _, rfl⟩
  · exact ⟨valueRows[15], by decide, rfl, _, rfl⟩
  · exact ⟨valueRows[19], by decide, rfl, _, rfl⟩

/-- **closed form of asIntN_exact at the `run` level**: for every integer type `t` there is an accessor
name whose specification target is `t`, such that for EVERY string `s` the call the driver executes
returns `v` iff `s` denotes `v` and `v` fits `t` — and otherwise returns an error (never a wrapped or
truncated number, never a panic). -/
theorem c17_asInt_exact_all (o : Oracle) : ∀ t : IntT, ∃ name, asTarget name = some (.i t) ∧ ∀ s : Str,
    ∃ out, run o valueTable ⟨.str false s, none⟩ (.acc name) = some out ∧
      (∀ v, out = .ok (.int v) ↔ (denote t.signed s = some v ∧ t.fits v)) ∧
      ((¬ ∃ v, denote t.signed s = some v ∧ t.fits v) → out.isErr = true) := by
  intro t
  obtain ⟨r, hr, hret, sc, hstr⟩ := c17_asInt_rows_exist t
  have hs := valueRows_sound r hr
  obtain ⟨_, _, _, hcase⟩ := Row.sound_elim hs
  have hname : asTarget r.name = some (.i t) := by
    rcases hcase with ⟨hn, _⟩ | ⟨_, _, _, ha, _⟩
    · rw [hn] at hstr; cases hstr
    · rw [ha, hret]
  refine ⟨r.name, hname, fun s => ⟨_, c17_run_acc_eq o _ r hr, ?_⟩⟩
  exact c17_asIntN_exact o r hr t sc hret hstr s

/-- an `As` accessor applied to a held value that is neither of exactly the requested type nor a plain
`string` (another integer kind, a defined string type, nil, a pointer, …) returns the type error. -/
theorem c17_as_other_held_err (o : Oracle) :
    ∀ r ∈ valueRows, ∀ h : Held, typeAssert r.ret h = none → typeAssert .string h = none →
      runRow o r ⟨h, none⟩ = .err errType :=
  fun r hr h ht hs => runRow_not_string o (valueRows_sound r hr) h ht hs

/-! ### AsString on strings and byte slices -/

/-- AsString returns exactly the content of a held string (of a predeclared or a defined string type)
and of a held byte slice. -/
theorem c17_asString_content (o : Oracle) (named : Bool) (s : Str) :
    runAsString o valueAsString ⟨.str named s, none⟩ = .ok (.str s) ∧
    runAsString o valueAsString ⟨.bytes named s, none⟩ = .ok (.str s) := by
  have hs : valueAsString.sound = true := (Table.sound_elim c17_table_sound).2.2.1
  constructor
  · rw [runAsString_eq o hs]; rfl
  · rw [runAsString_eq o hs]; rfl

/-! ### non-vacuity / boundary behaviour of the strconv model (through the table interpreter) -/

-- "+127" → 127 for int8 (ParseInt accepts a leading '+'); "-129" and "128" are range errors
example : run dummyOracle valueTable ⟨.str false [43, 49, 50, 55], none⟩ (.acc "AsInt8") = some (.ok (.int 127)) := by decide
example : run dummyOracle valueTable ⟨.str false [45, 49, 50, 57], none⟩ (.acc "AsInt8") = some (.err errRange) := by decide
-- "", "-", "+", "1_0", " 1", "--1", "+-1": syntax errors
example : run dummyOracle valueTable ⟨.str false [], none⟩ (.acc "AsInt8") = some (.err errSyntax) := by decide
example : run dummyOracle valueTable ⟨.str false [45], none⟩ (.acc "AsInt8") = some (.err errSyntax) := by decide
example : run dummyOracle valueTable ⟨.str false [43], none⟩ (.acc "AsInt") = some (.err errSyntax) := by decide
example : run dummyOracle valueTable ⟨.str false [49, 95, 48], none⟩ (.acc "AsInt16") = some (.err errSyntax) := by decide
example : run dummyOracle valueTable ⟨.str false [32, 49], none⟩ (.acc "AsInt16") = some (.err errSyntax) := by decide
example : run dummyOracle valueTable ⟨.str false [45, 45, 49], none⟩ (.acc "AsInt16") = some (.err errSyntax) := by decide
example : run dummyOracle valueTable ⟨.str false [43, 45, 49], none⟩ (.acc "AsInt16") = some (.err errSyntax) := by decide
-- leading zeros are accepted: "0128" → 128 for int16, range error for int8; "-0" → 0
example : run dummyOracle valueTable ⟨.str false [48, 49, 50, 56], none⟩ (.acc "AsInt16") = some (.ok (.int 128)) := by decide
example : run dummyOracle valueTable ⟨.str false [48, 49, 50, 56], none⟩ (.acc "AsInt8") = some (.err errRange) := by decide
example : run dummyOracle valueTable ⟨.str false [45, 48], none⟩ (.acc "AsInt8") = some (.ok (.int 0)) := by decide
-- unsigned: "255" fits uint8, "256" does not; "-0" and "+5" are syntax errors of ParseUint
example : run dummyOracle valueTable ⟨.str false [50, 53, 53], none⟩ (.acc "AsUint8") = some (.ok (.int 255)) := by decide
example : run dummyOracle valueTable ⟨.str false [50, 53, 54], none⟩ (.acc "AsUint8") = some (.err errRange) := by decide
example : run dummyOracle valueTable ⟨.str false [45, 48], none⟩ (.acc "AsUint8") = some (.err errSyntax) := by decide
-- 16-bit boundaries
example : run dummyOracle valueTable ⟨.str false [51, 50, 55, 54, 55], none⟩ (.acc "AsInt16") = some (.ok (.int 32767)) := by decide
example : run dummyOracle valueTable ⟨.str false [51, 50, 55, 54, 56], none⟩ (.acc "AsInt16") = some (.err errRange) := by decide
example : run dummyOracle valueTable ⟨.str false [54, 53, 53, 51, 54], none⟩ (.acc "AsUint16") = some (.err errRange) := by decide
-- a held int16 is not converted by AsInt8 (no silent truncation): type error
example : run dummyOracle valueTable ⟨.int .int16 false 300, none⟩ (.acc "AsInt8") = some (.err errType) := by decide
-- a defined string type is not a `string` for the type switch
example : run dummyOracle valueTable ⟨.str true [49], none⟩ (.acc "AsInt8") = some (.err errType) := by decide
-- typed nil / pointer / struct: error everywhere, AsString included
example : run dummyOracle valueTable ⟨.other, none⟩ (.acc "AsString") = some (.err errType) := by decide
example : run dummyOracle valueTable ⟨.other, none⟩ (.acc "AsBytes") = some (.err errType) := by decide
-- a stored Err wins over a perfectly good held value, OrDefault then yields the default
example : run dummyOracle valueTable ⟨.int .int8 false 5, some errOther⟩ (.orDefault "Int8OrDefault" (.int 7)) = some (.ok (.int 7)) := by decide
example : run dummyOracle valueTable ⟨.int .int8 false 5, none⟩ (.orDefault "Int8OrDefault" (.int 7)) = some (.ok (.int 5)) := by decide

/-- the 64-bit extremes, through the proved characterisation (not by evaluation) -/
example (o : Oracle) (r : Row) (hr : r ∈ valueRows) (sc : StrCase) (hret : r.ret = .i .int64) (hstr : r.str = some sc) :
    runRow o r ⟨.str false (formatInt 10 (-9223372036854775808)), none⟩ = .ok (.int (-9223372036854775808)) ∧
    runRow o r ⟨.str false (formatInt 10 9223372036854775807), none⟩ = .ok (.int 9223372036854775807) :=
  ⟨c17_format_parse_roundtrip o r hr .int64 sc hret hstr _ (by decide),
   c17_format_parse_roundtrip o r hr .int64 sc hret hstr _ (by decide)⟩

/-- 2^63 does not fit int64: whatever numeral denotes it, AsInt64 returns an error -/
example (o : Oracle) (r : Row) (hr : r ∈ valueRows) (sc : StrCase) (hret : r.ret = .i .int64) (hstr : r.str = some sc)
    (s : Str) (hd : denote true s = some 9223372036854775808) :
    (runRow o r ⟨.str false s, none⟩).isErr = true := by
  refine (c17_asIntN_exact o r hr .int64 sc hret hstr s).2 ?_
  rintro ⟨v, hv, hf⟩
  have hd' : denote IntT.int64.signed s = some 9223372036854775808 := hd
  rw [hd'] at hv
  cases hv
  revert hf; decide

end Ekit.Value
