/-
C02 (and C01) at the pointer level WITHOUT the hypothesis "the call returns": from `NewRBTree`, for every history of
Add/Delete/Find/Set and every comparator FUNCTION, there is a fuel bound above which the MiniGo interpreter running the
translated internal/tree/red_black_tree.go completes the whole history — no nil dereference, no ill-typed step, every
loop terminates — and ends in a heap satisfying every clause of C02.  Property theorems only.
-/
import Ekit.Lemmas.RBPtrProgTop

namespace Ekit.MiniGo.RBHeap
open Ekit.MiniGo Ekit.Gen.RBTreeGo

/-- C02: one call returns, with enough fuel, in every state reachable from `NewRBTree` (no panic, termination) -/
theorem c02_ptr_op_returns (cmpF : Int → Int → Int) (st : St) (hW : RBWF st) (op : POp) :
    ∃ F, ∀ fuel, F ≤ fuel → ∃ r st', op.run cmpF fuel st = .ok (r, st') :=
  op_returns cmpF st hW op

/-- C02: every history runs to completion once the fuel is large enough, and more fuel does not change the outcome -/
theorem c02_ptr_history_total (cmpF : Int → Int → Int) (ops : List POp) :
    ∃ F st, ∀ fuel, F ≤ fuel → runOps cmpF fuel newTree ops = some st :=
  runOps_total cmpF ops newTree c02_ptr_new_rb

/-- C02, unconditional form: after ANY history from `NewRBTree` (run with enough fuel) the heap holds a tree `t` without
    sharing or cycles whose parent links are the inverse of its child links (`Holds`), which is red-black coloured,
    at most 2·log2(n+1) high, and whose size field is its node count — for every comparator function -/
theorem c02_ptr_history_all (cmpF : Int → Int → Int) (ops : List POp) :
    ∃ F st, (∀ fuel, F ≤ fuel → runOps cmpF fuel newTree ops = some st) ∧
      (∃ t, Holds st t ∧ RB st t ∧ t.height ≤ 2 * Nat.log2 (t.addrs.length + 1)) ∧ SizeWF st := by
  obtain ⟨F, st, h⟩ := c02_ptr_history_total cmpF ops
  have hF := h F (Nat.le_refl _)
  obtain ⟨t, hH, hR⟩ := c02_ptr_history_rb cmpF F ops st hF
  exact ⟨F, st, h, ⟨t, hH, hR, rb_height_le st t hR⟩,
    c02_ptr_history_size cmpF F ops newTree st c02_ptr_new_size hF⟩

end Ekit.MiniGo.RBHeap
