/-
C07 — review additions (adversarial review of `Ekit/Props/C07.lean`).

**Gap closed: a context error is answered only when the context ended.**  `bqSpec` (Spec/BQueue.lean)
allows `Enqueue`/`Dequeue` to answer `ctxErr` in every state, and the specification has no notion
of a context, so `c07_abq_linearizable` / `c07_lbq_linearizable` would also hold of a queue that
spuriously answers `context.Canceled` to a caller whose context is alive (and, e.g., never stores
anything).  The C07 file only had the converse direction (`c07_*_cancelled_call_returns_ctx_err`).
The two theorems below pin `ctxErr` to the context from the other side, in every reachable state
of both models, for every capacity and schedule.
-/
import Ekit.Props.C07
import Ekit.Lemmas.BQCtxErrSound

open Ekit.Conc Ekit.BQ

/-- **array queue: no spurious context error.**  A call that has committed to `return ctx.Err()`
    (it is giving the permit back, is at the deferred `Unlock`, or is about to return) has a context
    that ended during the call. -/
theorem c07_abq_ctx_err_only_if_ctx_ended (cap : Nat) (s : Ekit.ArrayBQ.State)
    (hr : (Ekit.ArrayBQ.sys cap).Reachable s) (t : Nat)
    (h : s.pc t = .ret .ctxErr ∨ s.pc t = .unlock .ctxErr ∨ s.pc t = .eRelBack ∨ s.pc t = .dRelBack) :
    s.ctxDone t = true := by
  apply Ekit.ArrayBQ.ctxSound_reachable cap s hr t
  rcases h with h | h | h | h <;> simp [h, Ekit.ArrayBQ.ctxErrPc]

/-- **linked queue: no spurious context error.** -/
theorem c07_lbq_ctx_err_only_if_ctx_ended (m : Int) (s : Ekit.LinkedBQ.State)
    (hr : (Ekit.LinkedBQ.sys m).Reachable s) (t : Nat) (h : s.pc t = .ret .ctxErr) :
    s.ctxDone t = true := by
  apply Ekit.LinkedBQ.ctxSound_reachable m s hr t
  simp [h, Ekit.LinkedBQ.ctxErrPc]

/-- consequence at the level of runs: the observable response `ctxErr` of thread `t` is enabled only
    in states where `t`'s context has ended -/
theorem c07_abq_ctx_err_response_needs_ended_ctx (cap : Nat) (s s' : Ekit.ArrayBQ.State)
    (hr : (Ekit.ArrayBQ.sys cap).Reachable s) (t : Nat)
    (hs : Ekit.ArrayBQ.step s (.res t .ctxErr) = some s') : s.ctxDone t = true := by
  apply c07_abq_ctx_err_only_if_ctx_ended cap s hr t
  left
  simp only [Ekit.ArrayBQ.step] at hs
  split at hs
  · assumption
  · simp at hs

theorem c07_lbq_ctx_err_response_needs_ended_ctx (m : Int) (s s' : Ekit.LinkedBQ.State)
    (hr : (Ekit.LinkedBQ.sys m).Reachable s) (t : Nat)
    (hs : Ekit.LinkedBQ.step s (.res t .ctxErr) = some s') : s.ctxDone t = true := by
  apply c07_lbq_ctx_err_only_if_ctx_ended m s hr t
  simp only [Ekit.LinkedBQ.step] at hs
  split at hs
  · assumption
  · simp at hs

/-! ## Non-vacuity: "a context expiring between winning a slot and taking the lock" -/

/-- capacity 2: thread 0 wins a permit (`Acquire` succeeds), THEN its context ends, then it takes the
    lock, sees `ctx.Err() != nil`, gives the permit back, unlocks and returns the context error;
    afterwards both permits are free again and nothing was stored; a second thread then fills the queue
    to its capacity (the cancelled call leaked nothing). -/
def abqCancelAfterSlot : List Ekit.ArrayBQ.Label :=
  [.inv 0 (.enq 5), .tau 0, .ctxEnd 0, .tau 0, .tau 0, .tau 0, .tau 0, .res 0 .ctxErr,
   .inv 1 (.enq 6), .tau 1, .tau 1, .tau 1, .tau 1, .tau 1, .tau 1, .tau 1, .res 1 .ok,
   .inv 1 (.enq 7), .tau 1, .tau 1, .tau 1, .tau 1, .tau 1, .tau 1, .tau 1, .res 1 .ok]

/-- after the permit was won and the context ended: the permit is in flight (`enqFree = 1`) -/
example : (((Ekit.ArrayBQ.sys 2).run (Ekit.ArrayBQ.init 2) (abqCancelAfterSlot.take 3)).map
    (fun s => (s.pc 0, s.ctxDone 0, s.enqFree, s.writer))) = some (.eLock 5, true, 1, none) := by decide
/-- at the re-check under the lock -/
example : (((Ekit.ArrayBQ.sys 2).run (Ekit.ArrayBQ.init 2) (abqCancelAfterSlot.take 5)).map
    (fun s => (s.pc 0, s.enqFree, s.writer))) = some (.eRelBack, 1, some 0) := by decide
/-- after the cancelled call returned: everything is back, nothing was written -/
example : (((Ekit.ArrayBQ.sys 2).run (Ekit.ArrayBQ.init 2) (abqCancelAfterSlot.take 8)).map
    (fun s => (s.count, s.enqFree, s.deqFree, s.writer))) = some (0, 2, 0, none) := by decide
example : (((Ekit.ArrayBQ.sys 2).run (Ekit.ArrayBQ.init 2) (abqCancelAfterSlot.take 8)).map
    (fun s => (s.data, s.enqd, s.fp 0))) = some ([0, 0], [], ⟨0, 0, 0⟩) := by decide
/-- and the queue still takes exactly its capacity -/
example : (((Ekit.ArrayBQ.sys 2).run (Ekit.ArrayBQ.init 2) abqCancelAfterSlot).map
    (fun s => (s.count, s.enqFree, s.deqFree, Ekit.ArrayBQ.contents s))) = some (2, 0, 2, [6, 7]) := by decide

/-- linked queue, capacity 1: a producer parked on a full queue is cancelled while parked and returns
    the context error without the lock and without having written -/
def lbqCancelParked : List Ekit.LinkedBQ.Label :=
  [.inv 0 (.enq 5), .tau 0, .tau 0, .tau 0, .tau 0, .tau 0, .tau 0, .tau 0, .res 0 .ok,
   .inv 1 (.enq 6), .tau 1, .tau 1, .tau 1, .tau 1, .tau 1, .ctxEnd 1, .ctxArm 1, .res 1 .ctxErr]

example : (((Ekit.LinkedBQ.sys 1).run (Ekit.LinkedBQ.init 1) (lbqCancelParked.take 17)).map
    (fun s => (s.pc 1, s.ctxDone 1, s.q, s.writer, s.writes 1))) = some (.ret .ctxErr, true, [5], none, 0) := by decide
