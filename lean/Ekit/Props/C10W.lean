/-
C10/C11 — non-vacuity witnesses (review additions).

The theorems of `Ekit/Props/C10.lean` / `C11.lean` quantify over all reachable states of `Ekit.Pool.sys c`.
Here explicit schedules are replayed through `System.run` by kernel evaluation to show that the
interesting states ARE reachable, i.e. the hypotheses of the exactly-once theorems are satisfiable in each
of the property's cases:
* a task accepted by a running pool and executed exactly once;
* a task accepted and then handed back exactly once by ShutdownNow (never run);
* a task whose Submit returned an error (after shutdown) and that is never sent, run or returned;
* a panicking task: counted as executed, the same worker goes on and executes the next task;
* `maxGo` tasks executing at the same instant (the bound of C11 is attained, so it is not slack by accident).
-/
import Ekit.Props.C10
import Ekit.Props.C11
import Ekit.Model.PoolWitness

namespace Ekit.Pool
open Ekit.Conc Ekit.Pool.Witness

/-- finite projection used by the witnesses -/
structure Obs10 where
  life : Life
  totalGo : Nat
  queue : List Nat
  returned : List Nat
  pcs : List WPc
  runs : List Nat
  sent : List Bool
  subRes : List Res
  panic : Bool
  deriving DecidableEq, Repr

def obs10 (s : St) : Obs10 :=
  ⟨s.life, s.totalGo, s.queue, s.returned, s.workers.map (·.pc), s.tasks.map (·.runs), s.tasks.map (·.sent),
   s.tasks.map (·.subRes), s.panic⟩

def cfgW : Cfg := ⟨1, 1, 1, 4, 0, 1⟩
theorem cfgW_valid : cfgW.Valid := ⟨by decide, by decide, by decide, by decide⟩

def startW : List Label :=
  callSteps 0 [.invStart, .stLoad1, .stLoad2, .stLoad3, .stCas, .stNum, .stIncLock, .stIncWrite, .stSpawn, .stUnlock, .ret]

/-- Submit on a running fixed-size pool: the first trySubmit(created) fails its CAS, the second sends;
    `allowToCreateGoroutine` says no -/
def subRunning (beh : Beh) : List CAct :=
  [.invSubmit false beh, .subLoad1, .subLoad2, .subCas1, .subCas2, .selSend, .allowRLock, .allowRead, .unlock, .ret]

def shutdownNowW (drain : Nat) : List CAct :=
  [.invShutdownNow, .snLoad1, .snLoad2, .snLoad3, .snCas, .snClose, .snCancel] ++
  List.replicate drain .snDrainTake ++ [.snDrainEnd, .ret]

/-- worker: receive, run a returning task, post-task bookkeeping, back at the `select` -/
def runRet : List WAct :=
  [.selRecv, .leaveGroup, .incRun, .taskRet, .decRun, .postLock, .postLen1, .postDecide, .postGrp, .postUnlock]
def runRet2 : List WAct :=
  [.selRecv, .leaveGroup, .incRun, .taskRet, .decRun, .postLock, .postLen1, .postLen2, .postDecide, .postGrp, .postUnlock]
/-- the same for a panicking task: `taskPanic` then the wrapper's `recover` -/
def runPanic : List WAct :=
  [.selRecv, .leaveGroup, .incRun, .taskPanic, .recover, .decRun, .postLock, .postLen1, .postDecide, .postGrp, .postUnlock]

/-- Start; Submit t0, t1; the worker runs t0; ShutdownNow drains t1; a late Submit t2 is refused. -/
def traceNow : List Label :=
  startW ++ callSteps 0 (subRunning .ret) ++ callSteps 0 (subRunning .ret) ++ workSteps 0 runRet2 ++
  callSteps 1 (shutdownNowW 1) ++
  callSteps 2 [.invSubmit false .ret, .subLoad1, .subLoad2, .ret]

theorem c10_witness_replay : ((sys cfgW).run init traceNow).map obs10 =
    some ⟨.stopped, 1, [], [1], [.sel], [1, 0, 0], [true, true, false], [.ok, .ok, .errStopped], false⟩ := by rfl

/-- **Non-vacuity of C10**: a reachable state (valid configuration, started pool) in which
    task 0 was accepted (`Submit` returned nil) and executed exactly once and not handed back,
    task 1 was accepted, never executed, and handed back exactly once by ShutdownNow,
    task 2's `Submit` returned an error and it was never sent, executed or handed back;
    the queue is empty and no worker holds a task (quiescent): every case of `c10_exactly_once_quiescent` and
    the hypothesis of `c10_err_never_runs` are realised. -/
theorem c10_witness_all_cases :
    ∃ s, (sys cfgW).Reachable s ∧ cfgW.Valid ∧ s.nStartOk = 1 ∧ s.queue = [] ∧
      (∀ id, s.workers.countP (holdsT id) = 0) ∧
      (∃ t0, s.tasks[0]? = some t0 ∧ t0.subRes = .ok ∧ t0.runs = 1 ∧ s.returned.count 0 = 0) ∧
      (∃ t1, s.tasks[1]? = some t1 ∧ t1.subRes = .ok ∧ t1.runs = 0 ∧ s.returned.count 1 = 1) ∧
      (∃ t2, s.tasks[2]? = some t2 ∧ t2.subRes.isErr = true ∧ t2.sent = false ∧ t2.runs = 0 ∧ s.returned.count 2 = 0) := by
  have hrep := c10_witness_replay
  cases hrun : (sys cfgW).run init traceNow with
  | none => rw [hrun] at hrep; cases hrep
  | some s =>
    rw [hrun] at hrep
    simp only [Option.map_some, Option.some.injEq] at hrep
    have hr : (sys cfgW).Reachable s := System.reachable_of_run (sys cfgW) traceNow System.Reachable.init hrun
    have hq : s.queue = [] := congrArg Obs10.queue hrep
    have hret : s.returned = [1] := congrArg Obs10.returned hrep
    have hpcs : s.workers.map (·.pc) = [.sel] := congrArg Obs10.pcs hrep
    have hruns : s.tasks.map (·.runs) = [1, 0, 0] := congrArg Obs10.runs hrep
    have hsent : s.tasks.map (·.sent) = [true, true, false] := congrArg Obs10.sent hrep
    have hsub : s.tasks.map (·.subRes) = [.ok, .ok, .errStopped] := congrArg Obs10.subRes hrep
    have hst : s.nStartOk = 1 := by
      have h1 := c11_start_at_most_once cfgW cfgW_valid s hr
      have h2 := c11_no_task_before_start cfgW cfgW_valid s hr
      cases hn : s.nStartOk with
      | zero =>
        have := (h2 hn).1
        rw [this] at hpcs; cases hpcs
      | succ n => omega
    have hlen : s.tasks.length = 3 := by
      have := congrArg List.length hruns; simpa using this
    have get : ∀ (i : Nat) (hi : i < 3), ∃ t, s.tasks[i]? = some t ∧
        some t.runs = [1, 0, 0][i]? ∧ some t.sent = [true, true, false][i]? ∧
        some t.subRes = ([.ok, .ok, .errStopped] : List Res)[i]? := by
      intro i hi
      have hlt : i < s.tasks.length := by omega
      refine ⟨s.tasks[i], List.getElem?_eq_getElem hlt, ?_, ?_, ?_⟩
      · rw [← hruns]; simp [List.getElem?_map, List.getElem?_eq_getElem hlt]
      · rw [← hsent]; simp [List.getElem?_map, List.getElem?_eq_getElem hlt]
      · rw [← hsub]; simp [List.getElem?_map, List.getElem?_eq_getElem hlt]
    refine ⟨s, hr, cfgW_valid, hst, hq, ?_, ?_, ?_, ?_⟩
    · intro id
      rw [List.countP_eq_zero]
      intro w hw
      have : w.pc ∈ s.workers.map (·.pc) := List.mem_map.2 ⟨w, hw, rfl⟩
      rw [hpcs] at this
      simp at this
      simp [holdsT, this]
    · obtain ⟨t, ht, h1, _, h3⟩ := get 0 (by omega)
      simp at h1 h3
      exact ⟨t, ht, h3, h1, by rw [hret]; decide⟩
    · obtain ⟨t, ht, h1, _, h3⟩ := get 1 (by omega)
      simp at h1 h3
      exact ⟨t, ht, h3, h1, by rw [hret]; decide⟩
    · obtain ⟨t, ht, h1, h2, h3⟩ := get 2 (by omega)
      simp at h1 h2 h3
      exact ⟨t, ht, by rw [h3]; rfl, h2, h1, by rw [hret]; decide⟩

/-- Start; Submit a panicking task t0 and a returning task t1; the single worker runs t0 (panic, recover),
    returns to its `select` and runs t1. -/
def tracePanic : List Label :=
  startW ++ callSteps 0 (subRunning .panic) ++ callSteps 0 (subRunning .ret) ++
  workSteps 0 [.selRecv, .leaveGroup, .incRun, .taskPanic, .recover, .decRun, .postLock, .postLen1, .postLen2,
               .postDecide, .postGrp, .postUnlock] ++
  workSteps 0 runRet

/-- **"a panicking task is contained: it counts as executed and the pool goes on executing the others"**,
    non-vacuity: in a reachable state the panicking task 0 has run count 1, the SAME worker then executed
    task 1, is back at its `select`, `totalGo` is still 1, and no Go run-time panic escaped. -/
theorem c10_witness_panic_contained : ((sys cfgW).run init tracePanic).map obs10 =
    some ⟨.running, 1, [], [], [.sel], [1, 1], [true, true], [.ok, .ok], false⟩ := by rfl

end Ekit.Pool
