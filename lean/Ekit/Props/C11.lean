/-
C11 — "Task pool never exceeds maxGo workers and its lifecycle is one-way".

All theorems are about `Ekit.Pool.sys c` (Ekit/Model/Pool.lean): every reachable state, i.e. every
interleaving of any number of callers (Submit / Start / Shutdown / ShutdownNow / States) and of the
workers they create, for every valid configuration `c` (what `newPool` returns).
-/
import Ekit.Lemmas.PoolLife
import Ekit.Model.PoolSkel
import Ekit.Generated.SkelC11

namespace Ekit.Pool
open Ekit.Conc Ekit.Pool.Skel

/-! ### "at every instant the number of tasks executing concurrently, and the worker count reported by
States, is at most the configured maximum" -/

/-- `totalGo ≤ maxGo` in every reachable state. -/
theorem c11_totalGo_le_maxGo (c : Cfg) (hv : c.Valid) (s : St) (hr : (sys c).Reachable s) :
    s.totalGo ≤ c.maxGo :=
  ((reach_invABC c (Nat.le_trans hv.init_core hv.core_max) s hr).c.glob).2.1

/-- the workers inside `task.Run` (incl. the wrapper's recover) are at most `totalGo` -/
theorem c11_running_le_totalGo (c : Cfg) (hv : c.Valid) (s : St) (hr : (sys c).Reachable s) :
    s.workers.countP (fun w => execPc w.pc) ≤ s.totalGo := by
  have h := (reach_invABC c (Nat.le_trans hv.init_core hv.core_max) s hr).c.glob
  have h1 : s.workers.countP (fun w => execPc w.pc) ≤ s.workers.countP liveW :=
    countP_le_of_imp _ _ _ (fun w hw => execPc_live w.pc hw)
  have := h.1
  omega

/-- hence at most `maxGo` tasks execute concurrently, at every instant -/
theorem c11_running_le_maxGo (c : Cfg) (hv : c.Valid) (s : St) (hr : (sys c).Reachable s) :
    s.workers.countP (fun w => execPc w.pc) ≤ c.maxGo :=
  Nat.le_trans (c11_running_le_totalGo c hv s hr) (c11_totalGo_le_maxGo c hv s hr)

/-- every `GoCnt` a `States` sample reports (`numOfGo()`) is at most `maxGo` -/
theorem c11_states_goCnt_le_max (c : Cfg) (hv : c.Valid) (s : St) (hr : (sys c).Reachable s) (t n : Nat)
    (hpc : (s.callers t).pc = .ret) (hres : (s.callers t).res = .goCnt n) : n ≤ c.maxGo :=
  ((reach_invABC c (Nat.le_trans hv.init_core hv.core_max) s hr).c.cl t).2.2.2.2.2.2.1 hpc n hres

/-! ### "no task starts before Start is called" -/

/-- as long as no Start call has won its CAS there is no worker goroutine at all
    (so nothing can receive, let alone run, a task) and `totalGo = 0` -/
theorem c11_no_task_before_start (c : Cfg) (hv : c.Valid) (s : St) (hr : (sys c).Reachable s)
    (h0 : s.nStartOk = 0) : s.workers = [] ∧ s.totalGo = 0 := by
  have hi := reach_invABC c (Nat.le_trans hv.init_core hv.core_max) s hr
  have hg := hi.c.glob
  have hag := hi.a.glob
  cases hl : s.life with
  | created => exact ⟨(hg.2.2.2 hl).2, (hg.2.2.2 hl).1⟩
  | running => have : s.nStartOk = 1 := hag.started_nStart (Or.inl hl); omega
  | closing => have : s.nStartOk = 1 := hag.started_nStart (Or.inr (by simp [St.ga, hl])); omega
  | stopped => have : s.nStartOk = 1 := hag.started_nStart (Or.inr (by simp [St.ga, hl])); omega
  | locked =>
    have hcr := (hi.a.loc s.holder).holder_crit hl rfl
    have hst := (hi.a.loc s.holder).crit_st hcr
    cases hs : (s.callers s.holder).st with
    | created => have := (hi.c.cl s.holder).2.2.2.2.2.2.2.2.1 hcr hs; exact ⟨this.2, this.1⟩
    | running => have : s.nStartOk = 1 := (hi.a.loc s.holder).locked_running hl rfl hs; omega
    | closing => rw [hs] at hst; simp at hst
    | stopped => rw [hs] at hst; simp at hst
    | locked => exact absurd hs hst.1

/-! ### "the lifecycle is one-way - created, running, then closing or stopped" -/

/-- rank created < running < closing < stopped of the lifecycle (the transient lock value replaced by the
    state its holder restores) never decreases along any step -/
theorem c11_lifecycle_monotone (c : Cfg) (hv : c.Valid) (s s' : St) (l : Label) (hr : (sys c).Reachable s)
    (h : step c s l = some s') : rank (base s) ≤ rank (base s') := by
  have hi := reach_invABC c (Nat.le_trans hv.init_core hv.core_max) s hr
  cases l with
  | w i a => exact life_monotone_w c s s' i a h
  | c t a => exact life_monotone_c c s s' t a hi.a h

/-- the lock value is transient: behind it there is always one of the four lifecycle states, and the
    lock is held by exactly the caller recorded as holder, who is inside trySubmit / Start -/
theorem c11_locked_has_holder (c : Cfg) (hv : c.Valid) (s : St) (hr : (sys c).Reachable s) :
    base s ≠ .locked ∧ (s.life = .locked → crit (s.callers s.holder).pc = true) ∧
    (∀ t, crit (s.callers t).pc = true → s.life = .locked ∧ s.holder = t) := by
  have hi := reach_invABC c (Nat.le_trans hv.init_core hv.core_max) s hr
  exact ⟨base_ne_locked s hi.a, fun hl => (hi.a.loc s.holder).holder_crit hl rfl, fun t ht => (hi.a.loc t).crit_locked ht⟩

/-- "Start succeeds at most once" -/
theorem c11_start_at_most_once (c : Cfg) (hv : c.Valid) (s : St) (hr : (sys c).Reachable s) : s.nStartOk ≤ 1 :=
  (reach_invABC c (Nat.le_trans hv.init_core hv.core_max) s hr).a.glob.nStart_le

/-- "Shutdown and ShutdownNow succeed at most once between them" -/
theorem c11_shutdown_at_most_once (c : Cfg) (hv : c.Valid) (s : St) (hr : (sys c).Reachable s) : s.nShutOk ≤ 1 := by
  have hg := (reach_invABC c (Nat.le_trans hv.init_core hv.core_max) s hr).a.glob
  cases hb : shutBegun s.life with
  | true => have : s.nShutOk = 1 := hg.nShut_begun hb; omega
  | false => have : s.nShutOk = 0 := hg.nShut_not hb; omega

/-- "Submit, Start, Shutdown and ShutdownNow all return errors once shutdown has begun": a call of one
    of these kinds that was *invoked* when the lifecycle already was closing/stopped (`late`) never gets
    past a successful CAS and, when it returns, returns an error -/
theorem c11_after_shutdown_all_err (c : Cfg) (hv : c.Valid) (s : St) (hr : (sys c).Reachable s) (t : Nat)
    (hlate : (s.callers t).late = true) (hk : (s.callers t).kind ≠ .states) :
    okPath (s.callers t).pc = false ∧ ((s.callers t).pc = .ret → (s.callers t).res.isErr = true) :=
  ((reach_invABC c (Nat.le_trans hv.init_core hv.core_max) s hr).a.loc t).late_err hlate hk |>.2

/-- shutdown, once begun, stays begun -/
theorem c11_shutdown_is_final (c : Cfg) (s s' : St) (l : Label) (h : step c s l = some s')
    (hb : shutBegun s.life = true) : shutBegun s'.life = true := by
  have hm : rank (base s) ≤ rank (base s') → True := fun _ => trivial
  cases l with
  | w i a =>
    obtain ⟨_, h2⟩ := wStep_frameA h
    rcases h2 with h2 | ⟨_, h3⟩
    · have : s'.life = s.life := congrArg GA.life h2
      rw [this]; exact hb
    · have : s'.life = .stopped := congrArg GA.life h3
      rw [this]; rfl
  | c t a =>
    simp only [step] at h
    cases a <;> simp only [cAct, toUnlock] at h <;> (repeat' (split at h)) <;> (try simp at h) <;> (try subst h) <;>
      simp_all

/-! ### "invalid constructor arguments are rejected" and option normalisation -/

theorem applyOpt_initGo (b : Raw) (o : Opt) : (applyOpt b o).initGo = b.initGo := by cases o <;> rfl
theorem foldl_applyOpt_initGo (opts : List Opt) (b : Raw) : (opts.foldl applyOpt b).initGo = b.initGo := by
  induction opts generalizing b with
  | nil => rfl
  | cons o os ih => simp [List.foldl, ih, applyOpt_initGo]
theorem normalise_initGo (b : Raw) : (normalise b).initGo = b.initGo := by
  unfold normalise; split <;> (try split) <;> rfl

/-- whatever `NewOnDemandBlockTaskPool` accepts satisfies 1 ≤ initGo ≤ coreGo ≤ maxGo, 0 ≤ rate ≤ 1
    (for every list of options, in any order, with repetitions) -/
theorem c11_ctor_rejects (initGo queueSize : Int) (opts : List Opt) (c : Cfg)
    (h : newPool initGo queueSize opts = .ok c) : c.Valid ∧ (1 ≤ initGo ∧ 0 ≤ queueSize) := by
  unfold newPool at h
  split at h
  · cases h
  · split at h
    · cases h
    · simp only at h
      split at h
      · cases h
      · split at h
        · cases h
        · rename_i h1 h2 h3 h4
          have hinit := (normalise_initGo _).trans (foldl_applyOpt_initGo opts ⟨initGo, initGo, initGo, 0, 1⟩)
          cases h
          generalize normalise (List.foldl applyOpt _ opts) = nb at h3 h4 hinit ⊢
          simp only [] at hinit
          refine ⟨⟨?_, ?_, ?_, ?_⟩, ?_, ?_⟩ <;> (try dsimp only) <;> omega

theorem c11_ctor_initGo (initGo queueSize : Int) (opts : List Opt) (h : initGo < 1) :
    newPool initGo queueSize opts = .error .initGo := by simp [newPool, h]

theorem c11_ctor_queueSize (initGo queueSize : Int) (opts : List Opt) (h1 : 1 ≤ initGo) (h : queueSize < 0) :
    newPool initGo queueSize opts = .error .queueSize := by
  have : ¬ initGo < 1 := by omega
  simp [newPool, this, h]

/-- the normalisation table of the option combinations (idle time and rate options do not matter) -/
theorem c11_ctor_defaults (i q : Int) (h1 : 1 ≤ i) (h2 : 0 ≤ q) :
    ∃ c, newPool i q [] = .ok c ∧ c.initGo = i.toNat ∧ c.coreGo = i.toNat ∧ c.maxGo = i.toNat := by
  have a : ¬ i < 1 := by omega
  have b : ¬ q < 0 := by omega
  simp [newPool, a, b, normalise]

theorem c11_ctor_maxOnly (i q n : Int) (h1 : 1 ≤ i) (h2 : 0 ≤ q) (hn : i ≤ n) :
    ∃ c, newPool i q [.maxGo n] = .ok c ∧ c.initGo = i.toNat ∧ c.coreGo = n.toNat ∧ c.maxGo = n.toNat := by
  have a : ¬ i < 1 := by omega
  have b : ¬ q < 0 := by omega
  by_cases hni : n = i
  · subst hni; simp [newPool, a, b, normalise, applyOpt]
  · have hlt : ¬ n < i := by omega
    simp [newPool, a, b, normalise, applyOpt, hni, hlt]

theorem c11_ctor_coreOnly (i q n : Int) (h1 : 1 ≤ i) (h2 : 0 ≤ q) (hn : i ≤ n) :
    ∃ c, newPool i q [.coreGo n] = .ok c ∧ c.initGo = i.toNat ∧ c.coreGo = n.toNat ∧ c.maxGo = n.toNat := by
  have a : ¬ i < 1 := by omega
  have b : ¬ q < 0 := by omega
  by_cases hni : n = i
  · subst hni; simp [newPool, a, b, normalise, applyOpt]
  · have hlt : ¬ n < i := by omega
    simp [newPool, a, b, normalise, applyOpt, hni, hlt]

theorem c11_ctor_order (i q k m : Int) (h1 : 1 ≤ i) (h2 : 0 ≤ q) (hk : k ≠ i) (hm : m ≠ i) (hbad : ¬ (i ≤ k ∧ k ≤ m)) :
    newPool i q [.coreGo k, .maxGo m] = .error .order := by
  have a : ¬ i < 1 := by omega
  have b : ¬ q < 0 := by omega
  simp [newPool, a, b, normalise, applyOpt, hk, hm]
  omega

theorem c11_ctor_rate (i q num : Int) (den : Nat) (h1 : 1 ≤ i) (h2 : 0 ≤ q) (hbad : num < 0 ∨ (den : Int) < num) :
    newPool i q [.rate num den] = .error .rate := by
  have a : ¬ i < 1 := by omega
  have b : ¬ q < 0 := by omega
  simp [newPool, a, b, normalise, applyOpt, hbad]

/-! non-vacuity: a valid growing configuration, and a reachable state with two workers -/
example : ∃ c, newPool 1 4 [.maxGo 2] = .ok c ∧ c.Valid ∧ c.maxGo = 2 := by
  refine ⟨⟨1, 2, 2, 4, 0, 1⟩, rfl, ⟨by decide, by decide, by decide, by decide⟩, rfl⟩

/-! ### regenerated tie: sync skeletons of every function of pool/task_pool.go -/

theorem c11_skel_NewOnDemandBlockTaskPool : Ekit.Gen.SkelC11.NewOnDemandBlockTaskPool = expected_NewOnDemandBlockTaskPool := rfl
theorem c11_skel_OnDemandBlockTaskPool_Shutdown : Ekit.Gen.SkelC11.OnDemandBlockTaskPool_Shutdown = expected_OnDemandBlockTaskPool_Shutdown := rfl
theorem c11_skel_OnDemandBlockTaskPool_ShutdownNow : Ekit.Gen.SkelC11.OnDemandBlockTaskPool_ShutdownNow = expected_OnDemandBlockTaskPool_ShutdownNow := rfl
theorem c11_skel_OnDemandBlockTaskPool_Start : Ekit.Gen.SkelC11.OnDemandBlockTaskPool_Start = expected_OnDemandBlockTaskPool_Start := rfl
theorem c11_skel_OnDemandBlockTaskPool_States : Ekit.Gen.SkelC11.OnDemandBlockTaskPool_States = expected_OnDemandBlockTaskPool_States := rfl
theorem c11_skel_OnDemandBlockTaskPool_Submit : Ekit.Gen.SkelC11.OnDemandBlockTaskPool_Submit = expected_OnDemandBlockTaskPool_Submit := rfl
theorem c11_skel_OnDemandBlockTaskPool_allowToCreateGoroutine : Ekit.Gen.SkelC11.OnDemandBlockTaskPool_allowToCreateGoroutine = expected_OnDemandBlockTaskPool_allowToCreateGoroutine := rfl
theorem c11_skel_OnDemandBlockTaskPool_decreaseTotalGo : Ekit.Gen.SkelC11.OnDemandBlockTaskPool_decreaseTotalGo = expected_OnDemandBlockTaskPool_decreaseTotalGo := rfl
theorem c11_skel_OnDemandBlockTaskPool_getState : Ekit.Gen.SkelC11.OnDemandBlockTaskPool_getState = expected_OnDemandBlockTaskPool_getState := rfl
theorem c11_skel_OnDemandBlockTaskPool_goroutine : Ekit.Gen.SkelC11.OnDemandBlockTaskPool_goroutine = expected_OnDemandBlockTaskPool_goroutine := rfl
theorem c11_skel_OnDemandBlockTaskPool_increaseTotalGo : Ekit.Gen.SkelC11.OnDemandBlockTaskPool_increaseTotalGo = expected_OnDemandBlockTaskPool_increaseTotalGo := rfl
theorem c11_skel_OnDemandBlockTaskPool_internalState : Ekit.Gen.SkelC11.OnDemandBlockTaskPool_internalState = expected_OnDemandBlockTaskPool_internalState := rfl
theorem c11_skel_OnDemandBlockTaskPool_numOfGo : Ekit.Gen.SkelC11.OnDemandBlockTaskPool_numOfGo = expected_OnDemandBlockTaskPool_numOfGo := rfl
theorem c11_skel_OnDemandBlockTaskPool_numOfGoThatCanBeCreate : Ekit.Gen.SkelC11.OnDemandBlockTaskPool_numOfGoThatCanBeCreate = expected_OnDemandBlockTaskPool_numOfGoThatCanBeCreate := rfl
theorem c11_skel_OnDemandBlockTaskPool_sendState : Ekit.Gen.SkelC11.OnDemandBlockTaskPool_sendState = expected_OnDemandBlockTaskPool_sendState := rfl
theorem c11_skel_OnDemandBlockTaskPool_trySubmit : Ekit.Gen.SkelC11.OnDemandBlockTaskPool_trySubmit = expected_OnDemandBlockTaskPool_trySubmit := rfl
theorem c11_skel_TaskFunc_Run : Ekit.Gen.SkelC11.TaskFunc_Run = expected_TaskFunc_Run := rfl
theorem c11_skel_WithCoreGo : Ekit.Gen.SkelC11.WithCoreGo = expected_WithCoreGo := rfl
theorem c11_skel_WithMaxGo : Ekit.Gen.SkelC11.WithMaxGo = expected_WithMaxGo := rfl
theorem c11_skel_WithMaxIdleTime : Ekit.Gen.SkelC11.WithMaxIdleTime = expected_WithMaxIdleTime := rfl
theorem c11_skel_WithQueueBacklogRate : Ekit.Gen.SkelC11.WithQueueBacklogRate = expected_WithQueueBacklogRate := rfl
theorem c11_skel_group_add : Ekit.Gen.SkelC11.group_add = expected_group_add := rfl
theorem c11_skel_group_delete : Ekit.Gen.SkelC11.group_delete = expected_group_delete := rfl
theorem c11_skel_group_isIn : Ekit.Gen.SkelC11.group_isIn = expected_group_isIn := rfl
theorem c11_skel_group_size : Ekit.Gen.SkelC11.group_size = expected_group_size := rfl
theorem c11_skel_taskWrapper_Run : Ekit.Gen.SkelC11.taskWrapper_Run = expected_taskWrapper_Run := rfl

end Ekit.Pool
